(* Codec/TableWriteProofs.v — Stage C, the writer: what Writer.Append / Close produce.
   Part 1 (this section): the run of the writer over a strictly increasing list keeps an
   invariant relating its state to a ghost decomposition of the input into finished blocks,
   the separators already given to the index writer, and the block being built; the separators
   satisfy   last key of block i <= sep i < first key of block i+1   (from the comparer contract;
   the Go test len(key) == 0 for "no next key" needs the empty key to be least). *)
From GL Require Import Base.Bytes Base.BytesProofs Base.Varint Base.VarintProofs Base.Order Base.OrderProofs
  Base.Cursor Base.CursorProofs Codec.Block Codec.BlockEnc Codec.BlockProofs Codec.Table Codec.TableProofs.
From Coq Require Import Arith ZArith Lia ZifyN ZifyNat ZifyBool.

Local Open Scope N_scope.

Notation kv := (bytes * bytes)%type (only parsing).

(* first and last key of a block *)
Definition fk (b : list kv) : bytes := fst (hd ([], []) b).
Definition lk (b : list kv) : bytes := fst (last b ([], [])).

Lemma last_key_lk (b : list kv) prev : b <> [] -> last_key prev b = lk b.
Proof.
  intros H. destruct (exists_last H) as (l & [k v] & ->). unfold last_key, lk.
  rewrite rev_app_distr, last_last. reflexivity.
Qed.

Section Writer.
  Variable tp : tparams.
  Variable crc : bytes -> N.
  Variable compress : bytes -> bytes.
  Variable c : comparer.
  Hypothesis c_ok : comparer_ok c.
  Hypothesis empty_least : forall k, cmp c [] k <> Gt.
  Variable blockSize : N.
  Variable ri : N.
  Hypothesis ri_pos : 1 <= ri.
  Variable snappy : bool.

  Local Notation wblock off content := (write_block tp crc compress off content snappy).
  Local Notation app1 w k v := (tw_append tp crc compress c blockSize ri snappy w k v).

  (* bytes and handle length a block contributes *)
  Definition wbytes (b : list kv) : bytes := fst (wblock 0 (block_build ri b)).
  Definition plen (b : list kv) : N := bh_len (snd (wblock 0 (block_build ri b))).

  Lemma write_block_off off content :
    wblock off content = (fst (wblock 0 content), mkBH off (bh_len (snd (wblock 0 content)))).
  Proof. unfold write_block. reflexivity. Qed.

  Fixpoint handles_from (off : N) (bl : list (list kv)) : list bhandle :=
    match bl with
    | [] => []
    | b :: r => mkBH off (plen b) :: handles_from (off + lenN (wbytes b)) r
    end.

  Definition out_of (bl : list (list kv)) : bytes := concat (map wbytes bl).

  Lemma handles_from_app off a b :
    handles_from off (a ++ b) = handles_from off a ++ handles_from (off + lenN (out_of a)) b.
  Proof.
    revert off. induction a as [|x a IH]; intros off; cbn [app handles_from].
    - unfold out_of. cbn. rewrite N.add_0_r. reflexivity.
    - rewrite IH. unfold out_of. cbn [map concat]. rewrite lenN_app. do 3 f_equal. lia.
  Qed.

  Lemma handles_from_length off bl : length (handles_from off bl) = length bl.
  Proof. revert off. induction bl as [|b r IH]; intros off; cbn [handles_from length]; [reflexivity | rewrite IH; reflexivity]. Qed.

  (* ---------------- the ghost decomposition ---------------- *)
  Record ghost := mkG {
    g_done : list (list kv);      (* finished data blocks *)
    g_seps : list bytes;          (* separators already appended to the index block *)
    g_cur : list kv               (* pairs of the block being built *)
  }.

  Definition g_all (g : ghost) : list (list kv) :=
    g_done g ++ (match g_cur g with [] => [] | _ => [g_cur g] end).

  (* the separator law against the blocks known so far *)
  Definition seps_ok (seps : list bytes) (bl : list (list kv)) : Prop :=
    forall i, (i < length seps)%nat ->
      cmp c (lk (nth i bl [])) (nth i seps []) <> Gt /\
      ((S i < length bl)%nat -> cmp c (nth i seps []) (fk (nth (S i) bl [])) = Lt).

  Definition index_of (seps : list bytes) (hs : list bhandle) : bwriter :=
    bw_append_all 1 bw_empty (combine seps (map encode_bh hs)).

  Record winv (w : twriter) (g : ghost) : Prop := {
    wi_sorted : sorted c (concat (g_done g) ++ g_cur g);
    wi_n : tw_n w = lenN (concat (g_done g) ++ g_cur g);
    wi_ne : Forall (fun b => b <> []) (g_done g);
    wi_out : tw_out w = out_of (g_done g);
    wi_index : tw_index w = index_of (g_seps g) (firstn (length (g_seps g)) (handles_from 0 (g_done g)));
    wi_seps : seps_ok (g_seps g) (g_all g);
    wi_mode :
      (* a finished block waits for its separator *)
      (g_cur g = [] /\ g_done g <> [] /\ S (length (g_seps g)) = length (g_done g) /\
       tw_pending w = last (handles_from 0 (g_done g)) bh0 /\ bh_len (tw_pending w) <> 0 /\
       tw_data w = mkBW [] 0 (lk (last (g_done g) [])) [])
      \/
      (* a block is being built (or nothing has been appended yet / Close has flushed) *)
      (tw_pending w = mkBH 0 0 /\ length (g_seps g) = length (g_done g) /\
       tw_data w = bw_append_all ri (mkBW [] 0 [] []) (g_cur g) /\
       (g_cur g = [] -> g_done g = []))
  }.

  Hypothesis plen_pos : forall b, plen b <> 0.

  Lemma winv_empty : winv tw_empty (mkG [] [] []).
  Proof.
    constructor; cbn [g_done g_seps g_cur tw_empty tw_n tw_out tw_index tw_pending tw_data concat app].
    - exact I.
    - reflexivity.
    - constructor.
    - reflexivity.
    - reflexivity.
    - intros i Hi. cbn in Hi. lia.
    - right. repeat split.
  Qed.

  (* keys of a sorted list are below a later key *)
  Lemma sorted_app_last (l : list kv) k v x :
    sorted c (l ++ [(k, v)]) -> In x l -> cmp c (fst x) k = Lt.
  Proof.
    intros Hs Hin. destruct x as [kx vx]. apply In_nth_error in Hin as (i & Hi).
    assert (Hl : (i < length l)%nat) by (apply nth_error_Some; congruence).
    apply (sorted_nth c c_ok _ i (length l) kx vx k v Hs Hl).
    - rewrite nth_error_app1 by exact Hl. exact Hi.
    - rewrite nth_error_app2 by lia. rewrite Nat.sub_diag. reflexivity.
  Qed.

  Lemma lk_in (b : list kv) : b <> [] -> In (last b ([], [])) b.
  Proof.
    intros H. destruct (exists_last H) as (l & x & ->). rewrite last_last. apply in_or_app. right. left. reflexivity.
  Qed.

  Lemma sorted_prefix (a b : list kv) : sorted c (a ++ b) -> sorted c a.
  Proof.
    intros Hs. apply sorted_nth_intro. intros i ki vi kj vj H1 H2.
    apply (sorted_nth c c_ok _ i (S i) ki vi kj vj Hs); [lia| |].
    - rewrite nth_error_app1 by (apply nth_error_Some; rewrite H1; discriminate). exact H1.
    - rewrite nth_error_app1 by (apply nth_error_Some; rewrite H2; discriminate). exact H2.
  Qed.

  (* the separator chosen by flushPendingBH(key) for a non-empty next key *)
  Lemma flush_sep_law prev key :
    key <> [] -> cmp c prev key = Lt ->
    let s := match sep c prev key with Some s => s | None => prev end in
    cmp c prev s <> Gt /\ cmp c s key = Lt.
  Proof.
    intros _ Hlt. destruct (sep c prev key) as [s|] eqn:E; cbn zeta.
    - apply (sep_ok c c_ok) in E. exact E.
    - split; [apply (OrderProofs.le_refl c c_ok) | exact Hlt].
  Qed.

  Lemma flush_succ_law prev :
    let s := match succ c prev with Some s => s | None => prev end in cmp c prev s <> Gt.
  Proof.
    destruct (succ c prev) as [s|] eqn:E; cbn zeta.
    - apply (succ_ok c c_ok) in E. exact E.
    - apply (OrderProofs.le_refl c c_ok).
  Qed.

  Lemma nth_last {A} (l : list A) d : l <> [] -> nth (length l - 1) l d = last l d.
  Proof.
    intros H. destruct (exists_last H) as (l' & x & ->). rewrite last_last, app_length. cbn [length].
    replace (length l' + 1 - 1)%nat with (length l') by lia. rewrite app_nth2 by lia. rewrite Nat.sub_diag. reflexivity.
  Qed.

  Lemma firstn_handles_snoc (bl : list (list kv)) :
    bl <> [] ->
    firstn (length bl) (handles_from 0 bl) =
    firstn (length bl - 1) (handles_from 0 bl) ++ [last (handles_from 0 bl) bh0].
  Proof.
    intros H. destruct (exists_last H) as (l' & x & ->).
    rewrite handles_from_app. cbn [handles_from]. rewrite app_length. cbn [length].
    replace (length l' + 1 - 1)%nat with (length l') by lia.
    rewrite last_last.
    rewrite firstn_app, handles_from_length.
    replace (length l' + 1 - length l')%nat with 1%nat by lia.
    rewrite (firstn_all2 (handles_from 0 l')) by (rewrite handles_from_length; lia).
    rewrite firstn_app, handles_from_length, Nat.sub_diag. cbn [firstn].
    rewrite (firstn_all2 (handles_from 0 l')) by (rewrite handles_from_length; lia).
    rewrite app_nil_r. reflexivity.
  Qed.

  Lemma combine_app' {A B} (a1 : list A) : forall (b1 : list B) a2 b2, length a1 = length b1 ->
    combine (a1 ++ a2) (b1 ++ b2) = combine a1 b1 ++ combine a2 b2.
  Proof.
    induction a1 as [|x a1 IH]; intros [|y b1] a2 b2 H; cbn [length] in H; try lia; [reflexivity|].
    cbn [app combine]. f_equal. apply IH. lia.
  Qed.

  Lemma index_of_snoc seps hs s h : length seps = length hs ->
    bw_append 1 (index_of seps hs) s (encode_bh h) = index_of (seps ++ [s]) (hs ++ [h]).
  Proof.
    intros Hl. unfold index_of, bw_append_all.
    rewrite map_app. cbn [map]. rewrite combine_app' by (rewrite map_length; exact Hl).
    cbn [combine]. rewrite fold_left_app. reflexivity.
  Qed.

  (* ---------------- flushPendingBH ---------------- *)
  (* in pending mode, with a next key that is larger than everything so far *)
  Lemma flush_pending_next w g key :
    winv w g -> g_cur g = [] -> g_done g <> [] -> S (length (g_seps g)) = length (g_done g) ->
    tw_pending w = last (handles_from 0 (g_done g)) bh0 -> bh_len (tw_pending w) <> 0 ->
    tw_data w = mkBW [] 0 (lk (last (g_done g) [])) [] ->
    key <> [] -> cmp c (lk (last (g_done g) [])) key = Lt ->
    let s := match sep c (lk (last (g_done g) [])) key with Some s => s | None => lk (last (g_done g) []) end in
    let w' := tw_flush_pending c w key in
    tw_out w' = tw_out w /\ tw_n w' = tw_n w /\ tw_pending w' = mkBH 0 0 /\
    tw_data w' = mkBW [] 0 [] [] /\ tw_curkeys w' = tw_curkeys w /\ tw_fblocks w' = tw_fblocks w /\
    tw_index w' = index_of (g_seps g ++ [s]) (firstn (length (g_done g)) (handles_from 0 (g_done g))).
  Proof.
    intros Hinv Hc Hd Hl Hp Hpl Hdata Hk Hlt s w'.
    unfold w', tw_flush_pending.
    replace (bh_len (tw_pending w) =? 0) with false by lia.
    rewrite Hdata. cbn [bw_prev bw_buf bw_n bw_restarts tw_out tw_n tw_pending tw_data tw_curkeys tw_fblocks tw_index].
    destruct key as [|k0 kr]; [congruence|]. fold s.
    repeat split.
    rewrite (wi_index w g Hinv), Hp.
    rewrite index_of_snoc.
    - f_equal. rewrite (firstn_handles_snoc (g_done g) Hd). f_equal. f_equal. lia.
    - rewrite firstn_length, handles_from_length. lia.
  Qed.

  (* ---------------- one Append ---------------- *)
  Lemma seps_ok_prefix seps bl bl' :
    seps_ok seps bl -> (length seps <= length bl)%nat ->
    (forall i, (i < length bl)%nat -> nth i bl' [] = nth i bl []) ->
    (length bl <= length bl')%nat ->
    (forall i, (i < length seps)%nat -> S i = length bl -> (S i < length bl')%nat ->
       cmp c (nth i seps []) (fk (nth (S i) bl' [])) = Lt) ->
    seps_ok seps bl'.
  Proof.
    intros Hok Hl Hsame Hlen Hnew i Hi. destruct (Hok i Hi) as [H1 H2]. split.
    - rewrite Hsame by lia. exact H1.
    - intros HS. destruct (Nat.lt_ge_cases (S i) (length bl)) as [L|L].
      + rewrite Hsame by lia. apply H2. exact L.
      + apply Hnew; try assumption. lia.
  Qed.

  Lemma bw_append_all_snoc w l k v :
    bw_append ri (bw_append_all ri w l) k v = bw_append_all ri w (l ++ [(k, v)]).
  Proof. unfold bw_append_all. rewrite fold_left_app. reflexivity. Qed.

  Lemma fk_app_cons (x : kv) l l' : fk ((x :: l) ++ l') = fk (x :: l).
  Proof. reflexivity. Qed.

  Lemma lk_snoc (l : list kv) k v : lk (l ++ [(k, v)]) = k.
  Proof. unfold lk. rewrite last_last. reflexivity. Qed.

  Lemma last_key_of_sorted (done : list (list kv)) (cur : list kv) :
    Forall (fun b => b <> []) done -> (cur = [] -> done <> []) ->
    In (last (match cur with [] => last done [] | _ => cur end) ([], [])) (concat done ++ cur).
  Proof.
    intros Hne Hc. destruct cur as [|x cur'].
    - rewrite app_nil_r. specialize (Hc eq_refl).
      apply in_concat. exists (last done []). split.
      + destruct (exists_last Hc) as (l & b & ->). rewrite last_last. apply in_or_app. right. left. reflexivity.
      + apply lk_in. rewrite Forall_forall in Hne. apply Hne.
        destruct (exists_last Hc) as (l & b & ->). rewrite last_last. apply in_or_app. right. left. reflexivity.
    - apply in_or_app. right. apply lk_in. discriminate.
  Qed.

  Theorem append_inv w g k v :
    winv w g -> sorted c ((concat (g_done g) ++ g_cur g) ++ [(k, v)]) ->
    exists w' g', app1 w k v = Some w' /\ winv w' g' /\
      concat (g_done g') ++ g_cur g' = (concat (g_done g) ++ g_cur g) ++ [(k, v)].
  Proof.
    intros Hinv Hs.
    pose proof (wi_ne w g Hinv) as Hne.
    (* every earlier key is below k *)
    assert (Hbelow : forall x, In x (concat (g_done g) ++ g_cur g) -> cmp c (fst x) k = Lt)
      by (intros x Hin; apply (sorted_app_last _ k v x Hs Hin)).
    (* phase 1: the order check and flushPendingBH leave a building-mode state *)
    assert (P1 : exists seps1,
      let w1 := tw_flush_pending c w k in
      (if (0 <? tw_n w) && negb (match cmp c (bw_prev (tw_data w)) k with Lt => true | _ => false end) then false else true) = true /\
      tw_out w1 = tw_out w /\ tw_n w1 = tw_n w /\ tw_pending w1 = mkBH 0 0 /\
      tw_data w1 = bw_append_all ri (mkBW [] 0 [] []) (g_cur g) /\
      tw_index w1 = index_of seps1 (firstn (length seps1) (handles_from 0 (g_done g))) /\
      length seps1 = length (g_done g) /\
      seps_ok seps1 (g_done g ++ [g_cur g ++ [(k, v)]])).
    { destruct (wi_mode w g Hinv) as [(Hc & Hd & Hl & Hp & Hpl & Hdata) | (Hp & Hl & Hdata & Hcd)].
      - (* pending *)
        assert (Hlast : In (last (last (g_done g) []) ([], [])) (concat (g_done g) ++ g_cur g)).
        { pose proof (last_key_of_sorted (g_done g) (g_cur g) Hne ltac:(intros _; exact Hd)) as H. rewrite Hc in H. rewrite Hc. exact H. }
        pose proof (Hbelow _ Hlast) as Hlt. fold (lk (last (g_done g) [])) in Hlt.
        assert (Hk : k <> []).
        { intros ->. apply (cmp_lt_gt c c_ok) in Hlt. apply (empty_least _ Hlt). }
        destruct (flush_pending_next w g k Hinv Hc Hd Hl Hp Hpl Hdata Hk Hlt) as (E1 & E2 & E3 & E4 & _ & _ & E7).
        set (s := match sep c (lk (last (g_done g) [])) k with Some s => s | None => lk (last (g_done g) []) end) in *.
        exists (g_seps g ++ [s]). cbv zeta.
        split.
        { rewrite Hdata. cbn [bw_prev]. rewrite Hlt. rewrite andb_false_r. reflexivity. }
        split; [exact E1|]. split; [exact E2|]. split; [exact E3|]. split; [rewrite E4, Hc; reflexivity|].
        split; [rewrite E7, app_length; cbn [length]; f_equal; f_equal; lia|].
        split; [rewrite app_length; cbn [length]; lia|].
        (* the separator law, extended by s *)
        pose proof (flush_sep_law (lk (last (g_done g) [])) k Hk Hlt) as [Hs1 Hs2]. fold s in Hs1, Hs2.
        rewrite Hc. cbn [app].
        intros i Hi. rewrite app_length in Hi. cbn [length] in Hi.
        destruct (Nat.eq_dec i (length (g_seps g))) as [->|Hni].
        + assert (Esep : nth (length (g_seps g)) (g_seps g ++ [s]) [] = s)
            by (rewrite app_nth2 by lia; rewrite Nat.sub_diag; reflexivity).
          assert (Eblk : nth (length (g_seps g)) (g_done g ++ [[(k, v)]]) [] = last (g_done g) []).
          { rewrite app_nth1 by lia. replace (length (g_seps g)) with (length (g_done g) - 1)%nat by lia.
            apply nth_last. exact Hd. }
          assert (Enext : nth (S (length (g_seps g))) (g_done g ++ [[(k, v)]]) [] = [(k, v)]).
          { rewrite Hl. rewrite app_nth2 by lia. rewrite Nat.sub_diag. reflexivity. }
          rewrite Esep, Eblk, Enext. split; [exact Hs1 | intros _; exact Hs2].
        + assert (Hi' : (i < length (g_seps g))%nat) by lia.
          destruct (wi_seps w g Hinv i Hi') as [H1 H2]. unfold g_all in H1, H2. rewrite Hc, app_nil_r in H1, H2.
          rewrite (app_nth1 (g_seps g) [s] [] Hi').
          rewrite (app_nth1 (g_done g) [[(k, v)]] []) by lia. split; [exact H1|].
          intros _. rewrite (app_nth1 (g_done g) [[(k, v)]] []) by lia. apply H2. lia.
      - (* building *)
        exists (g_seps g). cbv zeta. unfold tw_flush_pending. rewrite Hp. cbn [bh_len N.eqb].
        split.
        { destruct (N.ltb_spec 0 (tw_n w)) as [Hpos|Hz]; [|reflexivity]. cbn [andb].
          assert (Hcur : g_cur g <> []).
          { intros E. specialize (Hcd E). rewrite (wi_n w g Hinv), E, Hcd in Hpos. cbn in Hpos. lia. }
          rewrite Hdata, bw_append_all_spec. cbn [bw_prev]. rewrite (last_key_lk _ _ Hcur).
          assert (Hlt : cmp c (lk (g_cur g)) k = Lt).
          { apply (Hbelow (last (g_cur g) ([], []))). apply in_or_app. right. apply lk_in. exact Hcur. }
          rewrite Hlt. reflexivity. }
        split; [reflexivity|]. split; [reflexivity|]. split; [exact Hp|]. split; [exact Hdata|].
        split; [exact (wi_index w g Hinv)|]. split; [exact Hl|].
        (* the law is unchanged: the block being built keeps its first key *)
        pose proof (wi_seps w g Hinv) as Hok. unfold g_all in Hok.
        destruct (g_cur g) as [|x0 cur0] eqn:Ec.
        + rewrite (Hcd eq_refl) in *. intros i Hi. rewrite Hl in Hi. cbn in Hi. lia.
        + intros i Hi. destruct (Hok i Hi) as [H1 H2]. split.
          * destruct (Nat.lt_ge_cases i (length (g_done g))) as [L|L]; [|lia].
            rewrite app_nth1 in * by lia. exact H1.
          * intros HS. rewrite app_length in HS, H2. cbn [length] in HS, H2. specialize (H2 HS).
            destruct (Nat.lt_ge_cases (S i) (length (g_done g))) as [L|L].
            -- rewrite app_nth1 in * by lia. exact H2.
            -- rewrite app_nth2 in * by lia. replace (S i - length (g_done g))%nat with 0%nat in * by lia.
               cbn [nth] in *. exact H2. }
    destruct P1 as (seps1 & Hchk & E1 & E2 & E3 & E4 & E5 & E6 & Hok1).
    set (w1 := tw_flush_pending c w k) in *.
    set (cur' := g_cur g ++ [(k, v)]).
    unfold tw_append.
    destruct ((0 <? tw_n w) && negb (match cmp c (bw_prev (tw_data w)) k with Lt => true | _ => false end)); [discriminate|].
    fold w1. cbn [tw_out tw_data tw_index tw_pending tw_n tw_curkeys tw_fblocks].
    rewrite E4, bw_append_all_snoc. fold cur'.
    assert (Hcur' : cur' <> []) by (unfold cur'; destruct (g_cur g); discriminate).
    assert (Hsorted' : sorted c (concat (g_done g) ++ cur')) by (unfold cur'; rewrite app_assoc; exact Hs).
    destruct (blockSize <=? bw_bytes_len (bw_append_all ri (mkBW [] 0 [] []) cur')) eqn:Ecut.
    - (* the block is finished *)
      unfold tw_finish_block. cbn [tw_out tw_data tw_index tw_pending tw_n tw_curkeys tw_fblocks].
      assert (Efin : bw_finish (bw_append_all ri (mkBW [] 0 [] []) cur') = block_build ri cur') by reflexivity.
      rewrite Efin, (write_block_off (lenN (tw_out w1)) (block_build ri cur')).
      fold (wbytes cur'). fold (plen cur').
      eexists. exists (mkG (g_done g ++ [cur']) seps1 []). split; [reflexivity|]. split.
      + constructor; cbn [g_done g_seps g_cur tw_out tw_data tw_index tw_pending tw_n].
        * rewrite concat_app. cbn [concat]. rewrite !app_nil_r. exact Hsorted'.
        * rewrite E2, (wi_n w g Hinv), concat_app. cbn [concat]. rewrite !app_nil_r.
          unfold cur'. rewrite !lenN_app. change (lenN [(k, v)]) with 1. lia.
        * apply Forall_app. split; [exact Hne | constructor; [exact Hcur' | constructor]].
        * rewrite E1, (wi_out w g Hinv). unfold out_of. rewrite map_app, concat_app. cbn [map concat]. rewrite app_nil_r. reflexivity.
        * rewrite E5. f_equal. rewrite handles_from_app, firstn_app, handles_from_length, E6, Nat.sub_diag.
          cbn [firstn]. rewrite app_nil_r. reflexivity.
        * unfold g_all. cbn [g_done g_cur]. rewrite app_nil_r. exact Hok1.
        * left. split; [reflexivity|]. split; [destruct (g_done g); discriminate|].
          split; [rewrite app_length; cbn [length]; lia|].
          rewrite handles_from_app. cbn [handles_from]. rewrite !last_last.
          split; [rewrite E1, (wi_out w g Hinv); reflexivity|].
          split; [cbn [bh_len]; apply plen_pos|].
          unfold bw_reset. rewrite bw_append_all_spec. cbn [bw_prev].
          rewrite (last_key_lk _ _ Hcur'). reflexivity.
      + cbn [g_done g_cur]. rewrite concat_app. cbn [concat]. rewrite !app_nil_r. unfold cur'. rewrite app_assoc. reflexivity.
    - (* the block continues *)
      eexists. exists (mkG (g_done g) seps1 cur'). split; [reflexivity|]. split.
      + constructor; cbn [g_done g_seps g_cur tw_out tw_data tw_index tw_pending tw_n].
        * exact Hsorted'.
        * rewrite E2, (wi_n w g Hinv). unfold cur'. rewrite !lenN_app. change (lenN [(k, v)]) with 1. lia.
        * exact Hne.
        * rewrite E1. exact (wi_out w g Hinv).
        * exact E5.
        * unfold g_all. cbn [g_done g_cur]. destruct cur' eqn:Ec; [congruence|]. rewrite <- Ec. exact Hok1.
        * right. split; [exact E3|]. split; [exact E6|]. split; [reflexivity|]. intros E. congruence.
      + cbn [g_done g_cur]. unfold cur'. rewrite app_assoc. reflexivity.
  Qed.

  (* all Appends *)
  Theorem append_all_inv kvs : forall w g,
    winv w g -> sorted c ((concat (g_done g) ++ g_cur g) ++ kvs) ->
    exists w' g', tw_append_all tp crc compress c blockSize ri snappy w kvs = Some w' /\ winv w' g' /\
      concat (g_done g') ++ g_cur g' = (concat (g_done g) ++ g_cur g) ++ kvs.
  Proof.
    induction kvs as [|[k v] r IH]; intros w g Hinv Hs; cbn [tw_append_all].
    - exists w, g. rewrite app_nil_r. auto.
    - assert (Hs1 : sorted c ((concat (g_done g) ++ g_cur g) ++ [(k, v)])).
      { apply (sorted_prefix _ r). rewrite <- app_assoc. exact Hs. }
      destruct (append_inv w g k v Hinv Hs1) as (w1 & g1 & E1 & Hinv1 & Ep). rewrite E1.
      destruct (IH w1 g1 Hinv1) as (w' & g' & E & Hinv' & Ep').
      + rewrite Ep, <- app_assoc. exact Hs.
      + exists w', g'. split; [exact E|]. split; [exact Hinv'|]. rewrite Ep', Ep, <- app_assoc. reflexivity.
  Qed.
End Writer.

(* ------------------------------------------------------------ Part 2: reading the bytes back *)
Section ReadBack.
  Variable tp : tparams.
  Hypothesis tp_ok : tparams_ok tp.
  Variable crc : bytes -> N.
  Hypothesis crc_bound : forall b, crc b < 2 ^ 32.
  Variable compress : bytes -> bytes.
  Variable decompress : bytes -> option bytes.
  Hypothesis codec_ok : forall x, decompress (compress x) = Some x.

  Lemma sliceN_mid {A} (pre mid post : list A) :
    sliceN (lenN pre) (lenN pre + lenN mid) (pre ++ mid ++ post) = mid.
  Proof. apply sliceN_app3. Qed.

  Lemma nth_app_mid {A} (a : list A) x b d : nth (N.to_nat (lenN a)) (a ++ x :: b) d = x.
  Proof. unfold lenN. rewrite Nat2N.id. rewrite app_nth2 by lia. rewrite Nat.sub_diag. reflexivity. Qed.

  (* a block written by writeBlock is read back by readRawBlock, with or without verification *)
  Lemma read_wblock pre content post sn verify :
    let bsh := write_block tp crc compress (lenN pre) content sn in
    lenN (fst bsh) < 2 ^ 62 ->
    read_raw_block tp crc decompress (pre ++ fst bsh ++ post) (snd bsh) verify = Ok content.
  Proof.
    destruct tp_ok as (Htl & _ & _ & _ & Hty & _).
    unfold write_block. cbv zeta.
    set (payload := if sn then compress content else content).
    set (ty := if sn then tp_typeSnappy tp else tp_typeNone tp).
    assert (Eb : (if sn then compress content ++ [tp_typeSnappy tp] else content ++ [tp_typeNone tp]) = payload ++ [ty])
      by (unfold payload, ty; destruct sn; reflexivity).
    rewrite Eb. cbn [fst snd]. intros Hsz.
    set (crcv := crc (payload ++ [ty])).
    assert (Hl1 : lenN (payload ++ [ty]) = lenN payload + 1) by (rewrite lenN_app; reflexivity).
    rewrite lenN_app, Hl1, lenN_le32 in Hsz.
    unfold read_raw_block. cbn [bh_off bh_len]. rewrite Hl1, Htl.
    replace (lenN payload + 1 - 1) with (lenN payload) by lia.
    assert (B : 2 ^ 62 < 2 ^ 63) by (apply N.pow_lt_mono_r; lia).
    rewrite two63_eq. replace (2 ^ 63 <=? lenN payload + 5) with false by lia.
    assert (Eraw : sliceN (lenN pre) (lenN pre + lenN payload + 5) (pre ++ ((payload ++ [ty]) ++ le32 crcv) ++ post)
                   = payload ++ [ty] ++ le32 crcv).
    { replace (lenN pre + lenN payload + 5) with (lenN pre + lenN (payload ++ [ty] ++ le32 crcv))
        by (rewrite !lenN_app, lenN_le32; change (lenN [ty]) with 1; lia).
      rewrite <- (app_assoc payload). apply sliceN_mid. }
    rewrite Eraw.
    assert (Hlr : lenN (payload ++ [ty] ++ le32 crcv) = lenN payload + 5)
      by (rewrite !lenN_app, lenN_le32; change (lenN [ty]) with 1; lia).
    rewrite Hlr. replace (lenN payload + 5 <? lenN payload + 5) with false by lia.
    assert (Edrop : dropN (lenN payload + 1) (payload ++ [ty] ++ le32 crcv) = le32 crcv).
    { rewrite app_assoc. rewrite <- Hl1. apply dropN_app. }
    assert (Etake : takeN (lenN payload + 1) (payload ++ [ty] ++ le32 crcv) = payload ++ [ty]).
    { rewrite app_assoc. rewrite <- Hl1. apply takeN_app. }
    rewrite Edrop, Etake, (le32_decode crcv (crc_bound _)). fold crcv. rewrite N.eqb_refl. cbn [negb]. rewrite andb_false_r.
    change ([ty] ++ le32 crcv) with (ty :: le32 crcv). rewrite nth_app_mid.
    change (ty :: le32 crcv) with ([ty] ++ le32 crcv).
    assert (Etk : takeN (lenN payload) (payload ++ [ty] ++ le32 crcv) = payload) by apply takeN_app.
    rewrite Etk. unfold ty, payload. destruct sn.
    - replace (tp_typeSnappy tp =? tp_typeNone tp) with false by (symmetry; apply N.eqb_neq; congruence).
      rewrite N.eqb_refl, codec_ok. reflexivity.
    - rewrite N.eqb_refl. reflexivity.
  Qed.
End ReadBack.

(* ------------------------------------------------------------ Part 3: Close *)
Section Close.
  Variable tp : tparams.
  Variable crc : bytes -> N.
  Variable compress : bytes -> bytes.
  Variable c : comparer.
  Hypothesis c_ok : comparer_ok c.
  Hypothesis empty_least : forall k, cmp c [] k <> Gt.
  Variable blockSize : N.
  Variable ri : N.
  Hypothesis ri_pos : 1 <= ri.
  Variable snappy : bool.
  Hypothesis plen_pos : forall b, plen tp crc compress ri snappy b <> 0.

  Local Notation wbytes := (wbytes tp crc compress ri snappy).
  Local Notation plen := (plen tp crc compress ri snappy).
  Local Notation handles_from := (handles_from tp crc compress ri snappy).
  Local Notation out_of := (out_of tp crc compress ri snappy).
  Local Notation winv := (winv tp crc compress c ri snappy).

  (* flushPendingBH in general: the pending handle gets its separator *)
  Lemma flush_pending_gen w bl seps prev key :
    bl <> [] -> S (length seps) = length bl ->
    tw_pending w = last (handles_from 0 bl) bh0 -> bh_len (tw_pending w) <> 0 ->
    tw_data w = mkBW [] 0 prev [] ->
    tw_index w = index_of seps (firstn (length seps) (handles_from 0 bl)) ->
    let s := match (match key with [] => succ c prev | _ => sep c prev key end) with Some s => s | None => prev end in
    let w' := tw_flush_pending c w key in
    tw_out w' = tw_out w /\ tw_n w' = tw_n w /\ tw_pending w' = mkBH 0 0 /\
    tw_data w' = mkBW [] 0 [] [] /\ tw_fblocks w' = tw_fblocks w /\
    tw_index w' = index_of (seps ++ [s]) (handles_from 0 bl).
  Proof.
    intros Hd Hl Hp Hpl Hdata Hidx s w'. unfold w', tw_flush_pending.
    replace (bh_len (tw_pending w) =? 0) with false by lia.
    rewrite Hdata. cbn [bw_prev bw_buf bw_n bw_restarts tw_out tw_n tw_pending tw_data tw_curkeys tw_fblocks tw_index].
    fold s. repeat split.
    rewrite Hidx, Hp, (index_of_snoc ri ri_pos).
    - f_equal. rewrite <- (firstn_all (handles_from 0 bl)) at 3. rewrite handles_from_length.
      rewrite (firstn_handles_snoc tp crc compress ri ri_pos snappy plen_pos bl Hd). f_equal. f_equal. lia.
    - rewrite firstn_length, handles_from_length. lia.
  Qed.

  (* the final law: every block is below its separator, every separator below the next block *)
  Definition seps_final (seps : list bytes) (bl : list (list kv)) : Prop :=
    forall i, (i < length bl)%nat ->
      cmp c (lk (nth i bl [])) (nth i seps []) <> Gt /\
      ((S i < length bl)%nat -> cmp c (nth i seps []) (fk (nth (S i) bl [])) = Lt).

  (* the state Close reaches after writing the last data block and flushing its handle *)
  Record closed (w2 : twriter) (bl : list (list kv)) (seps : list bytes) : Prop := {
    cl_out : tw_out w2 = out_of bl;
    cl_index : tw_index w2 = index_of seps (handles_from 0 bl);
    cl_len : length seps = length bl;
    cl_data : tw_data w2 = mkBW [] 0 [] [];
    cl_ne : bl <> [];
    cl_blocks : Forall (fun b => b <> []) bl \/ bl = [[]];
    cl_law : seps_final seps bl
  }.

  Lemma succ_le prev : cmp c prev (match succ c prev with Some s => s | None => prev end) <> Gt.
  Proof.
    destruct (succ c prev) as [s|] eqn:E; [apply (succ_ok c c_ok) in E; exact E | apply (OrderProofs.le_refl c c_ok)].
  Qed.

  Theorem close_state w g : winv w g ->
    let w1 := if (0 <? bw_n (tw_data w)) || (tw_n w =? 0) then tw_finish_block tp crc compress snappy w else w in
    let w2 := tw_flush_pending c w1 [] in
    exists bl seps, closed w2 bl seps /\ concat bl = concat (g_done g) ++ g_cur g.
  Proof.
    intros Hinv w1 w2.
    pose proof (wi_ne _ _ _ _ _ _ w g Hinv) as Hne.
    destruct (wi_mode _ _ _ _ _ _ w g Hinv) as [(Hc & Hd & Hl & Hp & Hpl & Hdata) | (Hp & Hl & Hdata & Hcd)].
    - (* a finished block is pending: nothing to finish *)
      assert (Hn : tw_n w <> 0).
      { rewrite (wi_n _ _ _ _ _ _ w g Hinv), Hc, app_nil_r.
        destruct (exists_last Hd) as (l & b & E). rewrite E in *. rewrite concat_app, lenN_app. cbn [concat].
        rewrite app_nil_r. apply Forall_app in Hne as [_ Hb]. inversion Hb as [|? ? Hb1 _]; subst.
        destruct b; [congruence|]. rewrite lenN_cons. lia. }
      assert (Ew1 : w1 = w).
      { unfold w1. rewrite Hdata. cbn [bw_n]. replace (tw_n w =? 0) with false by lia. reflexivity. }
      unfold w2. rewrite Ew1.
      pose proof (wi_index _ _ _ _ _ _ w g Hinv) as Hidx.
      destruct (flush_pending_gen w (g_done g) (g_seps g) (lk (last (g_done g) [])) [] Hd Hl Hp Hpl Hdata Hidx)
        as (E1 & E2 & E3 & E4 & _ & E6).
      set (s := match succ c (lk (last (g_done g) [])) with Some s => s | None => lk (last (g_done g) []) end) in *.
      exists (g_done g), (g_seps g ++ [s]). split; [|rewrite Hc, app_nil_r; reflexivity].
      constructor.
      + rewrite E1. exact (wi_out _ _ _ _ _ _ w g Hinv).
      + exact E6.
      + rewrite app_length. cbn [length]. lia.
      + exact E4.
      + exact Hd.
      + left. exact Hne.
      + pose proof (wi_seps _ _ _ _ _ _ w g Hinv) as Hok. unfold g_all in Hok. rewrite Hc, app_nil_r in Hok.
        intros i Hi. destruct (Nat.eq_dec i (length (g_seps g))) as [->|Hni].
        * rewrite app_nth2 by lia. rewrite Nat.sub_diag. cbn [nth].
          replace (length (g_seps g)) with (length (g_done g) - 1)%nat by lia.
          rewrite (nth_last ri ri_pos (g_done g) [] Hd). split; [apply succ_le | intros; lia].
        * assert (Hi' : (i < length (g_seps g))%nat) by lia.
          rewrite (app_nth1 (g_seps g) [s] [] Hi'). apply Hok. exact Hi'.
    - (* a block is being built, or the table is empty: finish it *)
      assert (Ew1 : w1 = tw_finish_block tp crc compress snappy w).
      { unfold w1. destruct (g_cur g) as [|x0 cur0] eqn:Ec.
        - rewrite (wi_n _ _ _ _ _ _ w g Hinv), Ec, (Hcd eq_refl). cbn. rewrite orb_true_r. reflexivity.
        - rewrite Hdata, bw_append_all_spec. cbn [bw_n]. rewrite lenN_cons.
          replace (0 <? 0 + (1 + lenN cur0)) with true by lia. reflexivity. }
      set (cur := g_cur g) in *.
      assert (Efin : bw_finish (tw_data w) = block_build ri cur) by (rewrite Hdata; reflexivity).
      set (bl := g_done g ++ [cur]).
      assert (Hbl : bl <> []) by (unfold bl; destruct (g_done g); discriminate).
      (* the state after finishBlock *)
      assert (F : tw_out w1 = out_of bl /\ tw_pending w1 = last (handles_from 0 bl) bh0 /\
                  tw_data w1 = mkBW [] 0 (last_key [] cur) [] /\ tw_index w1 = tw_index w).
      { rewrite Ew1. unfold tw_finish_block. rewrite Efin, (write_block_off tp crc compress snappy (lenN (tw_out w)) (block_build ri cur)).
        cbn [tw_out tw_pending tw_data tw_index]. fold (wbytes cur). fold (plen cur).
        split; [|split; [|split]].
        - rewrite (wi_out _ _ _ _ _ _ w g Hinv). unfold bl, TableWriteProofs.out_of. rewrite map_app, concat_app. cbn [map concat]. rewrite app_nil_r. reflexivity.
        - unfold bl. rewrite (handles_from_app tp crc compress ri ri_pos snappy). cbn [TableWriteProofs.handles_from]. rewrite last_last.
          rewrite (wi_out _ _ _ _ _ _ w g Hinv). reflexivity.
        - unfold bw_reset. rewrite Hdata, bw_append_all_spec. cbn [bw_prev]. reflexivity.
        - reflexivity. }
      destruct F as (F1 & F2 & F3 & F4).
      assert (Hidx : tw_index w1 = index_of (g_seps g) (firstn (length (g_seps g)) (handles_from 0 bl))).
      { rewrite F4, (wi_index _ _ _ _ _ _ w g Hinv). f_equal. unfold bl. rewrite (handles_from_app tp crc compress ri ri_pos snappy), firstn_app, handles_from_length, Hl, Nat.sub_diag.
        cbn [firstn]. rewrite app_nil_r. reflexivity. }
      assert (Hpl : bh_len (tw_pending w1) <> 0).
      { rewrite F2. unfold bl. rewrite (handles_from_app tp crc compress ri ri_pos snappy). cbn [TableWriteProofs.handles_from]. rewrite last_last. cbn [bh_len]. apply plen_pos. }
      assert (Hl' : S (length (g_seps g)) = length bl) by (unfold bl; rewrite app_length; cbn [length]; lia).
      destruct (flush_pending_gen w1 bl (g_seps g) (last_key [] cur) [] Hbl Hl' F2 Hpl F3 Hidx)
        as (E1 & E2 & E3 & E4 & _ & E6).
      set (s := match succ c (last_key [] cur) with Some s => s | None => last_key [] cur end) in *.
      exists bl, (g_seps g ++ [s]). split.
      + constructor.
        * unfold w2. rewrite E1. exact F1.
        * exact E6.
        * rewrite app_length. cbn [length]. lia.
        * exact E4.
        * exact Hbl.
        * destruct cur as [|x0 cur0] eqn:Ec.
          -- right. unfold bl. rewrite (Hcd eq_refl). reflexivity.
          -- left. unfold bl. apply Forall_app. split; [exact Hne | constructor; [discriminate | constructor]].
        * pose proof (wi_seps _ _ _ _ _ _ w g Hinv) as Hok. unfold g_all in Hok. fold cur in Hok.
          intros i Hi. destruct (Nat.eq_dec i (length (g_seps g))) as [->|Hni].
          -- rewrite app_nth2 by lia. rewrite Nat.sub_diag. cbn [nth].
             unfold bl. rewrite Hl. rewrite app_nth2 by lia. rewrite Nat.sub_diag. cbn [nth].
             split; [|intros HS; rewrite app_length in HS; cbn [length] in HS; lia].
             destruct cur as [|x0 cur0] eqn:Ec.
             ++ unfold lk, s, last_key. cbn [last rev fst]. apply succ_le.
             ++ rewrite <- (last_key_lk (x0 :: cur0) []) by discriminate. apply succ_le.
          -- assert (Hi' : (i < length (g_seps g))%nat) by (unfold bl in Hi; rewrite app_length in Hi; cbn [length] in Hi; lia).
             rewrite (app_nth1 (g_seps g) [s] [] Hi').
             destruct cur as [|x0 cur0] eqn:Ec.
             ++ (* empty table: no separators yet *) rewrite (Hcd eq_refl) in Hl. cbn in Hl. lia.
             ++ unfold bl. exact (Hok i Hi').
      + unfold bl. rewrite concat_app. cbn [concat]. rewrite app_nil_r. reflexivity.
  Qed.
End Close.

(* ------------------------------------------------------------ Part 4: the written file is a well-formed table *)
Lemma decode_bh_app h rest : bh_off h < 2 ^ 64 -> bh_len h < 2 ^ 64 ->
  decode_bh (encode_bh h ++ rest) = BhOk h (lenN (encode_bh h)).
Proof.
  intros H1 H2. unfold decode_bh, encode_bh. rewrite <- app_assoc.
  rewrite uvarint_put by exact H1. rewrite dropN_app. rewrite uvarint_put by exact H2.
  destruct h as [o l]; cbn [bh_off bh_len]. rewrite lenN_app. reflexivity.
Qed.

Lemma encode_bh_len h : lenN (encode_bh h) <= 20.
Proof.
  unfold encode_bh. rewrite lenN_app.
  pose proof (put_uvarint_length (bh_off h)). pose proof (put_uvarint_length (bh_len h)). lia.
Qed.

Lemma lenN_repeat {A} (x : A) n : lenN (repeat x n) = N.of_nat n.
Proof. unfold lenN. rewrite repeat_length. reflexivity. Qed.

Lemma block_build_len_pos ri b : 4 <= lenN (block_build ri b).
Proof.
  unfold block_build, bw_finish. rewrite lenN_app, lenN_flat_le32, lenN_app. change (lenN [_]) with 1. lia.
Qed.

Section Final.
  Variable tp : tparams.
  Hypothesis tp_ok : tparams_ok tp.
  Variable crc : bytes -> N.
  Hypothesis crc_bound : forall b, crc b < 2 ^ 32.
  Variable compress : bytes -> bytes.
  Variable decompress : bytes -> option bytes.
  Hypothesis codec_ok : forall x, decompress (compress x) = Some x.
  Variable fcontains : bytes -> N -> bytes -> bool.
  Variable c : comparer.
  Hypothesis c_ok : comparer_ok c.
  Hypothesis empty_least : forall k, cmp c [] k <> Gt.
  Variable blockSize : N.
  Variable ri : N.
  Hypothesis ri_pos : 1 <= ri.
  Variable fgen : option (bytes * (list (N * list bytes) -> bytes)).

  (* NoCompression: every block is in the file as it is, so the file length bounds every block *)
  Local Notation snappy := false.
  Local Notation wbytes := (wbytes tp crc compress ri snappy).
  Local Notation plen := (plen tp crc compress ri snappy).
  Local Notation handles_from := (handles_from tp crc compress ri snappy).
  Local Notation out_of := (out_of tp crc compress ri snappy).

  Lemma plen_pos b : plen b <> 0.
  Proof.
    unfold TableWriteProofs.plen, write_block. cbn [snd bh_len].
    rewrite lenN_app. change (lenN [_]) with 1. pose proof (block_build_len_pos ri b). lia.
  Qed.

  Lemma wbytes_len b : lenN (wbytes b) = lenN (block_build ri b) + 5.
  Proof.
    unfold TableWriteProofs.wbytes, write_block. cbn [fst]. rewrite !lenN_app, lenN_le32. change (lenN [_]) with 1. lia.
  Qed.

  Lemma handles_nth bl : forall off j, (j < length bl)%nat ->
    nth j (handles_from off bl) bh0 = mkBH (off + lenN (out_of (firstn j bl))) (plen (nth j bl [])).
  Proof.
    induction bl as [|b r IH]; intros off j Hj; cbn [length] in Hj; [lia|].
    destruct j as [|j]; cbn [TableWriteProofs.handles_from nth firstn].
    - unfold TableWriteProofs.out_of. cbn. rewrite N.add_0_r. reflexivity.
    - rewrite IH by lia. unfold TableWriteProofs.out_of. cbn [map concat]. rewrite lenN_app. f_equal. lia.
  Qed.

  Lemma out_of_split bl j : (j < length bl)%nat ->
    out_of bl = out_of (firstn j bl) ++ wbytes (nth j bl []) ++ out_of (skipn (S j) bl).
  Proof.
    intros Hj. unfold TableWriteProofs.out_of. rewrite (BlockEnc.split_nth bl j [] Hj) at 1.
    rewrite map_app, concat_app. cbn [map concat]. reflexivity.
  Qed.

  Lemma wblock_eq off b :
    write_block tp crc compress off (block_build ri b) snappy = (wbytes b, mkBH off (plen b)).
  Proof. apply write_block_off. Qed.

  (* reading data block j of a file that starts with the data blocks *)
  Lemma fetch_written bl rest j verify : (j < length bl)%nat ->
    lenN (out_of bl ++ rest) < 2 ^ 32 ->
    read_block_at tp crc decompress (out_of bl ++ rest) (nth j (handles_from 0 bl) bh0) verify
    = Ok (built ri (nth j bl [])).
  Proof.
    intros Hj Hsz. rewrite (handles_nth bl 0 j Hj), N.add_0_l.
    rewrite (out_of_split bl j Hj), <- !app_assoc.
    set (pre := out_of (firstn j bl)). set (b := nth j bl []).
    pose proof (read_wblock tp tp_ok crc crc_bound compress decompress codec_ok pre (block_build ri b)
                  (out_of (skipn (S j) bl) ++ rest) snappy verify) as R.
    cbv zeta in R. rewrite (wblock_eq (lenN pre) b) in R. cbn [fst snd] in R.
    assert (B : 2 ^ 32 < 2 ^ 62) by (apply N.pow_lt_mono_r; lia).
    assert (Hw : lenN (wbytes b) < 2 ^ 32).
    { rewrite (out_of_split bl j Hj), <- !app_assoc in Hsz. fold pre b in Hsz. rewrite !lenN_app in Hsz. lia. }
    unfold read_block_at. rewrite R by lia. cbn [bind_res].
    apply read_block_build; [exact ri_pos|]. rewrite wbytes_len in Hw. lia.
  Qed.

  (* ---------------- the shape of the file Close produces ---------------- *)
  Definition foot_of (metaBH indexBH : bhandle) : bytes :=
    let handles := encode_bh metaBH ++ encode_bh indexBH in
    handles ++ repeat 0 (N.to_nat (tp_footerLen tp - lenN (tp_magic tp) - lenN handles)) ++ tp_magic tp.

  Definition nbytes (content : bytes) : bytes := fst (write_block tp crc compress 0 content false).

  Lemma nbytes_len content : lenN (nbytes content) = lenN content + 5.
  Proof. unfold nbytes, write_block. cbn [fst]. rewrite !lenN_app, lenN_le32. change (lenN [_]) with 1. lia. Qed.

  Lemma wb_plain off content :
    write_block tp crc compress off content false = (nbytes content, mkBH off (lenN content)).
  Proof.
    rewrite write_block_off. unfold nbytes. f_equal. f_equal. unfold write_block. cbn [snd bh_len].
    rewrite lenN_app. change (lenN [_]) with 1. lia.
  Qed.

  Lemma tw_close_shape w w2 :
    w2 = tw_flush_pending c (if (0 <? bw_n (tw_data w)) || (tw_n w =? 0) then tw_finish_block tp crc compress false w else w) [] ->
    tw_data w2 = mkBW [] 0 [] [] ->
    exists F ml,
      (tw_close tp crc compress c ri false fgen w =
      let out3 := tw_out w2 ++ F in
      let M := block_build ri ml in
      let I := bw_finish (tw_index w2) in
      let metaBH := mkBH (lenN out3) (lenN M) in
      let indexBH := mkBH (lenN (out3 ++ nbytes M)) (lenN I) in
      ((out3 ++ nbytes M) ++ nbytes I) ++ foot_of metaBH indexBH) /\
      (ml = [] \/ exists wname fl, ml = [(filter_prefix ++ wname, encode_bh (mkBH (lenN (tw_out w2)) fl))] /\ lenN F = fl + 5).
  Proof.
    intros E2 Hdata. unfold tw_close. rewrite <- E2.
    assert (Emw0 : bw_finish (tw_data w2) = block_build ri []) by (rewrite Hdata; reflexivity).
    assert (Emw1 : forall k v, bw_finish (bw_append ri (tw_data w2) k v) = block_build ri [(k, v)])
      by (intros k v; rewrite Hdata; reflexivity).
    destruct fgen as [[name gen]|].
    - set (content := gen (rev (tw_fblocks w2))).
      destruct (0 <? lenN content) eqn:Epos.
      + rewrite (wb_plain (lenN (tw_out w2)) content). cbn [bh_len]. rewrite Epos.
        exists (nbytes content), [(filter_prefix ++ name, encode_bh (mkBH (lenN (tw_out w2)) (lenN content)))].
        split; [rewrite Emw1, !wb_plain; cbv zeta; unfold foot_of; rewrite <- !app_assoc; reflexivity|].
        right. exists name, (lenN content). split; [reflexivity | apply nbytes_len].
      + cbn [bh_len N.ltb N.compare]. exists [], [].
        split; [rewrite Emw0, !wb_plain; cbv zeta; unfold foot_of; rewrite !app_nil_r, <- !app_assoc; reflexivity | left; reflexivity].
    - exists [], []. split; [rewrite Emw0, !wb_plain; cbv zeta; unfold foot_of; rewrite !app_nil_r, <- !app_assoc; reflexivity | left; reflexivity].
  Qed.

  Lemma foot_len metaBH indexBH : lenN (foot_of metaBH indexBH) = tp_footerLen tp.
  Proof.
    destruct tp_ok as (_ & Hm & Hf & _). unfold foot_of. cbv zeta.
    rewrite !lenN_app, lenN_repeat. pose proof (encode_bh_len metaBH). pose proof (encode_bh_len indexBH).
    rewrite N2Nat.id. lia.
  Qed.

  (* NewReader on such a file; [fname] = the reader's filter name, if it has a filter *)
  Lemma open_written body M metaBH indexBH fname verify :
    let file := body ++ foot_of metaBH indexBH in
    bh_off metaBH < 2 ^ 64 -> bh_len metaBH < 2 ^ 64 -> bh_off indexBH < 2 ^ 64 -> bh_len indexBH < 2 ^ 64 ->
    read_block_at tp crc decompress file metaBH true = Ok M ->
    open_table tp crc decompress fcontains c file fname verify =
    let mit := new_block_iter c M None true in
    let filterBH := match fname with Some name => meta_scan (bi_fuel mit) mit name | None => None end in
    mkTR (read_block_at tp crc decompress file indexBH true)
         (fun h => read_block_at tp crc decompress file h verify)
         (match filterBH with Some h => read_filter_block tp crc decompress fcontains file h | None => None end)
         (match filterBH with Some h => bh_off h | None => bh_off metaBH end).
  Proof.
    intros file H1 H2 H3 H4 HM. destruct tp_ok as (_ & Hm & Hf & _).
    pose proof (foot_len metaBH indexBH) as Hfl.
    unfold open_table.
    assert (Hsz : lenN file = lenN body + tp_footerLen tp) by (unfold file; rewrite lenN_app, Hfl; reflexivity).
    replace (lenN file <? tp_footerLen tp) with false by lia.
    replace (lenN file - tp_footerLen tp) with (lenN body) by lia.
    assert (Efoot : dropN (lenN body) file = foot_of metaBH indexBH) by (unfold file; apply dropN_app).
    rewrite !Efoot.
    assert (Emagic : dropN (tp_footerLen tp - lenN (tp_magic tp)) (foot_of metaBH indexBH) = tp_magic tp).
    { unfold foot_of. cbv zeta. rewrite app_assoc.
      set (hp := (encode_bh metaBH ++ encode_bh indexBH) ++ repeat 0 (N.to_nat (tp_footerLen tp - lenN (tp_magic tp) - lenN (encode_bh metaBH ++ encode_bh indexBH)))).
      assert (Ehp : lenN hp = tp_footerLen tp - lenN (tp_magic tp)).
      { unfold hp. rewrite lenN_app, lenN_repeat, N2Nat.id. rewrite lenN_app.
        pose proof (encode_bh_len metaBH). pose proof (encode_bh_len indexBH). lia. }
      rewrite <- Ehp. rewrite <- (app_nil_r (tp_magic tp)) at 1. rewrite dropN_app. apply app_nil_r. }
    rewrite Emagic.
    assert (Ebeq : beq (tp_magic tp) (tp_magic tp) = true) by (apply beq_eq; reflexivity).
    rewrite Ebeq. cbn [negb].
    unfold foot_of at 1. cbv zeta. rewrite <- app_assoc. rewrite (decode_bh_app metaBH _ H1 H2).
    unfold foot_of at 1. cbv zeta. rewrite <- app_assoc. rewrite dropN_app. rewrite (decode_bh_app indexBH _ H3 H4).
    rewrite HM. reflexivity.
  Qed.

  (* the metaindex scan of NewReader over the block Close wrote: nothing, or the filter handle *)
  Lemma meta_scan_built ml name wname fBH :
    lenN (block_build ri ml) < 2 ^ 32 -> bh_off fBH < 2 ^ 64 -> bh_len fBH < 2 ^ 64 ->
    (ml = [] \/ ml = [(filter_prefix ++ wname, encode_bh fBH)]) ->
    let mit := new_block_iter c (built ri ml) None true in
    meta_scan (bi_fuel mit) mit name = None \/ meta_scan (bi_fuel mit) mit name = Some fBH.
  Proof.
    intros Hsz Ho Hl Hml mit.
    pose proof (build_layout ri ml ri_pos Hsz) as lay.
    assert (Hfu : exists f, bi_fuel mit = S (S f)).
    { unfold mit, bi_fuel. cbn [new_block_iter bi_unsliced bi_blk built b_data].
      pose proof (block_build_len_pos ri ml) as H4. unfold lenN in H4.
      destruct (length (block_build ri ml)) as [|[|n]] eqn:E; try lia. eauto. }
    destruct Hfu as (f & Ef). rewrite Ef. cbn [meta_scan].
    destruct (next_step ml _ _ _ lay mit CSOI (rep_unsliced _ _ _ _)) as (ok & it' & E & R & Eok).
    rewrite E. destruct Hml as [-> | ->].
    - cbn [c_next] in Eok. unfold c_first in Eok. subst ok. left. reflexivity.
    - cbn [c_next] in R, Eok. unfold c_first in R, Eok. subst ok. cbn [negb].
      pose proof R as (_ & _ & _ & Hk & Hv & _).
      unfold key_at, val_at in Hk, Hv. cbn [nth fst snd] in Hk, Hv. rewrite Hk, Hv.
      assert (Esw : starts_with filter_prefix (filter_prefix ++ wname) = true).
      { unfold starts_with. rewrite takeN_app. apply andb_true_intro. split; [apply beq_eq; reflexivity|].
        rewrite lenN_app. lia. }
      rewrite Esw, dropN_app. cbn [andb].
      destruct (beq wname name).
      + rewrite (decode_encode_bh _ Ho Hl). right. reflexivity.
      + (* the name differs: the scan goes on and ends *)
        assert (R' : rep [(filter_prefix ++ wname, encode_bh fBH)] (built ri [(filter_prefix ++ wname, encode_bh fBH)])
                       (b_off ri [(filter_prefix ++ wname, encode_bh fBH)]) (b_ris ri [(filter_prefix ++ wname, encode_bh fBH)]) it' (CAt 0)).
        { destruct (next_step _ _ _ _ lay mit CSOI (rep_unsliced _ _ _ _)) as (ok2 & it2 & E2 & R2 & _).
          rewrite E in E2. injection E2 as _ <-. exact R2. }
        destruct (next_step _ _ _ _ lay it' (CAt 0) R') as (ok3 & it3 & E3 & R3 & Eok3). rewrite E3.
        cbn [c_next length Nat.ltb Nat.leb] in Eok3. subst ok3. left. reflexivity.
  Qed.

  (* ---------------- order facts inside and across blocks ---------------- *)
  Lemma sorted_infix (a b d : list kv) : sorted c (a ++ b ++ d) -> sorted c b.
  Proof.
    intros Hs. apply sorted_nth_intro. intros i ki vi kj vj H1 H2.
    apply (sorted_nth c c_ok _ (length a + i) (length a + S i) ki vi kj vj Hs); [lia| |].
    - rewrite nth_error_app2 by lia. replace (length a + i - length a)%nat with i by lia.
      rewrite nth_error_app1 by (apply nth_error_Some; rewrite H1; discriminate). exact H1.
    - rewrite nth_error_app2 by lia. replace (length a + S i - length a)%nat with (S i) by lia.
      rewrite nth_error_app1 by (apply nth_error_Some; rewrite H2; discriminate). exact H2.
  Qed.

  Lemma sorted_le_lk (b : list kv) x : sorted c b -> In x b -> cmp c (fst x) (lk b) <> Gt.
  Proof.
    intros Hs Hin. assert (Hne : b <> []) by (destruct b; [destruct Hin | discriminate]).
    destruct (exists_last Hne) as (l & [kl vl] & ->). unfold lk. rewrite last_last. cbn [fst].
    apply in_app_or in Hin as [Hin|[<-|[]]].
    - apply (OrderProofs.lt_le c). apply (sorted_app_last tp crc compress c c_ok empty_least ri ri_pos false plen_pos l kl vl x Hs Hin).
    - apply (OrderProofs.le_refl c c_ok).
  Qed.

  Lemma sorted_fk_le (b : list kv) x : sorted c b -> In x b -> cmp c (fk b) (fst x) <> Gt.
  Proof.
    intros Hs Hin. destruct b as [|[k0 v0] r]; [destruct Hin|]. unfold fk. cbn [hd fst].
    destruct Hin as [<-|Hin]; [apply (OrderProofs.le_refl c c_ok)|].
    apply (OrderProofs.lt_le c). apply In_nth_error in Hin as (i & Hi). destruct x as [kx vx].
    apply (sorted_nth c c_ok ((k0, v0) :: r) 0 (S i) k0 v0 kx vx Hs); [lia | reflexivity | exact Hi].
  Qed.

  Lemma out_of_firstn_le bl i j : (i <= j)%nat -> lenN (out_of (firstn i bl)) <= lenN (out_of (firstn j bl)).
  Proof.
    intros Hij. replace j with (i + (j - i))%nat by lia. generalize (j - i)%nat as d. intros d. clear Hij.
    revert i. induction bl as [|b r IH]; intros i.
    - rewrite !firstn_nil. lia.
    - destruct i as [|i]; cbn [plus firstn].
      + unfold TableWriteProofs.out_of at 1. cbn [map concat]. change (lenN (@nil N)) with 0. lia.
      + unfold TableWriteProofs.out_of in *. cbn [map concat]. rewrite !lenN_app. specialize (IH i). lia.
  Qed.

  Lemma out_of_firstn_le_all bl j : lenN (out_of (firstn j bl)) <= lenN (out_of bl).
  Proof.
    destruct (Nat.le_gt_cases j (length bl)) as [L|L].
    - rewrite <- (firstn_all bl) at 2. apply out_of_firstn_le. exact L.
    - rewrite firstn_all2 by lia. lia.
  Qed.

  (* ---------------- the theorem ---------------- *)
  Theorem table_wf_of_write kvs file fname verify :
    sorted c kvs ->
    twrite tp crc compress c blockSize ri false fgen kvs = Some file ->
    lenN file < 2 ^ 32 ->
    exists blocks seps hs,
      table_wf c (open_table tp crc decompress fcontains c file fname verify) blocks seps hs /\
      tkvs blocks = kvs.
  Proof.
    intros Hsorted Hw Hsize. unfold twrite in Hw.
    destruct (append_all_inv tp crc compress c c_ok empty_least blockSize ri ri_pos false plen_pos kvs
                tw_empty (mkG [] [] []) (winv_empty tp crc compress c ri ri_pos false) Hsorted)
      as (w & g & Ew & Hinv & Ecat).
    cbn [g_done g_cur concat app] in Ecat.
    rewrite Ew in Hw. cbn [option_map] in Hw. injection Hw as Hfile.
    destruct (close_state tp crc compress c c_ok empty_least ri ri_pos false plen_pos w g Hinv) as (bl & seps & Hcl & Ebl).
    cbv zeta in Hcl.
    set (w2 := tw_flush_pending c (if (0 <? bw_n (tw_data w)) || (tw_n w =? 0) then tw_finish_block tp crc compress false w else w) []) in *.
    destruct (tw_close_shape w w2 eq_refl (cl_data _ _ _ _ _ _ _ _ _ Hcl)) as (F & ml & Eshape & Hml).
    rewrite Eshape in Hfile. cbv zeta in Hfile.
    rewrite (cl_out _ _ _ _ _ _ _ _ _ Hcl), (cl_index _ _ _ _ _ _ _ _ _ Hcl) in Hfile.
    set (hs := handles_from 0 bl) in *.
    set (out3 := out_of bl ++ F) in *.
    set (M := block_build ri ml) in *.
    set (I := bw_finish (index_of seps hs)) in *.
    set (metaBH := mkBH (lenN out3) (lenN M)) in *.
    set (indexBH := mkBH (lenN (out3 ++ nbytes M)) (lenN I)) in *.
    assert (EI : I = block_build 1 (ientries seps hs)) by reflexivity.
    assert (B64 : 2 ^ 32 < 2 ^ 64) by (apply N.pow_lt_mono_r; lia).
    assert (B62 : 2 ^ 32 < 2 ^ 62) by (apply N.pow_lt_mono_r; lia).
    (* sizes of the parts *)
    assert (Hparts : lenN file = lenN (out_of bl) + lenN F + (lenN M + 5) + (lenN I + 5) + tp_footerLen tp).
    { rewrite <- Hfile. rewrite !lenN_app, foot_len, !nbytes_len. unfold out3. rewrite lenN_app. lia. }
    (* the metaindex block reads back *)
    assert (HM : read_block_at tp crc decompress file metaBH true = Ok (built ri ml)).
    { rewrite <- Hfile. rewrite <- !app_assoc.
      pose proof (read_wblock tp tp_ok crc crc_bound compress decompress codec_ok out3 M
                    (nbytes I ++ foot_of metaBH indexBH) false true) as R.
      cbv zeta in R. rewrite (wb_plain (lenN out3) M) in R. cbn [fst snd] in R. fold metaBH in R.
      unfold read_block_at. rewrite R by (rewrite nbytes_len; lia). cbn [bind_res].
      apply read_block_build; [exact ri_pos | fold M; lia]. }
    (* the index block reads back *)
    assert (HI : read_block_at tp crc decompress file indexBH true = Ok (built 1 (ientries seps hs))).
    { rewrite <- Hfile. rewrite <- (app_assoc (out3 ++ nbytes M)).
      pose proof (read_wblock tp tp_ok crc crc_bound compress decompress codec_ok (out3 ++ nbytes M) I
                    (foot_of metaBH indexBH) false true) as R.
      cbv zeta in R. rewrite (wb_plain (lenN (out3 ++ nbytes M)) I) in R. cbn [fst snd] in R. fold indexBH in R.
      unfold read_block_at. rewrite R by (rewrite nbytes_len; lia). cbn [bind_res]. rewrite EI.
      apply read_block_build; [lia | rewrite <- EI; lia]. }
    (* NewReader *)
    assert (Hopen : exists filt dataEnd,
              open_table tp crc decompress fcontains c file fname verify =
                mkTR (read_block_at tp crc decompress file indexBH true)
                     (fun h => read_block_at tp crc decompress file h verify) filt dataEnd /\
              lenN (out_of bl) <= dataEnd).
    { pose proof (open_written ((out3 ++ nbytes M) ++ nbytes I) (built ri ml) metaBH indexBH fname verify) as Eo.
      cbv zeta in Eo. rewrite Hfile in Eo.
      assert (P1 : bh_off metaBH < 2 ^ 64) by (cbn [metaBH bh_off]; unfold out3; rewrite lenN_app; lia).
      assert (P2 : bh_len metaBH < 2 ^ 64) by (cbn [metaBH bh_len]; lia).
      assert (P3 : bh_off indexBH < 2 ^ 64) by (cbn [indexBH bh_off]; rewrite lenN_app, nbytes_len; unfold out3; rewrite lenN_app; lia).
      assert (P4 : bh_len indexBH < 2 ^ 64) by (cbn [indexBH bh_len]; lia).
      specialize (Eo P1 P2 P3 P4 HM).
      rewrite Eo.
      destruct fname as [name|].
      - destruct Hml as [Eml | (wname & fl & Eml & HF)].
        + destruct (meta_scan_built ml name [] (mkBH 0 0) ltac:(fold M; lia) ltac:(cbn; lia) ltac:(cbn; lia) (or_introl Eml)) as [E|E].
          * rewrite E. eexists. eexists. split; [reflexivity|]. cbn [metaBH bh_off]. unfold out3. rewrite lenN_app. lia.
          * exfalso. rewrite Eml in E. cbv in E. discriminate.
        + rewrite (cl_out _ _ _ _ _ _ _ _ _ Hcl) in Eml.
          destruct (meta_scan_built ml name wname (mkBH (lenN (out_of bl)) fl) ltac:(fold M; lia) ltac:(cbn [bh_off]; lia) ltac:(cbn [bh_len]; lia) (or_intror Eml)) as [E|E].
          * rewrite E. eexists. eexists. split; [reflexivity|]. cbn [metaBH bh_off]. unfold out3. rewrite lenN_app. lia.
          * rewrite E. eexists. eexists. split; [reflexivity|]. cbn [bh_off]. lia.
      - eexists. eexists. split; [reflexivity|]. cbn [metaBH bh_off]. unfold out3. rewrite lenN_app. lia. }
    destruct Hopen as (filt & dataEnd & Hopen & HdE).
    pose proof (cl_len _ _ _ _ _ _ _ _ _ Hcl) as Hlen.
    pose proof (cl_ne _ _ _ _ _ _ _ _ _ Hcl) as Hblne.
    assert (Hhl : length hs = length bl) by (unfold hs; apply handles_from_length).
    assert (Hsort : sorted c (concat bl)) by (rewrite Ebl, Ecat; exact Hsorted).
    assert (Hsb : forall j, (j < length bl)%nat -> sorted c (nth j bl [])).
    { intros j Hj. rewrite (concat_split bl j Hj) in Hsort. apply (sorted_infix _ _ _ Hsort). }
    exists bl, seps, hs. split; [|unfold tkvs; rewrite Ebl, Ecat; reflexivity].
    rewrite Hopen. constructor; cbn [tr_index tr_fetch tr_filter tr_dataEnd].
    - exact Hlen.
    - exact Hhl.
    - destruct bl; [congruence | cbn; lia].
    - exists (built 1 (ientries seps hs)). split; [exact HI|].
      exists (b_off 1 (ientries seps hs)), (b_ris 1 (ientries seps hs)).
      apply build_layout; [lia | rewrite <- EI; lia].
    - intros j Hj. exists (built ri (nth j bl [])). split.
      + rewrite <- Hfile. unfold out3. rewrite <- !app_assoc.
        apply fetch_written; [exact Hj|].
        rewrite !app_assoc. fold out3. rewrite Hfile. exact Hsize.
      + exists (b_off ri (nth j bl [])), (b_ris ri (nth j bl [])).
        apply build_layout; [exact ri_pos|].
        pose proof (out_of_split bl j Hj) as Es. apply (f_equal (@lenN N)) in Es.
        rewrite !lenN_app, wbytes_len in Es. lia.
    - intros j Hj. unfold hs. rewrite (handles_nth bl 0 j Hj). cbn [bh_off bh_len].
      pose proof (out_of_firstn_le_all bl j). pose proof (out_of_split bl j Hj) as Es. apply (f_equal (@lenN N)) in Es.
      rewrite !lenN_app, wbytes_len in Es.
      assert (plen (nth j bl []) = lenN (block_build ri (nth j bl []))).
      { unfold TableWriteProofs.plen, write_block. cbn [snd bh_len]. rewrite lenN_app. change (lenN [_]) with 1. lia. }
      split; lia.
    - exact Hsort.
    - destruct (cl_blocks _ _ _ _ _ _ _ _ _ Hcl) as [H|H]; [left | right; exact H].
      intros j Hj. rewrite Forall_forall in H. apply H. apply nth_In. exact Hj.
    - intros j x Hj Hin. destruct (cl_law _ _ _ _ _ _ _ _ _ Hcl j Hj) as [H1 _].
      apply (OrderProofs.le_trans c c_ok _ (lk (nth j bl []))); [|exact H1].
      apply sorted_le_lk; [apply Hsb; exact Hj | exact Hin].
    - intros j x Hj Hin. destruct (cl_law _ _ _ _ _ _ _ _ _ Hcl j ltac:(lia)) as [_ H2]. specialize (H2 Hj).
      apply (OrderProofs.lt_le_trans c c_ok _ (fk (nth (S j) bl []))); [exact H2|].
      apply sorted_fk_le; [apply Hsb; exact Hj | exact Hin].
    - intros i j Hij Hj. unfold hs. rewrite (handles_nth bl 0 i ltac:(lia)), (handles_nth bl 0 j Hj). cbn [bh_off].
      pose proof (out_of_firstn_le bl i j Hij). lia.
    - intros j Hj. unfold hs. rewrite (handles_nth bl 0 j Hj). cbn [bh_off].
      pose proof (out_of_firstn_le_all bl j). lia.
  Qed.
End Final.

(* ------------------------------------------------------------ the round trip, end to end *)
From GL Require Import Codec.TableIterProofs Codec.TableSliceProofs.

Theorem table_roundtrip tp crc compress decompress fcontains c blockSize ri fgen kvs file fname verify strict :
  tparams_ok tp -> (forall b, crc b < 2 ^ 32) -> (forall x, decompress (compress x) = Some x) ->
  comparer_ok c -> (forall k, cmp c [] k <> Gt) -> 1 <= ri ->
  sorted c kvs ->
  twrite tp crc compress c blockSize ri false fgen kvs = Some file -> lenN file < 2 ^ 32 ->
  let rd := open_table tp crc decompress fcontains c file fname verify in
  (forall k v, In (k, v) kvs -> tget c rd k = FFound k v) /\
  (forall k, (forall v, ~ In (k, v) kvs) -> tget c rd k = FNotFound) /\
  (forall key, tfind c rd key false =
     match first_ge c key kvs 0 with
     | Some i => match nth_error kvs i with Some (k, v) => FFound k v | None => FOther end
     | None => FNotFound
     end) /\
  (exists t, new_titer c rd None strict = inr t /\
     forall ops, fst (ti_run c rd t ops) = c_run c kvs CSOI ops) /\
  (forall k1 k2, cmp c k1 k2 <> Gt ->
     exists o1 o2, toffset_of c rd k1 = Ok o1 /\ toffset_of c rd k2 = Ok o2 /\ o1 <= o2) /\
  (kvs <> [] -> forall start limit,
     exists t, new_titer c rd (Some (start, limit)) strict = inr t /\
       forall ops, fst (ti_run c rd t ops) = c_run c (restrict c start limit kvs) CSOI ops).
Proof.
  intros Htp Hcrc Hcodec Hc Hel Hri Hs Hw Hsz rd.
  destruct (table_wf_of_write tp Htp crc Hcrc compress decompress Hcodec fcontains c Hc Hel blockSize ri Hri fgen kvs file fname verify Hs Hw Hsz)
    as (blocks & seps & hs & Hwf & Ek).
  fold rd in Hwf. rewrite <- Ek.
  split; [intros k v; apply (tget_present c Hc rd blocks seps hs Hwf)|].
  split; [intros k; apply (tget_absent c Hc rd blocks seps hs Hwf)|].
  split; [intros key; apply (tfind_first_ge c Hc rd blocks seps hs Hwf)|].
  split; [apply (table_iter_refines c rd blocks seps hs strict Hc Hwf)|].
  split; [intros k1 k2; apply (toffset_mono c Hc rd blocks seps hs Hwf)|].
  intros Hne start limit. apply (table_iter_sliced_refines c rd blocks seps hs start limit strict Hc Hwf Hne).
Qed.
