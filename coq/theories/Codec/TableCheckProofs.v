(* Codec/TableCheckProofs.v — soundness of the executable membership check: a reader that passes
   [table_wfb] is a well-formed table in the sense of [table_wf], so every Stage B theorem applies
   to it (in particular to every implementation-written file the correspondence run accepts). *)
From GL Require Import Base.Bytes Base.BytesProofs Base.Varint Base.VarintProofs Base.Order Base.OrderProofs
  Base.Cursor Base.CursorProofs Codec.Block Codec.BlockEnc Codec.BlockProofs Codec.Table Codec.TableProofs
  Codec.TableCheck.
From Coq Require Import Arith ZArith Lia ZifyN ZifyNat ZifyBool.

Local Open Scope N_scope.

Lemma block_eqb_eq a b : block_eqb a b = true -> a = b.
Proof.
  unfold block_eqb. intros H. apply andb_prop in H as [H H3]. apply andb_prop in H as [H1 H2].
  apply beq_eq in H1. apply N.eqb_eq in H2, H3. destruct a, b; cbn in *. congruence.
Qed.

Lemma is_built_good ri kvs b : 1 <= ri -> is_built ri kvs b = true -> good_block b kvs.
Proof.
  intros Hri H. unfold is_built in H. apply andb_prop in H as [H1 H2].
  assert (Hsz : lenN (block_build ri kvs) < 2 ^ 32) by (change (2 ^ 32) with two32; lia).
  rewrite (read_block_build ri kvs Hri Hsz) in H2. apply block_eqb_eq in H2. subst b.
  exists (b_off ri kvs), (b_ris ri kvs). apply build_layout; assumption.
Qed.

Lemma sortedb_from_ok c k l : sortedb_from c k l = true -> sorted_from c k l.
Proof.
  revert k. induction l as [|[k' v'] r IH]; intros k H; cbn [sortedb_from sorted_from] in *; [exact I|].
  apply andb_prop in H as [H1 H2]. split; [|apply IH; exact H2].
  unfold Order.ltb in H1. destruct (cmp c k k'); congruence.
Qed.

Lemma sortedb_ok c l : sortedb c l = true -> sorted c l.
Proof. destruct l as [|[k v] r]; cbn [sortedb sorted]; [trivial | apply sortedb_from_ok]. Qed.

Theorem table_wfb_sound c rd ri blocks seps hs :
  table_wfb c rd ri blocks seps hs = true -> table_wf c rd blocks seps hs.
Proof.
  unfold table_wfb. intros H.
  repeat (apply andb_prop in H; destruct H as [H ?]).
  rename H0 into Hne, H1 into Hsorted, H2 into Hall, H3 into Hidx, H4 into Hri, H5 into Hm, H6 into Hlh.
  apply Nat.eqb_eq in H, Hlh. apply Nat.ltb_lt in Hm. apply N.leb_le in Hri.
  assert (Hj : forall j, (j < length blocks)%nat ->
    (match tr_fetch rd (nth j hs bh_zero) with Ok b => is_built ri (nth j blocks []) b | _ => false end = true) /\
    bh_off (nth j hs bh_zero) < 2 ^ 64 /\ bh_len (nth j hs bh_zero) < 2 ^ 64 /\
    (forall x, In x (nth j blocks []) -> cmp c (fst x) (nth j seps []) <> Gt) /\
    (forall x, In x (nth (S j) blocks []) -> cmp c (nth j seps []) (fst x) = Lt) /\
    ((S j < length blocks)%nat -> bh_off (nth j hs bh_zero) <= bh_off (nth (S j) hs bh_zero)) /\
    bh_off (nth j hs bh_zero) <= tr_dataEnd rd).
  { intros j Hjm. rewrite forallb_forall in Hall. specialize (Hall j ltac:(apply in_seq; lia)).
    repeat (apply andb_prop in Hall; destruct Hall as [Hall ?]).
    split; [exact Hall|]. change (2 ^ 64) with two64. split; [lia|]. split; [lia|].
    split; [|split; [|split]].
    - intros x Hin. rewrite forallb_forall in H3. specialize (H3 x Hin). cbv beta in H3. unfold Order.leb in H3.
      destruct (cmp c (fst x) (nth j seps [])); congruence.
    - intros x Hin. rewrite forallb_forall in H2. specialize (H2 x Hin). cbv beta in H2. unfold Order.ltb in H2.
      destruct (cmp c (nth j seps []) (fst x)); congruence.
    - intros L. apply Nat.ltb_lt in L. rewrite L in H1. lia.
    - lia. }
  constructor.
  - exact H.
  - exact Hlh.
  - exact Hm.
  - destruct (tr_index rd) as [ib| |]; try discriminate. exists ib. split; [reflexivity|].
    apply (is_built_good 1); [lia | exact Hidx].
  - intros j Hjm. destruct (Hj j Hjm) as (Hf & _).
    destruct (tr_fetch rd (nth j hs bh_zero)) as [b| |] eqn:E; try discriminate.
    exists b. split; [exact E | apply (is_built_good ri); assumption].
  - intros j Hjm. destruct (Hj j Hjm) as (_ & H1 & H2 & _). split; assumption.
  - apply sortedb_ok. exact Hsorted.
  - apply orb_prop in Hne as [Hne|Hne].
    + left. intros j Hjm. rewrite forallb_forall in Hne.
      specialize (Hne (nth j blocks []) ltac:(apply nth_In; exact Hjm)).
      destruct (nth j blocks []); [discriminate | discriminate].
    + right. destruct blocks as [|[|] [|]]; try discriminate. reflexivity.
  - intros j x Hjm Hin. destruct (Hj j Hjm) as (_ & _ & _ & H1 & _). apply H1. exact Hin.
  - intros j x Hjm Hin. destruct (Hj j ltac:(lia)) as (_ & _ & _ & _ & H1 & _). apply H1. exact Hin.
  - intros i j Hij Hjm. induction j as [|j IH]; [assert (i = 0%nat) by lia; subst; lia|].
    destruct (Nat.eq_dec i (S j)) as [->|]; [lia|].
    destruct (Hj j ltac:(lia)) as (_ & _ & _ & _ & _ & H1 & _).
    specialize (IH ltac:(lia) ltac:(lia)). specialize (H1 Hjm). unfold bh0 in *. unfold bh_zero in *. lia.
  - intros j Hjm. destruct (Hj j Hjm) as (_ & _ & _ & _ & _ & _ & H1). exact H1.
Qed.

(* a table that passes [table_check]: its pairs, and well-formedness for some decomposition *)
Theorem table_check_sound c rd ri kvs : table_check c rd ri = Some kvs ->
  exists blocks seps hs, table_wf c rd blocks seps hs /\ tkvs blocks = kvs.
Proof.
  unfold table_check. destruct (table_parse rd) as [[[bl se] hs]|]; [|discriminate].
  destruct (table_wfb c rd ri bl se hs) eqn:E; [|discriminate].
  intros H. injection H as <-. exists bl, se, hs. split; [apply (table_wfb_sound c rd ri); exact E | reflexivity].
Qed.
