(* Codec/Bloom.v — model of leveldb/util/hash.go (Hash) and leveldb/filter/bloom.go
   (bloomHash, bloomFilter.NewGenerator/Add/Generate/Contains).
   Model file: definitions only; proofs in BloomProofs.v.

   Numbers are N; every uint32 operation of the Go code that can wrap is followed by [w32].
   [int] is taken to be 64 bits wide (the Go code multiplies [int]s in two places; see
   [int64_wrap]).  None = the Go code panics ("integer divide by zero").

   The model follows the REPAIRED bloom.go (fix commits in the repo: NewBloomFilter reads a negative
   bitsPerKey as 0; Generate computes the bit count in bloomBits, in 64 bits with the ceiling
   maxBloomBits; Contains limits the bit count to bloomProbeBits).  The definitions named [..._old]
   are the code before the repairs, kept as refutation witnesses and for the statement that nothing
   changed where the old code neither panicked nor wrapped. *)
From GL Require Export Base.Bytes Base.NIdx.
From Coq Require Import ZArith.

(* ---- util.Hash ---- *)

Record hparams := { h_m : N; h_r : N }.

(*  for n := len(data) - len(data)%4; i < n; i += 4 { h += LittleEndian.Uint32(data[i:]); h *= m; h ^= (h >> 16) }
    switch len(data) - i { case 3: h += uint32(data[i+2]) << 16; fallthrough
                           case 2: h += uint32(data[i+1]) << 8;  fallthrough
                           case 1: h += uint32(data[i]); h *= m; h ^= (h >> r)
                           case 0: }                                                      *)
Definition hash_tail1 (hp : hparams) (h b0 : N) : N :=
  let h := w32 (h + b0) in
  let h := w32 (h * h_m hp) in
  N.lxor h (N.shiftr h (h_r hp)).

Fixpoint hash_loop (hp : hparams) (h : N) (l : bytes) : N :=
  match l with
  | b0 :: b1 :: b2 :: b3 :: l' =>
      let h := w32 (h + le_decode [b0; b1; b2; b3]) in
      let h := w32 (h * h_m hp) in
      let h := N.lxor h (N.shiftr h 16) in
      hash_loop hp h l'
  | [b0; b1; b2] =>
      let h := w32 (h + w32 (N.shiftl b2 16)) in
      let h := w32 (h + w32 (N.shiftl b1 8)) in
      hash_tail1 hp h b0
  | [b0; b1] =>
      let h := w32 (h + w32 (N.shiftl b1 8)) in
      hash_tail1 hp h b0
  | [b0] => hash_tail1 hp h b0
  | [] => h
  end.

(* h = seed ^ (uint32(len(data)) * m) *)
Definition hash (hp : hparams) (data : bytes) (seed : N) : N :=
  hash_loop hp (N.lxor seed (w32 (w32 (lenN data) * h_m hp))) data.

(* ---- bloom.go ---- *)

Record bparams := {
  b_hash : hparams;
  b_seed : N;                 (* bloomHash: util.Hash(key, 0xbc9f1d34) *)
  b_knum : N; b_kden : N;     (* NewGenerator: uint8(f * 69 / 100) *)
  b_kcmp : N; b_kset : N;     (* else if k > 30 { k = 30 } *)
  b_mincmp : N; b_minset : N; (* Generate: if nBits < 64 { nBits = 64 } *)
  b_grotr : N; b_grotl : N;   (* Generate: delta := (kh >> 17) | (kh << 15) *)
  b_ckmax : N;                (* Contains: if k > 30 { return true } *)
  b_crotr : N; b_crotl : N;   (* Contains: delta := (kh >> 17) | (kh << 15) *)
  b_maxbits : N;              (* const maxBloomBits = 1<<32 - 8 *)
  b_probebits : N             (* const bloomProbeBits = 1 << 32 *)
}.

(* what the proofs need of the constants (re-proved for the generated ones in Gen/BloomConstsOk.v) *)
Definition bparams_ok (p : bparams) : Prop :=
  b_grotr p = b_crotr p /\ b_grotl p = b_crotl p /\
  1 <= b_kset p /\ b_kset p < 256 /\ b_kset p <= b_ckmax p /\ b_kcmp p <= b_ckmax p /\
  2 ^ 32 <= b_probebits p.

(* what the totality theorems need: the minimum length is positive, minimum and ceiling stay clear
   of the uint32 wrap of nBits + 7, 8 divides the limit of Contains *)
Definition bparams_tot_ok (p : bparams) : Prop :=
  1 <= b_mincmp p /\ 1 <= b_minset p /\ b_minset p < 2 ^ 32 - 7 /\
  b_maxbits p = 2 ^ 32 - 8 /\ b_probebits p = 2 ^ 32.

Definition bloom_hash (p : bparams) (key : bytes) : N := hash (b_hash p) key (b_seed p).

(* Go int arithmetic wraps at 64 bits (two's complement) *)
Definition int64_wrap (z : Z) : Z := ((z + 2 ^ 63) mod 2 ^ 64 - 2 ^ 63)%Z.

(* NewBloomFilter: if bitsPerKey < 0 { bitsPerKey = 0 }; return bloomFilter(bitsPerKey) *)
Definition bloom_new (bpk : Z) : Z := if (bpk <? 0)%Z then 0%Z else bpk.

(* NewGenerator: k := uint8(f * 69 / 100); if k < 1 { k = 1 } else if k > 30 { k = 30 }
   f is an int (bloomFilter): the product wraps at 64 bits, / truncates toward zero,
   uint8() keeps the low 8 bits. *)
Definition bloom_k_old (p : bparams) (bpk : Z) : N :=
  let q := Z.quot (int64_wrap (bpk * Z.of_N (b_knum p))) (Z.of_N (b_kden p)) in
  let k := Z.to_N (q mod 256)%Z in
  if k <? 1 then 1 else if b_kcmp p <? k then b_kset p else k.

(* bpk = the argument of NewBloomFilter *)
Definition bloom_k (p : bparams) (bpk : Z) : N := bloom_k_old p (bloom_new bpk).

(* bloomBits(nKeys, bitsPerKey int) uint32:
     if nKeys <= 0 || bitsPerKey <= 0 { return 0 }
     if uint64(nKeys) > maxBloomBits/uint64(bitsPerKey) { return maxBloomBits }
     return uint32(uint64(nKeys) * uint64(bitsPerKey))          (f = bitsPerKey, an int) *)
Definition bloom_bits (p : bparams) (nkeys : N) (f : Z) : N :=
  if (nkeys =? 0) || (f <=? 0)%Z then 0
  else if b_maxbits p / Z.to_N f <? nkeys then w32 (b_maxbits p)
  else w32 ((nkeys * Z.to_N f) mod 2 ^ 64).

(* Generate: nBits := bloomBits(len(g.keyHashes), g.n); if nBits < 64 { nBits = 64 }
             nBytes := (nBits + 7) / 8; nBits = nBytes * 8 *)
Definition bloom_nbytes (p : bparams) (bpk : Z) (nkeys : N) : N :=
  let nbits := bloom_bits p nkeys (bloom_new bpk) in
  let nbits := if nbits <? b_mincmp p then b_minset p else nbits in
  w32 (nbits + 7) / 8.

(* before the repair: nBits := uint32(len(g.keyHashes) * g.n), g.n = the unclamped argument *)
Definition bloom_nbytes_old (p : bparams) (bpk : Z) (nkeys : N) : N :=
  let nbits := Z.to_N ((Z.of_N nkeys * bpk) mod 2 ^ 32)%Z in
  let nbits := if nbits <? b_mincmp p then b_minset p else nbits in
  w32 (nbits + 7) / 8.

Definition rot (r l : N) (kh : N) : N := N.lor (N.shiftr kh r) (w32 (N.shiftl kh l)).

Definition bit_mask (bitpos : N) : N := N.shiftl 1 (bitpos mod 8).

(* for j := uint8(0); j < k; j++ { bitpos := kh % nBits; dest[bitpos/8] |= (1 << (bitpos % 8)); kh += delta } *)
Fixpoint gen_probes (j : nat) (nbits delta kh : N) (dest : bytes) : bytes :=
  match j with
  | O => dest
  | S j' =>
      let bitpos := kh mod nbits in
      gen_probes j' nbits delta (w32 (kh + delta)) (or_at dest (bitpos / 8) (bit_mask bitpos))
  end.

Definition gen_add (p : bparams) (k nbits : N) (dest : bytes) (kh : N) : bytes :=
  gen_probes (N.to_nat k) nbits (rot (b_grotr p) (b_grotl p) kh) kh dest.

(* Generate into the memory [alloc] returned by b.Alloc(int(nBytes)+1) (util.Buffer does not
   clear it; the table writer only ever passes fresh zeroed memory: [bloom_generate]). *)
Definition bloom_generate_into (p : bparams) (bpk : Z) (hashes : list N) (alloc : bytes) : option bytes :=
  let k := bloom_k p bpk in
  let nbytes := bloom_nbytes p bpk (lenN hashes) in
  let nbits := w32 (nbytes * 8) in
  let dest := set_at alloc nbytes k in
  match hashes with
  | [] => Some dest
  | _ :: _ =>
      if (nbits =? 0) && (0 <? k) then None    (* kh % nBits: integer divide by zero *)
      else Some (fold_left (gen_add p k nbits) hashes dest)
  end.

Definition bloom_generate (p : bparams) (bpk : Z) (hashes : list N) : option bytes :=
  bloom_generate_into p bpk hashes (zeros (bloom_nbytes p bpk (lenN hashes) + 1)).

(* Generate before the repairs *)
Definition bloom_generate_old (p : bparams) (bpk : Z) (hashes : list N) : option bytes :=
  let k := bloom_k_old p bpk in
  let nbytes := bloom_nbytes_old p bpk (lenN hashes) in
  let nbits := w32 (nbytes * 8) in
  let dest := set_at (zeros (nbytes + 1)) nbytes k in
  match hashes with
  | [] => Some dest
  | _ :: _ =>
      if (nbits =? 0) && (0 <? k) then None    (* kh % nBits: integer divide by zero *)
      else Some (fold_left (gen_add p k nbits) hashes dest)
  end.

(* for j := uint8(0); j < k; j++ { bitpos := kh % nBits
     if (uint32(filter[bitpos/8]) & (1 << (bitpos % 8))) == 0 { return false }; kh += delta } return true *)
Fixpoint chk_probes (j : nat) (nbits delta kh : N) (f : bytes) : bool :=
  match j with
  | O => true
  | S j' =>
      let bitpos := kh mod nbits in
      if N.land (get_at f (bitpos / 8)) (bit_mask bitpos) =? 0 then false
      else chk_probes j' nbits delta (w32 (kh + delta)) f
  end.

(* Contains: nBits := uint64(bloomProbeBits); if uint64(nBytes) < bloomProbeBits/8 { nBits = uint64(nBytes) * 8 }
   (no wrap: nBytes * 8 < bloomProbeBits);  bitpos := uint64(kh) % nBits *)
Definition contains_nbits (p : bparams) (nbytes : N) : N :=
  if nbytes <? b_probebits p / 8 then nbytes * 8 else b_probebits p.

(* before the repair: nBits := uint32(nBytes * 8) *)
Definition contains_nbits_old (nbytes : N) : N := w32 (nbytes * 8).

(* Contains on a filter given by its length and its bytes as a function of the index (the harness
   observes Contains on filters of 2^29+1 bytes and more, which no list can hold) *)
Fixpoint chk_probes_fn (j : nat) (nbits delta kh : N) (get : N -> N) : bool :=
  match j with
  | O => true
  | S j' =>
      let bitpos := kh mod nbits in
      if N.land (get (bitpos / 8)) (bit_mask bitpos) =? 0 then false
      else chk_probes_fn j' nbits delta (w32 (kh + delta)) get
  end.

Definition bloom_contains_with (nbits_of : N -> N) (p : bparams) (len : N) (get : N -> N) (key : bytes) : option bool :=
  if len <? 2 then Some false                       (* nBytes := len(filter) - 1; if nBytes < 1 *)
  else
    let nbytes := len - 1 in
    let nbits := nbits_of nbytes in
    let k := get nbytes in
    if b_ckmax p <? k then Some true                (* reserved encodings: consider it a match *)
    else if (nbits =? 0) && (0 <? k) then None      (* kh % nBits: integer divide by zero *)
    else
      let kh := bloom_hash p key in
      Some (chk_probes_fn (N.to_nat k) nbits (rot (b_crotr p) (b_crotl p) kh) kh get).

Definition bloom_contains_fn (p : bparams) := bloom_contains_with (contains_nbits p) p.
Definition bloom_contains_fn_old (p : bparams) := bloom_contains_with contains_nbits_old p.

Definition bloom_contains (p : bparams) (f key : bytes) : option bool :=
  let len := lenN f in
  if len <? 2 then Some false                       (* nBytes := len(filter) - 1; if nBytes < 1 *)
  else
    let nbytes := len - 1 in
    let nbits := contains_nbits p nbytes in
    let k := get_at f nbytes in
    if b_ckmax p <? k then Some true                (* reserved encodings: consider it a match *)
    else if (nbits =? 0) && (0 <? k) then None      (* kh % nBits: integer divide by zero *)
    else
      let kh := bloom_hash p key in
      Some (chk_probes (N.to_nat k) nbits (rot (b_crotr p) (b_crotl p) kh) kh f).

Definition bloom_contains_old (p : bparams) (f key : bytes) : option bool :=
  let len := lenN f in
  if len <? 2 then Some false
  else
    let nbytes := len - 1 in
    let nbits := contains_nbits_old nbytes in
    let k := get_at f nbytes in
    if b_ckmax p <? k then Some true
    else if (nbits =? 0) && (0 <? k) then None
    else
      let kh := bloom_hash p key in
      Some (chk_probes (N.to_nat k) nbits (rot (b_crotr p) (b_crotl p) kh) kh f).

(* a filter that is zero except at the listed (index, byte) pairs *)
Fixpoint sparse_get (l : list (N * N)) (i : N) : N :=
  match l with
  | [] => 0
  | (j, b) :: l' => if i =? j then b else sparse_get l' i
  end.

(* The generator object (NewGenerator / Add / Generate) keeps the list of key hashes added since
   the last Generate, which clears it; Add appends bloom_hash key. *)

(* filter for a whole key list, as the filter block writer uses it *)
Definition bloom_filter_of (p : bparams) (bpk : Z) (keys : list bytes) : option bytes :=
  bloom_generate p bpk (map (bloom_hash p) keys).
