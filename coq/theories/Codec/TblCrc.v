(* Codec/TblCrc.v — executable instance of the block checksum used by the table format
   (leveldb/util/crc32.go: NewCRC(b).Value()): CRC-32 with Castagnoli's polynomial
   (hash/crc32, reflected form 0x82f63b78), then LevelDB's mask  rotr 15 + 0xa282ead8.
   The table theorems take the checksum as a Section variable; this instance is what the
   correspondence run executes, and thereby compares with hash/crc32 on every block of every
   table file it parses.  Rotation amounts and mask delta come from Gen/Consts.v. *)
From GL Require Export Base.Bytes.
From GL Require Import Gen.Consts.

Definition crc32c_poly : N := 2197175160.   (* 0x82f63b78, hash/crc32.Castagnoli reflected *)
Definition mask32 : N := 4294967295.

Definition crc_bit (x : N) : N :=
  if N.odd x then N.lxor (N.shiftr x 1) crc32c_poly else N.shiftr x 1.

Definition crc_byte (crc b : N) : N :=
  let x := N.lxor crc b in
  crc_bit (crc_bit (crc_bit (crc_bit (crc_bit (crc_bit (crc_bit (crc_bit x))))))).

(* crc32.Update(0, castagnoliTable, b) *)
Definition crc32c (b : bytes) : N := N.lxor (fold_left crc_byte b mask32) mask32.

(* CRC.Value(): uint32(c>>15 | c<<17) + 0xa282ead8 *)
Definition crc_mask (c : N) : N :=
  (N.lor (N.shiftr c lit_crc_rot_r) (N.land (N.shiftl c lit_crc_rot_l) mask32) + lit_crc_mask_delta) mod 2 ^ 32.

Definition tbl_crc (b : bytes) : N := crc_mask (crc32c b).
