(* Codec/JournalCutProofs.v — exactness of truncation, completeness under damage, tails.
   (1) prefix_complete: a byte string that agrees with the written stream on its first n bytes
       is read, in either mode and whatever follows, as the records written wholly inside those
       n bytes followed by something (the block parser is sequential from the block start).
   (2) truncation_exact: the number of records yielded for a cut at n is exactly the number of
       records wholly inside the first n bytes.
   (3) damage_strict_complete: under no_forgery the strict reader's prefix contains every
       record written wholly before the first altered byte.
   (4) tail_contained / zero_tail: a cut followed by other bytes up to the written length. *)
From GL Require Import Base.Bytes Base.BytesProofs Codec.Journal Codec.JournalSpec Codec.JournalLemmas
  Codec.JournalLayoutProofs Codec.JournalReaderProofs Codec.JournalWriterProofs Codec.JournalProofs Codec.JournalDamageProofs.
From Coq Require Import PeanoNat Lia ZifyN ZifyNat ZifyBool.

Section CutProofs.
  Variable crc : bytes -> N.
  Variable p : jparams.
  Hypothesis pok : jparams_ok p.

  Let H7 : hs p = 7 := hs7 p pok.
  Let Hb : hs p < bs p := hs_lt_bs p pok.

  (* ------------------------------------------------------------ the parser is sequential *)
  Lemma open_ok_tail c cs : open_ok p (c :: cs) -> open_ok p cs.
  Proof. intros (Hs & Hf). split; [cbn [bsize] in Hs; lia|]. now inversion Hf. Qed.

  Lemma parse_chunks_app ck cs rest :
    open_ok p cs ->
    parse_from crc p ck (render_chunks crc cs ++ rest) = map BChunk cs ++ parse_from crc p ck rest.
  Proof.
    intros Hok. induction cs as [|c cs IH]; [reflexivity|].
    unfold render_chunks. cbn [flat_map map]. fold (render_chunks crc cs). rewrite <- app_assoc.
    rewrite (parse_chunk crc p pok).
    - cbn [app]. f_equal. apply IH. eapply open_ok_tail; exact Hok.
    - destruct Hok as (_ & Hf). now inversion Hf.
    - apply (chunk_len_bound p pok (c :: cs)); [exact Hok|now left].
  Qed.

  Lemma render_chunks_ne c cs : render_chunks crc (c :: cs) <> [].
  Proof.
    intros E. apply (f_equal lenN) in E. rewrite (lenN_render_chunks crc p pok) in E.
    cbn [bsize] in E. unfold csize in E. rewrite lenN_nil in E. lia.
  Qed.

  Lemma stream_events_prefix_gen ck closed open rest :
    Forall (closed_ok p) closed -> open_ok p open ->
    exists evs,
      stream_events crc p ck (flat_map (render_closed crc p) closed ++ render_chunks crc open ++ rest)
      = map BChunk (concat closed ++ open) ++ evs.
  Proof.
    intros Hc Ho. induction closed as [|c1 closed IH].
    - cbn [flat_map concat app]. destruct open as [|c cs].
      + eexists. cbn [render_chunks flat_map app map]. reflexivity.
      + rewrite (stream_events_cons crc p pok).
        * rewrite takeN_app_ge by (rewrite (lenN_render_chunks crc p pok); apply Ho).
          rewrite parse_chunks_app by exact Ho. rewrite <- app_assoc. eexists. reflexivity.
        * intros E. apply app_eq_nil in E as (E & _). exact (render_chunks_ne c cs E).
    - inversion Hc as [|? ? Hc1 Hc']; subst. cbn [flat_map concat]. rewrite <- !app_assoc.
      destruct Hc1 as (Hbig & Hok1).
      pose proof (lenN_render_closed crc p pok c1 Hok1) as L1.
      destruct (IH Hc') as (evs & E).
      rewrite (stream_events_cons crc p pok).
      + rewrite takeN_app_exact, dropN_app_exact by exact L1. rewrite E.
        exists evs. rewrite (map_app BChunk c1), <- app_assoc. f_equal.
        unfold render_closed. apply (parse_chunks crc p pok); [exact Hok1|]. rewrite lenN_zeros. lia.
      + intros E0. apply (f_equal lenN) in E0. rewrite lenN_app, L1, lenN_nil in E0. lia.
  Qed.

  (* the stream of an extended layout extends the stream *)
  Lemma render_ext l1 l : lay_ext l1 l ->
    exists rest, render_lay crc p l = render_lay crc p l1 ++ rest.
  Proof.
    intros (more & [(E1 & E2)|(rest & E)]); unfold render_lay.
    - exists (render_chunks crc more). rewrite E1, E2, (render_chunks_app crc), app_assoc. reflexivity.
    - exists (render_chunks crc more ++ zeros (bs p - bsize p (l_open l1 ++ more)) ++
              flat_map (render_closed crc p) rest ++ render_chunks crc (l_open l)).
      rewrite E, flat_map_app. cbn [flat_map].
      change (render_closed crc p (l_open l1 ++ more))
        with (render_chunks crc (l_open l1 ++ more) ++ zeros (bs p - bsize p (l_open l1 ++ more))).
      rewrite (render_chunks_app crc), <- !app_assoc. reflexivity.
  Qed.

  Lemma firstn_prefix_of {A} n (d s a rest : list A) :
    firstn n d = firstn n s -> s = a ++ rest -> (length a <= n)%nat ->
    exists rest', d = a ++ rest'.
  Proof.
    intros E -> Hn. exists (skipn (length a) d).
    rewrite <- (firstn_skipn (length a) d) at 1. f_equal.
    assert (E2 : firstn (length a) (firstn n d) = firstn (length a) (firstn n (a ++ rest))) by now rewrite E.
    rewrite !firstn_firstn in E2. replace (Nat.min (length a) n) with (length a) in E2 by lia.
    rewrite E2, firstn_app, Nat.sub_diag, firstn_all. cbn. apply app_nil_r.
  Qed.

  Lemma layout_split rs j :
    let rs1 := firstn j rs in
    wf_lay p (layout p rs1) /\
    (exists css1, lay_chunks (layout p rs1) = concat css1 /\ Forall2 (rec_chunks p) rs1 css1) /\
    lay_ext (layout p rs1) (layout p rs).
  Proof.
    intros rs1.
    destruct (layout_chunks crc p pok rs1) as (W1 & css1 & E1 & H1).
    split; [exact W1|]. split; [exists css1; auto|].
    assert (EL : layout p rs = fold_left (lay_record p) (skipn j rs) (layout p rs1)).
    { unfold layout, rs1. rewrite <- fold_left_app, firstn_skipn. reflexivity. }
    rewrite EL. apply lay_ext_fold, lay_ext_refl.
  Qed.

  (* (1) whatever agrees with the written stream on the first n bytes yields, first of all, the
     records written wholly inside those n bytes *)
  Theorem prefix_complete_log strict ck fl rs d n j :
    firstn n d = firstn n (jwrite crc p fl rs) ->
    (length (jwrite crc p fl (firstn j rs)) <= n)%nat ->
    exists t, jread_log crc p strict ck d = map Rec (firstn j rs) ++ t.
  Proof.
    intros Ed Hlen. rewrite !(jwrite_layout crc p pok) in *.
    destruct (layout_split rs j) as (W1 & (css1 & E1 & H1) & Hext).
    destruct (render_ext _ _ Hext) as (rest & Er).
    destruct (firstn_prefix_of n d _ _ rest Ed Er Hlen) as (rest' & ->).
    rewrite (reader_factor crc p pok). destruct W1 as (Wc & Wo).
    unfold render_lay. rewrite <- app_assoc.
    destruct (stream_events_prefix_gen ck _ _ rest' Wc Wo) as (evs & ->).
    fold (lay_chunks (layout p (firstn j rs))). rewrite E1.
    rewrite (assemble_records p pok strict _ css1 evs H1). eexists. reflexivity.
  Qed.

  Theorem prefix_complete strict ck fl rs d n j :
    firstn n d = firstn n (jwrite crc p fl rs) ->
    (length (jwrite crc p fl (firstn j rs)) <= n)%nat ->
    exists t, jread crc p strict ck d = map Rec (firstn j rs) ++ t.
  Proof.
    intros Ed Hlen. destruct (prefix_complete_log strict ck fl rs d n j Ed Hlen) as (t & E).
    unfold jread. rewrite E, outs_app, outs_recs. eexists. reflexivity.
  Qed.

  (* ------------------------------------------------------------ (2) exact truncation *)
  (* the chunk lists of the records, consistent over all prefixes of the record list *)
  Lemma layout_ok_pref rs : forall l, wf_lay p l ->
    exists css, Forall2 (rec_chunks p) rs css /\
      forall j, lay_chunks (fold_left (lay_record p) (firstn j rs) l) = lay_chunks l ++ concat (firstn j css).
  Proof.
    induction rs as [|r rs IH]; intros l W.
    - exists []. split; [constructor|]. intros j. rewrite !firstn_nil. cbn. now rewrite app_nil_r.
    - destruct (lay_record_ok crc p pok l r W) as (W1 & cs & Ec & Hc).
      destruct (IH _ W1) as (css & H & Hj). exists (cs :: css). split; [constructor; assumption|].
      intros [|j]; cbn [firstn fold_left concat]; [now rewrite app_nil_r|].
      rewrite Hj, Ec, app_assoc. reflexivity.
  Qed.

  Lemma fit_ge cs : forall n K, (K <= fit p cs n)%nat -> bsize p (firstn K cs) <= n.
  Proof.
    induction cs as [|c cs IH]; intros n K H; cbn [fit] in H.
    - replace K with 0%nat by lia. cbn. lia.
    - destruct K as [|K]; [cbn; lia|]. destruct (csize p c <=? n) eqn:E; [|lia].
      cbn [firstn bsize]. specialize (IH (n - csize p c) K ltac:(lia)). lia.
  Qed.

  Lemma fitb_small cl : Forall (closed_ok p) cl -> forall rest open n,
    n < bs p * lenN cl -> (fitb p (cl ++ rest) open n <= length (concat cl))%nat.
  Proof.
    induction 1 as [|c cl Hc Hcl IH]; intros rest open n Hn.
    - rewrite lenN_nil in Hn. lia.
    - rewrite lenN_cons in Hn. cbn [app fitb concat]. rewrite app_length.
      destruct (bs p <=? n) eqn:E.
      + specialize (IH rest open (n - bs p) ltac:(lia)). lia.
      + pose proof (fit_le p pok c n). lia.
  Qed.

  Lemma firstn_len_app {A} (a b : list A) : firstn (length a) (a ++ b) = a.
  Proof. rewrite firstn_app, Nat.sub_diag, firstn_all. cbn. apply app_nil_r. Qed.

  (* the converse of fitb_ext: if all chunks of a layout ending in a chunk are counted inside
     the first n bytes of an extension, its stream is at most n bytes long *)
  Lemma fitb_ext_conv l1 l n :
    wf_lay p l1 -> lay_ext l1 l -> l_open l1 <> [] ->
    (length (lay_chunks l1) <= fitb p (l_closed l) (l_open l) n)%nat ->
    lenN (render_lay crc p l1) <= n.
  Proof.
    intros W1 (more & Hext) Hne H. rewrite (lenN_render_lay crc p pok l1 W1).
    destruct W1 as (Wc & Wo). unfold lay_chunks in H. rewrite app_length in H.
    assert (Hpos : (0 < length (l_open l1))%nat) by (destruct (l_open l1); [congruence|cbn; lia]).
    destruct (n <? bs p * lenN (l_closed l1)) eqn:En.
    - exfalso. destruct Hext as [(E1 & E2)|(rest & E)].
      + rewrite E1, E2 in H.
        pose proof (fitb_small _ Wc [] (l_open l1 ++ more) n ltac:(lia)) as F.
        rewrite app_nil_r in F. lia.
      + rewrite E in H.
        pose proof (fitb_small _ Wc ((l_open l1 ++ more) :: rest) (l_open l) n ltac:(lia)) as F. lia.
    - assert (Hfit : forall K, (length (l_open l1) <= fit p (l_open l1 ++ more) K)%nat ->
                       bsize p (l_open l1) <= K).
      { intros K HK. apply fit_ge in HK. rewrite firstn_len_app in HK. exact HK. }
      destruct Hext as [(E1 & E2)|(rest & E)].
      + rewrite E1, E2 in H.
        pose proof (fitb_prefix p pok _ Wc [] (l_open l1 ++ more) n ltac:(lia)) as F.
        rewrite app_nil_r in F. cbn [fitb] in F. rewrite F in H.
        specialize (Hfit (n - bs p * lenN (l_closed l1)) ltac:(lia)). lia.
      + rewrite E in H.
        pose proof (fitb_prefix p pok _ Wc ((l_open l1 ++ more) :: rest) (l_open l) n ltac:(lia)) as F.
        cbn [fitb] in F. rewrite F in H.
        destruct (bs p <=? n - bs p * lenN (l_closed l1)) eqn:E2.
        * destruct Wo as (Wo & _). lia.
        * specialize (Hfit (n - bs p * lenN (l_closed l1)) ltac:(lia)). lia.
  Qed.

  (* a record always ends in a chunk of the open block *)
  Lemma lay_record_open_ne l r : wf_lay p l -> l_open (lay_record p l r) <> [].
  Proof.
    intros W. destruct (lay_next_ok p pok l W) as (_ & Hfit & _).
    unfold lay_record. rewrite (lws_fin p pok) by (unfold fits; rewrite ?lenN_nil; lia).
    destruct (lay_write_st p (length r) (lay_next p l) true [] r) as ((l' & f') & d').
    cbn. intros E. apply app_eq_nil in E as (_ & E). discriminate.
  Qed.

  Lemma layout_open_ne rs : forall l, wf_lay p l -> rs <> [] ->
    l_open (fold_left (lay_record p) rs l) <> [].
  Proof.
    induction rs as [|r rs IH]; intros l W Hne; [congruence|]. cbn [fold_left].
    destruct rs as [|r' rs']; [cbn; apply lay_record_open_ne; exact W|].
    apply IH; [apply (lay_record_ok crc p pok l r W)|discriminate].
  Qed.


  (* the chunk lists of the records of rs and of all its prefixes, and the two directions of
     "the first j records are wholly inside the first n bytes" <-> "their chunks are counted" *)
  Definition chunks_of (rs : list bytes) (css : list (list chunk)) : Prop :=
    Forall2 (rec_chunks p) rs css /\
    forall j, lay_chunks (layout p (firstn j rs)) = concat (firstn j css).

  Lemma chunks_of_ex rs : exists css, chunks_of rs css.
  Proof.
    destruct (layout_ok_pref rs lay_empty (wf_empty p pok)) as (css & H & Hj).
    exists css. split; [exact H|]. intros j. exact (Hj j).
  Qed.

  Lemma chunks_of_all rs css : chunks_of rs css -> lay_chunks (layout p rs) = concat css.
  Proof.
    intros (H & Hj). specialize (Hj (length rs)). rewrite firstn_all in Hj. rewrite Hj.
    rewrite firstn_all2; [reflexivity|]. rewrite <- (Forall2_len _ _ _ H). lia.
  Qed.

  Lemma count_inside rs css m n : chunks_of rs css -> (m <= length rs)%nat ->
    (length (concat (firstn m css)) <=
       fitb p (l_closed (layout p rs)) (l_open (layout p rs)) (N.of_nat n))%nat ->
    (length (jwrite crc p [] (firstn m rs)) <= n)%nat.
  Proof.
    intros (H & Hj) Hm Hk. rewrite (jwrite_layout crc p pok).
    destruct m as [|m'].
    { cbn [firstn]. change (layout p []) with lay_empty. cbn. lia. }
    destruct (layout_split rs (S m')) as (W1 & _ & Hext).
    assert (Hne : l_open (layout p (firstn (S m') rs)) <> []).
    { apply layout_open_ne; [apply (wf_empty p pok)|].
      destruct rs; [cbn in Hm; lia|discriminate]. }
    pose proof (fitb_ext_conv _ _ (N.of_nat n) W1 Hext Hne) as Hc.
    rewrite (Hj (S m')) in Hc. specialize (Hc Hk). unfold lenN in Hc. lia.
  Qed.

  Lemma inside_count rs css j n : chunks_of rs css ->
    (length (jwrite crc p [] (firstn j rs)) <= n)%nat ->
    (length (concat (firstn j css)) <=
       fitb p (l_closed (layout p rs)) (l_open (layout p rs)) (N.of_nat n))%nat.
  Proof.
    intros (H & Hj) Hlen. rewrite (jwrite_layout crc p pok) in Hlen.
    destruct (layout_split rs j) as (W1 & _ & Hext).
    rewrite <- (Hj j). apply (fitb_ext crc p pok _ _ _ W1 Hext). unfold lenN. lia.
  Qed.

  Lemma concat_firstn_mono {A} (l : list (list A)) : forall a b, (a <= b)%nat ->
    (length (concat (firstn a l)) <= length (concat (firstn b l)))%nat.
  Proof.
    induction l as [|x l IH]; intros a b Hab; [rewrite !firstn_nil; lia|].
    destruct a as [|a]; [cbn; lia|]. destruct b as [|b]; [lia|].
    cbn [firstn concat]. rewrite !app_length. specialize (IH a b ltac:(lia)). lia.
  Qed.

  (* assemble_prefix with the count of records tied to the count of chunks *)
  Lemma assemble_prefix_exact strict rs css : Forall2 (rec_chunks p) rs css -> forall k tail,
    tail_ok tail ->
    exists m t,
      outs (assemble p strict AIdle (map BChunk (firstn k (concat css)) ++ tail))
      = map Rec (firstn m rs) ++ t /\ end_ok strict t /\
      (m <= length rs)%nat /\ (length (concat (firstn m css)) <= k)%nat.
  Proof.
    induction 1 as [|r cs rs css Hr Hrs IH]; intros k tail Ht.
    - exists 0%nat, (outs (assemble p strict AIdle tail)). rewrite firstn_nil. cbn [concat map app firstn length].
      split; [reflexivity|]. split; [apply assemble_idle_tail; exact Ht|]. split; lia.
    - cbn [concat]. destruct (Nat.leb (length cs) k) eqn:E.
      + apply Nat.leb_le in E.
        rewrite firstn_app. rewrite firstn_all2 by lia.
        destruct (IH (k - length cs)%nat tail Ht) as (m & t & Em & Hok & Hm & Hk).
        exists (S m), t. rewrite map_app, <- app_assoc, (assemble_rec p pok strict r cs _ Hr).
        rewrite outs_rec, Em. split; [reflexivity|]. split; [exact Hok|].
        cbn [length firstn concat]. rewrite app_length. split; lia.
      + apply Nat.leb_gt in E.
        rewrite firstn_app. replace (k - length cs)%nat with 0%nat by lia. cbn [firstn]. rewrite app_nil_r.
        exists 0%nat, (outs (assemble p strict AIdle (map BChunk (firstn k cs) ++ tail))).
        split; [reflexivity|]. split; [apply (assemble_rec_cut crc p pok strict r cs k tail Hr E Ht)|].
        cbn [firstn concat length]. split; lia.
  Qed.

  Lemma recs_of_recs rs : recs_of (map Rec rs) = rs.
  Proof. induction rs as [|r rs IH]; [reflexivity|]. cbn. f_equal. exact IH. Qed.

  Lemma recs_of_end strict t : end_ok strict t -> recs_of t = [].
  Proof. intros [->| ->]; [reflexivity|]. destruct strict; reflexivity. Qed.

  (* two descriptions of one result: a prefix of j records, and m records then no further one *)
  Lemma count_le (rs : list bytes) j m t t' :
    (j <= length rs)%nat -> (m <= length rs)%nat -> recs_of t = [] ->
    map Rec (firstn m rs) ++ t = map Rec (firstn j rs) ++ t' -> (j <= m)%nat.
  Proof.
    intros Hj Hm Ht E. apply (f_equal recs_of) in E.
    rewrite !recs_of_app, !recs_of_recs, Ht, app_nil_r in E.
    apply (f_equal (@length bytes)) in E. rewrite app_length, !firstn_length in E. lia.
  Qed.

  Theorem truncation_exact strict ck fl rs n :
    exists m t,
      jread crc p strict ck (firstn n (jwrite crc p fl rs)) = map Rec (firstn m rs) ++ t /\
      end_ok strict t /\
      (m <= length rs)%nat /\
      (length (jwrite crc p fl (firstn m rs)) <= n)%nat /\
      (forall j, (j <= length rs)%nat ->
                 (length (jwrite crc p fl (firstn j rs)) <= n)%nat -> (j <= m)%nat).
  Proof.
    destruct (layout_ok_pref rs lay_empty (wf_empty p pok)) as (css & H & Hj).
    assert (Hmain : exists m t,
      jread crc p strict ck (firstn n (jwrite crc p fl rs)) = map Rec (firstn m rs) ++ t /\
      end_ok strict t /\ (m <= length rs)%nat /\
      (length (concat (firstn m css)) <=
         fitb p (l_closed (layout p rs)) (l_open (layout p rs)) (N.of_nat n))%nat).
    { unfold jread. rewrite (reader_factor crc p pok), (jwrite_layout crc p pok).
      destruct (layout_chunks crc p pok rs) as ((W1 & W2) & _).
      assert (E : lay_chunks (layout p rs) = concat css).
      { specialize (Hj (length rs)). rewrite firstn_all in Hj. fold (layout p rs) in Hj.
        rewrite Hj. cbn [lay_chunks lay_empty l_closed l_open concat app].
        rewrite firstn_all2; [reflexivity|]. rewrite <- (Forall2_len _ _ _ H). lia. }
      replace (firstn n (render_lay crc p (layout p rs)))
        with (takeN (N.of_nat n) (render_lay crc p (layout p rs)))
        by (unfold takeN; rewrite Nat2N.id; reflexivity).
      unfold render_lay.
      destruct (stream_events_cut_gen crc p pok ck _ _ W1 W2 (N.of_nat n)) as (tail & Ek & Ht).
      rewrite Ek. fold (lay_chunks (layout p rs)). rewrite E.
      apply (assemble_prefix_exact strict rs css H _ tail Ht). }
    destruct Hmain as (m & t & Em & Hend & Hm & Hk).
    exists m, t. split; [exact Em|]. split; [exact Hend|]. split; [exact Hm|]. split.
    - rewrite (jwrite_layout crc p pok).
      destruct m as [|m'].
      { cbn [firstn]. change (layout p []) with lay_empty. cbn. lia. }
      destruct (layout_split rs (S m')) as (W1 & _ & Hext).
      assert (Hne : l_open (layout p (firstn (S m') rs)) <> []).
      { apply layout_open_ne; [apply (wf_empty p pok)|].
        destruct rs; [cbn in Hm; lia|discriminate]. }
      pose proof (fitb_ext_conv _ _ (N.of_nat n) W1 Hext Hne) as Hc.
      specialize (Hj (S m')). fold (layout p (firstn (S m') rs)) in Hj.
      cbn [lay_chunks lay_empty l_closed l_open concat app] in Hj.
      unfold lay_chunks in Hc at 1. unfold lay_chunks in Hj. rewrite Hj in Hc.
      specialize (Hc Hk). unfold lenN in Hc. lia.
    - intros j Hjl Hlen.
      destruct (truncation_complete crc p pok strict ck fl rs n j Hlen) as (t' & E').
      rewrite Em in E'. eapply count_le; [exact Hjl|exact Hm| |exact E'].
      eapply recs_of_end; exact Hend.
  Qed.

  (* ------------------------------------------------------------ (3) strict mode under damage *)
  Lemma firstn_min {A} m (l : list A) : firstn (Nat.min m (length l)) l = firstn m l.
  Proof.
    destruct (Nat.le_gt_cases m (length l)) as [H|H].
    - now rewrite Nat.min_l.
    - rewrite Nat.min_r by lia. now rewrite firstn_all, firstn_all2 by lia.
  Qed.

  (* d agrees with the written stream on its first n bytes (n = first altered byte; for damage
     confined to blocks b, b+1, ... take n = b * blockSize): every record written wholly inside
     those bytes is in the prefix the strict reader yields *)
  Theorem damage_strict_complete ck fl rs d n j :
    no_forgery crc p ck rs d = true ->
    firstn n d = firstn n (jwrite crc p fl rs) ->
    (j <= length rs)%nat ->
    (length (jwrite crc p fl (firstn j rs)) <= n)%nat ->
    exists m t, jread crc p true ck d = map Rec (firstn m rs) ++ t /\ (t = [] \/ t = [Err]) /\
                (j <= m)%nat /\ (m <= length rs)%nat.
  Proof.
    intros HN Ed Hj Hlen.
    destruct (damage_strict crc p pok ck rs d HN) as (m0 & t & Em & Ht).
    destruct (prefix_complete true ck fl rs d n j Ed Hlen) as (t' & E').
    exists (Nat.min m0 (length rs)), t. rewrite firstn_min.
    split; [exact Em|]. split; [exact Ht|]. split; [|lia].
    rewrite Em in E'. rewrite <- (firstn_min m0) in E'.
    eapply count_le; [exact Hj| |apply (recs_of_end true); exact Ht|exact E']. lia.
  Qed.

  (* ------------------------------------------------------------ (4) tails *)
  Lemma select_nil_l {A} (l : list A) : select [] l = [].
  Proof. reflexivity. Qed.
  Lemma select_nil_r {A} keep : @select A keep [] = [].
  Proof. destruct keep; reflexivity. Qed.

  Lemma select_app {A} (a : list A) : forall keep b,
    select keep (a ++ b) = select (firstn (length a) keep) a ++ select (skipn (length a) keep) b.
  Proof.
    induction a as [|x a IH]; intros keep b.
    - cbn [length firstn skipn app]. reflexivity.
    - destruct keep as [|k keep]; [reflexivity|].
      cbn [length firstn skipn app select]. rewrite IH. destruct k; reflexivity.
  Qed.

  Lemma select_length {A} (a : list A) : forall keep, (length (select keep a) <= length a)%nat.
  Proof.
    induction a as [|x a IH]; intros keep; [rewrite select_nil_r; cbn; lia|].
    destruct keep as [|k keep]; [cbn; lia|]. cbn [select]. specialize (IH keep).
    destruct k; cbn [length]; lia.
  Qed.

  Lemma select_suffix {A} (b : list A) : forall keep x t,
    select keep b = x ++ t -> exists keep', t = select keep' b.
  Proof.
    induction b as [|y b IH]; intros keep x t E.
    - rewrite select_nil_r in E. symmetry in E. apply app_eq_nil in E as (_ & ->). exists []. reflexivity.
    - destruct keep as [|k keep].
      + cbn in E. symmetry in E. apply app_eq_nil in E as (_ & ->). exists []. reflexivity.
      + cbn [select] in E. destruct k.
        * destruct x as [|y' x]; cbn [app] in E.
          -- exists (true :: keep). cbn [select]. now rewrite E.
          -- injection E as _ E. destruct (IH keep x t E) as (k' & ->). exists (false :: k'). reflexivity.
        * destruct (IH keep x t E) as (k' & ->). exists (false :: k'). reflexivity.
  Qed.

  Lemma app_eq_short {A} (sa : list A) : forall a sb t,
    sa ++ sb = a ++ t -> (length sa <= length a)%nat -> exists a2, sb = a2 ++ t.
  Proof.
    induction sa as [|x sa IH]; intros a sb t E Hl.
    - exists a. exact E.
    - destruct a as [|y a]; [cbn in Hl; lia|]. cbn [app] in E. injection E as _ E.
      apply (IH a sb t E). cbn in Hl. lia.
  Qed.

  (* Tolerant mode, d agrees with the written stream on its first n bytes and the checksum
     detects whatever else happened to it: the records yielded are the records written wholly
     inside the first n bytes, all of them, followed by a sub-sequence of the others. *)
  Theorem damage_contained_prefix ck fl rs d n j :
    no_forgery crc p ck rs d = true ->
    firstn n d = firstn n (jwrite crc p fl rs) ->
    (length (jwrite crc p fl (firstn j rs)) <= n)%nat ->
    exists keep, recs_of (jread crc p false ck d) = firstn j rs ++ select keep (skipn j rs).
  Proof.
    intros HN Ed Hlen.
    destruct (damage_contained crc p pok ck fl rs d HN) as (keep & _ & Ek & _).
    destruct (prefix_complete false ck fl rs d n j Ed Hlen) as (t & E).
    rewrite E, recs_of_app, recs_of_recs in Ek.
    rewrite <- (firstn_skipn j rs) in Ek at 2. rewrite select_app in Ek.
    symmetry in Ek. apply app_eq_short in Ek; [|apply select_length].
    destruct Ek as (a2 & Ek). apply select_suffix in Ek as (keep' & Ek).
    exists keep'. rewrite E, recs_of_app, recs_of_recs, Ek. reflexivity.
  Qed.

  (* the crash images: the stream cut at n, then any bytes (zeros, garbage) *)
  Lemma firstn_cut_tail {A} n (s tail : list A) :
    (n <= length s)%nat -> firstn n (firstn n s ++ tail) = firstn n s.
  Proof.
    intros H. rewrite firstn_app, firstn_firstn, Nat.min_id, firstn_length.
    replace (n - Nat.min n (length s))%nat with 0%nat by lia. cbn. apply app_nil_r.
  Qed.

  (* any tail, either mode, no hypothesis: the records wholly inside the cut come first *)
  Theorem tail_complete strict ck fl rs n tail j :
    (n <= length (jwrite crc p fl rs))%nat ->
    (length (jwrite crc p fl (firstn j rs)) <= n)%nat ->
    exists t, jread crc p strict ck (firstn n (jwrite crc p fl rs) ++ tail) = map Rec (firstn j rs) ++ t.
  Proof. intros Hn Hlen. eapply prefix_complete; [apply firstn_cut_tail; exact Hn|exact Hlen]. Qed.

  (* ... and under no_forgery nothing is invented after them *)
  Theorem tail_contained ck fl rs n tail j :
    (n <= length (jwrite crc p fl rs))%nat ->
    no_forgery crc p ck rs (firstn n (jwrite crc p fl rs) ++ tail) = true ->
    (length (jwrite crc p fl (firstn j rs)) <= n)%nat ->
    exists keep,
      recs_of (jread crc p false ck (firstn n (jwrite crc p fl rs) ++ tail))
      = firstn j rs ++ select keep (skipn j rs).
  Proof.
    intros Hn HN Hlen. eapply damage_contained_prefix; [exact HN|apply firstn_cut_tail; exact Hn|exact Hlen].
  Qed.
End CutProofs.
