(* Codec/SessionRecordProofs.v — proofs about Codec/SessionRecord.v, part 1: binary.ReadUvarint against
   PutUvarint (whole and cut), the readers (whole encodings, cut encodings, what they can return on arbitrary
   bytes, how much they consume), fuel, and totality of decode on arbitrary bytes. *)
From GL Require Import Base.Bytes Base.BytesProofs Base.Varint Base.VarintProofs Codec.SessionRecord Codec.SessionRecordSpec.
From Coq Require Import Lia ZArith.
Open Scope N_scope.

Lemma sr_two64_pow : sr_two64 = 2 ^ 64. Proof. reflexivity. Qed.
Lemma sr_two63_pow : sr_two63 = 2 ^ 63. Proof. reflexivity. Qed.

(* ---------------- int64 / uint64 conversions ---------------- *)
Lemma i64_small x : x < sr_two63 -> i64_of_u64 x = Z.of_N x.
Proof. intros H. unfold i64_of_u64. replace (x <? sr_two63) with true by lia. reflexivity. Qed.

Lemma i64_big_neg x : sr_two63 <= x -> x < sr_two64 -> (i64_of_u64 x < 0)%Z.
Proof.
  intros H1 H2. unfold i64_of_u64. replace (x <? sr_two63) with false by lia.
  unfold sr_two63, sr_two64 in *. lia.
Qed.

Lemma i64_of_to_N z : z_in63 z -> i64_of_u64 (Z.to_N z) = z.
Proof.
  intros [H0 H1]. rewrite i64_small.
  - apply Z2N.id. exact H0.
  - unfold sr_two63 in *. lia.
Qed.

Lemma u64_of_small z : z_in63 z -> u64_of_i64 z = Z.to_N z.
Proof.
  intros [H0 H1]. unfold u64_of_i64. rewrite Z.mod_small; [reflexivity|].
  unfold sr_two63, sr_two64 in *. lia.
Qed.

Lemma to_N_lt64 z : z_in63 z -> Z.to_N z < 2 ^ 64.
Proof. intros [H0 H1]. rewrite <- sr_two64_pow. unfold sr_two63, sr_two64 in *. lia. Qed.

Lemma i64_nonneg_small x : (0 <= i64_of_u64 x)%Z -> x < sr_two64 -> x < sr_two63.
Proof.
  intros H H2. destruct (N.ltb_spec x sr_two63) as [Hlt|Hge]; [exact Hlt|].
  pose proof (i64_big_neg x Hge H2). lia.
Qed.

(* ---------------- ReadUvarint from Uvarint ---------------- *)
Lemma read_uvarint_f_of_uvarint_f buf : forall fuel i x s v n,
  N.of_nat fuel + i = 10 -> uvarint_f buf i x s = UvOk v n ->
  read_uvarint_f fuel i x s buf = RvOk v (dropN (n - i) buf).
Proof.
  induction buf as [|b rest IH]; intros fuel i x s v n Hf H; cbn [uvarint_f] in H; [discriminate|].
  destruct (i =? 10) eqn:E10; [discriminate|].
  destruct fuel as [|f]; [lia|]. cbn [read_uvarint_f].
  destruct (b <? 128).
  - destruct ((i =? 9) && (1 <? b)); [discriminate|]. injection H as <- <-.
    replace (i + 1 - i) with 1 by lia. reflexivity.
  - pose proof (uvarint_f_ok_bounds _ _ _ _ _ _ H) as [Hb _].
    rewrite (IH f (i + 1) _ _ v n) by (try exact H; lia).
    f_equal. unfold dropN. replace (N.to_nat (n - i)) with (S (N.to_nat (n - (i + 1)))) by lia. reflexivity.
Qed.

Lemma read_uvarint_put x rest : x < 2 ^ 64 -> read_uvarint (put_uvarint x ++ rest) = RvOk x rest.
Proof.
  intros H. unfold read_uvarint.
  rewrite (read_uvarint_f_of_uvarint_f _ 10 0 0 0 x (lenN (put_uvarint x))).
  - rewrite N.sub_0_r, dropN_app. reflexivity.
  - reflexivity.
  - apply (uvarint_put x rest H).
Qed.

(* every byte of an encoding but the last one is a continuation byte *)
Lemma put_uvarint_f_firstn fuel : forall x n, (n < length (put_uvarint_f fuel x))%nat ->
  Forall (fun b => 128 <= b) (firstn n (put_uvarint_f fuel x)).
Proof.
  induction fuel as [|f IH]; intros x n Hn; cbn [put_uvarint_f] in *.
  - cbn [length] in Hn. replace n with O by lia. constructor.
  - destruct (128 <=? x).
    + destruct n as [|n]; [constructor|]. cbn [firstn]. constructor.
      * pose proof (cont_byte_bounds x). lia.
      * apply IH. cbn [length] in Hn. lia.
    + cbn [length] in Hn. replace n with O by lia. constructor.
Qed.

Lemma read_uvarint_f_cont l : forall fuel i x s, Forall (fun b => 128 <= b) l -> (length l < fuel)%nat ->
  read_uvarint_f fuel i x s l = if (i =? 0) && (match l with [] => true | _ => false end) then RvEOF else RvUnexpEOF.
Proof.
  induction l as [|b rest IH]; intros fuel i x s Hl Hf.
  - destruct fuel; [cbn [length] in Hf; lia|]. cbn [read_uvarint_f]. rewrite andb_true_r. reflexivity.
  - destruct fuel; [cbn [length] in Hf; lia|]. cbn [read_uvarint_f].
    inversion Hl as [|? ? Hb Hr]; subst. replace (b <? 128) with false by lia.
    rewrite IH by (try exact Hr; cbn [length] in Hf; lia).
    replace (i + 1 =? 0) with false by lia. rewrite andb_false_r. reflexivity.
Qed.

Lemma put_uvarint_length_nat x : (1 <= length (put_uvarint x) <= 10)%nat.
Proof. pose proof (put_uvarint_length x) as H. unfold lenN in H. lia. Qed.

(* a strict prefix of an encoding: nothing at all, or the middle of a varint *)
Lemma read_uvarint_cut x n : (n < length (put_uvarint x))%nat ->
  read_uvarint (firstn n (put_uvarint x)) = if Nat.eqb n 0 then RvEOF else RvUnexpEOF.
Proof.
  intros Hn. unfold read_uvarint. rewrite read_uvarint_f_cont.
  - destruct n as [|n]; [reflexivity|]. cbn [Nat.eqb].
    destruct (put_uvarint x) as [|b l] eqn:E; [cbn [length] in Hn; lia|]. reflexivity.
  - apply put_uvarint_f_firstn. exact Hn.
  - rewrite firstn_length. pose proof (put_uvarint_length_nat x). lia.
Qed.

(* ---------------- ReadUvarint on arbitrary bytes: it consumes at least one byte ---------------- *)
Lemma read_uvarint_f_shrink buf : forall fuel i x s v rest,
  read_uvarint_f fuel i x s buf = RvOk v rest -> (length rest < length buf)%nat.
Proof.
  induction buf as [|b l IH]; intros fuel i x s v rest H; destruct fuel; cbn [read_uvarint_f] in H; try discriminate.
  - destruct (i =? 0); discriminate.
  - destruct (b <? 128).
    + destruct ((i =? 9) && (1 <? b)); [discriminate|]. injection H as _ <-. cbn [length]. lia.
    + apply IH in H. cbn [length]. lia.
Qed.

Lemma read_uvarint_shrink buf v rest : read_uvarint buf = RvOk v rest -> (length rest < length buf)%nat.
Proof. apply read_uvarint_f_shrink. Qed.

(* ---------------- the readers on arbitrary bytes ---------------- *)
Definition rd_good {A} (f : rfield) (buf : bytes) (m : rd A) : Prop :=
  match m with
  | ROk _ rest => (length rest <= length buf)%nat
  | RErr e => exists why, e = ECorrupt f why
  | RPanic => False
  end.

Lemma read_uv_good f buf : rd_good f buf (read_uv f buf).
Proof.
  unfold read_uv, read_uv_may_eof. destruct (read_uvarint buf) eqn:E; cbn [rd_good].
  - apply read_uvarint_shrink in E. lia.
  - eexists; reflexivity.
  - eexists; reflexivity.
  - eexists; reflexivity.
Qed.

Lemma read_uv_strict f buf v rest : read_uv f buf = ROk v rest -> (length rest < length buf)%nat.
Proof.
  unfold read_uv, read_uv_may_eof. destruct (read_uvarint buf) eqn:E; try discriminate.
  intros H. injection H as <- <-. apply read_uvarint_shrink in E. exact E.
Qed.

Lemma read_varint_good f buf : rd_good f buf (read_varint f buf).
Proof.
  unfold read_varint. pose proof (read_uv_good f buf) as G. destruct (read_uv f buf) as [x rest|e|]; cbn [rbind rd_good] in *.
  - destruct (i64_of_u64 x <? 0)%Z; cbn [rd_good]; [eexists; reflexivity|exact G].
  - exact G.
  - exact G.
Qed.

Lemma read_level_good f buf : rd_good f buf (read_level f buf).
Proof.
  unfold read_level. pose proof (read_uv_good f buf) as G. destruct (read_uv f buf) as [x rest|e|]; cbn [rbind rd_good] in *.
  - destruct ((i64_of_u64 x <? 0)%Z || negb (u64_of_i64 (i64_of_u64 x) =? x)); cbn [rd_good]; [eexists; reflexivity|exact G].
  - exact G.
  - exact G.
Qed.

Lemma length_dropN_le {A} n (l : list A) : (length (dropN n l) <= length l)%nat.
Proof. unfold dropN. rewrite skipn_length. lia. Qed.

Lemma read_bytes_good f buf : rd_good f buf (read_bytes f buf).
Proof.
  unfold read_bytes. pose proof (read_uv_good f buf) as G. destruct (read_uv f buf) as [x rest|e|]; cbn [rbind rd_good] in *.
  - destruct (lenN rest <? x); cbn [rd_good]; [eexists; reflexivity|].
    pose proof (length_dropN_le x rest). lia.
  - exact G.
  - exact G.
Qed.

(* the level a reader returns is a non-negative int, numbers are non-negative int64s, a byte string read is
   never longer than what was left: nothing is allocated from an unchecked length *)
Lemma read_level_range f buf l rest : read_level f buf = ROk l rest -> (0 <= l)%Z.
Proof.
  unfold read_level. destruct (read_uv f buf) as [x r|e|]; cbn [rbind]; try discriminate.
  destruct (i64_of_u64 x <? 0)%Z eqn:E; cbn [orb]; [discriminate|].
  destruct (negb _); [discriminate|]. intros H. injection H as <- _. lia.
Qed.

Lemma read_varint_range f buf z rest : read_varint f buf = ROk z rest -> (0 <= z)%Z.
Proof.
  unfold read_varint. destruct (read_uv f buf) as [x r|e|]; cbn [rbind]; try discriminate.
  destruct (i64_of_u64 x <? 0)%Z eqn:E; [discriminate|]. intros H. injection H as <- _. lia.
Qed.

Lemma read_bytes_bounded f buf x rest : read_bytes f buf = ROk x rest -> (length x + length rest <= length buf)%nat.
Proof.
  unfold read_bytes. destruct (read_uv f buf) as [n r|e|] eqn:E; cbn [rbind]; try discriminate.
  destruct (lenN r <? n) eqn:El; [discriminate|]. intros H. injection H as <- <-.
  apply read_uv_strict in E. unfold takeN, dropN. rewrite firstn_length, skipn_length. lia.
Qed.

Section Proofs.
  Variable p : rparams.

  (* a compound reader keeps the good property when every step has it for its own field; the fields of one
     tag differ, so the statement is: some corruption error, never a panic, never a bare EOF *)
  Definition rd_fine {A} (buf : bytes) (m : rd A) : Prop :=
    match m with
    | ROk _ rest => (length rest <= length buf)%nat
    | RErr e => is_corrupted e = true
    | RPanic => False
    end.

  Lemma good_fine {A} f buf (m : rd A) : rd_good f buf m -> rd_fine buf m.
  Proof. destruct m; cbn; try tauto. intros [why ->]. reflexivity. Qed.

  Lemma rbind_fine {A B} buf (m : rd A) (k : A -> bytes -> rd B) :
    rd_fine buf m -> (forall a rest, (length rest <= length buf)%nat -> rd_fine rest (k a rest)) ->
    rd_fine buf (rbind m k).
  Proof.
    intros Hm Hk. destruct m as [a rest|e|]; cbn [rbind rd_fine] in *; try exact Hm.
    specialize (Hk a rest Hm). destruct (k a rest); cbn [rd_fine] in *; try exact Hk. lia.
  Qed.

  Lemma fine_weaken {A} buf buf' (m : rd A) : rd_fine buf' m -> (length buf' <= length buf)%nat -> rd_fine buf m.
  Proof. destruct m; cbn [rd_fine]; try tauto. lia. Qed.

  Ltac fine_step :=
    match goal with
    | |- rd_fine _ (rbind (read_bytes ?f ?b) _) => apply rbind_fine; [apply (good_fine f), read_bytes_good|intros ? ? ?]
    | |- rd_fine _ (rbind (read_level ?f ?b) _) => apply rbind_fine; [apply (good_fine f), read_level_good|intros ? ? ?]
    | |- rd_fine _ (rbind (read_varint ?f ?b) _) => apply rbind_fine; [apply (good_fine f), read_varint_good|intros ? ? ?]
    | |- rd_fine _ (rbind (read_uv ?f ?b) _) => apply rbind_fine; [apply (good_fine f), read_uv_good|intros ? ? ?]
    | |- rd_fine _ (ROk _ _) => cbn [rd_fine]; lia
    end.

  Lemma decode_field_fine tag r buf : rd_fine buf (decode_field p tag r buf).
  Proof.
    unfold decode_field, decode_field_with.
    repeat match goal with |- rd_fine _ (if ?c then _ else _) => destruct c end;
      repeat fine_step.
  Qed.

  (* ---------------- fuel ---------------- *)
  Lemma decode_loop_fuel f1 : forall f2 r b, (length b < f1)%nat -> (length b < f2)%nat ->
    decode_loop p f1 r b = decode_loop p f2 r b.
  Proof.
    induction f1 as [|f1 IH]; intros f2 r b H1 H2; [lia|]. destruct f2 as [|f2]; [lia|].
    unfold decode_loop in *. cbn [decode_loop_with].
    unfold read_uv_may_eof. destruct (read_uvarint b) as [tag rest| | |] eqn:E; try reflexivity.
    apply read_uvarint_shrink in E.
    pose proof (decode_field_fine tag r rest) as F. unfold decode_field in F.
    destruct (decode_field_with p read_bytes read_level tag r rest) as [r' rest'|e|]; try reflexivity.
    cbn [rd_fine] in F. apply IH; lia.
  Qed.

  (* decode, one round at a time *)
  Lemma decode_unfold r b :
    decode p r b =
    match read_uv_may_eof FHeader true b with
    | RErr EEOF => DOk r
    | RErr e => DErr e r
    | RPanic => DPanic
    | ROk tag rest =>
        match decode_field p tag r rest with
        | ROk r' rest' => decode p r' rest'
        | RErr e => DErr e r
        | RPanic => DPanic
        end
    end.
  Proof.
    unfold decode at 1. unfold decode_loop. cbn [decode_loop_with].
    unfold read_uv_may_eof. destruct (read_uvarint b) as [tag rest| | |] eqn:E; try reflexivity.
    apply read_uvarint_shrink in E.
    pose proof (decode_field_fine tag r rest) as F. unfold decode_field in *.
    destruct (decode_field_with p read_bytes read_level tag r rest) as [r' rest'|e|]; try reflexivity.
    cbn [rd_fine] in F. unfold decode. apply (decode_loop_fuel (length b) (S (length rest')) r' rest'); lia.
  Qed.

  Lemma decode_nil r : decode p r [] = DOk r.
  Proof. reflexivity. Qed.

  (* ---------------- totality on arbitrary bytes ---------------- *)
  Definition dres_fine (d : dres) : Prop :=
    match d with
    | DOk _ => True
    | DErr e _ => exists f why, e = ECorrupt f why
    | DPanic | DFuel => False
    end.

  Lemma decode_loop_total fuel : forall r b, (length b < fuel)%nat -> dres_fine (decode_loop p fuel r b).
  Proof.
    induction fuel as [|f IH]; intros r b Hb; [lia|].
    unfold decode_loop in *. cbn [decode_loop_with].
    unfold read_uv_may_eof. destruct (read_uvarint b) as [tag rest| | |] eqn:E; cbn [dres_fine]; try (do 2 eexists; reflexivity); try exact I.
    apply read_uvarint_shrink in E.
    pose proof (decode_field_fine tag r rest) as F. unfold decode_field in F.
    destruct (decode_field_with p read_bytes read_level tag r rest) as [r' rest'|e|]; cbn [rd_fine] in F.
    - apply IH. lia.
    - cbn [dres_fine]. destruct e as [fl why|]; [do 2 eexists; reflexivity|discriminate].
    - contradiction.
  Qed.

  (* On ARBITRARY bytes, starting from any record state: a record or an ErrCorrupted naming a field and one of
     the four reasons; no panic, no bare EOF, fuel never runs out. *)
  Theorem decode_total r b : dres_fine (decode p r b).
  Proof. apply decode_loop_total. lia. Qed.
End Proofs.
