(* Codec/Journal.v — executable model of leveldb/journal/journal.go.
   Model file: definitions only (proofs in JournalProofs.v and its helper files).

   Writer: the state components of journal.Writer (buf, i, j, written, first, pending) and the
   underlying io.Writer as the list of bytes written so far; Next / singleWriter.Write /
   fillHeader / writeBlock / writePending / Flush / Close with the branch structure of the Go
   code (a record is written by one Write call in jwrite, by several in jwrite_pieces), the
   explicit panic of fillHeader and slice-bounds panics as [WPanic].
   Reader: the state components of journal.Reader (r as the remaining bytes, buf, i, j, n, last,
   err), nextChunk / corrupt / Next / singleReader.Read, driven the way recoverJournal
   (leveldb/db.go) and session.recover drive it: Next, then read the whole record
   (bytes.Buffer.ReadFrom), io.ErrUnexpectedEOF => skipped, other error => stop.
   Not modelled: errors of the underlying io.Reader/io.Writer (the streams are byte strings),
   seq/stale-handle checks, Reset, Size/blockNumber, ReadByte. *)
From GL Require Export Base.Bytes.

(* constants of journal.go, supplied by Gen/Consts.v through Gen/InstJournal.v *)
Record jparams := {
  bs : N;        (* blockSize *)
  hs : N;        (* headerSize *)
  tFull : N; tFirst : N; tMiddle : N; tLast : N
}.

(* The header layout itself (checksum at +0..+4, length at +4..+6, type at +6) is written
   with literal offsets in the Go code, and so it is here. *)
Definition jparams_ok (p : jparams) : Prop :=
  hs p = 7 /\ hs p < bs p /\ bs p - hs p <= 65535 /\
  1 <= tFull p /\
  tFull p <= tFirst p /\ tFirst p <= tLast p /\
  tFull p <= tMiddle p /\ tMiddle p <= tLast p /\
  tFull p <> tFirst p /\ tFull p <> tMiddle p /\ tFull p <> tLast p /\
  tFirst p <> tMiddle p /\ tFirst p <> tLast p /\ tMiddle p <> tLast p /\
  tLast p < 256.

Definition lenN {A} (l : list A) : N := N.of_nat (length l).
Definition takeN {A} (n : N) (l : list A) : list A := firstn (N.to_nat n) l.
Definition dropN {A} (n : N) (l : list A) : list A := skipn (N.to_nat n) l.
Definition zeros (n : N) : bytes := repeat 0 (N.to_nat n).

(* Go slice expression buf[a:b] on an array/slice of capacity = length: None = run-time panic *)
Definition slice (buf : bytes) (a b : N) : option bytes :=
  if (a <=? b) && (b <=? lenN buf) then Some (takeN (b - a) (dropN a buf)) else None.

(* buf[a] *)
Definition index (buf : bytes) (a : N) : option N := nth_error buf (N.to_nat a).

(* overwrite buf[pos : pos+len d] with d (callers establish pos + len d <= len buf) *)
Definition put (buf : bytes) (pos : N) (d : bytes) : bytes :=
  takeN pos buf ++ d ++ dropN (pos + lenN d) buf.

(* drop reasons, in the order they appear in nextChunk *)
Definition R_zero : N := 0.       (* "zero header" *)
Definition R_type : N := 1.       (* "invalid chunk type %#x" *)
Definition R_overflow : N := 2.   (* "chunk length overflows block" *)
Definition R_checksum : N := 3.   (* "checksum mismatch" *)
Definition R_orphan : N := 4.     (* "orphan chunk" *)
Definition R_missing : N := 5.    (* "missing chunk part" *)

(* what the driver observes: records, skipped records, the terminating error, and the calls of
   Dropper.Drop(&ErrCorrupted{Size, Reason}) in the order they happen *)
Inductive outcome :=
| Rec (b : bytes)
| Skipped
| Err
| Dropped (reason size : N)
| Panic
| OutOfFuel.

Definition is_drop (o : outcome) : bool := match o with Dropped _ _ => true | _ => false end.
(* the outcomes without the dropper's log *)
Definition outs (l : list outcome) : list outcome := filter (fun o => negb (is_drop o)) l.

Section Journal.
  Variable crc : bytes -> N.    (* util.NewCRC(b).Value(), any function *)
  Variable p : jparams.

  (* Value() has type uint32 *)
  Definition cksum (b : bytes) : N := crc b mod 2 ^ 32.

  (* ------------------------------------------------------------------ Writer *)
  Record wstate := {
    w_buf : bytes; w_i : N; w_j : N; w_written : N;
    w_first : bool; w_pending : bool;
    w_out : bytes      (* everything passed to w.w.Write so far *)
  }.

  Inductive wres := WOk (s : wstate) | WPanic | WFuel.

  Definition wbind (r : wres) (f : wstate -> wres) : wres :=
    match r with WOk s => f s | WPanic => WPanic | WFuel => WFuel end.

  Definition w_init : wstate :=
    {| w_buf := zeros (bs p); w_i := 0; w_j := 0; w_written := 0;
       w_first := false; w_pending := false; w_out := [] |}.

  Definition set_buf (s : wstate) (b : bytes) : wstate :=
    {| w_buf := b; w_i := w_i s; w_j := w_j s; w_written := w_written s;
       w_first := w_first s; w_pending := w_pending s; w_out := w_out s |}.

  (* fillHeader *)
  Definition fillHeader (last : bool) (s : wstate) : wres :=
    if (w_j s <? w_i s + hs p) || (bs p <? w_j s) then WPanic   (* "bad writer state" *)
    else
      let t := if last then (if w_first s then tFull p else tLast p)
               else (if w_first s then tFirst p else tMiddle p) in
      let b1 := put (w_buf s) (w_i s + 6) [t] in
      match slice b1 (w_i s + 6) (w_j s) with
      | None => WPanic
      | Some body =>
          let b2 := put b1 (w_i s + 0) (le_encode 4 (cksum body)) in
          (* uint16(w.j - w.i - headerSize) *)
          let b3 := put b2 (w_i s + 4) (le_encode 2 ((w_j s - w_i s - hs p) mod 65536)) in
          WOk (set_buf s b3)
      end.

  (* writeBlock: w.w.Write(w.buf[w.written:]) *)
  Definition writeBlock (s : wstate) : wres :=
    match slice (w_buf s) (w_written s) (lenN (w_buf s)) with
    | None => WPanic
    | Some d =>
        WOk {| w_buf := w_buf s; w_i := 0; w_j := hs p; w_written := 0;
               w_first := w_first s; w_pending := w_pending s; w_out := w_out s ++ d |}
    end.

  (* writePending *)
  Definition writePending (s : wstate) : wres :=
    wbind (if w_pending s
           then wbind (fillHeader true s) (fun s1 =>
                  WOk {| w_buf := w_buf s1; w_i := w_i s1; w_j := w_j s1; w_written := w_written s1;
                         w_first := w_first s1; w_pending := false; w_out := w_out s1 |})
           else WOk s)
      (fun s1 =>
         match slice (w_buf s1) (w_written s1) (w_j s1) with
         | None => WPanic
         | Some d =>
             WOk {| w_buf := w_buf s1; w_i := w_i s1; w_j := w_j s1; w_written := w_j s1;
                    w_first := w_first s1; w_pending := w_pending s1; w_out := w_out s1 ++ d |}
         end).

  (* Flush / Close: writePending (the flusher of the underlying writer has no effect on bytes) *)
  Definition wFlush (s : wstate) : wres := writePending s.
  Definition wClose (s : wstate) : wres := writePending s.

  (* Next *)
  Definition wNext (s : wstate) : wres :=
    wbind (if w_pending s then fillHeader true s else WOk s) (fun s1 =>
      let i := w_j s1 in
      let j := w_j s1 + hs p in
      let s2 := {| w_buf := w_buf s1; w_i := i; w_j := j; w_written := w_written s1;
                   w_first := w_first s1; w_pending := w_pending s1; w_out := w_out s1 |} in
      wbind (if bs p <? j
             then (* for k := w.i; k < blockSize; k++ { w.buf[k] = 0 } *)
               writeBlock (set_buf s2 (put (w_buf s2) i (zeros (bs p - i))))
             else WOk s2)
        (fun s3 =>
           WOk {| w_buf := w_buf s3; w_i := w_i s3; w_j := w_j s3; w_written := w_written s3;
                  w_first := true; w_pending := true; w_out := w_out s3 |})).

  (* singleWriter.Write(p): one iteration per pass of the for loop (each copies at least one byte) *)
  Fixpoint wWrite (fuel : nat) (s : wstate) (d : bytes) : wres :=
    match d with
    | [] => WOk s
    | _ :: _ =>
        match fuel with
        | O => WFuel
        | S fuel' =>
            wbind (if w_j s =? bs p
                   then wbind (fillHeader false s) (fun s1 =>
                          wbind (writeBlock s1) (fun s2 =>
                            WOk {| w_buf := w_buf s2; w_i := w_i s2; w_j := w_j s2;
                                   w_written := w_written s2; w_first := false;
                                   w_pending := w_pending s2; w_out := w_out s2 |}))
                   else WOk s)
              (fun s1 =>
                 (* n := copy(w.buf[w.j:], p) *)
                 if lenN (w_buf s1) <? w_j s1 then WPanic
                 else
                   let n := N.min (lenN (w_buf s1) - w_j s1) (lenN d) in
                   wWrite fuel'
                     {| w_buf := put (w_buf s1) (w_j s1) (takeN n d); w_i := w_i s1;
                        w_j := w_j s1 + n; w_written := w_written s1; w_first := w_first s1;
                        w_pending := w_pending s1; w_out := w_out s1 |}
                     (dropN n d))
        end
    end.

  (* one record: Next, Write(r), and Flush if the flush pattern says so *)
  Definition wRecord (s : wstate) (r : bytes) (fl : bool) : wres :=
    wbind (wNext s) (fun s1 =>
      wbind (wWrite (length r) s1 r) (fun s2 =>
        if fl then wFlush s2 else WOk s2)).

  (* flush pattern: fl[k] = Flush after record k (missing entries = no flush) *)
  Fixpoint wRecords (s : wstate) (fl : list bool) (rs : list bytes) : wres :=
    match rs with
    | [] => WOk s
    | r :: rs' =>
        wbind (wRecord s r (hd false fl)) (fun s1 => wRecords s1 (tl fl) rs')
    end.

  (* the whole session: records, then Close *)
  Definition jwrite_res (fl : list bool) (rs : list bytes) : wres :=
    wbind (wRecords w_init fl rs) wClose.

  (* the bytes that reached the underlying writer ([] if the writer panicked; the theorem
     writer_total of Props/C12.v says it never does) *)
  Definition jwrite (fl : list bool) (rs : list bytes) : bytes :=
    match jwrite_res fl rs with WOk s => w_out s | _ => [] end.

  (* a record written through several Write calls (session records are encoded field by field) *)
  Fixpoint wWrites (s : wstate) (pieces : list bytes) : wres :=
    match pieces with
    | [] => WOk s
    | q :: ps => wbind (wWrite (length q) s q) (fun s1 => wWrites s1 ps)
    end.

  Definition wRecordP (s : wstate) (pieces : list bytes) (fl : bool) : wres :=
    wbind (wNext s) (fun s1 =>
      wbind (wWrites s1 pieces) (fun s2 =>
        if fl then wFlush s2 else WOk s2)).

  Fixpoint wRecordsP (s : wstate) (fl : list bool) (rss : list (list bytes)) : wres :=
    match rss with
    | [] => WOk s
    | ps :: rss' =>
        wbind (wRecordP s ps (hd false fl)) (fun s1 => wRecordsP s1 (tl fl) rss')
    end.

  Definition jwrite_pieces_res (fl : list bool) (rss : list (list bytes)) : wres :=
    wbind (wRecordsP w_init fl rss) wClose.

  Definition jwrite_pieces (fl : list bool) (rss : list (list bytes)) : bytes :=
    match jwrite_pieces_res fl rss with WOk s => w_out s | _ => [] end.

  (* ------------------------------------------------------------------ Reader *)
  Inductive rerr := ENone | EEOF | ECorrupt.

  Record rstate := {
    r_inp : bytes;      (* what the underlying io.Reader has not delivered yet *)
    r_buf : bytes; r_i : N; r_j : N; r_n : N;
    r_last : bool; r_err : rerr
  }.

  Definition r_init (b : bytes) : rstate :=
    {| r_inp := b; r_buf := zeros (bs p); r_i := 0; r_j := 0; r_n := 0;
       r_last := true; r_err := ENone |}.

  Inductive ncres :=
  | NCOk (s : rstate)                          (* nil *)
  | NCSkip (s : rstate) (reason size : N)      (* errSkip, after Drop *)
  | NCCorrupt (s : rstate) (reason size : N)   (* ErrCorrupted (strict), after Drop; r.err set *)
  | NCEof (s : rstate)                         (* io.EOF; r.err set *)
  | NCPanic
  | NCFuel.

  Definition set_ij (s : rstate) (i j : N) : rstate :=
    {| r_inp := r_inp s; r_buf := r_buf s; r_i := i; r_j := j; r_n := r_n s;
       r_last := r_last s; r_err := r_err s |}.
  Definition set_err (s : rstate) (e : rerr) : rstate :=
    {| r_inp := r_inp s; r_buf := r_buf s; r_i := r_i s; r_j := r_j s; r_n := r_n s;
       r_last := r_last s; r_err := e |}.

  Section Mode.
    Variable strict : bool.
    Variable checksum : bool.

    (* corrupt(n, reason, skip) *)
    Definition corrupt (s : rstate) (n reason : N) (skip : bool) : ncres :=
      if strict && negb skip then NCCorrupt (set_err s ECorrupt) reason n
      else NCSkip s reason n.

    (* nextChunk(first); one unit of fuel per pass of the for loop *)
    Fixpoint nextChunk (fuel : nat) (first : bool) (s : rstate) : ncres :=
      match fuel with
      | O => NCFuel
      | S fuel' =>
          if r_j s + hs p <=? r_n s then
            match slice (r_buf s) (r_j s + 0) (r_j s + 4),
                  slice (r_buf s) (r_j s + 4) (r_j s + 6),
                  index (r_buf s) (r_j s + 6) with
            | Some cb, Some lb, Some chunkType =>
                let cks := le_decode cb in
                let length := le_decode lb in
                let unprocBlock := r_n s - r_j s in
                if (cks =? 0) && (length =? 0) && (chunkType =? 0) then
                  corrupt (set_ij s (r_n s) (r_n s)) unprocBlock R_zero false
                else if (chunkType <? tFull p) || (tLast p <? chunkType) then
                  corrupt (set_ij s (r_n s) (r_n s)) unprocBlock R_type false
                else
                  let i' := r_j s + hs p in
                  let j' := r_j s + hs p + length in
                  if r_n s <? j' then
                    corrupt (set_ij s (r_n s) (r_n s)) unprocBlock R_overflow false
                  else
                    (* r.checksum && checksum != util.NewCRC(r.buf[r.i-1:r.j]).Value() *)
                    match (if checksum
                           then (if i' =? 0 then None
                                 else option_map (fun body => negb (cks =? cksum body))
                                        (slice (r_buf s) (i' - 1) j'))
                           else Some false) with
                    | None => NCPanic
                    | Some true =>
                        corrupt (set_ij s (r_n s) (r_n s)) unprocBlock R_checksum false
                    | Some false =>
                        if first && negb (chunkType =? tFull p) && negb (chunkType =? tFirst p) then
                          corrupt (set_ij s j' j') ((j' - i') + hs p) R_orphan true
                        else
                          NCOk {| r_inp := r_inp s; r_buf := r_buf s; r_i := i'; r_j := j';
                                  r_n := r_n s;
                                  r_last := (chunkType =? tFull p) || (chunkType =? tLast p);
                                  r_err := r_err s |}
                    end
            | _, _, _ => NCPanic
            end
          else if (r_n s <? bs p) && (0 <? r_n s) then
            (* the last block *)
            if negb first then corrupt s 0 R_missing false
            else NCEof (set_err s EEOF)
          else
            (* n, err := io.ReadFull(r.r, r.buf[:]) *)
            let blk := takeN (lenN (r_buf s)) (r_inp s) in
            let n := lenN blk in
            if n =? 0 then
              if negb first then corrupt s 0 R_missing false
              else NCEof (set_err s EEOF)
            else
              nextChunk fuel' first
                {| r_inp := dropN (lenN (r_buf s)) (r_inp s);
                   r_buf := blk ++ dropN n (r_buf s);
                   r_i := 0; r_j := 0; r_n := n; r_last := r_last s; r_err := r_err s |}
      end.

    (* Reader.Next *)
    Inductive nextres := NxOk (s : rstate) | NxEof | NxErr | NxPanic | NxFuel.

    Fixpoint next_loop (F fuel : nat) (s : rstate) : list outcome * nextres :=
      match fuel with
      | O => ([], NxFuel)
      | S fuel' =>
          match nextChunk F true s with
          | NCOk s' => ([], NxOk s')
          | NCSkip s' r n =>
              let (ds, res) := next_loop F fuel' s' in (Dropped r n :: ds, res)
          | NCCorrupt s' r n => ([Dropped r n], NxErr)
          | NCEof s' => ([], NxEof)
          | NCPanic => ([], NxPanic)
          | NCFuel => ([], NxFuel)
          end
      end.

    Definition rNext (F : nat) (s : rstate) : list outcome * nextres :=
      match r_err s with
      | EEOF => ([], NxEof)
      | ECorrupt => ([], NxErr)
      | ENone => next_loop F F (set_ij s (r_j s) (r_j s))
      end.

    (* bytes.Buffer.ReadFrom(singleReader): Read is called until it returns io.EOF (=> nil) or
       another error.  Each Read copies buf[i:j] (the model takes the destination to be large
       enough, so a Read returns the whole remaining payload of the chunk). *)
    Inductive rdres :=
    | RdOk (d : bytes) (s : rstate)
    | RdUnexpectedEOF (s : rstate)
    | RdErr
    | RdPanic
    | RdFuel.

    Fixpoint read_loop (F fuel : nat) (s : rstate) (acc : bytes) : list outcome * rdres :=
      match fuel with
      | O => ([], RdFuel)
      | S fuel' =>
          if r_i s =? r_j s then
            if r_last s then ([], RdOk acc s)
            else
              match nextChunk F false s with
              | NCOk s' => read_loop F fuel' s' acc
              | NCSkip s' r n => ([Dropped r n], RdUnexpectedEOF s')
              | NCCorrupt s' r n => ([Dropped r n], RdErr)
              | NCEof s' => ([], RdOk acc s')
              | NCPanic => ([], RdPanic)
              | NCFuel => ([], RdFuel)
              end
          else
            match slice (r_buf s) (r_i s) (r_j s) with
            | None => ([], RdPanic)
            | Some d => read_loop F fuel' (set_ij s (r_j s) (r_j s)) (acc ++ d)
            end
      end.

    (* the replay loop of recoverJournal *)
    Fixpoint jloop (F fuel : nat) (s : rstate) : list outcome :=
      match fuel with
      | O => [OutOfFuel]
      | S fuel' =>
          let (ds, res) := rNext F s in
          ds ++
          match res with
          | NxEof => []
          | NxErr => [Err]
          | NxPanic => [Panic]
          | NxFuel => [OutOfFuel]
          | NxOk s1 =>
              let (ds2, res2) := read_loop F F s1 [] in
              ds2 ++
              match res2 with
              | RdOk d s2 => Rec d :: jloop F fuel' s2
              | RdUnexpectedEOF s2 => Skipped :: jloop F fuel' s2
              | RdErr => [Err]
              | RdPanic => [Panic]
              | RdFuel => [OutOfFuel]
              end
          end
      end.

    Definition jfuel (b : bytes) : nat := length b + length b + 4.

    (* everything the driver observes, including the dropper's log *)
    Definition jread_log (b : bytes) : list outcome := jloop (jfuel b) (jfuel b) (r_init b).
    (* the outcomes: Rec / Skipped / Err (/ Panic / OutOfFuel, excluded by theorem) *)
    Definition jread (b : bytes) : list outcome := outs (jread_log b).
  End Mode.
End Journal.
