(* Codec/SessionRecord.v — model of leveldb/session_record.go (the manifest record codec) and of the part of
   leveldb/session.go + leveldb/version.go that replays a manifest: session.recover's loop over the records the
   journal reader yields, versionStaging.getScratch / commit / finish(false), session.setCompPtr, the final
   consistency checks and session.setNextFileNum / recordCommited.
   Model file: definitions only (proofs in Codec/SessionRecordProofs.v, Codec/SessionRecordCutProofs.v,
   Store/ManifestReplayProofs.v).

     sessionRecord: has / setComparer / setJournalNum / setPrevJournalNum / setNextFileNum / setSeqNum /
       addCompPtr / addTable / delTable / resetCompPtrs / resetAddedTables / resetDeletedTables,
       putUvarint / putVarint / putBytes / encode,
       readUvarintMayEOF / readUvarint / readVarint / readBytes / readLevel / decode.

   Conventions.  Bytes are [list N].  Go [int] and [int64] are 64 bits wide and are [Z] here: levels, file
   numbers and sizes; [int64(x)] / [int(x)] of a uint64 is [i64_of_u64] (two's complement, written out),
   [uint64(z)] is [u64_of_i64].  The sequence number is a uint64: [N].  hasRec is the bit mask itself ([N],
   bit t set = 1<<t or-ed in).  The reader is the *bytes.Buffer session.recover hands to decode since the repair
   061d458: its state is the list of bytes left.  binary.ReadUvarint (Go 1.23) is modelled byte for byte
   ([read_uvarint]): io.EOF only when no byte was read, io.ErrUnexpectedEOF inside a varint, overflow at the
   10th byte.  Results are explicit: a decoded record, an ErrCorrupted with field and reason, a bare io.EOF
   (possible in the pre-repair decoder only), a Go panic, out of fuel (excluded by theorem).  The io.Writer of
   encode is a bytes.Buffer (never fails); putVarint's panic on a negative number is the result [None].

   The decoder below is the REPAIRED one (repo commit "fix: sessionRecord.decode must validate lengths and
   levels read from the manifest"): readBytes compares the length with what is left before allocating, readLevel
   rejects a level that does not fit a non-negative int.  The pinned decoder is kept as [decode_old] for the
   refutation witnesses only. *)
From GL Require Export Base.Bytes Base.Varint.
From Coq Require Export ZArith.
Open Scope N_scope.

(* ---- Go int / int64 (64 bit) against uint64 ---- *)
Definition sr_two63 : N := 9223372036854775808.
Definition sr_two64 : N := 18446744073709551616.
Definition i64_of_u64 (x : N) : Z :=
  if x <? sr_two63 then Z.of_N x else (Z.of_N x - Z.of_N sr_two64)%Z.
Definition u64_of_i64 (z : Z) : N := Z.to_N (z mod Z.of_N sr_two64).

(* ---- the tag numbers ("These numbers are written to disk and should not be changed.") ---- *)
Record rparams := mkrp {
  tComparer : N; tJournalNum : N; tNextFileNum : N; tSeqNum : N;
  tCompPtr : N; tDelTable : N; tAddTable : N; tPrevJournalNum : N }.

(* ---- cpRecord, atRecord, dtRecord, sessionRecord ---- *)
Record cprec := mkcp { cp_level : Z; cp_ikey : bytes }.
Record atrec := mkat { at_level : Z; at_num : Z; at_size : Z; at_imin : bytes; at_imax : bytes }.
Record dtrec := mkdt { dt_level : Z; dt_num : Z }.

Record srec := mksr {
  sr_has : N;               (* hasRec *)
  sr_comparer : bytes;
  sr_journal : Z;
  sr_prevjournal : Z;
  sr_nextfile : Z;
  sr_seq : N;
  sr_cps : list cprec;
  sr_adds : list atrec;
  sr_dels : list dtrec }.

Definition sr_empty : srec := mksr 0 [] 0%Z 0%Z 0%Z 0 [] [] [].

(* ---- errors.  ErrCorrupted{ErrManifestCorrupted{Field, Reason}} or the bare io.EOF ---- *)
Inductive rfield :=
| FHeader | FComparer | FJournalNum | FPrevJournalNum | FNextFileNum | FSeqNum
| FCpLevel | FCpIkey | FAddLevel | FAddNum | FAddSize | FAddImin | FAddImax | FDelLevel | FDelNum.
Inductive rreason :=
| RShort        (* "short read" *)
| ROverflow     (* "binary: varint overflows a 64-bit integer" *)
| RNegative     (* "invalid negative value" *)
| RLevel.       (* "invalid level" (since the repair) *)
Inductive rerr := ECorrupt (f : rfield) (why : rreason) | EEOF.

Definition is_corrupted (e : rerr) : bool := match e with ECorrupt _ _ => true | EEOF => false end.

(* ---- binary.ReadUvarint(r):  for i := 0; i < 10; i++ { b, err := r.ReadByte(); ... } return x, overflow ---- *)
Inductive rv_res := RvOk (v : N) (rest : bytes) | RvEOF | RvUnexpEOF | RvOver.

Fixpoint read_uvarint_f (fuel : nat) (i x s : N) (buf : bytes) : rv_res :=
  match fuel with
  | O => RvOver
  | S f =>
      match buf with
      | [] => if i =? 0 then RvEOF else RvUnexpEOF
      | b :: rest =>
          if b <? 128 then
            (if (i =? 9) && (1 <? b) then RvOver else RvOk (N.lor x (N.shiftl b s)) rest)
          else read_uvarint_f f (i + 1) (N.lor x (N.shiftl (N.land b 127) s)) (s + 7) rest
      end
  end.
Definition read_uvarint (buf : bytes) : rv_res := read_uvarint_f 10 0 0 0 buf.

(* ---- the readers: a value and the bytes left, the error p.err is set to, or a panic.  Every reader of
   session_record.go starts with "if p.err != nil { return }": sequencing readers is [rbind]. ---- *)
Inductive rd (A : Type) := ROk (a : A) (rest : bytes) | RErr (e : rerr) | RPanic.
Arguments ROk {A} a rest. Arguments RErr {A} e. Arguments RPanic {A}.

Definition rbind {A B} (m : rd A) (k : A -> bytes -> rd B) : rd B :=
  match m with ROk a rest => k a rest | RErr e => RErr e | RPanic => RPanic end.
Notation "'rdo' x , rest <- m ; k" := (rbind m (fun x rest => k))
  (at level 200, x name, rest name, m at level 100, k at level 200).

Definition read_uv_may_eof (f : rfield) (may_eof : bool) (buf : bytes) : rd N :=
  match read_uvarint buf with
  | RvOk v rest => ROk v rest
  | RvEOF => if may_eof then RErr EEOF else RErr (ECorrupt f RShort)
  | RvUnexpEOF => RErr (ECorrupt f RShort)
  | RvOver => RErr (ECorrupt f ROverflow)
  end.

Definition read_uv (f : rfield) (buf : bytes) : rd N := read_uv_may_eof f false buf.

(* readVarint: x := int64(readUvarint); if x < 0 { corrupted "invalid negative value" } *)
Definition read_varint (f : rfield) (buf : bytes) : rd Z :=
  rdo x, rest <- read_uv f buf;
  let z := i64_of_u64 x in
  if (z <? 0)%Z then RErr (ECorrupt f RNegative) else ROk z rest.

(* readBytes: n := readUvarint; if n > uint64(r.Len()) { corrupted "short read" }; x := make([]byte, n);
   io.ReadFull(r, x) — which cannot fall short any more *)
Definition read_bytes (f : rfield) (buf : bytes) : rd bytes :=
  rdo n, rest <- read_uv f buf;
  if lenN rest <? n then RErr (ECorrupt f RShort) else ROk (takeN n rest) (dropN n rest).

(* readLevel: level := int(x); if level < 0 || uint64(level) != x { corrupted "invalid level" }
   (with a 64-bit int the second test never fires) *)
Definition read_level (f : rfield) (buf : bytes) : rd Z :=
  rdo x, rest <- read_uv f buf;
  let l := i64_of_u64 x in
  if (l <? 0)%Z || negb (u64_of_i64 l =? x) then RErr (ECorrupt f RLevel) else ROk l rest.

(* ---- the pinned readers (before the repair), for the refutation only.
   readBytes: x := make([]byte, n) — runtime.makeslice panics above maxAlloc (2^48 on linux/amd64), below it the
   allocation is attempted whatever the record holds; then io.ReadFull: io.EOF when n > 0 and nothing is left
   (NOT converted), io.ErrUnexpectedEOF -> "short read" when something but too little is left.
   readLevel: return int(x). ---- *)
Definition read_bytes_old (max_alloc : N) (f : rfield) (buf : bytes) : rd bytes :=
  rdo n, rest <- read_uv f buf;
  if max_alloc <? n then RPanic
  else if n =? 0 then ROk [] rest
  else match rest with
       | [] => RErr EEOF
       | _ => if lenN rest <? n then RErr (ECorrupt f RShort) else ROk (takeN n rest) (dropN n rest)
       end.
Definition read_level_old (f : rfield) (buf : bytes) : rd Z :=
  rdo x, rest <- read_uv f buf; ROk (i64_of_u64 x) rest.

Section Record.
  Variable p : rparams.

  (* ---- has and the setters ---- *)
  Definition has (r : srec) (t : N) : bool := N.testbit (sr_has r) t.

  Definition set_comparer (r : srec) (name : bytes) : srec :=
    mksr (N.setbit (sr_has r) (tComparer p)) name (sr_journal r) (sr_prevjournal r) (sr_nextfile r) (sr_seq r)
         (sr_cps r) (sr_adds r) (sr_dels r).
  Definition set_journal (r : srec) (n : Z) : srec :=
    mksr (N.setbit (sr_has r) (tJournalNum p)) (sr_comparer r) n (sr_prevjournal r) (sr_nextfile r) (sr_seq r)
         (sr_cps r) (sr_adds r) (sr_dels r).
  Definition set_prevjournal (r : srec) (n : Z) : srec :=
    mksr (N.setbit (sr_has r) (tPrevJournalNum p)) (sr_comparer r) (sr_journal r) n (sr_nextfile r) (sr_seq r)
         (sr_cps r) (sr_adds r) (sr_dels r).
  Definition set_nextfile (r : srec) (n : Z) : srec :=
    mksr (N.setbit (sr_has r) (tNextFileNum p)) (sr_comparer r) (sr_journal r) (sr_prevjournal r) n (sr_seq r)
         (sr_cps r) (sr_adds r) (sr_dels r).
  Definition set_seq (r : srec) (n : N) : srec :=
    mksr (N.setbit (sr_has r) (tSeqNum p)) (sr_comparer r) (sr_journal r) (sr_prevjournal r) (sr_nextfile r) n
         (sr_cps r) (sr_adds r) (sr_dels r).
  Definition add_comp_ptr (r : srec) (c : cprec) : srec :=
    mksr (N.setbit (sr_has r) (tCompPtr p)) (sr_comparer r) (sr_journal r) (sr_prevjournal r) (sr_nextfile r)
         (sr_seq r) (sr_cps r ++ [c]) (sr_adds r) (sr_dels r).
  Definition add_table (r : srec) (t : atrec) : srec :=
    mksr (N.setbit (sr_has r) (tAddTable p)) (sr_comparer r) (sr_journal r) (sr_prevjournal r) (sr_nextfile r)
         (sr_seq r) (sr_cps r) (sr_adds r ++ [t]) (sr_dels r).
  Definition del_table (r : srec) (d : dtrec) : srec :=
    mksr (N.setbit (sr_has r) (tDelTable p)) (sr_comparer r) (sr_journal r) (sr_prevjournal r) (sr_nextfile r)
         (sr_seq r) (sr_cps r) (sr_adds r) (sr_dels r ++ [d]).

  (* p.hasRec &= ^(1 << rec); list = list[:0] *)
  Definition reset_comp_ptrs (r : srec) : srec :=
    mksr (N.clearbit (sr_has r) (tCompPtr p)) (sr_comparer r) (sr_journal r) (sr_prevjournal r) (sr_nextfile r)
         (sr_seq r) [] (sr_adds r) (sr_dels r).
  Definition reset_added (r : srec) : srec :=
    mksr (N.clearbit (sr_has r) (tAddTable p)) (sr_comparer r) (sr_journal r) (sr_prevjournal r) (sr_nextfile r)
         (sr_seq r) (sr_cps r) [] (sr_dels r).
  Definition reset_deleted (r : srec) : srec :=
    mksr (N.clearbit (sr_has r) (tDelTable p)) (sr_comparer r) (sr_journal r) (sr_prevjournal r) (sr_nextfile r)
         (sr_seq r) (sr_cps r) (sr_adds r) [].
  Definition reset_lists (r : srec) : srec := reset_deleted (reset_added (reset_comp_ptrs r)).

  (* ------------------------------------------------------------------ encoder *)
  (* putVarint: panics on a negative number *)
  Definition put_varint (x : Z) : option bytes :=
    if (x <? 0)%Z then None else Some (put_uvarint (Z.to_N x)).
  (* putBytes: the length, then the bytes *)
  Definition put_bytes (x : bytes) : bytes := put_uvarint (lenN x) ++ x.
  (* putUvarint(w, uint64(r.level)) *)
  Definition put_level (l : Z) : bytes := put_uvarint (u64_of_i64 l).

  Definition obind {A B} (m : option A) (k : A -> option B) : option B :=
    match m with Some a => k a | None => None end.

  Definition enc_cp (c : cprec) : bytes :=
    put_uvarint (tCompPtr p) ++ put_level (cp_level c) ++ put_bytes (cp_ikey c).
  Definition enc_dt (d : dtrec) : option bytes :=
    obind (put_varint (dt_num d)) (fun n => Some (put_uvarint (tDelTable p) ++ put_level (dt_level d) ++ n)).
  Definition enc_at (t : atrec) : option bytes :=
    obind (put_varint (at_num t)) (fun n =>
    obind (put_varint (at_size t)) (fun s =>
      Some (put_uvarint (tAddTable p) ++ put_level (at_level t) ++ n ++ s ++
            put_bytes (at_imin t) ++ put_bytes (at_imax t)))).

  Fixpoint oconcat (l : list (option bytes)) : option bytes :=
    match l with
    | [] => Some []
    | x :: r => obind x (fun a => obind (oconcat r) (fun b => Some (a ++ b)))
    end.

  (* encode: comparer, journal-num, next-file-num, seq-num when their bit is set; then every compaction pointer,
     every deleted table, every added table (the lists are written whatever their bits say).  The previous
     journal number is never written. *)
  Definition encode (r : srec) : option bytes :=
    oconcat (
      (if has r (tComparer p) then Some (put_uvarint (tComparer p) ++ put_bytes (sr_comparer r)) else Some []) ::
      (if has r (tJournalNum p)
       then obind (put_varint (sr_journal r)) (fun n => Some (put_uvarint (tJournalNum p) ++ n)) else Some []) ::
      (if has r (tNextFileNum p)
       then obind (put_varint (sr_nextfile r)) (fun n => Some (put_uvarint (tNextFileNum p) ++ n)) else Some []) ::
      (if has r (tSeqNum p) then Some (put_uvarint (tSeqNum p) ++ put_uvarint (sr_seq r)) else Some []) ::
      map (fun c => Some (enc_cp c)) (sr_cps r) ++ map enc_dt (sr_dels r) ++ map enc_at (sr_adds r)).

  (* ------------------------------------------------------------------ decoder *)
  (* the body of decode's switch for one tag; generic in readBytes / readLevel so that the pinned decoder shares
     it.  The cases are tested in the order of the Go switch; there is no default case: an unknown tag is
     skipped and the next byte is read as a tag again. *)
  Definition decode_field_with (rb : rfield -> bytes -> rd bytes) (rl : rfield -> bytes -> rd Z)
      (tag : N) (r : srec) (buf : bytes) : rd srec :=
    if tag =? tComparer p then
      rdo x, rest <- rb FComparer buf; ROk (set_comparer r x) rest
    else if tag =? tJournalNum p then
      rdo x, rest <- read_varint FJournalNum buf; ROk (set_journal r x) rest
    else if tag =? tPrevJournalNum p then
      rdo x, rest <- read_varint FPrevJournalNum buf; ROk (set_prevjournal r x) rest
    else if tag =? tNextFileNum p then
      rdo x, rest <- read_varint FNextFileNum buf; ROk (set_nextfile r x) rest
    else if tag =? tSeqNum p then
      rdo x, rest <- read_uv FSeqNum buf; ROk (set_seq r x) rest
    else if tag =? tCompPtr p then
      rdo level, rest <- rl FCpLevel buf;
      rdo ikey, rest <- rb FCpIkey rest;
      ROk (add_comp_ptr r (mkcp level ikey)) rest
    else if tag =? tAddTable p then
      rdo level, rest <- rl FAddLevel buf;
      rdo num, rest <- read_varint FAddNum rest;
      rdo size, rest <- read_varint FAddSize rest;
      rdo imin, rest <- rb FAddImin rest;
      rdo imax, rest <- rb FAddImax rest;
      ROk (add_table r (mkat level num size imin imax)) rest
    else if tag =? tDelTable p then
      rdo level, rest <- rl FDelLevel buf;
      rdo num, rest <- read_varint FDelNum rest;
      ROk (del_table r (mkdt level num)) rest
    else ROk r buf.

  Inductive dres := DOk (r : srec) | DErr (e : rerr) (r : srec) | DPanic | DFuel.

  (* for p.err == nil { rec := readUvarintMayEOF("field-header", br, true); if p.err != nil { if p.err == io.EOF
     { return nil }; return p.err }; switch rec {...} }; return p.err.  The record state that comes with an error is
     the one reached by the fields decoded completely before it (a field is stored only when p.err == nil). *)
  Fixpoint decode_loop_with (rb : rfield -> bytes -> rd bytes) (rl : rfield -> bytes -> rd Z)
      (fuel : nat) (r : srec) (buf : bytes) : dres :=
    match fuel with
    | O => DFuel
    | S f =>
        match read_uv_may_eof FHeader true buf with
        | RErr EEOF => DOk r
        | RErr e => DErr e r
        | RPanic => DPanic
        | ROk tag rest =>
            match decode_field_with rb rl tag r rest with
            | ROk r' rest' => decode_loop_with rb rl f r' rest'
            | RErr e => DErr e r
            | RPanic => DPanic
            end
        end
    end.

  Definition decode_field := decode_field_with read_bytes read_level.
  Definition decode_loop := decode_loop_with read_bytes read_level.
  (* decode on a record that may already hold fields (session.recover reuses one record); every round of the
     loop consumes a byte, so len+1 rounds always suffice (SessionRecordProofs.decode_total) *)
  Definition decode (r : srec) (buf : bytes) : dres := decode_loop (S (length buf)) r buf.

  Definition decode_old (max_alloc : N) (r : srec) (buf : bytes) : dres :=
    decode_loop_with (read_bytes_old max_alloc) read_level_old (S (length buf)) r buf.

  (* ------------------------------------------------------------------ versionStaging *)
  (* tablesScratch: added map[int64]atRecord, deleted map[int64]struct{} — association lists: the newest entry
     of a number first, a number at most once *)
  Record scratch := mksc { sc_added : list (Z * atrec); sc_deleted : list Z }.
  Definition sc_empty : scratch := mksc [] [].

  Inductive pres (A : Type) := POk (a : A) | PPanic.
  Arguments POk {A} a. Arguments PPanic {A}.
  Definition pbind {A B} (m : pres A) (k : A -> pres B) : pres B :=
    match m with POk a => k a | PPanic => PPanic end.

  Definition map_del {A} (k : Z) (m : list (Z * A)) : list (Z * A) :=
    filter (fun kv => negb (fst kv =? k)%Z) m.
  Definition map_put {A} (k : Z) (v : A) (m : list (Z * A)) : list (Z * A) := (k, v) :: map_del k m.
  Definition set_del (k : Z) (s : list Z) : list Z := filter (fun x => negb (x =? k)%Z) s.
  Definition set_put (k : Z) (s : list Z) : list Z := k :: set_del k s.

  Fixpoint upd_nth {A} (n : nat) (f : A -> A) (l : list A) : list A :=
    match l, n with
    | [], _ => []
    | x :: r, O => f x :: r
    | x :: r, S n' => x :: upd_nth n' f r
    end.

  (* getScratch(level): if level >= len(p.levels) { grow to level+1 }; &p.levels[level] — a negative level is an
     index out of range; level+1 scratch slots exist afterwards *)
  Definition grow_levels (levels : list scratch) (level : Z) : pres (list scratch) :=
    if (level <? 0)%Z then PPanic
    else POk (levels ++ repeat sc_empty (S (Z.to_nat level) - length levels)).

  Definition base_has_tables (base : list (list atrec)) (level : Z) : bool :=
    match nth_error base (Z.to_nat level) with
    | Some (_ :: _) => true
    | _ => false
    end.

  (* commit, "Deleted tables." *)
  Definition commit_del (base : list (list atrec)) (levels : list scratch) (d : dtrec) : pres (list scratch) :=
    pbind (grow_levels levels (dt_level d)) (fun lv =>
      POk (upd_nth (Z.to_nat (dt_level d))
             (fun sc => mksc (map_del (dt_num d) (sc_added sc))
                             (if base_has_tables base (dt_level d) then set_put (dt_num d) (sc_deleted sc)
                              else sc_deleted sc)) lv)).
  (* commit, "New tables." *)
  Definition commit_add (levels : list scratch) (t : atrec) : pres (list scratch) :=
    pbind (grow_levels levels (at_level t)) (fun lv =>
      POk (upd_nth (Z.to_nat (at_level t))
             (fun sc => mksc (map_put (at_num t) t (sc_added sc)) (set_del (at_num t) (sc_deleted sc))) lv)).

  Fixpoint pfold {A S} (f : S -> A -> pres S) (l : list A) (s : S) : pres S :=
    match l with
    | [] => POk s
    | a :: rest => pbind (f s a) (pfold f rest)
    end.

  (* versionStaging.commit(r): first every deleted table, then every added table *)
  Definition commit (base : list (list atrec)) (levels : list scratch) (r : srec) : pres (list scratch) :=
    pbind (pfold (commit_del base) (sr_dels r) levels) (fun lv => pfold commit_add (sr_adds r) lv).

  (* finish(false), one level: the base tables that are neither deleted nor re-added, then the added ones.  Go
     then sorts (level 0 by number, deeper levels by smallest key: Lsm/Pick.v finish_level); the order inside a
     level is not modelled here — the list below is in base order followed by map order, which Go does not
     define — so the result is to be read as the SET of tables of the level. *)
  Definition memZ (k : Z) (s : list Z) : bool := existsb (fun x => (x =? k)%Z) s.
  Definition finish_level (base : list atrec) (sc : scratch) : list atrec :=
    match sc_added sc, sc_deleted sc with
    | [], [] => base
    | _, _ => filter (fun t => negb (memZ (at_num t) (sc_deleted sc)) &&
                               negb (memZ (at_num t) (map fst (sc_added sc)))) base
              ++ map snd (sc_added sc)
    end.

  (* "Trim levels." (a level left without tables counts as nil) *)
  Fixpoint trim_levels (l : list (list atrec)) : list (list atrec) :=
    match l with
    | [] => []
    | x :: r => match trim_levels r, x with
                | [], [] => []
                | r', _ => x :: r'
                end
    end.

  Definition finish (base : list (list atrec)) (levels : list scratch) : list (list atrec) :=
    trim_levels (map (fun i => finish_level (nth i base []) (nth i levels sc_empty))
                     (seq 0 (Nat.max (length base) (length levels)))).

  (* ------------------------------------------------------------------ session.recover *)
  (* session.setCompPtr(level, ik): grow to level+1, store a copy *)
  Definition set_comp_ptr (cps : list (option bytes)) (c : cprec) : pres (list (option bytes)) :=
    if (cp_level c <? 0)%Z then PPanic
    else POk (upd_nth (Z.to_nat (cp_level c)) (fun _ => Some (cp_ikey c))
                (cps ++ repeat None (S (Z.to_nat (cp_level c)) - length cps))).

  (* why recover fails *)
  Inductive rfail :=
  | RFDecode (e : rerr)        (* a record's decode error, returned as it is (strict, or not an ErrCorrupted) *)
  | RFNoComparer               (* manifest corrupted (field 'comparer'): missing *)
  | RFComparerMismatch         (* ... mismatch: want '%s', got '%s' *)
  | RFNoNextFile               (* (field 'next-file-num'): missing *)
  | RFNoJournal                (* (field 'journal-file-num'): missing *)
  | RFNoSeq                    (* (field 'seq-num'): missing *)
  | RFPanic | RFFuel.

  (* what recover installs: stJournalNum, stPrevJournalNum, stNextFileNum, stSeqNum, stCompPtrs, the version *)
  Record sstate := mkss {
    ss_journal : Z; ss_prevjournal : Z; ss_nextfile : Z; ss_seq : N;
    ss_cptrs : list (option bytes); ss_levels : list (list atrec) }.

  Inductive rres := RecOk (s : sstate) | RecFail (f : rfail).

  (* the loop over the records the journal reader yields whole (a torn record never gets here since 061d458).
     rec is the ONE record recover reuses: scalar fields and their bits persist from record to record, the three
     lists are reset after every record — also after one that failed to decode and is skipped, whose leading
     scalar fields therefore stay in effect. *)
  Fixpoint recover_loop (strict : bool) (recs : list bytes) (rec : srec) (cps : list (option bytes))
      (stg : list scratch) : rfail + (srec * list (option bytes) * list scratch) :=
    match recs with
    | [] => inr (rec, cps, stg)
    | b :: more =>
        match decode rec b with
        | DOk rec' =>
            match pfold set_comp_ptr (sr_cps rec') cps with
            | PPanic => inl RFPanic
            | POk cps' =>
                match commit [] stg rec' with
                | PPanic => inl RFPanic
                | POk stg' => recover_loop strict more (reset_lists rec') cps' stg'
                end
            end
        | DErr e rec' =>
            if strict || negb (is_corrupted e) then inl (RFDecode e)
            else recover_loop strict more (reset_lists rec') cps stg
        | DPanic => inl RFPanic
        | DFuel => inl RFFuel
        end
    end.

  (* cmp_name: s.icmp.uName(); the session starts with journal, previous journal and sequence numbers 0 *)
  Definition session_recover (strict : bool) (cmp_name : bytes) (recs : list bytes) : rres :=
    match recover_loop strict recs sr_empty [] [] with
    | inl f => RecFail f
    | inr (rec, cps, stg) =>
        if negb (has rec (tComparer p)) then RecFail RFNoComparer
        else if negb (beq (sr_comparer rec) cmp_name) then RecFail RFComparerMismatch
        else if negb (has rec (tNextFileNum p)) then RecFail RFNoNextFile
        else if negb (has rec (tJournalNum p)) then RecFail RFNoJournal
        else if negb (has rec (tSeqNum p)) then RecFail RFNoSeq
        else RecOk (mkss (sr_journal rec)
                         (if has rec (tPrevJournalNum p) then sr_prevjournal rec else 0%Z)
                         (sr_nextfile rec) (sr_seq rec) cps (finish [] stg))
    end.
End Record.

Arguments POk {A} a. Arguments PPanic {A}.
