(* Codec/IKeyProbeProofs.v — complete characterisation of where the lookup probe sorts.
   IKeyProofs.v states probe placement per user key (after newer / not after older / other key);
   here the three are combined into one iff over arbitrary entries, and lifted to a sorted run of
   entries: the entries strictly before the probe are exactly those of smaller user keys and
   the entries of k newer than s, so the first entry at or after the probe that carries user key
   k is the newest entry of k that is not newer than s (DB.Get's positioning rule). *)
From GL Require Import Base.Order Base.BytesProofs Base.OrderProofs Codec.IKey Codec.IKeyProofs.
From Coq Require Import List ZArith Lia ZifyN ZifyNat ZifyBool.
Import ListNotations.
Local Open Scope N_scope.

Section Probe.
  Variable c : comparer.
  Hypothesis ok : comparer_ok c.
  Variable p : kparams.
  Hypothesis pok : kparams_ok p.

  (* which entries sort strictly before the probe (k, s, Seek) *)
  Lemma probe_precedes_iff e s' t k s : num e = pack s' t -> t <= keyTypeSeek p ->
    icmp c e (probe p k s) = Lt <-> (cmp c (uk e) k = Lt \/ (uk e = k /\ s < s')).
  Proof.
    intros Hn Ht. destruct e as [u n]; cbn in Hn; subst n. cbn [uk].
    split.
    - intros H. destruct (cmp c u k) eqn:E.
      + right. apply (cmp_eq c ok) in E. subst u. split; [reflexivity|].
        apply (probe_after_newer c ok p pok k s s' t Ht). exact H.
      + left; reflexivity.
      + exfalso. unfold icmp, probe in H; cbn in H. rewrite E in H. discriminate.
    - intros [H | [-> H]].
      + apply icmp_ukey_lt. exact H.
      + apply (probe_after_newer c ok p pok k s s' t Ht). exact H.
  Qed.

  (* the complement: entries at or after the probe *)
  Lemma probe_not_after_iff e s' t k s : num e = pack s' t -> t <= keyTypeSeek p ->
    icmp c e (probe p k s) <> Lt <-> (cmp c k (uk e) = Lt \/ (uk e = k /\ s' <= s)).
  Proof.
    intros Hn Ht. rewrite (probe_precedes_iff e s' t k s Hn Ht). split.
    - intros H. destruct (cmp c (uk e) k) eqn:E.
      + apply (cmp_eq c ok) in E. right. split; [exact E|].
        destruct (N.le_gt_cases s' s) as [L|G]; [exact L|]. exfalso. apply H. right. split; assumption.
      + exfalso. apply H. left; reflexivity.
      + left. rewrite (cmp_opp c ok), E. reflexivity.
    - intros [H | [E L]] [H' | [E' G]].
      + rewrite (cmp_opp c ok), H in H'. discriminate.
      + rewrite E', (cmp_refl c ok) in H. discriminate.
      + rewrite E, (cmp_refl c ok) in H'. discriminate.
      + lia.
  Qed.

  (* entries of a run, each with a well-formed trailer *)
  Definition trailer_ok (e : ikey) : Prop := exists s' t, num e = pack s' t /\ t <= keyTypeSeek p.

  Definition seq_of (e : ikey) : N := num e / 256.

  Lemma seq_of_pack s' t : t <= keyTypeSeek p -> seq_of {| uk := []; num := pack s' t |} = s'.
  Proof.
    intros Ht. unfold seq_of, pack; cbn. destruct pok as (_ & _ & _ & H256 & _).
    assert (t < 256) by lia. rewrite N.div_add_l by lia. rewrite N.div_small by lia. lia.
  Qed.

  Lemma seq_of_num e s' t : num e = pack s' t -> t <= keyTypeSeek p -> seq_of e = s'.
  Proof.
    intros Hn Ht. unfold seq_of. rewrite Hn. exact (seq_of_pack s' t Ht).
  Qed.

  (* Lifted to a run of entries sorted by the internal order (strictly ascending, as tables,
     the memdb and merged iterators present them): split the run at the probe.  Everything
     before the split is a smaller user key or an entry of k newer than s; the first entry
     after the split, if it carries k, is the newest entry of k with seq <= s: no other
     entry of k with seq <= s in the run has a larger sequence number. *)
  Fixpoint sorted (l : list ikey) : Prop :=
    match l with
    | [] => True
    | a :: r => (match r with [] => True | b :: _ => icmp c a b = Lt end) /\ sorted r
    end.

  Lemma sorted_head_lt a r : sorted (a :: r) -> forall x, In x r -> icmp c a x = Lt.
  Proof.
    revert a. induction r as [|b r IH]; intros a H x Hx; [destruct Hx|].
    destruct H as [Hab Hr]. destruct Hx as [<-|Hx]; [exact Hab|].
    apply (icmp_trans c ok a b x Hab). apply IH; assumption.
  Qed.

  Lemma sorted_app_r l1 l2 : sorted (l1 ++ l2) -> sorted l2.
  Proof.
    induction l1 as [|a l1 IH]; cbn [app]; intros H; [exact H|].
    apply IH. destruct H as [_ H]. exact H.
  Qed.

  Lemma sorted_app_lt l1 l2 : sorted (l1 ++ l2) -> forall x y, In x l1 -> In y l2 -> icmp c x y = Lt.
  Proof.
    induction l1 as [|a l1 IH]; cbn [app]; intros H x y Hx Hy; [destruct Hx|].
    destruct Hx as [<-|Hx].
    - apply (sorted_head_lt a (l1 ++ l2) H). apply in_or_app. right; exact Hy.
    - apply IH; try assumption. destruct H as [_ H]. exact H.
  Qed.

  Theorem probe_lands_on_newest_visible l1 e l2 k s :
    sorted (l1 ++ e :: l2) ->
    (forall x, In x (l1 ++ e :: l2) -> trailer_ok x) ->
    (forall x, In x l1 -> icmp c x (probe p k s) = Lt) ->
    icmp c e (probe p k s) <> Lt ->
    (* 1. nothing before the split is an entry of k visible at s *)
    (forall x, In x l1 -> ~ (uk x = k /\ seq_of x <= s)) /\
    (* 2. if e carries k then it is visible at s and no visible entry of k is newer *)
    (uk e = k -> seq_of e <= s /\
       forall x, In x (l1 ++ e :: l2) -> uk x = k -> seq_of x <= s -> seq_of x <= seq_of e) /\
    (* 3. if e does not carry k then k has no entry visible at s anywhere in the run *)
    (uk e <> k -> forall x, In x (l1 ++ e :: l2) -> ~ (uk x = k /\ seq_of x <= s)).
  Proof.
    intros Hs Ht Hbefore He.
    assert (Hte : trailer_ok e) by (apply Ht, in_or_app; right; left; reflexivity).
    destruct Hte as (se & te & Hne & Hte).
    pose proof (seq_of_num e se te Hne Hte) as Hse.
    apply (probe_not_after_iff e se te k s Hne Hte) in He.
    assert (Hl1 : forall x, In x l1 -> ~ (uk x = k /\ seq_of x <= s)).
    { intros x Hx [Hu Hv].
      destruct (Ht x (in_or_app _ _ _ (or_introl Hx))) as (sx & tx & Hnx & Htx).
      pose proof (Hbefore x Hx) as Hlt.
      apply (probe_precedes_iff x sx tx k s Hnx Htx) in Hlt.
      rewrite (seq_of_num x sx tx Hnx Htx) in Hv.
      destruct Hlt as [Hlt | [_ Hlt]]; [|lia].
      rewrite Hu, (cmp_refl c ok) in Hlt. discriminate. }
    (* entries after e are greater than e *)
    assert (Hl2 : forall x, In x l2 -> icmp c e x = Lt).
    { intros x Hx. apply sorted_app_r in Hs. exact (sorted_head_lt e l2 Hs x Hx). }
    split; [exact Hl1|]. split.
    - intros Hu. destruct He as [He | [_ He]].
      { rewrite Hu, (cmp_refl c ok) in He. discriminate. }
      split; [lia|].
      intros x Hx Hux Hvx. apply in_app_or in Hx. destruct Hx as [Hx | [Hx | Hx]].
      + exfalso. apply (Hl1 x Hx). split; assumption.
      + subst x. lia.
      + pose proof (Hl2 x Hx) as Hlt.
        destruct (Ht x (in_or_app l1 (e :: l2) x (or_intror (in_cons e x l2 Hx)))) as (sx & tx & Hnx & Htx).
        rewrite (seq_of_num x sx tx Hnx Htx), Hse.
        destruct e as [ue ne], x as [ux nx]; cbn in *. subst ue ux ne nx.
        apply (icmp_same_ukey c ok) in Hlt. unfold pack in Hlt.
        destruct pok as (_ & _ & _ & H256 & _). nia.
    - intros Hu x Hx [Hux Hvx]. destruct He as [He | [He _]]; [|contradiction].
      apply in_app_or in Hx. destruct Hx as [Hx | [Hx | Hx]].
      + apply (Hl1 x Hx). split; assumption.
      + subst x. contradiction.
      + pose proof (Hl2 x Hx) as Hlt. unfold icmp in Hlt. rewrite Hux in Hlt.
        rewrite (cmp_opp c ok), He in Hlt. cbn in Hlt. discriminate.
  Qed.
End Probe.
