(* Codec/BloomProofs.v — proofs about Codec/Bloom.v: a key whose hash was added to the generator
   is reported present by Contains, for every bits-per-key and every key list. *)
From GL Require Import Base.Bytes Base.BytesProofs Base.NIdx Base.NIdxProofs Codec.Bloom.
From Coq Require Import Lia ZArith Arith PeanoNat.

Local Arguments N.mul : simpl never.
Local Arguments N.add : simpl never.
Local Arguments N.sub : simpl never.
Local Arguments N.div : simpl never.
Local Arguments N.modulo : simpl never.
Local Arguments N.pow : simpl never.
Local Arguments N.shiftl : simpl never.
Local Arguments N.shiftr : simpl never.
Local Arguments N.lor : simpl never.
Local Arguments N.land : simpl never.
Local Arguments N.testbit : simpl never.

(* ---- one bit of one byte ---- *)

Lemma bit_mask_pow pos : bit_mask pos = 2 ^ (pos mod 8).
Proof. unfold bit_mask. apply N.shiftl_1_l. Qed.

Lemma land_mask_zero b pos : (N.land b (bit_mask pos) =? 0) = negb (N.testbit b (pos mod 8)).
Proof.
  rewrite bit_mask_pow. set (s := pos mod 8).
  destruct (N.testbit b s) eqn:Hb; cbn [negb].
  - apply N.eqb_neq. intros H.
    assert (Ht : N.testbit (N.land b (2 ^ s)) s = true).
    { rewrite N.land_spec, Hb, N.pow2_bits_true. reflexivity. }
    rewrite H in Ht. rewrite N.bits_0 in Ht. discriminate.
  - apply N.eqb_eq. apply N.bits_inj. intros n.
    rewrite N.land_spec, N.bits_0, N.pow2_bits_eqb.
    destruct (N.eqb_spec s n) as [<-|]; [now rewrite Hb|apply andb_false_r].
Qed.

Lemma lor_mask_sets b pos : N.testbit (N.lor b (bit_mask pos)) (pos mod 8) = true.
Proof. rewrite bit_mask_pow, N.lor_spec, N.pow2_bits_true. apply orb_true_r. Qed.

Lemma lor_keeps b m s : N.testbit b s = true -> N.testbit (N.lor b m) s = true.
Proof. intros H. now rewrite N.lor_spec, H. Qed.

(* the bit at position pos of the bit array held in the byte list f *)
Definition bit_at (f : bytes) (pos : N) : bool := N.testbit (get_at f (pos / 8)) (pos mod 8).

Lemma testbit_or_at_keeps l : forall i m j s,
  N.testbit (get_at l j) s = true -> N.testbit (get_at (or_at l i m) j) s = true.
Proof.
  induction l as [|b l IH]; intros i m j s H; cbn [or_at]; [exact H|].
  cbn [get_at] in H.
  destruct (N.eqb_spec i 0) as [->|Hi]; cbn [get_at]; destruct (N.eqb_spec j 0) as [->|Hj]; try exact H.
  - now apply lor_keeps.
  - now apply IH.
Qed.

Lemma bit_at_or_keeps l i m q : bit_at l q = true -> bit_at (or_at l i m) q = true.
Proof. unfold bit_at. apply testbit_or_at_keeps. Qed.

Lemma bit_at_or_sets l pos : pos / 8 < lenN l -> bit_at (or_at l (pos / 8) (bit_mask pos)) pos = true.
Proof. intros H. unfold bit_at. rewrite get_or_at_same by exact H. apply lor_mask_sets. Qed.

(* ---- the probe loops ---- *)

Definition bits_le (f f' : bytes) : Prop := forall q, bit_at f q = true -> bit_at f' q = true.

Lemma bits_le_refl f : bits_le f f.
Proof. intros q H. exact H. Qed.

Lemma bits_le_trans f g h : bits_le f g -> bits_le g h -> bits_le f h.
Proof. intros A B q H. apply B, A, H. Qed.

Lemma gen_probes_length j : forall nb d kh dest, lenN (gen_probes j nb d kh dest) = lenN dest.
Proof.
  induction j as [|j IH]; intros; cbn [gen_probes]; [reflexivity|].
  rewrite IH. apply lenN_or_at.
Qed.

Lemma gen_probes_keeps j : forall nb d kh dest, bits_le dest (gen_probes j nb d kh dest).
Proof.
  induction j as [|j IH]; intros nb d kh dest; cbn [gen_probes]; [apply bits_le_refl|].
  eapply bits_le_trans; [|apply IH]. intros q H. now apply bit_at_or_keeps.
Qed.

Lemma chk_probes_mono j : forall nb d kh f f', bits_le f f' ->
  chk_probes j nb d kh f = true -> chk_probes j nb d kh f' = true.
Proof.
  induction j as [|j IH]; intros nb d kh f f' Hle H; cbn [chk_probes] in *; [reflexivity|].
  rewrite land_mask_zero in *.
  destruct (N.testbit (get_at f (kh mod nb / 8)) (kh mod nb mod 8)) eqn:Hb; cbn [negb] in H; [|discriminate].
  apply (Hle (kh mod nb)) in Hb. unfold bit_at in Hb. rewrite Hb. cbn [negb].
  eapply IH; eauto.
Qed.

(* every probe position lies inside the byte array *)
Definition in_range (nb : N) (dest : bytes) : Prop := nb <> 0 /\ forall pos, pos < nb -> pos / 8 < lenN dest.

Lemma probe_in_range nb dest kh : in_range nb dest -> (kh mod nb) / 8 < lenN dest.
Proof. intros [Hn H]. apply H. now apply N.mod_lt. Qed.

Lemma gen_probes_sets j : forall nb d kh dest, in_range nb dest ->
  chk_probes j nb d kh (gen_probes j nb d kh dest) = true.
Proof.
  induction j as [|j IH]; intros nb d kh dest Hr; cbn [gen_probes chk_probes]; [reflexivity|].
  set (pos := kh mod nb). set (dest1 := or_at dest (pos / 8) (bit_mask pos)).
  assert (Hr1 : in_range nb dest1).
  { destruct Hr as [Hn H]. split; [exact Hn|]. intros q Hq. unfold dest1. rewrite lenN_or_at. now apply H. }
  rewrite land_mask_zero.
  assert (Hb : bit_at (gen_probes j nb d (w32 (kh + d)) dest1) pos = true).
  { apply gen_probes_keeps. unfold dest1. apply bit_at_or_sets. now apply probe_in_range. }
  unfold bit_at in Hb. rewrite Hb. cbn [negb]. now apply IH.
Qed.

Lemma gen_probes_get_other j : forall nb d kh dest i, nb <> 0 -> (forall pos, pos < nb -> pos / 8 <> i) ->
  get_at (gen_probes j nb d kh dest) i = get_at dest i.
Proof.
  induction j as [|j IH]; intros nb d kh dest i Hn H; cbn [gen_probes]; [reflexivity|].
  rewrite IH by assumption. apply get_or_at_other. apply H. now apply N.mod_lt.
Qed.

(* ---- the loop over the key hashes ---- *)

Section Fold.
  Variable p : bparams.
  Variables k nb : N.

  Lemma fold_length hs : forall dest, lenN (fold_left (gen_add p k nb) hs dest) = lenN dest.
  Proof.
    induction hs as [|h t IH]; intros dest; cbn [fold_left]; [reflexivity|].
    rewrite IH. unfold gen_add. apply gen_probes_length.
  Qed.

  Lemma fold_keeps hs : forall dest, bits_le dest (fold_left (gen_add p k nb) hs dest).
  Proof.
    induction hs as [|h t IH]; intros dest; cbn [fold_left]; [apply bits_le_refl|].
    eapply bits_le_trans; [|apply IH]. unfold gen_add. apply gen_probes_keeps.
  Qed.

  Lemma fold_sets hs : forall dest kh, in_range nb dest -> In kh hs ->
    chk_probes (N.to_nat k) nb (rot (b_grotr p) (b_grotl p) kh) kh (fold_left (gen_add p k nb) hs dest) = true.
  Proof.
    induction hs as [|h t IH]; intros dest kh Hr Hin; [destruct Hin|].
    cbn [fold_left]. destruct Hin as [->|Hin].
    - eapply chk_probes_mono; [apply fold_keeps|]. unfold gen_add. now apply gen_probes_sets.
    - apply IH; [|exact Hin]. destruct Hr as [Hn H]. split; [exact Hn|].
      intros q Hq. unfold gen_add. rewrite gen_probes_length. now apply H.
  Qed.

  Lemma fold_get_other hs : forall dest i, nb <> 0 -> (forall pos, pos < nb -> pos / 8 <> i) ->
    get_at (fold_left (gen_add p k nb) hs dest) i = get_at dest i.
  Proof.
    induction hs as [|h t IH]; intros dest i Hn H; cbn [fold_left]; [reflexivity|].
    rewrite IH by assumption. unfold gen_add. now apply gen_probes_get_other.
  Qed.
End Fold.

(* ---- k and the size computation ---- *)

Lemma bloom_k_ge1 p bpk : bparams_ok p -> 1 <= bloom_k p bpk.
Proof.
  intros (_ & _ & Hk1 & _). unfold bloom_k, bloom_k_old.
  set (k := Z.to_N _). destruct (N.ltb_spec k 1); [lia|].
  destruct (N.ltb_spec (b_kcmp p) k); lia.
Qed.

Lemma bloom_k_byte p bpk : bparams_ok p -> bloom_k p bpk < 256.
Proof.
  intros (_ & _ & _ & Hk & _). unfold bloom_k, bloom_k_old.
  set (q := Z.quot _ _).
  assert (Hq : Z.to_N (q mod 256)%Z < 256).
  { pose proof (Z.mod_pos_bound q 256 eq_refl). lia. }
  destruct (N.ltb_spec (Z.to_N (q mod 256)%Z) 1); [lia|].
  destruct (N.ltb_spec (b_kcmp p) (Z.to_N (q mod 256)%Z)); lia.
Qed.

Lemma bloom_k_not_reserved p bpk : bparams_ok p -> bloom_k p bpk <= b_ckmax p.
Proof.
  intros (_ & _ & Hk1 & _ & Hs & Hc & _). unfold bloom_k, bloom_k_old.
  set (k := Z.to_N _). destruct (N.ltb_spec k 1); [lia|].
  destruct (N.ltb_spec (b_kcmp p) k); lia.
Qed.

Lemma bloom_nbytes_bound p bpk n : bloom_nbytes p bpk n * 8 < 2 ^ 32.
Proof.
  unfold bloom_nbytes. set (x := w32 _).
  assert (Hx : x < 2 ^ 32) by apply w32_lt.
  pose proof (N.mul_div_le x 8). change (2 ^ 32) with 4294967296 in *. lia.
Qed.

Lemma contains_nbits_small p n : 2 ^ 32 <= b_probebits p -> n * 8 < 2 ^ 32 -> contains_nbits p n = n * 8.
Proof.
  intros Hp Hn. unfold contains_nbits. destruct (N.ltb_spec n (b_probebits p / 8)); [reflexivity|].
  assert (H8 : 2 ^ 32 / 8 <= b_probebits p / 8) by (apply N.div_le_mono; [discriminate|exact Hp]).
  change (2 ^ 32 / 8) with 536870912 in H8. change (2 ^ 32) with 4294967296 in Hn. lia.
Qed.

Lemma generate_into_nonempty p bpk hashes alloc : hashes <> [] ->
  bloom_generate_into p bpk hashes alloc =
    let k := bloom_k p bpk in
    let nbytes := bloom_nbytes p bpk (lenN hashes) in
    let nbits := w32 (nbytes * 8) in
    if (nbits =? 0) && (0 <? k) then None
    else Some (fold_left (gen_add p k nbits) hashes (set_at alloc nbytes k)).
Proof. intros H. destruct hashes; [contradiction|reflexivity]. Qed.

(* ---- the theorems ---- *)

(* Generate into arbitrary (not necessarily cleared) memory of the right size *)
Theorem bloom_no_false_negative_into p bpk hashes alloc f key :
  bparams_ok p ->
  lenN alloc = bloom_nbytes p bpk (lenN hashes) + 1 ->
  bloom_generate_into p bpk hashes alloc = Some f ->
  In (bloom_hash p key) hashes ->
  bloom_contains p f key = Some true.
Proof.
  intros ok Hlen Hgen Hin.
  pose proof (bloom_k_ge1 p bpk ok) as Hk1.
  pose proof (bloom_k_byte p bpk ok) as Hkb.
  pose proof (bloom_k_not_reserved p bpk ok) as Hkr.
  pose proof (bloom_nbytes_bound p bpk (lenN hashes)) as Hnb.
  assert (Hne : hashes <> []) by (intros ->; destruct Hin).
  rewrite generate_into_nonempty in Hgen by exact Hne. cbv zeta in Hgen.
  set (k := bloom_k p bpk) in *. set (nbytes := bloom_nbytes p bpk (lenN hashes)) in *.
  rewrite (w32_small (nbytes * 8)) in Hgen by exact Hnb.
  set (nbits := nbytes * 8) in *.
  destruct (N.eqb_spec nbits 0) as [Hz|Hz]; cbn [andb] in Hgen.
  - destruct (N.ltb_spec 0 k); [discriminate|lia].
  - injection Hgen as <-.
    set (dest := set_at alloc nbytes k).
    assert (Hld : lenN dest = nbytes + 1) by (unfold dest; now rewrite lenN_set_at).
    assert (Hr : in_range nbits dest).
    { split; [exact Hz|]. intros pos Hpos. rewrite Hld. unfold nbits in Hpos.
      assert (pos / 8 < nbytes) by (apply N.div_lt_upper_bound; lia). lia. }
    unfold bloom_contains. rewrite fold_length, Hld.
    destruct (N.ltb_spec (nbytes + 1) 2) as [Hs|Hs]; [unfold nbits in Hz; lia|].
    replace (nbytes + 1 - 1) with nbytes by lia.
    rewrite (contains_nbits_small p nbytes) by (try exact Hnb; apply ok). fold nbits.
    rewrite fold_get_other.
    2: exact Hz.
    2: { intros pos Hpos. unfold nbits in Hpos.
         assert (pos / 8 < nbytes) by (apply N.div_lt_upper_bound; lia). lia. }
    assert (Hg : get_at dest nbytes = k) by (unfold dest; apply get_set_at_same; lia).
    rewrite Hg.
    destruct (N.ltb_spec (b_ckmax p) k); [reflexivity|].
    destruct (N.eqb_spec nbits 0); [contradiction|]. cbn [andb]. f_equal.
    destruct ok as (Hr1 & Hr2 & _). rewrite <- Hr1, <- Hr2.
    apply fold_sets; assumption.
Qed.

(* Generate as the table writer uses it (fresh zeroed memory) *)
Theorem bloom_no_false_negative_hashes p bpk hashes f key :
  bparams_ok p ->
  bloom_generate p bpk hashes = Some f ->
  In (bloom_hash p key) hashes ->
  bloom_contains p f key = Some true.
Proof.
  intros ok Hgen Hin. eapply bloom_no_false_negative_into; eauto. apply zeros_length.
Qed.

Theorem bloom_no_false_negative p bpk keys f key :
  bparams_ok p ->
  bloom_filter_of p bpk keys = Some f ->
  In key keys ->
  bloom_contains p f key = Some true.
Proof.
  intros ok Hgen Hin. eapply bloom_no_false_negative_hashes; eauto. now apply in_map.
Qed.

(* a filter whose stored k is in the reserved range answers "possibly present" for every key *)
Theorem bloom_reads_any_k p f key :
  2 <= lenN f -> b_ckmax p < get_at f (lenN f - 1) -> bloom_contains p f key = Some true.
Proof.
  intros Hl Hk. unfold bloom_contains.
  destruct (N.ltb_spec (lenN f) 2); [lia|].
  destruct (N.ltb_spec (b_ckmax p) (get_at f (lenN f - 1))); [reflexivity|lia].
Qed.

(* the shape of a generated filter: nBytes bytes of bits followed by k, never the reserved range *)
Theorem bloom_generated_shape p bpk hashes f :
  bparams_ok p ->
  bloom_generate p bpk hashes = Some f ->
  lenN f = bloom_nbytes p bpk (lenN hashes) + 1 /\
  (hashes <> [] -> get_at f (lenN f - 1) = bloom_k p bpk /\ bloom_k p bpk <= b_ckmax p /\ 2 <= lenN f).
Proof.
  intros ok Hgen.
  pose proof (bloom_k_ge1 p bpk ok) as Hk1.
  pose proof (bloom_nbytes_bound p bpk (lenN hashes)) as Hnb.
  unfold bloom_generate in Hgen.
  destruct hashes as [|h0 t] eqn:Eh.
  - unfold bloom_generate_into in Hgen. injection Hgen as <-. rewrite lenN_set_at, zeros_length.
    split; [reflexivity|]. intros H. now destruct H.
  - rewrite <- Eh in *. assert (Hne : hashes <> []) by (rewrite Eh; discriminate). clear Eh h0 t.
    rewrite generate_into_nonempty in Hgen by exact Hne. cbv zeta in Hgen.
    set (k := bloom_k p bpk) in *. set (nbytes := bloom_nbytes p bpk (lenN hashes)) in *.
    rewrite (w32_small (nbytes * 8)) in Hgen by exact Hnb.
    destruct (N.eqb_spec (nbytes * 8) 0) as [Hz|Hz]; cbn [andb] in Hgen.
    + destruct (N.ltb_spec 0 k); [discriminate|lia].
    + injection Hgen as <-. rewrite fold_length, lenN_set_at, zeros_length.
      split; [reflexivity|]. intros _.
      replace (nbytes + 1 - 1) with nbytes by lia.
      rewrite fold_get_other.
      * rewrite get_set_at_same by (rewrite zeros_length; lia).
        split; [reflexivity|]. split; [now apply bloom_k_not_reserved|lia].
      * exact Hz.
      * intros pos Hpos. assert (pos / 8 < nbytes) by (apply N.div_lt_upper_bound; lia). lia.
Qed.

(* a generated filter is never empty *)
Lemma bloom_generated_nonempty p bpk hashes f : bloom_generate p bpk hashes = Some f -> f <> [].
Proof.
  unfold bloom_generate, bloom_generate_into. intros H Hf. subst f.
  set (nbytes := bloom_nbytes p bpk (lenN hashes)) in *.
  assert (Hl : forall l : bytes, lenN l = nbytes + 1 -> Some l = Some [] -> False).
  { intros l Hl E. injection E as ->. rewrite lenN_nil in Hl. lia. }
  destruct hashes.
  - revert H. apply Hl. now rewrite lenN_set_at, zeros_length.
  - destruct (_ && _); [discriminate|]. revert H. apply Hl.
    now rewrite fold_length, lenN_set_at, zeros_length.
Qed.

(* ---- totality (the repaired code) ---- *)

Lemma bloom_bits_le p n f : b_maxbits p = 2 ^ 32 - 8 -> bloom_bits p n f <= 2 ^ 32 - 8.
Proof.
  intros Hm. unfold bloom_bits. rewrite Hm.
  change (2 ^ 32 - 8) with 4294967288.
  destruct ((n =? 0) || (f <=? 0)%Z); [lia|].
  destruct (N.ltb_spec (4294967288 / Z.to_N f) n) as [H|H].
  - rewrite w32_small by (change (2 ^ 32) with 4294967296; lia). lia.
  - assert (Hle : n * Z.to_N f <= 4294967288).
    { destruct (N.eq_dec (Z.to_N f) 0) as [E|E]; [rewrite E; lia|].
      pose proof (N.mul_div_le 4294967288 (Z.to_N f) E). nia. }
    rewrite N.mod_small by (change (2 ^ 64) with 18446744073709551616; lia).
    rewrite w32_small by (change (2 ^ 32) with 4294967296; lia). exact Hle.
Qed.

Lemma bloom_nbytes_pos p bpk n : bparams_tot_ok p -> bloom_nbytes p bpk n <> 0.
Proof.
  intros (Hc & Hs1 & Hs2 & Hm & _). unfold bloom_nbytes.
  pose proof (bloom_bits_le p n (bloom_new bpk) Hm) as H0.
  set (nb0 := bloom_bits p n (bloom_new bpk)) in *.
  set (nb1 := if nb0 <? b_mincmp p then b_minset p else nb0).
  change (2 ^ 32) with 4294967296 in *.
  assert (H1 : 1 <= nb1 /\ nb1 < 4294967296 - 7).
  { unfold nb1. destruct (N.ltb_spec nb0 (b_mincmp p)); lia. }
  rewrite w32_small by (change (2 ^ 32) with 4294967296; lia).
  intros Hd. apply N.div_small_iff in Hd; lia.
Qed.

(* Generate returns for every int bitsPerKey (negative and huge included) and every key list *)
Theorem bloom_generate_total p bpk hashes : bparams_tot_ok p -> exists f, bloom_generate p bpk hashes = Some f.
Proof.
  intros ok. unfold bloom_generate.
  destruct hashes as [|h0 t] eqn:Eh; [eexists; reflexivity|]. rewrite <- Eh in *.
  assert (Hne : hashes <> []) by (rewrite Eh; discriminate). clear Eh h0 t.
  rewrite generate_into_nonempty by exact Hne. cbv zeta.
  pose proof (bloom_nbytes_bound p bpk (lenN hashes)) as Hnb.
  rewrite (w32_small (bloom_nbytes p bpk (lenN hashes) * 8)) by exact Hnb.
  pose proof (bloom_nbytes_pos p bpk (lenN hashes) ok) as Hz.
  destruct (N.eqb_spec (bloom_nbytes p bpk (lenN hashes) * 8) 0); [lia|]. cbn [andb].
  eexists; reflexivity.
Qed.

Lemma contains_nbits_pos p n : b_probebits p = 2 ^ 32 -> 1 <= n -> contains_nbits p n <> 0.
Proof.
  intros Hp Hn. unfold contains_nbits. rewrite Hp.
  destruct (N.ltb_spec n (2 ^ 32 / 8)); [lia|]. discriminate.
Qed.

(* Contains returns on every filter (every byte string, of any length) *)
Theorem bloom_contains_total p f key : bparams_tot_ok p -> exists b, bloom_contains p f key = Some b.
Proof.
  intros (_ & _ & _ & _ & Hp). unfold bloom_contains.
  destruct (N.ltb_spec (lenN f) 2); [eexists; reflexivity|].
  destruct (b_ckmax p <? get_at f (lenN f - 1)); [eexists; reflexivity|].
  pose proof (contains_nbits_pos p (lenN f - 1) Hp) as Hz.
  destruct (N.eqb_spec (contains_nbits p (lenN f - 1)) 0) as [E|E]; [exfalso; apply Hz; [lia|exact E]|].
  cbn [andb]. eexists; reflexivity.
Qed.

(* ---- Contains on (length, byte function) is Contains on the list ---- *)

Lemma chk_probes_fn_eq j : forall nb d kh f, chk_probes_fn j nb d kh (get_at f) = chk_probes j nb d kh f.
Proof. induction j as [|j IH]; intros; cbn [chk_probes_fn chk_probes]; [reflexivity|]. now rewrite IH. Qed.

Lemma bloom_contains_fn_eq p f key : bloom_contains_fn p (lenN f) (get_at f) key = bloom_contains p f key.
Proof.
  unfold bloom_contains_fn, bloom_contains_with, bloom_contains. cbv zeta.
  now rewrite chk_probes_fn_eq.
Qed.

Lemma bloom_contains_fn_old_eq p f key : bloom_contains_fn_old p (lenN f) (get_at f) key = bloom_contains_old p f key.
Proof.
  unfold bloom_contains_fn_old, bloom_contains_with, bloom_contains_old. cbv zeta.
  now rewrite chk_probes_fn_eq.
Qed.

(* ---- the code before the repairs: where it panicked, and that nothing else changed ---- *)

(* the old Contains divides by zero on every filter of 2^29+1 bytes whose last byte is in 1..30 *)
Lemma bloom_contains_old_panics p f key :
  lenN f = 2 ^ 29 + 1 -> 1 <= get_at f (2 ^ 29) -> get_at f (2 ^ 29) <= b_ckmax p ->
  bloom_contains_old p f key = None.
Proof.
  intros Hl H1 H2. unfold bloom_contains_old. cbv zeta. rewrite Hl.
  change (2 ^ 29 + 1 - 1) with (2 ^ 29). change (2 ^ 29 + 1 <? 2) with false. cbv iota.
  change (contains_nbits_old (2 ^ 29)) with 0.
  destruct (N.ltb_spec (b_ckmax p) (get_at f (2 ^ 29))); [lia|].
  destruct (N.ltb_spec 0 (get_at f (2 ^ 29))); [reflexivity|lia].
Qed.

Lemma bloom_contains_old_not_total p : 1 <= b_ckmax p ->
  ~ (forall f key, exists b, bloom_contains_old p f key = Some b).
Proof.
  intros Hk H.
  destruct (H (set_at (zeros (2 ^ 29 + 1)) (2 ^ 29) 1) []) as [b Hb].
  rewrite bloom_contains_old_panics in Hb; [discriminate| | |].
  - now rewrite lenN_set_at, zeros_length.
  - rewrite get_set_at_same; [lia|]. rewrite zeros_length. change (2 ^ 29) with 536870912. lia.
  - rewrite get_set_at_same; [lia|]. rewrite zeros_length. change (2 ^ 29) with 536870912. lia.
Qed.

Lemma bloom_bits_old_domain p n bpk : b_maxbits p = 2 ^ 32 - 8 ->
  (0 <= bpk)%Z -> (Z.of_N n * bpk < 2 ^ 32 - 7)%Z ->
  bloom_bits p n (bloom_new bpk) = Z.to_N ((Z.of_N n * bpk) mod 2 ^ 32)%Z.
Proof.
  intros Hm Hb Hn. change (2 ^ 32)%Z with 4294967296%Z in *.
  rewrite Z.mod_small by lia.
  unfold bloom_new. destruct (Z.ltb_spec bpk 0); [lia|].
  unfold bloom_bits. rewrite Hm. change (2 ^ 32 - 8) with 4294967288.
  destruct (N.eqb_spec n 0) as [->|Hn0]; cbn [orb]; [reflexivity|].
  destruct (Z.leb_spec bpk 0); [replace bpk with 0%Z by lia; now rewrite Z.mul_0_r|].
  assert (Hle : n * Z.to_N bpk <= 4294967288) by lia.
  destruct (N.ltb_spec (4294967288 / Z.to_N bpk) n) as [Hd|Hd].
  - exfalso. assert (n <= 4294967288 / Z.to_N bpk); [|lia].
    apply N.div_le_lower_bound; lia.
  - rewrite N.mod_small by (change (2 ^ 64) with 18446744073709551616; lia).
    rewrite w32_small by (change (2 ^ 32) with 4294967296; lia). lia.
Qed.

(* on the domain of the old totality theorem the repaired Generate writes the same bytes *)
Theorem bloom_generate_same_on_old_domain p bpk hashes : b_maxbits p = 2 ^ 32 - 8 ->
  (0 <= bpk)%Z -> (Z.of_N (lenN hashes) * bpk < 2 ^ 32 - 7)%Z ->
  bloom_generate p bpk hashes = bloom_generate_old p bpk hashes.
Proof.
  intros Hm Hb Hn.
  assert (Hk : bloom_k p bpk = bloom_k_old p bpk).
  { unfold bloom_k, bloom_new. destruct (Z.ltb_spec bpk 0); [lia|reflexivity]. }
  assert (Hy : bloom_nbytes p bpk (lenN hashes) = bloom_nbytes_old p bpk (lenN hashes)).
  { unfold bloom_nbytes, bloom_nbytes_old. now rewrite bloom_bits_old_domain. }
  unfold bloom_generate, bloom_generate_into, bloom_generate_old. cbv zeta.
  now rewrite Hk, Hy.
Qed.

(* on every filter of at most 2^29 bytes the repaired Contains gives the same answer *)
Theorem bloom_contains_same_on_old_domain p f key : b_probebits p = 2 ^ 32 ->
  lenN f <= 2 ^ 29 -> bloom_contains p f key = bloom_contains_old p f key.
Proof.
  intros Hp Hl. unfold bloom_contains, bloom_contains_old. cbv zeta.
  destruct (N.ltb_spec (lenN f) 2); [reflexivity|].
  assert (E : contains_nbits p (lenN f - 1) = contains_nbits_old (lenN f - 1)).
  { change (2 ^ 29) with 536870912 in Hl.
    rewrite contains_nbits_small by (rewrite ?Hp; change (2 ^ 32) with 4294967296; lia).
    unfold contains_nbits_old. rewrite w32_small by (change (2 ^ 32) with 4294967296; lia). reflexivity. }
  now rewrite E.
Qed.
