(* Codec/TableEmptyProofs.v — range iteration on the EMPTY table.
   The data block of an empty table has no entry (restartsOffset = 0).  On such a block NO call of
   the block iterator, sliced or not, in whatever state, ever returns an entry: block.entry sees
   offset >= restartsOffset and reports "end" or "entries offset not aligned".  Hence every
   movement sequence on NewIterator(range) over a well-formed empty table observes nothing, which
   is what the reference cursor over the empty list observes — although the iterator may REPORT a
   corruption error on the way (Props/C13.v: C13_range_iter_empty_table_reports_corruption).
   With TableSliceProofs.table_iter_sliced_refines (non-empty tables) this gives the range
   refinement for every well-formed table. *)
From GL Require Import Base.Order Base.Cursor Codec.Block Codec.BlockEnc Codec.BlockProofs Codec.BlockSliceProofs
  Codec.Table Codec.TableProofs Codec.TableIterProofs Codec.IndexedIterProofs Codec.TableSliceProofs.
From Coq Require Import Lia ZifyN ZifyNat ZifyBool.

(* ------------------------------------------------------------ block level *)
(* the static part: the block has no entries and the iterator's window is [0, 0) *)
Definition estat (it : biter) : Prop :=
  b_roff (bi_blk it) = 0 /\ bi_offLimit it = 0 /\ bi_offRealStart it = 0.
(* ... and the iterator is parked at an end or carries an error *)
Definition eblk (it : biter) : Prop :=
  estat it /\ (bi_dir it = DSOI \/ bi_dir it = DEOI \/ bi_err it <> None).

Lemma entry_empty b o : b_roff b = 0 -> block_entry b o = EntEnd \/ block_entry b o = EntErr.
Proof.
  intros H. unfold block_entry. rewrite H. replace (0 <=? o) with true by lia.
  destruct (o =? 0); auto.
Qed.

Lemma read_empty b pk o : b_roff b = 0 -> bi_read b pk o = RdEnd \/ bi_read b pk o = RdErr ErrCorrupt.
Proof. intros H. unfold bi_read. destruct (entry_empty b o H) as [-> | ->]; auto. Qed.

Lemma estat_serr it e : estat it -> eblk (bi_serr it e).
Proof. intros H. split; [exact H|]. right. right. cbn. discriminate. Qed.
Lemma estat_dir it d : estat it -> estat (bi_with_dir it d).
Proof. intros H. exact H. Qed.
Lemma estat_eoi it : estat it -> eblk (bi_with_dir it DEOI).
Proof. intros H. split; [exact H|]. right. left. reflexivity. Qed.
Lemma estat_soi it : estat it -> eblk (bi_with_dir it DSOI).
Proof. intros H. split; [exact H|]. left. reflexivity. Qed.
Lemma estat_pos it k v o po ri d : estat it -> estat (bi_with_pos it k v o po ri d).
Proof. intros H. exact H. Qed.
Lemma estat_err it : estat it -> bi_has_err it = true -> eblk it.
Proof.
  intros H He. split; [exact H|]. right. right. unfold bi_has_err in He.
  destruct (bi_err it); [discriminate|discriminate].
Qed.

Lemma skip_empty fuel : forall it, estat it ->
  match bi_skip fuel it with inl it' => it' = it | inr it' => eblk it' end.
Proof.
  induction fuel as [|f IH]; intros it H; cbn [bi_skip].
  - destruct (bi_offset it <? bi_offRealStart it); [apply estat_serr; exact H|reflexivity].
  - destruct (bi_offset it <? bi_offRealStart it); [|reflexivity].
    destruct H as (Hb & Hr). destruct (read_empty (bi_blk it) (bi_key it) (bi_offset it) Hb) as [-> | ->].
    + apply estat_eoi. split; assumption.
    + apply estat_serr. split; assumption.
Qed.

Lemma next_empty it : estat it -> fst (bi_next it) = false /\ eblk (snd (bi_next it)).
Proof.
  intros H. unfold bi_next.
  destruct (bdir_eqb (bi_dir it) DEOI) eqn:Ed.
  { cbn [orb fst snd]. split; [reflexivity|]. split; [exact H|]. right. left.
    destruct (bi_dir it); try discriminate. reflexivity. }
  cbn [orb]. destruct (bi_has_err it) eqn:Ee.
  { cbn [fst snd]. split; [reflexivity|apply estat_err; assumption]. }
  set (it1 := if bdir_eqb (bi_dir it) DSOI then _ else it).
  assert (H1 : estat it1) by (unfold it1; destruct (bdir_eqb (bi_dir it) DSOI); exact H).
  pose proof (skip_empty (bi_fuel it1) it1 H1) as Hs.
  destruct (bi_skip (bi_fuel it1) it1) as [it2|it2].
  - subst it2. destruct H1 as (Hb & Hl & Hr). rewrite Hl.
    replace (0 <=? bi_offset it1) with true by lia. cbn [fst snd]. split; [reflexivity|].
    destruct (bi_offset it1 =? 0).
    + apply estat_eoi. repeat split; assumption.
    + apply estat_serr. repeat split; assumption.
  - cbn [fst snd]. split; [reflexivity|exact Hs].
Qed.

Lemma seek_loop_empty c key fuel : forall it, estat it ->
  fst (bi_seek_loop fuel c key it) = false /\ eblk (snd (bi_seek_loop fuel c key it)).
Proof.
  destruct fuel as [|f]; intros it H; cbn [bi_seek_loop].
  - cbn [fst snd]. split; [reflexivity|apply estat_serr; exact H].
  - destruct (next_empty it H) as (E1 & E2). destruct (bi_next it) as (ok, it'). cbn [fst snd] in E1, E2.
    subst ok. cbn [fst snd]. split; [reflexivity|exact E2].
Qed.

Lemma seek_empty c it key : estat it -> fst (bi_seek c it key) = false /\ eblk (snd (bi_seek c it key)).
Proof.
  intros H. unfold bi_seek. destruct (bi_has_err it) eqn:Ee.
  { cbn [fst snd]. split; [reflexivity|apply estat_err; assumption]. }
  destruct (block_seek c (bi_blk it) (bi_riStart it) (bi_riLimit it) key) as [[ri off]|].
  - apply seek_loop_empty. exact H.
  - cbn [fst snd]. split; [reflexivity|apply estat_serr; exact H].
Qed.

Lemma first_empty it : estat it -> fst (bi_first it) = false /\ eblk (snd (bi_first it)).
Proof.
  intros H. unfold bi_first. destruct (bi_has_err it) eqn:Ee.
  { cbn [fst snd]. split; [reflexivity|apply estat_err; assumption]. }
  apply next_empty. exact H.
Qed.

Lemma prev_empty it : eblk it -> fst (bi_prev it) = false /\ eblk (snd (bi_prev it)).
Proof.
  intros (H & Hd). unfold bi_prev.
  destruct (bdir_eqb (bi_dir it) DSOI) eqn:Es.
  { cbn [orb fst snd]. split; [reflexivity|]. split; [exact H|]. left. destruct (bi_dir it); try discriminate. reflexivity. }
  cbn [orb]. destruct (bi_has_err it) eqn:Ee.
  { cbn [fst snd]. split; [reflexivity|apply estat_err; assumption]. }
  destruct Hd as [Hd|[Hd|Hd]].
  - rewrite Hd in Es. discriminate.
  - rewrite Hd. destruct H as (Hb & Hl & Hr). rewrite Hl, Hr. cbn [N.eqb fst snd].
    split; [reflexivity|]. apply estat_soi. repeat split; assumption.
  - unfold bi_has_err in Ee. destruct (bi_err it); [discriminate|congruence].
Qed.

Lemma last_empty it : estat it -> fst (bi_last it) = false /\ eblk (snd (bi_last it)).
Proof.
  intros H. unfold bi_last. destruct (bi_has_err it) eqn:Ee.
  { cbn [fst snd]. split; [reflexivity|apply estat_err; assumption]. }
  apply prev_empty. apply estat_eoi. exact H.
Qed.

Lemma step_empty c it o : eblk it -> fst (bi_step c it o) = false /\ eblk (snd (bi_step c it o)).
Proof.
  intros H. pose proof H as (Hs & _).
  destruct o; cbn [bi_step];
    [apply first_empty | apply last_empty | apply seek_empty | apply next_empty | apply prev_empty]; assumption.
Qed.

Lemma get_empty it : eblk it -> bi_get it = None.
Proof.
  intros (_ & Hd). unfold bi_get, bi_valid, bi_has_err. destruct Hd as [-> | [-> | Hd]]; cbn.
  - now rewrite andb_false_r.
  - now rewrite andb_false_r.
  - destruct (bi_err it); [reflexivity|congruence].
Qed.

(* newBlockIter(b, slice, inclLimit) on a block without entries *)
Lemma new_iter_empty c b sl incl : b_roff b = 0 -> eblk (new_block_iter c b sl incl).
Proof.
  intros Hb.
  assert (H0 : eblk (bi_unsliced b)).
  { split; [|left; reflexivity]. unfold estat, bi_unsliced. cbn. auto. }
  unfold new_block_iter. destruct sl as [[start limit]|]; [|exact H0]. cbv zeta.
  set (bi1 := match start with None => bi_unsliced b | Some s => _ end).
  assert (H1 : eblk bi1).
  { unfold bi1. destruct start as [s|]; [|exact H0].
    destruct (seek_empty c (bi_unsliced b) s (proj1 H0)) as (E1 & E2).
    destruct (bi_seek c (bi_unsliced b) s) as (ok, bi'). cbn [fst snd] in E1, E2. subst ok.
    destruct E2 as ((B1 & B2 & B3) & Bd). split; [|exact Bd].
    unfold estat, bi_with_start. cbn. auto. }
  set (bi2 := match limit with None => bi1 | Some l => _ end).
  assert (H2 : eblk bi2).
  { unfold bi2. destruct limit as [l|]; [|exact H1].
    destruct (seek_empty c bi1 l (proj1 H1)) as (E1 & E2).
    destruct (bi_seek c bi1 l) as (ok, bi'). cbn [fst snd] in E1, E2. subst ok. exact E2. }
  assert (H3 : eblk (bi_reset bi2)).
  { split; [exact (proj1 H2)|left; reflexivity]. }
  destruct (bi_offLimit (bi_reset bi2) <? bi_offStart (bi_reset bi2)); [|exact H3].
  apply estat_serr. exact (proj1 H3).
Qed.

Lemma c_run_nil {V} c : forall ops p, @c_run V c [] p ops = map (fun _ => None) ops.
Proof.
  induction ops as [|o ops IH]; intros p; [reflexivity|]. cbn [c_run map]. rewrite IH. f_equal.
  destruct (c_step c [] p o) as [|i|]; cbn; try reflexivity. destruct i; reflexivity.
Qed.

(* ------------------------------------------------------------ table level *)
Section EmptyTable.
  Variable c : comparer.
  Hypothesis c_ok : comparer_ok c.
  Variable rd : treader.
  Variable seps : list bytes.
  Variable hs : list bhandle.
  Hypothesis wf : table_wf c rd [[]] seps hs.
  Variable start limit : option bytes.

  Local Notation ient := (ientries seps hs).
  Local Notation sl := (Some (start, limit)).

  Variable ib : block.
  Variable ioff : nat -> N.
  Variable iris : list nat.
  Hypothesis ilay : block_layout ient ib ioff iris.
  Variables ja jz irs irl : nat.
  Hypothesis ivok : view_ok ient iris ja jz irs irl.

  Local Notation RI := (rep_s ient ib ioff iris ja jz irs irl).
  Local Notation IL := (view ient ja jz).

  Lemma ient_one : length ient = 1%nat.
  Proof. rewrite (ient_len c rd [[]] seps hs wf). reflexivity. Qed.

  Lemma RO : refines_over c IL RI.
  Proof.
    apply sliced_refines; [exact c_ok | exact ilay | exact (ient_sorted c c_ok rd [[]] seps hs wf) | rewrite ient_one; lia | exact ivok].
  Qed.

  Definition Dok (d : option diter) : Prop :=
    match d with
    | None => True
    | Some (DEmpty _) => True
    | Some (DBlock it) => eblk it
    end.

  Definition T (t : titer) : Prop :=
    ti_slice t = sl /\ (exists ip, RI (ti_index t) ip) /\ Dok (ti_data t).

  Lemma T_get t : T t -> ti_get t = None.
  Proof.
    intros (_ & _ & Hd). unfold ti_get. destruct (ti_data t) as [[it|e]|]; cbn [d_get]; try reflexivity.
    apply get_empty. exact Hd.
  Qed.

  (* indexIter.Get at a valid index position opens an iterator on a block without entries *)
  Lemma index_get_ok t i : RI (ti_index t) (CAt i) -> Dok (index_get c rd t).
  Proof.
    intros R. destruct (ro_get _ _ _ RO _ _ R) as (Hv & Hn).
    unfold index_get. rewrite Hv. cbn [negb].
    assert (Hpos : (0 < length ient)%nat) by (rewrite ient_one; lia).
    assert (Hi : (i < jz - ja)%nat).
    { rewrite <- (view_len ient iris Hpos ja jz irs irl ivok). apply nth_error_Some. rewrite Hn. discriminate. }
    pose proof (vo_z _ _ _ _ _ _ ivok) as Hz. rewrite ient_one in Hz.
    assert (Hj : (ja + i < 1)%nat) by lia.
    rewrite (view_nth ient ja jz i Hi), (nth_kv ient (ja + i)) in Hn by (rewrite ient_one; exact Hj).
    injection Hn as Hk Hval. rewrite <- Hval.
    rewrite (ient_val c rd [[]] seps hs wf (ja + i) Hj).
    destruct (twf_handles _ _ _ _ _ wf (ja + i) Hj) as [Ho1 Hl1]. rewrite (decode_encode_bh _ Ho1 Hl1).
    destruct (twf_fetch _ _ _ _ _ wf (ja + i) Hj) as (bj & Ef & (off & ris & lay)). rewrite Ef.
    cbn [Dok]. apply new_iter_empty.
    assert (El : nth (ja + i) [[]] [] = (@nil (bytes * bytes))) by (destruct (ja + i)%nat as [|[|n]]; reflexivity).
    rewrite El in lay. rewrite <- (lay_end _ _ _ _ lay). exact (lay_off0 _ _ _ _ lay).
  Qed.

  Lemma T_with t ix d e : ti_slice t = sl -> (exists ip, RI ix ip) -> Dok d -> T (ti_with t ix d e).
  Proof. intros H1 H2 H3. split; [exact H1|]. split; assumption. Qed.

  Lemma T_index_err t : T t -> T (ti_index_err t).
  Proof. intros H. unfold ti_index_err. destruct (bi_err (ti_index t)); [|exact H]. destruct H as (H1 & H2 & H3). apply T_with; assumption. Qed.

  Lemma T_clear t : T t -> T (ti_clear_data t).
  Proof. intros (H1 & H2 & H3). apply T_with; [assumption|assumption|exact I]. Qed.

  Lemma T_data_err t d t' : T t -> ti_data_err t d = Some t' -> T t'.
  Proof.
    intros (H1 & H2 & H3) E. unfold ti_data_err in E. destruct (d_err d); [|discriminate].
    destruct (ti_strict t || _); [|discriminate]. injection E as <-. apply T_with; assumption.
  Qed.

  Lemma T_set t i : T t -> RI (ti_index t) (CAt i) -> T (ti_set_data c rd t).
  Proof. intros (H1 & H2 & _) R. apply T_with; [assumption|assumption|]. exact (index_get_ok t i R). Qed.

  Lemma dlift_ok f d : (forall it, eblk it -> eblk (snd (f it))) -> Dok (Some d) -> Dok (Some (snd (d_lift f d))).
  Proof.
    intros Hf Hd. destruct d as [it|e]; cbn [d_lift].
    - specialize (Hf it Hd). destruct (f it) as (ok, it'). exact Hf.
    - exact I.
  Qed.

  Definition keepsT (self : titer -> bool * titer) : Prop := forall t, T t -> T (snd (self t)).

  Lemma index_step t o : T t ->
    exists ok ix' p', bi_step c (ti_index t) o = (ok, ix') /\ RI ix' p' /\ ok = is_at p'.
  Proof.
    intros (_ & (ip & R) & _). destruct (ro_step _ _ _ RO _ _ o R) as (ok & ix' & E & R' & Eok).
    exists ok, ix', (c_step c IL ip o). auto.
  Qed.

  Lemma advance_T self t0 : keepsT self -> T t0 -> T (snd (ti_advance c rd self t0)).
  Proof.
    intros Hs H0. unfold ti_advance.
    destruct (index_step t0 OpNext H0) as (ok & ix' & p' & E & R' & Eok). cbn [bi_step] in E. rewrite E.
    destruct H0 as (H1 & _ & H3).
    assert (T1 : T (ti_with t0 ix' (ti_data t0) (ti_err t0))) by (apply T_with; eauto).
    destruct ok; cbn [negb].
    - destruct p' as [|i|]; try discriminate. apply Hs. apply (T_set _ i T1). exact R'.
    - cbn [snd]. apply T_index_err. exact T1.
  Qed.

  Lemma enter_T pos self t2 : (forall it, eblk it -> eblk (snd (pos it))) -> keepsT self -> T t2 ->
    T (snd (ti_enter pos self t2)).
  Proof.
    intros Hp Hs H2. unfold ti_enter. destruct (ti_data t2) as [d|] eqn:Ed; [|exact H2].
    pose proof H2 as (H1 & Hx & Hd). rewrite Ed in Hd.
    pose proof (dlift_ok pos d Hp Hd) as Hd'. destruct (d_lift pos d) as (ok2, d'). cbn [snd] in Hd'.
    assert (T3 : T (ti_with t2 (ti_index t2) (Some d') (ti_err t2))) by (apply T_with; assumption).
    destruct ok2; [exact T3|].
    destruct (ti_data_err _ d') as [t4|] eqn:E4.
    - cbn [snd]. exact (T_data_err _ _ _ T3 E4).
    - apply Hs. apply T_clear. exact T3.
  Qed.

  Lemma last_keeps it : eblk it -> eblk (snd (bi_last it)).
  Proof. intros H. apply last_empty. exact (proj1 H). Qed.

  Lemma retreat_T self t0 : keepsT self -> T t0 -> T (snd (ti_retreat c rd self t0)).
  Proof.
    intros Hs H0. unfold ti_retreat.
    destruct (index_step t0 OpPrev H0) as (ok & ix' & p' & E & R' & Eok). cbn [bi_step] in E. rewrite E.
    destruct H0 as (H1 & _ & H3).
    assert (T1 : T (ti_with t0 ix' (ti_data t0) (ti_err t0))) by (apply T_with; eauto).
    destruct ok; cbn [negb].
    - destruct p' as [|i|]; try discriminate. apply (enter_T bi_last self); [exact last_keeps|exact Hs|].
      apply (T_set _ i T1). exact R'.
    - cbn [snd]. apply T_index_err. exact T1.
  Qed.

  Lemma next_f_T fuel : keepsT (ti_next_f c rd fuel).
  Proof.
    induction fuel as [|f IH]; intros t H; cbn [ti_next_f].
    - destruct H as (H1 & H2 & H3). apply T_with; assumption.
    - destruct (ti_has_err t); [exact H|].
      destruct (ti_data t) as [d|] eqn:Ed.
      + pose proof H as (H1 & Hx & Hd). rewrite Ed in Hd.
        pose proof (dlift_ok bi_next d (fun it Hi => proj2 (next_empty it (proj1 Hi))) Hd) as Hd'.
        destruct (d_lift bi_next d) as (ok, d'). cbn [snd] in Hd'.
        assert (T1 : T (ti_with t (ti_index t) (Some d') (ti_err t))) by (apply T_with; assumption).
        destruct ok; [exact T1|].
        destruct (ti_data_err _ d') as [t2|] eqn:E2.
        * cbn [snd]. exact (T_data_err _ _ _ T1 E2).
        * apply (advance_T _ _ IH). apply T_clear. exact T1.
      + apply (advance_T _ _ IH). exact H.
  Qed.

  Lemma prev_keeps it : eblk it -> eblk (snd (bi_prev it)).
  Proof. intros H. apply prev_empty. exact H. Qed.

  Lemma prev_f_T fuel : keepsT (ti_prev_f c rd fuel).
  Proof.
    induction fuel as [|f IH]; intros t H; cbn [ti_prev_f].
    - destruct H as (H1 & H2 & H3). apply T_with; assumption.
    - destruct (ti_has_err t); [exact H|].
      destruct (ti_data t) as [d|] eqn:Ed.
      + pose proof H as (H1 & Hx & Hd). rewrite Ed in Hd.
        pose proof (dlift_ok bi_prev d prev_keeps Hd) as Hd'.
        destruct (d_lift bi_prev d) as (ok, d'). cbn [snd] in Hd'.
        assert (T1 : T (ti_with t (ti_index t) (Some d') (ti_err t))) by (apply T_with; assumption).
        destruct ok; [exact T1|].
        destruct (ti_data_err _ d') as [t2|] eqn:E2.
        * cbn [snd]. exact (T_data_err _ _ _ T1 E2).
        * apply (retreat_T _ _ IH). apply T_clear. exact T1.
      + apply (retreat_T _ _ IH). exact H.
  Qed.

  Lemma next_T : keepsT (ti_next c rd).
  Proof. intros t H. unfold ti_next. apply next_f_T. exact H. Qed.
  Lemma prev_T : keepsT (ti_prev c rd).
  Proof. intros t H. unfold ti_prev. apply prev_f_T. exact H. Qed.

  Lemma step_T t o : T t -> T (snd (ti_step c rd t o)).
  Proof.
    intros H. destruct o; cbn [ti_step].
    - (* First *)
      unfold ti_first. destruct (ti_has_err t); [exact H|].
      destruct (index_step t OpFirst H) as (ok & ix' & p' & E & R' & Eok). cbn [bi_step] in E. rewrite E.
      pose proof H as (H1 & _ & H3).
      assert (T1 : T (ti_with t ix' (ti_data t) (ti_err t))) by (apply T_with; eauto).
      destruct ok; cbn [negb].
      + destruct p' as [|i|]; try discriminate. apply next_T. apply (T_set _ i T1). exact R'.
      + cbn [snd]. apply T_clear, T_index_err. exact T1.
    - (* Last *)
      unfold ti_last. destruct (ti_has_err t); [exact H|].
      destruct (index_step t OpLast H) as (ok & ix' & p' & E & R' & Eok). cbn [bi_step] in E. rewrite E.
      pose proof H as (H1 & _ & H3).
      assert (T1 : T (ti_with t ix' (ti_data t) (ti_err t))) by (apply T_with; eauto).
      destruct ok; cbn [negb].
      + destruct p' as [|i|]; try discriminate.
        apply (enter_T bi_last (ti_prev c rd)); [exact last_keeps|exact prev_T|].
        apply (T_set _ i T1). exact R'.
      + cbn [snd]. apply T_clear, T_index_err. exact T1.
    - (* Seek *)
      unfold ti_seek. destruct (ti_has_err t); [exact H|].
      destruct (index_step t (OpSeek k) H) as (ok & ix' & p' & E & R' & Eok). cbn [bi_step] in E. rewrite E.
      pose proof H as (H1 & _ & H3).
      assert (T1 : T (ti_with t ix' (ti_data t) (ti_err t))) by (apply T_with; eauto).
      destruct ok; cbn [negb].
      + destruct p' as [|i|]; try discriminate.
        apply (enter_T (fun it => bi_seek c it k) (ti_next c rd));
          [intros it Hi; apply seek_empty; exact (proj1 Hi)|exact next_T|].
        apply (T_set _ i T1). exact R'.
      + cbn [snd]. apply T_clear, T_index_err. exact T1.
    - apply next_T. exact H.
    - apply prev_T. exact H.
  Qed.

  Lemma run_T : forall ops t, T t -> fst (ti_run c rd t ops) = map (fun _ => None) ops.
  Proof.
    induction ops as [|o ops IH]; intros t H; [reflexivity|]. cbn [ti_run map].
    pose proof (step_T t o H) as H'. destruct (ti_step c rd t o) as (ok, t'). cbn [snd] in H'.
    specialize (IH t' H'). destruct (ti_run c rd t' ops) as (l, tf). cbn [fst] in *.
    rewrite IH, (T_get t' H'). destruct ok; reflexivity.
  Qed.
End EmptyTable.

Lemma tkvs_nil_blocks c rd blocks seps hs :
  table_wf c rd blocks seps hs -> tkvs blocks = [] -> blocks = [[]].
Proof.
  intros wf E. destruct (twf_blocks_ne _ _ _ _ _ wf) as [H|H]; [|exact H]. exfalso.
  pose proof (twf_m _ _ _ _ _ wf) as Hm. destruct blocks as [|b0 r]; [cbn in Hm; lia|].
  specialize (H 0%nat ltac:(cbn; lia)). cbn in H. unfold tkvs in E. cbn in E.
  apply app_eq_nil in E as (E & _). contradiction.
Qed.

(* NewIterator(&util.Range{start, limit}, ro) on an EMPTY well-formed table observes nothing *)
Theorem table_iter_sliced_empty c rd blocks seps hs start limit strict :
  comparer_ok c -> table_wf c rd blocks seps hs -> tkvs blocks = [] ->
  exists t, new_titer c rd (Some (start, limit)) strict = inr t /\
    forall ops, fst (ti_run c rd t ops) = map (fun _ => None) ops.
Proof.
  intros Hc wf Hnil. pose proof (tkvs_nil_blocks _ _ _ _ _ wf Hnil) as Eb. subst blocks.
  destruct (twf_index _ _ _ _ _ wf) as (ib & Eib & (ioff & iris & ilay)).
  unfold new_titer. rewrite Eib. eexists. split; [reflexivity|].
  assert (Hpos : (0 < length (ientries seps hs))%nat) by (rewrite (ient_one c rd seps hs wf); lia).
  destruct (new_block_iter_sliced c Hc (ientries seps hs) ib ioff iris ilay (ient_sorted c Hc rd [[]] seps hs wf) Hpos start limit true)
    as (ja & jz & irs & irl & ivok & R0 & _ & _).
  intros ops. apply (run_T c Hc rd seps hs wf start limit ib ioff iris ilay ja jz irs irl ivok).
  split; [reflexivity|]. split; [exists CSOI; exact R0|exact I].
Qed.

(* the range refinement for EVERY well-formed table *)
Theorem table_iter_range_refines c rd blocks seps hs start limit strict :
  comparer_ok c -> table_wf c rd blocks seps hs ->
  exists t, new_titer c rd (Some (start, limit)) strict = inr t /\
    forall ops, fst (ti_run c rd t ops) = c_run c (restrict c start limit (tkvs blocks)) CSOI ops.
Proof.
  intros Hc wf. destruct (tkvs blocks) as [|x l] eqn:E.
  - destruct (table_iter_sliced_empty c rd blocks seps hs start limit strict Hc wf E) as (t & Et & Hr).
    exists t. split; [exact Et|]. intros ops. rewrite Hr. cbn [restrict filter]. symmetry. apply c_run_nil.
  - rewrite <- E. apply (table_iter_sliced_refines c rd blocks seps hs start limit strict Hc wf). rewrite E. discriminate.
Qed.
