(* Codec/Table.v — model of the sorted table (leveldb/table/writer.go: Writer; reader.go: Reader,
   indexIter; leveldb/iterator/indexed_iter.go: indexedIterator; table.go: block handles, footer).

   Three layers in one file:
   (B) the reader over an ABSTRACT block store: a [treader] holds the index block and a function
       [tr_fetch : bhandle -> res block] standing for Reader.readBlock through the cache; find /
       Get / OffsetOf / the indexed iterator are written against it, mirroring the Go control flow
       (index seek, optional filter consult, data-block seek, fall through to the next block;
       indexedIterator with its setData / clearData / dataErr and the strict flag; indexIter.Get
       with the isFirst/isLast slice rule);
   (C) the byte level: block trailer (type byte + masked CRC over data+type), block handles,
       metaindex, footer with padding and magic; [open_table] builds a [treader] from file bytes
       the way NewReader does, so that the model can read tables written by the Go writer;
   (W) the writer: Append (order check, flushPendingBH's separator choice, finishBlock when the
       estimated size reaches blockSize), Close (last block, filter block, metaindex, index, footer).

   Abstract parts, as Section variables with executable instances supplied by the users of this
   file: the checksum [crc] (Codec/TblCrc.v has CRC-32C with LevelDB's mask), the compression
   codec [compress]/[decompress] (golang/snappy; contract decompress (compress x) = Some x), and the
   filter: on the reader side [fcontains data offset key] stands for filterBlock.contains with the
   configured filter, on the writer side [fgen] builds the filter block content from the
   (offset, keys) of the data blocks (leveldb/table filterWriter + filter.FilterGenerator; their
   byte-level behaviour belongs to property C16).

   Reader state that Go mutates on a bad block handle (r.err) is not modelled as state: the call
   reports the error.  Model file: definitions only. *)
From GL Require Export Codec.Block.

(* ------------------------------------------------------------------ parameters (Gen/Consts.v) *)
Record tparams := mkTP {
  tp_trailerLen : N;     (* blockTrailerLen *)
  tp_footerLen : N;      (* footerLen *)
  tp_magic : bytes;      (* magic *)
  tp_typeNone : N;       (* blockTypeNoCompression *)
  tp_typeSnappy : N      (* blockTypeSnappyCompression *)
}.

Definition tparams_ok (p : tparams) : Prop :=
  tp_trailerLen p = 5 /\ lenN (tp_magic p) = 8 /\ 2 * 20 + lenN (tp_magic p) <= tp_footerLen p /\
  tp_footerLen p < 256 /\ tp_typeNone p <> tp_typeSnappy p /\ tp_typeNone p < 256 /\ tp_typeSnappy p < 256 /\
  wf_bytes (tp_magic p).

(* ------------------------------------------------------------------ block handles *)
Record bhandle := mkBH { bh_off : N; bh_len : N }.

Definition encode_bh (h : bhandle) : bytes := put_uvarint (bh_off h) ++ put_uvarint (bh_len h).

(* decodeBlockHandle(src) = (handle, n);  n = 0: BhBad.  (approx) an overflowing varint makes Go
   slice with a negative index (first) or return a handle with a non-positive count (second):
   BhPanic *)
Inductive bh_res := BhOk (h : bhandle) (n : N) | BhBad | BhPanic.
Definition decode_bh (src : bytes) : bh_res :=
  match uvarint src with
  | UvOver _ => BhPanic
  | UvShort => BhBad
  | UvOk off n =>
      match uvarint (dropN n src) with
      | UvShort => BhBad
      | UvOk len m => BhOk (mkBH off len) (n + m)
      | UvOver _ => BhPanic
      end
  end.

(* ------------------------------------------------------------------ (B) reader over abstract blocks *)
Record treader := mkTR {
  tr_index : res block;                       (* the index block (Corrupt also stands for r.err) *)
  tr_fetch : bhandle -> res block;            (* readBlock(bh, verifyChecksum), through the cache *)
  tr_filter : option (N -> bytes -> bool);    (* filterBlock.contains(filter, offset, key); None = no usable filter *)
  tr_dataEnd : N
}.

Inductive find_res := FFound (k v : bytes) | FNotFound | FCorrupted | FPanicked | FOther.

Definition find_err (e : berr) : find_res :=
  match e with ErrCorrupt => FCorrupted | ErrPanic => FPanicked | _ => FOther end.
Definition find_noerr (it : biter) : find_res :=
  match bi_err it with None => FNotFound | Some e => find_err e end.

Section Reader.
  Variable c : comparer.
  Variable rd : treader.

  (* Reader.find(key, filtered, ro, noValue) *)
  Definition tfind (key : bytes) (filtered : bool) : find_res :=
    match tr_index rd with
    | Corrupt => FCorrupted
    | Panic => FPanicked
    | Ok ib =>
        let index := new_block_iter c ib None true in
        let '(ok, index1) := bi_seek c index key in
        if negb ok then find_noerr index1
        else
          match decode_bh (bi_value index1) with
          | BhBad => FCorrupted
          | BhPanic => FPanicked
          | BhOk dataBH _ =>
              let rejected :=
                match tr_filter rd with
                | Some contains => filtered && negb (contains (bh_off dataBH) key)
                | None => false
                end in
              if rejected then FNotFound
              else
                match tr_fetch rd dataBH with
                | Corrupt => FCorrupted
                | Panic => FPanicked
                | Ok blk =>
                    let '(ok2, data1) := bi_seek c (new_block_iter c blk None false) key in
                    if ok2 then FFound (bi_key data1) (bi_value data1)
                    else
                      match bi_err data1 with
                      | Some e => find_err e
                      | None =>
                          (* the nearest greater-than key is the first key of the next block *)
                          let '(ok3, index2) := bi_next index1 in
                          if negb ok3 then find_noerr index2
                          else
                            match decode_bh (bi_value index2) with
                            | BhBad => FCorrupted
                            | BhPanic => FPanicked
                            | BhOk dataBH2 _ =>
                                match tr_fetch rd dataBH2 with
                                | Corrupt => FCorrupted
                                | Panic => FPanicked
                                | Ok blk2 =>
                                    let '(ok4, data2) := bi_next (new_block_iter c blk2 None false) in
                                    if ok4 then FFound (bi_key data2) (bi_value data2)
                                    else find_noerr data2
                                end
                            end
                      end
                end
          end
    end.

  (* Reader.Get: find (unfiltered), then equality of keys *)
  Definition tget (key : bytes) : find_res :=
    match tfind key false with
    | FFound k v => match cmp c k key with Eq => FFound k v | _ => FNotFound end
    | r => r
    end.

  (* what the DB layer does with Find(key, filtered = true): exact match only *)
  Definition tget_filtered (key : bytes) : find_res :=
    match tfind key true with
    | FFound k v => match cmp c k key with Eq => FFound k v | _ => FNotFound end
    | r => r
    end.

  (* Reader.OffsetOf.  (Go quirk: on a bad block handle it sets r.err and returns (0, nil).) *)
  Definition toffset_of (key : bytes) : res N :=
    match tr_index rd with
    | Corrupt => Corrupt
    | Panic => Panic
    | Ok ib =>
        let '(ok, index1) := bi_seek c (new_block_iter c ib None true) key in
        if ok then
          match decode_bh (bi_value index1) with
          | BhOk h _ => Ok (bh_off h)
          | BhBad => Ok 0
          | BhPanic => Panic
          end
        else
          match bi_err index1 with
          | None => Ok (tr_dataEnd rd)
          | Some ErrCorrupt => Corrupt
          | Some _ => Panic
          end
    end.

  (* ---------------- the table iterator: indexedIterator over indexIter ---------------- *)
  (* a data iterator: a blockIter, or iterator.NewEmptyIterator(err) *)
  Inductive diter := DBlock (it : biter) | DEmpty (e : berr).

  Definition d_err (d : diter) : option berr :=
    match d with DBlock it => bi_err it | DEmpty e => Some e end.
  Definition d_lift (f : biter -> bool * biter) (d : diter) : bool * diter :=
    match d with
    | DBlock it => let '(ok, it') := f it in (ok, DBlock it')
    | DEmpty e => (false, DEmpty e)
    end.
  Definition d_get (d : diter) : option (bytes * bytes) :=
    match d with DBlock it => bi_get it | DEmpty _ => None end.

  Record titer := mkTI {
    ti_index : biter;
    ti_data : option diter;
    ti_err : option berr;
    ti_strict : bool;
    ti_slice : option krange
  }.

  (* indexIter.Get *)
  Definition index_get (t : titer) : option diter :=
    let ix := ti_index t in
    if negb (bi_valid ix) then None          (* Value() == nil *)
    else
      match decode_bh (bi_value ix) with
      | BhBad => Some (DEmpty ErrCorrupt)
      | BhPanic => Some (DEmpty ErrPanic)
      | BhOk dataBH _ =>
          let slice :=
            match ti_slice t with
            | Some s => if bi_is_first ix || bi_is_last ix then Some s else None
            | None => None
            end in
          match tr_fetch rd dataBH with
          | Corrupt => Some (DEmpty ErrCorrupt)
          | Panic => Some (DEmpty ErrPanic)
          | Ok blk => Some (DBlock (new_block_iter c blk slice false))
          end
      end.

  Definition ti_with (t : titer) (ix : biter) (d : option diter) (e : option berr) : titer :=
    mkTI ix d e (ti_strict t) (ti_slice t).

  Definition ti_set_data (t : titer) : titer := ti_with t (ti_index t) (index_get t) (ti_err t).
  Definition ti_clear_data (t : titer) : titer := ti_with t (ti_index t) None (ti_err t).
  (* indexErr *)
  Definition ti_index_err (t : titer) : titer :=
    match bi_err (ti_index t) with
    | Some e => ti_with t (ti_index t) (ti_data t) (Some e)
    | None => t
    end.
  (* dataErr: Some t' = it returned true (halt, err recorded); None = continue *)
  Definition ti_data_err (t : titer) (d : diter) : option titer :=
    match d_err d with
    | Some e =>
        if ti_strict t || negb (match e with ErrCorrupt => true | _ => false end)
        then Some (ti_with t (ti_index t) (ti_data t) (Some e))
        else None
    | None => None
    end.

  Definition ti_has_err (t : titer) : bool := match ti_err t with Some _ => true | None => false end.

  (* the shared tails of the indexedIterator methods; [self] is the method to call again *)
  (* case i.data == nil of Next: move the index forward, open that block, Next again *)
  Definition ti_advance (self : titer -> bool * titer) (t0 : titer) : bool * titer :=
    let '(ok, ix) := bi_next (ti_index t0) in
    let t1 := ti_with t0 ix (ti_data t0) (ti_err t0) in
    if negb ok then (false, ti_index_err t1) else self (ti_set_data t1).

  (* after setData: position the fresh data iterator with [pos]; when that fails without a
     halting error, drop the block and continue with [self] *)
  Definition ti_enter (pos : biter -> bool * biter) (self : titer -> bool * titer) (t2 : titer) : bool * titer :=
    match ti_data t2 with
    | None => (true, t2)               (* (approx) nil data iterator: Go panics *)
    | Some d =>
        let '(ok2, d') := d_lift pos d in
        let t3 := ti_with t2 (ti_index t2) (Some d') (ti_err t2) in
        if ok2 then (true, t3)
        else match ti_data_err t3 d' with
             | Some t4 => (false, t4)
             | None => self (ti_clear_data t3)
             end
    end.

  (* case i.data == nil of Prev: move the index back, open that block, go to its last entry *)
  Definition ti_retreat (self : titer -> bool * titer) (t0 : titer) : bool * titer :=
    let '(ok, ix) := bi_prev (ti_index t0) in
    let t1 := ti_with t0 ix (ti_data t0) (ti_err t0) in
    if negb ok then (false, ti_index_err t1) else ti_enter bi_last self (ti_set_data t1).

  (* Next *)
  Fixpoint ti_next_f (fuel : nat) (t : titer) : bool * titer :=
    match fuel with
    | O => (false, ti_with t (ti_index t) (ti_data t) (Some ErrFuel))
    | S f =>
        if ti_has_err t then (false, t)
        else
          match ti_data t with
          | Some d =>
              let '(ok, d') := d_lift bi_next d in
              let t1 := ti_with t (ti_index t) (Some d') (ti_err t) in
              if ok then (true, t1)
              else match ti_data_err t1 d' with
                   | Some t2 => (false, t2)
                   | None => ti_advance (ti_next_f f) (ti_clear_data t1)
                   end
          | None => ti_advance (ti_next_f f) t
          end
    end.

  (* Prev *)
  Fixpoint ti_prev_f (fuel : nat) (t : titer) : bool * titer :=
    match fuel with
    | O => (false, ti_with t (ti_index t) (ti_data t) (Some ErrFuel))
    | S f =>
        if ti_has_err t then (false, t)
        else
          match ti_data t with
          | Some d =>
              let '(ok, d') := d_lift bi_prev d in
              let t1 := ti_with t (ti_index t) (Some d') (ti_err t) in
              if ok then (true, t1)
              else match ti_data_err t1 d' with
                   | Some t2 => (false, t2)
                   | None => ti_retreat (ti_prev_f f) (ti_clear_data t1)
                   end
          | None => ti_retreat (ti_prev_f f) t
          end
    end.

  Definition ti_fuel (t : titer) : nat := S (S (bi_fuel (ti_index t))).
  Definition ti_next (t : titer) : bool * titer := ti_next_f (ti_fuel t) t.
  Definition ti_prev (t : titer) : bool * titer := ti_prev_f (ti_fuel t) t.

  Definition ti_first (t : titer) : bool * titer :=
    if ti_has_err t then (false, t)
    else
      let '(ok, ix) := bi_first (ti_index t) in
      let t1 := ti_with t ix (ti_data t) (ti_err t) in
      if negb ok then (false, ti_clear_data (ti_index_err t1))
      else ti_next (ti_set_data t1).

  Definition ti_last (t : titer) : bool * titer :=
    if ti_has_err t then (false, t)
    else
      let '(ok, ix) := bi_last (ti_index t) in
      let t1 := ti_with t ix (ti_data t) (ti_err t) in
      if negb ok then (false, ti_clear_data (ti_index_err t1))
      else ti_enter bi_last ti_prev (ti_set_data t1).

  Definition ti_seek (t : titer) (key : bytes) : bool * titer :=
    if ti_has_err t then (false, t)
    else
      let '(ok, ix) := bi_seek c (ti_index t) key in
      let t1 := ti_with t ix (ti_data t) (ti_err t) in
      if negb ok then (false, ti_clear_data (ti_index_err t1))
      else ti_enter (fun it => bi_seek c it key) ti_next (ti_set_data t1).

  Definition ti_get (t : titer) : option (bytes * bytes) :=
    match ti_data t with Some d => d_get d | None => None end.

  (* Error(): i.err, else index.Error() *)
  Definition ti_error (t : titer) : option berr :=
    match ti_err t with Some e => Some e | None => bi_err (ti_index t) end.

  Definition ti_step (t : titer) (o : cop) : bool * titer :=
    match o with
    | OpFirst => ti_first t
    | OpLast => ti_last t
    | OpSeek k => ti_seek t k
    | OpNext => ti_next t
    | OpPrev => ti_prev t
    end.

  Fixpoint ti_run (t : titer) (ops : list cop) : list (option (bytes * bytes)) * titer :=
    match ops with
    | [] => ([], t)
    | o :: r =>
        let '(ok, t') := ti_step t o in
        let '(l, tf) := ti_run t' r in
        ((if ok then ti_get t' else None) :: l, tf)
    end.

  (* Reader.NewIterator(slice, ro); [strict] = opt.GetStrict(o, ro, StrictReader).
     inl = iterator.NewEmptyIterator(err) *)
  Definition new_titer (slice : option krange) (strict : bool) : berr + titer :=
    match tr_index rd with
    | Corrupt => inl ErrCorrupt
    | Panic => inl ErrPanic
    | Ok ib => inr (mkTI (new_block_iter c ib slice true) None None strict slice)
    end.
End Reader.

(* ------------------------------------------------------------------ (C) bytes *)
Definition starts_with (p s : bytes) : bool := beq (takeN (lenN p) s) p && (lenN p <=? lenN s).

Definition filter_prefix : bytes := [102; 105; 108; 116; 101; 114; 46].   (* "filter." *)

Section Bytes.
  Variable tp : tparams.
  Variable crc : bytes -> N.                          (* util.NewCRC(b).Value() *)
  Variable decompress : bytes -> option bytes.        (* snappy.Decode; None = error *)
  Variable compress : bytes -> bytes.                 (* snappy.Encode *)
  Variable fcontains : bytes -> N -> bytes -> bool.   (* filter block data -> filterBlock.contains *)

  (* Reader.readRawBlock(bh, verifyChecksum).
     (approx) a read that ends beyond the file: Go ignores io.EOF and works on a partly filled
     buffer; the model reports Corrupt.  bh.length near 2^63: the buffer size was negative and the code
     panicked; since the repair "the table reader must not allocate a block buffer from an unchecked block
     handle" readRawBlock first tests the handle against the file size and answers corruption: Corrupt.
     (approx, crafted files only) the repaired code also refuses a block that lies inside the file but
     overlaps the footer; the model reads it and decides by checksum and type byte. *)
  Definition read_raw_block (file : bytes) (h : bhandle) (verify : bool) : res bytes :=
    let n := bh_len h in
    if two63 <=? n + tp_trailerLen tp then Corrupt
    else
      let raw := sliceN (bh_off h) (bh_off h + n + tp_trailerLen tp) file in
      if lenN raw <? n + tp_trailerLen tp then Corrupt
      else if verify && negb (le_decode (dropN (n + 1) raw) =? crc (takeN (n + 1) raw)) then Corrupt
      else
        let ty := nth (N.to_nat n) raw 0 in
        if ty =? tp_typeNone tp then Ok (takeN n raw)
        else if ty =? tp_typeSnappy tp then
          match decompress (takeN n raw) with Some d => Ok d | None => Corrupt end
        else Corrupt.

  Definition bind_res {A B} (r : res A) (f : A -> res B) : res B :=
    match r with Ok a => f a | Corrupt => Corrupt | Panic => Panic end.

  (* Reader.readBlock *)
  Definition read_block_at (file : bytes) (h : bhandle) (verify : bool) : res block :=
    bind_res (read_raw_block file h verify) read_block.

  (* Reader.readFilterBlock: the trailer checks, then the contains function of the block *)
  Definition read_filter_block (file : bytes) (h : bhandle) : option (N -> bytes -> bool) :=
    match read_raw_block file h true with
    | Ok data =>
        let n := lenN data in
        if n <? 5 then None
        else
          let m := n - 5 in
          let oOffset := le_decode (sliceN m (m + 4) data) in
          if m <? oOffset then None else Some (fcontains data)
    | _ => None
    end.

  (* the metaindex scan of NewReader: the first "filter.<name>" entry whose name is the reader's
     filter and whose handle decodes gives (filterBH, dataEnd) *)
  Fixpoint meta_scan (fuel : nat) (it : biter) (fname : bytes) : option bhandle :=
    match fuel with
    | O => None
    | S f =>
        let '(ok, it') := bi_next it in
        if negb ok then None
        else if starts_with filter_prefix (bi_key it') && beq (dropN (lenN filter_prefix) (bi_key it')) fname then
          match decode_bh (bi_value it') with
          | BhOk h _ => Some h
          | _ => meta_scan f it' fname        (* n == 0: continue *)
          end
        else meta_scan f it' fname
    end.

  Definition tr_broken (r : res block) : treader := mkTR r (fun _ => Corrupt) None 0.

  (* NewReader(f, size, fd, cache, bpool, o): [fname] = name of o.GetFilter() if any;
     [verify] = o.GetStrict(StrictBlockChecksum).  A reader with r.err set is a reader whose
     index is Corrupt. *)
  Definition open_table (c : comparer) (file : bytes) (fname : option bytes) (verify : bool) : treader :=
    let size := lenN file in
    if size <? tp_footerLen tp then tr_broken Corrupt
    else
      let footer := dropN (size - tp_footerLen tp) file in
      if negb (beq (dropN (tp_footerLen tp - lenN (tp_magic tp)) footer) (tp_magic tp)) then tr_broken Corrupt
      else
        match decode_bh footer with
        | BhBad => tr_broken Corrupt
        | BhPanic => tr_broken Panic
        | BhOk metaBH n =>
            match decode_bh (dropN n footer) with
            | BhBad => tr_broken Corrupt
            | BhPanic => tr_broken Panic
            | BhOk indexBH _ =>
                match read_block_at file metaBH true with
                | Corrupt => tr_broken Corrupt
                | Panic => tr_broken Panic
                | Ok metaBlock =>
                    let mit := new_block_iter c metaBlock None true in
                    let filterBH :=
                      match fname with
                      | Some name => meta_scan (bi_fuel mit) mit name
                      | None => None
                      end in
                    let dataEnd := match filterBH with Some h => bh_off h | None => bh_off metaBH end in
                    let filt := match filterBH with Some h => read_filter_block file h | None => None end in
                    mkTR (read_block_at file indexBH true)
                         (fun h => read_block_at file h verify)
                         filt dataEnd
                end
            end
        end.

  (* ---------------------------------------------------------------- (W) writer *)
  (* Writer.writeBlock: (bytes appended to the file, handle); [snappy] = compression setting *)
  Definition write_block (offset : N) (content : bytes) (snappy : bool) : bytes * bhandle :=
    let b := if snappy then compress content ++ [tp_typeSnappy tp] else content ++ [tp_typeNone tp] in
    (b ++ le32 (crc b), mkBH offset (lenN b - 1)).

  Record twriter := mkTW {
    tw_out : bytes;                          (* everything written so far; offset = its length *)
    tw_data : bwriter;                       (* dataBlock *)
    tw_index : bwriter;                      (* indexBlock (restart interval 1) *)
    tw_pending : bhandle;                    (* pendingBH; length 0 = none *)
    tw_n : N;                                (* nEntries *)
    tw_curkeys : list bytes;                 (* keys of the data block being built (reversed) *)
    tw_fblocks : list (N * list bytes)       (* (offset, keys) of the finished data blocks (reversed) *)
  }.

  Variable c : comparer.
  Variable blockSize : N.
  Variable ri : N.
  Variable snappy : bool.
  (* the filter: name and the generator of the filter block content from the data blocks *)
  Variable fgen : option (bytes * (list (N * list bytes) -> bytes)).

  Definition tw_empty : twriter := mkTW [] bw_empty bw_empty (mkBH 0 0) 0 [] [].

  (* flushPendingBH(key); [key] = None is Close's flushPendingBH(nil).  Note the Go test is
     len(key) == 0, so an empty next key also selects Successor. *)
  Definition tw_flush_pending (w : twriter) (key : bytes) : twriter :=
    if bh_len (tw_pending w) =? 0 then w
    else
      let prevKey := bw_prev (tw_data w) in
      let sepo := match key with [] => succ c prevKey | _ => sep c prevKey key end in
      let separator := match sepo with Some s => s | None => prevKey end in
      mkTW (tw_out w)
           (mkBW (bw_buf (tw_data w)) (bw_n (tw_data w)) [] (bw_restarts (tw_data w)))
           (bw_append 1 (tw_index w) separator (encode_bh (tw_pending w)))
           (mkBH 0 0) (tw_n w) (tw_curkeys w) (tw_fblocks w).

  (* finishBlock *)
  Definition tw_finish_block (w : twriter) : twriter :=
    let content := bw_finish (tw_data w) in
    let '(bytes_, bh) := write_block (lenN (tw_out w)) content snappy in
    mkTW (tw_out w ++ bytes_) (bw_reset (tw_data w)) (tw_index w) bh (tw_n w)
         [] ((lenN (tw_out w), rev (tw_curkeys w)) :: tw_fblocks w).

  (* Append; None = "keys are not in increasing order" *)
  Definition tw_append (w : twriter) (key value : bytes) : option twriter :=
    if (0 <? tw_n w) && negb (match cmp c (bw_prev (tw_data w)) key with Lt => true | _ => false end) then None
    else
      let w1 := tw_flush_pending w key in
      let w2 := mkTW (tw_out w1) (bw_append ri (tw_data w1) key value) (tw_index w1) (tw_pending w1)
                     (tw_n w1) (key :: tw_curkeys w1) (tw_fblocks w1) in
      let w3 := if blockSize <=? bw_bytes_len (tw_data w2) then tw_finish_block w2 else w2 in
      Some (mkTW (tw_out w3) (tw_data w3) (tw_index w3) (tw_pending w3) (tw_n w3 + 1) (tw_curkeys w3) (tw_fblocks w3)).

  Fixpoint tw_append_all (w : twriter) (kvs : list (bytes * bytes)) : option twriter :=
    match kvs with
    | [] => Some w
    | (k, v) :: r => match tw_append w k v with Some w' => tw_append_all w' r | None => None end
    end.

  (* Close: the complete file *)
  Definition tw_close (w : twriter) : bytes :=
    let w1 := if (0 <? bw_n (tw_data w)) || (tw_n w =? 0) then tw_finish_block w else w in
    let w2 := tw_flush_pending w1 [] in
    (* filter block *)
    let '(out3, filterBH) :=
      match fgen with
      | Some (_, gen) =>
          let content := gen (rev (tw_fblocks w2)) in
          if 0 <? lenN content then
            let '(bs, bh) := write_block (lenN (tw_out w2)) content false in (tw_out w2 ++ bs, bh)
          else (tw_out w2, mkBH 0 0)
      | None => (tw_out w2, mkBH 0 0)
      end in
    (* metaindex block (the data block writer is reused) *)
    let mw :=
      match fgen with
      | Some (name, _) =>
          if 0 <? bh_len filterBH
          then bw_append ri (tw_data w2) (filter_prefix ++ name) (encode_bh filterBH)
          else tw_data w2
      | None => tw_data w2
      end in
    let '(mbytes, metaBH) := write_block (lenN out3) (bw_finish mw) snappy in
    let out4 := out3 ++ mbytes in
    (* index block *)
    let '(ibytes, indexBH) := write_block (lenN out4) (bw_finish (tw_index w2)) snappy in
    let out5 := out4 ++ ibytes in
    (* footer *)
    let handles := encode_bh metaBH ++ encode_bh indexBH in
    let pad := repeat 0 (N.to_nat (tp_footerLen tp - lenN (tp_magic tp) - lenN handles)) in
    out5 ++ handles ++ pad ++ tp_magic tp.

  Definition twrite (kvs : list (bytes * bytes)) : option bytes :=
    option_map tw_close (tw_append_all tw_empty kvs).
End Bytes.
