(* Codec/IKey.v — model of leveldb/key.go (internal keys) and leveldb/comparer.go (iComparer).
   Model file: definitions only. *)
From GL Require Export Base.Order.

(* constants of key.go, supplied by Gen/Consts.v through an instance *)
Record kparams := {
  keyTypeDel : N; keyTypeVal : N; keyTypeSeek : N;
  keyMaxSeq : N; keyMaxNum : N
}.

Definition kparams_ok (p : kparams) : Prop :=
  keyTypeDel p <= keyTypeSeek p /\ keyTypeVal p <= keyTypeSeek p /\
  keyTypeDel p <> keyTypeVal p /\
  keyTypeSeek p < 256 /\
  keyMaxSeq p = 2 ^ 56 - 1 /\
  keyMaxNum p = keyMaxSeq p * 256 + keyTypeSeek p.

(* an internal key, parsed: user key and packed trailer num = seq<<8 | kind *)
Record ikey := { uk : bytes; num : N }.

Definition pack (seq kind : N) : N := seq * 256 + kind.
Definition ik_seq (k : ikey) : N := num k / 256.
Definition ik_kind (k : ikey) : N := num k mod 256.

Inductive mk_result := MkOk (k : ikey) | MkPanic.
(* makeInternalKey: panics on seq > keyMaxSeq or kind > keyTypeVal *)
Definition make_ikey (p : kparams) (u : bytes) (seq kind : N) : mk_result :=
  if keyMaxSeq p <? seq then MkPanic
  else if keyTypeVal p <? kind then MkPanic
  else MkOk {| uk := u; num := pack seq kind |}.

Definition encode_ikey (k : ikey) : bytes := uk k ++ le64 (num k).

(* internalKey.ukey()/num(): panic (None) when shorter than 8 bytes *)
Definition split_ikey (b : bytes) : option ikey :=
  if Nat.ltb (length b) 8 then None
  else Some {| uk := droplast 8 b; num := le_decode (lastn 8 b) |}.

(* parseInternalKey: additionally rejects kind > keyTypeVal *)
Definition parse_ikey (p : kparams) (b : bytes) : option (bytes * N * N) :=
  match split_ikey b with
  | None => None
  | Some k => if keyTypeVal p <? ik_kind k then None else Some (uk k, ik_seq k, ik_kind k)
  end.

Section WithComparer.
  Variable c : comparer.

  (* iComparer.Compare: user key ascending, then num descending *)
  Definition icmp (a b : ikey) : comparison :=
    match cmp c (uk a) (uk b) with
    | Eq => N.compare (num b) (num a)
    | r => r
    end.

  (* iComparer.Separator / Successor: accept the user comparer's answer only if it is
     strictly shorter than ua and strictly greater; then append keyMaxNum *)
  Definition isep (p : kparams) (a b : ikey) : option ikey :=
    match sep c (uk a) (uk b) with
    | Some d => if Nat.ltb (length d) (length (uk a)) && ltb c (uk a) d
                then Some {| uk := d; num := keyMaxNum p |} else None
    | None => None
    end.

  Definition isucc (p : kparams) (b : ikey) : option ikey :=
    match succ c (uk b) with
    | Some d => if Nat.ltb (length d) (length (uk b)) && ltb c (uk b) d
                then Some {| uk := d; num := keyMaxNum p |} else None
    | None => None
    end.

  (* the byte-level functions as the Go code sees them (None = panic in assert()) *)
  Definition icmp_bytes (a b : bytes) : option comparison :=
    match split_ikey a, split_ikey b with
    | Some x, Some y => Some (icmp x y)
    | _, _ => None
    end.
  Definition isep_bytes (p : kparams) (a b : bytes) : option (option bytes) :=
    match split_ikey a, split_ikey b with
    | Some x, Some y => Some (option_map encode_ikey (isep p x y))
    | _, _ => None
    end.
  Definition isucc_bytes (p : kparams) (b : bytes) : option (option bytes) :=
    match split_ikey b with
    | Some y => Some (option_map encode_ikey (isucc p y))
    | _ => None
    end.
End WithComparer.

(* the lookup probe for "key k as of sequence s" *)
Definition probe (p : kparams) (k : bytes) (s : N) : ikey :=
  {| uk := k; num := pack s (keyTypeSeek p) |}.
