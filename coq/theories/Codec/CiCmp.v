(* Codec/CiCmp.v — the NON-INJECTIVE comparer of the harness (harness/lib/vlib/cmps.go CaseFold, id 4): bytewise order
   after mapping the ASCII letters 'A'..'Z' to 'a'..'z'; Separator/Successor never shorten.  Model file: definitions
   only. *)
From GL Require Export Base.Order Base.OrderPre Codec.BytesCmp.

Definition fold_byte (x : N) : N := if (65 <=? x) && (x <=? 90) then x + 32 else x.
Definition fold_case (a : bytes) : bytes := map fold_byte a.

Definition cicmp : comparer := mapped_cmp bytewise fold_case.
