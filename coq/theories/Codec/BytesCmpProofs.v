From GL Require Import Base.Order Base.OrderProofs Codec.BytesCmp.
From Coq Require Import ZArith Lia ZifyN ZifyNat ZifyBool.

Lemma bcompare_eq a b : bcompare a b = Eq <-> a = b.
Proof.
  revert b; induction a as [|x a IH]; intros [|y b]; cbn [bcompare]; split; try congruence; try reflexivity.
  - destruct (x ?= y) eqn:E; try discriminate. apply N.compare_eq in E. intros H. apply IH in H. congruence.
  - intros H. injection H as -> ->. rewrite N.compare_refl. apply IH. reflexivity.
Qed.

Lemma bcompare_opp a b : bcompare b a = CompOpp (bcompare a b).
Proof.
  revert b; induction a as [|x a IH]; intros [|y b]; cbn [bcompare]; try reflexivity.
  rewrite (N.compare_antisym x y). destruct (x ?= y); cbn; auto.
Qed.

Lemma bcompare_trans a b d : bcompare a b = Lt -> bcompare b d = Lt -> bcompare a d = Lt.
Proof.
  revert b d; induction a as [|x a IH]; intros [|y b] [|z d]; cbn [bcompare]; try congruence.
  destruct (x ?= y) eqn:E1; destruct (y ?= z) eqn:E2; try discriminate; intros H1 H2.
  - apply N.compare_eq in E1, E2. subst. rewrite N.compare_refl. eapply IH; eauto.
  - apply N.compare_eq in E1. subst. rewrite E2. reflexivity.
  - apply N.compare_eq in E2. subst. rewrite E1. reflexivity.
  - assert (x ?= z = Lt) as ->; [|reflexivity]. rewrite N.compare_lt_iff in *. lia.
Qed.

Lemma bsep_ok a b x : bsep a b = Some x -> bcompare a x <> Gt /\ bcompare x b = Lt.
Proof.
  revert b x; induction a as [|u a IH]; intros [|v b] x; cbn [bsep]; try discriminate.
  destruct (u =? v) eqn:E.
  - apply N.eqb_eq in E. subst v. destruct (bsep a b) as [d|] eqn:S; cbn; try discriminate.
    intros H; injection H as <-. destruct (IH _ _ S) as [H1 H2].
    cbn [bcompare]. rewrite N.compare_refl. auto.
  - destruct ((u <? 255) && (u + 1 <? v)) eqn:C; try discriminate.
    intros H; injection H as <-. cbn [bcompare].
    assert (u ?= u + 1 = Lt) as -> by (rewrite N.compare_lt_iff; lia).
    assert (u + 1 ?= v = Lt) as -> by (rewrite N.compare_lt_iff; lia).
    split; [discriminate|reflexivity].
Qed.

Lemma bsucc_ok b x : bsucc b = Some x -> bcompare b x <> Gt.
Proof.
  revert x; induction b as [|u b IH]; intros x; cbn [bsucc]; try discriminate.
  destruct (u =? 255).
  - destruct (bsucc b) as [d|] eqn:S; cbn; try discriminate.
    intros H; injection H as <-. cbn [bcompare]. rewrite N.compare_refl. apply IH. reflexivity.
  - intros H; injection H as <-. cbn [bcompare].
    assert (u ?= u + 1 = Lt) as -> by (rewrite N.compare_lt_iff; lia). discriminate.
Qed.

Theorem bytewise_ok : comparer_ok bytewise.
Proof.
  constructor; cbn.
  - apply bcompare_eq.
  - apply bcompare_opp.
  - apply bcompare_trans.
  - intros a b x H. apply bsep_ok. exact H.
  - apply bsucc_ok.
Qed.

(* ---- shortlex ---- *)
Lemma bcompare_eq_len a b : bcompare a b = Eq -> length a = length b.
Proof. intros H. apply bcompare_eq in H. congruence. Qed.

Theorem shortlex_ok : comparer_ok shortlex.
Proof.
  constructor; cbn; unfold shortlex_cmp.
  - intros a b. destruct (Nat.compare (length a) (length b)) eqn:E.
    + apply bcompare_eq.
    + split; [discriminate|]. intros ->. rewrite Nat.compare_refl in E. discriminate.
    + split; [discriminate|]. intros ->. rewrite Nat.compare_refl in E. discriminate.
  - intros a b. rewrite (Nat.compare_antisym (length a) (length b)).
    destruct (Nat.compare (length a) (length b)); cbn; auto. apply bcompare_opp.
  - intros a b d.
    destruct (Nat.compare (length a) (length b)) eqn:E1;
    destruct (Nat.compare (length b) (length d)) eqn:E2; try discriminate; intros H1 H2.
    + apply Nat.compare_eq in E1, E2. rewrite E1, E2, Nat.compare_refl. eapply bcompare_trans; eauto.
    + apply Nat.compare_eq in E1. rewrite E1, E2. reflexivity.
    + apply Nat.compare_eq in E2. rewrite <- E2, E1. reflexivity.
    + assert (Nat.compare (length a) (length d) = Lt) as ->; [|reflexivity].
      rewrite Nat.compare_lt_iff in *. lia.
  - discriminate.
  - discriminate.
Qed.

(* ---- xor comparers ---- *)
Lemma xmap_invol m a : xmap m (xmap m a) = a.
Proof.
  unfold xmap. rewrite map_map. rewrite <- (map_id a) at 2. apply map_ext.
  intros x. rewrite N.lxor_assoc, N.lxor_nilpotent, N.lxor_0_r. reflexivity.
Qed.

Lemma xmap_inj m a b : xmap m a = xmap m b -> a = b.
Proof. intros H. rewrite <- (xmap_invol m a), <- (xmap_invol m b). congruence. Qed.

Theorem xorcmp_ok m : comparer_ok (xorcmp m).
Proof.
  constructor; cbn.
  - intros a b. rewrite bcompare_eq. split; [apply xmap_inj | congruence].
  - intros a b. apply bcompare_opp.
  - intros a b d. apply bcompare_trans.
  - intros a b x H. destruct (bsep (xmap m a) (xmap m b)) as [y|] eqn:S; cbn in H; try discriminate.
    injection H as <-. rewrite xmap_invol. apply bsep_ok. exact S.
  - intros b x H. destruct (bsucc (xmap m b)) as [y|] eqn:S; cbn in H; try discriminate.
    injection H as <-. rewrite xmap_invol. apply bsucc_ok. exact S.
Qed.
