(* Codec/JournalWriterProofs.v — the writer model computes the rendering of the layout:
     jwrite_res fl rs = WOk s  with  w_out s = render_lay (layout rs)
   for every record list and every flush pattern (so the writer never panics, never runs out
   of fuel, and its output does not depend on where Flush is called). *)
From GL Require Import Base.Bytes Base.BytesProofs Codec.Journal Codec.JournalSpec Codec.JournalLemmas
  Codec.JournalLayoutProofs.
From Coq Require Import Lia ZifyN ZifyNat ZifyBool.

Section WriterProofs.
  Variable crc : bytes -> N.
  Variable p : jparams.
  Hypothesis pok : jparams_ok p.

  Lemma whs7 : hs p = 7.
  Proof. apply pok. Qed.
  Lemma whs_lt_bs : hs p < bs p.
  Proof. apply pok. Qed.

  Lemma lenN_render_chunk c : lenN (render_chunk crc c) = csize p c.
  Proof.
    unfold render_chunk, csize. rewrite !lenN_app, !lenN_le_encode, lenN_cons, lenN_nil.
    rewrite whs7. lia.
  Qed.

  Lemma lenN_render_chunks cs : lenN (render_chunks crc cs) = bsize p cs.
  Proof.
    induction cs as [|c cs IH]; [reflexivity|].
    unfold render_chunks in *. cbn [flat_map bsize]. rewrite lenN_app, lenN_render_chunk, IH. reflexivity.
  Qed.

  Lemma render_chunks_app a b :
    render_chunks crc (a ++ b) = render_chunks crc a ++ render_chunks crc b.
  Proof. unfold render_chunks. apply flat_map_app. Qed.

  Lemma bsize_app a b : bsize p (a ++ b) = bsize p a + bsize p b.
  Proof. induction a as [|c a IH]; cbn [app bsize]; [reflexivity|]. rewrite IH. lia. Qed.

  (* overwriting a segment of a list given as a concatenation *)
  Lemma put_at (A X Z Y : bytes) pos :
    pos = lenN A -> lenN Y = lenN X -> put (A ++ X ++ Z) pos Y = A ++ Y ++ Z.
  Proof.
    intros -> HY. unfold put. rewrite takeN_app_exact by reflexivity. f_equal. f_equal.
    rewrite app_assoc. apply dropN_app_exact. rewrite lenN_app. lia.
  Qed.

  Lemma split3 (l : bytes) a b :
    l = takeN a l ++ takeN b (dropN a l) ++ dropN (a + b) l.
  Proof.
    rewrite <- (takeN_dropN a l) at 1. f_equal.
    rewrite <- (takeN_dropN b (dropN a l)) at 1. f_equal.
    rewrite dropN_dropN. f_equal. lia.
  Qed.

  (* ---- fillHeader *)
  Lemma fillHeader_ok s last d :
    lenN (w_buf s) = bs p -> w_j s <= bs p -> w_j s = w_i s + hs p + lenN d ->
    takeN (lenN d) (dropN (w_i s + hs p) (w_buf s)) = d ->
    exists b',
      fillHeader crc p last s = WOk (set_buf s b') /\ lenN b' = bs p /\
      takeN (w_j s) b' =
        takeN (w_i s) (w_buf s) ++
        render_chunk crc (mk (if last then last_type p (w_first s) else nonlast_type p (w_first s)) d) /\
      dropN (w_j s) b' = dropN (w_j s) (w_buf s).
  Proof.
    intros Hlen Hj Hji Hd. pose proof whs7 as H7.
    unfold fillHeader.
    replace ((w_j s <? w_i s + hs p) || (bs p <? w_j s)) with false by lia.
    set (t := if last then if w_first s then tFull p else tLast p
              else if w_first s then tFirst p else tMiddle p).
    assert (Et : (if last then last_type p (w_first s) else nonlast_type p (w_first s)) = t)
      by (unfold t, last_type, nonlast_type; destruct last; reflexivity).
    rewrite Et.
    set (buf := w_buf s) in *. set (i := w_i s) in *. set (j := w_j s) in *.
    set (A := takeN i buf).
    set (H := takeN 7 (dropN i buf)).
    set (Z := dropN j buf).
    assert (LA : lenN A = i) by (unfold A; rewrite lenN_takeN; lia).
    assert (LH : lenN H = 7) by (unfold H; rewrite lenN_takeN, lenN_dropN; lia).
    assert (Ebuf : buf = A ++ H ++ d ++ Z).
    { rewrite (split3 buf i 7) at 1. fold A H. f_equal. f_equal.
      rewrite (split3 (dropN (i + 7) buf) 0 (lenN d)). rewrite takeN_0, dropN_0. cbn [app].
      rewrite dropN_dropN. replace (i + 7) with (i + hs p) by lia. rewrite Hd. f_equal.
      unfold Z. f_equal. lia. }
    set (h4 := takeN 4 H). set (h2 := takeN 2 (dropN 4 H)). set (h1 := dropN 6 H).
    assert (EH : H = h4 ++ h2 ++ h1).
    { rewrite (split3 H 4 2) at 1. reflexivity. }
    assert (L4 : lenN h4 = 4) by (unfold h4; rewrite lenN_takeN; lia).
    assert (L2 : lenN h2 = 2) by (unfold h2; rewrite lenN_takeN, lenN_dropN; lia).
    assert (L1 : lenN h1 = 1) by (unfold h1; rewrite lenN_dropN; lia).
    (* type byte *)
    assert (E1 : put buf (i + 6) [t] = (A ++ h4 ++ h2) ++ [t] ++ d ++ Z).
    { rewrite Ebuf, EH.
      replace (A ++ (h4 ++ h2 ++ h1) ++ d ++ Z) with ((A ++ h4 ++ h2) ++ h1 ++ d ++ Z)
        by (rewrite <- !app_assoc; reflexivity).
      apply put_at; [rewrite !lenN_app; lia | rewrite L1; reflexivity]. }
    rewrite E1.
    assert (Lb1 : lenN ((A ++ h4 ++ h2) ++ [t] ++ d ++ Z) = bs p).
    { rewrite <- E1. rewrite lenN_put; [exact Hlen|]. rewrite lenN_cons, lenN_nil. lia. }
    assert (LZ : lenN Z = bs p - j) by (unfold Z; rewrite lenN_dropN; lia).
    (* checksummed body *)
    assert (Es : slice ((A ++ h4 ++ h2) ++ [t] ++ d ++ Z) (i + 6) j = Some (t :: d)).
    { rewrite slice_some by lia. f_equal.
      rewrite dropN_app_exact by (rewrite !lenN_app; lia).
      replace ([t] ++ d ++ Z) with ((t :: d) ++ Z) by reflexivity.
      apply takeN_app_exact. rewrite lenN_cons. lia. }
    rewrite Es.
    set (c4 := le_encode 4 (cksum crc (t :: d))).
    set (c2 := le_encode 2 ((j - i - hs p) mod 65536)).
    assert (Lc4 : lenN c4 = 4) by (unfold c4; rewrite lenN_le_encode; reflexivity).
    assert (Lc2 : lenN c2 = 2) by (unfold c2; rewrite lenN_le_encode; reflexivity).
    assert (E2 : put ((A ++ h4 ++ h2) ++ [t] ++ d ++ Z) (i + 0) c4 = A ++ c4 ++ h2 ++ [t] ++ d ++ Z).
    { replace ((A ++ h4 ++ h2) ++ [t] ++ d ++ Z) with (A ++ h4 ++ (h2 ++ [t] ++ d ++ Z))
        by (rewrite <- !app_assoc; reflexivity).
      apply put_at; lia. }
    rewrite E2.
    assert (E3 : put (A ++ c4 ++ h2 ++ [t] ++ d ++ Z) (i + 4) c2 = (A ++ c4) ++ c2 ++ [t] ++ d ++ Z).
    { replace (A ++ c4 ++ h2 ++ [t] ++ d ++ Z) with ((A ++ c4) ++ h2 ++ ([t] ++ d ++ Z))
        by (rewrite <- !app_assoc; reflexivity).
      apply put_at; [rewrite lenN_app; lia | lia]. }
    rewrite E3.
    eexists. split; [reflexivity|].
    assert (Er : render_chunk crc (mk t d) = c4 ++ c2 ++ [t] ++ d).
    { unfold render_chunk, mk; cbn [c_type c_data]. fold c4. unfold c2.
      replace (j - i - hs p) with (lenN d) by lia. reflexivity. }
    rewrite Er.
    replace ((A ++ c4) ++ c2 ++ [t] ++ d ++ Z) with ((A ++ c4 ++ c2 ++ [t] ++ d) ++ Z)
      by (rewrite <- !app_assoc; reflexivity).
    assert (Lpre : lenN (A ++ c4 ++ c2 ++ [t] ++ d) = j).
    { rewrite !lenN_app, lenN_cons, lenN_nil. lia. }
    split; [rewrite lenN_app; lia|]. split.
    - apply takeN_app_exact. exact Lpre.
    - apply dropN_app_exact. exact Lpre.
  Qed.

  (* ---- the relation between a writer state and a layout with an optional pending chunk *)
  Definition fin (l : lay) (pend : option (bool * bytes)) : lay :=
    match pend with
    | Some (f, d) => lay_push l (mk (last_type p f) d)
    | None => l
    end.

  (* "finalised" states: everything up to j is rendered chunks of the open block *)
  Definition WRelF (l : lay) (s : wstate) : Prop :=
    lenN (w_buf s) = bs p /\ w_j s <= bs p /\
    w_j s = bsize p (l_open l) /\
    takeN (w_j s) (w_buf s) = render_chunks crc (l_open l) /\
    w_written s <= w_j s /\
    w_out s = flat_map (render_closed crc p) (l_closed l) ++ takeN (w_written s) (w_buf s).

  (* a chunk is pending: header space reserved at i, payload d copied behind it *)
  Definition WRelP (l : lay) (f : bool) (d : bytes) (s : wstate) : Prop :=
    lenN (w_buf s) = bs p /\ w_j s <= bs p /\
    w_pending s = true /\ w_first s = f /\
    w_i s = bsize p (l_open l) /\ w_j s = w_i s + hs p + lenN d /\
    takeN (w_i s) (w_buf s) = render_chunks crc (l_open l) /\
    takeN (lenN d) (dropN (w_i s + hs p) (w_buf s)) = d /\
    w_written s <= w_i s /\
    w_out s = flat_map (render_closed crc p) (l_closed l) ++ takeN (w_written s) (w_buf s).

  Definition WRel (l : lay) (pend : option (bool * bytes)) (s : wstate) : Prop :=
    match pend with
    | Some (f, d) => WRelP l f d s
    | None => w_pending s = false /\ WRelF l s
    end.

  Lemma takeN_prefix_eq (a b : bytes) n m :
    n <= m -> takeN m a = takeN m b -> takeN n a = takeN n b.
  Proof.
    intros H E. replace n with (N.min n m) by lia. rewrite <- !takeN_takeN, E. reflexivity.
  Qed.

  (* fillHeader turns a pending state into a finalised one (flags aside) *)
  Lemma fill_last l f d s :
    WRelP l f d s ->
    exists b', fillHeader crc p true s = WOk (set_buf s b') /\
               WRelF (lay_push l (mk (last_type p f) d)) (set_buf s b').
  Proof.
    intros (Hlen & Hj & Hp & Hf & Hi & Hji & HA & Hd & Hw & Hout).
    destruct (fillHeader_ok s true d Hlen Hj Hji Hd) as (b' & E & Lb & Et & Ed).
    exists b'. split; [exact E|]. unfold WRelF, set_buf; cbn [w_buf w_j w_written w_out lay_push l_open l_closed].
    rewrite Hf in Et.
    split; [exact Lb|]. split; [exact Hj|]. split.
    { rewrite bsize_app. cbn [bsize]. unfold csize, mk; cbn [c_data]. lia. }
    split. { rewrite Et, HA, render_chunks_app. unfold render_chunks at 3. cbn [flat_map]. now rewrite app_nil_r. }
    split; [lia|]. rewrite Hout. f_equal.
    apply (takeN_prefix_eq _ _ _ (w_i s)); [exact Hw|].
    apply (f_equal (takeN (w_i s))) in Et. rewrite takeN_takeN in Et.
    replace (N.min (w_i s) (w_j s)) with (w_i s) in Et by lia. rewrite Et.
    rewrite takeN_app_exact; [reflexivity|]. rewrite lenN_takeN. lia.
  Qed.

  (* ---- writePending (Flush, Close) *)
  Lemma writePending_ok l pend s :
    WRel l pend s ->
    exists s', writePending crc p s = WOk s' /\ WRel (fin l pend) None s' /\ w_written s' = w_j s'.
  Proof.
    intros R. unfold writePending.
    assert (exists s1, (if w_pending s
              then wbind (fillHeader crc p true s) (fun s1 =>
                     WOk {| w_buf := w_buf s1; w_i := w_i s1; w_j := w_j s1; w_written := w_written s1;
                            w_first := w_first s1; w_pending := false; w_out := w_out s1 |})
              else WOk s) = WOk s1 /\ w_pending s1 = false /\ WRelF (fin l pend) s1) as (s1 & E1 & P1 & R1).
    { destruct pend as [[f d]|]; cbn [WRel fin] in *.
      - pose proof R as (_ & _ & Hp & _). rewrite Hp.
        destruct (fill_last l f d s R) as (b' & E & RF). rewrite E. cbn [wbind].
        eexists. split; [reflexivity|]. split; [reflexivity|]. exact RF.
      - destruct R as (Hp & RF). rewrite Hp. exists s. auto. }
    rewrite E1. cbn [wbind].
    destruct R1 as (Hlen & Hj & Hjb & HA & Hw & Hout).
    rewrite slice_some by lia.
    eexists. split; [reflexivity|]. split; [|reflexivity].
    cbn [WRel]. split; [exact P1|].
    unfold WRelF; cbn [w_buf w_j w_written w_out].
    repeat split; try assumption; try lia.
    rewrite Hout, <- app_assoc. f_equal.
    rewrite <- (takeN_dropN (w_written s1) (takeN (w_j s1) (w_buf s1))).
    rewrite takeN_takeN, dropN_takeN. replace (N.min (w_written s1) (w_j s1)) with (w_written s1) by lia.
    reflexivity.
  Qed.

  Lemma finalize_ok l pend s :
    WRel l pend s ->
    exists s1, (if w_pending s then fillHeader crc p true s else WOk s) = WOk s1 /\
               WRelF (fin l pend) s1.
  Proof.
    intros R. destruct pend as [[f d]|]; cbn [WRel fin] in *.
    - pose proof R as (_ & _ & Hp & _). rewrite Hp.
      destruct (fill_last l f d s R) as (b' & E & RF). rewrite E. eexists. split; [reflexivity|exact RF].
    - destruct R as (Hp & RF). rewrite Hp. exists s. auto.
  Qed.

  Lemma flat_map_snoc {A B} (f : A -> list B) l x : flat_map f (l ++ [x]) = flat_map f l ++ f x.
  Proof. rewrite flat_map_app. cbn [flat_map]. now rewrite app_nil_r. Qed.

  (* ---- Next *)
  Lemma wNext_ok l pend s :
    WRel l pend s ->
    exists s', wNext crc p s = WOk s' /\ WRelP (lay_next p (fin l pend)) true [] s'.
  Proof.
    intros R. pose proof whs7 as H7. pose proof whs_lt_bs as Hb.
    unfold wNext. destruct (finalize_ok l pend s R) as (s1 & E1 & RF). rewrite E1. cbn [wbind].
    set (L := fin l pend) in *.
    destruct RF as (Hlen & Hj & Hjb & HA & Hw & Hout).
    unfold lay_next. rewrite <- Hjb.
    destruct (bs p <? w_j s1 + hs p) eqn:Eb.
    - cbn [w_buf w_i w_j set_buf].
      set (buf2 := put (w_buf s1) (w_j s1) (zeros (bs p - w_j s1))).
      assert (E2 : buf2 = render_closed crc p (l_open L)).
      { unfold buf2, put, render_closed. rewrite HA, lenN_zeros. rewrite <- Hjb.
        rewrite (dropN_all (w_j s1 + (bs p - w_j s1))) by lia. now rewrite app_nil_r. }
      assert (L2 : lenN buf2 = bs p).
      { unfold buf2. rewrite lenN_put; [exact Hlen|]. rewrite lenN_zeros. lia. }
      unfold writeBlock, set_buf. cbn [w_buf w_i w_j w_written w_out w_first w_pending].
      rewrite slice_some by lia. cbn [wbind].
      eexists. split; [reflexivity|].
      unfold WRelP; cbn [w_buf w_i w_j w_written w_first w_pending w_out lay_close l_open l_closed].
      rewrite L2. repeat split; try lia; try (unfold lenN; cbn [length]; lia).
      rewrite flat_map_snoc, Hout, <- app_assoc. rewrite takeN_0, app_nil_r. f_equal.
      rewrite <- E2.
      rewrite (takeN_all (bs p - w_written s1)) by (rewrite lenN_dropN; lia).
      rewrite <- (takeN_dropN (w_written s1) buf2) at 2. f_equal.
      apply (takeN_prefix_eq _ _ _ (w_j s1)); [exact Hw|].
      unfold buf2, put. rewrite takeN_app_exact; [reflexivity|]. rewrite lenN_takeN. lia.
    - cbn [wbind]. eexists. split; [reflexivity|].
      unfold WRelP; cbn [w_buf w_i w_j w_written w_first w_pending w_out].
      repeat split; try assumption; try lia; try (unfold lenN; cbn [length]; lia).
  Qed.

  (* ---- singleWriter.Write *)
  (* copying n more payload bytes behind the pending chunk *)
  Lemma wcopy_ok l f d s x :
    WRelP l f d s -> lenN x <= bs p - w_j s ->
    WRelP l f (d ++ x)
      {| w_buf := put (w_buf s) (w_j s) x; w_i := w_i s; w_j := w_j s + lenN x;
         w_written := w_written s; w_first := w_first s; w_pending := w_pending s;
         w_out := w_out s |}.
  Proof.
    intros (Hlen & Hj & Hp & Hf & Hi & Hji & HA & Hd & Hw & Hout) Hx.
    pose proof whs7 as H7.
    unfold WRelP; cbn [w_buf w_i w_j w_written w_first w_pending w_out].
    assert (Lt : lenN (takeN (w_j s) (w_buf s)) = w_j s) by (rewrite lenN_takeN; lia).
    assert (Epre : forall k, k <= w_j s -> takeN k (put (w_buf s) (w_j s) x) = takeN k (w_buf s)).
    { intros k Hk. unfold put. rewrite takeN_app_le by lia. rewrite takeN_takeN. f_equal. lia. }
    split; [rewrite lenN_put; lia|]. split; [lia|]. split; [exact Hp|]. split; [exact Hf|].
    split; [exact Hi|]. split; [rewrite lenN_app; lia|].
    split; [rewrite Epre by lia; exact HA|]. split.
    - unfold put. rewrite dropN_app_le by lia. rewrite dropN_takeN.
      replace (w_j s - (w_i s + hs p)) with (lenN d) by lia. rewrite Hd.
      rewrite app_assoc. apply takeN_app_exact. reflexivity.
    - split; [exact Hw|]. rewrite Hout. f_equal. symmetry. apply Epre. lia.
  Qed.

  (* the block is full: header of a first/middle chunk, block written out *)
  Lemma wflush_ok l f d s :
    WRelP l f d s -> w_j s = bs p ->
    exists s2,
      wbind (fillHeader crc p false s) (fun s1 =>
        wbind (writeBlock p s1) (fun s2 =>
          WOk {| w_buf := w_buf s2; w_i := w_i s2; w_j := w_j s2; w_written := w_written s2;
                 w_first := false; w_pending := w_pending s2; w_out := w_out s2 |})) = WOk s2 /\
      WRelP (lay_close (lay_push l (mk (nonlast_type p f) d))) false [] s2.
  Proof.
    intros R Hfull. pose proof R as (Hlen & Hj & Hp & Hf & Hi & Hji & HA & Hd & Hw & Hout).
    pose proof whs7 as H7. pose proof whs_lt_bs as Hb.
    destruct (fillHeader_ok s false d Hlen Hj Hji Hd) as (b' & E & Lb & Et & Ed).
    rewrite E. cbn [wbind]. unfold writeBlock, set_buf. cbn [w_buf w_i w_j w_written w_first w_pending w_out].
    rewrite slice_some by lia. cbn [wbind].
    eexists. split; [reflexivity|].
    unfold WRelP; cbn [w_buf w_i w_j w_written w_first w_pending w_out lay_close lay_push l_open l_closed].
    rewrite Lb. repeat split; try lia; try (unfold lenN; cbn [length]; lia); try assumption.
    rewrite flat_map_snoc, Hout, <- app_assoc. rewrite takeN_0, app_nil_r. f_equal.
    rewrite (takeN_all (bs p - w_written s)) by (rewrite lenN_dropN; lia).
    assert (Eb : b' = render_closed crc p (l_open l ++ [mk (nonlast_type p f) d])).
    { assert (Eb : bsize p (l_open l ++ [mk (nonlast_type p f) d]) = bs p).
      { rewrite bsize_app. cbn [bsize]. unfold csize, mk; cbn [c_data]. lia. }
      unfold render_closed. rewrite Eb. replace (bs p - bs p) with 0 by lia.
      change (zeros 0) with (@nil N). rewrite app_nil_r.
      rewrite render_chunks_app.
      unfold render_chunks at 2. cbn [flat_map]. rewrite app_nil_r.
      rewrite <- HA, <- Hf. rewrite <- Et. rewrite Hfull. symmetry. apply takeN_all. lia. }
    rewrite <- Eb.
    rewrite <- (takeN_dropN (w_written s) b') at 2. f_equal.
    apply (takeN_prefix_eq _ _ _ (w_i s)); [exact Hw|].
    apply (f_equal (takeN (w_i s))) in Et. rewrite takeN_takeN in Et.
    replace (N.min (w_i s) (w_j s)) with (w_i s) in Et by lia. rewrite Et.
    rewrite takeN_app_exact; [reflexivity|]. rewrite lenN_takeN. lia.
  Qed.

  Lemma wWrite_st_ok : forall fuel l f d s q,
    WRelP l f d s -> (length q <= fuel)%nat ->
    exists s' l' f' d',
      wWrite crc p fuel s q = WOk s' /\ WRelP l' f' d' s' /\
      (l', f', d') = lay_write_st p fuel l f d q.
  Proof.
    pose proof whs7 as H7. pose proof whs_lt_bs as Hb.
    induction fuel as [|fuel IH]; intros l f d s q R Hq.
    - destruct q; [|cbn in Hq; lia]. cbn. exists s, l, f, d. auto.
    - destruct q as [|x q].
      { cbn. exists s, l, f, d. auto. }
      cbn [wWrite lay_write_st].
      pose proof R as (Hlen & Hj & Hp & Hf & Hi & Hji & HA & Hd & Hw & Hout).
      replace (bsize p (l_open l) + hs p + lenN d) with (w_j s) by lia.
      destruct (w_j s =? bs p) eqn:Efull.
      + destruct (wflush_ok l f d s R) as (s2 & E2 & R2); [lia|]. rewrite E2. cbn [wbind].
        set (l1 := lay_close (lay_push l (mk (nonlast_type p f) d))) in *.
        pose proof R2 as (Hlen2 & Hj2 & Hp2 & Hf2 & Hi2 & Hji2 & HA2 & Hd2 & Hw2 & Hout2).
        assert (Lnil : lenN (@nil N) = 0) by reflexivity. rewrite Lnil in *.
        assert (Eo1 : bsize p (l_open l1) = 0) by reflexivity.
        replace (lenN (w_buf s2) <? w_j s2) with false by lia.
        replace (bsize p (l_open l1) + hs p + 0) with (w_j s2) by lia.
        rewrite Hlen2.
        set (n := N.min (bs p - w_j s2) (lenN (x :: q))).
        assert (Ln : lenN (takeN n (x :: q)) = n) by (rewrite lenN_takeN; lia).
        assert (n >= 1) by (unfold n; rewrite lenN_cons; lia).
        pose proof (wcopy_ok l1 false [] s2 (takeN n (x :: q)) R2 ltac:(lia)) as R3.
        rewrite Ln in R3. cbn [app] in R3.
        destruct (IH l1 false (takeN n (x :: q)) _ (dropN n (x :: q)) R3) as (s' & l' & f' & d' & E & R' & EL).
        { assert (L : lenN (dropN n (x :: q)) <= lenN (x :: q) - 1) by (rewrite lenN_dropN; lia).
          unfold lenN in L. cbn [length] in *. lia. }
        exists s', l', f', d'. split; [exact E|]. split; [exact R'|]. exact EL.
      + cbn [wbind].
        replace (lenN (w_buf s) <? w_j s) with false by lia.
        replace (bsize p (l_open l) + hs p + lenN d) with (w_j s) by lia.
        rewrite Hlen.
        set (n := N.min (bs p - w_j s) (lenN (x :: q))).
        assert (Ln : lenN (takeN n (x :: q)) = n) by (rewrite lenN_takeN; lia).
        assert (n >= 1) by (unfold n; rewrite lenN_cons; lia).
        pose proof (wcopy_ok l f d s (takeN n (x :: q)) R ltac:(lia)) as R3.
        rewrite Ln in R3.
        destruct (IH l f (d ++ takeN n (x :: q)) _ (dropN n (x :: q)) R3) as (s' & l' & f' & d' & E & R' & EL).
        { assert (L : lenN (dropN n (x :: q)) <= lenN (x :: q) - 1) by (rewrite lenN_dropN; lia).
          unfold lenN in L. cbn [length] in *. lia. }
        exists s', l', f', d'. split; [exact E|]. split; [exact R'|]. exact EL.
  Qed.

  Lemma WRelP_fits l f d s : WRelP l f d s -> fits p l d.
  Proof. intros (_ & Hj & _ & _ & Hi & Hji & _). unfold fits. lia. Qed.

  Lemma wWrite_ok : forall fuel l f d s q,
    WRelP l f d s -> (length q <= fuel)%nat ->
    exists s' l' f' d',
      wWrite crc p fuel s q = WOk s' /\ WRelP l' f' d' s' /\
      lay_push l' (mk (last_type p f') d') = lay_write p fuel l f d q.
  Proof.
    intros fuel l f d s q R Hq.
    destruct (wWrite_st_ok fuel l f d s q R Hq) as (s' & l' & f' & d' & E & R' & Est).
    exists s', l', f', d'. split; [exact E|]. split; [exact R'|].
    rewrite (lws_fin p pok fuel l f d q (WRelP_fits _ _ _ _ R) Hq), <- Est. reflexivity.
  Qed.

  (* several Write calls: the state reached is the one reached by one Write of the concatenation *)
  Lemma wWrites_ok : forall ps l f d s,
    WRelP l f d s ->
    exists s' l' f' d',
      wWrites crc p s ps = WOk s' /\ WRelP l' f' d' s' /\
      (l', f', d') = lay_write_st p (length (concat ps)) l f d (concat ps).
  Proof.
    induction ps as [|q ps IH]; intros l f d s R.
    - exists s, l, f, d. cbn. auto.
    - cbn [wWrites concat].
      destruct (wWrite_st_ok (length q) l f d s q R ltac:(lia)) as (s1 & l1 & f1 & d1 & E1 & R1 & Est1).
      rewrite E1. cbn [wbind].
      destruct (IH l1 f1 d1 s1 R1) as (s2 & l2 & f2 & d2 & E2 & R2 & Est2).
      exists s2, l2, f2, d2. split; [exact E2|]. split; [exact R2|].
      pose proof (WRelP_fits _ _ _ _ R) as Hfit. pose proof (WRelP_fits _ _ _ _ R1) as Hfit1.
      rewrite (lws_app p pok (length q) q ltac:(lia) (length (q ++ concat ps)) l f d (concat ps) Hfit ltac:(lia)).
      rewrite (lws_fuel p pok (length (q ++ concat ps)) (length q) l f d q Hfit)
        by (rewrite ?app_length; lia).
      rewrite <- Est1.
      rewrite (lws_fuel p pok (length (q ++ concat ps)) (length (concat ps)) l1 f1 d1 (concat ps) Hfit1)
        by (rewrite ?app_length; lia).
      exact Est2.
  Qed.

  (* ---- one record, all records *)
  Lemma wRecord_ok l pend s r fl :
    WRel l pend s ->
    exists s' l' pend',
      wRecord crc p s r fl = WOk s' /\ WRel l' pend' s' /\
      fin l' pend' = lay_record p (fin l pend) r.
  Proof.
    intros R. unfold wRecord.
    destruct (wNext_ok l pend s R) as (s1 & E1 & R1). rewrite E1. cbn [wbind].
    destruct (wWrite_ok (length r) _ true [] s1 r R1 ltac:(lia)) as (s2 & l2 & f2 & d2 & E2 & R2 & EL).
    rewrite E2. cbn [wbind].
    destruct fl.
    - destruct (writePending_ok l2 (Some (f2, d2)) s2 R2) as (s3 & E3 & R3 & _).
      unfold wFlush. rewrite E3. exists s3, (fin l2 (Some (f2, d2))), None.
      split; [reflexivity|]. split; [exact R3|]. cbn [fin]. exact EL.
    - exists s2, l2, (Some (f2, d2)). split; [reflexivity|]. split; [exact R2|]. cbn [fin]. exact EL.
  Qed.

  Lemma wRecords_ok rs : forall fl l pend s,
    WRel l pend s ->
    exists s' l' pend',
      wRecords crc p s fl rs = WOk s' /\ WRel l' pend' s' /\
      fin l' pend' = fold_left (lay_record p) rs (fin l pend).
  Proof.
    induction rs as [|r rs IH]; intros fl l pend s R.
    - exists s, l, pend. cbn. auto.
    - cbn [wRecords fold_left].
      destruct (wRecord_ok l pend s r (hd false fl) R) as (s1 & l1 & pend1 & E1 & R1 & EL1).
      rewrite E1. cbn [wbind].
      destruct (IH (tl fl) l1 pend1 s1 R1) as (s2 & l2 & pend2 & E2 & R2 & EL2).
      exists s2, l2, pend2. split; [exact E2|]. split; [exact R2|]. rewrite EL2, EL1. reflexivity.
  Qed.

  Lemma w_init_rel : WRel lay_empty None (w_init p).
  Proof.
    cbn [WRel]. split; [reflexivity|]. unfold WRelF, w_init, lay_empty; cbn.
    rewrite lenN_zeros. repeat split; try lia.
  Qed.

  Theorem writer_layout fl rs :
    exists s, jwrite_res crc p fl rs = WOk s /\ w_out s = render_lay crc p (layout p rs).
  Proof.
    unfold jwrite_res.
    destruct (wRecords_ok rs fl lay_empty None (w_init p) w_init_rel) as (s1 & l1 & pend1 & E1 & R1 & EL).
    rewrite E1. cbn [wbind]. unfold wClose.
    destruct (writePending_ok l1 pend1 s1 R1) as (s2 & E2 & R2 & Hw).
    exists s2. split; [exact E2|].
    cbn [WRel] in R2. destruct R2 as (_ & Hlen & Hj & Hjb & HA & _ & Hout).
    rewrite Hout, Hw, HA. unfold render_lay, layout. rewrite EL. reflexivity.
  Qed.

  Corollary jwrite_layout fl rs : jwrite crc p fl rs = render_lay crc p (layout p rs).
  Proof.
    unfold jwrite. destruct (writer_layout fl rs) as (s & E & Ho). rewrite E. exact Ho.
  Qed.

  (* ---- records written through several Write calls *)
  Lemma wRecordP_ok l pend s ps fl :
    WRel l pend s ->
    exists s' l' pend',
      wRecordP crc p s ps fl = WOk s' /\ WRel l' pend' s' /\
      fin l' pend' = lay_record p (fin l pend) (concat ps).
  Proof.
    intros R. unfold wRecordP.
    destruct (wNext_ok l pend s R) as (s1 & E1 & R1). rewrite E1. cbn [wbind].
    destruct (wWrites_ok ps _ true [] s1 R1) as (s2 & l2 & f2 & d2 & E2 & R2 & Est).
    rewrite E2. cbn [wbind].
    assert (EL : lay_push l2 (mk (last_type p f2) d2) = lay_record p (fin l pend) (concat ps)).
    { unfold lay_record. rewrite (lws_fin p pok (length (concat ps)) _ true [] (concat ps) (WRelP_fits _ _ _ _ R1) (le_n _)).
      rewrite <- Est. reflexivity. }
    destruct fl.
    - destruct (writePending_ok l2 (Some (f2, d2)) s2 R2) as (s3 & E3 & R3 & _).
      unfold wFlush. rewrite E3. exists s3, (fin l2 (Some (f2, d2))), None.
      split; [reflexivity|]. split; [exact R3|]. cbn [fin]. exact EL.
    - exists s2, l2, (Some (f2, d2)). split; [reflexivity|]. split; [exact R2|]. cbn [fin]. exact EL.
  Qed.

  Lemma wRecordsP_ok rss : forall fl l pend s,
    WRel l pend s ->
    exists s' l' pend',
      wRecordsP crc p s fl rss = WOk s' /\ WRel l' pend' s' /\
      fin l' pend' = fold_left (lay_record p) (map (@concat N) rss) (fin l pend).
  Proof.
    induction rss as [|ps rss IH]; intros fl l pend s R.
    - exists s, l, pend. cbn. auto.
    - cbn [wRecordsP fold_left map].
      destruct (wRecordP_ok l pend s ps (hd false fl) R) as (s1 & l1 & pend1 & E1 & R1 & EL1).
      rewrite E1. cbn [wbind].
      destruct (IH (tl fl) l1 pend1 s1 R1) as (s2 & l2 & pend2 & E2 & R2 & EL2).
      exists s2, l2, pend2. split; [exact E2|]. split; [exact R2|]. rewrite EL2, EL1. reflexivity.
  Qed.

  Theorem writer_pieces_layout fl rss :
    exists s, jwrite_pieces_res crc p fl rss = WOk s /\
              w_out s = render_lay crc p (layout p (map (@concat N) rss)).
  Proof.
    unfold jwrite_pieces_res.
    destruct (wRecordsP_ok rss fl lay_empty None (w_init p) w_init_rel) as (s1 & l1 & pend1 & E1 & R1 & EL).
    rewrite E1. cbn [wbind]. unfold wClose.
    destruct (writePending_ok l1 pend1 s1 R1) as (s2 & E2 & R2 & Hw).
    exists s2. split; [exact E2|].
    cbn [WRel] in R2. destruct R2 as (_ & Hlen & Hj & Hjb & HA & _ & Hout).
    rewrite Hout, Hw, HA. unfold render_lay, layout. rewrite EL. reflexivity.
  Qed.

  Corollary jwrite_pieces_layout fl rss :
    jwrite_pieces crc p fl rss = render_lay crc p (layout p (map (@concat N) rss)).
  Proof.
    unfold jwrite_pieces. destruct (writer_pieces_layout fl rss) as (s & E & Ho). rewrite E. exact Ho.
  Qed.
End WriterProofs.
