(* Codec/BatchGroupProofs.v — the journal record of a merged group (writeBatchesWithHeader) and its replay
   (decodeBatchToMem) against the live path (Batch.putMem of the group's batches in order).  Purely
   structural: both paths are the same sequence of makeInternalKey + memdb.Put calls, whatever the memdb
   does with them.  Proof file. *)
From GL Require Import Base.Bytes Base.BytesProofs Base.Varint Base.VarintProofs Codec.IKey Codec.Batch Codec.BatchProofs.
From GL Require Mem.MemDB.
From Coq Require Import Arith ZArith Lia ZifyN ZifyNat ZifyBool.
Open Scope N_scope.

Lemma u64_idem_l a b : u64 (u64 a + b) = u64 (a + b).
Proof. unfold u64. apply N.add_mod_idemp_l. lia. Qed.

Lemma lenN_le64 x : lenN (le64 x) = 8.
Proof. unfold lenN, le64. rewrite le_encode_length. reflexivity. Qed.

Section Header.
  Variable bhl : N.
  Hypothesis bhl12 : bhl = 12.

  (* ---------------- the header ---------------- *)
  Lemma header_roundtrip seq n body :
    seq < 2 ^ 64 -> n < 2 ^ 32 ->
    decode_header bhl (encode_header seq n ++ body) = inr (seq, n) /\
    dropN bhl (encode_header seq n ++ body) = body.
  Proof.
    intros Hs Hn. unfold decode_header, encode_header. rewrite bhl12.
    rewrite u64_small by exact Hs. rewrite u32_small by exact Hn.
    assert (L : lenN (le64 seq ++ le32 n) = 12) by (rewrite lenN_app, lenN_le64, lenN_le32; reflexivity).
    split.
    - replace (lenN ((le64 seq ++ le32 n) ++ body) <? 12) with false by (rewrite lenN_app, L; lia).
      f_equal. f_equal.
      + rewrite <- app_assoc. replace 8 with (lenN (le64 seq)) by apply lenN_le64.
        rewrite takeN_app. apply le64_roundtrip. exact Hs.
      + rewrite <- app_assoc.
        replace 8 with (lenN (le64 seq)) by apply lenN_le64.
        replace 12 with (lenN (le64 seq) + lenN (le32 n)) by (rewrite lenN_le64, lenN_le32; reflexivity).
        rewrite sliceN_app3. unfold le32. rewrite le_decode_encode.
        change (256 ^ N.of_nat 4) with (2 ^ 32). apply N.mod_small. exact Hn.
    - rewrite <- L. apply dropN_app.
  Qed.

  Lemma header_short data : lenN data < 12 -> decode_header bhl data = inl ETooShort.
  Proof. intros H. unfold decode_header. rewrite bhl12. replace (lenN data <? 12) with true by lia. reflexivity. Qed.

End Header.

Section Group.
  Variable p : kparams.
  Hypothesis pok : kparams_ok p.

  (* ---------------- a group of batches built by Put/Delete ---------------- *)
  Definition group_of (groups : list (list brec)) : list batch := map (batch_of p) groups.

  Lemma batches_len_from bs : forall n, fold_left (fun n b => n + batch_len b) bs n = n + batches_len bs.
  Proof.
    unfold batches_len. induction bs as [|b t IH]; intros n; cbn [fold_left]; [lia|].
    rewrite IH. rewrite (IH (0 + batch_len b)). lia.
  Qed.

  Lemma batches_len_cons b t : batches_len (b :: t) = batch_len b + batches_len t.
  Proof. unfold batches_len at 1. cbn [fold_left]. rewrite batches_len_from. lia. Qed.

  Lemma idxs_of_length recs : forall o, length (idxs_of p o recs) = length recs.
  Proof. induction recs as [|r t IH]; intros o; cbn [idxs_of length]; [reflexivity|]. f_equal. apply IH. Qed.

  Lemma batch_len_of recs : batch_len (batch_of p recs) = N.of_nat (length recs).
  Proof. rewrite batch_of_spec. unfold batch_len, lenN. cbn [b_index]. rewrite idxs_of_length. reflexivity. Qed.

  Lemma group_len groups : batches_len (group_of groups) = N.of_nat (length (concat groups)).
  Proof.
    induction groups as [|g t IH]; [reflexivity|].
    cbn [group_of map concat]. rewrite batches_len_cons. fold (group_of t). rewrite IH, batch_len_of, app_length. lia.
  Qed.

  Lemma group_data groups : concat (map b_data (group_of groups)) = enc_recs p (concat groups).
  Proof.
    induction groups as [|g t IH]; [reflexivity|].
    cbn [group_of map concat]. fold (group_of t). rewrite IH, batch_of_spec, enc_recs_app. reflexivity.
  Qed.

  (* ---------------- replay = live ---------------- *)
  Section Mem.
    Variable mc : comparer.
    Variable mp : MemDB.mparams.

    Local Notation put_one := (put_one p mc mp).

    Lemma putmem_recs_u64 recs : forall s d hs,
      putmem_recs p mc mp recs (u64 s) d hs = putmem_recs p mc mp recs s d hs.
    Proof.
      induction recs as [|[[kt k] v] t IH]; intros s d hs; [reflexivity|].
      cbn [putmem_recs]. replace (u64 (u64 s)) with (u64 s) by (unfold u64; rewrite N.mod_mod by lia; reflexivity).
      destruct (put_one d hs k (u64 s) kt v) as [d' hs'| |]; try reflexivity.
      rewrite <- (IH (u64 s + 1)), <- (IH (s + 1)). f_equal. apply u64_idem_l.
    Qed.

    Lemma putmem_recs_app a : forall b s d hs,
      putmem_recs p mc mp (a ++ b) s d hs =
      match putmem_recs p mc mp a s d hs with
      | PmOk d' hs' => putmem_recs p mc mp b (s + N.of_nat (length a)) d' hs'
      | e => e
      end.
    Proof.
      induction a as [|[[kt k] v] t IH]; intros b s d hs.
      - cbn [app putmem_recs length]. rewrite N.add_0_r. reflexivity.
      - cbn [app putmem_recs length]. destruct (put_one d hs k (u64 s) kt v) as [d' hs'| |]; try reflexivity.
        rewrite IH. destruct (putmem_recs p mc mp t (s + 1) d' hs'); try reflexivity. f_equal. lia.
    Qed.

    (* putMem walks the index of a batch: on a batch built from a record list it performs the record
       list's insertions *)
    Lemma putmem_idx_recs recs : forall pre post seq i d hs,
      Forall (rec_ok p) recs -> lenN (pre ++ enc_recs p recs ++ post) < 2 ^ 63 ->
      putmem_idx p mc mp (pre ++ enc_recs p recs ++ post) (idxs_of p (lenN pre) recs) seq i d hs =
      putmem_recs p mc mp (map (norm_rec p) recs) (seq + i) d hs.
    Proof.
      induction recs as [|[[kt k] v] t IH]; intros pre post seq i d hs Hok Hlen; [reflexivity|].
      inversion Hok as [|? ? Hr Ht]; subst.
      cbn [idxs_of putmem_idx map norm_rec putmem_recs]. rewrite enc_recs_cons in *. rewrite <- app_assoc in *.
      destruct (idx_k_rec p pok pre kt k v (enc_recs p t ++ post) Hr Hlen) as [Ek Ev]. rewrite Ek, Ev.
      assert (Ekt : bi_kt (rec_idx p (lenN pre) (kt, k, v)) = kt).
      { unfold rec_idx. destruct (kt =? keyTypeVal p); reflexivity. }
      rewrite Ekt.
      destruct (put_one d hs k (u64 (seq + i)) kt (if kt =? keyTypeVal p then v else [])) as [d' hs'| |]; try reflexivity.
      specialize (IH (pre ++ enc_rec p (kt, k, v)) post seq (i + 1) d' hs' Ht).
      rewrite <- !app_assoc in IH. rewrite (lenN_app pre (enc_rec p (kt, k, v))) in IH.
      rewrite IH by exact Hlen. f_equal. lia.
    Qed.

    Theorem putmem_batch_of recs seq d hs :
      Forall (rec_ok p) recs -> lenN (enc_recs p recs) < 2 ^ 63 ->
      batch_putmem p mc mp (batch_of p recs) seq d hs = putmem_recs p mc mp (map (norm_rec p) recs) seq d hs.
    Proof.
      intros Hok Hlen. rewrite batch_of_spec. unfold batch_putmem. cbn [b_data b_index].
      pose proof (putmem_idx_recs recs [] [] seq 0 d hs Hok) as H.
      cbn [app lenN length N.of_nat] in H. rewrite app_nil_r, N.add_0_r in H. apply H. exact Hlen.
    Qed.

    (* the loop of writeLocked over the group's batches = the insertions of all their records in order *)
    Theorem putmem_group_recs groups : forall seq d hs,
      Forall (rec_ok p) (concat groups) -> lenN (enc_recs p (concat groups)) < 2 ^ 63 ->
      putmem_group p mc mp (group_of groups) seq d hs =
      putmem_recs p mc mp (map (norm_rec p) (concat groups)) seq d hs.
    Proof.
      induction groups as [|g t IH]; intros seq d hs Hok Hlen; [reflexivity|].
      cbn [group_of map concat putmem_group] in *. fold (group_of t).
      apply Forall_app in Hok as [Hg Ht]. rewrite enc_recs_app, lenN_app in Hlen.
      rewrite putmem_batch_of by (try exact Hg; lia).
      rewrite map_app, putmem_recs_app.
      destruct (putmem_recs p mc mp (map (norm_rec p) g) seq d hs) as [d' hs'| |]; try reflexivity.
      rewrite IH by (try exact Ht; lia). rewrite batch_len_of, putmem_recs_u64, map_length. reflexivity.
    Qed.

    (* decodeBatchToMem's callback over the index of a record list = the same insertions, provided the
       header count is not exceeded *)
    Lemma tomem_fold recs : forall pre post seq blen i d hs n,
      Forall (rec_ok p) recs -> lenN (pre ++ enc_recs p recs ++ post) < 2 ^ 63 ->
      (0 <= i)%Z -> (i + Z.of_nat (length recs) <= Z.of_N blen)%Z ->
      cb_fold (tomem_cb p mc mp (pre ++ enc_recs p recs ++ post) seq blen) i (mktm d hs n) (idxs_of p (lenN pre) recs) =
      match putmem_recs p mc mp (map (norm_rec p) recs) (seq + Z.to_N i) d hs with
      | PmOk d' hs' => CbOk (mktm d' hs' (n + Z.of_nat (length recs))%Z)
      | PmPanic => CbPanic
      | PmFuel => CbFuel
      end.
    Proof.
      induction recs as [|[[kt k] v] t IH]; intros pre post seq blen i d hs n Hok Hlen Hi Hb.
      - cbn [idxs_of cb_fold map putmem_recs length]. rewrite Z.add_0_r. reflexivity.
      - inversion Hok as [|? ? Hr Ht]; subst. cbn [length] in Hb.
        cbn [idxs_of cb_fold map norm_rec putmem_recs]. rewrite enc_recs_cons in *. rewrite <- app_assoc in *.
        unfold tomem_cb at 1. cbn [tm_db tm_hs tm_n].
        replace (Z.of_N blen <=? i)%Z with false by lia.
        destruct (idx_k_rec p pok pre kt k v (enc_recs p t ++ post) Hr Hlen) as [Ek Ev]. rewrite Ek, Ev.
        assert (Ekt : bi_kt (rec_idx p (lenN pre) (kt, k, v)) = kt).
        { unfold rec_idx. destruct (kt =? keyTypeVal p); reflexivity. }
        rewrite Ekt.
        destruct (put_one d hs k (u64 (seq + Z.to_N i)) kt (if kt =? keyTypeVal p then v else [])) as [d' hs'| |]; try reflexivity.
        specialize (IH (pre ++ enc_rec p (kt, k, v)) post seq blen (i + 1)%Z d' hs' (n + 1)%Z Ht).
        rewrite <- !app_assoc in IH. rewrite (lenN_app pre (enc_rec p (kt, k, v))) in IH.
        rewrite IH by (try exact Hlen; lia).
        replace (seq + Z.to_N (i + 1)) with (seq + Z.to_N i + 1) by lia.
        destruct (putmem_recs p mc mp (map (norm_rec p) t) (seq + Z.to_N i + 1) d' hs'); try reflexivity.
        cbn [length]. f_equal. f_equal. lia.
    Qed.

  End Mem.
End Group.

Section Replay.
  Variable p : kparams.
  Hypothesis pok : kparams_ok p.
  Variable bhl : N.
  Hypothesis bhl12 : bhl = 12.

  (* ---------------- C01_group_record_roundtrip ---------------- *)
  (* ONE journal record for the whole group: its header decodes to the group's first sequence number and
     the total number of records, its body decodes (Load) to the batch holding the concatenation of the
     group's records in order *)
  Theorem group_record_roundtrip groups seq :
    Forall (rec_ok p) (concat groups) -> seq < 2 ^ 64 ->
    N.of_nat (length (concat groups)) < 2 ^ 32 -> lenN (enc_recs p (concat groups)) < 2 ^ 59 ->
    let record := group_record (group_of p groups) seq in
    decode_header bhl record = inr (seq, N.of_nat (length (concat groups))) /\
    batch_load p (dropN bhl record) = DOk (batch_of p (concat groups)) /\
    batch_records (batch_of p (concat groups)) = Some (map (norm_rec p) (concat groups)).
  Proof.
    intros Hok Hs Hn Hl. cbv zeta. unfold group_record. rewrite (group_len p), (group_data p).
    destruct (header_roundtrip bhl bhl12 seq (N.of_nat (length (concat groups))) (enc_recs p (concat groups)) Hs Hn) as [H1 H2].
    split; [exact H1|]. rewrite H2.
    pose proof (load_dump p pok (concat groups) Hok Hl) as L.
    unfold batch_dump in L. rewrite batch_of_spec in L at 1. cbn [b_data] in L. split; [exact L|].
    destruct (batch_roundtrip p pok (concat groups) Hok Hl) as (b & E1 & E2 & _).
    unfold batch_dump in E1. rewrite batch_of_spec in E1 at 1. cbn [b_data] in E1. rewrite L in E1.
    injection E1 as <-. exact E2.
  Qed.

  Section Mem.
    Variable mc : comparer.
    Variable mp : MemDB.mparams.

    (* ---------------- C01_replay_equals_live ---------------- *)
    (* decodeBatchToMem of the journal record of a group, for EVERY memdb state and height sequence: rejected
       without touching the memdb when the record is older than the expected sequence number; otherwise it
       is exactly putMem of the group's batches in order — the same memdb, the same heights consumed, the
       same panic or fuel outcome if the memdb misbehaves — and it returns the first sequence number and the
       total count *)
    Theorem replay_equals_live groups seq expect d hs :
      Forall (rec_ok p) (concat groups) -> seq < 2 ^ 64 ->
      N.of_nat (length (concat groups)) < 2 ^ 32 -> lenN (enc_recs p (concat groups)) < 2 ^ 59 ->
      seq + N.of_nat (length (concat groups)) <= keyMaxSeq p ->
      decode_to_mem p bhl mc mp (group_record (group_of p groups) seq) expect d hs =
      if seq <? expect then TmErr ESeq d hs
      else match putmem_group p mc mp (group_of p groups) seq d hs with
           | PmOk d' hs' => TmOk seq (N.of_nat (length (concat groups))) d' hs'
           | PmPanic => TmPanic
           | PmFuel => TmFuel
           end.
    Proof.
      intros Hok Hs Hn Hl Hr.
      assert (Hl' : lenN (enc_recs p (concat groups)) < 2 ^ 63).
      { change (2 ^ 59) with 576460752303423488 in Hl. change (2 ^ 63) with 9223372036854775808. lia. }
      unfold decode_to_mem, group_record. rewrite (group_len p), (group_data p).
      destruct (header_roundtrip bhl bhl12 seq (N.of_nat (length (concat groups))) (enc_recs p (concat groups)) Hs Hn) as [H1 H2].
      rewrite H1, H2. destruct (seq <? expect); [reflexivity|].
      replace ((keyMaxSeq p <? seq) || (keyMaxSeq p - seq <? N.of_nat (length (concat groups)))) with false by lia.
      set (all := concat groups) in *.
      rewrite (decode_all p pok _ _ all _ Hok Hl').
      pose proof (tomem_fold p pok mc mp all [] [] seq (N.of_nat (length all)) 0%Z d hs 0%Z Hok) as F.
      cbn [app lenN length N.of_nat] in F. rewrite app_nil_r in F.
      rewrite F by (try exact Hl'; lia).
      change (Z.to_N 0) with 0. rewrite N.add_0_r.
      rewrite (putmem_group_recs p pok mc mp) by assumption. fold all.
      destruct (putmem_recs p mc mp (map (norm_rec p) all) seq d hs) as [d' hs'| |]; try reflexivity.
      cbn [tm_n tm_db tm_hs]. replace (0 + Z.of_nat (length all) =? Z.of_N (N.of_nat (length all)))%Z with true by lia.
      reflexivity.
    Qed.

    (* an accepted record keeps its sequence numbers, and the db.seq recovery continues with, inside the range
       of an internal key: first seq + count <= keyMaxSeq (so "batchSeq + uint64(batchLen)" never wraps) *)
    Theorem decode_to_mem_range data expect d hs sq bl d' hs' :
      decode_to_mem p bhl mc mp data expect d hs = TmOk sq bl d' hs' -> sq + bl <= keyMaxSeq p.
    Proof.
      unfold decode_to_mem. destruct (decode_header bhl data) as [e|[s b]]; [discriminate|].
      destruct (s <? expect); [discriminate|].
      destruct ((keyMaxSeq p <? s) || (keyMaxSeq p - s <? b)) eqn:E; [discriminate|].
      destruct (decode_loop _ _ _ _ _ _ _) as [st|e st| |]; try discriminate.
      destruct (tm_n st =? Z.of_N b)%Z; [|discriminate]. intros H. injection H as <- <- _ _. lia.
    Qed.

    (* ... and the recovery step built on it: db.seq moves to first seq + count *)
    Corollary recover_step_group groups seq dbseq strict d hs :
      Forall (rec_ok p) (concat groups) -> seq < 2 ^ 64 -> dbseq <= seq ->
      N.of_nat (length (concat groups)) < 2 ^ 32 -> lenN (enc_recs p (concat groups)) < 2 ^ 59 ->
      seq + N.of_nat (length (concat groups)) <= keyMaxSeq p ->
      recover_step p bhl mc mp strict (group_record (group_of p groups) seq) dbseq d hs =
      match putmem_group p mc mp (group_of p groups) seq d hs with
      | PmOk d' hs' => RsOk d' hs' (u64 (seq + N.of_nat (length (concat groups))))
      | PmPanic => RsPanic
      | PmFuel => RsFuel
      end.
    Proof.
      intros Hok Hs Hd Hn Hl Hr. unfold recover_step. rewrite replay_equals_live by assumption.
      replace (seq <? dbseq) with false by lia.
      destruct (putmem_group p mc mp (group_of p groups) seq d hs); reflexivity.
    Qed.

    (* the live path writes that record: write_group's journal record replayed at the old db.seq gives
       write_group's memdb and write_group's new db.seq *)
    Corollary write_then_recover groups dbseq strict d hs record d' hs' dbseq' :
      Forall (rec_ok p) (concat groups) -> dbseq + 1 < 2 ^ 64 ->
      N.of_nat (length (concat groups)) < 2 ^ 32 -> lenN (enc_recs p (concat groups)) < 2 ^ 59 ->
      dbseq + 1 + N.of_nat (length (concat groups)) <= keyMaxSeq p ->
      write_group p mc mp dbseq (group_of p groups) d hs = WgOk record d' hs' dbseq' ->
      recover_step p bhl mc mp strict record dbseq d hs = RsOk d' hs' (u64 (dbseq' + 1)).
    Proof.
      intros Hok Hs Hn Hl Hr. unfold write_group. rewrite u64_small by exact Hs.
      destruct (putmem_group p mc mp (group_of p groups) (dbseq + 1) d hs) as [d1 hs1| |] eqn:E; try discriminate.
      intros H. injection H as <- <- <- <-.
      rewrite recover_step_group by (try assumption; lia). rewrite E. f_equal.
      rewrite (group_len p). rewrite u64_idem_l. f_equal. lia.
    Qed.
  End Mem.
End Replay.
