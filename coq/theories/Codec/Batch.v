(* Codec/Batch.v — model of leveldb/batch.go and of the memdb-insertion half of the write path
   (db_write.go: writeJournal / the tail of writeLocked; db.go: the per-record step of recoverJournal).
   Model file: definitions only (proofs in Codec/BatchProofs.v, Codec/BatchMemProofs.v).

     Batch.appendRec / Put / Delete / Dump / Load / Replay / replayInternal / Len / Reset / append / decode
     decodeBatch (the loop, generic in its callback), decodeBatchHeader / encodeBatchHeader,
     decodeBatchToMem (callback: records-length check, makeInternalKey, memdb.Put, decodedLen),
     Batch.putMem, batchesLen, writeBatchesWithHeader (= the ONE journal record of a merged group),
     writeLocked from "Seq number" to "Incr seq number" (write_group), recoverJournal's loop body (recover_step).

   Conventions.  Bytes are [list N].  Go [int] is 64 bits wide: the offsets of the DECODER are [Z] and every
   addition that can leave the int64 range is wrapped by [int64] exactly where the Go code adds
   ([o += keyLen], [keyPos+keyLen], [internalLen += ...]); [int(x)] of a uint64 is [int_of_u64], [uint64(z)] of
   an int is [u64_of_int].
   uint64 sequence arithmetic is [mod 2^64], uint32(batchLen) is [mod 2^32].  Indexing or slicing outside a
   slice is the explicit result Panic (slice expressions are checked against the LENGTH where Go checks
   the capacity: the model panics at least as often); the decoding loop takes fuel (len(data)+1 always suffices:
   BatchCutProofs.load_total).  NOT modelled: capacity and growth of the buffer
   (grow, growLimit, MakeBatch and MakeBatchWithConfig), errors of the io.Writer handed to writeBatchesWithHeader, the batch pool.
   memdb.Put draws a height (randHeight) only when it inserts a node; the heights drawn are the input list
   [hs] (Mem/MemDB.v's Put takes the height as an argument): an inserting Put consumes its head (default 1),
   an overwriting Put consumes nothing. *)
From GL Require Export Base.Bytes Base.Varint Base.Order Codec.IKey.
From GL Require Mem.MemDB.
From Coq Require Export ZArith.
Open Scope N_scope.

(* ---- Go int (64 bit) ---- *)
Definition two63 : Z := 9223372036854775808.
Definition two64 : Z := 18446744073709551616.
Definition int64 (z : Z) : Z := ((z + two63) mod two64 - two63)%Z.
Definition int_of_u64 (x : N) : Z := int64 (Z.of_N x).
Definition u64 (x : N) : N := x mod 18446744073709551616.
Definition u32 (x : N) : N := x mod 4294967296.
Definition zlen (l : bytes) : Z := Z.of_N (lenN l).
(* uint64(z) of an int *)
Definition u64_of_int (z : Z) : N := Z.to_N (z mod two64).

(* data[o] *)
Definition zget (data : bytes) (o : Z) : option N :=
  if (o <? 0)%Z then None else nth_error data (Z.to_nat o).
(* data[o:] *)
Definition zdrop (data : bytes) (o : Z) : option bytes :=
  if ((0 <=? o) && (o <=? zlen data))%Z then Some (dropN (Z.to_N o) data) else None.
(* data[lo:hi] *)
Definition zslice (data : bytes) (lo hi : Z) : option bytes :=
  if ((0 <=? lo) && (lo <=? hi) && (hi <=? zlen data))%Z
  then Some (sliceN (Z.to_N lo) (Z.to_N hi) data) else None.

(* ---- errors: newErrBatchCorrupted(reason) ---- *)
Inductive berr :=
| EBadType (kt : N)                 (* "bad record: invalid type %#x" *)
| EKeyLen                           (* "bad record: invalid key length" *)
| EValLen                           (* "bad record: invalid value length" *)
| ETooShort                         (* "too short" *)
| ESeq                              (* "invalid sequence number" *)
| ERecLen                           (* "invalid records length" (callback of decodeBatchToMem) *)
| ERecLenMismatch (want got : Z).   (* "invalid records length: %d vs %d" *)

(* a write record: kind, key, value (Lsm/History.v's wrec) *)
Definition brec := (N * bytes * bytes)%type.

Record bidx := mkidx { bi_kt : N; bi_kpos : Z; bi_klen : Z; bi_vpos : Z; bi_vlen : Z }.

Record batch := mkbatch { b_data : bytes; b_index : list bidx; b_ilen : Z }.

(* result of the callback handed to decodeBatch, and of decodeBatch; an error keeps the state reached *)
Inductive cbres (A : Type) := CbOk (a : A) | CbErr (e : berr) (a : A) | CbPanic | CbFuel.
Inductive dres (A : Type) := DOk (a : A) | DErr (e : berr) (a : A) | DPanic | DFuel.
Arguments CbOk {A} a. Arguments CbErr {A} e a. Arguments CbPanic {A}. Arguments CbFuel {A}.
Arguments DOk {A} a. Arguments DErr {A} e a. Arguments DPanic {A}. Arguments DFuel {A}.

(* Replay's receiver *)
Inductive rop := RPut (k v : bytes) | RDelete (k : bytes).

Section Batch.
  Variable p : kparams.
  Variable bhl : N.                    (* batchHeaderLen *)

  (* ------------------------------------------------------------------ encoder *)
  Definition batch_empty : batch := mkbatch [] [] 0%Z.

  (* appendRec(kt, key, value) *)
  Definition append_rec (b : batch) (kt : N) (key value : bytes) : batch :=
    let o := lenN (b_data b) in
    let hdr := (kt mod 256) :: put_uvarint (lenN key) in
    let kpos := o + lenN hdr in
    if kt =? keyTypeVal p then
      let vh := put_uvarint (lenN value) in
      let vpos := kpos + lenN key + lenN vh in
      mkbatch (b_data b ++ hdr ++ key ++ vh ++ value)
              (b_index b ++ [mkidx kt (Z.of_N kpos) (Z.of_N (lenN key)) (Z.of_N vpos) (Z.of_N (lenN value))])
              (b_ilen b + Z.of_N (lenN key) + Z.of_N (lenN value) + 8)%Z
    else
      mkbatch (b_data b ++ hdr ++ key)
              (b_index b ++ [mkidx kt (Z.of_N kpos) (Z.of_N (lenN key)) 0%Z 0%Z])
              (b_ilen b + Z.of_N (lenN key) + 0 + 8)%Z.

  Definition batch_put (b : batch) (key value : bytes) : batch := append_rec b (keyTypeVal p) key value.
  Definition batch_delete (b : batch) (key : bytes) : batch := append_rec b (keyTypeDel p) key [].

  Definition batch_dump (b : batch) : bytes := b_data b.
  Definition batch_len (b : batch) : N := lenN (b_index b).
  Definition batch_reset (b : batch) : batch := batch_empty.

  (* a batch built by Put/Delete/appendRec calls *)
  Definition batch_of (recs : list brec) : batch :=
    fold_left (fun b r => match r with (kt, k, v) => append_rec b kt k v end) recs batch_empty.

  (* the bytes of one record, and of a record list (what appendRec appends) *)
  Definition enc_rec (r : brec) : bytes :=
    match r with (kt, k, v) =>
      (kt mod 256) :: put_uvarint (lenN k) ++ k ++
      (if kt =? keyTypeVal p then put_uvarint (lenN v) ++ v else [])
    end.
  Definition enc_recs (recs : list brec) : bytes := concat (map enc_rec recs).

  (* Batch.append(p) *)
  Definition batch_append (b q : batch) : batch :=
    let ob := Z.of_N (lenN (b_data b)) in
    let shift ix :=
      if (ob =? 0)%Z then ix
      else mkidx (bi_kt ix) (bi_kpos ix + ob)%Z (bi_klen ix)
                 (if (bi_vlen ix =? 0)%Z then bi_vpos ix else (bi_vpos ix + ob)%Z) (bi_vlen ix) in
    mkbatch (b_data b ++ b_data q) (b_index b ++ map shift (b_index q)) (b_ilen b + b_ilen q)%Z.

  (* ------------------------------------------------------------------ decodeBatch *)
  (* the bounds tests are "n <= 0 || x > uint64(len(data)-o)" (since fix d912a49): the length field is compared
     as a uint64 with the bytes that remain, nothing is added before the test *)
  Fixpoint decode_loop {A} (fuel : nat) (data : bytes) (fn : A -> Z -> bidx -> cbres A)
           (i o : Z) (a : A) : dres A :=
    match fuel with
    | O => DFuel
    | S f =>
        if (o <? zlen data)%Z then
          match zget data o with                                   (* keyType(data[o]) *)
          | None => DPanic
          | Some kt =>
              if keyTypeVal p <? kt then DErr (EBadType kt) a else
              let o1 := (o + 1)%Z in
              match zdrop data o1 with                             (* data[o:] *)
              | None => DPanic
              | Some rest =>
                  match uvarint rest with
                  | UvShort | UvOver _ => DErr EKeyLen a           (* n <= 0 *)
                  | UvOk x n =>
                      let o2 := (o1 + Z.of_N n)%Z in
                      if u64_of_int (zlen data - o2) <? x then DErr EKeyLen a else
                      let kl := int_of_u64 x in
                      let o3 := int64 (o2 + kl) in                 (* o += keyLen *)
                      if kt =? keyTypeVal p then
                        match zdrop data o3 with
                        | None => DPanic
                        | Some rest2 =>
                            match uvarint rest2 with
                            | UvShort | UvOver _ => DErr EValLen a
                            | UvOk y m =>
                                let o4 := (o3 + Z.of_N m)%Z in
                                if u64_of_int (zlen data - o4) <? y then DErr EValLen a else
                                let vl := int_of_u64 y in
                                let o5 := int64 (o4 + vl) in
                                match fn a i (mkidx kt o2 kl o4 vl) with
                                | CbOk a' => decode_loop f data fn (i + 1)%Z o5 a'
                                | CbErr e a' => DErr e a'
                                | CbPanic => DPanic
                                | CbFuel => DFuel
                                end
                            end
                        end
                      else
                        match fn a i (mkidx kt o2 kl 0%Z 0%Z) with
                        | CbOk a' => decode_loop f data fn (i + 1)%Z o3 a'
                        | CbErr e a' => DErr e a'
                        | CbPanic => DPanic
                        | CbFuel => DFuel
                        end
                  end
              end
          end
        else DOk a
    end.

  (* ---- decodeBatch BEFORE fix d912a49 (bounds tests "n <= 0 || o+int(x) > len(data)": the length field was
     converted to int and added to the offset first, which wraps).  Kept only as the witness of the pre-fix
     behaviour (Props/C01.v C01_batch_decode_total_refuted); nothing else uses it. *)
  Fixpoint decode_loop_old {A} (fuel : nat) (data : bytes) (fn : A -> Z -> bidx -> cbres A)
           (i o : Z) (a : A) : dres A :=
    match fuel with
    | O => DFuel
    | S f =>
        if (o <? zlen data)%Z then
          match zget data o with                                   (* keyType(data[o]) *)
          | None => DPanic
          | Some kt =>
              if keyTypeVal p <? kt then DErr (EBadType kt) a else
              let o1 := (o + 1)%Z in
              match zdrop data o1 with                             (* data[o:] *)
              | None => DPanic
              | Some rest =>
                  match uvarint rest with
                  | UvShort | UvOver _ => DErr EKeyLen a           (* n <= 0 *)
                  | UvOk x n =>
                      let o2 := (o1 + Z.of_N n)%Z in
                      let kl := int_of_u64 x in
                      let o3 := int64 (o2 + kl) in                 (* o+int(x), then o += keyLen *)
                      if (zlen data <? o3)%Z then DErr EKeyLen a else
                      if kt =? keyTypeVal p then
                        match zdrop data o3 with
                        | None => DPanic
                        | Some rest2 =>
                            match uvarint rest2 with
                            | UvShort | UvOver _ => DErr EValLen a
                            | UvOk y m =>
                                let o4 := (o3 + Z.of_N m)%Z in
                                let vl := int_of_u64 y in
                                let o5 := int64 (o4 + vl) in
                                if (zlen data <? o5)%Z then DErr EValLen a else
                                match fn a i (mkidx kt o2 kl o4 vl) with
                                | CbOk a' => decode_loop_old f data fn (i + 1)%Z o5 a'
                                | CbErr e a' => DErr e a'
                                | CbPanic => DPanic
                                | CbFuel => DFuel
                                end
                            end
                        end
                      else
                        match fn a i (mkidx kt o2 kl 0%Z 0%Z) with
                        | CbOk a' => decode_loop_old f data fn (i + 1)%Z o3 a'
                        | CbErr e a' => DErr e a'
                        | CbPanic => DPanic
                        | CbFuel => DFuel
                        end
                  end
              end
          end
        else DOk a
    end.

  Definition decode_fuel (data : bytes) : nat := S (length data).

  (* Batch.decode(data, expectedLen) ; Load = decode(data, -1) *)
  Definition decode_cb (b : batch) (i : Z) (ix : bidx) : cbres batch :=
    CbOk (mkbatch (b_data b) (b_index b ++ [ix]) (int64 (b_ilen b + (bi_klen ix + bi_vlen ix + 8)))%Z).

  Definition batch_decode (data : bytes) (expectedLen : Z) : dres batch :=
    match decode_loop (decode_fuel data) data decode_cb 0%Z 0%Z (mkbatch data [] 0%Z) with
    | DOk b =>
        let n := Z.of_nat (length (b_index b)) in
        if ((0 <=? expectedLen) && negb (n =? expectedLen))%Z
        then DErr (ERecLenMismatch expectedLen n) b else DOk b
    | r => r
    end.
  Definition batch_load (data : bytes) : dres batch := batch_decode data (-1)%Z.
  (* Batch.Load before fix d912a49 (witness only) *)
  Definition batch_load_old (data : bytes) : dres batch :=
    decode_loop_old (decode_fuel data) data decode_cb 0%Z 0%Z (mkbatch data [] 0%Z).

  (* batchIndex.k / batchIndex.v *)
  Definition idx_k (data : bytes) (ix : bidx) : option bytes :=
    zslice data (bi_kpos ix) (int64 (bi_kpos ix + bi_klen ix)).
  Definition idx_v (data : bytes) (ix : bidx) : option bytes :=
    if (bi_vlen ix =? 0)%Z then Some [] else zslice data (bi_vpos ix) (int64 (bi_vpos ix + bi_vlen ix)).

  (* replayInternal: the (kt, k, v) handed to fn for every index; None = a slice expression panics *)
  Fixpoint idx_records (data : bytes) (ixs : list bidx) : option (list brec) :=
    match ixs with
    | [] => Some []
    | ix :: r =>
        match idx_k data ix with
        | None => None
        | Some k =>
            match idx_v data ix with
            | None => None
            | Some v => option_map (cons (bi_kt ix, k, v)) (idx_records data r)
            end
        end
    end.
  Definition batch_records (b : batch) : option (list brec) := idx_records (b_data b) (b_index b).

  (* Replay(r): switch index.keyType { case keyTypeVal: r.Put ; case keyTypeDel: r.Delete } *)
  Fixpoint replay_idx (data : bytes) (ixs : list bidx) : option (list rop) :=
    match ixs with
    | [] => Some []
    | ix :: r =>
        if bi_kt ix =? keyTypeVal p then
          match idx_k data ix with
          | None => None
          | Some k => match idx_v data ix with
                      | None => None
                      | Some v => option_map (cons (RPut k v)) (replay_idx data r)
                      end
          end
        else if bi_kt ix =? keyTypeDel p then
          match idx_k data ix with
          | None => None
          | Some k => option_map (cons (RDelete k)) (replay_idx data r)
          end
        else replay_idx data r
    end.
  Definition batch_replay (b : batch) : option (list rop) := replay_idx (b_data b) (b_index b).

  (* what a record list looks like after a trip through the encoding: a non-value record has no value *)
  Definition norm_rec (r : brec) : brec :=
    match r with (kt, k, v) => (kt, k, if kt =? keyTypeVal p then v else []) end.

  (* ------------------------------------------------------------------ header *)
  (* encodeBatchHeader(nil, seq, batchLen): PutUint64(seq), PutUint32(uint32(batchLen)) in a buffer of
     batchHeaderLen = 8+4 bytes *)
  Definition encode_header (seq n : N) : bytes := le64 (u64 seq) ++ le32 (u32 n).

  (* decodeBatchHeader; int(uint32) is never negative with a 64-bit int: the "invalid records length"
     branch of the Go function is dead *)
  Definition decode_header (data : bytes) : berr + (N * N) :=
    if lenN data <? bhl then inl ETooShort
    else inr (le_decode (takeN 8 data), le_decode (sliceN 8 12 data)).

  (* batchesLen *)
  Definition batches_len (bs : list batch) : N := fold_left (fun n b => n + batch_len b) bs 0.

  (* writeBatchesWithHeader: what the journal writer receives for ONE record *)
  Definition group_record (bs : list batch) (seq : N) : bytes :=
    encode_header seq (batches_len bs) ++ concat (map b_data bs).

  (* ------------------------------------------------------------------ memdb side *)
  Section Mem.
    Variable mc : comparer.              (* the memdb's comparer: iComparer on encoded keys *)
    Variable mp : MemDB.mparams.

    Inductive pmres := PmOk (d : MemDB.db) (hs : list N) | PmPanic | PmFuel.

    (* makeInternalKey + mdb.Put; Put calls randHeight (consumes a height) only when it inserts a node *)
    Definition put_one (d : MemDB.db) (hs : list N) (k : bytes) (seq : N) (kt : N) (v : bytes) : pmres :=
      match make_ikey p k seq kt with
      | MkPanic => PmPanic
      | MkOk q =>
          match MemDB.mdb_put mc mp (MemDB.op_fuel d) d (encode_ikey q) v (hd 1 hs) with
          | MemDB.Ok d' => PmOk d' (if (MemDB.nEnt d' =? MemDB.nEnt d)%Z then hs else tl hs)
          | MemDB.Panic => PmPanic
          | MemDB.OutOfFuel => PmFuel
          end
      end.

    (* Batch.putMem(seq, mdb): for i, index := range b.index *)
    Fixpoint putmem_idx (data : bytes) (ixs : list bidx) (seq i : N) (d : MemDB.db) (hs : list N) : pmres :=
      match ixs with
      | [] => PmOk d hs
      | ix :: r =>
          match idx_k data ix with
          | None => PmPanic
          | Some k =>
              match idx_v data ix with
              | None => PmPanic
              | Some v =>
                  match put_one d hs k (u64 (seq + i)) (bi_kt ix) v with
                  | PmOk d' hs' => putmem_idx data r seq (i + 1) d' hs'
                  | e => e
                  end
              end
          end
      end.
    Definition batch_putmem (b : batch) (seq : N) (d : MemDB.db) (hs : list N) : pmres :=
      putmem_idx (b_data b) (b_index b) seq 0 d hs.

    (* the same on a record list (the specification the theorems compare with) *)
    Fixpoint putmem_recs (recs : list brec) (seq : N) (d : MemDB.db) (hs : list N) : pmres :=
      match recs with
      | [] => PmOk d hs
      | (kt, k, v) :: r =>
          match put_one d hs k (u64 seq) kt v with
          | PmOk d' hs' => putmem_recs r (seq + 1) d' hs'
          | e => e
          end
      end.

    (* writeLocked: "for _, batch := range batches { batch.putMem(seq, mdb); seq += uint64(batch.Len()) }" *)
    Fixpoint putmem_group (bs : list batch) (seq : N) (d : MemDB.db) (hs : list N) : pmres :=
      match bs with
      | [] => PmOk d hs
      | b :: r =>
          match batch_putmem b seq d hs with
          | PmOk d' hs' => putmem_group r (u64 (seq + batch_len b)) d' hs'
          | e => e
          end
      end.

    (* writeLocked from "seq := db.seq + 1" to "db.addSeq(batchesLen(batches))": the journal record written,
       the memdb after the insertions, the new db.seq *)
    Inductive wgres := WgOk (record : bytes) (d : MemDB.db) (hs : list N) (dbseq : N) | WgPanic | WgFuel.
    Definition write_group (dbseq : N) (bs : list batch) (d : MemDB.db) (hs : list N) : wgres :=
      let seq := u64 (dbseq + 1) in
      match putmem_group bs seq d hs with
      | PmOk d' hs' => WgOk (group_record bs seq) d' hs' (u64 (dbseq + batches_len bs))
      | PmPanic => WgPanic
      | PmFuel => WgFuel
      end.

    (* ---- decodeBatchToMem ---- *)
    Record tomem := mktm { tm_db : MemDB.db; tm_hs : list N; tm_n : Z }.

    Definition tomem_cb (data : bytes) (seq blen : N) (st : tomem) (i : Z) (ix : bidx) : cbres tomem :=
      if (Z.of_N blen <=? i)%Z then CbErr ERecLen st else
      match idx_k data ix with
      | None => CbPanic
      | Some k =>
          match idx_v data ix with
          | None => CbPanic
          | Some v =>
              match put_one (tm_db st) (tm_hs st) k (u64 (seq + Z.to_N i)) (bi_kt ix) v with
              | PmOk d' hs' => CbOk (mktm d' hs' (tm_n st + 1)%Z)
              | PmPanic => CbPanic
              | PmFuel => CbFuel
              end
          end
      end.

    (* (seq, batchLen, err) and the memdb as the call leaves it: on an error the records decoded before
       the damage was noticed STAY inserted *)
    Inductive tmres :=
    | TmOk (seq blen : N) (d : MemDB.db) (hs : list N)
    | TmErr (e : berr) (d : MemDB.db) (hs : list N)
    | TmPanic
    | TmFuel.

    Definition decode_to_mem (data : bytes) (expectSeq : N) (d : MemDB.db) (hs : list N) : tmres :=
      match decode_header data with
      | inl e => TmErr e d hs
      | inr (seq, blen) =>
          if seq <? expectSeq then TmErr ESeq d hs else
          (* since the fix "decodeBatchToMem must reject a header whose sequence numbers leave the key range":
             seq > keyMaxSeq || uint64(batchLen) > keyMaxSeq-seq *)
          if (keyMaxSeq p <? seq) || (keyMaxSeq p - seq <? blen) then TmErr ESeq d hs else
          let body := dropN bhl data in
          match decode_loop (decode_fuel body) body (tomem_cb body seq blen) 0%Z 0%Z (mktm d hs 0%Z) with
          | DOk st =>
              if (tm_n st =? Z.of_N blen)%Z then TmOk seq blen (tm_db st) (tm_hs st)
              else TmErr (ERecLenMismatch (Z.of_N blen) (tm_n st)) (tm_db st) (tm_hs st)
          | DErr e st => TmErr e (tm_db st) (tm_hs st)
          | DPanic => TmPanic
          | DFuel => TmFuel
          end
      end.

    (* decodeBatchToMem BEFORE that fix (no test of the header against keyMaxSeq): kept only as the witness of
       the pre-fix behaviour (Props/C01.v C01_replay_seq_range_refuted) *)
    Definition decode_to_mem_old (data : bytes) (expectSeq : N) (d : MemDB.db) (hs : list N) : tmres :=
      match decode_header data with
      | inl e => TmErr e d hs
      | inr (seq, blen) =>
          if seq <? expectSeq then TmErr ESeq d hs else
          let body := dropN bhl data in
          match decode_loop (decode_fuel body) body (tomem_cb body seq blen) 0%Z 0%Z (mktm d hs 0%Z) with
          | DOk st =>
              if (tm_n st =? Z.of_N blen)%Z then TmOk seq blen (tm_db st) (tm_hs st)
              else TmErr (ERecLenMismatch (Z.of_N blen) (tm_n st)) (tm_db st) (tm_hs st)
          | DErr e st => TmErr e (tm_db st) (tm_hs st)
          | DPanic => TmPanic
          | DFuel => TmFuel
          end
      end.

    (* one journal record in recoverJournal: decodeBatchToMem(buf, db.seq, mdb); a batch corruption error is
       skipped unless strict (the memdb keeps what was inserted, db.seq is not touched); otherwise
       db.seq = batchSeq + uint64(batchLen).  RsFail = recovery returns the error. *)
    Inductive rsres := RsOk (d : MemDB.db) (hs : list N) (dbseq : N) | RsFail (e : berr) | RsPanic | RsFuel.
    Definition recover_step (strict : bool) (data : bytes) (dbseq : N) (d : MemDB.db) (hs : list N) : rsres :=
      match decode_to_mem data dbseq d hs with
      | TmOk seq blen d' hs' => RsOk d' hs' (u64 (seq + blen))
      | TmErr e d' hs' => if strict then RsFail e else RsOk d' hs' dbseq
      | TmPanic => RsPanic
      | TmFuel => RsFuel
      end.
    Definition recover_step_old (strict : bool) (data : bytes) (dbseq : N) (d : MemDB.db) (hs : list N) : rsres :=
      match decode_to_mem_old data dbseq d hs with
      | TmOk seq blen d' hs' => RsOk d' hs' (u64 (seq + blen))
      | TmErr e d' hs' => if strict then RsFail e else RsOk d' hs' dbseq
      | TmPanic => RsPanic
      | TmFuel => RsFuel
      end.
  End Mem.

  (* what a point read must see after a record list was applied on top of a previous answer: the last
     record of the key decides *)
  Fixpoint recs_get (c : comparer) (k : bytes) (recs : list brec) (prev : option bytes) : option bytes :=
    match recs with
    | [] => prev
    | (kd, k', v) :: r =>
        recs_get c k r (match cmp c k' k with
                        | Eq => if kd =? keyTypeDel p then None else Some v
                        | _ => prev
                        end)
    end.
End Batch.
