(* Codec/TableDamageIterProofs.v — the NON-STRICT table iterator over a table some of whose
   data blocks cannot be read (their fetch reports Corrupt, e.g. a detected checksum mismatch):
   it skips exactly those blocks and yields the remaining original pairs in order — it refines
   the reference cursor over the pairs of the readable blocks, for every movement sequence.
   Instance of the generic indexed-iterator theorem (an unreadable block behaves as an empty
   virtual block when the strict flag is off). *)
From GL Require Import Base.Bytes Base.BytesProofs Base.Varint Base.VarintProofs Base.Order Base.OrderProofs
  Base.Cursor Base.CursorProofs Codec.Block Codec.BlockEnc Codec.BlockProofs Codec.BlockSliceProofs
  Codec.Table Codec.TableProofs Codec.IndexedIterProofs.
From Coq Require Import Arith ZArith Lia ZifyN ZifyNat ZifyBool.

Local Open Scope N_scope.

Section Damaged.
  Variable c : comparer.
  Hypothesis c_ok : comparer_ok c.
  Variable rd rd' : treader.
  Variable blocks : list (list (bytes * bytes)).
  Variable seps : list bytes.
  Variable hs : list bhandle.
  Hypothesis wf : table_wf c rd blocks seps hs.
  Variable bad : nat -> bool.              (* the data blocks that cannot be read *)

  Local Notation m := (length blocks).
  Local Notation blk j := (nth j blocks []).
  Local Notation sepj j := (nth j seps []).
  Local Notation hj j := (nth j hs bh0).
  Local Notation ient := (ientries seps hs).

  (* rd' is rd with the bad blocks unreadable *)
  Hypothesis same_index : tr_index rd' = tr_index rd.
  Hypothesis fetch' : forall j, (j < m)%nat ->
    tr_fetch rd' (hj j) = if bad j then Corrupt else tr_fetch rd (hj j).

  Definition vd (j : nat) : list (bytes * bytes) := if bad j then [] else blk j.
  Definition Vd : list (list (bytes * bytes)) := map vd (seq 0 m).

  Lemma Vd_nth j : (j < m)%nat -> nth j Vd [] = if bad j then [] else blk j.
  Proof.
    intros H. unfold Vd. rewrite (nth_indep _ [] (vd 0)) by (rewrite map_length, seq_length; exact H).
    rewrite map_nth, seq_nth by exact H. reflexivity.
  Qed.

  Lemma Vd_in j x : In x (nth j Vd []) -> (j < m)%nat /\ In x (blk j).
  Proof.
    intros H. destruct (Nat.lt_ge_cases j m) as [L|L].
    - split; [exact L|]. rewrite (Vd_nth j L) in H. destruct (bad j); [destruct H | exact H].
    - rewrite nth_overflow in H by (unfold Vd; rewrite map_length, seq_length; exact L). destruct H.
  Qed.

  Variable ib : block.
  Variable ioff : nat -> N.
  Variable iris : list nat.
  Hypothesis Eib : tr_index rd = Ok ib.
  Hypothesis ilay : block_layout ient ib ioff iris.

  Local Notation RI := (rep ient ib ioff iris).

  Lemma RI_refines_d : refines_over c ient RI.
  Proof.
    constructor.
    - intros d p o R.
      destruct (step_refines c c_ok ient ib ioff iris ilay (ient_sorted c c_ok rd blocks seps hs wf) d p o R) as (ok & d' & E & R' & Eok).
      exists ok, d'. split; [exact E|]. split; [exact R'|]. rewrite Eok. destruct (c_step c ient p o); reflexivity.
    - intros d p R. apply rep_slice_full in R. apply R.
    - intros d i (Hi & Hsf & Hd & Hk & Hv & _). split.
      + unfold bi_valid. rewrite (has_err_false _ _ Hsf). destruct Hd as [-> | ->]; reflexivity.
      + rewrite Hk, Hv. apply nth_kv. exact Hi.
  Qed.

  Lemma data_refines l b off ris : block_layout l b off ris -> sorted c l -> refines_over c l (rep l b off ris).
  Proof.
    intros lay Hs. constructor.
    - intros d p o R. destruct (step_refines c c_ok l b off ris lay Hs d p o R) as (ok & d' & E & R' & Eok).
      exists ok, d'. split; [exact E|]. split; [exact R'|]. rewrite Eok. destruct (c_step c l p o); reflexivity.
    - intros d p R. apply rep_slice_full in R. apply R.
    - intros d i (Hi & Hsf & Hd & Hk & Hv & _). split.
      + unfold bi_valid. rewrite (has_err_false _ _ Hsf). destruct Hd as [-> | ->]; reflexivity.
      + rewrite Hk, Hv. apply nth_kv. exact Hi.
  Qed.

  Lemma Vd_len : length Vd = length ient.
  Proof. unfold Vd. rewrite map_length, seq_length, (ient_len c rd blocks seps hs wf). reflexivity. Qed.

  Lemma get_ok_d t i : RI (ti_index t) (CAt i) -> static None false t ->
    (exists d0 R, index_get c rd' t = Some (DBlock d0) /\ refines_over c (nth i Vd []) R /\ R d0 CSOI) \/
    (index_get c rd' t = Some (DEmpty ErrCorrupt) /\ nth i Vd [] = [] /\ false = false).
  Proof.
    intros R [Hsl _]. pose proof R as (Hi & Hs & Hd & Hk & Hv & _).
    rewrite (ient_len c rd blocks seps hs wf) in Hi.
    unfold index_get.
    assert (Hvalid : bi_valid (ti_index t) = true).
    { unfold bi_valid. rewrite (has_err_false _ _ Hs). destruct Hd as [-> | ->]; reflexivity. }
    rewrite Hvalid. cbn [negb].
    rewrite Hv, (ient_val c rd blocks seps hs wf i Hi).
    destruct (twf_handles _ _ _ _ _ wf i Hi) as [Ho1 Hl1]. rewrite (decode_encode_bh _ Ho1 Hl1).
    rewrite Hsl, (fetch' i Hi), (Vd_nth i Hi).
    destruct (bad i).
    - right. auto.
    - left. destruct (twf_fetch _ _ _ _ _ wf i Hi) as (bj & Ef & (off & ris & lay)). rewrite Ef.
      eexists. exists (rep (blk i) bj off ris). split; [reflexivity|].
      split; [apply data_refines; [exact lay | apply (sorted_block c c_ok rd blocks seps hs wf i Hi)] | apply rep_unsliced].
  Qed.

  Lemma route_at_d key i : c_seek c ient key = CAt i ->
    (forall i' x, (i' < i)%nat -> In x (nth i' Vd []) -> cmp c (fst x) key = Lt) /\
    (forall i' x, (i < i')%nat -> In x (nth i' Vd []) -> cmp c (fst x) key <> Lt).
  Proof.
    intros Hs. pose proof (index_seek_at c rd blocks seps hs wf key i Hs) as (Hi & Hge & Hlt).
    split.
    - intros i' x Hi' Hin. apply Vd_in in Hin as [Hb Hin].
      apply (before_block_lt c c_ok rd blocks seps hs wf i key x i' Hi' Hi Hin). apply Hlt. lia.
    - intros i' x Hi' Hin. apply Vd_in in Hin as [Hb Hin].
      apply (after_block_gt c c_ok rd blocks seps hs wf i key x i' Hi' Hb Hin Hge).
  Qed.

  Lemma route_eoi_d key : c_seek c ient key = CEOI -> forall i' x, In x (nth i' Vd []) -> cmp c (fst x) key = Lt.
  Proof.
    intros Hs i' x Hin. apply Vd_in in Hin as [Hb Hin].
    apply (index_seek_eoi c c_ok rd blocks seps hs wf key Hs x).
    apply (in_nth_concat blocks i' x Hb Hin).
  Qed.

  Lemma index_fuel_d ix p : RI ix p -> (length Vd <= length (b_data (bi_blk ix)))%nat.
  Proof.
    intros R. apply rep_slice_full in R. destruct R as (Eb & _). rewrite Eb, Vd_len.
    apply (len_le_data ient ib ioff iris ilay).
  Qed.

  Theorem damaged_run ops :
    fst (ti_run c rd' (mkTI (new_block_iter c ib None true) None None false None) ops) = c_run c (concat Vd) CSOI ops.
  Proof.
    apply (trun_refines c rd' None false ient RI RI_refines_d Vd Vd_len get_ok_d route_at_d route_eoi_d index_fuel_d ops _ CSOI).
    split; [reflexivity|]. split; [split; reflexivity|]. split; [reflexivity | apply rep_unsliced].
  Qed.
End Damaged.

(* packaged *)
Theorem table_iter_skips_unreadable c rd rd' blocks seps hs (bad : nat -> bool) :
  comparer_ok c -> table_wf c rd blocks seps hs ->
  tr_index rd' = tr_index rd ->
  (forall j, (j < length blocks)%nat ->
     tr_fetch rd' (nth j hs bh0) = if bad j then Corrupt else tr_fetch rd (nth j hs bh0)) ->
  exists t, new_titer c rd' None false = inr t /\
    forall ops, fst (ti_run c rd' t ops)
                = c_run c (concat (map (fun j => if bad j then [] else nth j blocks []) (seq 0 (length blocks)))) CSOI ops.
Proof.
  intros Hc wf Hidx Hf. destruct (twf_index _ _ _ _ _ wf) as (ib & Eib & (ioff & iris & ilay)).
  unfold new_titer. rewrite Hidx, Eib. eexists. split; [reflexivity|].
  intros ops. apply (damaged_run c Hc rd rd' blocks seps hs wf bad Hf ib ioff iris ilay ops).
Qed.
