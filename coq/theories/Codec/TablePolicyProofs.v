(* Codec/TablePolicyProofs.v — policy_change_invisible at the table model: two readers of the same
   well-formed table that differ only in the filter they use (another policy, an alternative
   policy, none - i.e. in tr_filter, and possibly in dataEnd) return the same results for every
   lookup and every iterator walk, provided neither filter has a false negative on the keys of a
   data block (C16's theorems for any policy meeting the policy contract; trivially true of a
   reader without a usable filter).  The one reader-policy-dependent observable is OffsetOf for a
   key beyond the last separator: NewReader sets dataEnd to the filter block's offset only when
   the filter named in the metaindex is one of the reader's. *)
From GL Require Import Base.Bytes Base.Varint Base.Order Base.Cursor Codec.Block Codec.Table Codec.TableProofs
  Codec.TableIterProofs Codec.TableSliceProofs Codec.TableEmptyProofs.
From Coq Require Import Lia.

(* find / Get / the iterators never look at dataEnd *)
Definition with_end (r : treader) (de : N) : treader := mkTR (tr_index r) (tr_fetch r) (tr_filter r) de.
Lemma tfind_end c r de key f : tfind c (with_end r de) key f = tfind c r key f.
Proof. destruct r. reflexivity. Qed.
Lemma tget_end c r de key : tget c (with_end r de) key = tget c r key.
Proof. destruct r. reflexivity. Qed.
Lemma tgetf_end c r de key : tget_filtered c (with_end r de) key = tget_filtered c r key.
Proof. destruct r. reflexivity. Qed.
Lemma titer_end c r de sl strict : new_titer c (with_end r de) sl strict = new_titer c r sl strict.
Proof. destruct r. reflexivity. Qed.
Lemma trun_end c r de t ops : ti_run c (with_end r de) t ops = ti_run c r t ops.
Proof. destruct r. reflexivity. Qed.

Section Policy.
  Variable c : comparer.
  Hypothesis c_ok : comparer_ok c.
  Variables rd rd' : treader.
  Variable blocks : list (list (bytes * bytes)).
  Variable seps : list bytes.
  Variable hs : list bhandle.
  Hypothesis wf : table_wf c rd blocks seps hs.
  Hypothesis same_index : tr_index rd' = tr_index rd.
  Hypothesis same_fetch : forall h, tr_fetch rd' h = tr_fetch rd h.

  (* rd' with rd's dataEnd: well-formed, and indistinguishable from rd' by find / Get / iterators *)
  Definition rd2 : treader := with_end rd' (tr_dataEnd rd).

  Lemma wf2 : table_wf c rd2 blocks seps hs.
  Proof.
    destruct wf. constructor; unfold rd2, with_end; cbn [tr_index tr_fetch tr_filter tr_dataEnd]; try assumption.
    - rewrite same_index. assumption.
    - intros j Hj. rewrite same_fetch. auto.
  Qed.

  Lemma tfind2 key f : tfind c rd2 key f = tfind c rd' key f.
  Proof. apply tfind_end. Qed.
  Lemma tget2 key : tget c rd2 key = tget c rd' key.
  Proof. apply tget_end. Qed.
  Lemma tgetf2 key : tget_filtered c rd2 key = tget_filtered c rd' key.
  Proof. apply tgetf_end. Qed.
  Lemma titer2 sl strict : new_titer c rd2 sl strict = new_titer c rd' sl strict.
  Proof. apply titer_end. Qed.
  Lemma trun2 t ops : ti_run c rd2 t ops = ti_run c rd' t ops.
  Proof. apply trun_end. Qed.

  Lemma sound2 : filter_sound rd' blocks hs -> filter_sound rd2 blocks hs.
  Proof. intros H. exact H. Qed.

  Theorem tfind_policy key : tfind c rd' key false = tfind c rd key false.
  Proof.
    rewrite <- tfind2, (tfind_first_ge c c_ok rd2 blocks seps hs wf2), (tfind_first_ge c c_ok rd blocks seps hs wf).
    reflexivity.
  Qed.

  Theorem tget_policy key : tget c rd' key = tget c rd key.
  Proof. unfold tget. rewrite tfind_policy. reflexivity. Qed.

  Theorem tget_filtered_policy key :
    filter_sound rd blocks hs -> filter_sound rd' blocks hs ->
    tget_filtered c rd' key = tget_filtered c rd key.
  Proof.
    intros H1 H2. rewrite <- tgetf2.
    rewrite (tget_filter_independent c c_ok rd2 blocks seps hs wf2 key (sound2 H2)).
    rewrite (tget_filter_independent c c_ok rd blocks seps hs wf key H1).
    rewrite tget2. apply tget_policy.
  Qed.

  Theorem titer_policy sl strict :
    exists t t', new_titer c rd sl strict = inr t /\ new_titer c rd' sl strict = inr t' /\
      forall ops, fst (ti_run c rd' t' ops) = fst (ti_run c rd t ops).
  Proof.
    destruct sl as [[start limit]|].
    - destruct (table_iter_range_refines c rd blocks seps hs start limit strict c_ok wf) as (t & Et & Ht).
      destruct (table_iter_range_refines c rd2 blocks seps hs start limit strict c_ok wf2) as (t' & Et' & Ht').
      exists t, t'. split; [exact Et|]. split; [rewrite <- titer2; exact Et'|].
      intros ops. rewrite <- trun2, Ht, Ht'. reflexivity.
    - destruct (table_iter_refines c rd blocks seps hs strict c_ok wf) as (t & Et & Ht).
      destruct (table_iter_refines c rd2 blocks seps hs strict c_ok wf2) as (t' & Et' & Ht').
      exists t, t'. split; [exact Et|]. split; [rewrite <- titer2; exact Et'|].
      intros ops. rewrite <- trun2, Ht, Ht'. reflexivity.
  Qed.

  Theorem toffset_policy key : tr_dataEnd rd' = tr_dataEnd rd -> toffset_of c rd' key = toffset_of c rd key.
  Proof. intros H. unfold toffset_of. rewrite same_index, H. reflexivity. Qed.
End Policy.

(* a reader without a usable filter: nothing to be sound about *)
Lemma filter_sound_none rd blocks hs : tr_filter rd = None -> filter_sound rd blocks hs.
Proof. intros H contains E. rewrite H in E. discriminate. Qed.

Theorem policy_change_invisible c rd rd' blocks seps hs :
  comparer_ok c -> table_wf c rd blocks seps hs ->
  tr_index rd' = tr_index rd -> (forall h, tr_fetch rd' h = tr_fetch rd h) ->
  filter_sound rd blocks hs -> filter_sound rd' blocks hs ->
  (forall key, tget_filtered c rd' key = tget_filtered c rd key) /\
  (forall key, tget c rd' key = tget c rd key) /\
  (forall key, tfind c rd' key false = tfind c rd key false) /\
  (forall sl strict, exists t t',
     new_titer c rd sl strict = inr t /\ new_titer c rd' sl strict = inr t' /\
     forall ops, fst (ti_run c rd' t' ops) = fst (ti_run c rd t ops)) /\
  (tr_dataEnd rd' = tr_dataEnd rd -> forall key, toffset_of c rd' key = toffset_of c rd key).
Proof.
  intros Hc wf Hi Hf S1 S2.
  split; [intros key; apply (tget_filtered_policy c Hc rd rd' blocks seps hs wf Hi Hf key S1 S2)|].
  split; [intros key; apply (tget_policy c Hc rd rd' blocks seps hs wf Hi Hf)|].
  split; [intros key; apply (tfind_policy c Hc rd rd' blocks seps hs wf Hi Hf)|].
  split; [intros sl strict; apply (titer_policy c Hc rd rd' blocks seps hs wf Hi Hf)|].
  intros E key. apply (toffset_policy c rd rd' Hi key E).
Qed.

(* the byte level: NewReader on the same file with any reader policy (name or none, any contains
   function) gives readers with the same index block and the same block fetches *)
Theorem open_table_policy_indep tp crc decompress fc1 fc2 c file fn1 fn2 verify :
  tr_index (open_table tp crc decompress fc2 c file fn2 verify) = tr_index (open_table tp crc decompress fc1 c file fn1 verify) /\
  forall h, tr_fetch (open_table tp crc decompress fc2 c file fn2 verify) h = tr_fetch (open_table tp crc decompress fc1 c file fn1 verify) h.
Proof.
  unfold open_table.
  destruct (lenN file <? tp_footerLen tp); [split; reflexivity|].
  destruct (negb _); [split; reflexivity|].
  destruct (decode_bh _) as [metaBH n| |]; try (split; reflexivity).
  destruct (decode_bh _) as [indexBH n'| |]; try (split; reflexivity).
  destruct (read_block_at tp crc decompress file metaBH true); split; reflexivity.
Qed.
