(* Codec/CiCmpProofs.v — the case-insensitive comparer satisfies the preorder contract and is NOT injective. *)
From GL Require Import Base.Order Base.OrderPre Codec.BytesCmp Codec.BytesCmpProofs Codec.CiCmp.

Lemma cicmp_pre_ok : comparer_pre_ok cicmp.
Proof. apply mapped_cmp_pre_ok. apply bytewise_ok. Qed.

(* "Key" and "KEY" are one user key ... *)
Lemma cicmp_Key_KEY : cmp cicmp [75; 101; 121]%N [75; 69; 89]%N = Eq.
Proof. vm_compute. reflexivity. Qed.

(* ... so the injective contract fails for this comparer *)
Lemma cicmp_not_injective : ~ comparer_ok cicmp.
Proof.
  intros ok. pose proof (proj1 (cmp_eq cicmp ok _ _) cicmp_Key_KEY) as H. discriminate H.
Qed.

Lemma cicmp_fold a b : cmp cicmp a b = bcompare (fold_case a) (fold_case b).
Proof. reflexivity. Qed.
