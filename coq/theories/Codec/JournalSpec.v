(* Codec/JournalSpec.v — specification-level definitions the journal theorems are stated and
   proved through (definitions only; proofs in JournalReaderProofs.v, JournalWriterProofs.v,
   JournalProofs.v):
   - chunks, their byte rendering, the layout of a record list into blocks of chunks (the
     list-level mirror of Writer.Next / singleWriter.Write), the rendering of a layout;
   - the parse of one block into events (well-formed chunk | bad rest of block), the event
     stream of a byte string, and the record assembler over event streams (the list-level
     mirror of Reader.Next / singleReader.Read as driven by recoverJournal).
   JournalReaderProofs.reader_factor : jread_log = assemble . stream_events   (all byte strings)
   JournalWriterProofs.writer_layout : jwrite   = render_lay . layout         (all record lists) *)
From GL Require Export Codec.Journal.

Section Spec.
  Variable crc : bytes -> N.
  Variable p : jparams.

  Record chunk := { c_type : N; c_data : bytes }.
  Definition mk (t : N) (d : bytes) : chunk := {| c_type := t; c_data := d |}.

  Definition csize (c : chunk) : N := hs p + lenN (c_data c).

  (* header: checksum over type and payload (4, LE), payload length (2, LE), type *)
  Definition render_chunk (c : chunk) : bytes :=
    le_encode 4 (cksum crc (c_type c :: c_data c)) ++
    le_encode 2 (lenN (c_data c) mod 65536) ++ [c_type c] ++ c_data c.

  Definition render_chunks (cs : list chunk) : bytes := flat_map render_chunk cs.

  Fixpoint bsize (cs : list chunk) : N :=
    match cs with [] => 0 | c :: cs' => csize c + bsize cs' end.

  (* ---- layout: closed (complete, zero padded to the block size) blocks and the open block *)
  Record lay := { l_closed : list (list chunk); l_open : list chunk }.

  Definition lay_empty : lay := {| l_closed := []; l_open := [] |}.
  Definition lay_close (l : lay) : lay := {| l_closed := l_closed l ++ [l_open l]; l_open := [] |}.
  Definition lay_push (l : lay) (c : chunk) : lay :=
    {| l_closed := l_closed l; l_open := l_open l ++ [c] |}.

  Definition lay_chunks (l : lay) : list chunk := concat (l_closed l) ++ l_open l.

  (* Writer.Next: a header must fit in the open block, otherwise the block is closed *)
  Definition lay_next (l : lay) : lay :=
    if bs p <? bsize (l_open l) + hs p then lay_close l else l.

  Definition last_type (first : bool) : N := if first then tFull p else tLast p.
  Definition nonlast_type (first : bool) : N := if first then tFirst p else tMiddle p.

  (* singleWriter.Write followed by the finalisation of the pending chunk: the pending chunk has
     flag [first] and payload [d] so far, [q] is still to be written; one step per pass of the
     loop in Write *)
  Fixpoint lay_write (fuel : nat) (l : lay) (first : bool) (d q : bytes) : lay :=
    match q with
    | [] => lay_push l (mk (last_type first) d)
    | _ :: _ =>
        match fuel with
        | O => l
        | S fuel' =>
            let full := bsize (l_open l) + hs p + lenN d =? bs p in
            let l1 := if full then lay_close (lay_push l (mk (nonlast_type first) d)) else l in
            let f1 := if full then false else first in
            let d1 := if full then [] else d in
            let n := N.min (bs p - (bsize (l_open l1) + hs p + lenN d1)) (lenN q) in
            lay_write fuel' l1 f1 (d1 ++ takeN n q) (dropN n q)
        end
    end.

  Definition lay_record (l : lay) (r : bytes) : lay :=
    lay_write (length r) (lay_next l) true [] r.

  (* the same loop, returning the pending chunk unfinalised (layout, first flag, payload so
     far): what a further Write call continues from *)
  Fixpoint lay_write_st (fuel : nat) (l : lay) (first : bool) (d q : bytes) : lay * bool * bytes :=
    match q with
    | [] => (l, first, d)
    | _ :: _ =>
        match fuel with
        | O => (l, first, d)
        | S fuel' =>
            let full := bsize (l_open l) + hs p + lenN d =? bs p in
            let l1 := if full then lay_close (lay_push l (mk (nonlast_type first) d)) else l in
            let f1 := if full then false else first in
            let d1 := if full then [] else d in
            let n := N.min (bs p - (bsize (l_open l1) + hs p + lenN d1)) (lenN q) in
            lay_write_st fuel' l1 f1 (d1 ++ takeN n q) (dropN n q)
        end
    end.

  Definition layout (rs : list bytes) : lay := fold_left lay_record rs lay_empty.

  Definition render_closed (cs : list chunk) : bytes :=
    render_chunks cs ++ zeros (bs p - bsize cs).

  Definition render_lay (l : lay) : bytes :=
    flat_map render_closed (l_closed l) ++ render_chunks (l_open l).

  (* ---- parsing one block *)
  Inductive bev := BChunk (c : chunk) | BBad (reason size : N).

  Fixpoint parse_rest (ck : bool) (fuel : nat) (rest : bytes) : list bev :=
    match fuel with
    | O => []
    | S fuel' =>
        if lenN rest <? hs p then []
        else
          let cks := le_decode (takeN 4 rest) in
          let len := le_decode (takeN 2 (dropN 4 rest)) in
          let t := nth 6 rest 0 in
          if (cks =? 0) && (len =? 0) && (t =? 0) then [BBad R_zero (lenN rest)]
          else if (t <? tFull p) || (tLast p <? t) then [BBad R_type (lenN rest)]
          else if lenN rest <? hs p + len then [BBad R_overflow (lenN rest)]
          else if ck && negb (cks =? cksum crc (takeN (len + 1) (dropN 6 rest)))
               then [BBad R_checksum (lenN rest)]
          else BChunk (mk t (takeN len (dropN (hs p) rest)))
                 :: parse_rest ck fuel' (dropN (hs p + len) rest)
    end.

  Definition parse_from (ck : bool) (rest : bytes) : list bev := parse_rest ck (length rest) rest.

  Fixpoint blocks (fuel : nat) (b : bytes) : list bytes :=
    match fuel with
    | O => []
    | S fuel' =>
        match b with
        | [] => []
        | _ :: _ => takeN (bs p) b :: blocks fuel' (dropN (bs p) b)
        end
    end.

  Definition stream_blocks (b : bytes) : list bytes := blocks (length b) b.

  Definition stream_events (ck : bool) (b : bytes) : list bev :=
    flat_map (parse_from ck) (stream_blocks b).

  (* ---- assembling records from the event stream *)
  Inductive astate := AIdle | AIn (acc : bytes).

  Definition is_last_type (t : N) : bool := (t =? tFull p) || (t =? tLast p).
  Definition is_start_type (t : N) : bool := (t =? tFull p) || (t =? tFirst p).

  Fixpoint assemble (strict : bool) (st : astate) (evs : list bev) : list outcome :=
    match evs with
    | [] =>
        match st with
        | AIdle => []
        | AIn _ => Dropped R_missing 0 :: (if strict then [Err] else [Skipped])
        end
    | BChunk c :: evs' =>
        match st with
        | AIdle =>
            if is_start_type (c_type c) then
              if is_last_type (c_type c) then Rec (c_data c) :: assemble strict AIdle evs'
              else assemble strict (AIn (c_data c)) evs'
            else Dropped R_orphan (lenN (c_data c) + hs p) :: assemble strict AIdle evs'
        | AIn acc =>
            if is_last_type (c_type c) then Rec (acc ++ c_data c) :: assemble strict AIdle evs'
            else assemble strict (AIn (acc ++ c_data c)) evs'
        end
    | BBad r n :: evs' =>
        Dropped r n ::
        (if strict then [Err]
         else match st with
              | AIdle => assemble strict AIdle evs'
              | AIn _ => Skipped :: assemble strict AIdle evs'
              end)
    end.

  (* ---- damage: the computable hypothesis "the checksum detects the damage" *)
  (* the blocks of a layout as they appear in the stream (no empty trailing block) *)
  Definition lay_blocks (l : lay) : list (list chunk) :=
    l_closed l ++ match l_open l with [] => [] | _ :: _ => [l_open l] end.

  Definition chunk_eqb (a b : chunk) : bool :=
    (c_type a =? c_type b) && beq (c_data a) (c_data b).

  (* the events the parser produced for a block are: the block's original chunks, all of them,
     or a proper prefix of them followed by one "rest of block dropped" event *)
  Fixpoint evs_match (evs : list bev) (cs : list chunk) : bool :=
    match evs, cs with
    | [], [] => true
    | [BBad _ _], _ :: _ => true
    | BChunk c :: evs', c0 :: cs' => chunk_eqb c c0 && evs_match evs' cs'
    | _, _ => false
    end.

  Fixpoint forall2b {A B} (f : A -> B -> bool) (a : list A) (b : list B) : bool :=
    match a, b with
    | [], [] => true
    | x :: a', y :: b' => f x y && forall2b f a' b'
    | _, _ => false
    end.

  (* no_forgery ck rs d: d has as many blocks as the stream written for rs, and in every block
     whatever the parser accepts is a run of the original chunks of that block from its start
     (with the rest reported as dropped).  True for the undamaged stream; for a damaged one it
     says that no damaged or shifted chunk passes the type/length/checksum tests. *)
  Definition no_forgery (ck : bool) (rs : list bytes) (d : bytes) : bool :=
    forall2b (fun cs blk => evs_match (parse_from ck blk) cs)
             (lay_blocks (layout rs)) (stream_blocks d).

  (* which blocks the chunks of the k-th record lie in *)
  Fixpoint tag_blocks (i : nat) (bl : list (list chunk)) : list (nat * chunk) :=
    match bl with
    | [] => []
    | cs :: bl' => map (pair i) cs ++ tag_blocks (S i) bl'
    end.

  (* a record's chunks: a maximal run whose chunks after the first are middle/last chunks *)
  Fixpoint group_recs {A} (ty : A -> N) (l : list A) : list (list A) :=
    match l with
    | [] => []
    | x :: l' =>
        match group_recs ty l' with
        | [] => [[x]]
        | [] :: gs => [x] :: gs
        | (y :: g) :: gs =>
            if is_start_type (ty y) then [x] :: (y :: g) :: gs else (x :: y :: g) :: gs
        end
    end.

  Definition rec_blocks (rs : list bytes) (k : nat) : list nat :=
    map fst (nth k (group_recs (fun tc => c_type (snd tc))
                               (tag_blocks 0 (lay_blocks (layout rs)))) []).

  (* the records the reader yielded, and a selection of records *)
  Definition recs_of (l : list outcome) : list bytes :=
    flat_map (fun o => match o with Rec b => [b] | _ => [] end) l.

  Fixpoint select {A} (keep : list bool) (l : list A) : list A :=
    match keep, l with
    | k :: keep', x :: l' => if k then x :: select keep' l' else select keep' l'
    | _, _ => []
    end.
End Spec.
