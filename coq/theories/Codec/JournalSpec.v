(* Codec/JournalSpec.v — specification-level definitions the journal theorems are stated and
   proved through (definitions only; proofs in JournalReaderProofs.v, JournalWriterProofs.v,
   JournalProofs.v):
   - chunks, their byte rendering, the layout of a record list into blocks of chunks (the
     list-level mirror of Writer.Next / singleWriter.Write), the rendering of a layout;
   - the parse of one block into events (well-formed chunk | bad rest of block), the event
     stream of a byte string, and the record assembler over event streams (the list-level
     mirror of Reader.Next / singleReader.Read as driven by recoverJournal).
   JournalReaderProofs.reader_factor : jread_log = assemble . stream_events   (all byte strings)
   JournalWriterProofs.writer_layout : jwrite   = render_lay . layout         (all record lists) *)
From GL Require Export Codec.Journal.

Section Spec.
  Variable crc : bytes -> N.
  Variable p : jparams.

  Record chunk := { c_type : N; c_data : bytes }.
  Definition mk (t : N) (d : bytes) : chunk := {| c_type := t; c_data := d |}.

  Definition csize (c : chunk) : N := hs p + lenN (c_data c).

  (* header: checksum over type and payload (4, LE), payload length (2, LE), type *)
  Definition render_chunk (c : chunk) : bytes :=
    le_encode 4 (cksum crc (c_type c :: c_data c)) ++
    le_encode 2 (lenN (c_data c) mod 65536) ++ [c_type c] ++ c_data c.

  Definition render_chunks (cs : list chunk) : bytes := flat_map render_chunk cs.

  Fixpoint bsize (cs : list chunk) : N :=
    match cs with [] => 0 | c :: cs' => csize c + bsize cs' end.

  (* ---- layout: closed (complete, zero padded to the block size) blocks and the open block *)
  Record lay := { l_closed : list (list chunk); l_open : list chunk }.

  Definition lay_empty : lay := {| l_closed := []; l_open := [] |}.
  Definition lay_close (l : lay) : lay := {| l_closed := l_closed l ++ [l_open l]; l_open := [] |}.
  Definition lay_push (l : lay) (c : chunk) : lay :=
    {| l_closed := l_closed l; l_open := l_open l ++ [c] |}.

  Definition lay_chunks (l : lay) : list chunk := concat (l_closed l) ++ l_open l.

  (* Writer.Next: a header must fit in the open block, otherwise the block is closed *)
  Definition lay_next (l : lay) : lay :=
    if bs p <? bsize (l_open l) + hs p then lay_close l else l.

  Definition last_type (first : bool) : N := if first then tFull p else tLast p.
  Definition nonlast_type (first : bool) : N := if first then tFirst p else tMiddle p.

  (* singleWriter.Write followed by the finalisation of the pending chunk: the pending chunk has
     flag [first] and payload [d] so far, [q] is still to be written; one step per pass of the
     loop in Write *)
  Fixpoint lay_write (fuel : nat) (l : lay) (first : bool) (d q : bytes) : lay :=
    match q with
    | [] => lay_push l (mk (last_type first) d)
    | _ :: _ =>
        match fuel with
        | O => l
        | S fuel' =>
            let full := bsize (l_open l) + hs p + lenN d =? bs p in
            let l1 := if full then lay_close (lay_push l (mk (nonlast_type first) d)) else l in
            let f1 := if full then false else first in
            let d1 := if full then [] else d in
            let n := N.min (bs p - (bsize (l_open l1) + hs p + lenN d1)) (lenN q) in
            lay_write fuel' l1 f1 (d1 ++ takeN n q) (dropN n q)
        end
    end.

  Definition lay_record (l : lay) (r : bytes) : lay :=
    lay_write (length r) (lay_next l) true [] r.

  Definition layout (rs : list bytes) : lay := fold_left lay_record rs lay_empty.

  Definition render_closed (cs : list chunk) : bytes :=
    render_chunks cs ++ zeros (bs p - bsize cs).

  Definition render_lay (l : lay) : bytes :=
    flat_map render_closed (l_closed l) ++ render_chunks (l_open l).

  (* ---- parsing one block *)
  Inductive bev := BChunk (c : chunk) | BBad (reason size : N).

  Fixpoint parse_rest (ck : bool) (fuel : nat) (rest : bytes) : list bev :=
    match fuel with
    | O => []
    | S fuel' =>
        if lenN rest <? hs p then []
        else
          let cks := le_decode (takeN 4 rest) in
          let len := le_decode (takeN 2 (dropN 4 rest)) in
          let t := nth 6 rest 0 in
          if (cks =? 0) && (len =? 0) && (t =? 0) then [BBad R_zero (lenN rest)]
          else if (t <? tFull p) || (tLast p <? t) then [BBad R_type (lenN rest)]
          else if lenN rest <? hs p + len then [BBad R_overflow (lenN rest)]
          else if ck && negb (cks =? cksum crc (takeN (len + 1) (dropN 6 rest)))
               then [BBad R_checksum (lenN rest)]
          else BChunk (mk t (takeN len (dropN (hs p) rest)))
                 :: parse_rest ck fuel' (dropN (hs p + len) rest)
    end.

  Definition parse_from (ck : bool) (rest : bytes) : list bev := parse_rest ck (length rest) rest.

  Fixpoint blocks (fuel : nat) (b : bytes) : list bytes :=
    match fuel with
    | O => []
    | S fuel' =>
        match b with
        | [] => []
        | _ :: _ => takeN (bs p) b :: blocks fuel' (dropN (bs p) b)
        end
    end.

  Definition stream_blocks (b : bytes) : list bytes := blocks (length b) b.

  Definition stream_events (ck : bool) (b : bytes) : list bev :=
    flat_map (parse_from ck) (stream_blocks b).

  (* ---- assembling records from the event stream *)
  Inductive astate := AIdle | AIn (acc : bytes).

  Definition is_last_type (t : N) : bool := (t =? tFull p) || (t =? tLast p).
  Definition is_start_type (t : N) : bool := (t =? tFull p) || (t =? tFirst p).

  Fixpoint assemble (strict : bool) (st : astate) (evs : list bev) : list outcome :=
    match evs with
    | [] =>
        match st with
        | AIdle => []
        | AIn _ => Dropped R_missing 0 :: (if strict then [Err] else [Skipped])
        end
    | BChunk c :: evs' =>
        match st with
        | AIdle =>
            if is_start_type (c_type c) then
              if is_last_type (c_type c) then Rec (c_data c) :: assemble strict AIdle evs'
              else assemble strict (AIn (c_data c)) evs'
            else Dropped R_orphan (lenN (c_data c) + hs p) :: assemble strict AIdle evs'
        | AIn acc =>
            if is_last_type (c_type c) then Rec (acc ++ c_data c) :: assemble strict AIdle evs'
            else assemble strict (AIn (acc ++ c_data c)) evs'
        end
    | BBad r n :: evs' =>
        Dropped r n ::
        (if strict then [Err]
         else match st with
              | AIdle => assemble strict AIdle evs'
              | AIn _ => Skipped :: assemble strict AIdle evs'
              end)
    end.
End Spec.
