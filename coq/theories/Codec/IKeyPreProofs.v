(* Codec/IKeyPreProofs.v — the laws of the internal-key order (iComparer.Compare) under the PREORDER contract
   of the user comparer (Base/OrderPre.v): no use of injectivity. *)
From GL Require Import Base.Order Base.OrderPre Codec.IKey.
From Coq Require Import ZArith Lia ZifyN ZifyNat ZifyBool.

Section Laws.
  Variable c : comparer.
  Hypothesis ok : comparer_pre_ok c.

  (* two internal keys compare equal iff they are the same user key (equivalent spellings) with the same trailer *)
  Lemma picmp_eq a b : icmp c a b = Eq <-> cmp c (uk a) (uk b) = Eq /\ num a = num b.
  Proof.
    unfold icmp. destruct (cmp c (uk a) (uk b)) eqn:E.
    - split.
      + intros H. apply N.compare_eq in H. split; [reflexivity|congruence].
      + intros [_ H]. rewrite H. apply N.compare_refl.
    - split; [discriminate|intros [H _]; discriminate].
    - split; [discriminate|intros [H _]; discriminate].
  Qed.

  Lemma picmp_refl a : icmp c a a = Eq.
  Proof. apply picmp_eq. split; [apply (pcmp_refl c ok)|reflexivity]. Qed.

  Lemma picmp_opp a b : icmp c b a = CompOpp (icmp c a b).
  Proof.
    unfold icmp. rewrite (pre_opp c ok (uk a) (uk b)).
    destruct (cmp c (uk a) (uk b)); cbn; auto. apply N.compare_antisym.
  Qed.

  Lemma picmp_trans a b d : icmp c a b = Lt -> icmp c b d = Lt -> icmp c a d = Lt.
  Proof.
    unfold icmp.
    destruct (cmp c (uk a) (uk b)) eqn:E1; destruct (cmp c (uk b) (uk d)) eqn:E2;
      try discriminate; intros H1 H2.
    - rewrite (pcmp_eq_trans c ok _ _ _ E1 E2). rewrite N.compare_lt_iff in *. lia.
    - rewrite (pcmp_eq_l c ok _ _ _ E1), E2. reflexivity.
    - rewrite <- (pcmp_eq_r c ok _ _ _ E2), E1. reflexivity.
    - rewrite (pre_trans c ok _ _ _ E1 E2). reflexivity.
  Qed.

  Lemma picmp_irrefl a : icmp c a a <> Lt.
  Proof. rewrite picmp_refl. discriminate. Qed.

  Lemma picmp_total a b : icmp c a b = Lt \/ icmp c a b = Eq \/ icmp c b a = Lt.
  Proof.
    destruct (icmp c a b) eqn:E.
    - right; left; reflexivity.
    - left; reflexivity.
    - right; right. rewrite picmp_opp, E. reflexivity.
  Qed.
End Laws.
