(* Codec/JournalProofs.v — the journal theorems: round trip, totality of the reader, truncation,
   containment of damage.  Built on the two refinement results
     JournalReaderProofs.reader_factor : jread_log = assemble . stream_events
     JournalWriterProofs.jwrite_layout : jwrite    = render_lay . layout            *)
From GL Require Import Base.Bytes Base.BytesProofs Codec.Journal Codec.JournalSpec Codec.JournalLemmas
  Codec.JournalReaderProofs Codec.JournalWriterProofs.
From Coq Require Import PeanoNat Lia ZifyN ZifyNat ZifyBool.

Section JournalProofs.
  Variable crc : bytes -> N.
  Variable p : jparams.
  Hypothesis pok : jparams_ok p.

  Let H7 : hs p = 7 := hs7 p pok.
  Let Hb : hs p < bs p := hs_lt_bs p pok.

  (* ------------------------------------------------------------ well-formed layouts *)
  Definition chunk_ok (c : chunk) : Prop := tFull p <= c_type c /\ c_type c <= tLast p.
  Definition open_ok (cs : list chunk) : Prop := bsize p cs <= bs p /\ Forall chunk_ok cs.
  Definition closed_ok (cs : list chunk) : Prop := bs p < bsize p cs + hs p /\ open_ok cs.
  Definition wf_lay (l : lay) : Prop := Forall closed_ok (l_closed l) /\ open_ok (l_open l).

  (* the chunks of one record *)
  Inductive cont_chunks : bytes -> list chunk -> Prop :=
  | CC_last d : cont_chunks d [mk (tLast p) d]
  | CC_mid d x cs : cont_chunks x cs -> cont_chunks (d ++ x) (mk (tMiddle p) d :: cs).
  Inductive rec_chunks : bytes -> list chunk -> Prop :=
  | RC_full r : rec_chunks r [mk (tFull p) r]
  | RC_first d x cs : cont_chunks x cs -> rec_chunks (d ++ x) (mk (tFirst p) d :: cs).

  Lemma types_ok : chunk_ok (mk (tFull p) []) /\ chunk_ok (mk (tFirst p) []) /\
                   chunk_ok (mk (tMiddle p) []) /\ chunk_ok (mk (tLast p) []).
  Proof. unfold chunk_ok; cbn. pose proof pok as (_&_&_&?&?&?&?&?&_). lia. Qed.

  Lemma last_type_ok f d : chunk_ok (mk (last_type p f) d).
  Proof. pose proof types_ok. unfold chunk_ok, last_type in *; cbn in *. destruct f; lia. Qed.
  Lemma nonlast_type_ok f d : chunk_ok (mk (nonlast_type p f) d).
  Proof. pose proof types_ok. unfold chunk_ok, nonlast_type in *; cbn in *. destruct f; lia. Qed.

  Lemma lay_chunks_push l c : lay_chunks (lay_push l c) = lay_chunks l ++ [c].
  Proof. unfold lay_chunks, lay_push; cbn. now rewrite app_assoc. Qed.
  Lemma lay_chunks_close l : lay_chunks (lay_close l) = lay_chunks l.
  Proof. unfold lay_chunks, lay_close; cbn. rewrite concat_app. cbn. now rewrite !app_nil_r. Qed.

  Lemma open_ok_snoc cs c :
    open_ok cs -> chunk_ok c -> bsize p cs + csize p c <= bs p -> open_ok (cs ++ [c]).
  Proof.
    intros (H1 & H2) Hc Hs. split.
    - rewrite (bsize_app p). cbn [bsize]. lia.
    - apply Forall_app. split; [exact H2|]. constructor; [exact Hc|constructor].
  Qed.

  Lemma wf_close l : wf_lay l -> bs p < bsize p (l_open l) + hs p -> wf_lay (lay_close l).
  Proof.
    intros (H1 & H2) Hs. split; cbn.
    - apply Forall_app. split; [exact H1|]. constructor; [split; assumption|constructor].
    - split; [cbn; lia|constructor].
  Qed.

  Lemma lay_write_ok : forall fuel l f d q,
    wf_lay l -> bsize p (l_open l) + hs p + lenN d <= bs p -> (length q <= fuel)%nat ->
    wf_lay (lay_write p fuel l f d q) /\
    exists cs, lay_chunks (lay_write p fuel l f d q) = lay_chunks l ++ cs /\
               (if f then rec_chunks (d ++ q) cs else cont_chunks (d ++ q) cs).
  Proof.
    induction fuel as [|fuel IH]; intros l f d q Wf Hfit Hq.
    - destruct q; [|cbn in Hq; lia]. cbn [lay_write]. split.
      + destruct Wf as (W1 & W2). split; [exact W1|]. cbn.
        apply open_ok_snoc; [exact W2 | apply last_type_ok | unfold csize, mk; cbn; lia].
      + exists [mk (last_type p f) d]. split; [apply lay_chunks_push|].
        rewrite app_nil_r. destruct f; constructor.
    - destruct q as [|x q].
      { cbn [lay_write]. split.
        + destruct Wf as (W1 & W2). split; [exact W1|]. cbn.
          apply open_ok_snoc; [exact W2 | apply last_type_ok | unfold csize, mk; cbn; lia].
        + exists [mk (last_type p f) d]. split; [apply lay_chunks_push|].
          rewrite app_nil_r. destruct f; constructor. }
      cbn [lay_write].
      destruct (bsize p (l_open l) + hs p + lenN d =? bs p) eqn:Efull.
      + set (l1 := lay_close (lay_push l (mk (nonlast_type p f) d))).
        assert (Wf1 : wf_lay l1).
        { apply wf_close.
          - destruct Wf as (W1 & W2). split; [exact W1|]. cbn.
            apply open_ok_snoc; [exact W2 | apply nonlast_type_ok | unfold csize, mk; cbn; lia].
          - cbn. rewrite (bsize_app p). cbn. unfold csize; cbn. lia. }
        assert (Lnil : lenN (@nil N) = 0) by reflexivity.
        change (bsize p (l_open l1)) with 0. rewrite Lnil.
        set (n := N.min (bs p - (0 + hs p + 0)) (lenN (x :: q))).
        assert (Hn : 1 <= n) by (unfold n; rewrite lenN_cons; lia).
        destruct (IH l1 false ([] ++ takeN n (x :: q)) (dropN n (x :: q)) Wf1) as (W & cs & Ec & Hc).
        { change (bsize p (l_open l1)) with 0. cbn [app]. rewrite lenN_takeN. lia. }
        { assert (L : lenN (dropN n (x :: q)) <= lenN (x :: q) - 1) by (rewrite lenN_dropN; lia).
          unfold lenN in L. cbn [length] in *. lia. }
        split; [exact W|]. exists (mk (nonlast_type p f) d :: cs). split.
        * rewrite Ec. unfold l1. rewrite lay_chunks_close, lay_chunks_push, <- app_assoc. reflexivity.
        * cbn [app] in Hc. rewrite takeN_dropN in Hc. destruct f; constructor; exact Hc.
      + set (n := N.min (bs p - (bsize p (l_open l) + hs p + lenN d)) (lenN (x :: q))).
        assert (Hn : 1 <= n) by (unfold n; rewrite lenN_cons; lia).
        destruct (IH l f (d ++ takeN n (x :: q)) (dropN n (x :: q)) Wf) as (W & cs & Ec & Hc).
        { rewrite lenN_app, lenN_takeN. lia. }
        { assert (L : lenN (dropN n (x :: q)) <= lenN (x :: q) - 1) by (rewrite lenN_dropN; lia).
          unfold lenN in L. cbn [length] in *. lia. }
        split; [exact W|]. exists cs. split; [exact Ec|].
        rewrite <- app_assoc, takeN_dropN in Hc. exact Hc.
  Qed.

  Lemma lay_next_ok l : wf_lay l -> wf_lay (lay_next p l) /\
    bsize p (l_open (lay_next p l)) + hs p <= bs p /\ lay_chunks (lay_next p l) = lay_chunks l.
  Proof.
    intros Wf. unfold lay_next. destruct (bs p <? bsize p (l_open l) + hs p) eqn:E.
    - split; [apply wf_close; [exact Wf|lia]|]. split; [cbn; lia | apply lay_chunks_close].
    - split; [exact Wf|]. split; [lia|reflexivity].
  Qed.

  Lemma lay_record_ok l r : wf_lay l ->
    wf_lay (lay_record p l r) /\
    exists cs, lay_chunks (lay_record p l r) = lay_chunks l ++ cs /\ rec_chunks r cs.
  Proof.
    intros Wf. destruct (lay_next_ok l Wf) as (W1 & Hfit & Ec1).
    unfold lay_record.
    destruct (lay_write_ok (length r) (lay_next p l) true [] r W1) as (W & cs & Ec & Hc).
    { change (lenN (@nil N)) with 0. lia. }
    { lia. }
    split; [exact W|]. exists cs. rewrite Ec, Ec1. split; [reflexivity|exact Hc].
  Qed.

  Lemma layout_ok rs : forall l, wf_lay l ->
    wf_lay (fold_left (lay_record p) rs l) /\
    exists css, lay_chunks (fold_left (lay_record p) rs l) = lay_chunks l ++ concat css /\
                Forall2 rec_chunks rs css.
  Proof.
    induction rs as [|r rs IH]; intros l Wf.
    - split; [exact Wf|]. exists []. cbn. rewrite app_nil_r. split; [reflexivity|constructor].
    - cbn [fold_left]. destruct (lay_record_ok l r Wf) as (W1 & cs & Ec & Hc).
      destruct (IH _ W1) as (W & css & Ecs & Hcs).
      split; [exact W|]. exists (cs :: css). split.
      + rewrite Ecs, Ec. cbn [concat]. now rewrite app_assoc.
      + constructor; assumption.
  Qed.

  Lemma wf_empty : wf_lay lay_empty.
  Proof. split; cbn; [constructor|]. split; [cbn; lia|constructor]. Qed.

  (* ------------------------------------------------------------ parsing what was rendered *)
  Lemma render_chunk_shape t d rest' :
    render_chunk crc (mk t d) ++ rest' =
    le_encode 4 (cksum crc (t :: d)) ++ le_encode 2 (lenN d mod 65536) ++ (t :: d) ++ rest'.
  Proof. unfold render_chunk, mk; cbn [c_type c_data]. rewrite <- !app_assoc. reflexivity. Qed.

  Lemma parse_chunk ck c rest' :
    chunk_ok c -> lenN (c_data c) < 65536 ->
    parse_from crc p ck (render_chunk crc c ++ rest') = BChunk c :: parse_from crc p ck rest'.
  Proof.
    destruct c as [t d]. intros (Ht1 & Ht2) Hd. cbn [c_type c_data] in *.
    change {| c_type := t; c_data := d |} with (mk t d).
    pose proof pok as (_ & _ & _ & Hfull & _).
    set (c4 := le_encode 4 (cksum crc (t :: d))).
    set (c2 := le_encode 2 (lenN d mod 65536)).
    assert (L4 : lenN c4 = 4) by (unfold c4; rewrite lenN_le_encode; reflexivity).
    assert (L2 : lenN c2 = 2) by (unfold c2; rewrite lenN_le_encode; reflexivity).
    assert (D4 : le_decode c4 = cksum crc (t :: d)).
    { unfold c4. rewrite le_decode_encode. change (256 ^ N.of_nat 4) with (2 ^ 32).
      unfold cksum. apply N.mod_mod. lia. }
    assert (D2 : le_decode c2 = lenN d).
    { unfold c2. rewrite le_decode_encode. change (256 ^ N.of_nat 2) with 65536.
      rewrite N.mod_mod by lia. apply N.mod_small. exact Hd. }
    rewrite render_chunk_shape. fold c4 c2.
    set (rest := c4 ++ c2 ++ (t :: d) ++ rest').
    assert (Lr : lenN rest = 7 + lenN d + lenN rest').
    { unfold rest. rewrite !lenN_app, lenN_cons. lia. }
    assert (E4 : takeN 4 rest = c4) by (apply takeN_app_exact; exact L4).
    assert (E2 : takeN 2 (dropN 4 rest) = c2).
    { unfold rest. rewrite dropN_app_exact by exact L4. apply takeN_app_exact; exact L2. }
    assert (E6 : dropN 6 rest = (t :: d) ++ rest').
    { unfold rest. rewrite app_assoc. apply dropN_app_exact. rewrite lenN_app. lia. }
    assert (Et : nth 6 rest 0 = t).
    { pose proof (nth_dropN 0 6 0%nat rest) as Hn. rewrite E6 in Hn. cbn in Hn. symmetry. exact Hn. }
    assert (Eb : takeN (lenN d + 1) (dropN 6 rest) = t :: d).
    { rewrite E6. apply takeN_app_exact. rewrite lenN_cons. lia. }
    assert (E7 : dropN (hs p) rest = d ++ rest').
    { rewrite H7. replace 7 with (1 + 6) by lia. rewrite <- dropN_dropN, E6. reflexivity. }
    assert (Ed : takeN (lenN d) (dropN (hs p) rest) = d) by (rewrite E7; apply takeN_app_exact; reflexivity).
    assert (En : dropN (hs p + lenN d) rest = rest').
    { rewrite N.add_comm, <- dropN_dropN, E7. apply dropN_app_exact. reflexivity. }
    unfold parse_from at 1.
    destruct (length rest) as [|fr] eqn:Efr; [unfold lenN in Lr; lia|].
    cbn [parse_rest].
    replace (lenN rest <? hs p) with false by lia.
    rewrite E4, E2, Et, D4, D2, Eb, Ed, En.
    replace (t =? 0) with false by lia. rewrite andb_false_r.
    replace ((t <? tFull p) || (tLast p <? t)) with false by lia.
    replace (lenN rest <? hs p + lenN d) with false by lia.
    rewrite N.eqb_refl. cbn [negb]. rewrite andb_false_r.
    f_equal. apply (parse_from_fuel crc p pok).
    assert (L : lenN rest' <= lenN rest - 1) by lia. unfold lenN in L. lia.
  Qed.

  Lemma chunk_len_bound cs c : open_ok cs -> In c cs -> lenN (c_data c) < 65536.
  Proof.
    intros (Hs & _) Hin. pose proof pok as (_ & _ & Hlen & _).
    assert (csize p c <= bsize p cs).
    { clear Hs. induction cs as [|c' cs IH]; [contradiction|]. cbn [bsize].
      destruct Hin as [->|Hin]; [lia|]. specialize (IH Hin). lia. }
    unfold csize in *. lia.
  Qed.

  (* a rendered block (with any tail shorter than a header) parses into its chunks *)
  Lemma parse_chunks ck cs pad :
    open_ok cs -> lenN pad < hs p ->
    parse_from crc p ck (render_chunks crc cs ++ pad) = map BChunk cs.
  Proof.
    intros Hok Hpad. induction cs as [|c cs IH].
    - cbn. apply (parse_from_short crc p). exact Hpad.
    - unfold render_chunks. cbn [flat_map map]. rewrite <- app_assoc.
      rewrite parse_chunk.
      + f_equal. apply IH. destruct Hok as (Hs & Hf). split; [cbn [bsize] in Hs; lia|].
        now inversion Hf.
      + destruct Hok as (_ & Hf). now inversion Hf.
      + apply (chunk_len_bound (c :: cs)); [exact Hok|now left].
  Qed.

  Lemma lenN_render_closed cs : open_ok cs -> lenN (render_closed crc p cs) = bs p.
  Proof.
    intros (Hs & _). unfold render_closed.
    rewrite lenN_app, (lenN_render_chunks crc p pok), lenN_zeros. lia.
  Qed.

  Lemma stream_events_one ck b :
    b <> [] -> lenN b <= bs p -> stream_events crc p ck b = parse_from crc p ck b.
  Proof.
    intros Hne Hl. rewrite (stream_events_cons crc p pok ck b Hne).
    rewrite takeN_all, dropN_all by lia. cbn. apply app_nil_r.
  Qed.

  Lemma stream_events_render_gen ck closed open :
    Forall closed_ok closed -> open_ok open ->
    stream_events crc p ck (flat_map (render_closed crc p) closed ++ render_chunks crc open)
    = map BChunk (concat closed ++ open).
  Proof.
    intros Hc Ho. induction closed as [|c1 closed IH].
    - cbn [flat_map concat app]. destruct open as [|c cs]; [reflexivity|].
      rewrite stream_events_one.
      + rewrite <- (app_nil_r (render_chunks crc (c :: cs))).
        apply parse_chunks; [exact Ho|]. change (lenN (@nil N)) with 0. lia.
      + intros E. apply (f_equal lenN) in E. rewrite (lenN_render_chunks crc p pok) in E.
        cbn [bsize] in E. unfold csize in E. change (lenN (@nil N)) with 0 in E. lia.
      + rewrite (lenN_render_chunks crc p pok). apply Ho.
    - inversion Hc as [|? ? Hc1 Hc']; subst. cbn [flat_map concat]. rewrite <- !app_assoc.
      destruct Hc1 as (Hbig & Hok1).
      pose proof (lenN_render_closed c1 Hok1) as L1.
      rewrite (stream_events_cons crc p pok).
      + rewrite takeN_app_exact, dropN_app_exact by exact L1.
        rewrite map_app. f_equal; [|apply IH; exact Hc'].
        unfold render_closed. apply parse_chunks; [exact Hok1|]. rewrite lenN_zeros. lia.
      + intros E. apply (f_equal lenN) in E. rewrite lenN_app, L1 in E.
        change (lenN (@nil N)) with 0 in E. lia.
  Qed.

  Lemma stream_events_render ck l :
    wf_lay l -> stream_events crc p ck (render_lay crc p l) = map BChunk (lay_chunks l).
  Proof. intros (H1 & H2). apply stream_events_render_gen; assumption. Qed.

  (* ------------------------------------------------------------ assembling the chunks of records *)
  Lemma type_facts :
    is_start_type p (tFull p) = true /\ is_last_type p (tFull p) = true /\
    is_start_type p (tFirst p) = true /\ is_last_type p (tFirst p) = false /\
    is_start_type p (tMiddle p) = false /\ is_last_type p (tMiddle p) = false /\
    is_start_type p (tLast p) = false /\ is_last_type p (tLast p) = true.
  Proof.
    pose proof pok as (_&_&_&_&_&_&_&_&?&?&?&?&?&?&_).
    unfold is_start_type, is_last_type. repeat split; lia.
  Qed.

  Lemma assemble_cont strict x cs : cont_chunks x cs -> forall acc evs,
    assemble p strict (AIn acc) (map BChunk cs ++ evs) = Rec (acc ++ x) :: assemble p strict AIdle evs.
  Proof.
    pose proof type_facts as (_&_&_&_&_&Hm&_&Hl).
    induction 1 as [d|d x cs Hc IH]; intros acc evs; cbn [map app assemble mk c_type c_data].
    - rewrite Hl. reflexivity.
    - rewrite Hm. rewrite IH, app_assoc. reflexivity.
  Qed.

  Lemma assemble_rec strict r cs evs : rec_chunks r cs ->
    assemble p strict AIdle (map BChunk cs ++ evs) = Rec r :: assemble p strict AIdle evs.
  Proof.
    pose proof type_facts as (Hs1&Hl1&Hs2&Hl2&_).
    intros [r'|d x cs' Hc]; cbn [map app assemble mk c_type c_data].
    - rewrite Hs1, Hl1. reflexivity.
    - rewrite Hs2, Hl2. apply assemble_cont. exact Hc.
  Qed.

  Lemma assemble_records strict rs css evs : Forall2 rec_chunks rs css ->
    assemble p strict AIdle (map BChunk (concat css) ++ evs) =
    map Rec rs ++ assemble p strict AIdle evs.
  Proof.
    induction 1 as [|r cs rs css Hr Hrs IH]; [reflexivity|].
    cbn [concat map]. rewrite map_app, <- app_assoc, (assemble_rec strict r cs _ Hr), IH. reflexivity.
  Qed.

  Lemma layout_chunks rs :
    wf_lay (layout p rs) /\
    exists css, lay_chunks (layout p rs) = concat css /\ Forall2 rec_chunks rs css.
  Proof.
    destruct (layout_ok rs lay_empty wf_empty) as (W & css & E & H).
    split; [exact W|]. exists css. split; [exact E|exact H].
  Qed.

  (* ------------------------------------------------------------ round trip *)
  Theorem roundtrip_log strict ck fl rs :
    jread_log crc p strict ck (jwrite crc p fl rs) = map Rec rs.
  Proof.
    rewrite (reader_factor crc p pok), (jwrite_layout crc p pok).
    destruct (layout_chunks rs) as (W & css & E & H).
    rewrite (stream_events_render ck _ W), E.
    rewrite <- (app_nil_r (map BChunk (concat css))).
    rewrite (assemble_records strict rs css [] H). cbn. apply app_nil_r.
  Qed.

  Lemma outs_recs rs : outs (map Rec rs) = map Rec rs.
  Proof. induction rs as [|r rs IH]; [reflexivity|]. cbn. unfold outs in IH. now rewrite IH. Qed.

  Theorem roundtrip strict ck fl rs :
    jread crc p strict ck (jwrite crc p fl rs) = map Rec rs.
  Proof. unfold jread. rewrite roundtrip_log. apply outs_recs. Qed.

  Theorem flush_irrelevant fl1 fl2 rs : jwrite crc p fl1 rs = jwrite crc p fl2 rs.
  Proof. rewrite !(jwrite_layout crc p pok). reflexivity. Qed.

  (* a record written through several Write calls gives the bytes of one Write of the whole *)
  Theorem split_writes_irrelevant fl fl' rss :
    jwrite_pieces crc p fl rss = jwrite crc p fl' (map (@concat N) rss).
  Proof. rewrite (jwrite_pieces_layout crc p pok), (jwrite_layout crc p pok). reflexivity. Qed.

  Theorem writer_pieces_total fl rss :
    exists s, jwrite_pieces_res crc p fl rss = WOk s /\ w_out s = jwrite_pieces crc p fl rss.
  Proof.
    destruct (writer_pieces_layout crc p pok fl rss) as (s & E & Ho). exists s. split; [exact E|].
    unfold jwrite_pieces. rewrite E. reflexivity.
  Qed.

  Theorem writer_total fl rs :
    exists s, jwrite_res crc p fl rs = WOk s /\ w_out s = jwrite crc p fl rs.
  Proof.
    destruct (writer_layout crc p pok fl rs) as (s & E & Ho). exists s. split; [exact E|].
    unfold jwrite. rewrite E. reflexivity.
  Qed.

  (* ------------------------------------------------------------ the reader is total *)
  Lemma assemble_total strict st evs :
    Forall (fun o => o <> Panic /\ o <> OutOfFuel) (assemble p strict st evs).
  Proof.
    revert st; induction evs as [|ev evs IH]; intros st.
    - destruct st; cbn; [constructor|]. destruct strict; repeat constructor; discriminate.
    - destruct ev as [c|r n]; cbn [assemble].
      + destruct st.
        * destruct (is_start_type p (c_type c)); [destruct (is_last_type p (c_type c))|];
            try (constructor; [split; discriminate|]); apply IH.
        * destruct (is_last_type p (c_type c)); try (constructor; [split; discriminate|]); apply IH.
      + constructor; [split; discriminate|]. destruct strict; [repeat constructor; discriminate|].
        destruct st; try (constructor; [split; discriminate|]); apply IH.
  Qed.

  Theorem no_panic strict ck b :
    Forall (fun o => o <> Panic /\ o <> OutOfFuel) (jread_log crc p strict ck b).
  Proof. rewrite (reader_factor crc p pok). apply assemble_total. Qed.

  (* ------------------------------------------------------------ truncation *)
  Definition tail_ok (tail : list bev) : Prop := tail = [] \/ exists r sz, tail = [BBad r sz].

  (* a chunk cut inside its payload (at least the header survives) is a length overflow *)
  Lemma parse_cut_chunk ck c n :
    chunk_ok c -> lenN (c_data c) < 65536 -> hs p <= n -> n < csize p c ->
    parse_from crc p ck (takeN n (render_chunk crc c)) = [BBad R_overflow n].
  Proof.
    destruct c as [t d]. intros (Ht1 & Ht2) Hd Hn1 Hn2. cbn [c_type c_data] in *.
    unfold csize in Hn2. cbn [c_data] in Hn2.
    change {| c_type := t; c_data := d |} with (mk t d).
    pose proof pok as (_ & _ & _ & Hfull & _).
    pose proof (render_chunk_shape t d []) as Hs. rewrite !app_nil_r in Hs. rewrite Hs.
    set (c4 := le_encode 4 (cksum crc (t :: d))).
    set (c2 := le_encode 2 (lenN d mod 65536)).
    assert (L4 : lenN c4 = 4) by (unfold c4; rewrite lenN_le_encode; reflexivity).
    assert (L2 : lenN c2 = 2) by (unfold c2; rewrite lenN_le_encode; reflexivity).
    assert (D2 : le_decode c2 = lenN d).
    { unfold c2. rewrite le_decode_encode. change (256 ^ N.of_nat 2) with 65536.
      rewrite N.mod_mod by lia. apply N.mod_small. exact Hd. }
    assert (Er : takeN n (c4 ++ c2 ++ t :: d) = c4 ++ c2 ++ t :: takeN (n - 7) d).
    { rewrite takeN_app_ge by lia. f_equal. rewrite takeN_app_ge by lia. f_equal.
      rewrite L4, L2. replace (n - 4 - 2) with ((n - 7) + 1) by lia.
      unfold takeN. replace (N.to_nat (n - 7 + 1)) with (S (N.to_nat (n - 7))) by lia. reflexivity. }
    rewrite Er.
    set (rest := c4 ++ c2 ++ t :: takeN (n - 7) d).
    assert (Lr : lenN rest = n).
    { unfold rest. rewrite !lenN_app, lenN_cons, lenN_takeN. lia. }
    assert (E4 : takeN 4 rest = c4) by (apply takeN_app_exact; exact L4).
    assert (E2 : takeN 2 (dropN 4 rest) = c2).
    { unfold rest. rewrite dropN_app_exact by exact L4. apply takeN_app_exact; exact L2. }
    assert (E6 : dropN 6 rest = t :: takeN (n - 7) d).
    { unfold rest. rewrite app_assoc. apply dropN_app_exact. rewrite lenN_app. lia. }
    assert (Et : nth 6 rest 0 = t).
    { pose proof (nth_dropN 0 6 0%nat rest) as Hn. rewrite E6 in Hn. cbn in Hn. symmetry. exact Hn. }
    unfold parse_from.
    destruct (length rest) as [|fr] eqn:Efr; [unfold lenN in Lr; lia|].
    cbn [parse_rest].
    replace (lenN rest <? hs p) with false by lia.
    rewrite E4, E2, Et, D2.
    replace (t =? 0) with false by lia. rewrite andb_false_r.
    replace ((t <? tFull p) || (tLast p <? t)) with false by lia.
    replace (lenN rest <? hs p + lenN d) with true by lia. rewrite Lr. reflexivity.
  Qed.

  (* the number of leading chunks of a block that lie wholly inside its first n bytes *)
  Fixpoint fit (cs : list chunk) (n : N) : nat :=
    match cs with
    | [] => 0%nat
    | c :: cs' => if csize p c <=? n then S (fit cs' (n - csize p c)) else 0%nat
    end.

  Lemma fit_le cs n : (fit cs n <= length cs)%nat.
  Proof. revert n; induction cs as [|c cs IH]; intros n; cbn; [lia|]. destruct (csize p c <=? n); [specialize (IH (n - csize p c))|]; lia. Qed.

  Lemma parse_cut ck cs pad :
    open_ok cs -> lenN pad < hs p -> forall n,
    exists tail, parse_from crc p ck (takeN n (render_chunks crc cs ++ pad))
                   = map BChunk (firstn (fit cs n) cs) ++ tail /\ tail_ok tail.
  Proof.
    intros Hok Hpad. induction cs as [|c cs IH]; intros n.
    - exists []. cbn [render_chunks flat_map app firstn map fit]. split; [|left; reflexivity].
      apply (parse_from_short crc p). rewrite lenN_takeN. lia.
    - assert (Hok' : open_ok cs).
      { destruct Hok as (Hs & Hf). split; [cbn [bsize] in Hs; lia|]. now inversion Hf. }
      assert (Hc : chunk_ok c) by (destruct Hok as (_ & Hf); now inversion Hf).
      assert (Hl : lenN (c_data c) < 65536) by (apply (chunk_len_bound (c :: cs)); [exact Hok|now left]).
      unfold render_chunks. cbn [flat_map]. fold (render_chunks crc cs). rewrite <- app_assoc.
      pose proof (lenN_render_chunk crc p pok c) as Lc.
      destruct (csize p c <=? n) eqn:E.
      + rewrite takeN_app_ge by lia. rewrite Lc. cbn [fit]. rewrite E.
        destruct (IH Hok' (n - csize p c)) as (tail & Ep & Ht).
        exists tail. rewrite parse_chunk by assumption. rewrite Ep.
        split; [reflexivity|exact Ht].
      + rewrite takeN_app_le by lia. cbn [fit]. rewrite E.
        destruct (n <? hs p) eqn:E2.
        * exists []. split; [|left; reflexivity].
          apply (parse_from_short crc p). rewrite lenN_takeN. lia.
        * exists [BBad R_overflow n]. split; [|right; eauto].
          apply parse_cut_chunk; try assumption; lia.
  Qed.

  (* the same over the blocks of a layout *)
  Fixpoint fitb (closed : list (list chunk)) (open : list chunk) (n : N) : nat :=
    match closed with
    | [] => fit open n
    | c1 :: closed' => if bs p <=? n then (length c1 + fitb closed' open (n - bs p))%nat else fit c1 n
    end.

  Lemma stream_events_cut_gen ck closed open :
    Forall closed_ok closed -> open_ok open -> forall n,
    exists tail,
      stream_events crc p ck (takeN n (flat_map (render_closed crc p) closed ++ render_chunks crc open))
      = map BChunk (firstn (fitb closed open n) (concat closed ++ open)) ++ tail /\ tail_ok tail.
  Proof.
    intros Hc Ho. induction closed as [|c1 closed IH]; intros n.
    - cbn [flat_map concat app fitb].
      destruct (parse_cut ck open [] Ho ltac:(change (lenN (@nil N)) with 0; lia) n) as (tail & E & Ht).
      rewrite app_nil_r in E.
      set (b := takeN n (render_chunks crc open)) in *.
      destruct b as [|x b'] eqn:Eb.
      + exists tail. split; [|exact Ht]. rewrite <- E. reflexivity.
      + exists tail. split; [|exact Ht]. rewrite <- E. apply stream_events_one; [discriminate|].
        rewrite <- Eb. unfold b. rewrite lenN_takeN, (lenN_render_chunks crc p pok). destruct Ho. lia.
    - inversion Hc as [|? ? Hc1 Hc']; subst. cbn [flat_map concat]. rewrite <- !app_assoc.
      destruct Hc1 as (Hbig & Hok1).
      pose proof (lenN_render_closed c1 Hok1) as L1.
      destruct (bs p <=? n) eqn:E.
      + rewrite takeN_app_ge by lia. rewrite L1. cbn [fitb]. rewrite E.
        destruct (IH Hc' (n - bs p)) as (tail & Ek & Ht).
        exists tail. split; [|exact Ht].
        rewrite (stream_events_cons crc p pok).
        * rewrite takeN_app_exact, dropN_app_exact by exact L1. rewrite Ek.
          rewrite firstn_app_2, map_app, <- app_assoc. f_equal.
          unfold render_closed. apply parse_chunks; [exact Hok1|]. rewrite lenN_zeros. lia.
        * intros E0. apply (f_equal lenN) in E0. rewrite lenN_app, L1 in E0.
          change (lenN (@nil N)) with 0 in E0. lia.
      + rewrite takeN_app_le by lia. cbn [fitb]. rewrite E.
        destruct (parse_cut ck c1 (zeros (bs p - bsize p c1)) Hok1 ltac:(rewrite lenN_zeros; lia) n) as (tail & Ep & Ht).
        fold (render_closed crc p c1) in Ep. pose proof (fit_le c1 n) as Hk.
        set (k := fit c1 n) in *.
        rewrite firstn_app. replace (k - length c1)%nat with 0%nat by lia. cbn [firstn]. rewrite app_nil_r.
        set (b := takeN n (render_closed crc p c1)) in *.
        destruct b as [|x b'] eqn:Eb.
        * exists tail. split; [|exact Ht]. rewrite <- Ep. reflexivity.
        * exists tail. split; [|exact Ht].
          rewrite <- Ep. apply stream_events_one; [discriminate|].
          rewrite <- Eb. unfold b. rewrite lenN_takeN. lia.
  Qed.

  (* what the assembler makes of a cut inside a record *)
  Definition end_ok (strict : bool) (t : list outcome) : Prop :=
    t = [] \/ t = [if strict then Err else Skipped].

  Lemma outs_drop r n l : outs (Dropped r n :: l) = outs l.
  Proof. reflexivity. Qed.
  Lemma outs_rec d l : outs (Rec d :: l) = Rec d :: outs l.
  Proof. reflexivity. Qed.

  Lemma assemble_idle_tail strict tail : tail_ok tail ->
    end_ok strict (outs (assemble p strict AIdle tail)).
  Proof.
    intros [->|(r & sz & ->)]; cbn [assemble].
    - left; reflexivity.
    - rewrite outs_drop. destruct strict; [right; reflexivity | left; reflexivity].
  Qed.

  Lemma assemble_in_tail strict acc tail : tail_ok tail ->
    outs (assemble p strict (AIn acc) tail) = [if strict then Err else Skipped].
  Proof.
    intros [->|(r & sz & ->)]; cbn [assemble]; rewrite outs_drop; destruct strict; reflexivity.
  Qed.

  Lemma assemble_cont_cut strict x cs : cont_chunks x cs -> forall k acc tail,
    (k < length cs)%nat -> tail_ok tail ->
    outs (assemble p strict (AIn acc) (map BChunk (firstn k cs) ++ tail))
    = [if strict then Err else Skipped].
  Proof.
    pose proof type_facts as (_&_&_&_&_&Hm&_&Hl).
    induction 1 as [d|d x cs Hc IH]; intros k acc tail Hk Ht.
    - cbn [length] in Hk. replace k with 0%nat by lia. cbn [firstn map app].
      apply assemble_in_tail; exact Ht.
    - destruct k as [|k]; cbn [firstn map app].
      + apply assemble_in_tail; exact Ht.
      + cbn [assemble mk c_type c_data]. rewrite Hm. apply IH; [cbn [length] in Hk; lia|exact Ht].
  Qed.

  Lemma assemble_rec_cut strict r cs k tail : rec_chunks r cs ->
    (k < length cs)%nat -> tail_ok tail ->
    end_ok strict (outs (assemble p strict AIdle (map BChunk (firstn k cs) ++ tail))).
  Proof.
    pose proof type_facts as (Hs1&Hl1&Hs2&Hl2&_).
    intros Hr Hk Ht. destruct k as [|k].
    - cbn [firstn map app]. apply assemble_idle_tail; exact Ht.
    - destruct Hr as [r'|d x cs' Hc]; cbn [length] in Hk; [lia|].
      cbn [firstn map app assemble mk c_type c_data]. rewrite Hs2, Hl2.
      right. apply (assemble_cont_cut strict x cs' Hc); [lia|exact Ht].
  Qed.

  Lemma assemble_prefix strict rs css : Forall2 rec_chunks rs css -> forall k tail,
    tail_ok tail ->
    exists m t,
      outs (assemble p strict AIdle (map BChunk (firstn k (concat css)) ++ tail))
      = map Rec (firstn m rs) ++ t /\ end_ok strict t.
  Proof.
    induction 1 as [|r cs rs css Hr Hrs IH]; intros k tail Ht.
    - exists 0%nat, (outs (assemble p strict AIdle tail)). rewrite firstn_nil. cbn [concat map app firstn].
      split; [reflexivity|]. apply assemble_idle_tail; exact Ht.
    - cbn [concat]. destruct (Nat.leb (length cs) k) eqn:E.
      + apply Nat.leb_le in E.
        rewrite firstn_app. rewrite firstn_all2 by lia.
        destruct (IH (k - length cs)%nat tail Ht) as (m & t & Em & Hok).
        exists (S m), t. rewrite map_app, <- app_assoc, (assemble_rec strict r cs _ Hr).
        rewrite outs_rec, Em. split; [reflexivity|exact Hok].
      + apply Nat.leb_gt in E.
        rewrite firstn_app. replace (k - length cs)%nat with 0%nat by lia. cbn [firstn]. rewrite app_nil_r.
        exists 0%nat, (outs (assemble p strict AIdle (map BChunk (firstn k cs) ++ tail))).
        split; [reflexivity|]. apply (assemble_rec_cut strict r cs k tail Hr E Ht).
  Qed.

  (* Cutting the written stream at any offset: the reader yields a prefix of the records,
     followed by nothing or by one Skipped (tolerant) / one Err (strict). *)
  Theorem truncation strict ck fl rs n :
    exists m t,
      jread crc p strict ck (firstn n (jwrite crc p fl rs)) = map Rec (firstn m rs) ++ t /\
      end_ok strict t.
  Proof.
    unfold jread. rewrite (reader_factor crc p pok), (jwrite_layout crc p pok).
    destruct (layout_chunks rs) as ((W1 & W2) & css & E & H).
    replace (firstn n (render_lay crc p (layout p rs)))
      with (takeN (N.of_nat n) (render_lay crc p (layout p rs)))
      by (unfold takeN; rewrite Nat2N.id; reflexivity).
    unfold render_lay.
    destruct (stream_events_cut_gen ck _ _ W1 W2 (N.of_nat n)) as (tail & Ek & Ht).
    rewrite Ek. fold (lay_chunks (layout p rs)). rewrite E.
    apply (assemble_prefix strict rs css H _ tail Ht).
  Qed.

  (* ---- every record that lies wholly inside the first n bytes is yielded *)
  Definition lay_ext (l1 l : lay) : Prop :=
    exists more,
      (l_closed l = l_closed l1 /\ l_open l = l_open l1 ++ more) \/
      (exists rest, l_closed l = l_closed l1 ++ (l_open l1 ++ more) :: rest).

  Lemma lay_ext_refl l : lay_ext l l.
  Proof. exists []. left. rewrite app_nil_r. auto. Qed.

  Lemma lay_ext_push l1 l c : lay_ext l1 l -> lay_ext l1 (lay_push l c).
  Proof.
    intros (more & [(E1 & E2)|(rest & E)]); cbn.
    - exists (more ++ [c]). left. cbn. rewrite E1, E2, app_assoc. auto.
    - exists more. right. exists rest. exact E.
  Qed.

  Lemma lay_ext_close l1 l : lay_ext l1 l -> lay_ext l1 (lay_close l).
  Proof.
    intros (more & [(E1 & E2)|(rest & E)]); exists more; right; cbn.
    - exists []. rewrite E1, E2. reflexivity.
    - exists (rest ++ [l_open l]). rewrite E, <- app_assoc. reflexivity.
  Qed.

  Lemma lay_ext_write l1 : forall fuel l f d q, lay_ext l1 l -> lay_ext l1 (lay_write p fuel l f d q).
  Proof.
    induction fuel as [|fuel IH]; intros l f d q H; destruct q as [|x q]; cbn [lay_write];
      try (apply lay_ext_push; exact H); [exact H|].
    destruct (bsize p (l_open l) + hs p + lenN d =? bs p); apply IH; [|exact H].
    apply lay_ext_close, lay_ext_push. exact H.
  Qed.

  Lemma lay_ext_record l1 l r : lay_ext l1 l -> lay_ext l1 (lay_record p l r).
  Proof.
    intros H. unfold lay_record. apply lay_ext_write. unfold lay_next.
    destruct (bs p <? bsize p (l_open l) + hs p); [apply lay_ext_close|]; exact H.
  Qed.

  Lemma lay_ext_fold rs : forall l1 l, lay_ext l1 l -> lay_ext l1 (fold_left (lay_record p) rs l).
  Proof.
    induction rs as [|r rs IH]; intros l1 l H; cbn [fold_left]; [exact H|].
    apply IH, lay_ext_record, H.
  Qed.

  Lemma fit_app a : forall b n, bsize p a <= n ->
    fit (a ++ b) n = (length a + fit b (n - bsize p a))%nat.
  Proof.
    induction a as [|c a IH]; intros b n H; cbn [app fit bsize length] in *.
    - replace (n - 0) with n by lia. reflexivity.
    - replace (csize p c <=? n) with true by lia. rewrite IH by lia.
      replace (n - csize p c - bsize p a) with (n - (csize p c + bsize p a)) by lia. reflexivity.
  Qed.

  Lemma fitb_prefix cl1 : Forall closed_ok cl1 -> forall rest open n,
    bs p * lenN cl1 <= n ->
    fitb (cl1 ++ rest) open n = (length (concat cl1) + fitb rest open (n - bs p * lenN cl1))%nat.
  Proof.
    induction 1 as [|c cl1 Hc Hcl IH]; intros rest open n Hn.
    - change (lenN (@nil (list chunk))) with 0. replace (n - bs p * 0) with n by lia. reflexivity.
    - rewrite lenN_cons in Hn. cbn [app fitb concat]. replace (bs p <=? n) with true by lia.
      rewrite IH by lia. rewrite app_length, lenN_cons.
      replace (n - bs p - bs p * lenN cl1) with (n - bs p * (1 + lenN cl1)) by lia. lia.
  Qed.

  Lemma lenN_render_lay l : wf_lay l ->
    lenN (render_lay crc p l) = bs p * lenN (l_closed l) + bsize p (l_open l).
  Proof.
    intros (H1 & H2). unfold render_lay. rewrite lenN_app, (lenN_render_chunks crc p pok). f_equal.
    induction H1 as [|c cl Hc Hcl IH];
      [cbn [flat_map]; change (lenN (@nil (list chunk))) with 0; change (lenN (@nil N)) with 0; lia|].
    cbn [flat_map]. rewrite lenN_app, lenN_cons, IH, lenN_render_closed by apply Hc. lia.
  Qed.

  Lemma fitb_ext l1 l n :
    wf_lay l1 -> lay_ext l1 l -> lenN (render_lay crc p l1) <= n ->
    (length (lay_chunks l1) <= fitb (l_closed l) (l_open l) n)%nat.
  Proof.
    intros W1 (more & Hext) Hn. rewrite (lenN_render_lay l1 W1) in Hn.
    destruct W1 as (Wc & Wo). unfold lay_chunks. rewrite app_length.
    destruct Hext as [(E1 & E2)|(rest & E)].
    - rewrite E1, E2. rewrite <- (app_nil_r (l_closed l1)) at 2.
      rewrite (fitb_prefix _ Wc) by lia. cbn [fitb]. rewrite fit_app by lia. lia.
    - rewrite E. rewrite (fitb_prefix _ Wc) by lia. cbn [fitb].
      destruct (bs p <=? n - bs p * lenN (l_closed l1)); [rewrite app_length; lia|].
      rewrite fit_app by lia. lia.
  Qed.

  Lemma outs_app a b : outs (a ++ b) = outs a ++ outs b.
  Proof. unfold outs. apply filter_app. Qed.

  Theorem truncation_complete strict ck fl rs n j :
    (length (jwrite crc p fl (firstn j rs)) <= n)%nat ->
    exists t, jread crc p strict ck (firstn n (jwrite crc p fl rs)) = map Rec (firstn j rs) ++ t.
  Proof.
    intros Hlen. unfold jread. rewrite (reader_factor crc p pok).
    rewrite !(jwrite_layout crc p pok) in *.
    set (rs1 := firstn j rs) in *. set (rs2 := skipn j rs).
    assert (Ers : rs = rs1 ++ rs2) by (symmetry; apply firstn_skipn).
    destruct (layout_ok rs1 lay_empty wf_empty) as (W1 & css1 & E1 & H1).
    change (lay_chunks lay_empty) with (@nil chunk) in E1. cbn [app] in E1.
    fold (layout p rs1) in W1, E1.
    destruct (layout_ok rs2 (layout p rs1) W1) as (W & css2 & E2 & H2).
    assert (EL : layout p rs = fold_left (lay_record p) rs2 (layout p rs1)).
    { unfold layout. rewrite Ers, fold_left_app. reflexivity. }
    rewrite <- EL in W, E2.
    assert (Hext : lay_ext (layout p rs1) (layout p rs)) by (rewrite EL; apply lay_ext_fold, lay_ext_refl).
    replace (firstn n (render_lay crc p (layout p rs)))
      with (takeN (N.of_nat n) (render_lay crc p (layout p rs)))
      by (unfold takeN; rewrite Nat2N.id; reflexivity).
    destruct W as (Wc & Wo). unfold render_lay at 1.
    destruct (stream_events_cut_gen ck _ _ Wc Wo (N.of_nat n)) as (tail & Ek & Ht).
    rewrite Ek. fold (lay_chunks (layout p rs)). rewrite E2.
    pose proof (fitb_ext (layout p rs1) (layout p rs) (N.of_nat n) W1 Hext) as Hk.
    assert (Hn' : lenN (render_lay crc p (layout p rs1)) <= N.of_nat n) by (unfold lenN; lia).
    specialize (Hk Hn'). rewrite E1 in Hk |- *.
    set (k := fitb _ _ _) in *.
    rewrite firstn_app. rewrite (firstn_all2 (concat css1)) by lia.
    rewrite map_app, <- app_assoc.
    rewrite (assemble_records strict rs1 css1 _ H1). rewrite outs_app, outs_recs.
    eexists. reflexivity.
  Qed.
End JournalProofs.
