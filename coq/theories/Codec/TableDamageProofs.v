(* Codec/TableDamageProofs.v — Stage C, damage: a block whose stored checksum differs from the
   checksum of its (possibly altered) bytes is never returned as data by a verifying read, and a
   reader some of whose block fetches fail with Corrupt answers every lookup either exactly as
   the intact reader does or with Corrupted — never with other data. *)
From GL Require Import Base.Bytes Base.Varint Base.Order Codec.Block Codec.Table.
From Coq Require Import Lia.

Local Open Scope N_scope.

Section Damage.
  Variable tp : tparams.
  Variable crc : bytes -> N.
  Variable decompress : bytes -> option bytes.

  (* the bytes a read of handle h looks at, its stored and its recomputed checksum *)
  Definition raw_of (file : bytes) (h : bhandle) : bytes :=
    sliceN (bh_off h) (bh_off h + bh_len h + tp_trailerLen tp) file.
  Definition stored_crc (file : bytes) (h : bhandle) : N := le_decode (dropN (bh_len h + 1) (raw_of file h)).
  Definition computed_crc (file : bytes) (h : bhandle) : N := crc (takeN (bh_len h + 1) (raw_of file h)).

  (* "detects": the checksum notices the alteration (computable per case; a 32-bit CRC detects
     every single-byte alteration of data, type byte or the stored checksum itself) *)
  Definition detects (file : bytes) (h : bhandle) : Prop := stored_crc file h <> computed_crc file h.

  Lemma read_raw_block_detects file h : detects file h ->
    match read_raw_block tp crc decompress file h true with Ok _ => False | _ => True end.
  Proof.
    intros D. unfold read_raw_block.
    destruct (two63 <=? bh_len h + tp_trailerLen tp); [exact I|].
    fold (raw_of file h).
    destruct (lenN (raw_of file h) <? bh_len h + tp_trailerLen tp); [exact I|].
    unfold detects, stored_crc, computed_crc in D.
    destruct (N.eqb_spec (le_decode (dropN (bh_len h + 1) (raw_of file h))) (crc (takeN (bh_len h + 1) (raw_of file h)))) as [E|NE].
    - contradiction.
    - cbn [negb andb]. exact I.
  Qed.

  Theorem read_block_detects file h : detects file h ->
    match read_block_at tp crc decompress file h true with Ok _ => False | _ => True end.
  Proof.
    intros D. unfold read_block_at, bind_res.
    pose proof (read_raw_block_detects file h D) as H.
    destruct (read_raw_block tp crc decompress file h true); [contradiction | exact I | exact I].
  Qed.
End Damage.

(* ------------------------------------------------------------ degraded readers *)
(* rd' is rd except that some block fetches fail with Corrupt *)
Definition degraded (rd rd' : treader) : Prop :=
  tr_index rd' = tr_index rd /\ tr_filter rd' = tr_filter rd /\ tr_dataEnd rd' = tr_dataEnd rd /\
  forall h, tr_fetch rd' h = tr_fetch rd h \/ tr_fetch rd' h = Corrupt.

Section Degraded.
  Variable c : comparer.
  Variable rd rd' : treader.
  Hypothesis deg : degraded rd rd'.

  Theorem tfind_degraded key filtered :
    tfind c rd' key filtered = tfind c rd key filtered \/ tfind c rd' key filtered = FCorrupted.
  Proof.
    destruct deg as (Ei & Ef & _ & Hfetch). unfold tfind. rewrite Ei, Ef.
    destruct (tr_index rd) as [ib| |]; [|left; reflexivity|left; reflexivity].
    destruct (bi_seek c (new_block_iter c ib None true) key) as [ok index1].
    destruct (negb ok); [left; reflexivity|].
    destruct (decode_bh (bi_value index1)) as [dataBH n| |]; [|left; reflexivity|left; reflexivity].
    match goal with |- context [if ?r then FNotFound else _] => destruct r; [left; reflexivity|] end.
    destruct (Hfetch dataBH) as [E|E]; rewrite E; [|right; reflexivity].
    destruct (tr_fetch rd dataBH) as [blk| |]; [|left; reflexivity|left; reflexivity].
    destruct (bi_seek c (new_block_iter c blk None false) key) as [ok2 data1].
    destruct ok2; [left; reflexivity|].
    destruct (bi_err data1); [left; reflexivity|].
    destruct (bi_next index1) as [ok3 index2].
    destruct (negb ok3); [left; reflexivity|].
    destruct (decode_bh (bi_value index2)) as [dataBH2 n2| |]; [|left; reflexivity|left; reflexivity].
    destruct (Hfetch dataBH2) as [E2|E2]; rewrite E2; [|right; reflexivity].
    left; reflexivity.
  Qed.

  Theorem tget_degraded key :
    tget c rd' key = tget c rd key \/ tget c rd' key = FCorrupted.
  Proof.
    unfold tget. destruct (tfind_degraded key false) as [E|E]; rewrite E; [left | right]; reflexivity.
  Qed.

  Theorem toffset_degraded key : toffset_of c rd' key = toffset_of c rd key.
  Proof.
    destruct deg as (Ei & _ & Ed & _). unfold toffset_of. rewrite Ei, Ed. reflexivity.
  Qed.
End Degraded.
