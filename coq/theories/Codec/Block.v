(* Codec/Block.v — model of one table block (leveldb/table/writer.go: blockWriter;
   leveldb/table/reader.go: block, blockIter, newBlockIter).

   Writer: append with shared-prefix compression and restart interval, finish with the restart
   array and its length.  Reader: readBlock's trailer-of-the-block parsing, block.entry,
   block.seek / block.restartIndex (sort.Search is modelled by the same loop, so the behaviour on
   non-monotone data is the loop's), blockIter First/Last/Seek/Next/Prev with the slice fields
   (riStart, riLimit, offsetStart, offsetRealStart, offsetLimit) and newBlockIter's slicing.

   Deliberate abstraction (stated in props/C13.json): blockIter.Prev keeps a cache of the
   entries of the current restart range (prevNode / prevKeys) and pops it; the model's Prev
   re-scans the restart range from its restart point on every call, which is what the cache
   records.  [bi_prevOffset] is Go's prevOffset in dirForward and stands for the start offset
   that the cache implies in dirBackward.

   Offsets and lengths are N.  Where Go would index out of range the model says Panic / ErrPanic;
   three places where Go's behaviour on corrupt data is not a clean panic are also mapped to
   Panic and marked (approx).  None of them is reachable on a block produced by the writer
   (BlockProofs.v), and with checksum verification a damaged block never reaches this code
   (Props/C13.v, table_damage_contained).

   Model file: definitions only. *)
From GL Require Export Base.Bytes Base.Order Base.Varint Base.Cursor.

Inductive res (A : Type) := Ok (a : A) | Corrupt | Panic.
Arguments Ok {A} a.
Arguments Corrupt {A}.
Arguments Panic {A}.

(* ------------------------------------------------------------------ writer *)

(* sharedPrefixLen *)
Fixpoint shared_prefix_len (a b : bytes) : N :=
  match a, b with
  | x :: a', y :: b' => if x =? y then 1 + shared_prefix_len a' b' else 0
  | _, _ => 0
  end.

Record bwriter := mkBW {
  bw_buf : bytes;            (* buf *)
  bw_n : N;                  (* nEntries *)
  bw_prev : bytes;           (* prevKey *)
  bw_restarts : list N       (* restarts (uint32 truncation happens in le32 at finish) *)
}.

Definition bw_empty : bwriter := mkBW [] 0 [] [].

(* blockWriter.append; [ri] = restartInterval *)
Definition bw_append (ri : N) (w : bwriter) (k v : bytes) : bwriter :=
  let restart := (bw_n w mod ri =? 0) in
  let nsh := if restart then 0 else shared_prefix_len (bw_prev w) k in
  mkBW (bw_buf w ++ put_uvarint nsh ++ put_uvarint (lenN k - nsh) ++ put_uvarint (lenN v)
                 ++ dropN nsh k ++ v)
       (bw_n w + 1)
       k
       (if restart then bw_restarts w ++ [lenN (bw_buf w)] else bw_restarts w).

(* blockWriter.finish: the finished block bytes *)
Definition bw_finish (w : bwriter) : bytes :=
  let rs := if bw_n w =? 0 then bw_restarts w ++ [0] else bw_restarts w in
  bw_buf w ++ flat_map le32 (rs ++ [lenN rs]).

(* blockWriter.reset (prevKey is kept) *)
Definition bw_reset (w : bwriter) : bwriter := mkBW [] 0 (bw_prev w) [].

(* blockWriter.bytesLen *)
Definition bw_bytes_len (w : bwriter) : N :=
  let rl := lenN (bw_restarts w) in
  lenN (bw_buf w) + 4 * (if rl =? 0 then 1 else rl) + 4.

Definition bw_append_all (ri : N) (w : bwriter) (kvs : list (bytes * bytes)) : bwriter :=
  fold_left (fun w kv => bw_append ri w (fst kv) (snd kv)) kvs w.

Definition block_build (ri : N) (kvs : list (bytes * bytes)) : bytes :=
  bw_finish (bw_append_all ri bw_empty kvs).

(* ------------------------------------------------------------------ reader: block *)

Record block := mkBlock {
  b_data : bytes;
  b_rlen : N;     (* restartsLen *)
  b_roff : N      (* restartsOffset *)
}.

(* Reader.readBlock after readRawBlock.  len(data) < 4: data[len(data)-4:] panics.
   (approx) restartsLen so large that restartsOffset is negative: Go carries the negative
   offset on and later reports misalignment, panics or reads garbage depending on the call;
   the model stops with Panic. *)
Definition read_block (data : bytes) : res block :=
  if lenN data <? 4 then Panic
  else let rl := le_decode (dropN (lenN data - 4) data) in
       if lenN data <? (rl + 1) * 4 then Panic
       else Ok (mkBlock data rl (lenN data - (rl + 1) * 4)).

(* block.restartOffset: Uint32(b.data[restartsOffset+4*index:]); None = index out of range *)
Definition restart_offset (b : block) (index : N) : option N :=
  let p := b_roff b + 4 * index in
  if lenN (b_data b) <? p + 4 then None
  else Some (le_decode (sliceN p (p + 4) (b_data b))).

(* the key stored at a restart point, as block.seek's closure reads it: skip the one-byte
   shared length, read key length and value length.  (approx) a malformed varint there makes Go
   compare garbage; the model says None (= Panic). *)
Definition restart_key (b : block) (index : N) : option bytes :=
  match restart_offset b index with
  | None => None
  | Some off =>
      let d := b_data b in
      let o1 := off + 1 in
      if lenN d <? o1 then None
      else match uvarint (dropN o1 d) with
           | UvOk v1 n1 =>
               match uvarint (dropN (o1 + n1) d) with
               | UvOk _ n2 =>
                   let m := o1 + n1 + n2 in
                   if lenN d <? m + v1 then None else Some (sliceN m (m + v1) d)
               | _ => None
               end
           | _ => None
           end
  end.

(* sort.Search(n, f): i, j := 0, n; for i < j { h := (i+j)/2; if !f(h) { i = h+1 } else { j = h } }.
   [f] may fail (None = the closure panicked).  Fuel j - i + 1 always suffices. *)
Fixpoint search_f (fuel : nat) (f : N -> option bool) (i j : N) : option N :=
  match fuel with
  | O => None
  | S fu =>
      if i <? j then
        let h := (i + j) / 2 in
        match f h with
        | None => None
        | Some false => search_f fu f (h + 1) j
        | Some true => search_f fu f i h
        end
      else Some i
  end.
Definition sort_search (n : N) (f : N -> option bool) : option N :=
  search_f (S (N.to_nat n)) f 0 n.

Definition is_gt (r : comparison) : bool := match r with Gt => true | _ => false end.

(* block.seek(cmp, rstart, rlimit, key) = (index, offset) *)
Definition block_seek (c : comparer) (b : block) (rstart rlimit : N) (key : bytes) : option (N * N) :=
  match sort_search (rlimit - rstart)
          (fun i => option_map (fun k => is_gt (cmp c k key)) (restart_key b (rstart + i))) with
  | None => None
  | Some s =>
      let index := if s =? 0 then rstart else s + rstart - 1 in
      option_map (fun off => (index, off)) (restart_offset b index)
  end.

(* block.restartIndex(rstart, rlimit, offset); None also when the Go result would be -1 *)
Definition restart_index (b : block) (rstart rlimit offset : N) : option N :=
  match sort_search (rlimit - rstart)
          (fun i => option_map (fun o => offset <? o) (restart_offset b (rstart + i))) with
  | None => None
  | Some s => if s + rstart =? 0 then None else Some (s + rstart - 1)
  end.

(* block.entry(offset) *)
Inductive entry_res :=
| EntEnd                                     (* n = 0, err = nil: offset = restartsOffset *)
| EntErr                                     (* ErrCorrupted *)
| EntPanic
| EntOk (key value : bytes) (nShared n : N).

(* offset + n of a varint read as Go's int arithmetic sees it; None = negative (slice panics) *)
Definition uv_adv (off : N) (r : uv_res) : option N :=
  match r with
  | UvOk _ n => Some (off + n)
  | UvShort => Some off
  | UvOver m => if off <? m then None else Some (off - m)
  end.

Definition two63 : N := 9223372036854775808.

Definition block_entry (b : block) (offset : N) : entry_res :=
  if b_roff b <=? offset then (if offset =? b_roff b then EntEnd else EntErr)
  else
    let d := b_data b in
    let r0 := uvarint (dropN offset d) in
    match uv_adv offset r0 with
    | None => EntPanic
    | Some o1 =>
        let r1 := uvarint (dropN o1 d) in
        match uv_adv o1 r1 with
        | None => EntPanic
        | Some o2 =>
            let r2 := uvarint (dropN o2 d) in
            match r0, r1, r2 with
            | UvOk v0 n0, UvOk v1 n1, UvOk v2 n2 =>
                let m := n0 + n1 + n2 in
                let n := m + v1 + v2 in
                (* (approx) int(v1), int(v2) or the sum wrap negative in Go: then either the
                   bounds check reports corruption or a slice expression panics *)
                if (two63 <=? v1) || (two63 <=? v2) || (two63 <=? offset + n) then EntPanic
                else if b_roff b <? offset + n then EntErr
                else EntOk (sliceN (offset + m) (offset + m + v1) d)
                           (sliceN (offset + m + v1) (offset + n) d) v0 n
            | _, _, _ => EntErr
            end
        end
    end.

(* ------------------------------------------------------------------ reader: blockIter *)

Inductive bdir := DSOI | DEOI | DBackward | DForward.
Inductive berr := ErrCorrupt | ErrPanic | ErrSlice | ErrFuel.

Record biter := mkBI {
  bi_blk : block;
  bi_key : bytes;
  bi_value : bytes;
  bi_offset : N;
  bi_prevOffset : N;       (* see header *)
  bi_ri : N;               (* restartIndex *)
  bi_dir : bdir;
  bi_riStart : N;
  bi_riLimit : N;
  bi_offStart : N;
  bi_offRealStart : N;
  bi_offLimit : N;
  bi_err : option berr
}.

Definition bdir_eqb (a b : bdir) : bool :=
  match a, b with
  | DSOI, DSOI | DEOI, DEOI | DBackward, DBackward | DForward, DForward => true
  | _, _ => false
  end.

(* field updates *)
Definition bi_with_pos (it : biter) (key value : bytes) (offset prevOffset ri : N) (d : bdir) : biter :=
  mkBI (bi_blk it) key value offset prevOffset ri d
       (bi_riStart it) (bi_riLimit it) (bi_offStart it) (bi_offRealStart it) (bi_offLimit it) (bi_err it).
Definition bi_with_dir (it : biter) (d : bdir) : biter :=
  bi_with_pos it (bi_key it) (bi_value it) (bi_offset it) (bi_prevOffset it) (bi_ri it) d.
Definition bi_with_start (it : biter) (riStart offStart offRealStart : N) : biter :=
  mkBI (bi_blk it) (bi_key it) (bi_value it) (bi_offset it) (bi_prevOffset it) (bi_ri it) (bi_dir it)
       riStart (bi_riLimit it) offStart offRealStart (bi_offLimit it) (bi_err it).
Definition bi_with_limit (it : biter) (riLimit offLimit : N) : biter :=
  mkBI (bi_blk it) (bi_key it) (bi_value it) (bi_offset it) (bi_prevOffset it) (bi_ri it) (bi_dir it)
       (bi_riStart it) riLimit (bi_offStart it) (bi_offRealStart it) offLimit (bi_err it).
(* sErr: err set, key and value dropped *)
Definition bi_serr (it : biter) (e : berr) : biter :=
  mkBI (bi_blk it) [] [] (bi_offset it) (bi_prevOffset it) (bi_ri it) (bi_dir it)
       (bi_riStart it) (bi_riLimit it) (bi_offStart it) (bi_offRealStart it) (bi_offLimit it) (Some e).

Definition bi_has_err (it : biter) : bool := match bi_err it with Some _ => true | None => false end.

(* Valid / Key / Value *)
Definition bi_valid (it : biter) : bool :=
  negb (bi_has_err it) && (bdir_eqb (bi_dir it) DBackward || bdir_eqb (bi_dir it) DForward).
Definition bi_get (it : biter) : option (bytes * bytes) :=
  if bi_valid it then Some (bi_key it, bi_value it) else None.

(* decode the entry at the iterator's offset against its current key *)
Inductive read_res := RdOk (key value : bytes) (n : N) | RdEnd | RdErr (e : berr).
Definition bi_read (b : block) (prevkey : bytes) (offset : N) : read_res :=
  match block_entry b offset with
  | EntErr => RdErr ErrCorrupt
  | EntPanic => RdErr ErrPanic
  | EntEnd => RdEnd
  | EntOk k v nsh n =>
      (* (approx) i.key[:nShared] beyond len(i.key): Go panics or exposes stale bytes *)
      if lenN prevkey <? nsh then RdErr ErrPanic else RdOk (takeN nsh prevkey ++ k) v n
  end.

(* Next's first loop:  for i.offset < i.offsetRealStart { ... } ; inr = Next returned false *)
Fixpoint bi_skip (fuel : nat) (it : biter) : biter + biter :=
  if bi_offset it <? bi_offRealStart it then
    match fuel with
    | O => inr (bi_serr it ErrFuel)
    | S f =>
        match bi_read (bi_blk it) (bi_key it) (bi_offset it) with
        | RdErr e => inr (bi_serr it e)
        | RdEnd => inr (bi_with_dir it DEOI)
        | RdOk k v n => bi_skip f (bi_with_pos it k v (bi_offset it + n) (bi_prevOffset it) (bi_ri it) (bi_dir it))
        end
    end
  else inl it.

Definition bi_fuel (it : biter) : nat := S (length (b_data (bi_blk it))).

Definition bi_next (it : biter) : bool * biter :=
  if bdir_eqb (bi_dir it) DEOI || bi_has_err it then (false, it)
  else
    let it1 := if bdir_eqb (bi_dir it) DSOI
               then bi_with_pos it (bi_key it) (bi_value it) (bi_offStart it) (bi_prevOffset it) (bi_riStart it) (bi_dir it)
               else it in
    match bi_skip (bi_fuel it1) it1 with
    | inr it2 => (false, it2)
    | inl it2 =>
        if bi_offLimit it2 <=? bi_offset it2 then
          let it3 := bi_with_dir it2 DEOI in
          (false, if bi_offset it2 =? bi_offLimit it2 then it3 else bi_serr it3 ErrCorrupt)
        else
          match bi_read (bi_blk it2) (bi_key it2) (bi_offset it2) with
          | RdErr e => (false, bi_serr it2 e)
          | RdEnd => (false, bi_with_dir it2 DEOI)
          | RdOk k v n => (true, bi_with_pos it2 k v (bi_offset it2 + n) (bi_offset it2) (bi_ri it2) DForward)
          end
    end.

(* Seek's loop:  for i.Next() { if cmp(i.key, key) >= 0 { return true } }; return false *)
Fixpoint bi_seek_loop (fuel : nat) (c : comparer) (key : bytes) (it : biter) : bool * biter :=
  match fuel with
  | O => (false, bi_serr it ErrFuel)
  | S f =>
      let '(ok, it') := bi_next it in
      if ok then
        match cmp c (bi_key it') key with
        | Lt => bi_seek_loop f c key it'
        | _ => (true, it')
        end
      else (false, it')
  end.

Definition bi_seek (c : comparer) (it : biter) (key : bytes) : bool * biter :=
  if bi_has_err it then (false, it)
  else
    match block_seek c (bi_blk it) (bi_riStart it) (bi_riLimit it) key with
    | None => (false, bi_serr it ErrPanic)
    | Some (ri, off) =>
        let d := if bdir_eqb (bi_dir it) DSOI || bdir_eqb (bi_dir it) DEOI then DForward else bi_dir it in
        let it1 := bi_with_pos it (bi_key it) (bi_value it) (N.max (bi_offStart it) off) (bi_prevOffset it) ri d in
        bi_seek_loop (bi_fuel it) c key it1
    end.

Definition bi_first (it : biter) : bool * biter :=
  if bi_has_err it then (false, it) else bi_next (bi_with_dir it DSOI).

(* Prev's scan of a restart range: from [offset] decode entries until the end offset of an
   entry reaches [target]; the value is only kept for entries at or after offsetRealStart. *)
Inductive scan_res := ScOk (key value : bytes) (start offset : N) | ScErr (e : berr).
Fixpoint prev_scan (fuel : nat) (b : block) (realStart target offset : N) (key value : bytes) : scan_res :=
  match fuel with
  | O => ScErr ErrFuel
  | S f =>
      match bi_read b key offset with
      | RdErr e => ScErr e
      | RdEnd =>
          (* n = 0: key = key[:0], value = nil, offset unchanged *)
          let value' := if realStart <=? offset then [] else value in
          if target <=? offset then (if offset =? target then ScOk [] value' offset offset else ScErr ErrCorrupt)
          else prev_scan f b realStart target offset [] value'
      | RdOk key' v n =>
          let value' := if realStart <=? offset then v else value in
          let offset' := offset + n in
          if target <=? offset' then (if offset' =? target then ScOk key' value' offset offset' else ScErr ErrCorrupt)
          else prev_scan f b realStart target offset' key' value'
      end
  end.

Definition bi_prev (it : biter) : bool * biter :=
  if bdir_eqb (bi_dir it) DSOI || bi_has_err it then (false, it)
  else
    (* target = start offset of the current entry (offsetLimit from EOI); ri = restart range to
       scan, before the "restart point = target" adjustment *)
    let start_r :=
      match bi_dir it with
      | DEOI =>
          if bi_offLimit it =? bi_offRealStart it then inl tt
          else if bi_riLimit it =? 0 then inr None
          else inr (Some (bi_offLimit it, bi_riLimit it - 1))
      | _ =>
          if bi_prevOffset it =? bi_offRealStart it then inl tt
          else inr (option_map (fun r => (bi_prevOffset it, r))
                      (restart_index (bi_blk it) (bi_ri it) (bi_riLimit it) (bi_prevOffset it)))
      end in
    match start_r with
    | inl _ => (false, bi_with_dir it DSOI)
    | inr None => (false, bi_serr it ErrPanic)
    | inr (Some (target, ri)) =>
        match restart_offset (bi_blk it) ri with
        | None => (false, bi_serr it ErrPanic)
        | Some off0 =>
            (* if offset == i.offset { ri--; if ri < 0 { SOI }; offset = restartOffset(ri) } *)
            let adj :=
              if off0 =? target then
                (if ri =? 0 then inl tt
                 else inr (option_map (fun o => (ri - 1, o)) (restart_offset (bi_blk it) (ri - 1))))
              else inr (Some (ri, off0)) in
            match adj with
            | inl _ => (false, bi_with_dir it DSOI)
            | inr None => (false, bi_serr it ErrPanic)
            | inr (Some (ri', off)) =>
                match prev_scan (bi_fuel it) (bi_blk it) (bi_offRealStart it) target off [] [] with
                | ScErr e => (false, bi_serr (bi_with_dir it DBackward) e)
                | ScOk k v st o => (true, bi_with_pos it k v o st ri' DBackward)
                end
            end
        end
    end.

Definition bi_last (it : biter) : bool * biter :=
  if bi_has_err it then (false, it) else bi_prev (bi_with_dir it DEOI).

(* blockIter.reset *)
Definition bi_reset (it : biter) : biter :=
  bi_with_pos it [] [] (bi_offStart it) (bi_prevOffset it) (bi_riStart it) DSOI.

(* isFirst / isLast (used by indexIter.Get) *)
Definition bi_is_first (it : biter) : bool :=
  (bdir_eqb (bi_dir it) DForward || bdir_eqb (bi_dir it) DBackward)
  && (bi_prevOffset it =? bi_offRealStart it).
Definition bi_is_last (it : biter) : bool :=
  (bdir_eqb (bi_dir it) DForward || bdir_eqb (bi_dir it) DBackward)
  && (bi_offset it =? bi_offLimit it).

(* util.Range: Start / Limit, each possibly nil *)
Definition krange := (option bytes * option bytes)%type.

(* Reader.newBlockIter(b, _, slice, inclLimit) *)
Definition bi_unsliced (b : block) : biter :=
  mkBI b [] [] 0 0 0 DSOI 0 (b_rlen b) 0 0 (b_roff b) None.

Definition new_block_iter (c : comparer) (b : block) (slice : option krange) (inclLimit : bool) : biter :=
  let bi := bi_unsliced b in
  match slice with
  | None => bi
  | Some (start, limit) =>
      let bi1 :=
        match start with
        | None => bi
        | Some s =>
            let '(ok, bi') := bi_seek c bi s in
            if ok then
              match restart_index b (bi_ri bi') (b_rlen b) (bi_prevOffset bi') with
              | None => bi_serr bi' ErrPanic
              | Some rs =>
                  match restart_offset b rs with
                  | None => bi_serr bi' ErrPanic
                  | Some os => bi_with_start bi' rs os (bi_prevOffset bi')
                  end
              end
            else bi_with_start bi' (b_rlen b) (b_roff b) (b_roff b)
        end in
      let set_limit (x : biter) := bi_with_limit x (bi_ri x + 1) (bi_prevOffset x) in
      let bi2 :=
        match limit with
        | None => bi1
        | Some l =>
            let '(ok, bi') := bi_seek c bi1 l in
            if ok then
              (if inclLimit then
                 let '(ok2, bi'') := bi_next bi' in
                 if ok2 then set_limit bi'' else bi''
               else set_limit bi')
            else bi'
        end in
      let bi3 := bi_reset bi2 in
      if bi_offLimit bi3 <? bi_offStart bi3 then bi_serr bi3 ErrSlice else bi3
  end.

(* ------------------------------------------------------------------ driving an iterator *)
Definition bi_step (c : comparer) (it : biter) (o : cop) : bool * biter :=
  match o with
  | OpFirst => bi_first it
  | OpLast => bi_last it
  | OpSeek k => bi_seek c it k
  | OpNext => bi_next it
  | OpPrev => bi_prev it
  end.

(* the observations of a run: after every call, Some (key, value) when the call returned true *)
Fixpoint bi_run (c : comparer) (it : biter) (ops : list cop) : list (option (bytes * bytes)) :=
  match ops with
  | [] => []
  | o :: r =>
      let '(ok, it') := bi_step c it o in
      (if ok then Some (bi_key it', bi_value it') else None) :: bi_run c it' r
  end.

(* all entries of a block: First, then Next until false; Corrupt/Panic when the iterator ends with an error *)
Fixpoint bi_collect (fuel : nat) (it : biter) (acc : list (bytes * bytes)) : res (list (bytes * bytes)) :=
  match fuel with
  | O => Panic
  | S f =>
      let '(ok, it') := bi_next it in
      if ok then bi_collect f it' ((bi_key it', bi_value it') :: acc)
      else match bi_err it' with
           | None => Ok (rev acc)
           | Some ErrCorrupt => Corrupt
           | Some _ => Panic
           end
  end.

Definition block_entries (b : block) : res (list (bytes * bytes)) :=
  bi_collect (bi_fuel (bi_unsliced b)) (bi_unsliced b) [].

Definition block_decode (data : bytes) : res (list (bytes * bytes)) :=
  match read_block data with
  | Ok b => block_entries b
  | Corrupt => Corrupt
  | Panic => Panic
  end.
