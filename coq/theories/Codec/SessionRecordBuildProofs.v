(* Codec/SessionRecordBuildProofs.v — proofs about Codec/SessionRecord.v, part 3: decoding into a record that
   already holds fields (the one record session.recover reuses) against decoding into a fresh one ([carry]);
   levels of decoded records are non-negative; the record the setters build from field values and its round
   trip; the canonical codec for the edits of Store/Crash.v. *)
From GL Require Import Base.Bytes Base.BytesProofs Base.Varint Base.VarintProofs
  Codec.SessionRecord Codec.SessionRecordSpec Codec.SessionRecordProofs Codec.SessionRecordCutProofs Store.Crash.
From Coq Require Import Lia ZArith.
Open Scope N_scope.

Section Build.
  Variable p : rparams.
  Hypothesis pok : rparams_ok p.

  Ltac nodup_facts :=
    let H := fresh in
    destruct pok as [H _]; unfold tags in H;
    repeat match goal with
           | H : NoDup (_ :: _) |- _ => inversion H; clear H; subst
           end;
    cbn [In] in *.

  Ltac eqb_tags :=
    repeat match goal with
           | |- context [?a =? ?a] => rewrite (N.eqb_refl a)
           | |- context [tComparer p =? ?b] => progress eqb_one (tComparer p) b
           | |- context [tJournalNum p =? ?b] => progress eqb_one (tJournalNum p) b
           | |- context [tNextFileNum p =? ?b] => progress eqb_one (tNextFileNum p) b
           | |- context [tSeqNum p =? ?b] => progress eqb_one (tSeqNum p) b
           | |- context [tCompPtr p =? ?b] => progress eqb_one (tCompPtr p) b
           | |- context [tDelTable p =? ?b] => progress eqb_one (tDelTable p) b
           | |- context [tAddTable p =? ?b] => progress eqb_one (tAddTable p) b
           | |- context [tPrevJournalNum p =? ?b] => progress eqb_one (tPrevJournalNum p) b
           end
  with eqb_one a b :=
    let E := fresh in
    assert (E : (a =? b) = false) by (apply N.eqb_neq; intros ?; nodup_facts; intuition congruence);
    rewrite E; clear E.

  (* ---------------- carry: the fields of r laid over r0 ---------------- *)
  Definition carry (r0 r : srec) : srec :=
    mksr (N.lor (sr_has r0) (sr_has r))
         (if has r (tComparer p) then sr_comparer r else sr_comparer r0)
         (if has r (tJournalNum p) then sr_journal r else sr_journal r0)
         (if has r (tPrevJournalNum p) then sr_prevjournal r else sr_prevjournal r0)
         (if has r (tNextFileNum p) then sr_nextfile r else sr_nextfile r0)
         (if has r (tSeqNum p) then sr_seq r else sr_seq r0)
         (sr_cps r0 ++ sr_cps r) (sr_adds r0 ++ sr_adds r) (sr_dels r0 ++ sr_dels r).

  Lemma setbit_lor a b t : N.setbit (N.lor a b) t = N.lor a (N.setbit b t).
  Proof.
    apply N.bits_inj. intros m. rewrite N.setbit_eqb, !N.lor_spec, N.setbit_eqb.
    destruct (t =? m), (N.testbit a m), (N.testbit b m); reflexivity.
  Qed.

  Lemma carry_empty r0 : carry r0 sr_empty = r0.
  Proof.
    unfold carry, has. cbn [sr_empty sr_has sr_comparer sr_journal sr_prevjournal sr_nextfile sr_seq sr_cps sr_adds sr_dels].
    rewrite !N.bits_0, N.lor_0_r, !app_nil_r. destruct r0; reflexivity.
  Qed.

  Ltac carry_setter :=
    intros; unfold carry, has, set_comparer, set_journal, set_prevjournal, set_nextfile, set_seq,
      add_comp_ptr, add_table, del_table;
    cbn [sr_has sr_comparer sr_journal sr_prevjournal sr_nextfile sr_seq sr_cps sr_adds sr_dels];
    rewrite setbit_lor, ?N.setbit_eqb; eqb_tags; cbn [orb]; rewrite ?app_assoc; reflexivity.

  Lemma carry_set_comparer r0 r x : set_comparer p (carry r0 r) x = carry r0 (set_comparer p r x).
  Proof. carry_setter. Qed.
  Lemma carry_set_journal r0 r x : set_journal p (carry r0 r) x = carry r0 (set_journal p r x).
  Proof. carry_setter. Qed.
  Lemma carry_set_prevjournal r0 r x : set_prevjournal p (carry r0 r) x = carry r0 (set_prevjournal p r x).
  Proof. carry_setter. Qed.
  Lemma carry_set_nextfile r0 r x : set_nextfile p (carry r0 r) x = carry r0 (set_nextfile p r x).
  Proof. carry_setter. Qed.
  Lemma carry_set_seq r0 r x : set_seq p (carry r0 r) x = carry r0 (set_seq p r x).
  Proof. carry_setter. Qed.
  Lemma carry_add_comp_ptr r0 r x : add_comp_ptr p (carry r0 r) x = carry r0 (add_comp_ptr p r x).
  Proof. carry_setter. Qed.
  Lemma carry_add_table r0 r x : add_table p (carry r0 r) x = carry r0 (add_table p r x).
  Proof. carry_setter. Qed.
  Lemma carry_del_table r0 r x : del_table p (carry r0 r) x = carry r0 (del_table p r x).
  Proof. carry_setter. Qed.

  Lemma decode_field_carry tag r0 r buf :
    match decode_field p tag r buf with
    | ROk r' rest => decode_field p tag (carry r0 r) buf = ROk (carry r0 r') rest
    | RErr e => decode_field p tag (carry r0 r) buf = RErr e
    | RPanic => True
    end.
  Proof.
    unfold decode_field, decode_field_with.
    repeat match goal with |- context [if (tag =? ?t) then _ else _] => destruct (tag =? t) end;
      repeat match goal with
             | |- context [rbind ?m _] => destruct m as [? ?|?|]; cbn [rbind]
             end; try reflexivity; try exact I; f_equal;
      first [apply carry_set_comparer | apply carry_set_journal | apply carry_set_prevjournal
            | apply carry_set_nextfile | apply carry_set_seq | apply carry_add_comp_ptr
            | apply carry_add_table | apply carry_del_table].
  Qed.

  Lemma decode_loop_carry fuel : forall r0 r b,
    match decode_loop p fuel r b with
    | DOk r' => decode_loop p fuel (carry r0 r) b = DOk (carry r0 r')
    | DErr e r' => decode_loop p fuel (carry r0 r) b = DErr e (carry r0 r')
    | DPanic => True
    | DFuel => decode_loop p fuel (carry r0 r) b = DFuel
    end.
  Proof.
    induction fuel as [|f IH]; intros r0 r b; [reflexivity|].
    unfold decode_loop in *. cbn [decode_loop_with].
    destruct (read_uv_may_eof FHeader true b) as [tag rest|e|]; [|destruct e; reflexivity|exact I].
    pose proof (decode_field_carry tag r0 r rest) as F. unfold decode_field in F.
    destruct (decode_field_with p read_bytes read_level tag r rest) as [r' rest'|e|].
    - rewrite F. apply IH.
    - rewrite F. reflexivity.
    - exact I.
  Qed.

  (* decoding a record's bytes into the reused record = decoding them into a fresh record and laying the result
     over the reused one; same error at the same field otherwise *)
  Theorem decode_carry r0 b :
    match decode p sr_empty b with
    | DOk r => decode p r0 b = DOk (carry r0 r)
    | DErr e r => decode p r0 b = DErr e (carry r0 r)
    | _ => True
    end.
  Proof.
    pose proof (decode_loop_carry (S (length b)) r0 sr_empty b) as H. rewrite carry_empty in H.
    unfold decode. pose proof (decode_total p sr_empty b) as T. unfold decode in T.
    destruct (decode_loop p (S (length b)) sr_empty b); try exact H; exact I.
  Qed.

  (* ---------------- levels of a decoded record are indexes ---------------- *)
  Definition lv_ok (r : srec) : Prop :=
    Forall (fun c => (0 <= cp_level c)%Z) (sr_cps r) /\ Forall (fun t => (0 <= at_level t)%Z) (sr_adds r) /\
    Forall (fun d => (0 <= dt_level d)%Z) (sr_dels r).

  Lemma Forall_snoc {A} (P : A -> Prop) l x : Forall P l -> P x -> Forall P (l ++ [x]).
  Proof. intros H Hx. apply Forall_app. split; [exact H|]. constructor; [exact Hx|constructor]. Qed.

  Lemma decode_field_lv tag r buf r' rest : lv_ok r -> decode_field p tag r buf = ROk r' rest -> lv_ok r'.
  Proof.
    intros (Hc & Ha & Hd). unfold decode_field, decode_field_with.
    repeat match goal with |- context [if (tag =? ?t) then _ else _] => destruct (tag =? t) end;
      repeat match goal with
             | |- context [rbind (read_level ?f ?b) _] =>
                 let E := fresh "E" in destruct (read_level f b) as [? ?|?|] eqn:E; cbn [rbind];
                 [apply read_level_range in E|..]
             | |- context [rbind ?m _] => destruct m as [? ?|?|]; cbn [rbind]
             end; try discriminate; intros H; injection H as <- _; unfold lv_ok;
      cbn [set_comparer set_journal set_prevjournal set_nextfile set_seq add_comp_ptr add_table del_table
           sr_cps sr_adds sr_dels]; repeat split; try assumption; apply Forall_snoc; assumption.
  Qed.

  Lemma decode_loop_lv fuel : forall r b, lv_ok r ->
    match decode_loop p fuel r b with DOk r' | DErr _ r' => lv_ok r' | _ => True end.
  Proof.
    induction fuel as [|f IH]; intros r b H; [exact I|].
    unfold decode_loop in *. cbn [decode_loop_with].
    destruct (read_uv_may_eof FHeader true b) as [tag rest|e|]; [|destruct e; exact H|exact I].
    destruct (decode_field_with p read_bytes read_level tag r rest) as [r' rest'|e|] eqn:E; [|exact H|exact I].
    apply IH. apply (decode_field_lv tag r rest r' rest' H E).
  Qed.

  Lemma decode_lv r b r' : lv_ok r -> decode p r b = DOk r' -> lv_ok r'.
  Proof.
    intros H E. pose proof (decode_loop_lv (S (length b)) r b H) as L. unfold decode in E. rewrite E in L. exact L.
  Qed.

  Lemma lv_ok_empty : lv_ok sr_empty.
  Proof. repeat split; constructor. Qed.

  (* ---------------- the record the setters build ---------------- *)
  Definition cbit (c : bool) (t a : N) : N := if c then N.setbit a t else a.
  Definition nonempty {A} (l : list A) : bool := match l with [] => false | _ => true end.

  Lemma testbit_cbit c t a m : N.testbit (cbit c t a) m = (c && (t =? m)) || N.testbit a m.
  Proof. destruct c; cbn [cbit andb orb]; [apply N.setbit_eqb|reflexivity]. Qed.

  Lemma setbit_idem a t : N.setbit (N.setbit a t) t = N.setbit a t.
  Proof.
    apply N.bits_inj. intros m. rewrite !N.setbit_eqb. destruct (t =? m), (N.testbit a m); reflexivity.
  Qed.

  Lemma apply_cps l : forall r, apply_items p r (map ICompPtr l) =
    mksr (cbit (nonempty l) (tCompPtr p) (sr_has r)) (sr_comparer r) (sr_journal r) (sr_prevjournal r)
         (sr_nextfile r) (sr_seq r) (sr_cps r ++ l) (sr_adds r) (sr_dels r).
  Proof.
    induction l as [|c l IH]; intros r; cbn [map apply_items fold_left nonempty cbit].
    - rewrite app_nil_r. destruct r; reflexivity.
    - fold (apply_items p (apply_item p r (ICompPtr c)) (map ICompPtr l)). rewrite IH.
      cbn [apply_item add_comp_ptr sr_has sr_comparer sr_journal sr_prevjournal sr_nextfile sr_seq sr_cps sr_adds sr_dels].
      rewrite <- app_assoc. cbn [app]. destruct l; cbn [nonempty cbit]; rewrite ?setbit_idem; reflexivity.
  Qed.

  Lemma apply_dels l : forall r, apply_items p r (map IDel l) =
    mksr (cbit (nonempty l) (tDelTable p) (sr_has r)) (sr_comparer r) (sr_journal r) (sr_prevjournal r)
         (sr_nextfile r) (sr_seq r) (sr_cps r) (sr_adds r) (sr_dels r ++ l).
  Proof.
    induction l as [|c l IH]; intros r; cbn [map apply_items fold_left nonempty cbit].
    - rewrite app_nil_r. destruct r; reflexivity.
    - fold (apply_items p (apply_item p r (IDel c)) (map IDel l)). rewrite IH.
      cbn [apply_item del_table sr_has sr_comparer sr_journal sr_prevjournal sr_nextfile sr_seq sr_cps sr_adds sr_dels].
      rewrite <- app_assoc. cbn [app]. destruct l; cbn [nonempty cbit]; rewrite ?setbit_idem; reflexivity.
  Qed.

  Lemma apply_adds l : forall r, apply_items p r (map IAdd l) =
    mksr (cbit (nonempty l) (tAddTable p) (sr_has r)) (sr_comparer r) (sr_journal r) (sr_prevjournal r)
         (sr_nextfile r) (sr_seq r) (sr_cps r) (sr_adds r ++ l) (sr_dels r).
  Proof.
    induction l as [|c l IH]; intros r; cbn [map apply_items fold_left nonempty cbit].
    - rewrite app_nil_r. destruct r; reflexivity.
    - fold (apply_items p (apply_item p r (IAdd c)) (map IAdd l)). rewrite IH.
      cbn [apply_item add_table sr_has sr_comparer sr_journal sr_prevjournal sr_nextfile sr_seq sr_cps sr_adds sr_dels].
      rewrite <- app_assoc. cbn [app]. destruct l; cbn [nonempty cbit]; rewrite ?setbit_idem; reflexivity.
  Qed.

  Lemma apply_items_app r a b : apply_items p r (a ++ b) = apply_items p (apply_items p r a) b.
  Proof. unfold apply_items. apply fold_left_app. Qed.

  Definition is_some {A} (o : option A) : bool := match o with Some _ => true | None => false end.
  Definition odflt {A} (o : option A) (d : A) : A := match o with Some a => a | None => d end.

  (* build f, written out *)
  Lemma build_closed f : build p f =
    mksr (cbit (nonempty (f_adds f)) (tAddTable p) (cbit (nonempty (f_dels f)) (tDelTable p)
            (cbit (nonempty (f_cps f)) (tCompPtr p)
               (cbit (is_some (f_seq f)) (tSeqNum p) (cbit (is_some (f_nextfile f)) (tNextFileNum p)
                  (cbit (is_some (f_journal f)) (tJournalNum p) (cbit (is_some (f_comparer f)) (tComparer p) 0)))))))
         (odflt (f_comparer f) []) (odflt (f_journal f) 0%Z) 0%Z (odflt (f_nextfile f) 0%Z) (odflt (f_seq f) 0)
         (f_cps f) (f_adds f) (f_dels f).
  Proof.
    unfold build, items_of_fields. rewrite !apply_items_app, apply_adds, apply_dels, apply_cps.
    destruct f as [oc oj on oq cps dels adds]. cbn [f_comparer f_journal f_nextfile f_seq f_cps f_dels f_adds].
    destruct oc, oj, on, oq; reflexivity.
  Qed.

  Lemma has_build f t : has (build p f) t =
    (nonempty (f_adds f) && (tAddTable p =? t)) || ((nonempty (f_dels f) && (tDelTable p =? t)) ||
    ((nonempty (f_cps f) && (tCompPtr p =? t)) || ((is_some (f_seq f) && (tSeqNum p =? t)) ||
    ((is_some (f_nextfile f) && (tNextFileNum p =? t)) || ((is_some (f_journal f) && (tJournalNum p =? t)) ||
    (is_some (f_comparer f) && (tComparer p =? t))))))).
  Proof.
    rewrite build_closed. unfold has. cbn [sr_has]. rewrite !testbit_cbit, N.bits_0, orb_false_r. reflexivity.
  Qed.

  Ltac has_simpl := rewrite has_build; eqb_tags; rewrite ?andb_false_r, ?andb_true_r, ?orb_false_r, ?orb_false_l.

  Lemma has_build_comparer f : has (build p f) (tComparer p) = is_some (f_comparer f).
  Proof. has_simpl. reflexivity. Qed.
  Lemma has_build_journal f : has (build p f) (tJournalNum p) = is_some (f_journal f).
  Proof. has_simpl. reflexivity. Qed.
  Lemma has_build_nextfile f : has (build p f) (tNextFileNum p) = is_some (f_nextfile f).
  Proof. has_simpl. reflexivity. Qed.
  Lemma has_build_seq f : has (build p f) (tSeqNum p) = is_some (f_seq f).
  Proof. has_simpl. reflexivity. Qed.
  Lemma has_build_prev f : has (build p f) (tPrevJournalNum p) = false.
  Proof. has_simpl. reflexivity. Qed.

  (* encode writes exactly the fields the record was built from *)
  Lemma items_of_build f : items_of p (build p f) = items_of_fields f.
  Proof.
    unfold items_of. rewrite has_build_comparer, has_build_journal, has_build_nextfile, has_build_seq.
    rewrite build_closed. cbn [sr_comparer sr_journal sr_nextfile sr_seq sr_cps sr_adds sr_dels].
    unfold items_of_fields. destruct (f_comparer f), (f_journal f), (f_nextfile f), (f_seq f); reflexivity.
  Qed.

  (* decode . encode = id on every record the setters build from in-range field values *)
  Theorem build_roundtrip f : fields_ok f ->
    exists b, encode p (build p f) = Some b /\ decode p sr_empty b = DOk (build p f).
  Proof.
    intros H. assert (R : rec_ok p (build p f)) by (unfold rec_ok; rewrite items_of_build; exact H).
    destruct (record_roundtrip p pok (build p f) R) as (b & E & D). exists b. split; [exact E|].
    rewrite D, items_of_build. reflexivity.
  Qed.

  (* ---------------- the canonical codec for the edits of Store/Crash.v ---------------- *)
  Lemma medit_fields_ok e : medit_ok e -> fields_ok (fields_of_medit e).
  Proof.
    intros (Hj & Hq & Ht). unfold fields_ok, items_of_fields, fields_of_medit.
    cbn [f_comparer f_journal f_nextfile f_seq f_cps f_dels f_adds oitem map app].
    apply Forall_app. split.
    - destruct (m_jnum e) as [j|]; cbn [option_map oitem]; [|constructor].
      constructor; [|constructor]. cbn [item_ok]. specialize (Hj j eq_refl). unfold z_in63, sr_two63 in *. lia.
    - apply Forall_app. split.
      + destruct (m_seq e) as [q|]; cbn [oitem]; [|constructor]. constructor; [|constructor]. apply Hq. reflexivity.
      + apply Forall_forall. intros it Hit. apply in_map_iff in Hit as (t & <- & Ht').
        apply in_map_iff in Ht' as (b & <- & Hb). rewrite Forall_forall in Ht. destruct (Ht b Hb) as [H1 H2].
        cbn [item_ok table_of_batch at_level at_num at_size at_imin at_imax].
        unfold z_in63, len_ok, sr_two63, sr_two64 in *. cbn [lenN length]. repeat split; lia.
  Qed.

  Theorem medit_roundtrip e : medit_ok e -> dec_medit p (enc_medit p e) = Some e.
  Proof.
    intros H. destruct (build_roundtrip _ (medit_fields_ok e H)) as (b & E & D).
    unfold enc_medit, dec_medit, decode_fresh. rewrite E, D. cbn [option_map]. f_equal.
    unfold medit_of. rewrite has_build_journal, has_build_seq, build_closed.
    cbn [sr_journal sr_seq sr_adds fields_of_medit f_journal f_seq f_adds].
    destruct e as [oj oq tabs]. cbn [m_jnum m_seq m_tab]. f_equal.
    - destruct oj; cbn [option_map is_some odflt]; [rewrite N2Z.id|]; reflexivity.
    - destruct oq; reflexivity.
    - clear. induction tabs as [|x tabs IH]; [reflexivity|]. cbn [map flat_map]. rewrite IH.
      unfold batch_of_table, table_of_batch. cbn [at_num at_size app]. rewrite !N2Z.id. destruct x; reflexivity.
  Qed.
End Build.
