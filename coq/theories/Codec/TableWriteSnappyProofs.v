(* Codec/TableWriteSnappyProofs.v — the writer theorem for BOTH compression settings.
   TableWriteProofs.v proves Parts 1-3 (Append invariant, read-back of one written block, Close)
   for any compression setting and Part 4 (the file is a well-formed table) for NoCompression,
   where the file length bounds every block.  This file redoes Part 4 with the compression
   setting as a variable: the codec is any pair with decompress (compress x) = Some x whose
   encoder never returns the empty string (the writer uses pendingBH.length = 0 to mean "no
   pending block"; snappy.Encode always emits the length prefix), and the uncompressed blocks are
   bounded by the computable condition Codec/TableSizes.table_sizes_ok. *)
From GL Require Import Base.Bytes Base.BytesProofs Base.Varint Base.VarintProofs Base.Order Base.OrderProofs
  Base.Cursor Base.CursorProofs Codec.Block Codec.BlockEnc Codec.BlockProofs Codec.Table Codec.TableProofs
  Codec.TableWriteProofs Codec.TableSizes Codec.TableIterProofs Codec.TableSliceProofs Codec.TableEmptyProofs.
From Coq Require Import Arith ZArith Lia ZifyN ZifyNat ZifyBool.

Local Open Scope N_scope.

(* ------------------------------------------------------------ sizes of built blocks *)
Lemma bw_append_size ri w k v :
  lenN (bw_buf (bw_append ri w k v)) <= lenN (bw_buf w) + lenN k + lenN v + 30 /\
  lenN (bw_restarts (bw_append ri w k v)) <= lenN (bw_restarts w) + 1.
Proof.
  unfold bw_append. cbn [bw_buf bw_restarts].
  set (nsh := if bw_n w mod ri =? 0 then 0 else shared_prefix_len (bw_prev w) k).
  rewrite !lenN_app, lenN_dropN.
  pose proof (put_uvarint_length nsh). pose proof (put_uvarint_length (lenN k - nsh)).
  pose proof (put_uvarint_length (lenN v)).
  split; [lia|]. destruct (bw_n w mod ri =? 0); [rewrite lenN_app; change (lenN [_]) with 1|]; lia.
Qed.

Lemma bw_append_all_size ri kvs : forall w,
  lenN (bw_buf (bw_append_all ri w kvs)) + 4 * lenN (bw_restarts (bw_append_all ri w kvs)) + 34 * 0
  <= lenN (bw_buf w) + 4 * lenN (bw_restarts w) + kvsize kvs.
Proof.
  unfold bw_append_all. induction kvs as [|[k v] r IH]; intros w; cbn [fold_left kvsize fold_right fst snd].
  - lia.
  - specialize (IH (bw_append ri w k v)). pose proof (bw_append_size ri w k v). fold (kvsize r). lia.
Qed.

Lemma block_build_len_le ri kvs : lenN (block_build ri kvs) <= kvsize kvs + 8.
Proof.
  unfold block_build, bw_finish.
  pose proof (bw_append_all_size ri kvs bw_empty) as H. cbn [bw_empty bw_buf bw_restarts] in H.
  change (lenN (@nil N)) with 0 in H.
  set (w := bw_append_all ri bw_empty kvs) in *.
  rewrite lenN_app, lenN_flat_le32, lenN_app. change (lenN [_]) with 1.
  destruct (bw_n w =? 0); [rewrite lenN_app; change (lenN [0]) with 1|]; lia.
Qed.

Lemma kvsize_app a b : kvsize (a ++ b) = kvsize a + kvsize b.
Proof. induction a as [|x a IH]; cbn [app kvsize fold_right]; [reflexivity|]. fold (kvsize (a ++ b)) (kvsize a). lia. Qed.

Lemma kvsize_nth (bl : list (list kv)) j : (j < length bl)%nat -> kvsize (nth j bl []) <= kvsize (concat bl).
Proof. intros Hj. rewrite (concat_split bl j Hj), !kvsize_app. lia. Qed.

Section FinalZ.
  Variable tp : tparams.
  Hypothesis tp_ok : tparams_ok tp.
  Variable crc : bytes -> N.
  Hypothesis crc_bound : forall b, crc b < 2 ^ 32.
  Variable compress : bytes -> bytes.
  Variable decompress : bytes -> option bytes.
  Hypothesis codec_ok : forall x, decompress (compress x) = Some x.
  Hypothesis compress_ne : forall x, compress x <> [].
  Variable fcontains : bytes -> N -> bytes -> bool.
  Variable c : comparer.
  Hypothesis c_ok : comparer_ok c.
  Hypothesis empty_least : forall k, cmp c [] k <> Gt.
  Variable blockSize : N.
  Variable ri : N.
  Hypothesis ri_pos : 1 <= ri.
  Variable fgen : option (bytes * (list (N * list bytes) -> bytes)).
  Variable snappy : bool.

  Local Notation wbytes := (wbytes tp crc compress ri snappy).
  Local Notation plen := (plen tp crc compress ri snappy).
  Local Notation handles_from := (handles_from tp crc compress ri snappy).
  Local Notation out_of := (out_of tp crc compress ri snappy).

  (* bytes and handle length of any block written with compression setting sn *)
  Definition zbytes (sn : bool) (content : bytes) : bytes := fst (write_block tp crc compress 0 content sn).
  Definition zlen (sn : bool) (content : bytes) : N := bh_len (snd (write_block tp crc compress 0 content sn)).

  Lemma wb_z off content sn :
    write_block tp crc compress off content sn = (zbytes sn content, mkBH off (zlen sn content)).
  Proof. apply write_block_off. Qed.

  Lemma zbytes_len sn content : lenN (zbytes sn content) = zlen sn content + 5.
  Proof.
    unfold zbytes, zlen, write_block. cbn [fst snd bh_len]. rewrite lenN_app, lenN_le32.
    destruct sn; rewrite lenN_app; change (lenN [_]) with 1; lia.
  Qed.

  Lemma zlen_plain content : zlen false content = lenN content.
  Proof. unfold zlen, write_block. cbn [snd bh_len]. rewrite lenN_app. change (lenN [_]) with 1. lia. Qed.

  Lemma plen_pos_z b : plen b <> 0.
  Proof.
    unfold TableWriteProofs.plen, write_block. cbn [snd bh_len]. destruct snappy.
    - rewrite lenN_app. change (lenN [_]) with 1.
      pose proof (compress_ne (block_build ri b)) as Hne.
      destruct (compress (block_build ri b)) as [|x l]; [congruence|]. rewrite lenN_cons. lia.
    - rewrite lenN_app. change (lenN [_]) with 1. pose proof (block_build_len_pos ri b). lia.
  Qed.

  Lemma wbytes_len_z b : lenN (wbytes b) = plen b + 5.
  Proof. apply (zbytes_len snappy). Qed.

  Lemma handles_nth_z bl : forall off j, (j < length bl)%nat ->
    nth j (handles_from off bl) bh0 = mkBH (off + lenN (out_of (firstn j bl))) (plen (nth j bl [])).
  Proof.
    induction bl as [|b r IH]; intros off j Hj; cbn [length] in Hj; [lia|].
    destruct j as [|j]; cbn [TableWriteProofs.handles_from nth firstn].
    - unfold TableWriteProofs.out_of. cbn. rewrite N.add_0_r. reflexivity.
    - rewrite IH by lia. unfold TableWriteProofs.out_of. cbn [map concat]. rewrite lenN_app. f_equal. lia.
  Qed.

  Lemma out_of_split_z bl j : (j < length bl)%nat ->
    out_of bl = out_of (firstn j bl) ++ wbytes (nth j bl []) ++ out_of (skipn (S j) bl).
  Proof.
    intros Hj. unfold TableWriteProofs.out_of. rewrite (BlockEnc.split_nth bl j [] Hj) at 1.
    rewrite map_app, concat_app. cbn [map concat]. reflexivity.
  Qed.

  Lemma out_of_firstn_le_z bl i j : (i <= j)%nat -> lenN (out_of (firstn i bl)) <= lenN (out_of (firstn j bl)).
  Proof.
    intros Hij. replace j with (i + (j - i))%nat by lia. generalize (j - i)%nat as d. intros d. clear Hij.
    revert i. induction bl as [|b r IH]; intros i.
    - rewrite !firstn_nil. lia.
    - destruct i as [|i]; cbn [plus firstn].
      + unfold TableWriteProofs.out_of at 1. cbn [map concat]. change (lenN (@nil N)) with 0. lia.
      + unfold TableWriteProofs.out_of in *. cbn [map concat]. rewrite !lenN_app. specialize (IH i). lia.
  Qed.

  Lemma out_of_firstn_le_all_z bl j : lenN (out_of (firstn j bl)) <= lenN (out_of bl).
  Proof.
    destruct (Nat.le_gt_cases j (length bl)) as [L|L].
    - rewrite <- (firstn_all bl) at 2. apply out_of_firstn_le_z. exact L.
    - rewrite firstn_all2 by lia. lia.
  Qed.

  Lemma wblock_eq_z off b :
    write_block tp crc compress off (block_build ri b) snappy = (wbytes b, mkBH off (plen b)).
  Proof. apply write_block_off. Qed.

  (* reading data block j of a file that starts with the data blocks *)
  Lemma fetch_written_z bl rest j verify : (j < length bl)%nat ->
    lenN (out_of bl ++ rest) < 2 ^ 32 -> lenN (block_build ri (nth j bl [])) < 2 ^ 32 ->
    read_block_at tp crc decompress (out_of bl ++ rest) (nth j (handles_from 0 bl) bh0) verify
    = Ok (built ri (nth j bl [])).
  Proof.
    intros Hj Hsz Hb. rewrite (handles_nth_z bl 0 j Hj), N.add_0_l.
    rewrite (out_of_split_z bl j Hj), <- !app_assoc.
    set (pre := out_of (firstn j bl)). set (b := nth j bl []) in *.
    pose proof (read_wblock tp tp_ok crc crc_bound compress decompress codec_ok pre (block_build ri b)
                  (out_of (skipn (S j) bl) ++ rest) snappy verify) as R.
    cbv zeta in R. rewrite (wblock_eq_z (lenN pre) b) in R. cbn [fst snd] in R.
    assert (B : 2 ^ 32 < 2 ^ 62) by (apply N.pow_lt_mono_r; lia).
    assert (Hw : lenN (wbytes b) < 2 ^ 32).
    { rewrite (out_of_split_z bl j Hj), <- !app_assoc in Hsz. fold pre b in Hsz. rewrite !lenN_app in Hsz. lia. }
    unfold read_block_at. rewrite R by lia. cbn [bind_res].
    apply read_block_build; [exact ri_pos|exact Hb].
  Qed.

  (* ---------------- the shape of the file Close produces ---------------- *)
  Lemma tw_close_shape_z w w2 :
    w2 = tw_final tp crc compress c snappy w ->
    tw_data w2 = mkBW [] 0 [] [] ->
    exists F ml,
      (tw_close tp crc compress c ri snappy fgen w =
      let out3 := tw_out w2 ++ F in
      let M := block_build ri ml in
      let I := bw_finish (tw_index w2) in
      let metaBH := mkBH (lenN out3) (zlen snappy M) in
      let indexBH := mkBH (lenN (out3 ++ zbytes snappy M)) (zlen snappy I) in
      ((out3 ++ zbytes snappy M) ++ zbytes snappy I) ++ foot_of tp metaBH indexBH) /\
      (ml = [] \/ exists wname gen fl, fgen = Some (wname, gen) /\
                    ml = [(filter_prefix ++ wname, encode_bh (mkBH (lenN (tw_out w2)) fl))] /\ lenN F = fl + 5).
  Proof.
    intros E2 Hdata. unfold tw_final in E2. unfold tw_close. rewrite <- E2.
    assert (Emw0 : bw_finish (tw_data w2) = block_build ri []) by (rewrite Hdata; reflexivity).
    assert (Emw1 : forall k v, bw_finish (bw_append ri (tw_data w2) k v) = block_build ri [(k, v)])
      by (intros k v; rewrite Hdata; reflexivity).
    destruct fgen as [[name gen]|].
    - set (content := gen (rev (tw_fblocks w2))).
      destruct (0 <? lenN content) eqn:Epos.
      + rewrite (wb_z (lenN (tw_out w2)) content false). cbn [bh_len]. rewrite zlen_plain, Epos.
        exists (zbytes false content), [(filter_prefix ++ name, encode_bh (mkBH (lenN (tw_out w2)) (lenN content)))].
        split; [rewrite Emw1, !wb_z; cbv zeta; unfold foot_of; rewrite <- !app_assoc; reflexivity|].
        right. exists name, gen, (lenN content). split; [reflexivity|]. split; [reflexivity|].
        rewrite zbytes_len, zlen_plain. reflexivity.
      + cbn [bh_len N.ltb N.compare]. exists [], [].
        split; [rewrite Emw0, !wb_z; cbv zeta; unfold foot_of; rewrite !app_nil_r, <- !app_assoc; reflexivity | left; reflexivity].
    - exists [], []. split; [rewrite Emw0, !wb_z; cbv zeta; unfold foot_of; rewrite !app_nil_r, <- !app_assoc; reflexivity | left; reflexivity].
  Qed.

  (* ---------------- the theorem ---------------- *)
  Theorem table_wf_of_write_z kvs file fname verify :
    sorted c kvs ->
    twrite tp crc compress c blockSize ri snappy fgen kvs = Some file ->
    lenN file < 2 ^ 32 ->
    table_sizes_ok tp crc compress c blockSize ri snappy fgen kvs = true ->
    exists blocks seps hs,
      table_wf c (open_table tp crc decompress fcontains c file fname verify) blocks seps hs /\
      tkvs blocks = kvs.
  Proof.
    intros Hsorted Hw Hsize Hok. unfold twrite in Hw.
    destruct (append_all_inv tp crc compress c c_ok empty_least blockSize ri ri_pos snappy plen_pos_z kvs
                tw_empty (mkG [] [] []) (winv_empty tp crc compress c ri ri_pos snappy) Hsorted)
      as (w & g & Ew & Hinv & Ecat).
    cbn [g_done g_cur concat app] in Ecat.
    rewrite Ew in Hw. cbn [option_map] in Hw. injection Hw as Hfile.
    (* the size condition *)
    unfold table_sizes_ok, index_len in Hok. rewrite Ew in Hok. cbn [option_map] in Hok.
    apply andb_prop in Hok as [Hok Hname]. apply andb_prop in Hok as [Hkv Hidx].
    apply N.ltb_lt in Hkv, Hidx.
    destruct (close_state tp crc compress c c_ok empty_least ri ri_pos snappy plen_pos_z w g Hinv) as (bl & seps & Hcl & Ebl).
    cbv zeta in Hcl.
    set (w2 := tw_final tp crc compress c snappy w) in *.
    change (tw_flush_pending c (if (0 <? bw_n (tw_data w)) || (tw_n w =? 0) then tw_finish_block tp crc compress snappy w else w) [])
      with w2 in Hcl.
    destruct (tw_close_shape_z w w2 eq_refl (cl_data _ _ _ _ _ _ _ _ _ Hcl)) as (F & ml & Eshape & Hml).
    rewrite Eshape in Hfile. cbv zeta in Hfile.
    rewrite (cl_index _ _ _ _ _ _ _ _ _ Hcl) in Hidx.
    rewrite (cl_out _ _ _ _ _ _ _ _ _ Hcl), (cl_index _ _ _ _ _ _ _ _ _ Hcl) in Hfile.
    set (hs := handles_from 0 bl) in *.
    set (out3 := out_of bl ++ F) in *.
    set (M := block_build ri ml) in *.
    set (I := bw_finish (TableWriteProofs.index_of seps hs)) in *.
    set (metaBH := mkBH (lenN out3) (zlen snappy M)) in *.
    set (indexBH := mkBH (lenN (out3 ++ zbytes snappy M)) (zlen snappy I)) in *.
    assert (EI : I = block_build 1 (ientries seps hs)) by reflexivity.
    assert (B64 : 2 ^ 32 < 2 ^ 64) by (apply N.pow_lt_mono_r; lia).
    assert (B62 : 2 ^ 32 < 2 ^ 62) by (apply N.pow_lt_mono_r; lia).
    (* sizes of the parts *)
    assert (Hparts : lenN file = lenN (out_of bl) + lenN F + (zlen snappy M + 5) + (zlen snappy I + 5) + tp_footerLen tp).
    { rewrite <- Hfile. rewrite !lenN_app, (foot_len tp tp_ok fcontains ri ri_pos), !zbytes_len. unfold out3. rewrite lenN_app. lia. }
    (* the uncompressed blocks are below 2^32 *)
    assert (HMsz : lenN M < 2 ^ 32).
    { pose proof (block_build_len_le ri ml) as Hle. fold M in Hle.
      destruct Hml as [-> | (wname & gen & fl & Efg & -> & _)]; [cbn [kvsize fold_right] in Hle; lia|].
      rewrite Efg in Hname. apply N.ltb_lt in Hname.
      cbn [kvsize fold_right fst snd] in Hle. rewrite lenN_app in Hle.
      pose proof (encode_bh_len (mkBH (lenN (tw_out w2)) fl)). change (lenN filter_prefix) with 7 in Hle. lia. }
    assert (Hdsz : forall j, (j < length bl)%nat -> lenN (block_build ri (nth j bl [])) < 2 ^ 32).
    { intros j Hj. pose proof (block_build_len_le ri (nth j bl [])). pose proof (kvsize_nth bl j Hj) as Hk.
      rewrite Ebl, Ecat in Hk. lia. }
    (* the metaindex block reads back *)
    assert (HM : read_block_at tp crc decompress file metaBH true = Ok (built ri ml)).
    { rewrite <- Hfile. rewrite <- !app_assoc.
      pose proof (read_wblock tp tp_ok crc crc_bound compress decompress codec_ok out3 M
                    (zbytes snappy I ++ foot_of tp metaBH indexBH) snappy true) as R.
      cbv zeta in R. rewrite (wb_z (lenN out3) M snappy) in R. cbn [fst snd] in R. fold metaBH in R.
      unfold read_block_at. rewrite R by (rewrite zbytes_len; lia). cbn [bind_res].
      apply read_block_build; [exact ri_pos | exact HMsz]. }
    (* the index block reads back *)
    assert (HI : read_block_at tp crc decompress file indexBH true = Ok (built 1 (ientries seps hs))).
    { rewrite <- Hfile. rewrite <- (app_assoc (out3 ++ zbytes snappy M)).
      pose proof (read_wblock tp tp_ok crc crc_bound compress decompress codec_ok (out3 ++ zbytes snappy M) I
                    (foot_of tp metaBH indexBH) snappy true) as R.
      cbv zeta in R. rewrite (wb_z (lenN (out3 ++ zbytes snappy M)) I snappy) in R. cbn [fst snd] in R. fold indexBH in R.
      unfold read_block_at. rewrite R by (rewrite zbytes_len; lia). cbn [bind_res]. rewrite EI.
      apply read_block_build; [lia | rewrite <- EI; exact Hidx]. }
    (* NewReader *)
    assert (Hopen : exists filt dataEnd,
              open_table tp crc decompress fcontains c file fname verify =
                mkTR (read_block_at tp crc decompress file indexBH true)
                     (fun h => read_block_at tp crc decompress file h verify) filt dataEnd /\
              lenN (out_of bl) <= dataEnd).
    { pose proof (open_written tp tp_ok crc crc_bound compress decompress codec_ok fcontains c empty_least ri ri_pos ((out3 ++ zbytes snappy M) ++ zbytes snappy I) (built ri ml) metaBH indexBH fname verify) as Eo.
      cbv zeta in Eo. rewrite Hfile in Eo.
      assert (P1 : bh_off metaBH < 2 ^ 64) by (cbn [metaBH bh_off]; unfold out3; rewrite lenN_app; lia).
      assert (P2 : bh_len metaBH < 2 ^ 64) by (cbn [metaBH bh_len]; lia).
      assert (P3 : bh_off indexBH < 2 ^ 64) by (cbn [indexBH bh_off]; rewrite lenN_app, zbytes_len; unfold out3; rewrite lenN_app; lia).
      assert (P4 : bh_len indexBH < 2 ^ 64) by (cbn [indexBH bh_len]; lia).
      specialize (Eo P1 P2 P3 P4 HM).
      rewrite Eo.
      destruct fname as [name|].
      - destruct Hml as [Eml | (wname & gen & fl & _ & Eml & HF)].
        + destruct (meta_scan_built crc crc_bound compress decompress codec_ok fcontains c empty_least ri ri_pos ml name [] (mkBH 0 0) ltac:(fold M; lia) ltac:(cbn; lia) ltac:(cbn; lia) (or_introl Eml)) as [E|E].
          * rewrite E. eexists. eexists. split; [reflexivity|]. cbn [metaBH bh_off]. unfold out3. rewrite lenN_app. lia.
          * exfalso. rewrite Eml in E. cbv in E. discriminate.
        + rewrite (cl_out _ _ _ _ _ _ _ _ _ Hcl) in Eml.
          destruct (meta_scan_built crc crc_bound compress decompress codec_ok fcontains c empty_least ri ri_pos ml name wname (mkBH (lenN (out_of bl)) fl) ltac:(fold M; lia) ltac:(cbn [bh_off]; lia) ltac:(cbn [bh_len]; lia) (or_intror Eml)) as [E|E].
          * rewrite E. eexists. eexists. split; [reflexivity|]. cbn [metaBH bh_off]. unfold out3. rewrite lenN_app. lia.
          * rewrite E. eexists. eexists. split; [reflexivity|]. cbn [bh_off]. lia.
      - eexists. eexists. split; [reflexivity|]. cbn [metaBH bh_off]. unfold out3. rewrite lenN_app. lia. }
    destruct Hopen as (filt & dataEnd & Hopen & HdE).
    pose proof (cl_len _ _ _ _ _ _ _ _ _ Hcl) as Hlen.
    pose proof (cl_ne _ _ _ _ _ _ _ _ _ Hcl) as Hblne.
    assert (Hhl : length hs = length bl) by (unfold hs; apply handles_from_length).
    assert (Hsort : sorted c (concat bl)) by (rewrite Ebl, Ecat; exact Hsorted).
    assert (Hsb : forall j, (j < length bl)%nat -> sorted c (nth j bl [])).
    { intros j Hj. rewrite (concat_split bl j Hj) in Hsort. apply (sorted_infix crc crc_bound compress decompress codec_ok fcontains c c_ok empty_least ri ri_pos _ _ _ Hsort). }
    exists bl, seps, hs. split; [|unfold tkvs; rewrite Ebl, Ecat; reflexivity].
    rewrite Hopen. constructor; cbn [tr_index tr_fetch tr_filter tr_dataEnd].
    - exact Hlen.
    - exact Hhl.
    - destruct bl; [congruence | cbn; lia].
    - exists (built 1 (ientries seps hs)). split; [exact HI|].
      exists (b_off 1 (ientries seps hs)), (b_ris 1 (ientries seps hs)).
      apply build_layout; [lia | rewrite <- EI; exact Hidx].
    - intros j Hj. exists (built ri (nth j bl [])). split.
      + rewrite <- Hfile. unfold out3. rewrite <- !app_assoc.
        apply fetch_written_z; [exact Hj| |apply Hdsz; exact Hj].
        rewrite !app_assoc. fold out3. rewrite Hfile. exact Hsize.
      + exists (b_off ri (nth j bl [])), (b_ris ri (nth j bl [])).
        apply build_layout; [exact ri_pos|apply Hdsz; exact Hj].
    - intros j Hj. unfold hs. rewrite (handles_nth_z bl 0 j Hj). cbn [bh_off bh_len].
      pose proof (out_of_firstn_le_all_z bl j). pose proof (out_of_split_z bl j Hj) as Es. apply (f_equal (@lenN N)) in Es.
      rewrite !lenN_app, wbytes_len_z in Es. split; lia.
    - exact Hsort.
    - destruct (cl_blocks _ _ _ _ _ _ _ _ _ Hcl) as [H|H]; [left | right; exact H].
      intros j Hj. rewrite Forall_forall in H. apply H. apply nth_In. exact Hj.
    - intros j x Hj Hin. destruct (cl_law _ _ _ _ _ _ _ _ _ Hcl j Hj) as [H1 _].
      apply (OrderProofs.le_trans c c_ok _ (lk (nth j bl []))); [|exact H1].
      apply (sorted_le_lk tp crc compress fcontains c c_ok empty_least ri ri_pos); [apply Hsb; exact Hj | exact Hin].
    - intros j x Hj Hin. destruct (cl_law _ _ _ _ _ _ _ _ _ Hcl j ltac:(lia)) as [_ H2]. specialize (H2 Hj).
      apply (OrderProofs.lt_le_trans c c_ok _ (fk (nth (S j) bl []))); [exact H2|].
      apply (sorted_fk_le crc crc_bound compress decompress codec_ok fcontains c c_ok empty_least ri ri_pos); [apply Hsb; exact Hj | exact Hin].
    - intros i j Hij Hj. unfold hs. rewrite (handles_nth_z bl 0 i ltac:(lia)), (handles_nth_z bl 0 j Hj). cbn [bh_off].
      pose proof (out_of_firstn_le_z bl i j Hij). lia.
    - intros j Hj. unfold hs. rewrite (handles_nth_z bl 0 j Hj). cbn [bh_off].
      pose proof (out_of_firstn_le_all_z bl j). lia.
  Qed.
End FinalZ.

(* ------------------------------------------------------------ the round trip, end to end, either compression setting *)
Theorem table_roundtrip_z tp crc compress decompress fcontains c blockSize ri fgen snappy kvs file fname verify strict :
  tparams_ok tp -> (forall b, crc b < 2 ^ 32) ->
  (forall x, decompress (compress x) = Some x) -> (forall x, compress x <> []) ->
  comparer_ok c -> (forall k, cmp c [] k <> Gt) -> 1 <= ri ->
  sorted c kvs ->
  twrite tp crc compress c blockSize ri snappy fgen kvs = Some file -> lenN file < 2 ^ 32 ->
  table_sizes_ok tp crc compress c blockSize ri snappy fgen kvs = true ->
  let rd := open_table tp crc decompress fcontains c file fname verify in
  (forall k v, In (k, v) kvs -> tget c rd k = FFound k v) /\
  (forall k, (forall v, ~ In (k, v) kvs) -> tget c rd k = FNotFound) /\
  (forall key, tfind c rd key false =
     match first_ge c key kvs 0 with
     | Some i => match nth_error kvs i with Some (k, v) => FFound k v | None => FOther end
     | None => FNotFound
     end) /\
  (exists t, new_titer c rd None strict = inr t /\
     forall ops, fst (ti_run c rd t ops) = c_run c kvs CSOI ops) /\
  (forall k1 k2, cmp c k1 k2 <> Gt ->
     exists o1 o2, toffset_of c rd k1 = Ok o1 /\ toffset_of c rd k2 = Ok o2 /\ o1 <= o2) /\
  (forall start limit,
     exists t, new_titer c rd (Some (start, limit)) strict = inr t /\
       forall ops, fst (ti_run c rd t ops) = c_run c (restrict c start limit kvs) CSOI ops).
Proof.
  intros Htp Hcrc Hcodec Hne Hc Hel Hri Hs Hw Hsz Hok rd.
  destruct (table_wf_of_write_z tp Htp crc Hcrc compress decompress Hcodec Hne fcontains c Hc Hel blockSize ri Hri fgen snappy kvs file fname verify Hs Hw Hsz Hok)
    as (blocks & seps & hs & Hwf & Ek).
  fold rd in Hwf. rewrite <- Ek.
  split; [intros k v; apply (tget_present c Hc rd blocks seps hs Hwf)|].
  split; [intros k; apply (tget_absent c Hc rd blocks seps hs Hwf)|].
  split; [intros key; apply (tfind_first_ge c Hc rd blocks seps hs Hwf)|].
  split; [apply (table_iter_refines c rd blocks seps hs strict Hc Hwf)|].
  split; [intros k1 k2; apply (toffset_mono c Hc rd blocks seps hs Hwf)|].
  intros start limit. apply (table_iter_range_refines c rd blocks seps hs start limit strict Hc Hwf).
Qed.
