(* Codec/Crc.v — executable CRC-32C (Castagnoli, reflected, as hash/crc32 computes it) and the
   mask of leveldb/util/crc32.go (CRC.Value).  Model file: definitions only.
   The theorems of C12 hold for every checksum function; this file is only the executable
   instance used when the model is run against the implementation (Corr/C12Run.v), where it is
   itself compared with hash/crc32 + util.CRC.Value on generated inputs. *)
From GL Require Export Base.Bytes.

(* hash/crc32.Castagnoli = 0x82f63b78 (reversed polynomial) *)
Definition crc_poly : N := 2197175160.
Definition mask32 : N := 4294967295.

(* ---- reference definition, one bit at a time (simpleUpdate of hash/crc32 unrolled) ---- *)
Definition crc_bit (c : N) : N :=
  if N.odd c then N.lxor (N.shiftr c 1) crc_poly else N.shiftr c 1.

Fixpoint iter_n {A} (n : nat) (f : A -> A) (x : A) : A :=
  match n with O => x | S n' => iter_n n' f (f x) end.

Definition crc_byte_bitwise (c b : N) : N := iter_n 8 crc_bit (N.lxor c b).

(* crc32.Update(c, castagnoliTable, l) *)
Definition crc_update_bitwise (c : N) (l : bytes) : N :=
  N.lxor (fold_left crc_byte_bitwise l (N.lxor c mask32)) mask32.

(* ---- table-driven: the 256-entry table as a complete binary tree indexed by the low 8 bits,
        least significant bit first; one walk yields the entry and the remaining high bits ---- *)
Inductive ctree := CLeaf (v : N) | CNode (l r : ctree).

Fixpoint ctree_build (d : nat) (prefix w : N) : ctree :=
  match d with
  | O => CLeaf (iter_n 8 crc_bit prefix)
  | S d' => CNode (ctree_build d' prefix (2 * w)) (ctree_build d' (prefix + w) (2 * w))
  end.

Definition crc_table : ctree := Eval vm_compute in ctree_build 8 0 1.

Fixpoint ctree_zero (t : ctree) : N :=
  match t with CLeaf v => v | CNode l _ => ctree_zero l end.

Fixpoint ctree_walk (t : ctree) (p : positive) : N * N :=
  match t with
  | CLeaf v => (v, Npos p)
  | CNode l r =>
      match p with
      | xO p' => ctree_walk l p'
      | xI p' => ctree_walk r p'
      | xH => (ctree_zero r, 0)
      end
  end.

(* tab[byte(c)^b] ^ (c >> 8)   for b < 256 *)
Definition crc_byte (c b : N) : N :=
  match N.lxor c b with
  | N0 => ctree_zero crc_table
  | Npos p => let (e, rest) := ctree_walk crc_table p in N.lxor e rest
  end.

Definition crc_update (c : N) (l : bytes) : N :=
  N.lxor (fold_left crc_byte l (N.lxor c mask32)) mask32.

(* util.NewCRC(b) = CRC(0).Update(b) *)
Definition crc32c (l : bytes) : N := crc_update 0 l.
Definition crc32c_bitwise (l : bytes) : N := crc_update_bitwise 0 l.

(* ---- util.CRC.Value: uint32(c>>15 | c<<17) + 0xa282ead8, constants supplied by Gen/Consts.v ---- *)
Record cparams := { crc_rot_r : N; crc_rot_l : N; crc_mask_delta : N }.

Definition cparams_ok (p : cparams) : Prop :=
  crc_rot_r p + crc_rot_l p = 32 /\ crc_mask_delta p < 2 ^ 32.

Definition crc_value (p : cparams) (c : N) : N :=
  (N.lor (N.shiftr c (crc_rot_r p)) ((N.shiftl c (crc_rot_l p)) mod 2 ^ 32) + crc_mask_delta p) mod 2 ^ 32.

(* util.NewCRC(b).Value() *)
Definition masked_crc (p : cparams) (l : bytes) : N := crc_value p (crc32c l).
Definition masked_crc_bitwise (p : cparams) (l : bytes) : N := crc_value p (crc32c_bitwise l).
