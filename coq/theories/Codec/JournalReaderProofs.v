(* Codec/JournalReaderProofs.v — the reader model factors through the block parser and the
   record assembler:   jread_log strict ck b = assemble strict AIdle (stream_events ck b)
   for every byte string b (hence it is total: never Panic, never OutOfFuel). *)
From GL Require Import Base.Bytes Base.BytesProofs Codec.Journal Codec.JournalSpec Codec.JournalLemmas.
From Coq Require Import Lia ZifyN ZifyNat ZifyBool.

Section ReaderProofs.
  Variable crc : bytes -> N.
  Variable p : jparams.
  Hypothesis pok : jparams_ok p.

  Lemma hs7 : hs p = 7.
  Proof. apply pok. Qed.
  Lemma hs_lt_bs : hs p < bs p.
  Proof. apply pok. Qed.

  (* ---- fuel of the specification functions is irrelevant once it covers the input *)
  Lemma parse_rest_fuel ck f1 : forall f2 rest,
    (length rest <= f1)%nat -> (length rest <= f2)%nat ->
    parse_rest crc p ck f1 rest = parse_rest crc p ck f2 rest.
  Proof.
    pose proof hs7 as H7.
    induction f1 as [|f1 IH]; intros f2 rest H1 H2.
    - destruct rest; [|cbn in H1; lia]. destruct f2; cbn [parse_rest]; [reflexivity|].
      replace (lenN (@nil N) <? hs p) with true by (rewrite lenN_nil; lia). reflexivity.
    - destruct f2 as [|f2].
      + destruct rest; [|cbn in H2; lia]. cbn [parse_rest].
        replace (lenN (@nil N) <? hs p) with true by (rewrite lenN_nil; lia). reflexivity.
      + cbn [parse_rest]. destruct (lenN rest <? hs p) eqn:E; [reflexivity|].
        repeat match goal with |- (if ?c then _ else _) = _ => destruct c; [reflexivity|] end.
        f_equal. apply IH; rewrite <- Nat2N.id, <- (Nat2N.id (length (dropN _ _)));
          fold (lenN (dropN (hs p + le_decode (takeN 2 (dropN 4 rest))) rest));
          rewrite lenN_dropN; unfold lenN in *; lia.
  Qed.

  Lemma parse_from_fuel ck f rest :
    (length rest <= f)%nat -> parse_rest crc p ck f rest = parse_from crc p ck rest.
  Proof. intros. unfold parse_from. apply parse_rest_fuel; lia. Qed.

  Lemma parse_from_short ck rest : lenN rest < hs p -> parse_from crc p ck rest = [].
  Proof.
    intros H. unfold parse_from. destruct (length rest); cbn [parse_rest]; [reflexivity|].
    replace (lenN rest <? hs p) with true by lia. reflexivity.
  Qed.

  Lemma blocks_fuel f1 : forall f2 b,
    (length b <= f1)%nat -> (length b <= f2)%nat -> blocks p f1 b = blocks p f2 b.
  Proof.
    pose proof hs_lt_bs as Hb.
    induction f1 as [|f1 IH]; intros f2 b H1 H2.
    - destruct b; [|cbn in H1; lia]. destruct f2; reflexivity.
    - destruct f2 as [|f2].
      + destruct b; [|cbn in H2; lia]. reflexivity.
      + cbn [blocks]. destruct b as [|x b]; [reflexivity|]. f_equal.
        assert (L : lenN (dropN (bs p) (x :: b)) <= lenN (x :: b) - 1)
          by (rewrite lenN_dropN; lia).
        unfold lenN in L. cbn [length] in *. apply IH; lia.
  Qed.

  Lemma stream_blocks_cons b : b <> [] ->
    stream_blocks p b = takeN (bs p) b :: stream_blocks p (dropN (bs p) b).
  Proof.
    pose proof hs_lt_bs as Hb.
    intros H. unfold stream_blocks. destruct b as [|x b]; [congruence|].
    cbn [length blocks]. f_equal. apply blocks_fuel; [|lia].
    assert (L : lenN (dropN (bs p) (x :: b)) <= lenN (x :: b) - 1) by (rewrite lenN_dropN; lia).
    unfold lenN in L. cbn [length] in *. lia.
  Qed.

  Lemma stream_events_cons ck b : b <> [] ->
    stream_events crc p ck b =
    parse_from crc p ck (takeN (bs p) b) ++ stream_events crc p ck (dropN (bs p) b).
  Proof. intros H. unfold stream_events. rewrite stream_blocks_cons by exact H. reflexivity. Qed.

  Lemma stream_events_nil ck : stream_events crc p ck [] = [].
  Proof. reflexivity. Qed.

  (* ---- the reader's state invariant and the events still ahead of it *)
  Variable strict ck : bool.

  Definition cur_blk (s : rstate) : bytes := takeN (r_n s) (r_buf s).
  Definition rest_of (s : rstate) : bytes := dropN (r_j s) (cur_blk s).

  Definition RInv (s : rstate) : Prop :=
    lenN (r_buf s) = bs p /\ r_n s <= bs p /\ r_j s <= r_n s /\ r_err s = ENone /\
    (r_n s = 0 \/ r_n s = bs p \/ r_inp s = []).

  Definition evs_of (s : rstate) : list bev :=
    parse_from crc p ck (rest_of s) ++ stream_events crc p ck (r_inp s).

  Lemma lenN_cur_blk s : RInv s -> lenN (cur_blk s) = r_n s.
  Proof. intros (H1 & H2 & _). unfold cur_blk. rewrite lenN_takeN. lia. Qed.

  Lemma lenN_rest_of s : RInv s -> lenN (rest_of s) = r_n s - r_j s.
  Proof. intros H. unfold rest_of. rewrite lenN_dropN, lenN_cur_blk by exact H. reflexivity. Qed.

  (* a window of the buffer inside the valid part of the block, relative to position j *)
  Lemma win s a b o len :
    RInv s -> a = r_j s + o -> b = r_j s + o + len -> b <= r_n s ->
    slice (r_buf s) a b = Some (takeN len (dropN o (rest_of s))).
  Proof.
    intros (H1 & H2 & H3 & _) -> -> Hb.
    rewrite slice_some by lia. f_equal.
    unfold rest_of, cur_blk. rewrite dropN_dropN.
    replace (r_j s + o + len - (r_j s + o)) with (r_j s + o + len - (o + r_j s)) by lia.
    replace len with (r_j s + o + len - (o + r_j s)) at 2 by lia.
    replace (r_j s + o) with (o + r_j s) by lia.
    symmetry. apply window_prefix. lia.
  Qed.

  Lemma nth_takeN (d : N) k n (l : bytes) : (k < N.to_nat n)%nat -> nth k (takeN n l) d = nth k l d.
  Proof.
    unfold takeN. remember (N.to_nat n) as m. clear. revert k l.
    induction m as [|m IH]; intros k l H; [lia|].
    destruct l as [|x l]; [destruct k; reflexivity|]. cbn [firstn]. destruct k; [reflexivity|].
    cbn [nth]. apply IH. lia.
  Qed.

  Lemma win_index s o :
    RInv s -> r_j s + o < r_n s ->
    index (r_buf s) (r_j s + o) = Some (nth (N.to_nat o) (rest_of s) 0).
  Proof.
    intros (H1 & H2 & H3 & _) Hb.
    rewrite (index_some 0) by lia. f_equal.
    unfold rest_of, cur_blk. rewrite nth_dropN, nth_takeN by lia. f_equal. lia.
  Qed.

  (* what nextChunk returns for the head event of the current block *)
  Definition nc_of_event (first : bool) (s : rstate) (ev : bev) : ncres :=
    match ev with
    | BBad r sz => corrupt strict (set_ij s (r_n s) (r_n s)) sz r false
    | BChunk c =>
        let i' := r_j s + hs p in
        let j' := r_j s + hs p + lenN (c_data c) in
        if first && negb (c_type c =? tFull p) && negb (c_type c =? tFirst p)
        then corrupt strict (set_ij s j' j') ((j' - i') + hs p) R_orphan true
        else NCOk {| r_inp := r_inp s; r_buf := r_buf s; r_i := i'; r_j := j'; r_n := r_n s;
                     r_last := (c_type c =? tFull p) || (c_type c =? tLast p);
                     r_err := r_err s |}
    end.

  Lemma nc_inblock f first s :
    RInv s -> r_j s + hs p <= r_n s ->
    exists ev tl,
      parse_from crc p ck (rest_of s) = ev :: tl /\
      nextChunk crc p strict ck (S f) first s = nc_of_event first s ev /\
      match ev with
      | BBad _ _ => tl = []
      | BChunk c =>
          r_j s + hs p + lenN (c_data c) <= r_n s /\
          c_data c = takeN (lenN (c_data c)) (dropN (hs p) (rest_of s)) /\
          tl = parse_from crc p ck (dropN (hs p + lenN (c_data c)) (rest_of s))
      end.
  Proof.
    intros Inv Hj. pose proof hs7 as H7. pose proof hs_lt_bs as Hb.
    pose proof (lenN_rest_of s Inv) as Lr.
    pose proof Inv as (I1 & I2 & I3 & I4 & I5).
    cbn [nextChunk].
    replace (r_j s + hs p <=? r_n s) with true by lia.
    rewrite (win s (r_j s + 0) (r_j s + 4) 0 4) by (try exact Inv; lia).
    rewrite (win s (r_j s + 4) (r_j s + 6) 4 2) by (try exact Inv; lia).
    rewrite (win_index s 6) by (try exact Inv; lia).
    rewrite dropN_0.
    change (N.to_nat 6) with 6%nat.
    unfold parse_from.
    destruct (length (rest_of s)) as [|fr] eqn:Efr; [unfold lenN in Lr; lia|].
    cbn [parse_rest]. replace (lenN (rest_of s) <? hs p) with false by lia.
    set (rest := rest_of s) in *.
    set (cks := le_decode (takeN 4 rest)).
    set (len := le_decode (takeN 2 (dropN 4 rest))).
    set (t := nth 6 rest 0).
    replace (r_n s - r_j s) with (lenN rest) by lia.
    destruct ((cks =? 0) && (len =? 0) && (t =? 0)) eqn:Ez.
    { exists (BBad R_zero (lenN rest)), []. repeat split. }
    destruct ((t <? tFull p) || (tLast p <? t)) eqn:Et.
    { exists (BBad R_type (lenN rest)), []. repeat split. }
    destruct (lenN rest <? hs p + len) eqn:Eo.
    { replace (r_n s <? r_j s + hs p + len) with true by lia.
      exists (BBad R_overflow (lenN rest)), []. repeat split. }
    replace (r_n s <? r_j s + hs p + len) with false by lia.
    assert (Ld : lenN (takeN len (dropN (hs p) rest)) = len)
      by (rewrite lenN_takeN, lenN_dropN; lia).
    destruct ck.
    - replace (r_j s + hs p =? 0) with false by lia.
      rewrite (win s (r_j s + hs p - 1) (r_j s + hs p + len) 6 (len + 1)) by (try exact Inv; lia).
      fold rest. cbn [option_map andb].
      destruct (negb (cks =? cksum crc (takeN (len + 1) (dropN 6 rest)))) eqn:Ec.
      { exists (BBad R_checksum (lenN rest)), []. repeat split. }
      eexists (BChunk _), _. split; [reflexivity|]. cbn [nc_of_event c_type c_data mk].
      rewrite Ld. split; [reflexivity|]. repeat split; try lia.
      apply parse_rest_fuel; [|lia].
      assert (L : lenN (dropN (hs p + len) rest) <= lenN rest - 1) by (rewrite lenN_dropN; lia).
      unfold lenN in L. lia.
    - cbn [andb].
      eexists (BChunk _), _. split; [reflexivity|]. cbn [nc_of_event c_type c_data mk].
      rewrite Ld. split; [reflexivity|]. repeat split; try lia.
      apply parse_rest_fuel; [|lia].
      assert (L : lenN (dropN (hs p + len) rest) <= lenN rest - 1) by (rewrite lenN_dropN; lia).
      unfold lenN in L. lia.
  Qed.

  (* the state after a well-formed chunk was accepted *)
  Definition adv (s : rstate) (c : chunk) : rstate :=
    {| r_inp := r_inp s; r_buf := r_buf s; r_i := r_j s + hs p;
       r_j := r_j s + hs p + lenN (c_data c); r_n := r_n s;
       r_last := (c_type c =? tFull p) || (c_type c =? tLast p); r_err := r_err s |}.

  Definition same_pos (s1 s2 : rstate) : Prop :=
    r_inp s1 = r_inp s2 /\ r_buf s1 = r_buf s2 /\ r_j s1 = r_j s2 /\ r_n s1 = r_n s2 /\
    r_err s1 = r_err s2.

  Lemma same_pos_inv s1 s2 : same_pos s1 s2 -> RInv s1 -> RInv s2.
  Proof. intros (E1 & E2 & E3 & E4 & E5). unfold RInv. rewrite E1, E2, E3, E4, E5. tauto. Qed.

  Lemma same_pos_evs s1 s2 : same_pos s1 s2 -> evs_of s1 = evs_of s2.
  Proof.
    intros (E1 & E2 & E3 & E4 & E5). unfold evs_of, rest_of, cur_blk. now rewrite E1, E2, E3, E4.
  Qed.

  Definition post (s0 : rstate) (ev : bev) (tl : list bev) : Prop :=
    match ev with
    | BBad _ _ =>
        RInv (set_ij s0 (r_n s0) (r_n s0)) /\ evs_of (set_ij s0 (r_n s0) (r_n s0)) = tl
    | BChunk c =>
        RInv (adv s0 c) /\ evs_of (adv s0 c) = tl /\
        slice (r_buf s0) (r_j s0 + hs p) (r_j s0 + hs p + lenN (c_data c)) = Some (c_data c)
    end.

  Lemma nc_inblock_post f first s :
    RInv s -> r_j s + hs p <= r_n s ->
    exists ev tl,
      evs_of s = ev :: tl /\
      nextChunk crc p strict ck (S f) first s = nc_of_event first s ev /\
      post s ev tl.
  Proof.
    intros Inv Hj. pose proof hs7 as H7.
    destruct (nc_inblock f first s Inv Hj) as (ev & tl & E & Enc & Hev).
    pose proof Inv as (I1 & I2 & I3 & I4 & I5).
    exists ev, (tl ++ stream_events crc p ck (r_inp s)). split; [unfold evs_of; rewrite E; reflexivity|].
    split; [exact Enc|]. destruct ev as [c|r sz]; cbn [post].
    - destruct Hev as (Hle & Hd & ->). split; [|split].
      + unfold RInv, adv; cbn. repeat split; try assumption; lia.
      + unfold evs_of, rest_of, cur_blk, adv; cbn. f_equal. f_equal.
        rewrite dropN_dropN. f_equal. lia.
      + rewrite (win s (r_j s + hs p) (r_j s + hs p + lenN (c_data c)) (hs p) (lenN (c_data c)))
          by (try exact Inv; lia).
        f_equal. symmetry. exact Hd.
    - subst tl. split.
      + unfold RInv, set_ij; cbn. repeat split; try assumption; lia.
      + unfold evs_of, rest_of, cur_blk, set_ij; cbn.
        rewrite parse_from_short; [reflexivity|].
        rewrite lenN_dropN, lenN_takeN. lia.
  Qed.

  Lemma nc_spec F first s :
    RInv s -> (2 <= F)%nat ->
    (evs_of s = [] /\
     exists s', RInv s' /\ evs_of s' = [] /\
       nextChunk crc p strict ck F first s =
       if negb first then corrupt strict s' 0 R_missing false else NCEof (set_err s' EEOF))
    \/
    (exists s0 ev tl, RInv s0 /\ evs_of s = ev :: tl /\
       nextChunk crc p strict ck F first s = nc_of_event first s0 ev /\ post s0 ev tl).
  Proof.
    intros Inv HF. pose proof hs7 as H7. pose proof hs_lt_bs as Hb.
    destruct F as [|[|f]]; try lia.
    pose proof Inv as (I1 & I2 & I3 & I4 & I5).
    destruct (r_j s + hs p <=? r_n s) eqn:Ej.
    { right. destruct (nc_inblock_post (S f) first s Inv) as (ev & tl & H); [lia|].
      exists s, ev, tl. tauto. }
    assert (Es : parse_from crc p ck (rest_of s) = []).
    { apply parse_from_short. rewrite lenN_rest_of by exact Inv. lia. }
    cbn [nextChunk]. rewrite Ej.
    destruct ((r_n s <? bs p) && (0 <? r_n s)) eqn:El.
    { left. assert (r_inp s = []) as Ei by (destruct I5 as [?|[?|?]]; [lia|lia|assumption]).
      assert (evs_of s = []) as Ee by (unfold evs_of; rewrite Es, Ei; reflexivity).
      split; [exact Ee|]. exists s. repeat split; assumption. }
    rewrite I1.
    destruct (lenN (takeN (bs p) (r_inp s)) =? 0) eqn:En.
    { left. assert (r_inp s = []) as Ei.
      { rewrite lenN_takeN in En. apply lenN_0. lia. }
      assert (evs_of s = []) as Ee by (unfold evs_of; rewrite Es, Ei; reflexivity).
      split; [exact Ee|]. exists s. repeat split; assumption. }
    set (blk := takeN (bs p) (r_inp s)) in *.
    set (s2 := {| r_inp := dropN (bs p) (r_inp s); r_buf := blk ++ dropN (lenN blk) (r_buf s);
                  r_i := 0; r_j := 0; r_n := lenN blk; r_last := r_last s; r_err := r_err s |}).
    assert (Lb : lenN blk = N.min (bs p) (lenN (r_inp s))) by (unfold blk; apply lenN_takeN).
    assert (Inv2 : RInv s2).
    { unfold RInv, s2; cbn. repeat split; try assumption; try lia.
      - rewrite lenN_app, lenN_dropN. lia.
      - destruct (lenN blk =? bs p) eqn:E; [right; left; lia|].
        right; right. apply dropN_all. lia. }
    assert (Ne : r_inp s <> []) by (intros E; unfold blk in En; rewrite E, lenN_takeN, lenN_nil in En; lia).
    assert (Ev2 : evs_of s2 = evs_of s).
    { unfold evs_of at 2. rewrite Es. cbn [app]. rewrite (stream_events_cons ck _ Ne).
      unfold evs_of, rest_of, cur_blk, s2; cbn.
      rewrite takeN_app_exact by reflexivity. reflexivity. }
    destruct (0 + hs p <=? lenN blk) eqn:E2.
    { right. destruct (nc_inblock_post f first s2 Inv2) as (ev & tl & H); [cbn; lia|].
      exists s2, ev, tl. rewrite <- Ev2. tauto. }
    left. assert (Ei2 : r_inp s2 = []) by (cbn; apply dropN_all; lia).
    assert (Ee2 : evs_of s2 = []).
    { unfold evs_of. rewrite Ei2. rewrite parse_from_short; [reflexivity|].
      rewrite lenN_rest_of by exact Inv2. cbn. lia. }
    split; [rewrite <- Ev2; exact Ee2|]. exists s2. split; [exact Inv2|]. split; [exact Ee2|].
    cbn [nextChunk]. change (r_j s2) with 0. change (r_n s2) with (lenN blk). rewrite E2.
    replace ((lenN blk <? bs p) && (0 <? lenN blk)) with true by lia. reflexivity.
  Qed.

  Lemma corrupt_strict s n r : corrupt true s n r false = NCCorrupt (set_err s ECorrupt) r n.
  Proof. reflexivity. Qed.
  Lemma corrupt_tolerant s n r sk : corrupt false s n r sk = NCSkip s r n.
  Proof. reflexivity. Qed.
  Lemma corrupt_skip st s n r : corrupt st s n r true = NCSkip s r n.
  Proof. unfold corrupt. rewrite andb_false_r. reflexivity. Qed.

  Lemma set_ij_same s i j : r_j s = j -> same_pos (set_ij s i j) s.
  Proof. intros <-. repeat split. Qed.

  Lemma adv_same s c i :
    same_pos (set_ij s i (r_j s + hs p + lenN (c_data c))) (adv s c).
  Proof. repeat split. Qed.

  (* ---- Reader.Next *)
  Lemma next_loop_ok F : (2 <= F)%nat -> forall fuel s,
    RInv s -> (length (evs_of s) < fuel)%nat ->
    let '(ds, res) := next_loop crc p strict ck F fuel s in
    match res with
    | NxEof => assemble p strict AIdle (evs_of s) = ds
    | NxErr => assemble p strict AIdle (evs_of s) = ds ++ [Err]
    | NxOk s' =>
        exists s0 c tl, RInv s0 /\ s' = adv s0 c /\ post s0 (BChunk c) tl /\
          is_start_type p (c_type c) = true /\ (length tl < length (evs_of s))%nat /\
          assemble p strict AIdle (evs_of s) = ds ++ assemble p strict AIdle (BChunk c :: tl)
    | NxPanic | NxFuel => False
    end.
  Proof.
    intros HF. induction fuel as [|fuel IH]; intros s Inv Hf; [lia|].
    cbn [next_loop].
    destruct (nc_spec F true s Inv HF) as [(Ee & s' & Inv' & Ee' & Enc) | (s0 & ev & tl & Inv0 & Ee & Enc & Hpost)].
    - rewrite Enc. cbn [negb]. rewrite Ee. reflexivity.
    - rewrite Enc, Ee. destruct ev as [c|r sz]; cbn [nc_of_event post] in *.
      + destruct Hpost as (Inv1 & Ev1 & Hsl).
        destruct ((c_type c =? tFull p) || (c_type c =? tFirst p)) eqn:Est.
        * replace (true && negb (c_type c =? tFull p) && negb (c_type c =? tFirst p)) with false
            by (destruct (c_type c =? tFull p), (c_type c =? tFirst p); cbn in *; congruence).
          exists s0, c, tl. split; [exact Inv0|]. split; [reflexivity|]. split; [cbn [post]; tauto|].
          split; [exact Est|]. split; [cbn [length]; lia | reflexivity].
        * replace (true && negb (c_type c =? tFull p) && negb (c_type c =? tFirst p)) with true
            by (destruct (c_type c =? tFull p), (c_type c =? tFirst p); cbn in *; congruence).
          rewrite corrupt_skip.
          set (s1 := set_ij s0 _ _).
          assert (SP : same_pos s1 (adv s0 c)) by apply adv_same.
          assert (Inv1' : RInv s1) by (apply (same_pos_inv (adv s0 c)); [|exact Inv1]; repeat split).
          assert (Ev1' : evs_of s1 = tl) by (rewrite (same_pos_evs _ _ SP); exact Ev1).
          specialize (IH s1 Inv1'). rewrite Ev1' in IH. rewrite Ee in Hf. cbn [length] in Hf.
          specialize (IH ltac:(lia)).
          destruct (next_loop crc p strict ck F fuel s1) as [ds res].
          cbn [assemble]. unfold is_start_type. rewrite Est.
          replace (r_j s0 + hs p + lenN (c_data c) - (r_j s0 + hs p) + hs p)
            with (lenN (c_data c) + hs p) by lia.
          destruct res; try (cbn [app]; rewrite IH; reflexivity); try contradiction.
          destruct IH as (s0' & c' & tl' & H1 & H2 & H3 & H4 & H5 & H6).
          exists s0', c', tl'. split; [exact H1|]. split; [exact H2|]. split; [exact H3|].
          split; [exact H4|]. split; [cbn [length]; lia|].
          cbn [app]. rewrite H6. reflexivity.
      + destruct Hpost as (Inv1 & Ev1).
        destruct strict eqn:Estr.
        * rewrite corrupt_strict. cbn [assemble]. reflexivity.
        * rewrite corrupt_tolerant.
          specialize (IH _ Inv1). rewrite Ev1 in IH. rewrite Ee in Hf. cbn [length] in Hf.
          specialize (IH ltac:(lia)).
          destruct (next_loop crc p false ck F fuel _) as [ds res].
          cbn [assemble].
          destruct res; try (cbn [app]; rewrite IH; reflexivity); try contradiction.
          destruct IH as (s0' & c' & tl' & H1 & H2 & H3 & H4 & H5 & H6).
          exists s0', c', tl'. split; [exact H1|]. split; [exact H2|]. split; [exact H3|].
          split; [exact H4|]. split; [cbn [length]; lia|].
          cbn [app]. rewrite H6. reflexivity.
  Qed.

  (* ---- singleReader.Read until io.EOF *)
  Definition rd_measure (s : rstate) : nat :=
    (2 * length (evs_of s) + (if r_i s =? r_j s then 0 else 1) + 2)%nat.

  Definition rd_cont (s : rstate) (acc d : bytes) : list outcome :=
    if r_last s then Rec (acc ++ d) :: assemble p strict AIdle (evs_of s)
    else assemble p strict (AIn (acc ++ d)) (evs_of s).

  Lemma read_loop_ok F : (2 <= F)%nat -> forall fuel s acc d,
    RInv s -> slice (r_buf s) (r_i s) (r_j s) = Some d -> (rd_measure s <= fuel)%nat ->
    let '(ds, res) := read_loop crc p strict ck F fuel s acc in
    match res with
    | RdOk x s' =>
        RInv s' /\ (length (evs_of s') <= length (evs_of s))%nat /\
        rd_cont s acc d = ds ++ Rec x :: assemble p strict AIdle (evs_of s')
    | RdUnexpectedEOF s' =>
        RInv s' /\ (length (evs_of s') <= length (evs_of s))%nat /\
        rd_cont s acc d = ds ++ Skipped :: assemble p strict AIdle (evs_of s')
    | RdErr => rd_cont s acc d = ds ++ [Err]
    | RdPanic | RdFuel => False
    end.
  Proof.
    intros HF. induction fuel as [|fuel IH]; intros s acc d Inv Hsl Hm; [unfold rd_measure in Hm; lia|].
    cbn [read_loop]. unfold rd_measure in Hm.
    destruct (r_i s =? r_j s) eqn:Eij.
    - assert (d = []) as -> by (apply slice_len in Hsl; apply lenN_0; lia).
      unfold rd_cont. rewrite app_nil_r.
      destruct (r_last s) eqn:El.
      { split; [exact Inv|]. split; [lia | reflexivity]. }
      destruct (nc_spec F false s Inv HF) as [(Ee & s' & Inv' & Ee' & Enc) | (s0 & ev & tl & Inv0 & Ee & Enc & Hpost)].
      + rewrite Enc. cbn [negb]. rewrite Ee. destruct strict eqn:Estr.
        * rewrite corrupt_strict. reflexivity.
        * rewrite corrupt_tolerant. split; [exact Inv'|]. split; [rewrite Ee'; cbn; lia|].
          rewrite Ee'. reflexivity.
      + rewrite Enc, Ee. destruct ev as [c|r sz]; cbn [nc_of_event post] in *.
        * destruct Hpost as (Inv1 & Ev1 & Hsl1). cbn [andb]. fold (adv s0 c).
          specialize (IH (adv s0 c) acc (c_data c) Inv1 Hsl1).
          rewrite Ee in Hm. cbn [length] in Hm.
          assert (Hm1 : (rd_measure (adv s0 c) <= fuel)%nat).
          { unfold rd_measure. rewrite Ev1. destruct (r_i (adv s0 c) =? r_j (adv s0 c)); lia. }
          specialize (IH Hm1).
          destruct (read_loop crc p strict ck F fuel (adv s0 c) acc) as [ds res].
          unfold rd_cont in IH. rewrite Ev1 in IH. change (r_last (adv s0 c)) with (is_last_type p (c_type c)) in IH.
          cbn [assemble length].
          destruct res; try contradiction.
          -- destruct IH as (H1 & H2 & H3). split; [exact H1|]. split; [lia | exact H3].
          -- destruct IH as (H1 & H2 & H3). split; [exact H1|]. split; [lia | exact H3].
          -- exact IH.
        * destruct Hpost as (Inv1 & Ev1). destruct strict eqn:Estr.
          -- rewrite corrupt_strict. reflexivity.
          -- rewrite corrupt_tolerant. split; [exact Inv1|]. split; [rewrite Ev1; cbn; lia|].
             rewrite Ev1. reflexivity.
    - rewrite Hsl.
      set (s1 := set_ij s (r_j s) (r_j s)).
      assert (SP : same_pos s1 s) by (apply set_ij_same; reflexivity).
      assert (Inv1 : RInv s1) by (apply (same_pos_inv s); [|exact Inv]; repeat split).
      assert (Ev1 : evs_of s1 = evs_of s) by (apply same_pos_evs; exact SP).
      assert (Hsl1 : slice (r_buf s1) (r_i s1) (r_j s1) = Some []).
      { cbn. apply slice_len in Hsl. rewrite slice_some by lia.
        replace (r_j s - r_j s) with 0 by lia. reflexivity. }
      specialize (IH s1 (acc ++ d) [] Inv1 Hsl1).
      assert (Hm1 : (rd_measure s1 <= fuel)%nat).
      { unfold rd_measure. rewrite Ev1. cbn [s1 set_ij r_i r_j]. rewrite N.eqb_refl. lia. }
      specialize (IH Hm1).
      destruct (read_loop crc p strict ck F fuel s1 (acc ++ d)) as [ds res].
      unfold rd_cont in *. rewrite Ev1 in IH. change (r_last s1) with (r_last s) in IH.
      rewrite app_nil_r in IH. exact IH.
  Qed.

  (* ---- the replay loop *)
  Lemma jloop_ok F : forall fuel s,
    RInv s -> (length (evs_of s) < fuel)%nat -> (2 * length (evs_of s) + 3 <= F)%nat ->
    jloop crc p strict ck F fuel s = assemble p strict AIdle (evs_of s).
  Proof.
    induction fuel as [|fuel IH]; intros s Inv Hf HF; [lia|].
    cbn [jloop]. unfold rNext. pose proof Inv as (_ & _ & _ & Ie & _). rewrite Ie.
    set (s1 := set_ij s (r_j s) (r_j s)).
    assert (SP : same_pos s1 s) by (apply set_ij_same; reflexivity).
    assert (Inv1 : RInv s1) by (apply (same_pos_inv s); [|exact Inv]; repeat split).
    assert (Ev1 : evs_of s1 = evs_of s) by (apply same_pos_evs; exact SP).
    pose proof (next_loop_ok F ltac:(lia) F s1 Inv1) as HN. rewrite Ev1 in HN.
    specialize (HN ltac:(lia)).
    destruct (next_loop crc p strict ck F F s1) as [ds res].
    destruct res as [s'| | | |]; try contradiction.
    - destruct HN as (s0 & c & tl & Inv0 & -> & Hpost & Hst & Hlen & Hasm).
      cbn [post] in Hpost. destruct Hpost as (Inv' & Ev' & Hsl).
      pose proof (read_loop_ok F ltac:(lia) F (adv s0 c) [] (c_data c) Inv' Hsl) as HR.
      assert (Hm : (rd_measure (adv s0 c) <= F)%nat).
      { unfold rd_measure. rewrite Ev'. destruct (r_i (adv s0 c) =? r_j (adv s0 c)); lia. }
      specialize (HR Hm).
      destruct (read_loop crc p strict ck F F (adv s0 c) []) as [ds2 res2].
      rewrite Hasm. f_equal. cbn [assemble]. rewrite Hst.
      unfold rd_cont in HR. rewrite Ev' in HR. cbn [app] in HR.
      change (r_last (adv s0 c)) with (is_last_type p (c_type c)) in HR.
      destruct res2 as [x s2|s2| | |]; try contradiction.
      + destruct HR as (Inv2 & Hl2 & HR). rewrite HR. f_equal. f_equal.
        apply IH; [exact Inv2 | lia | lia].
      + destruct HR as (Inv2 & Hl2 & HR). rewrite HR. f_equal. f_equal.
        apply IH; [exact Inv2 | lia | lia].
      + symmetry; exact HR.
    - rewrite HN. apply app_nil_r.
    - rewrite HN. reflexivity.
  Qed.

  (* ---- every event consumes at least one byte *)
  Lemma parse_rest_length f : forall rest, (length (parse_rest crc p ck f rest) <= length rest)%nat.
  Proof.
    pose proof hs7 as H7.
    induction f as [|f IH]; intros rest; cbn [parse_rest]; [cbn; lia|].
    destruct (lenN rest <? hs p) eqn:E; [cbn; lia|].
    assert (1 <= length rest)%nat by (unfold lenN in E; lia).
    repeat match goal with |- (length (if ?c then _ else _) <= _)%nat => destruct c; [cbn [length]; lia|] end.
    cbn [length]. specialize (IH (dropN (hs p + le_decode (takeN 2 (dropN 4 rest))) rest)).
    assert (L : lenN (dropN (hs p + le_decode (takeN 2 (dropN 4 rest))) rest) <= lenN rest - 1)
      by (rewrite lenN_dropN; lia).
    unfold lenN in L. lia.
  Qed.

  Lemma blocks_events_length f : forall b,
    (length (flat_map (parse_from crc p ck) (blocks p f b)) <= length b)%nat.
  Proof.
    induction f as [|f IH]; intros b; cbn [blocks flat_map]; [cbn; lia|].
    destruct b as [|x b]; [cbn; lia|]. cbn [flat_map]. rewrite app_length.
    specialize (IH (dropN (bs p) (x :: b))).
    pose proof (parse_rest_length (length (takeN (bs p) (x :: b))) (takeN (bs p) (x :: b))) as H1.
    assert (HL : length (x :: b) = (length (takeN (bs p) (x :: b)) + length (dropN (bs p) (x :: b)))%nat)
      by (rewrite <- app_length, takeN_dropN; reflexivity).
    unfold parse_from at 1. lia.
  Qed.

  Lemma stream_events_length b : (length (stream_events crc p ck b) <= length b)%nat.
  Proof. apply blocks_events_length. Qed.

  (* ---- the factorisation *)
  Theorem reader_factor b :
    jread_log crc p strict ck b = assemble p strict AIdle (stream_events crc p ck b).
  Proof.
    pose proof hs7 as H7. pose proof hs_lt_bs as Hb.
    unfold jread_log.
    assert (Inv : RInv (r_init p b)).
    { unfold RInv, r_init; cbn. rewrite lenN_zeros. repeat split; try lia. }
    assert (Ev : evs_of (r_init p b) = stream_events crc p ck b).
    { unfold evs_of, rest_of, cur_blk, r_init; cbn [r_n r_j r_buf r_inp].
      rewrite parse_from_short; [reflexivity|]. rewrite lenN_dropN, lenN_takeN. lia. }
    pose proof (stream_events_length b) as HL.
    rewrite jloop_ok; [rewrite Ev; reflexivity | exact Inv | |]; rewrite Ev; unfold jfuel; lia.
  Qed.
End ReaderProofs.
