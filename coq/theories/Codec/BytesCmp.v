(* Codec/BytesCmp.v — model of leveldb/comparer/bytes_comparer.go (bytes.Compare,
   Separator, Successor).  Model file: definitions only. *)
From GL Require Export Base.Order.

Fixpoint bcompare (a b : bytes) : comparison :=
  match a, b with
  | [], [] => Eq
  | [], _ :: _ => Lt
  | _ :: _, [] => Gt
  | x :: a', y :: b' =>
      match x ?= y with
      | Eq => bcompare a' b'
      | r => r
      end
  end.

(* Separator: skip the common prefix; if one string is a prefix of the other: nil;
   else if c := a[i]; c < 0xff && c+1 < b[i] then a[:i] ++ [c+1] else nil *)
Fixpoint bsep (a b : bytes) : option bytes :=
  match a, b with
  | x :: a', y :: b' =>
      if x =? y then option_map (cons x) (bsep a' b')
      else if (x <? 255) && (x + 1 <? y) then Some [x + 1] else None
  | _, _ => None
  end.

(* Successor: first byte that is not 0xff is incremented and the rest cut *)
Fixpoint bsucc (b : bytes) : option bytes :=
  match b with
  | [] => None
  | x :: b' => if x =? 255 then option_map (cons x) (bsucc b') else Some [x + 1]
  end.

Definition bytewise : comparer := {| cmp := bcompare; sep := bsep; succ := bsucc |}.

(* Two further lawful comparers used by the harness (custom comparers):
   shortlex — shorter strings first, then bytewise; never shortens.
   xorcmp m — bytewise after xor-ing every byte with the mask m (< 256); shortens through bytewise. *)
Definition shortlex_cmp (a b : bytes) : comparison :=
  match Nat.compare (length a) (length b) with
  | Eq => bcompare a b
  | r => r
  end.
Definition shortlex : comparer :=
  {| cmp := shortlex_cmp; sep := fun _ _ => None; succ := fun _ => None |}.

Definition xmap (m : N) (a : bytes) : bytes := map (fun x => N.lxor x m) a.
Definition xorcmp (m : N) : comparer :=
  {| cmp := fun a b => bcompare (xmap m a) (xmap m b);
     sep := fun a b => option_map (xmap m) (bsep (xmap m a) (xmap m b));
     succ := fun b => option_map (xmap m) (bsucc (xmap m b)) |}.
