(* Codec/FilterBlock.v — model of the filter block of a table:
     leveldb/table/writer.go  filterWriter.add / flush / generate / finish  (and NewWriter's flush(0)),
     leveldb/table/reader.go  Reader.readFilterBlock, filterBlock.contains,
     leveldb/filter.go        iFilter / iFilterGenerator (strip the 8-byte internal-key trailer).
   Standalone (does not depend on the table model).  Model file: definitions only; proofs in
   FilterBlockProofs.v.   None = the Go code panics. *)
From GL Require Export Base.Bytes Base.NIdx Codec.Bloom.
From Coq Require Import ZArith.

(* A filter policy as the filter block sees it (filter.Filter + filter.FilterGenerator):
   p_add : what generator.Add(key) remembers of the key (None = Add panics),
   p_gen : generator.Generate over what was remembered since the previous Generate,
   p_has : Filter.Contains(filter, key). *)
Record policy := {
  p_add : bytes -> option bytes;
  p_gen : list bytes -> option bytes;
  p_has : bytes -> bytes -> option bool
}.

(* contract needed of a policy: no false negative, and a non-empty key set never yields an
   empty filter (the reader answers "absent" for an empty filter slot: n == m). *)
Definition policy_ok (P : policy) : Prop :=
  forall ks f k x, p_gen P ks = Some f -> p_add P k = Some x -> In x ks ->
    p_has P f k = Some true /\ f <> [].

(* filter.NewBloomFilter(bpk) *)
Definition bloom_policy (p : bparams) (bpk : Z) : policy := {|
  p_add := fun k => Some k;
  p_gen := bloom_filter_of p bpk;
  p_has := bloom_contains p
|}.

(* internalKey.ukey(): panics when shorter than 8 bytes *)
Definition ukey_of (k : bytes) : option bytes :=
  if Nat.ltb (length k) 8 then None else Some (droplast 8 k).

(* iFilter{P}: Add and Contains both strip the trailer before delegating *)
Definition ifilter (P : policy) : policy := {|
  p_add := fun k => match ukey_of k with Some u => p_add P u | None => None end;
  p_gen := p_gen P;
  p_has := fun f k => match ukey_of k with Some u => p_has P f u | None => None end
|}.

(* ---- filterWriter ---- *)

Record fwstate := {
  fw_pending : list bytes;   (* the generator's state: keys added since the last Generate *)
  fw_buf : bytes;
  fw_nkeys : N;
  fw_offsets : list N;
  fw_lg : N                  (* baseLg *)
}.

Definition fw_init (lg : N) : fwstate :=
  {| fw_pending := []; fw_buf := []; fw_nkeys := 0; fw_offsets := []; fw_lg := lg |}.

(* add: generator.Add(key); nKeys++ *)
Definition fw_add (P : policy) (st : fwstate) (key : bytes) : option fwstate :=
  match p_add P key with
  | None => None
  | Some x => Some {| fw_pending := fw_pending st ++ [x]; fw_buf := fw_buf st;
                      fw_nkeys := fw_nkeys st + 1; fw_offsets := fw_offsets st; fw_lg := fw_lg st |}
  end.

(* generate: offsets = append(offsets, uint32(buf.Len())); if nKeys > 0 { Generate(&buf); nKeys = 0 } *)
Definition fw_generate (P : policy) (st : fwstate) : option fwstate :=
  let offs := fw_offsets st ++ [w32 (lenN (fw_buf st))] in
  if 0 <? fw_nkeys st then
    match p_gen P (fw_pending st) with
    | None => None
    | Some f => Some {| fw_pending := []; fw_buf := fw_buf st ++ f; fw_nkeys := 0;
                        fw_offsets := offs; fw_lg := fw_lg st |}
    end
  else Some {| fw_pending := fw_pending st; fw_buf := fw_buf st; fw_nkeys := fw_nkeys st;
               fw_offsets := offs; fw_lg := fw_lg st |}.

Fixpoint fw_gen_n (P : policy) (n : nat) (st : fwstate) : option fwstate :=
  match n with
  | O => Some st
  | S n' => match fw_generate P st with None => None | Some st' => fw_gen_n P n' st' end
  end.

(* flush: for x := int(offset / uint64(1<<baseLg)); x > len(offsets); { generate() }
   every generate() lengthens offsets by one, so the loop runs x - len(offsets) times;
   1<<baseLg is 0 for baseLg >= 64: integer divide by zero *)
Definition fw_flush (P : policy) (st : fwstate) (offset : N) : option fwstate :=
  if 64 <=? fw_lg st then None
  else fw_gen_n P (N.to_nat (offset / 2 ^ fw_lg st - lenN (fw_offsets st))) st.

(* NewWriter: baseLg = uint(o.GetFilterBaseLg()); flush(0) *)
Definition fw_new (P : policy) (lg : N) : option fwstate := fw_flush P (fw_init lg) 0.

(* finish: if nKeys > 0 { generate() }; offsets = append(offsets, uint32(buf.Len()));
           for x in offsets { PutUint32 }; WriteByte(byte(baseLg)) *)
Definition fw_finish (P : policy) (st : fwstate) : option bytes :=
  match (if 0 <? fw_nkeys st then fw_generate P st else Some st) with
  | None => None
  | Some st' =>
      let offs := fw_offsets st' ++ [w32 (lenN (fw_buf st'))] in
      Some (fw_buf st' ++ flat_map le32 offs ++ [fw_lg st' mod 256])
  end.

(* what the table writer does to the filter writer: Append -> add(key); finishBlock -> flush(w.offset) *)
Inductive fwop := FAdd (key : bytes) | FFlush (offset : N).

Definition fw_step (P : policy) (st : fwstate) (op : fwop) : option fwstate :=
  match op with
  | FAdd k => fw_add P st k
  | FFlush o => fw_flush P st o
  end.

Fixpoint fw_run (P : policy) (ops : list fwop) (st : fwstate) : option fwstate :=
  match ops with
  | [] => Some st
  | op :: r => match fw_step P st op with None => None | Some st' => fw_run P r st' end
  end.

(* the whole life of a filter writer: NewWriter, the operations, finish *)
Definition fw_build (P : policy) (lg : N) (ops : list fwop) : option bytes :=
  match fw_new P lg with
  | None => None
  | Some st0 => match fw_run P ops st0 with None => None | Some st => fw_finish P st end
  end.

(* the offset of the data block that is open when each key is added: the argument of the
   latest flush before it (cur = 0 at the beginning) *)
Fixpoint tagged (ops : list fwop) (cur : N) : list (N * bytes) :=
  match ops with
  | [] => []
  | FAdd k :: r => (cur, k) :: tagged r cur
  | FFlush o :: r => tagged r o
  end.

(* the table writer's offset never decreases *)
Fixpoint flushes_mono (ops : list fwop) (cur : N) : Prop :=
  match ops with
  | [] => True
  | FAdd _ :: r => flushes_mono r cur
  | FFlush o :: r => cur <= o /\ flushes_mono r o
  end.

(* ---- reader ---- *)

Record fblock := { fb_data : bytes; fb_ooff : N; fb_lg : N; fb_num : N }.

(* readFilterBlock (after readRawBlock has checked and removed the block trailer):
   n := len(data); if n < 5 error; m := n - 5; oOffset := Uint32(data[m:]); if oOffset > m error
   baseLg: uint(data[n-1]); filtersNum: (m - oOffset) / 4 *)
Definition fb_parse (data : bytes) : option fblock :=
  let n := lenN data in
  if n <? 5 then None
  else
    let m := n - 5 in
    let ooff := u32_at data m in
    if m <? ooff then None
    else Some {| fb_data := data; fb_ooff := ooff; fb_lg := get_at data (n - 1); fb_num := (m - ooff) / 4 |}.

(* filterBlock.contains:
   i := int(offset >> baseLg)
   if i < filtersNum { o := data[oOffset+i*4:]; n := Uint32(o); m := Uint32(o[4:])
     if n < m && m <= oOffset { return filter.Contains(data[n:m], key) } else if n == m { return false } }
   return true *)
Definition fb_contains (P : policy) (b : fblock) (offset : N) (key : bytes) : option bool :=
  let i := N.shiftr offset (fb_lg b) in
  if i <? fb_num b then
    let n := u32_at (fb_data b) (fb_ooff b + i * 4) in
    let m := u32_at (fb_data b) (fb_ooff b + i * 4 + 4) in
    if (n <? m) && (m <=? fb_ooff b) then p_has P (slice (fb_data b) n m) key
    else if n =? m then Some false
    else Some true
  else Some true.

(* Reader.find with a filter: a filter block that does not parse is not used (NewReader sets
   r.filter = nil; find ignores a corrupted filter block), i.e. the key may be present *)
Definition fb_may_contain (P : policy) (data : bytes) (offset : N) (key : bytes) : option bool :=
  match fb_parse data with
  | None => Some true
  | Some b => fb_contains P b offset key
  end.

(* Reader.find's use of the filter, abstracted from the rest of the table: [unfiltered] is what the
   lookup in the data block at [offset] yields for [key] when no filter is consulted (None = not
   found).  With a filter: if !filterBlock.contains(...) { return ErrNotFound }; otherwise go on. *)
Definition find_with_filter {A} (P : policy) (data : bytes) (offset : N) (key : bytes)
    (unfiltered : option A) : option (option A) :=
  match fb_may_contain P data offset key with
  | None => None                 (* the policy's Contains panicked *)
  | Some false => Some None      (* ErrNotFound *)
  | Some true => Some unfiltered
  end.
