(* Codec/BlockEnc.v — proofs, part 1: what blockWriter produces (closed form of the entries
   area and of the restart array) and that Reader.readBlock / block.entry / block.restartOffset
   read it back.  The result is packaged as [block_layout], the only thing the iterator proofs
   (BlockProofs.v) use. *)
From GL Require Import Base.Bytes Base.BytesProofs Base.Varint Base.VarintProofs Base.Order Codec.Block.
From Coq Require Import Arith ZArith Lia ZifyN ZifyNat ZifyBool.

Local Open Scope N_scope.

(* ------------------------------------------------------------ shared prefix *)
Lemma spl_le_l a : forall b, shared_prefix_len a b <= lenN a.
Proof.
  induction a as [|x a IH]; intros [|y b]; cbn [shared_prefix_len]; try (unfold lenN; cbn [length]; lia).
  destruct (x =? y); [|lia]. specialize (IH b). rewrite lenN_cons. lia.
Qed.

Lemma spl_le_r a : forall b, shared_prefix_len a b <= lenN b.
Proof.
  induction a as [|x a IH]; intros [|y b]; cbn [shared_prefix_len]; try (unfold lenN; cbn [length]; lia).
  destruct (x =? y); [|lia]. specialize (IH b). rewrite lenN_cons. lia.
Qed.

Lemma takeN_succ_cons {A} n (x : A) l : takeN (1 + n) (x :: l) = x :: takeN n l.
Proof. unfold takeN. replace (N.to_nat (1 + n)) with (S (N.to_nat n)) by lia. reflexivity. Qed.

Lemma dropN_succ_cons {A} n (x : A) l : dropN (1 + n) (x :: l) = dropN n l.
Proof. unfold dropN. replace (N.to_nat (1 + n)) with (S (N.to_nat n)) by lia. reflexivity. Qed.

Lemma spl_take a : forall b, takeN (shared_prefix_len a b) a = takeN (shared_prefix_len a b) b.
Proof.
  induction a as [|x a IH]; intros [|y b]; cbn [shared_prefix_len]; try reflexivity.
  destruct (N.eqb_spec x y) as [->|]; [|reflexivity].
  rewrite !takeN_succ_cons. f_equal. apply IH.
Qed.

(* rebuilding a key from the previous key and the stored suffix *)
Lemma rebuild_key nsh prev k :
  nsh = 0 \/ nsh = shared_prefix_len prev k -> takeN nsh prev ++ dropN nsh k = k.
Proof.
  intros [->| ->]; [reflexivity|]. rewrite spl_take. apply takeN_dropN.
Qed.

(* ------------------------------------------------------------ closed form of the writer *)
Definition enc_entry (nsh : N) (k v : bytes) : bytes :=
  put_uvarint nsh ++ put_uvarint (lenN k - nsh) ++ put_uvarint (lenN v) ++ dropN nsh k ++ v.

Definition nsh_of (ri n : N) (prev k : bytes) : N :=
  if n mod ri =? 0 then 0 else shared_prefix_len prev k.

Fixpoint enc_entries (ri n : N) (prev : bytes) (kvs : list (bytes * bytes)) : bytes :=
  match kvs with
  | [] => []
  | (k, v) :: r => enc_entry (nsh_of ri n prev k) k v ++ enc_entries ri (n + 1) k r
  end.

Fixpoint enc_restarts (ri n : N) (prev : bytes) (base : N) (kvs : list (bytes * bytes)) : list N :=
  match kvs with
  | [] => []
  | (k, v) :: r =>
      (if n mod ri =? 0 then [base] else []) ++
      enc_restarts ri (n + 1) k (base + lenN (enc_entry (nsh_of ri n prev k) k v)) r
  end.

Definition last_key (prev : bytes) (kvs : list (bytes * bytes)) : bytes :=
  match rev kvs with [] => prev | (k, _) :: _ => k end.

Lemma last_key_cons prev k v r : last_key prev ((k, v) :: r) = last_key k r.
Proof.
  unfold last_key. cbn [rev]. destruct (rev r) as [|[k' v'] r'] eqn:E; reflexivity.
Qed.

Lemma bw_append_spec ri w k v :
  bw_append ri w k v =
  mkBW (bw_buf w ++ enc_entry (nsh_of ri (bw_n w) (bw_prev w) k) k v) (bw_n w + 1) k
       (bw_restarts w ++ (if bw_n w mod ri =? 0 then [lenN (bw_buf w)] else [])).
Proof.
  unfold bw_append, enc_entry, nsh_of. f_equal.
  destruct (bw_n w mod ri =? 0); [reflexivity | symmetry; apply app_nil_r].
Qed.

Lemma bw_append_all_spec ri kvs : forall w,
  bw_append_all ri w kvs =
  mkBW (bw_buf w ++ enc_entries ri (bw_n w) (bw_prev w) kvs)
       (bw_n w + lenN kvs)
       (last_key (bw_prev w) kvs)
       (bw_restarts w ++ enc_restarts ri (bw_n w) (bw_prev w) (lenN (bw_buf w)) kvs).
Proof.
  unfold bw_append_all.
  induction kvs as [|[k v] r IH]; intros w; cbn [fold_left enc_entries enc_restarts].
  - destruct w as [b n p rs]; cbn [bw_buf bw_n bw_prev bw_restarts]. unfold last_key; cbn [rev].
    rewrite !app_nil_r, lenN_nil, N.add_0_r. reflexivity.
  - rewrite IH. cbn [fst snd]. rewrite bw_append_spec. cbn [bw_buf bw_n bw_prev bw_restarts].
    rewrite last_key_cons, lenN_cons, lenN_app, <- !app_assoc. f_equal. lia.
Qed.

Lemma enc_entries_app ri a : forall n prev b,
  enc_entries ri n prev (a ++ b) =
  enc_entries ri n prev a ++ enc_entries ri (n + lenN a) (last_key prev a) b.
Proof.
  induction a as [|[k v] a IH]; intros n prev b; cbn [app enc_entries].
  - rewrite lenN_nil, N.add_0_r. reflexivity.
  - rewrite IH, last_key_cons, lenN_cons, <- app_assoc. do 3 f_equal. lia.
Qed.

Lemma enc_entry_length nsh k v : nsh <= lenN k ->
  lenN (enc_entry nsh k v) =
  lenN (put_uvarint nsh) + lenN (put_uvarint (lenN k - nsh)) + lenN (put_uvarint (lenN v))
  + (lenN k - nsh) + lenN v.
Proof. intros H. unfold enc_entry. rewrite !lenN_app, lenN_dropN. lia. Qed.

Lemma enc_entry_length_ge3 nsh k v : 3 <= lenN (enc_entry nsh k v).
Proof.
  unfold enc_entry. rewrite !lenN_app.
  pose proof (put_uvarint_length nsh). pose proof (put_uvarint_length (lenN k - nsh)).
  pose proof (put_uvarint_length (lenN v)). lia.
Qed.

Lemma nsh_of_le ri n prev k : nsh_of ri n prev k <= lenN k.
Proof. unfold nsh_of. destruct (n mod ri =? 0); [lia | apply spl_le_r]. Qed.

Lemma nsh_of_cases ri n prev k :
  nsh_of ri n prev k = 0 \/ nsh_of ri n prev k = shared_prefix_len prev k.
Proof. unfold nsh_of. destruct (n mod ri =? 0); auto. Qed.

(* ------------------------------------------------------------ flat_map le32 *)
Lemma lenN_flat_le32 l : lenN (flat_map le32 l) = 4 * lenN l.
Proof.
  induction l as [|x l IH]; cbn [flat_map]; [reflexivity|].
  rewrite lenN_app, lenN_le32, lenN_cons, IH. lia.
Qed.

Lemma le32_decode x : x < 2 ^ 32 -> le_decode (le32 x) = x.
Proof.
  intros H. unfold le32. rewrite le_decode_encode. change (256 ^ N.of_nat 4) with (2 ^ 32).
  apply N.mod_small. exact H.
Qed.

Lemma flat_le32_slice l : forall r x,
  nth_error l r = Some x ->
  sliceN (4 * N.of_nat r) (4 * N.of_nat r + 4) (flat_map le32 l) = le32 x.
Proof.
  induction l as [|y l IH]; intros [|r] x H; cbn [nth_error] in H; try discriminate.
  - injection H as ->. cbn [flat_map]. unfold sliceN. change (4 * N.of_nat 0) with 0.
    rewrite dropN_0. rewrite <- (lenN_le32 x) at 1. replace (0 + lenN (le32 x) - 0) with (lenN (le32 x)) by lia.
    apply takeN_app.
  - cbn [flat_map]. unfold sliceN.
    rewrite dropN_app_ge by (rewrite lenN_le32; lia).
    rewrite lenN_le32.
    specialize (IH r x H). unfold sliceN in IH.
    replace (4 * N.of_nat (S r) - 4) with (4 * N.of_nat r) by lia.
    replace (4 * N.of_nat (S r) + 4 - 4 * N.of_nat (S r)) with (4 * N.of_nat r + 4 - 4 * N.of_nat r) by lia.
    exact IH.
Qed.

(* ------------------------------------------------------------ decoding one entry *)
Lemma dropN_app2 {A} (a b r : list A) : dropN (lenN a + lenN b) (a ++ b ++ r) = r.
Proof. rewrite app_assoc, <- lenN_app. apply dropN_app. Qed.

Lemma two63_eq : two63 = 2 ^ 63.
Proof. reflexivity. Qed.

Lemma block_entry_at pre nsh k v post rl roff :
  nsh <= lenN k -> lenN k < 2 ^ 63 ->
  lenN pre + lenN (enc_entry nsh k v) <= roff -> roff < 2 ^ 63 ->
  block_entry (mkBlock (pre ++ enc_entry nsh k v ++ post) rl roff) (lenN pre)
  = EntOk (dropN nsh k) v nsh (lenN (enc_entry nsh k v)).
Proof.
  intros Hn Hk Hle Hr.
  pose proof (enc_entry_length nsh k v Hn) as HL.
  pose proof (put_uvarint_length nsh) as L0.
  pose proof (put_uvarint_length (lenN k - nsh)) as L1.
  pose proof (put_uvarint_length (lenN v)) as L2.
  assert (B64 : 2 ^ 63 < 2 ^ 64) by (apply N.pow_lt_mono_r; lia).
  unfold enc_entry in *. rewrite <- !app_assoc.
  set (p0 := put_uvarint nsh) in *. set (p1 := put_uvarint (lenN k - nsh)) in *. set (p2 := put_uvarint (lenN v)) in *.
  set (ks := dropN nsh k) in *.
  assert (Lks : lenN ks = lenN k - nsh) by (unfold ks; apply lenN_dropN).
  set (data := pre ++ p0 ++ p1 ++ p2 ++ ks ++ v ++ post).
  assert (E0 : uvarint (dropN (lenN pre) data) = UvOk nsh (lenN p0)).
  { unfold data. rewrite dropN_app. unfold p0. apply uvarint_put. lia. }
  assert (E1 : uvarint (dropN (lenN pre + lenN p0) data) = UvOk (lenN k - nsh) (lenN p1)).
  { unfold data. rewrite dropN_app2. unfold p1. apply uvarint_put. lia. }
  assert (E2 : uvarint (dropN (lenN pre + lenN p0 + lenN p1) data) = UvOk (lenN v) (lenN p2)).
  { unfold data.
    replace (lenN pre + lenN p0 + lenN p1) with (lenN (pre ++ p0) + lenN p1) by (rewrite lenN_app; lia).
    replace (pre ++ p0 ++ p1 ++ p2 ++ ks ++ v ++ post) with ((pre ++ p0) ++ p1 ++ p2 ++ ks ++ v ++ post)
      by (rewrite <- !app_assoc; reflexivity).
    rewrite dropN_app2. unfold p2. apply uvarint_put. lia. }
  unfold block_entry. cbn [b_roff b_data].
  replace (roff <=? lenN pre) with false by lia.
  rewrite E0. cbn [uv_adv]. rewrite E1. cbn [uv_adv]. rewrite E2.
  rewrite two63_eq.
  replace (2 ^ 63 <=? lenN k - nsh) with false by lia.
  replace (2 ^ 63 <=? lenN v) with false by lia.
  replace (2 ^ 63 <=? lenN pre + (lenN p0 + lenN p1 + lenN p2 + (lenN k - nsh) + lenN v)) with false
    by lia.
  cbn [orb].
  replace (roff <? lenN pre + (lenN p0 + lenN p1 + lenN p2 + (lenN k - nsh) + lenN v)) with false
    by lia.
  f_equal.
  - replace (lenN pre + (lenN p0 + lenN p1 + lenN p2)) with (lenN (pre ++ p0 ++ p1 ++ p2))
      by (rewrite !lenN_app; lia).
    rewrite <- Lks.
    unfold data.
    replace (pre ++ p0 ++ p1 ++ p2 ++ ks ++ v ++ post) with ((pre ++ p0 ++ p1 ++ p2) ++ ks ++ v ++ post)
      by (rewrite <- !app_assoc; reflexivity).
    apply sliceN_app3.
  - replace (lenN pre + (lenN p0 + lenN p1 + lenN p2) + (lenN k - nsh)) with (lenN (pre ++ p0 ++ p1 ++ p2 ++ ks))
      by (rewrite !lenN_app; lia).
    replace (lenN pre + (lenN p0 + lenN p1 + lenN p2 + (lenN k - nsh) + lenN v))
      with (lenN (pre ++ p0 ++ p1 ++ p2 ++ ks) + lenN v) by (rewrite !lenN_app; lia).
    unfold data.
    replace (pre ++ p0 ++ p1 ++ p2 ++ ks ++ v ++ post) with ((pre ++ p0 ++ p1 ++ p2 ++ ks) ++ v ++ post)
      by (rewrite <- !app_assoc; reflexivity).
    apply sliceN_app3.
  - rewrite !lenN_app. lia.
Qed.

(* ------------------------------------------------------------ the restart array in closed form *)
Lemma filter_map_swap {A B} (f : B -> bool) (g : A -> B) l :
  filter f (map g l) = map g (filter (fun x => f (g x)) l).
Proof.
  induction l as [|x l IH]; cbn [map filter]; [reflexivity|].
  destruct (f (g x)); cbn [map]; rewrite IH; reflexivity.
Qed.

Lemma enc_restarts_map ri l : forall n prev base,
  enc_restarts ri n prev base l =
  map (fun j => base + lenN (enc_entries ri n prev (firstn j l)))
      (filter (fun j => (n + N.of_nat j) mod ri =? 0) (seq 0 (length l))).
Proof.
  induction l as [|[k v] r IH]; intros n prev base; cbn [enc_restarts length seq]; [reflexivity|].
  cbn [filter]. change (N.of_nat 0) with 0. rewrite N.add_0_r.
  assert (Etail :
    enc_restarts ri (n + 1) k (base + lenN (enc_entry (nsh_of ri n prev k) k v)) r
    = map (fun j => base + lenN (enc_entries ri n prev (firstn j ((k, v) :: r))))
        (filter (fun j => (n + N.of_nat j) mod ri =? 0) (seq 1 (length r)))).
  { rewrite IH, <- seq_shift, filter_map_swap, map_map.
    rewrite (filter_ext (fun j => (n + 1 + N.of_nat j) mod ri =? 0) (fun x => (n + N.of_nat (S x)) mod ri =? 0)).
    - apply map_ext. intros j. cbn [firstn enc_entries]. rewrite lenN_app. lia.
    - intros j. f_equal. f_equal. lia. }
  rewrite Etail.
  destruct (n mod ri =? 0); cbn [app map firstn enc_entries]; [|reflexivity].
  rewrite ?lenN_nil, ?N.add_0_r. reflexivity.
Qed.

(* strictly increasing lists of naturals, by position *)
Definition incr_nth (l : list nat) : Prop :=
  forall i j, (i < j)%nat -> (j < length l)%nat -> (nth i l 0 < nth j l 0)%nat.

Lemma incr_nth_cons x l : Forall (fun y => (x < y)%nat) l -> incr_nth l -> incr_nth (x :: l).
Proof.
  intros HF HI i j Hij Hj. destruct j as [|j]; [lia|]. cbn [length] in Hj.
  destruct i as [|i]; cbn [nth].
  - rewrite Forall_forall in HF. apply HF. apply nth_In. lia.
  - apply HI; lia.
Qed.

Lemma filter_seq_incr f a n : incr_nth (filter f (seq a n)).
Proof.
  revert a. induction n as [|n IH]; intros a; cbn [seq filter].
  - intros i j _ H. cbn in H. lia.
  - destruct (f a); [|apply IH].
    apply incr_nth_cons; [|apply IH].
    apply Forall_forall. intros y Hy. apply filter_In in Hy as [Hy _]. apply in_seq in Hy. lia.
Qed.

(* ------------------------------------------------------------ layout of a built block *)
Definition key_at (kvs : list (bytes * bytes)) (i : nat) : bytes := fst (nth i kvs ([], [])).
Definition val_at (kvs : list (bytes * bytes)) (i : nat) : bytes := snd (nth i kvs ([], [])).

Record block_layout (kvs : list (bytes * bytes)) (b : block) (off : nat -> N) (ris : list nat) : Prop := {
  lay_off0 : off 0%nat = 0;
  lay_step : forall i, (i < length kvs)%nat -> off i + 3 <= off (S i);
  lay_end : off (length kvs) = b_roff b;
  lay_data : b_roff b <= lenN (b_data b);
  lay_read : forall i pk, (i < length kvs)%nat ->
      (In i ris \/ (0 < i)%nat /\ pk = key_at kvs (i - 1)) ->
      bi_read b pk (off i) = RdOk (key_at kvs i) (val_at kvs i) (off (S i) - off i);
  lay_rlen : b_rlen b = lenN ris;
  lay_ris_hd : nth 0 ris 0%nat = 0%nat;
  lay_ris_len : (0 < length ris)%nat;
  lay_ris_empty : kvs = [] -> length ris = 1%nat;
  lay_ris_incr : incr_nth ris;
  lay_ris_lt : kvs <> [] -> forall r, (r < length ris)%nat -> (nth r ris 0 < length kvs)%nat;
  lay_roff : forall r, (r < length ris)%nat ->
      restart_offset b (N.of_nat r) = Some (off (nth r ris 0%nat));
  lay_rkey : forall r, (r < length ris)%nat ->
      exists k, restart_key b (N.of_nat r) = Some k /\ (kvs <> [] -> k = key_at kvs (nth r ris 0%nat));
  (* one past the restart array is the restart count (block.seek reads it for an empty restart range) *)
  lay_count : restart_offset b (lenN ris) = Some (lenN ris)
}.

Lemma lenN_map {A B} (f : A -> B) l : lenN (map f l) = lenN l.
Proof. unfold lenN. rewrite map_length. reflexivity. Qed.

Lemma lenN_firstn {A} i (l : list A) : (i <= length l)%nat -> lenN (firstn i l) = N.of_nat i.
Proof. intros H. unfold lenN. rewrite firstn_length. lia. Qed.

Lemma split_nth {A} (l : list A) i d : (i < length l)%nat ->
  l = firstn i l ++ nth i l d :: skipn (S i) l.
Proof.
  revert i. induction l as [|x l IH]; intros i H; cbn [length] in H; [lia|].
  destruct i as [|i]; cbn [firstn nth skipn app]; [reflexivity|].
  f_equal. apply IH. lia.
Qed.

Lemma firstn_S_nth {A} (l : list A) i d : (i < length l)%nat ->
  firstn (S i) l = firstn i l ++ [nth i l d].
Proof.
  revert i. induction l as [|x l IH]; intros i H; cbn [length] in H; [lia|].
  destruct i as [|i]; cbn [firstn nth app]; [reflexivity|].
  f_equal. apply IH. lia.
Qed.

Lemma last_key_snoc prev l k v : last_key prev (l ++ [(k, v)]) = k.
Proof. unfold last_key. rewrite rev_app_distr. reflexivity. Qed.

(* every key is at most as long as the previous key plus the encoded entries *)
Lemma enc_key_bound ri l : forall n prev k v,
  In (k, v) l -> lenN k <= lenN prev + lenN (enc_entries ri n prev l).
Proof.
  induction l as [|[k0 v0] r IH]; intros n prev k v H; [destruct H|].
  cbn [enc_entries]. rewrite lenN_app.
  pose proof (enc_entry_length (nsh_of ri n prev k0) k0 v0 (nsh_of_le ri n prev k0)) as HL.
  assert (Hs : nsh_of ri n prev k0 <= lenN prev).
  { unfold nsh_of. destruct (n mod ri =? 0); [lia | apply spl_le_l]. }
  destruct H as [H|H].
  - injection H as -> ->. lia.
  - specialize (IH (n + 1) k0 k v H). lia.
Qed.

Section Build.
  Variable ri : N.
  Variable kvs : list (bytes * bytes).
  Hypothesis ri_pos : 1 <= ri.
  Hypothesis size_ok : lenN (block_build ri kvs) < 2 ^ 32.

  Definition b_off (i : nat) : N := lenN (enc_entries ri 0 [] (firstn i kvs)).
  Definition b_ris : list nat :=
    match kvs with
    | [] => [0%nat]
    | _ => filter (fun j => N.of_nat j mod ri =? 0) (seq 0 (length kvs))
    end.
  Definition built : block :=
    mkBlock (block_build ri kvs) (lenN b_ris) (lenN (enc_entries ri 0 [] kvs)).

  Lemma block_build_eq :
    block_build ri kvs =
    enc_entries ri 0 [] kvs ++ flat_map le32 (map b_off b_ris ++ [lenN b_ris]).
  Proof.
    unfold block_build. rewrite bw_append_all_spec. unfold bw_finish.
    cbv [bw_buf bw_n bw_prev bw_restarts bw_empty]. cbn [app]. rewrite ?lenN_nil.
    change (lenN (@nil N)) with 0.
    unfold b_ris, b_off. destruct kvs as [|kv0 r].
    - reflexivity.
    - set (l := kv0 :: r).
      replace (0 + lenN l =? 0) with false by (unfold l; rewrite lenN_cons; lia).
      assert (E : enc_restarts ri 0 [] 0 l =
                  map (fun i => lenN (enc_entries ri 0 [] (firstn i l)))
                      (filter (fun j => N.of_nat j mod ri =? 0) (seq 0 (length l)))).
      { rewrite enc_restarts_map.
        rewrite (filter_ext (fun j => (0 + N.of_nat j) mod ri =? 0) (fun j => N.of_nat j mod ri =? 0))
          by (intros j; rewrite N.add_0_l; reflexivity).
        apply map_ext. intros j. lia. }
      rewrite E, lenN_map. reflexivity.
  Qed.

  Lemma b_ris_nonempty : (0 < length b_ris)%nat.
  Proof.
    unfold b_ris. destruct kvs as [|kv0 r]; [cbn; lia|].
    cbn [length seq filter]. change (N.of_nat 0) with 0. rewrite N.mod_0_l by lia.
    cbn [N.eqb length]. lia.
  Qed.

  Lemma b_ris_hd : nth 0 b_ris 0%nat = 0%nat.
  Proof.
    unfold b_ris. destruct kvs as [|kv0 r]; [reflexivity|].
    cbn [length seq filter]. change (N.of_nat 0) with 0. rewrite N.mod_0_l by lia. reflexivity.
  Qed.

  Lemma b_ris_incr : incr_nth b_ris.
  Proof.
    unfold b_ris. destruct kvs as [|kv0 r]; [|apply filter_seq_incr].
    intros i j Hij Hj. cbn in Hj. lia.
  Qed.

  Lemma b_ris_in i : kvs <> [] -> In i b_ris <-> (i < length kvs)%nat /\ N.of_nat i mod ri = 0.
  Proof.
    intros Hne. unfold b_ris. destruct kvs as [|kv0 r] eqn:Ek; [congruence|]. rewrite <- Ek.
    rewrite filter_In, in_seq, N.eqb_eq. lia.
  Qed.

  Lemma b_off_0 : b_off 0 = 0.
  Proof. reflexivity. Qed.

  Lemma b_off_all : b_off (length kvs) = lenN (enc_entries ri 0 [] kvs).
  Proof. unfold b_off. rewrite firstn_all. reflexivity. Qed.

  (* previous key of entry i as the writer holds it *)
  Definition b_pk (i : nat) : bytes := last_key [] (firstn i kvs).

  Lemma b_pk_S i : (i < length kvs)%nat -> b_pk (S i) = key_at kvs i.
  Proof.
    intros H. unfold b_pk. rewrite (firstn_S_nth kvs i ([], [])) by exact H.
    unfold key_at. destruct (nth i kvs ([], [])) as [k v]. apply last_key_snoc.
  Qed.

  Definition b_nsh (i : nat) : N := nsh_of ri (N.of_nat i) (b_pk i) (key_at kvs i).

  (* the entries area split around entry i *)
  Lemma ents_split i : (i < length kvs)%nat ->
    enc_entries ri 0 [] kvs =
    enc_entries ri 0 [] (firstn i kvs) ++
    enc_entry (b_nsh i) (key_at kvs i) (val_at kvs i) ++
    enc_entries ri (N.of_nat i + 1) (key_at kvs i) (skipn (S i) kvs).
  Proof.
    intros H. rewrite (split_nth kvs i ([], []) H) at 1.
    rewrite enc_entries_app. f_equal.
    unfold key_at, val_at, b_nsh, b_pk, key_at.
    destruct (nth i kvs ([], [])) as [k v]. cbn [enc_entries fst snd].
    rewrite lenN_firstn by lia. rewrite N.add_0_l. reflexivity.
  Qed.

  Lemma b_off_S i : (i < length kvs)%nat ->
    b_off (S i) = b_off i + lenN (enc_entry (b_nsh i) (key_at kvs i) (val_at kvs i)).
  Proof.
    intros H. unfold b_off. rewrite (firstn_S_nth kvs i ([], [])) by exact H.
    rewrite enc_entries_app, lenN_app. f_equal.
    unfold key_at, val_at, b_nsh, b_pk, key_at.
    destruct (nth i kvs ([], [])) as [k v]. cbn [enc_entries fst snd].
    rewrite app_nil_r, lenN_firstn by lia. rewrite N.add_0_l. reflexivity.
  Qed.

  Lemma b_off_le_end i : (i <= length kvs)%nat -> b_off i <= lenN (enc_entries ri 0 [] kvs).
  Proof.
    intros H. unfold b_off. rewrite <- (firstn_skipn i kvs) at 2.
    rewrite enc_entries_app, lenN_app. lia.
  Qed.

  Lemma ents_small : lenN (enc_entries ri 0 [] kvs) < 2 ^ 32.
  Proof. rewrite block_build_eq, lenN_app in size_ok. lia. Qed.

  Lemma ris_small : 4 * (lenN b_ris + 1) < 2 ^ 32.
  Proof.
    pose proof size_ok as H. rewrite block_build_eq, lenN_app, lenN_flat_le32, lenN_app, lenN_map in H.
    unfold lenN in *. cbn [length] in H. lia.
  Qed.

  Lemma key_small i : (i < length kvs)%nat -> lenN (key_at kvs i) < 2 ^ 32.
  Proof.
    intros H. pose proof ents_small as Hs.
    pose proof (enc_key_bound ri kvs 0 [] (key_at kvs i) (val_at kvs i)) as Hb.
    rewrite lenN_nil in Hb.
    assert (In (key_at kvs i, val_at kvs i) kvs).
    { unfold key_at, val_at. rewrite <- surjective_pairing. apply nth_In. exact H. }
    specialize (Hb H0). lia.
  Qed.

  Lemma build_split :
    block_build ri kvs =
    (enc_entries ri 0 [] kvs ++ flat_map le32 (map b_off b_ris)) ++ le32 (lenN b_ris).
  Proof.
    rewrite block_build_eq, flat_map_app. cbn [flat_map]. rewrite app_nil_r, app_assoc. reflexivity.
  Qed.

  Lemma build_length :
    lenN (block_build ri kvs) = lenN (enc_entries ri 0 [] kvs) + 4 * (lenN b_ris + 1).
  Proof.
    rewrite build_split, !lenN_app, lenN_flat_le32, lenN_map, lenN_le32. lia.
  Qed.

  Lemma read_block_build : read_block (block_build ri kvs) = Ok built.
  Proof.
    pose proof ris_small as Hr. pose proof build_length as HL.
    unfold read_block.
    replace (lenN (block_build ri kvs) <? 4) with false by lia.
    assert (E : le_decode (dropN (lenN (block_build ri kvs) - 4) (block_build ri kvs)) = lenN b_ris).
    { rewrite build_split at 2.
      replace (lenN (block_build ri kvs) - 4)
        with (lenN (enc_entries ri 0 [] kvs ++ flat_map le32 (map b_off b_ris)))
        by (rewrite lenN_app, lenN_flat_le32, lenN_map; lia).
      rewrite dropN_app. apply le32_decode. lia. }
    rewrite E.
    replace (lenN (block_build ri kvs) <? (lenN b_ris + 1) * 4) with false by lia.
    unfold built. f_equal. f_equal. lia.
  Qed.

  Lemma sliceN_app_r {A} (a x : list A) lo hi :
    sliceN (lenN a + lo) (lenN a + hi) (a ++ x) = sliceN lo hi x.
  Proof.
    unfold sliceN. rewrite dropN_app_ge by lia.
    replace (lenN a + lo - lenN a) with lo by lia.
    replace (lenN a + hi - (lenN a + lo)) with (hi - lo) by lia. reflexivity.
  Qed.

  Lemma built_roff r : (r < length b_ris)%nat ->
    restart_offset built (N.of_nat r) = Some (b_off (nth r b_ris 0%nat)).
  Proof.
    intros Hr. pose proof ris_small as Hs. pose proof build_length as HL. pose proof ents_small as He.
    unfold restart_offset, built. cbn [b_roff b_data].
    assert (Hrl : N.of_nat r < lenN b_ris) by (unfold lenN; lia).
    replace (lenN (block_build ri kvs) <? lenN (enc_entries ri 0 [] kvs) + 4 * N.of_nat r + 4) with false by lia.
    rewrite block_build_eq at 1.
    rewrite <- N.add_assoc, sliceN_app_r.
    rewrite (flat_le32_slice _ r (b_off (nth r b_ris 0%nat))).
    - f_equal. apply le32_decode.
      assert (b_off (nth r b_ris 0%nat) <= lenN (enc_entries ri 0 [] kvs)); [|lia].
      destruct (Nat.le_gt_cases (nth r b_ris 0%nat) (length kvs)) as [L|L].
      + apply b_off_le_end. exact L.
      + unfold b_off. rewrite firstn_all2 by lia. lia.
    - rewrite nth_error_app1 by (rewrite map_length; exact Hr).
      rewrite (nth_error_nth' (map b_off b_ris) 0) by (rewrite map_length; exact Hr).
      f_equal. change 0 with (b_off 0) at 1. apply map_nth.
  Qed.

  Lemma built_entry i : (i < length kvs)%nat ->
    block_entry built (b_off i) =
    EntOk (dropN (b_nsh i) (key_at kvs i)) (val_at kvs i) (b_nsh i) (b_off (S i) - b_off i).
  Proof.
    intros H. pose proof ents_small as He. pose proof (key_small i H) as Hk.
    assert (B : 2 ^ 32 < 2 ^ 63) by (apply N.pow_lt_mono_r; lia).
    rewrite (b_off_S i H).
    replace (b_off i + lenN (enc_entry (b_nsh i) (key_at kvs i) (val_at kvs i)) - b_off i)
      with (lenN (enc_entry (b_nsh i) (key_at kvs i) (val_at kvs i))) by lia.
    unfold built. rewrite block_build_eq. rewrite (ents_split i H) at 1.
    rewrite <- !app_assoc. unfold b_off at 1.
    apply block_entry_at.
    - apply nsh_of_le.
    - lia.
    - pose proof (b_off_S i H) as E1. pose proof (b_off_le_end (S i) H) as E2.
      unfold b_off in E1 at 2. lia.
    - lia.
  Qed.

  Lemma built_read i pk : (i < length kvs)%nat ->
    (In i b_ris \/ (0 < i)%nat /\ pk = key_at kvs (i - 1)) ->
    bi_read built pk (b_off i) = RdOk (key_at kvs i) (val_at kvs i) (b_off (S i) - b_off i).
  Proof.
    intros H Hc. unfold bi_read. rewrite (built_entry i H).
    assert (Hne : kvs <> []) by (destruct kvs; cbn in H; [lia | discriminate]).
    destruct Hc as [Hin | [Hpos ->]].
    - apply (b_ris_in i Hne) in Hin as [_ Hm].
      assert (E : b_nsh i = 0) by (unfold b_nsh, nsh_of; rewrite Hm; reflexivity).
      rewrite E. replace (lenN pk <? 0) with false by lia. reflexivity.
    - assert (Epk : key_at kvs (i - 1) = b_pk i).
      { replace i with (S (i - 1)) at 2 by lia. symmetry. apply b_pk_S. lia. }
      rewrite Epk.
      assert (Hle : b_nsh i <= lenN (b_pk i)).
      { unfold b_nsh, nsh_of. destruct (N.of_nat i mod ri =? 0); [lia | apply spl_le_l]. }
      replace (lenN (b_pk i) <? b_nsh i) with false by lia.
      rewrite rebuild_key by (apply nsh_of_cases). reflexivity.
  Qed.

  Lemma put_uvarint_0 : put_uvarint 0 = [0].
  Proof. reflexivity. Qed.

  Lemma built_rkey r : (r < length b_ris)%nat ->
    exists k, restart_key built (N.of_nat r) = Some k /\ (kvs <> [] -> k = key_at kvs (nth r b_ris 0%nat)).
  Proof.
    intros Hr. destruct kvs as [|kv0 l] eqn:Ek.
    - (* the empty block is the constant 0,0,0,0,1,0,0,0 *)
      assert (r = 0%nat) by (unfold b_ris in Hr; rewrite Ek in Hr; cbn in Hr; lia). subst r.
      eexists. split; [|congruence].
      unfold built, b_ris. rewrite Ek. vm_compute. reflexivity.
    - rewrite <- Ek in *. assert (Hne : kvs <> []) by (rewrite Ek; discriminate).
      set (i := nth r b_ris 0%nat).
      assert (Hin : In i b_ris) by (apply nth_In; exact Hr).
      apply (b_ris_in i Hne) in Hin as [Hi Hm].
      exists (key_at kvs i). split; [|reflexivity].
      pose proof ents_small as He. pose proof (key_small i Hi) as Hk.
      assert (B : 2 ^ 32 < 2 ^ 64) by (apply N.pow_lt_mono_r; lia).
      unfold restart_key. rewrite (built_roff r Hr). fold i.
      assert (E : b_nsh i = 0) by (unfold b_nsh, nsh_of; rewrite Hm; reflexivity).
      set (k := key_at kvs i). set (v := val_at kvs i).
      set (pre := enc_entries ri 0 [] (firstn i kvs)).
      set (p1 := put_uvarint (lenN k)). set (p2 := put_uvarint (lenN v)).
      assert (D : exists post, b_data built = pre ++ [0] ++ p1 ++ p2 ++ k ++ v ++ post).
      { unfold built. cbn [b_data]. rewrite block_build_eq, (ents_split i Hi).
        fold k v pre. rewrite E. unfold enc_entry. rewrite put_uvarint_0, N.sub_0_r, dropN_0.
        fold p1 p2. rewrite <- !app_assoc. eexists. reflexivity. }
      destruct D as [post D]. rewrite D.
      assert (Lv : lenN v < 2 ^ 32).
      { pose proof (b_off_S i Hi) as E1. pose proof (b_off_le_end (S i) Hi) as E2.
        pose proof (enc_entry_length (b_nsh i) k v (nsh_of_le _ _ _ _)) as E3.
        fold k v in E1. lia. }
      replace (b_off i) with (lenN pre) by reflexivity.
      assert (Lk : lenN k < 2 ^ 32) by exact Hk.
      set (data := pre ++ [0] ++ p1 ++ p2 ++ k ++ v ++ post).
      assert (L : lenN data = lenN pre + 1 + lenN p1 + lenN p2 + lenN k + lenN v + lenN post).
      { unfold data. rewrite !lenN_app. change (lenN [0]) with 1. lia. }
      assert (E1 : uvarint (dropN (lenN pre + 1) data) = UvOk (lenN k) (lenN p1)).
      { unfold data. replace (lenN pre + 1) with (lenN pre + lenN [0]) by reflexivity.
        rewrite dropN_app2. unfold p1. apply uvarint_put. lia. }
      assert (E2 : uvarint (dropN (lenN pre + 1 + lenN p1) data) = UvOk (lenN v) (lenN p2)).
      { unfold data.
        replace (lenN pre + 1 + lenN p1) with (lenN (pre ++ [0]) + lenN p1)
          by (rewrite lenN_app; change (lenN [0]) with 1; lia).
        replace (pre ++ [0] ++ p1 ++ p2 ++ k ++ v ++ post) with ((pre ++ [0]) ++ p1 ++ p2 ++ k ++ v ++ post)
          by (rewrite <- !app_assoc; reflexivity).
        rewrite dropN_app2. unfold p2. apply uvarint_put. lia. }
      replace (lenN data <? lenN pre + 1) with false by lia.
      rewrite E1, E2.
      replace (lenN data <? lenN pre + 1 + lenN p1 + lenN p2 + lenN k) with false by lia.
      f_equal.
      replace (lenN pre + 1 + lenN p1 + lenN p2) with (lenN (pre ++ [0] ++ p1 ++ p2))
        by (rewrite !lenN_app; change (lenN [0]) with 1; lia).
      unfold data.
      replace (pre ++ [0] ++ p1 ++ p2 ++ k ++ v ++ post) with ((pre ++ [0] ++ p1 ++ p2) ++ k ++ v ++ post)
        by (rewrite <- !app_assoc; reflexivity).
      apply sliceN_app3.
  Qed.

  Lemma built_count : restart_offset built (lenN b_ris) = Some (lenN b_ris).
  Proof.
    pose proof ris_small as Hs. pose proof build_length as HL.
    unfold restart_offset, built. cbn [b_roff b_data].
    replace (lenN (block_build ri kvs) <? lenN (enc_entries ri 0 [] kvs) + 4 * lenN b_ris + 4) with false by lia.
    rewrite block_build_eq at 1.
    rewrite <- N.add_assoc, sliceN_app_r.
    unfold lenN at 1 2. rewrite (flat_le32_slice _ (length b_ris) (lenN b_ris)).
    - f_equal. apply le32_decode. lia.
    - rewrite nth_error_app2 by (rewrite map_length; lia). rewrite map_length, Nat.sub_diag. reflexivity.
  Qed.

  Theorem build_layout : block_layout kvs built b_off b_ris.
  Proof.
    constructor.
    - apply b_off_0.
    - intros i H. rewrite (b_off_S i H). pose proof (enc_entry_length_ge3 (b_nsh i) (key_at kvs i) (val_at kvs i)). lia.
    - apply b_off_all.
    - unfold built. cbn [b_roff b_data]. rewrite build_length. lia.
    - apply built_read.
    - reflexivity.
    - apply b_ris_hd.
    - apply b_ris_nonempty.
    - intros E. unfold b_ris. rewrite E. reflexivity.
    - apply b_ris_incr.
    - intros Hne r Hr. apply (b_ris_in _ Hne). apply nth_In. exact Hr.
    - apply built_roff.
    - apply built_rkey.
    - apply built_count.
  Qed.
End Build.
