(* Codec/TableSliceProofs.v — the RANGE-RESTRICTED table iterator NewIterator(&util.Range{start,
   limit}, ro): the index iterator is sliced with inclLimit = true, the data iterator of the first
   and of the last index position is sliced with the same range (indexIter.Get's isFirst/isLast
   rule), all others are not.  For a well-formed, non-empty table every movement sequence
   observes what the reference cursor over  restrict c start limit (all pairs)  observes.
   Instance of the generic theorem of IndexedIterProofs.v. *)
From GL Require Import Base.Bytes Base.BytesProofs Base.Varint Base.VarintProofs Base.Order Base.OrderProofs
  Base.Cursor Base.CursorProofs Codec.Block Codec.BlockEnc Codec.BlockProofs Codec.BlockSliceProofs
  Codec.Table Codec.TableProofs Codec.IndexedIterProofs.
From Coq Require Import Arith ZArith Lia ZifyN ZifyNat ZifyBool.

Local Open Scope N_scope.

Lemma filter_concat {A} (p : A -> bool) (ls : list (list A)) :
  filter p (concat ls) = concat (map (filter p) ls).
Proof.
  induction ls as [|l ls IH]; [reflexivity|]. cbn [concat map]. rewrite filter_app, IH. reflexivity.
Qed.

Lemma concat_map_nil {A B} (f : A -> list B) (l : list A) : (forall x, In x l -> f x = []) -> concat (map f l) = [].
Proof.
  induction l as [|x l IH]; intros H; [reflexivity|]. cbn [map concat].
  rewrite (H x (or_introl eq_refl)), IH; [reflexivity|]. intros y Hy. apply H. right. exact Hy.
Qed.

Lemma filter_all_false {A} (p : A -> bool) (l : list A) : (forall x, In x l -> p x = false) -> filter p l = [].
Proof.
  induction l as [|x l IH]; intros H; [reflexivity|]. cbn [filter].
  rewrite (H x (or_introl eq_refl)). apply IH. intros y Hy. apply H. right. exact Hy.
Qed.

Lemma filter_all_true {A} (p : A -> bool) (l : list A) : (forall x, In x l -> p x = true) -> filter p l = l.
Proof.
  induction l as [|x l IH]; intros H; [reflexivity|]. cbn [filter].
  rewrite (H x (or_introl eq_refl)). f_equal. apply IH. intros y Hy. apply H. right. exact Hy.
Qed.

Lemma map_nth_seq {A} (l : list A) d : map (fun j => nth j l d) (seq 0 (length l)) = l.
Proof.
  induction l as [|x l IH]; [reflexivity|]. cbn [length seq map nth]. f_equal.
  rewrite <- seq_shift, map_map. exact IH.
Qed.

Section TableSlice.
  Variable c : comparer.
  Hypothesis c_ok : comparer_ok c.
  Variable rd : treader.
  Variable blocks : list (list (bytes * bytes)).
  Variable seps : list bytes.
  Variable hs : list bhandle.
  Hypothesis wf : table_wf c rd blocks seps hs.
  Hypothesis nonempty : tkvs blocks <> [].
  Variable start limit : option bytes.

  Local Notation m := (length blocks).
  Local Notation blk j := (nth j blocks []).
  Local Notation sepj j := (nth j seps []).
  Local Notation hj j := (nth j hs bh0).
  Local Notation ient := (ientries seps hs).
  Local Notation sl := (Some (start, limit)).

  Definition vb (j : nat) : list (bytes * bytes) := restrict c start limit (blk j).

  Lemma all_blocks_ne j : (j < m)%nat -> blk j <> [].
  Proof.
    intros Hj. destruct (twf_blocks_ne _ _ _ _ _ wf) as [H|H]; [apply H; exact Hj|].
    exfalso. apply nonempty. unfold tkvs. rewrite H. reflexivity.
  Qed.

  Lemma ient_pos : (0 < length ient)%nat.
  Proof. rewrite (ient_len c rd blocks seps hs wf). apply (twf_m _ _ _ _ _ wf). Qed.

  (* the index block and its slice *)
  Variable ib : block.
  Variable ioff : nat -> N.
  Variable iris : list nat.
  Hypothesis Eib : tr_index rd = Ok ib.
  Hypothesis ilay : block_layout ient ib ioff iris.
  Variables ja jz irs irl : nat.
  Hypothesis ivok : view_ok ient iris ja jz irs irl.
  Hypothesis ist : start_spec c ient start ja.
  Hypothesis ili : limit_spec c ient limit true ja jz.

  Local Notation RI := (rep_s ient ib ioff iris ja jz irs irl).
  Local Notation IL := (view ient ja jz).

  Lemma jz_le : (jz <= m)%nat.
  Proof. pose proof (vo_z _ _ _ _ _ _ ivok) as H. rewrite (ient_len c rd blocks seps hs wf) in H. exact H. Qed.

  Lemma ikey j : (j < m)%nat -> key_at ient j = sepj j.
  Proof. apply (ient_key c rd blocks seps hs wf). Qed.

  Definition V : list (list (bytes * bytes)) := map vb (seq ja (jz - ja)).

  Lemma V_len : length V = length IL.
  Proof. unfold V. rewrite map_length, seq_length, (view_len ient iris ient_pos ja jz irs irl ivok). reflexivity. Qed.

  Lemma V_nth i : (i < jz - ja)%nat -> nth i V [] = vb (ja + i).
  Proof.
    intros H. unfold V. rewrite (nth_indep _ [] (vb 0)) by (rewrite map_length, seq_length; exact H).
    rewrite map_nth, seq_nth by exact H. reflexivity.
  Qed.

  Lemma V_nth_in i x : In x (nth i V []) -> (i < jz - ja)%nat /\ In x (blk (ja + i)).
  Proof.
    intros H. destruct (Nat.lt_ge_cases i (jz - ja)) as [L|L].
    - split; [exact L|]. rewrite (V_nth i L) in H. unfold vb, restrict in H. apply filter_In in H. apply H.
    - rewrite nth_overflow in H by (unfold V; rewrite map_length, seq_length; exact L). destruct H.
  Qed.

  (* ---------------- which blocks the range keeps ---------------- *)
  Lemma vb_before j : (j < ja)%nat -> vb j = [].
  Proof.
    intros Hj. pose proof (vo_a _ _ _ _ _ _ ivok). pose proof jz_le.
    unfold vb, restrict. apply filter_all_false. intros x Hin.
    destruct start as [s|]; [|cbn in ist; lia]. destruct ist as (_ & Hlt & _).
    pose proof (Hlt j Hj) as L. rewrite (ikey j ltac:(lia)) in L.
    pose proof (twf_sep_ge _ _ _ _ _ wf j x ltac:(lia) Hin) as G.
    assert (Lx : cmp c (fst x) s = Lt) by (apply (OrderProofs.le_lt_trans c c_ok _ (sepj j)); assumption).
    unfold in_range, Order.leb. apply (cmp_lt_gt c c_ok) in Lx. rewrite Lx. reflexivity.
  Qed.

  Lemma vb_after j : (jz <= j)%nat -> (j < m)%nat -> vb j = [].
  Proof.
    intros Hj Hjm. unfold vb, restrict. apply filter_all_false. intros x Hin.
    destruct limit as [l|]; [|cbn in ili; rewrite (ient_len c rd blocks seps hs wf) in ili; lia].
    destruct ili as (z & Hz1 & Hz2 & Hlt & Hge & Ez). rewrite (ient_len c rd blocks seps hs wf) in *.
    assert (Hzj : (z < j)%nat) by lia.
    specialize (Hge ltac:(lia)). rewrite (ikey z ltac:(lia)) in Hge.
    pose proof (after_block_gt c c_ok rd blocks seps hs wf z l x j Hzj Hjm Hin Hge) as G.
    unfold in_range, Order.ltb. apply andb_false_intro2. destruct (cmp c (fst x) l); congruence.
  Qed.

  Lemma vb_middle j : (ja < j)%nat -> (S j < jz)%nat -> vb j = blk j.
  Proof.
    intros H1 H2. pose proof jz_le as Hz. unfold vb, restrict. apply filter_all_true. intros x Hin.
    unfold in_range. apply andb_true_intro. split.
    - destruct start as [s|]; [|reflexivity]. destruct ist as (_ & _ & Hge).
      rewrite (ient_len c rd blocks seps hs wf) in Hge. specialize (Hge ltac:(lia)). rewrite (ikey ja ltac:(lia)) in Hge.
      pose proof (after_block_gt c c_ok rd blocks seps hs wf ja s x j H1 ltac:(lia) Hin Hge) as G.
      unfold Order.leb. rewrite (cmp_opp c c_ok (fst x) s). destruct (cmp c (fst x) s); cbn; congruence.
    - destruct limit as [l|]; [|reflexivity].
      destruct ili as (z & Hz1 & Hz2 & Hlt & Hge & Ez). rewrite (ient_len c rd blocks seps hs wf) in *.
      assert (Hjz : (j < z)%nat) by lia.
      pose proof (Hlt j ltac:(lia) Hjz) as L. rewrite (ikey j ltac:(lia)) in L.
      pose proof (twf_sep_ge _ _ _ _ _ wf j x ltac:(lia) Hin) as G.
      unfold Order.ltb. rewrite (OrderProofs.le_lt_trans c c_ok _ (sepj j) l G L). reflexivity.
  Qed.

  Theorem V_concat : concat V = restrict c start limit (tkvs blocks).
  Proof.
    pose proof (vo_a _ _ _ _ _ _ ivok) as Ha. pose proof jz_le as Hz.
    unfold restrict, tkvs. rewrite filter_concat.
    rewrite <- (map_nth_seq blocks []) at 1. rewrite map_map.
    change (fun x => filter (in_range c start limit) (nth x blocks [])) with vb.
    replace m with (ja + ((jz - ja) + (m - jz)))%nat by lia.
    rewrite !seq_app, !map_app, !concat_app. cbn [plus].
    rewrite (concat_map_nil vb (seq 0 ja)) by (intros j Hj; apply in_seq in Hj; apply vb_before; lia).
    rewrite (concat_map_nil vb (seq (ja + (jz - ja)) (m - jz))) by (intros j Hj; apply in_seq in Hj; apply vb_after; lia).
    rewrite app_nil_r. reflexivity.
  Qed.

  (* ---------------- the index iterator ---------------- *)
  Lemma RI_refines : refines_over c IL RI.
  Proof.
    constructor.
    - intros d p o R.
      destruct (step_refines_s c c_ok ient ib ioff iris ilay (ient_sorted c c_ok rd blocks seps hs wf) ient_pos ja jz irs irl ivok d p o R)
        as (ok & d' & E & R' & Eok).
      exists ok, d'. split; [exact E|]. split; [exact R'|]. rewrite Eok. destruct (c_step c IL p o); reflexivity.
    - intros d p R. apply rep_s_slice in R. apply R.
    - intros d i (Hi & Hs & Hd & Hk & Hv & _). split.
      + unfold bi_valid. destruct Hs as (_ & Ee & _). unfold bi_has_err. rewrite Ee.
        destruct Hd as [-> | ->]; reflexivity.
      + rewrite Hk, Hv. apply (view_kv ient iris ient_pos ja jz irs irl ivok). exact Hi.
  Qed.

  Lemma index_fuel ix p : RI ix p -> (length V <= length (b_data (bi_blk ix)))%nat.
  Proof.
    intros R. apply rep_s_slice in R. destruct R as (Eb & _). rewrite Eb, V_len, (view_len ient iris ient_pos ja jz irs irl ivok).
    pose proof (len_le_data ient ib ioff iris ilay). pose proof (vo_z _ _ _ _ _ _ ivok). lia.
  Qed.

  (* routing *)
  Lemma iv_key i : (ja + i < jz)%nat -> nth_error IL i = Some (sepj (ja + i), encode_bh (hj (ja + i))).
  Proof.
    intros H. rewrite (view_nth ient ja jz i ltac:(lia)).
    apply (ient_nth c rd blocks seps hs wf). pose proof jz_le. lia.
  Qed.

  Lemma route_at_s key i : c_seek c IL key = CAt i ->
    (forall i' x, (i' < i)%nat -> In x (nth i' V []) -> cmp c (fst x) key = Lt) /\
    (forall i' x, (i < i')%nat -> In x (nth i' V []) -> cmp c (fst x) key <> Lt).
  Proof.
    intros Hs. pose proof jz_le as Hz. apply c_seek_at in Hs as (kv & Hn & Hge & Hlt).
    assert (Hi : (i < jz - ja)%nat).
    { rewrite <- (view_len ient iris ient_pos ja jz irs irl ivok). apply nth_error_Some. rewrite Hn. discriminate. }
    rewrite (iv_key i ltac:(lia)) in Hn. injection Hn as <-. cbn [fst] in Hge.
    split.
    - intros i' x Hi' Hin. apply V_nth_in in Hin as [Hb Hin].
      pose proof (Hlt i' (sepj (ja + i'), encode_bh (hj (ja + i'))) Hi' (iv_key i' ltac:(lia))) as L. cbn [fst] in L.
      pose proof (twf_sep_ge _ _ _ _ _ wf (ja + i') x ltac:(lia) Hin) as G.
      apply (OrderProofs.le_lt_trans c c_ok _ (sepj (ja + i'))); assumption.
    - intros i' x Hi' Hin. apply V_nth_in in Hin as [Hb Hin].
      apply (after_block_gt c c_ok rd blocks seps hs wf (ja + i) key x (ja + i') ltac:(lia) ltac:(lia) Hin Hge).
  Qed.

  Lemma route_eoi_s key : c_seek c IL key = CEOI -> forall i' x, In x (nth i' V []) -> cmp c (fst x) key = Lt.
  Proof.
    intros Hs i' x Hin. pose proof jz_le as Hz. apply V_nth_in in Hin as [Hb Hin].
    pose proof (c_seek_eoi c key IL Hs (sepj (ja + i'), encode_bh (hj (ja + i')))) as L. cbn [fst] in L.
    specialize (L ltac:(eapply nth_error_In; apply (iv_key i'); lia)).
    pose proof (twf_sep_ge _ _ _ _ _ wf (ja + i') x ltac:(lia) Hin) as G.
    apply (OrderProofs.le_lt_trans c c_ok _ (sepj (ja + i'))); assumption.
  Qed.

  (* ---------------- indexIter.Get ---------------- *)
  Lemma unsliced_refines l b off ris : block_layout l b off ris -> sorted c l -> refines_over c l (rep l b off ris).
  Proof.
    intros lay Hs. constructor.
    - intros d p o R. destruct (step_refines c c_ok l b off ris lay Hs d p o R) as (ok & d' & E & R' & Eok).
      exists ok, d'. split; [exact E|]. split; [exact R'|]. rewrite Eok. destruct (c_step c l p o); reflexivity.
    - intros d p R. apply rep_slice_full in R. apply R.
    - intros d i (Hi & Hsf & Hd & Hk & Hv & _). split.
      + unfold bi_valid. rewrite (has_err_false _ _ Hsf). destruct Hd as [-> | ->]; reflexivity.
      + rewrite Hk, Hv. apply nth_kv. exact Hi.
  Qed.

  Lemma sliced_refines l b off ris a zl rs rl : block_layout l b off ris -> sorted c l -> (0 < length l)%nat ->
    view_ok l ris a zl rs rl -> refines_over c (view l a zl) (rep_s l b off ris a zl rs rl).
  Proof.
    intros lay Hs Hpos vok. constructor.
    - intros d p o R. destruct (step_refines_s c c_ok l b off ris lay Hs Hpos a zl rs rl vok d p o R) as (ok & d' & E & R' & Eok).
      exists ok, d'. split; [exact E|]. split; [exact R'|]. rewrite Eok. destruct (c_step c (view l a zl) p o); reflexivity.
    - intros d p R. apply rep_s_slice in R. apply R.
    - intros d i (Hi & Hsf & Hd & Hk & Hv & _). split.
      + unfold bi_valid. destruct Hsf as (_ & Ee & _). unfold bi_has_err. rewrite Ee. destruct Hd as [-> | ->]; reflexivity.
      + rewrite Hk, Hv. apply (view_kv l ris Hpos a zl rs rl vok). exact Hi.
  Qed.

  Lemma get_ok_s strict t i : RI (ti_index t) (CAt i) -> static sl strict t ->
    (exists d0 R, index_get c rd t = Some (DBlock d0) /\ refines_over c (nth i V []) R /\ R d0 CSOI) \/
    (index_get c rd t = Some (DEmpty ErrCorrupt) /\ nth i V [] = [] /\ strict = false).
  Proof.
    intros R [Hsl _]. left. pose proof jz_le as Hz.
    pose proof R as (Hi & Hs & Hd & Hk & Hv & Ho & Hp & _).
    assert (Hj : (ja + i < m)%nat) by lia.
    unfold index_get.
    assert (Hvalid : bi_valid (ti_index t) = true).
    { unfold bi_valid. destruct Hs as (_ & Ee & _). unfold bi_has_err. rewrite Ee. destruct Hd as [-> | ->]; reflexivity. }
    rewrite Hvalid. cbn [negb].
    rewrite Hv, (ient_val c rd blocks seps hs wf (ja + i) Hj).
    destruct (twf_handles _ _ _ _ _ wf (ja + i) Hj) as [Ho1 Hl1]. rewrite (decode_encode_bh _ Ho1 Hl1).
    rewrite Hsl.
    destruct (twf_fetch _ _ _ _ _ wf (ja + i) Hj) as (bj & Ef & (off & ris & lay)). rewrite Ef.
    rewrite (V_nth i ltac:(lia)).
    pose proof (sorted_block c c_ok rd blocks seps hs wf (ja + i) Hj) as Hsb.
    assert (Hpos : (0 < length (blk (ja + i)))%nat).
    { pose proof (all_blocks_ne (ja + i) Hj). destruct (blk (ja + i)); [congruence | cbn; lia]. }
    destruct (bi_is_first (ti_index t) || bi_is_last (ti_index t)) eqn:Efl.
    - (* first or last index position: the data iterator is sliced *)
      destruct (new_block_iter_sliced c c_ok (blk (ja + i)) bj off ris lay Hsb Hpos start limit false)
        as (a & zl & rs & rl & vok & R0 & Hst & Hli).
      eexists. exists (rep_s (blk (ja + i)) bj off ris a zl rs rl). split; [reflexivity|].
      unfold vb. rewrite <- (view_is_restrict c c_ok (blk (ja + i)) Hsb start limit a zl Hst Hli (vo_a _ _ _ _ _ _ vok) (vo_z _ _ _ _ _ _ vok)).
      split; [apply sliced_refines; assumption | exact R0].
    - (* a middle position: not sliced, and the range keeps the whole block *)
      apply orb_false_elim in Efl as [Ef1 El1].
      unfold bi_is_first in Ef1. unfold bi_is_last in El1.
      assert (Hmov : (bdir_eqb (bi_dir (ti_index t)) DForward || bdir_eqb (bi_dir (ti_index t)) DBackward) = true)
        by (destruct Hd as [-> | ->]; reflexivity).
      rewrite Hmov in Ef1, El1. cbn [andb] in Ef1, El1.
      destruct Hs as (_ & _ & _ & _ & _ & E4 & E5). rewrite Hp, E4 in Ef1. rewrite Ho, E5 in El1.
      pose proof (vo_a _ _ _ _ _ _ ivok) as Ha. pose proof (vo_z _ _ _ _ _ _ ivok) as Hzl.
      assert (Hi0 : (0 < i)%nat).
      { destruct i as [|i0]; [|lia]. rewrite Nat.add_0_r, N.eqb_refl in Ef1. discriminate. }
      assert (Hil : (S (ja + i) < jz)%nat).
      { destruct (Nat.eq_dec (S (ja + i)) jz) as [E|]; [rewrite E, N.eqb_refl in El1; discriminate | lia]. }
      eexists. exists (rep (blk (ja + i)) bj off ris). split; [reflexivity|].
      rewrite (vb_middle (ja + i) ltac:(lia) Hil).
      split; [apply unsliced_refines; assumption | apply rep_unsliced].
  Qed.

  (* ---------------- the theorem ---------------- *)
  Theorem sliced_run strict t ops :
    t = mkTI (new_block_iter c ib sl true) None None strict sl ->
    RI (ti_index t) CSOI ->
    fst (ti_run c rd t ops) = c_run c (restrict c start limit (tkvs blocks)) CSOI ops.
  Proof.
    intros Et R0. rewrite <- V_concat.
    apply (trun_refines c rd sl strict IL RI RI_refines V V_len (get_ok_s strict) route_at_s route_eoi_s index_fuel ops t CSOI).
    subst t. split; [reflexivity|]. split; [split; reflexivity|]. split; [reflexivity | exact R0].
  Qed.
End TableSlice.

(* packaged: NewIterator(&util.Range{start, limit}, ro) on a well-formed non-empty table *)
Theorem table_iter_sliced_refines c rd blocks seps hs start limit strict :
  comparer_ok c -> table_wf c rd blocks seps hs -> tkvs blocks <> [] ->
  exists t, new_titer c rd (Some (start, limit)) strict = inr t /\
    forall ops, fst (ti_run c rd t ops) = c_run c (restrict c start limit (tkvs blocks)) CSOI ops.
Proof.
  intros Hc wf Hne. destruct (twf_index _ _ _ _ _ wf) as (ib & Eib & (ioff & iris & ilay)).
  unfold new_titer. rewrite Eib. eexists. split; [reflexivity|].
  assert (Hpos : (0 < length (ientries seps hs))%nat)
    by (rewrite (ient_len c rd blocks seps hs wf); apply (twf_m _ _ _ _ _ wf)).
  destruct (new_block_iter_sliced c Hc (ientries seps hs) ib ioff iris ilay (ient_sorted c Hc rd blocks seps hs wf) Hpos start limit true)
    as (ja & jz & irs & irl & ivok & R0 & Hst & Hli).
  intros ops.
  apply (sliced_run c Hc rd blocks seps hs wf Hne start limit ib ioff iris ilay ja jz irs irl ivok Hst Hli strict _ ops eq_refl).
  exact R0.
Qed.
