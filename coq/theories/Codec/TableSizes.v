(* Codec/TableSizes.v — the computable size side condition of the writer theorem with compression.
   Without compression every block lies in the file as it is, so "file shorter than 2^32 bytes"
   bounds every block.  With compression the blocks the reader decodes are not bounded by the
   file; the format's uint32 restart offsets need each UNCOMPRESSED block below 2^32 bytes:
   - data blocks and the metaindex block: bounded by the pairs (kvsize: 34 bytes per entry cover
     three varints and a restart slot) and by the filter name;
   - the index block: its separators come from the comparer's Separator/Successor, whose length
     the comparer contract does not bound, so its size is read off the model writer's final state.
   [table_sizes_ok] runs the model writer (definitions only; used in hypotheses of
   TableWriteSnappyProofs.v / Props/C13.v). *)
From GL Require Export Codec.Table.

Definition kvsize (kvs : list (bytes * bytes)) : N :=
  fold_right (fun kv a => lenN (fst kv) + lenN (snd kv) + 34 + a) 0 kvs.

Section Sizes.
  Variable tp : tparams.
  Variable crc : bytes -> N.
  Variable compress : bytes -> bytes.
  Variable c : comparer.
  Variable blockSize : N.
  Variable ri : N.
  Variable snappy : bool.
  Variable fgen : option (bytes * (list (N * list bytes) -> bytes)).

  (* the writer state Close reaches after the last data block and its index entry *)
  Definition tw_final (w : twriter) : twriter :=
    tw_flush_pending c
      (if (0 <? bw_n (tw_data w)) || (tw_n w =? 0) then tw_finish_block tp crc compress snappy w else w) [].

  Definition index_len (kvs : list (bytes * bytes)) : option N :=
    option_map (fun w => lenN (bw_finish (tw_index (tw_final w))))
               (tw_append_all tp crc compress c blockSize ri snappy tw_empty kvs).

  Definition table_sizes_ok (kvs : list (bytes * bytes)) : bool :=
    (kvsize kvs + 8 <? 2 ^ 32) &&
    match index_len kvs with Some n => n <? 2 ^ 32 | None => false end &&
    match fgen with Some (name, _) => lenN name + 80 <? 2 ^ 32 | None => true end.
End Sizes.
