(* Codec/JournalZeroTailProofs.v — the written stream cut at byte n and followed by zero bytes
   (any number of them): what a crash leaves of an unsynced journal tail on file systems that
   extend the file before the data reaches it.  For EVERY checksum function, checksums verified or
   not, both modes: the reader yields exactly the records wholly inside the cut, then at most ONE
   further record - which can only stem from the chunk the cut falls in (its header survived, its
   payload is zero-filled): no chunk is ever parsed out of the zeros themselves. *)
From GL Require Import Base.Bytes Base.BytesProofs Codec.Journal Codec.JournalSpec Codec.JournalLemmas
  Codec.JournalLayoutProofs Codec.JournalReaderProofs Codec.JournalWriterProofs Codec.JournalProofs
  Codec.JournalDamageProofs Codec.JournalCutProofs.
From Coq Require Import PeanoNat Lia ZifyN ZifyNat ZifyBool.

Section ZeroTail.
  Variable crc : bytes -> N.
  Variable p : jparams.
  Hypothesis pok : jparams_ok p.

  Let H7 : hs p = 7 := hs7 p pok.
  Let Hb : hs p < bs p := hs_lt_bs p pok.

  Definition is_bad (e : bev) : bool := match e with BBad _ _ => true | BChunk _ => false end.
  Definition bads (l : list bev) : Prop := Forall (fun e => is_bad e = true) l.
  (* what follows the chunks inside the cut: reported drops, preceded by at most one chunk *)
  Definition zt_ok (tail : list bev) : Prop :=
    bads tail \/ exists c rest, tail = BChunk c :: rest /\ bads rest.

  Lemma bads_app a b : bads a -> bads b -> bads (a ++ b).
  Proof. intros; apply Forall_app; split; assumption. Qed.

  Lemma zt_ok_app a b : zt_ok a -> bads b -> zt_ok (a ++ b).
  Proof.
    intros [Ha|(c & rest & -> & Hr)] Hb'.
    - left. apply bads_app; assumption.
    - right. exists c, (rest ++ b). split; [reflexivity|apply bads_app; assumption].
  Qed.

  (* ------------------------------------------------------------ zeros *)
  Lemma firstn_repeat {A} (x : A) a : forall b, firstn a (repeat x b) = repeat x (Nat.min a b).
  Proof. induction a as [|a IH]; intros [|b]; cbn; try reflexivity. now rewrite IH. Qed.
  Lemma skipn_repeat {A} (x : A) a : forall b, skipn a (repeat x b) = repeat x (b - a).
  Proof. induction a as [|a IH]; intros [|b]; cbn [skipn repeat Nat.sub]; try reflexivity. apply IH. Qed.

  Lemma takeN_zeros n k : takeN n (zeros k) = zeros (N.min n k).
  Proof. unfold takeN, zeros. rewrite firstn_repeat. f_equal. lia. Qed.
  Lemma dropN_zeros n k : dropN n (zeros k) = zeros (k - n).
  Proof. unfold dropN, zeros. rewrite skipn_repeat. f_equal. lia. Qed.
  Lemma zeros_app a b : zeros a ++ zeros b = zeros (a + b).
  Proof. unfold zeros. rewrite <- repeat_app. f_equal. lia. Qed.
  Lemma zeros_0 : zeros 0 = [].
  Proof. reflexivity. Qed.
  Lemma le_decode_zeros k : le_decode (zeros k) = 0.
  Proof.
    unfold zeros. induction (N.to_nat k) as [|j IH]; [reflexivity|].
    cbn [repeat le_decode]. rewrite IH. reflexivity.
  Qed.
  Lemma nth_zeros i k : nth i (zeros k) 0 = 0.
  Proof.
    unfold zeros. revert i. induction (N.to_nat k) as [|j IH]; intros [|i]; cbn [repeat nth]; try reflexivity.
    apply IH.
  Qed.

  Lemma parse_zeros ck k : bads (parse_from crc p ck (zeros k)).
  Proof.
    unfold parse_from. destruct (length (zeros k)) as [|f]; cbn [parse_rest]; [constructor|].
    destruct (lenN (zeros k) <? hs p); [constructor|].
    rewrite dropN_zeros, !takeN_zeros, !le_decode_zeros, nth_zeros.
    rewrite !N.eqb_refl. cbn [andb]. constructor; [reflexivity|constructor].
  Qed.

  Lemma blocks_zeros ck : forall fuel k,
    bads (flat_map (parse_from crc p ck) (blocks p fuel (zeros k))).
  Proof.
    induction fuel as [|fuel IH]; intros k; cbn [blocks flat_map]; [constructor|].
    destruct (zeros k) as [|x b'] eqn:E; [constructor|]. rewrite <- E.
    cbn [flat_map]. rewrite takeN_zeros, dropN_zeros. apply bads_app; [apply parse_zeros|apply IH].
  Qed.

  Lemma events_zeros ck k : bads (stream_events crc p ck (zeros k)).
  Proof. unfold stream_events, stream_blocks. apply blocks_zeros. Qed.

  (* a block made of at most blockSize bytes followed by zeros *)
  Lemma events_block_zeros ck A z : lenN A <= bs p ->
    exists z1 tl, stream_events crc p ck (A ++ zeros z) = parse_from crc p ck (A ++ zeros z1) ++ tl /\ bads tl.
  Proof.
    intros HA. destruct (A ++ zeros z) as [|x b'] eqn:E.
    - apply app_eq_nil in E as (-> & E). exists 0, []. split; [reflexivity|constructor].
    - rewrite <- E. rewrite (stream_events_cons crc p pok) by (rewrite E; discriminate).
      rewrite takeN_app_ge, dropN_app_ge by exact HA. rewrite takeN_zeros, dropN_zeros.
      eexists _, _. split; [reflexivity|apply events_zeros].
  Qed.

  (* ------------------------------------------------------------ the chunk the cut falls in *)
  Lemma nth_app_zeros (A : bytes) z i : (length A <= i)%nat -> nth i (A ++ zeros z) 0 = 0.
  Proof. intros H. rewrite app_nth2 by lia. apply nth_zeros. Qed.

  Lemma parse_torn ck c n z :
    chunk_ok p c -> lenN (c_data c) < 65536 -> n < csize p c ->
    zt_ok (parse_from crc p ck (takeN n (render_chunk crc c) ++ zeros z)).
  Proof.
    destruct c as [t d]. intros (Ht1 & Ht2) Hd Hn2. cbn [c_type c_data] in *.
    unfold csize in Hn2. cbn [c_data] in Hn2.
    change {| c_type := t; c_data := d |} with (mk t d).
    pose proof pok as (_ & _ & _ & Hfull & _).
    pose proof (render_chunk_shape crc t d []) as Hs. rewrite !app_nil_r in Hs. rewrite Hs.
    set (c4 := le_encode 4 (cksum crc (t :: d))).
    set (c2 := le_encode 2 (lenN d mod 65536)).
    assert (L4 : lenN c4 = 4) by (unfold c4; rewrite lenN_le_encode; reflexivity).
    assert (L2 : lenN c2 = 2) by (unfold c2; rewrite lenN_le_encode; reflexivity).
    assert (LX : lenN (c4 ++ c2 ++ t :: d) = 7 + lenN d) by (rewrite !lenN_app, lenN_cons; lia).
    destruct (n <? 7) eqn:En.
    - (* the header itself is torn: its type byte is zero *)
      set (rest := takeN n (c4 ++ c2 ++ t :: d) ++ zeros z).
      assert (Et : nth 6 rest 0 = 0).
      { unfold rest. apply nth_app_zeros.
        assert (L : lenN (takeN n (c4 ++ c2 ++ t :: d)) = n) by (rewrite lenN_takeN; lia).
        unfold lenN in L. lia. }
      left. unfold parse_from. destruct (length rest) as [|fr]; cbn [parse_rest]; [constructor|].
      destruct (lenN rest <? hs p); [constructor|]. rewrite Et.
      destruct ((le_decode (takeN 4 rest) =? 0) && (le_decode (takeN 2 (dropN 4 rest)) =? 0) && (0 =? 0));
        [constructor; [reflexivity|constructor]|].
      replace ((0 <? tFull p) || (tLast p <? 0)) with true by lia.
      constructor; [reflexivity|constructor].
    - (* the header survived, the payload is cut and continues with zeros *)
      assert (D2 : le_decode c2 = lenN d).
      { unfold c2. rewrite le_decode_encode. change (256 ^ N.of_nat 2) with 65536.
        rewrite N.mod_mod by lia. apply N.mod_small. exact Hd. }
      assert (Er : takeN n (c4 ++ c2 ++ t :: d) = c4 ++ c2 ++ t :: takeN (n - 7) d).
      { rewrite takeN_app_ge by lia. f_equal. rewrite takeN_app_ge by lia. f_equal.
        rewrite L4, L2. replace (n - 4 - 2) with ((n - 7) + 1) by lia.
        unfold takeN. replace (N.to_nat (n - 7 + 1)) with (S (N.to_nat (n - 7))) by lia. reflexivity. }
      rewrite Er.
      set (pay := takeN (n - 7) d ++ zeros z).
      assert (Erest : (c4 ++ c2 ++ t :: takeN (n - 7) d) ++ zeros z = c4 ++ c2 ++ t :: pay).
      { unfold pay. rewrite <- !app_assoc. reflexivity. }
      rewrite Erest. set (rest := c4 ++ c2 ++ t :: pay).
      assert (Lp : lenN (takeN (n - 7) d) = n - 7) by (rewrite lenN_takeN; lia).
      assert (E4 : takeN 4 rest = c4) by (apply takeN_app_exact; exact L4).
      assert (E2 : takeN 2 (dropN 4 rest) = c2).
      { unfold rest. rewrite dropN_app_exact by exact L4. apply takeN_app_exact; exact L2. }
      assert (E6 : dropN 6 rest = t :: pay).
      { unfold rest. rewrite app_assoc. apply dropN_app_exact. rewrite lenN_app. lia. }
      assert (Et : nth 6 rest 0 = t).
      { pose proof (nth_dropN 0 6 0%nat rest) as Hn. rewrite E6 in Hn. cbn in Hn. symmetry. exact Hn. }
      assert (E7 : dropN (hs p) rest = pay).
      { rewrite H7. replace 7 with (1 + 6) by lia. rewrite <- dropN_dropN, E6. reflexivity. }
      assert (En' : exists k, dropN (hs p + lenN d) rest = zeros k).
      { rewrite N.add_comm, <- dropN_dropN, E7. unfold pay.
        rewrite dropN_app_ge by lia. rewrite dropN_zeros. eexists. reflexivity. }
      destruct En' as (kz & En').
      unfold parse_from.
      destruct (length rest) as [|fr] eqn:Efr.
      { exfalso. assert (L : lenN rest = 0) by (unfold lenN; lia).
        unfold rest in L. rewrite !lenN_app, lenN_cons in L. lia. }
      cbn [parse_rest].
      destruct (lenN rest <? hs p); [left; constructor|].
      rewrite E4, E2, Et, D2.
      replace (t =? 0) with false by lia. rewrite andb_false_r.
      replace ((t <? tFull p) || (tLast p <? t)) with false by lia.
      destruct (lenN rest <? hs p + lenN d); [left; constructor; [reflexivity|constructor]|].
      destruct (ck && negb (le_decode c4 =? cksum crc (takeN (lenN d + 1) (dropN 6 rest))));
        [left; constructor; [reflexivity|constructor]|].
      right. eexists _, _. split; [reflexivity|].
      rewrite En'. rewrite (parse_from_fuel crc p pok); [apply parse_zeros|].
      assert (L : lenN (zeros kz) <= lenN rest - 1).
      { rewrite <- En', lenN_dropN. unfold rest. rewrite !lenN_app, lenN_cons. lia. }
      unfold lenN in L. lia.
  Qed.

  (* a block cut at n and continued with zeros *)
  Lemma parse_cut_zeros ck cs q z :
    open_ok p cs -> forall n,
    exists tail, parse_from crc p ck (takeN n (render_chunks crc cs ++ zeros q) ++ zeros z)
                   = map BChunk (firstn (fit p cs n) cs) ++ tail /\ zt_ok tail.
  Proof.
    intros Hok. induction cs as [|c cs IH]; intros n.
    - cbn [render_chunks flat_map app firstn map fit]. rewrite takeN_zeros, zeros_app.
      eexists. split; [reflexivity|]. left. apply parse_zeros.
    - assert (Hok' : open_ok p cs) by (apply (open_ok_tail p pok c cs Hok)).
      assert (Hc : chunk_ok p c) by (destruct Hok as (_ & Hf); now inversion Hf).
      assert (Hl : lenN (c_data c) < 65536) by (apply (chunk_len_bound p pok (c :: cs)); [exact Hok|now left]).
      unfold render_chunks. cbn [flat_map]. fold (render_chunks crc cs). rewrite <- app_assoc.
      pose proof (lenN_render_chunk crc p pok c) as Lc.
      destruct (csize p c <=? n) eqn:E.
      + rewrite takeN_app_ge by lia. rewrite Lc. cbn [fit]. rewrite E.
        destruct (IH Hok' (n - csize p c)) as (tail & Ep & Ht).
        exists tail. rewrite <- app_assoc, (parse_chunk crc p pok) by assumption. rewrite Ep.
        split; [reflexivity|exact Ht].
      + rewrite takeN_app_le by lia. cbn [fit]. rewrite E. cbn [firstn map app].
        eexists. split; [reflexivity|]. apply parse_torn; try assumption; lia.
  Qed.

  (* the same over the blocks of a layout *)
  Lemma stream_events_zero_gen ck closed open :
    Forall (closed_ok p) closed -> open_ok p open -> forall n z,
    exists tail,
      stream_events crc p ck
        (takeN n (flat_map (render_closed crc p) closed ++ render_chunks crc open) ++ zeros z)
      = map BChunk (firstn (fitb p closed open n) (concat closed ++ open)) ++ tail /\ zt_ok tail.
  Proof.
    intros Hc Ho. induction closed as [|c1 closed IH]; intros n z.
    - cbn [flat_map concat app fitb].
      destruct (events_block_zeros ck (takeN n (render_chunks crc open)) z) as (z1 & tl & E & Htl).
      { rewrite lenN_takeN, (lenN_render_chunks crc p pok). destruct Ho. lia. }
      destruct (parse_cut_zeros ck open 0 z1 Ho n) as (tail & Ep & Ht).
      rewrite zeros_0, app_nil_r in Ep.
      exists (tail ++ tl). rewrite E, Ep, <- app_assoc. split; [reflexivity|apply zt_ok_app; assumption].
    - inversion Hc as [|? ? Hc1 Hc']; subst. cbn [flat_map concat]. rewrite <- !app_assoc.
      destruct Hc1 as (Hbig & Hok1).
      pose proof (lenN_render_closed crc p pok c1 Hok1) as L1.
      destruct (bs p <=? n) eqn:E.
      + rewrite takeN_app_ge by lia. rewrite L1. cbn [fitb]. rewrite E.
        destruct (IH Hc' (n - bs p) z) as (tail & Ek & Ht).
        exists tail. split; [|exact Ht]. rewrite <- app_assoc.
        rewrite (stream_events_cons crc p pok).
        * rewrite takeN_app_exact, dropN_app_exact by exact L1. rewrite Ek.
          rewrite firstn_app_2, map_app, <- app_assoc. f_equal.
          unfold render_closed. apply (parse_chunks crc p pok); [exact Hok1|]. rewrite lenN_zeros. lia.
        * intros E0. apply (f_equal lenN) in E0. rewrite lenN_app, L1, lenN_nil in E0. lia.
      + rewrite takeN_app_le by lia. cbn [fitb]. rewrite E.
        destruct (events_block_zeros ck (takeN n (render_closed crc p c1)) z) as (z1 & tl & E1 & Htl).
        { rewrite lenN_takeN. lia. }
        destruct (parse_cut_zeros ck c1 (bs p - bsize p c1) z1 Hok1 n) as (tail & Ep & Ht).
        fold (render_closed crc p c1) in Ep. pose proof (fit_le p pok c1 n) as Hk.
        set (k := fit p c1 n) in *.
        rewrite firstn_app. replace (k - length c1)%nat with 0%nat by lia. cbn [firstn]. rewrite app_nil_r.
        exists (tail ++ tl). rewrite E1, Ep, <- app_assoc. split; [reflexivity|apply zt_ok_app; assumption].
  Qed.

  (* ------------------------------------------------------------ the assembler *)
  Definition ends_record (e : bev) : bool :=
    match e with BChunk c => is_last_type p (c_type c) | BBad _ _ => false end.
  Definition count_last (evs : list bev) : nat := length (filter ends_record evs).

  Lemma count_last_app a b : count_last (a ++ b) = (count_last a + count_last b)%nat.
  Proof. unfold count_last. rewrite filter_app, app_length. reflexivity. Qed.

  Lemma count_last_cons e evs :
    count_last (e :: evs) = ((if ends_record e then 1 else 0) + count_last evs)%nat.
  Proof. unfold count_last. cbn [filter]. destruct (ends_record e); reflexivity. Qed.
  Lemma recs_of_cons_rec d l : recs_of (Rec d :: l) = d :: recs_of l.
  Proof. reflexivity. Qed.
  Lemma recs_of_cons_drop r n l : recs_of (Dropped r n :: l) = recs_of l.
  Proof. reflexivity. Qed.
  Lemma recs_of_cons_skip l : recs_of (Skipped :: l) = recs_of l.
  Proof. reflexivity. Qed.

  Lemma recs_le_last strict : forall evs st,
    (length (recs_of (assemble p strict st evs)) <= count_last evs)%nat.
  Proof.
    induction evs as [|ev evs IH]; intros st.
    - destruct st; cbn [assemble]; [cbn; lia|]. rewrite recs_of_cons_drop. destruct strict; cbn; lia.
    - rewrite count_last_cons. destruct ev as [c|r n]; cbn [assemble ends_record].
      + destruct st.
        * destruct (is_start_type p (c_type c)).
          -- destruct (is_last_type p (c_type c)).
             ++ rewrite recs_of_cons_rec. cbn [length]. specialize (IH AIdle). lia.
             ++ specialize (IH (AIn (c_data c))). lia.
          -- rewrite recs_of_cons_drop. specialize (IH AIdle).
             destruct (is_last_type p (c_type c)); lia.
        * destruct (is_last_type p (c_type c)).
          -- rewrite recs_of_cons_rec. cbn [length]. specialize (IH AIdle). lia.
          -- specialize (IH (AIn (acc ++ c_data c))). lia.
      + rewrite recs_of_cons_drop. destruct strict; [cbn; lia|].
        destruct st; rewrite ?recs_of_cons_skip; specialize (IH AIdle); lia.
  Qed.

  Lemma count_last_bads l : bads l -> count_last l = 0%nat.
  Proof.
    induction 1 as [|e l He _ IH]; [reflexivity|]. destruct e; [discriminate|].
    rewrite count_last_cons. cbn [ends_record]. exact IH.
  Qed.

  Lemma count_last_zt tail : zt_ok tail -> (count_last tail <= 1)%nat.
  Proof.
    intros [H|(c & rest & -> & H)]; [rewrite count_last_bads by exact H; lia|].
    rewrite count_last_cons, (count_last_bads rest H). cbn [ends_record].
    destruct (is_last_type p (c_type c)); lia.
  Qed.

  Lemma cont_prefix_nonlast x cs : cont_chunks p x cs -> forall k, (k < length cs)%nat ->
    count_last (map BChunk (firstn k cs)) = 0%nat.
  Proof.
    pose proof (type_facts p pok) as (_&_&_&_&_&Hm&_&_).
    induction 1 as [d|d x cs Hc IH]; intros k Hk.
    - cbn [length] in Hk. replace k with 0%nat by lia. reflexivity.
    - destruct k as [|k]; [reflexivity|]. cbn [firstn map]. rewrite count_last_cons.
      cbn [ends_record mk c_type]. rewrite Hm. apply IH. cbn [length] in Hk. lia.
  Qed.

  Lemma rec_prefix_nonlast r cs k : rec_chunks p r cs -> (k < length cs)%nat ->
    count_last (map BChunk (firstn k cs)) = 0%nat.
  Proof.
    pose proof (type_facts p pok) as (_&_&_&Hl2&_).
    intros [r'|d x cs' Hc] Hk; cbn [length] in Hk.
    - replace k with 0%nat by lia. reflexivity.
    - destruct k as [|k]; [reflexivity|]. cbn [firstn map]. rewrite count_last_cons.
      cbn [ends_record mk c_type]. rewrite Hl2. apply (cont_prefix_nonlast x cs' Hc). lia.
  Qed.

  Lemma assemble_zt strict rs css : Forall2 (rec_chunks p) rs css -> forall k tail,
    zt_ok tail ->
    exists m t,
      outs (assemble p strict AIdle (map BChunk (firstn k (concat css)) ++ tail))
      = map Rec (firstn m rs) ++ t /\
      (m <= length rs)%nat /\ (length (concat (firstn m css)) <= k)%nat /\
      ((m < length rs)%nat -> (k < length (concat (firstn (S m) css)))%nat) /\
      (length (recs_of t) <= 1)%nat.
  Proof.
    induction 1 as [|r cs rs css Hr Hrs IH]; intros k tail Ht.
    - exists 0%nat, (outs (assemble p strict AIdle tail)). rewrite firstn_nil. cbn [concat map app firstn length].
      split; [reflexivity|]. split; [lia|]. split; [lia|]. split; [lia|].
      rewrite recs_of_outs. pose proof (recs_le_last strict tail AIdle). pose proof (count_last_zt tail Ht). lia.
    - cbn [concat]. destruct (Nat.leb (length cs) k) eqn:E.
      + apply Nat.leb_le in E.
        rewrite firstn_app. rewrite firstn_all2 by lia.
        destruct (IH (k - length cs)%nat tail Ht) as (m & t & Em & Hm & Hk & Hk2 & Hr1).
        exists (S m), t. rewrite map_app, <- app_assoc, (assemble_rec p pok strict r cs _ Hr).
        rewrite outs_rec, Em. split; [reflexivity|].
        split; [cbn [length]; lia|].
        split; [cbn [firstn concat]; rewrite app_length; lia|].
        split; [|exact Hr1]. intros Hlt. cbn [length] in Hlt. specialize (Hk2 ltac:(lia)).
        change (firstn (S (S m)) (cs :: css)) with (cs :: firstn (S m) css).
        cbn [concat]. rewrite app_length. lia.
      + apply Nat.leb_gt in E.
        rewrite firstn_app. replace (k - length cs)%nat with 0%nat by lia. cbn [firstn]. rewrite app_nil_r.
        exists 0%nat, (outs (assemble p strict AIdle (map BChunk (firstn k cs) ++ tail))).
        split; [reflexivity|]. cbn [firstn concat length]. rewrite app_nil_r.
        split; [lia|]. split; [lia|]. split; [intros _; exact E|].
        rewrite recs_of_outs.
        pose proof (recs_le_last strict (map BChunk (firstn k cs) ++ tail) AIdle) as H1.
        rewrite count_last_app, (rec_prefix_nonlast r cs k Hr E) in H1.
        pose proof (count_last_zt tail Ht). lia.
  Qed.

  (* ------------------------------------------------------------ the theorem *)
  Theorem zero_tail strict ck fl rs n z :
    exists m t,
      jread crc p strict ck (firstn n (jwrite crc p fl rs) ++ repeat 0 z) = map Rec (firstn m rs) ++ t /\
      (m <= length rs)%nat /\
      (length (jwrite crc p fl (firstn m rs)) <= n)%nat /\
      (forall j, (j <= length rs)%nat ->
                 (length (jwrite crc p fl (firstn j rs)) <= n)%nat -> (j <= m)%nat) /\
      (length (recs_of t) <= 1)%nat.
  Proof.
    destruct (chunks_of_ex crc p pok rs) as (css & Hcs).
    pose proof (chunks_of_all p pok rs css Hcs) as Eall. destruct Hcs as (H & Hj).
    assert (Hcs : chunks_of p rs css) by (split; assumption).
    unfold jread. rewrite (reader_factor crc p pok), (jwrite_layout crc p pok).
    destruct (layout_chunks crc p pok rs) as ((W1 & W2) & _).
    replace (firstn n (render_lay crc p (layout p rs)))
      with (takeN (N.of_nat n) (render_lay crc p (layout p rs)))
      by (unfold takeN; rewrite Nat2N.id; reflexivity).
    replace (repeat 0 z) with (zeros (N.of_nat z)) by (unfold zeros; rewrite Nat2N.id; reflexivity).
    unfold render_lay.
    destruct (stream_events_zero_gen ck _ _ W1 W2 (N.of_nat n) (N.of_nat z)) as (tail & Ek & Ht).
    rewrite Ek. fold (lay_chunks (layout p rs)). rewrite Eall.
    destruct (assemble_zt strict rs css H (fitb p (l_closed (layout p rs)) (l_open (layout p rs)) (N.of_nat n)) tail Ht) as (m & t & Em & Hm & Hk & Hk2 & Hr).
    exists m, t. split; [exact Em|]. split; [exact Hm|]. split; [|split; [|exact Hr]].
    - rewrite (flush_irrelevant crc p pok fl []). apply (count_inside crc p pok rs css m n Hcs Hm Hk).
    - intros j Hjl Hlen. rewrite (flush_irrelevant crc p pok fl []) in Hlen.
      pose proof (inside_count crc p pok rs css j n Hcs Hlen) as Hin.
      destruct (Nat.le_gt_cases j m) as [Hle|Hgt]; [exact Hle|exfalso].
      specialize (Hk2 ltac:(lia)).
      pose proof (concat_firstn_mono p pok css (S m) j ltac:(lia)). lia.
  Qed.
End ZeroTail.
