(* Codec/BatchProofs.v — the batch codec (Codec/Batch.v): Load/decodeBatch undo appendRec for every record
   list; the decoder on a cut encoding; totality of the decoder below the int64 wrap and the witnesses of
   what happens above it; the journal record of a merged group.  Proof file. *)
From GL Require Import Base.Bytes Base.BytesProofs Base.Varint Base.VarintProofs Codec.IKey Codec.Batch.
From Coq Require Import Arith ZArith Lia ZifyN ZifyNat ZifyBool.
Open Scope N_scope.

(* ------------------------------------------------------------------ Go int arithmetic *)
Lemma int64_small z : (- two63 <= z < two63)%Z -> int64 z = z.
Proof.
  unfold int64, two63, two64. intros H.
  rewrite Z.mod_small by lia. lia.
Qed.

Lemma int_of_u64_small x : x < 2 ^ 63 -> int_of_u64 x = Z.of_N x.
Proof.
  intros H. unfold int_of_u64. apply int64_small. unfold two63.
  change (2 ^ 63) with 9223372036854775808 in H. lia.
Qed.

Lemma u64_small x : x < 2 ^ 64 -> u64 x = x.
Proof. intros H. unfold u64. change (2 ^ 64) with 18446744073709551616 in H. apply N.mod_small. exact H. Qed.

Lemma u32_small x : x < 2 ^ 32 -> u32 x = x.
Proof. intros H. unfold u32. change (2 ^ 32) with 4294967296 in H. apply N.mod_small. exact H. Qed.

Lemma zlen_app a b : zlen (a ++ b) = (zlen a + zlen b)%Z.
Proof. unfold zlen. rewrite lenN_app. lia. Qed.

(* ------------------------------------------------------------------ slices at natural offsets *)
Lemma zget_app pre b post : zget (pre ++ b :: post) (Z.of_N (lenN pre)) = Some b.
Proof.
  unfold zget. replace (Z.of_N (lenN pre) <? 0)%Z with false by lia.
  replace (Z.to_nat (Z.of_N (lenN pre))) with (length pre) by (unfold lenN; lia).
  rewrite nth_error_app2 by lia. rewrite Nat.sub_diag. reflexivity.
Qed.

Lemma zdrop_ok data n : n <= lenN data -> zdrop data (Z.of_N n) = Some (dropN n data).
Proof.
  intros H. unfold zdrop, zlen.
  replace ((0 <=? Z.of_N n) && (Z.of_N n <=? Z.of_N (lenN data)))%Z with true by lia.
  rewrite N2Z.id. reflexivity.
Qed.

Lemma zdrop_app pre post : zdrop (pre ++ post) (Z.of_N (lenN pre)) = Some post.
Proof. rewrite zdrop_ok by (rewrite lenN_app; lia). rewrite dropN_app. reflexivity. Qed.

Lemma zslice_ok data lo hi : lo <= hi -> hi <= lenN data ->
  zslice data (Z.of_N lo) (Z.of_N hi) = Some (sliceN lo hi data).
Proof.
  intros H1 H2. unfold zslice, zlen.
  replace ((0 <=? Z.of_N lo) && (Z.of_N lo <=? Z.of_N hi) && (Z.of_N hi <=? Z.of_N (lenN data)))%Z with true by lia.
  rewrite !N2Z.id. reflexivity.
Qed.

Lemma zslice_app3 a b d :
  zslice (a ++ b ++ d) (Z.of_N (lenN a)) (Z.of_N (lenN a + lenN b)) = Some b.
Proof.
  rewrite zslice_ok by (rewrite ?lenN_app; lia). rewrite sliceN_app3. reflexivity.
Qed.

(* ------------------------------------------------------------------ strict prefixes of a varint *)
Lemma uvarint_f_cont p : forall i x s,
  Forall (fun b => 128 <= b) p -> i + lenN p <= 10 -> uvarint_f p i x s = UvShort.
Proof.
  induction p as [|b r IH]; intros i x s Hc Hl; [reflexivity|].
  rewrite lenN_cons in Hl. inversion Hc as [|? ? Hb Hr]; subst.
  cbn [uvarint_f]. replace (i =? 10) with false by lia. replace (b <? 128) with false by lia.
  apply IH; [exact Hr | lia].
Qed.

Lemma put_uvarint_f_prefix_cont fuel : forall x j,
  (j < length (put_uvarint_f fuel x))%nat -> Forall (fun b => 128 <= b) (firstn j (put_uvarint_f fuel x)).
Proof.
  induction fuel as [|f IH]; intros x j Hj; cbn [put_uvarint_f] in *.
  - cbn [length] in Hj. assert (j = 0%nat) by lia. subst. constructor.
  - destruct (128 <=? x).
    + destruct j as [|j]; [constructor|]. cbn [firstn]. constructor.
      * pose proof (cont_byte_bounds x). lia.
      * apply IH. cbn [length] in Hj. lia.
    + cbn [length] in Hj. assert (j = 0%nat) by lia. subst. constructor.
Qed.

Lemma uvarint_strict_prefix x j :
  j < lenN (put_uvarint x) -> uvarint (takeN j (put_uvarint x)) = UvShort.
Proof.
  intros Hj. unfold uvarint. apply uvarint_f_cont.
  - unfold takeN. apply put_uvarint_f_prefix_cont. unfold lenN, put_uvarint in Hj. lia.
  - pose proof (put_uvarint_length x). rewrite lenN_takeN by lia. lia.
Qed.

Ltac lens := repeat first [rewrite lenN_app in * | rewrite lenN_cons in * | rewrite lenN_nil in *].

Section Proofs.
  Variable p : kparams.
  Hypothesis pok : kparams_ok p.

  Lemma val_lt_256 : keyTypeVal p < 256.
  Proof. destruct pok as (_ & H1 & _ & H2 & _). lia. Qed.

  (* a record the API can produce: the kind is keyTypeDel or keyTypeVal; only kind <= keyTypeVal is used *)
  Definition rec_ok (r : brec) : Prop := fst (fst r) <= keyTypeVal p.

  (* the batchIndex appendRec builds for a record appended at offset o *)
  Definition rec_idx (o : N) (r : brec) : bidx :=
    match r with (kt, k, v) =>
      let kpos := o + 1 + lenN (put_uvarint (lenN k)) in
      if kt =? keyTypeVal p then
        mkidx kt (Z.of_N kpos) (Z.of_N (lenN k))
              (Z.of_N (kpos + lenN k + lenN (put_uvarint (lenN v)))) (Z.of_N (lenN v))
      else mkidx kt (Z.of_N kpos) (Z.of_N (lenN k)) 0%Z 0%Z
    end.

  Fixpoint idxs_of (o : N) (recs : list brec) : list bidx :=
    match recs with
    | [] => []
    | r :: t => rec_idx o r :: idxs_of (o + lenN (enc_rec p r)) t
    end.

  (* internalLen contributed by a record list *)
  Fixpoint ilen_of (recs : list brec) : Z :=
    match recs with
    | [] => 0%Z
    | (kt, k, v) :: t =>
        (Z.of_N (lenN k) + (if (kt =? keyTypeVal p)%N then Z.of_N (lenN v) else 0) + 8 + ilen_of t)%Z
    end.

  Lemma enc_rec_len r : 2 <= lenN (enc_rec p r).
  Proof.
    destruct r as [[kt k] v]. unfold enc_rec. rewrite lenN_cons, !lenN_app.
    pose proof (put_uvarint_length (lenN k)). lia.
  Qed.

  Lemma enc_recs_cons r t : enc_recs p (r :: t) = enc_rec p r ++ enc_recs p t.
  Proof. reflexivity. Qed.

  Lemma enc_recs_app a b : enc_recs p (a ++ b) = enc_recs p a ++ enc_recs p b.
  Proof. unfold enc_recs. rewrite map_app, concat_app. reflexivity. Qed.

  Lemma enc_recs_len recs : 2 * N.of_nat (length recs) <= lenN (enc_recs p recs).
  Proof.
    induction recs as [|r t IH]; [cbn; lia|].
    rewrite enc_recs_cons, lenN_app. pose proof (enc_rec_len r). cbn [length]. lia.
  Qed.

  (* ---------------- the encoder in closed form ---------------- *)
  Lemma append_rec_spec b kt k v :
    b_data (append_rec p b kt k v) = b_data b ++ enc_rec p (kt, k, v) /\
    b_index (append_rec p b kt k v) = b_index b ++ [rec_idx (lenN (b_data b)) (kt, k, v)] /\
    b_ilen (append_rec p b kt k v) = (b_ilen b + ilen_of [(kt, k, v)])%Z.
  Proof.
    unfold append_rec, enc_rec, rec_idx. cbn [ilen_of].
    destruct (kt =? keyTypeVal p); cbn [b_data b_index b_ilen].
    - split; [|split].
      + cbn [app]. rewrite <- ?app_assoc. reflexivity.
      + rewrite lenN_cons. do 2 f_equal. f_equal; f_equal; lia.
      + lia.
    - split; [|split].
      + cbn [app]. rewrite ?app_nil_r. reflexivity.
      + rewrite lenN_cons. do 2 f_equal. f_equal; f_equal; lia.
      + lia.
  Qed.

  Lemma ilen_of_app a b : ilen_of (a ++ b) = (ilen_of a + ilen_of b)%Z.
  Proof. induction a as [|[[kt k] v] a IH]; cbn [app ilen_of]; lia. Qed.

  Lemma idxs_of_app a b o : idxs_of o (a ++ b) = idxs_of o a ++ idxs_of (o + lenN (enc_recs p a)) b.
  Proof.
    revert o. induction a as [|r a IH]; intros o; cbn [app idxs_of].
    - cbn. rewrite N.add_0_r. reflexivity.
    - rewrite IH. rewrite enc_recs_cons, lenN_app. do 3 f_equal. lia.
  Qed.

  Lemma fold_append_spec recs : forall b,
    let b' := fold_left (fun b r => match r with (kt, k, v) => append_rec p b kt k v end) recs b in
    b_data b' = b_data b ++ enc_recs p recs /\
    b_index b' = b_index b ++ idxs_of (lenN (b_data b)) recs /\
    b_ilen b' = (b_ilen b + ilen_of recs)%Z.
  Proof.
    induction recs as [|[[kt k] v] t IH]; intros b; cbn [fold_left].
    - cbn. rewrite !app_nil_r. split; [|split]; try reflexivity. lia.
    - destruct (append_rec_spec b kt k v) as (D & I & L).
      specialize (IH (append_rec p b kt k v)). cbv zeta in IH. destruct IH as (D' & I' & L').
      cbv zeta. rewrite D', I', L', D, I, L. split; [|split].
      + rewrite enc_recs_cons, app_assoc. reflexivity.
      + cbn [idxs_of]. rewrite <- app_assoc. cbn [app]. rewrite lenN_app. reflexivity.
      + change ((kt, k, v) :: t) with ([(kt, k, v)] ++ t). rewrite ilen_of_app. lia.
  Qed.

  Theorem batch_of_spec recs :
    batch_of p recs = mkbatch (enc_recs p recs) (idxs_of 0 recs) (ilen_of recs).
  Proof.
    pose proof (fold_append_spec recs batch_empty) as H. cbv zeta in H.
    destruct H as (D & I & L). fold (batch_of p recs) in D, I, L.
    destruct (batch_of p recs) as [d ix il]. cbn [b_data b_index b_ilen batch_empty app lenN length N.of_nat] in *.
    rewrite D, I, L. f_equal.
  Qed.

  (* ---------------- one iteration of decodeBatch on a whole record ---------------- *)
  Lemma decode_loop_S A f data (fn : A -> Z -> bidx -> cbres A) i o a :
    decode_loop p (S f) data fn i o a =
    if (o <? zlen data)%Z then
      match zget data o with
      | None => DPanic
      | Some kt =>
          if keyTypeVal p <? kt then DErr (EBadType kt) a else
          match zdrop data (o + 1)%Z with
          | None => DPanic
          | Some rest =>
              match uvarint rest with
              | UvShort | UvOver _ => DErr EKeyLen a
              | UvOk x n =>
                  let o2 := (o + 1 + Z.of_N n)%Z in
                  let kl := int_of_u64 x in
                  let o3 := int64 (o2 + kl) in
                  if (zlen data <? o3)%Z then DErr EKeyLen a else
                  if kt =? keyTypeVal p then
                    match zdrop data o3 with
                    | None => DPanic
                    | Some rest2 =>
                        match uvarint rest2 with
                        | UvShort | UvOver _ => DErr EValLen a
                        | UvOk y m =>
                            let o4 := (o3 + Z.of_N m)%Z in
                            let vl := int_of_u64 y in
                            let o5 := int64 (o4 + vl) in
                            if (zlen data <? o5)%Z then DErr EValLen a else
                            match fn a i (mkidx kt o2 kl o4 vl) with
                            | CbOk a' => decode_loop p f data fn (i + 1)%Z o5 a'
                            | CbErr e a' => DErr e a'
                            | CbPanic => DPanic
                            | CbFuel => DFuel
                            end
                        end
                    end
                  else
                    match fn a i (mkidx kt o2 kl 0%Z 0%Z) with
                    | CbOk a' => decode_loop p f data fn (i + 1)%Z o3 a'
                    | CbErr e a' => DErr e a'
                    | CbPanic => DPanic
                    | CbFuel => DFuel
                    end
              end
          end
      end
    else DOk a.
  Proof. reflexivity. Qed.

  Lemma decode_step A (fn : A -> Z -> bidx -> cbres A) pre r post f i a :
    rec_ok r -> lenN (pre ++ enc_rec p r ++ post) < 2 ^ 63 ->
    decode_loop p (S f) (pre ++ enc_rec p r ++ post) fn i (Z.of_N (lenN pre)) a =
    match fn a i (rec_idx (lenN pre) r) with
    | CbOk a' => decode_loop p f (pre ++ enc_rec p r ++ post) fn (i + 1)%Z (Z.of_N (lenN (pre ++ enc_rec p r))) a'
    | CbErr e a' => DErr e a'
    | CbPanic => DPanic
    | CbFuel => DFuel
    end.
  Proof.
    destruct r as [[kt k] v]. unfold rec_ok. cbn [fst]. intros Hk Hlen.
    pose proof val_lt_256 as H256.
    change (2 ^ 63) with 9223372036854775808 in Hlen.
    set (data := pre ++ enc_rec p (kt, k, v) ++ post) in *.
    assert (Hkt : kt mod 256 = kt) by (apply N.mod_small; lia).
    set (vk := put_uvarint (lenN k)) in *.
    pose proof (put_uvarint_length (lenN k)) as Hvk. fold vk in Hvk.
    set (tailv := if kt =? keyTypeVal p then put_uvarint (lenN v) ++ v else []).
    assert (Edata : data = pre ++ kt :: (vk ++ k ++ tailv ++ post)).
    { unfold data, enc_rec. rewrite Hkt. fold vk. fold tailv. cbn [app]. rewrite <- !app_assoc. reflexivity. }
    assert (Ldata : lenN data = lenN pre + 1 + lenN vk + lenN k + lenN tailv + lenN post).
    { rewrite Edata. rewrite lenN_app, lenN_cons, !lenN_app. lia. }
    rewrite decode_loop_S.
    replace (Z.of_N (lenN pre) <? zlen data)%Z with true by (unfold zlen; lia).
    rewrite Edata at 1. rewrite zget_app.
    replace (keyTypeVal p <? kt) with false by lia.
    (* data[o+1:] *)
    assert (D1 : zdrop data (Z.of_N (lenN pre) + 1)%Z = Some (vk ++ k ++ tailv ++ post)).
    { replace (Z.of_N (lenN pre) + 1)%Z with (Z.of_N (lenN (pre ++ [kt]))) by (rewrite lenN_app, lenN_cons, lenN_nil; lia).
      rewrite Edata. change (pre ++ kt :: (vk ++ k ++ tailv ++ post)) with (pre ++ [kt] ++ (vk ++ k ++ tailv ++ post)).
      rewrite app_assoc. apply zdrop_app. }
    rewrite D1. unfold vk at 1. rewrite uvarint_put by (change (2 ^ 64) with 18446744073709551616; lia).
    fold vk. cbv zeta.
    rewrite int_of_u64_small by (change (2 ^ 63) with 9223372036854775808; lia).
    set (o2 := (Z.of_N (lenN pre) + 1 + Z.of_N (lenN vk))%Z).
    assert (Eo2 : o2 = Z.of_N (lenN pre + 1 + lenN vk)) by (unfold o2; lia).
    rewrite (int64_small (o2 + Z.of_N (lenN k))) by (unfold two63; lia).
    replace (zlen data <? o2 + Z.of_N (lenN k))%Z with false by (unfold zlen; lia).
    unfold rec_idx. fold vk.
    destruct (kt =? keyTypeVal p) eqn:Ekt.
    - (* value record *)
      unfold tailv in *. clear tailv.
      set (vv := put_uvarint (lenN v)) in *.
      pose proof (put_uvarint_length (lenN v)) as Hvv. fold vv in Hvv.
      rewrite lenN_app in Ldata.
      assert (D2 : zdrop data (o2 + Z.of_N (lenN k))%Z = Some (vv ++ v ++ post)).
      { replace (o2 + Z.of_N (lenN k))%Z with (Z.of_N (lenN (pre ++ [kt] ++ vk ++ k)))
          by (rewrite !lenN_app, lenN_cons, lenN_nil; lia).
        rewrite Edata.
        replace (pre ++ kt :: vk ++ k ++ (vv ++ v) ++ post) with ((pre ++ [kt] ++ vk ++ k) ++ (vv ++ v ++ post))
          by (rewrite <- ?app_assoc; cbn [app]; rewrite <- ?app_assoc; reflexivity).
        apply zdrop_app. }
      rewrite D2. unfold vv at 1. rewrite uvarint_put by (change (2 ^ 64) with 18446744073709551616; lia).
      fold vv.
      rewrite int_of_u64_small by (change (2 ^ 63) with 9223372036854775808; lia).
      rewrite (int64_small (o2 + Z.of_N (lenN k) + Z.of_N (lenN vv) + Z.of_N (lenN v))) by (unfold two63; lia).
      replace (zlen data <? o2 + Z.of_N (lenN k) + Z.of_N (lenN vv) + Z.of_N (lenN v))%Z with false by (unfold zlen; lia).
      replace (mkidx kt o2 (Z.of_N (lenN k)) (o2 + Z.of_N (lenN k) + Z.of_N (lenN vv))%Z (Z.of_N (lenN v)))
        with (mkidx kt (Z.of_N (lenN pre + 1 + lenN vk)) (Z.of_N (lenN k))
                    (Z.of_N (lenN pre + 1 + lenN vk + lenN k + lenN vv)) (Z.of_N (lenN v)))
        by (f_equal; lia).
      destruct (fn a i _); try reflexivity.
      f_equal. unfold enc_rec. rewrite Ekt, Hkt. fold vk. fold vv.
      rewrite lenN_app, lenN_cons, !lenN_app. lia.
    - (* a record without value *)
      replace (mkidx kt o2 (Z.of_N (lenN k)) 0 0) with (mkidx kt (Z.of_N (lenN pre + 1 + lenN vk)) (Z.of_N (lenN k)) 0 0)%Z
        by (f_equal; lia).
      destruct (fn a i _); try reflexivity.
      f_equal. unfold enc_rec. rewrite Ekt, Hkt. fold vk.
      rewrite lenN_app, lenN_cons, !lenN_app, lenN_nil. lia.
  Qed.

  (* ---------------- decodeBatch on a whole record list ---------------- *)
  (* the callbacks, in order, starting at record number i *)
  Fixpoint cb_fold {A} (fn : A -> Z -> bidx -> cbres A) (i : Z) (a : A) (ixs : list bidx) : cbres A :=
    match ixs with
    | [] => CbOk a
    | ix :: r =>
        match fn a i ix with
        | CbOk a' => cb_fold fn (i + 1)%Z a' r
        | e => e
        end
    end.

  Lemma decode_recs A (fn : A -> Z -> bidx -> cbres A) recs : forall pre post fuel i a,
    Forall rec_ok recs -> lenN (pre ++ enc_recs p recs ++ post) < 2 ^ 63 ->
    (length recs <= fuel)%nat ->
    decode_loop p fuel (pre ++ enc_recs p recs ++ post) fn i (Z.of_N (lenN pre)) a =
    match cb_fold fn i a (idxs_of (lenN pre) recs) with
    | CbOk a' => decode_loop p (fuel - length recs) (pre ++ enc_recs p recs ++ post) fn
                   (i + Z.of_nat (length recs))%Z (Z.of_N (lenN (pre ++ enc_recs p recs))) a'
    | CbErr e a' => DErr e a'
    | CbPanic => DPanic
    | CbFuel => DFuel
    end.
  Proof.
    induction recs as [|r t IH]; intros pre post fuel i a Hok Hlen Hf.
    - cbn [cb_fold idxs_of length enc_recs map concat app]. rewrite Nat.sub_0_r, Z.add_0_r, app_nil_r. reflexivity.
    - inversion Hok as [|? ? Hr Ht]; subst.
      destruct fuel as [|f]; [cbn in Hf; lia|]. cbn [length] in Hf.
      rewrite enc_recs_cons in *. rewrite <- app_assoc in *.
      rewrite (decode_step A fn pre r (enc_recs p t ++ post) f i a Hr Hlen).
      cbn [idxs_of cb_fold].
      destruct (fn a i (rec_idx (lenN pre) r)) as [a'| | |]; try reflexivity.
      specialize (IH (pre ++ enc_rec p r) post f (i + 1)%Z a' Ht).
      rewrite <- !app_assoc in IH. rewrite IH by (try exact Hlen; lia).
      rewrite lenN_app.
      destruct (cb_fold fn (i + 1)%Z a' (idxs_of (lenN pre + lenN (enc_rec p r)) t)); try reflexivity.
      cbn [length]. replace (S f - S (length t))%nat with (f - length t)%nat by lia.
      replace (i + 1 + Z.of_nat (length t))%Z with (i + Z.of_nat (S (length t)))%Z by lia.
      rewrite !app_assoc. reflexivity.
  Qed.

  Lemma decode_loop_end A (fn : A -> Z -> bidx -> cbres A) data f i a :
    decode_loop p (S f) data fn i (zlen data) a = DOk a.
  Proof. rewrite decode_loop_S. rewrite Z.ltb_irrefl. reflexivity. Qed.

  (* the whole of a record list, nothing after it *)
  Lemma decode_all A (fn : A -> Z -> bidx -> cbres A) recs a :
    Forall rec_ok recs -> lenN (enc_recs p recs) < 2 ^ 63 ->
    decode_loop p (decode_fuel (enc_recs p recs)) (enc_recs p recs) fn 0%Z 0%Z a =
    match cb_fold fn 0%Z a (idxs_of 0 recs) with
    | CbOk a' => DOk a'
    | CbErr e a' => DErr e a'
    | CbPanic => DPanic
    | CbFuel => DFuel
    end.
  Proof.
    intros Hok Hlen.
    pose proof (decode_recs A fn recs [] [] (decode_fuel (enc_recs p recs)) 0%Z a Hok) as H.
    cbn [app lenN length N.of_nat] in H. rewrite app_nil_r in H.
    pose proof (enc_recs_len recs) as Hl.
    assert (Hf : (length recs < decode_fuel (enc_recs p recs))%nat).
    { unfold decode_fuel. unfold lenN in Hl. lia. }
    change (Z.of_N 0) with 0%Z in H. rewrite H by (try exact Hlen; lia).
    destruct (cb_fold fn 0%Z a (idxs_of 0 recs)); try reflexivity.
    destruct (decode_fuel (enc_recs p recs) - length recs)%nat as [|f] eqn:E; [lia|].
    apply decode_loop_end.
  Qed.

  (* Batch.decode's callback collects the index *)
  Lemma decode_cb_fold ixs : forall i b,
    cb_fold decode_cb i b ixs =
    CbOk (mkbatch (b_data b) (b_index b ++ ixs)
                  (fold_left (fun z ix => int64 (z + (bi_klen ix + bi_vlen ix + 8))%Z) ixs (b_ilen b))).
  Proof.
    induction ixs as [|ix r IH]; intros i b; cbn [cb_fold fold_left].
    - rewrite app_nil_r. destruct b; reflexivity.
    - unfold decode_cb at 1. rewrite IH. cbn [b_data b_index b_ilen]. rewrite <- app_assoc. reflexivity.
  Qed.

  Lemma ilen_fold recs : forall o z,
    (0 <= z)%Z -> (z + ilen_of recs < two63)%Z ->
    fold_left (fun z ix => int64 (z + (bi_klen ix + bi_vlen ix + 8))%Z) (idxs_of o recs) z = (z + ilen_of recs)%Z.
  Proof.
    induction recs as [|[[kt k] v] t IH]; intros o z Hz Hb; cbn [idxs_of fold_left ilen_of] in *; [lia|].
    assert (E : (bi_klen (rec_idx o (kt, k, v)) + bi_vlen (rec_idx o (kt, k, v)) + 8 =
                 Z.of_N (lenN k) + (if (kt =? keyTypeVal p)%N then Z.of_N (lenN v) else 0) + 8)%Z).
    { unfold rec_idx. destruct (kt =? keyTypeVal p); cbn [bi_klen bi_vlen]; lia. }
    rewrite E.
    assert (Hnn : (0 <= ilen_of t)%Z).
    { clear. induction t as [|[[a b] c] t IH]; cbn [ilen_of]; [lia|]. destruct (a =? keyTypeVal p); lia. }
    rewrite int64_small by (unfold two63 in *; destruct (kt =? keyTypeVal p); lia).
    rewrite IH by (destruct (kt =? keyTypeVal p); lia). lia.
  Qed.

  Lemma ilen_of_bound recs : (0 <= ilen_of recs <= 9 * Z.of_N (lenN (enc_recs p recs)))%Z.
  Proof.
    induction recs as [|[[kt k] v] t IH]; [cbn; lia|].
    rewrite enc_recs_cons, lenN_app. cbn [ilen_of]. unfold enc_rec.
    rewrite lenN_cons, !lenN_app.
    pose proof (put_uvarint_length (lenN k)). 
    destruct (kt =? keyTypeVal p); rewrite ?lenN_app, ?lenN_nil; pose proof (put_uvarint_length (lenN v)); lia.
  Qed.

  (* ---------------- C01_batch_roundtrip ---------------- *)
  (* Load(Dump(b)) rebuilds b — data, index and internalLen — for every batch built by Put/Delete/appendRec
     calls; its records are the ones written (a record that is not a value record has no value) *)
  Theorem load_dump recs :
    Forall rec_ok recs -> lenN (enc_recs p recs) < 2 ^ 59 ->
    batch_load p (batch_dump (batch_of p recs)) = DOk (batch_of p recs).
  Proof.
    intros Hok Hlen. rewrite batch_of_spec. unfold batch_dump, batch_load, batch_decode. cbn [b_data].
    assert (Hlen' : lenN (enc_recs p recs) < 2 ^ 63).
    { change (2 ^ 59) with 576460752303423488 in Hlen. change (2 ^ 63) with 9223372036854775808. lia. }
    rewrite (decode_all batch decode_cb recs _ Hok Hlen').
    rewrite decode_cb_fold. cbn [b_data b_index b_ilen app].
    pose proof (ilen_of_bound recs) as Hb.
    rewrite ilen_fold by (unfold two63; change (2 ^ 59) with 576460752303423488 in Hlen; lia).
    replace ((0 <=? -1) && negb (Z.of_nat (length (idxs_of 0 recs)) =? -1))%Z with false by lia.
    rewrite Z.add_0_l. reflexivity.
  Qed.

  Lemma idx_k_rec pre kt k v post :
    rec_ok (kt, k, v) -> lenN (pre ++ enc_rec p (kt, k, v) ++ post) < 2 ^ 63 ->
    idx_k (pre ++ enc_rec p (kt, k, v) ++ post) (rec_idx (lenN pre) (kt, k, v)) = Some k /\
    idx_v (pre ++ enc_rec p (kt, k, v) ++ post) (rec_idx (lenN pre) (kt, k, v)) =
      Some (if kt =? keyTypeVal p then v else []).
  Proof.
    unfold rec_ok. cbn [fst]. intros Hk Hlen. pose proof val_lt_256 as H256.
    change (2 ^ 63) with 9223372036854775808 in Hlen.
    assert (Hkt : kt mod 256 = kt) by (apply N.mod_small; lia).
    unfold enc_rec, rec_idx, idx_k, idx_v in *. rewrite Hkt in *.
    set (vk := put_uvarint (lenN k)) in *.
    destruct (kt =? keyTypeVal p) eqn:Ekt; cbn [bi_kpos bi_klen bi_vpos bi_vlen].
    - set (vv := put_uvarint (lenN v)) in *.
      assert (Hlen2 := Hlen). rewrite lenN_app, lenN_app, lenN_cons, !lenN_app in Hlen2.
      rewrite !int64_small by (unfold two63; lia).
      split.
      + replace (pre ++ (kt :: vk ++ k ++ vv ++ v) ++ post) with ((pre ++ kt :: vk) ++ k ++ (vv ++ v ++ post))
          by (rewrite <- ?app_assoc; cbn [app]; rewrite <- ?app_assoc; reflexivity).
        replace (Z.of_N (lenN pre + 1 + lenN vk)) with (Z.of_N (lenN (pre ++ kt :: vk)))
          by (rewrite lenN_app, lenN_cons; lia).
        replace (Z.of_N (lenN (pre ++ kt :: vk)) + Z.of_N (lenN k))%Z with (Z.of_N (lenN (pre ++ kt :: vk) + lenN k)) by lia.
        apply zslice_app3.
      + destruct (Z.of_N (lenN v) =? 0)%Z eqn:Ev.
        * f_equal. assert (lenN v = 0) by lia. symmetry. apply lenN_0. assumption.
        * replace (pre ++ (kt :: vk ++ k ++ vv ++ v) ++ post) with ((pre ++ kt :: vk ++ k ++ vv) ++ v ++ post)
            by (rewrite <- ?app_assoc; cbn [app]; rewrite <- ?app_assoc; reflexivity).
          replace (Z.of_N (lenN pre + 1 + lenN vk + lenN k + lenN vv)) with (Z.of_N (lenN (pre ++ kt :: vk ++ k ++ vv)))
            by (rewrite lenN_app, lenN_cons, !lenN_app; lia).
          replace (Z.of_N (lenN (pre ++ kt :: vk ++ k ++ vv)) + Z.of_N (lenN v))%Z
            with (Z.of_N (lenN (pre ++ kt :: vk ++ k ++ vv) + lenN v)) by lia.
          apply zslice_app3.
    - assert (Hlen2 := Hlen). rewrite lenN_app, lenN_app, lenN_cons, !lenN_app in Hlen2.
      rewrite !int64_small by (unfold two63; lia).
      split; [|reflexivity].
      replace (pre ++ (kt :: vk ++ k ++ []) ++ post) with ((pre ++ kt :: vk) ++ k ++ post)
        by (rewrite <- ?app_assoc; cbn [app]; rewrite <- ?app_assoc; reflexivity).
      replace (Z.of_N (lenN pre + 1 + lenN vk)) with (Z.of_N (lenN (pre ++ kt :: vk)))
        by (rewrite lenN_app, lenN_cons; lia).
      replace (Z.of_N (lenN (pre ++ kt :: vk)) + Z.of_N (lenN k))%Z with (Z.of_N (lenN (pre ++ kt :: vk) + lenN k)) by lia.
      apply zslice_app3.
  Qed.

  Lemma idx_records_recs recs : forall pre post,
    Forall rec_ok recs -> lenN (pre ++ enc_recs p recs ++ post) < 2 ^ 63 ->
    idx_records (pre ++ enc_recs p recs ++ post) (idxs_of (lenN pre) recs) = Some (map (norm_rec p) recs).
  Proof.
    induction recs as [|[[kt k] v] t IH]; intros pre post Hok Hlen; [reflexivity|].
    inversion Hok as [|? ? Hr Ht]; subst.
    cbn [idxs_of idx_records map]. rewrite enc_recs_cons in *. rewrite <- app_assoc in *.
    destruct (idx_k_rec pre kt k v (enc_recs p t ++ post) Hr Hlen) as [Ek Ev].
    rewrite Ek, Ev. cbn [bi_kt].
    specialize (IH (pre ++ enc_rec p (kt, k, v)) post Ht).
    rewrite <- !app_assoc in IH. rewrite (lenN_app pre (enc_rec p (kt, k, v))) in IH. rewrite IH by exact Hlen.
    cbn [option_map norm_rec]. f_equal. f_equal. f_equal.
    unfold rec_idx. destruct (kt =? keyTypeVal p); reflexivity.
  Qed.

  Theorem batch_roundtrip recs :
    Forall rec_ok recs -> lenN (enc_recs p recs) < 2 ^ 59 ->
    exists b, batch_load p (batch_dump (batch_of p recs)) = DOk b /\
              batch_records b = Some (map (norm_rec p) recs) /\
              batch_len b = N.of_nat (length recs).
  Proof.
    intros Hok Hlen. exists (batch_of p recs). split; [apply load_dump; assumption|].
    rewrite batch_of_spec. unfold batch_records, batch_len. cbn [b_data b_index].
    assert (Hlen' : lenN (enc_recs p recs) < 2 ^ 63).
    { change (2 ^ 59) with 576460752303423488 in Hlen. change (2 ^ 63) with 9223372036854775808. lia. }
    split.
    - pose proof (idx_records_recs recs [] [] Hok) as H. cbn [app lenN length N.of_nat] in H.
      rewrite app_nil_r in H. apply H. exact Hlen'.
    - unfold lenN. f_equal. clear. generalize 0. induction recs as [|r t IH]; intros o; cbn [idxs_of length]; [reflexivity|].
      f_equal. apply IH.
  Qed.
End Proofs.
