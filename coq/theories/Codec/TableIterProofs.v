(* Codec/TableIterProofs.v — Stage B: the table iterator (indexedIterator over indexIter and the
   data-block iterators) refines the reference cursor over the concatenation of the blocks, for
   arbitrary First/Last/Seek/Next/Prev sequences — unsliced iterator (NewIterator(nil, ro)), for
   both settings of the strict flag. *)
From GL Require Import Base.Bytes Base.BytesProofs Base.Varint Base.VarintProofs Base.Order Base.OrderProofs
  Base.Cursor Base.CursorProofs Codec.Block Codec.BlockEnc Codec.BlockProofs Codec.Table Codec.TableProofs.
From Coq Require Import Arith ZArith Lia ZifyN ZifyNat ZifyBool.

Local Open Scope N_scope.

Section TableIter.
  Variable c : comparer.
  Hypothesis c_ok : comparer_ok c.
  Variable rd : treader.
  Variable blocks : list (list (bytes * bytes)).
  Variable seps : list bytes.
  Variable hs : list bhandle.
  Hypothesis wf : table_wf c rd blocks seps hs.

  (* the index block and its layout, fixed once *)
  Variable ib : block.
  Variable ioff : nat -> N.
  Variable iris : list nat.
  Hypothesis Eib : tr_index rd = Ok ib.
  Hypothesis ilay : block_layout (ientries seps hs) ib ioff iris.

  Local Notation m := (length blocks).
  Local Notation blk j := (nth j blocks []).
  Local Notation hj j := (nth j hs bh0).
  Local Notation ient := (ientries seps hs).
  Local Notation kvs := (tkvs blocks).
  Local Notation irep := (rep ient ib ioff iris).

  (* ---------------- global positions ---------------- *)
  Definition before (j : nat) : nat := length (concat (firstn j blocks)).

  Lemma before_0 : before 0 = 0%nat.
  Proof. reflexivity. Qed.

  Lemma before_S j : (j < m)%nat -> before (S j) = (before j + length (blk j))%nat.
  Proof.
    intros H. unfold before. rewrite (firstn_S_nth blocks j [] H), concat_app, app_length.
    cbn [concat]. rewrite app_nil_r. reflexivity.
  Qed.

  Lemma before_all : before m = length kvs.
  Proof. unfold before, tkvs. rewrite firstn_all. reflexivity. Qed.

  Lemma before_mono j j' : (j <= j')%nat -> (j' <= m)%nat -> (before j <= before j')%nat.
  Proof.
    intros H1 H2. induction j' as [|j' IH]; [assert (j = 0%nat) by lia; subst; lia|].
    destruct (Nat.eq_dec j (S j')) as [->|]; [lia|].
    rewrite before_S by lia. specialize (IH ltac:(lia) ltac:(lia)). lia.
  Qed.

  Lemma gpos_lt j i : (j < m)%nat -> (i < length (blk j))%nat -> (before j + i < length kvs)%nat.
  Proof.
    intros Hj Hi. rewrite <- before_all. pose proof (before_S j Hj).
    pose proof (before_mono (S j) m ltac:(lia) ltac:(lia)). lia.
  Qed.

  Lemma gpos_nth j i : (j < m)%nat -> (i < length (blk j))%nat ->
    nth_error kvs (before j + i) = nth_error (blk j) i.
  Proof.
    intros Hj Hi. unfold tkvs, before. rewrite (concat_split blocks j Hj).
    rewrite nth_error_app2 by lia.
    replace (length (concat (firstn j blocks)) + i - length (concat (firstn j blocks)))%nat with i by lia.
    apply nth_error_app1. exact Hi.
  Qed.

  Lemma kvs_empty_iff : kvs = [] <-> blocks = [[]].
  Proof.
    split.
    - intros E. destruct (twf_blocks_ne _ _ _ _ _ wf) as [H|H]; [|exact H]. exfalso.
      pose proof (twf_m _ _ _ _ _ wf) as Hm.
      pose proof (H 0%nat Hm) as Hne. pose proof (gpos_lt 0 0 Hm) as Hl.
      destruct (blk 0) eqn:Eb; [congruence|]. cbn [length] in Hl. rewrite E in Hl. cbn in Hl. lia.
    - intros ->. reflexivity.
  Qed.

  (* ---------------- representation invariant ---------------- *)
  Definition fresh_at (t : titer) (j : nat) : Prop :=
    exists bj off ris, ti_data t = Some (DBlock (bi_unsliced bj)) /\ block_layout (blk j) bj off ris.

  Definition trep (t : titer) (p : cpos) : Prop :=
    ti_err t = None /\ ti_slice t = None /\
    match p with
    | CSOI => ti_data t = None /\ irep (ti_index t) CSOI
    | CEOI => ti_data t = None /\ irep (ti_index t) CEOI
    | CAt g =>
        exists j i d bj off ris,
          g = (before j + i)%nat /\ (j < m)%nat /\ (i < length (blk j))%nat /\
          irep (ti_index t) (CAt j) /\ ti_data t = Some (DBlock d) /\
          block_layout (blk j) bj off ris /\ rep (blk j) bj off ris d (CAt i)
    end.

  Lemma irep_noerr ix p : irep ix p -> bi_err ix = None.
  Proof. intros R. apply rep_slice_full in R. apply R. Qed.

  (* indexIter.Get at index position j, no slice *)
  Lemma index_get_at t j : irep (ti_index t) (CAt j) -> ti_slice t = None ->
    exists bj off ris, index_get c rd t = Some (DBlock (bi_unsliced bj)) /\ block_layout (blk j) bj off ris.
  Proof.
    intros R Hsl. unfold index_get.
    pose proof R as (Hj & Hs & Hd & Hk & Hv & _).
    rewrite (ient_len c rd blocks seps hs wf) in Hj.
    assert (Hvalid : bi_valid (ti_index t) = true).
    { unfold bi_valid. rewrite (has_err_false _ _ Hs).
      destruct Hd as [-> | ->]; reflexivity. }
    rewrite Hvalid. cbn [negb].
    rewrite Hv, (ient_val c rd blocks seps hs wf j Hj).
    destruct (twf_handles _ _ _ _ _ wf j Hj) as [Ho Hl]. rewrite (decode_encode_bh _ Ho Hl).
    rewrite Hsl.
    destruct (twf_fetch _ _ _ _ _ wf j Hj) as (bj & Ef & (off & ris & lay)). rewrite Ef.
    exists bj, off, ris. split; [reflexivity | exact lay].
  Qed.

  Lemma set_data_fresh t j : irep (ti_index t) (CAt j) -> ti_slice t = None ->
    fresh_at (ti_set_data c rd t) j.
  Proof.
    intros R Hsl. destruct (index_get_at t j R Hsl) as (bj & off & ris & E & lay).
    exists bj, off, ris. unfold ti_set_data. cbn [ti_with ti_data]. split; assumption.
  Qed.

  (* ---------------- Next ---------------- *)
  (* Next on a freshly opened block j *)
  Lemma next_fresh fuel t j : (2 <= fuel)%nat ->
    ti_err t = None -> ti_slice t = None -> irep (ti_index t) (CAt j) -> fresh_at t j ->
    exists ok t', ti_next_f c rd fuel t = (ok, t') /\
      match blk j with
      | [] => ok = false /\ trep t' CEOI
      | _ => ok = true /\ trep t' (CAt (before j))
      end.
  Proof.
    intros Hf He Hsl R (bj & off & ris & Ed & lay).
    pose proof R as (Hj & _). rewrite (ient_len c rd blocks seps hs wf) in Hj.
    destruct fuel as [|fu]; [lia|]. cbn [ti_next_f].
    unfold ti_has_err. rewrite He, Ed. cbn [d_lift].
    destruct (next_step (blk j) bj off ris lay (bi_unsliced bj) CSOI (rep_unsliced _ _ _ _)) as (ok & d' & E & R' & Eok).
    rewrite E. cbn [c_next] in R', Eok. unfold c_first in R', Eok.
    destruct (blk j) as [|kv0 r0] eqn:Eb.
    - subst ok. unfold ti_data_err. cbn [ti_with ti_data d_err].
      pose proof R' as ((_ & Ee & _) & _). rewrite Ee.
      (* the only table with an empty block has exactly that block *)
      assert (Hm1 : blocks = [[]]).
      { destruct (twf_blocks_ne _ _ _ _ _ wf) as [H|H]; [exfalso; apply (H j Hj); exact Eb | exact H]. }
      unfold ti_advance. cbn [ti_clear_data ti_with ti_index ti_data ti_err].
      destruct (next_step ient ib ioff iris ilay (ti_index t) (CAt j) R) as (ok3 & ix & E3 & R3 & Eok3).
      rewrite E3. cbn [c_next] in R3, Eok3. rewrite (ient_len c rd blocks seps hs wf) in R3, Eok3.
      assert (Hj0 : j = 0%nat) by (rewrite Hm1 in Hj; cbn in Hj; lia). subst j.
      rewrite Hm1 in R3, Eok3. cbn [length Nat.ltb Nat.leb] in R3, Eok3. subst ok3. cbn [negb].
      eexists. eexists. split; [reflexivity|]. split; [reflexivity|].
      unfold ti_index_err. cbn [ti_with ti_index]. rewrite (irep_noerr ix CEOI R3).
      split; [reflexivity|]. split; [exact Hsl|]. split; [reflexivity | exact R3].
    - subst ok. eexists. eexists. split; [reflexivity|]. split; [reflexivity|].
      split; [first [exact He | reflexivity]|]. split; [first [exact Hsl | reflexivity]|].
      exists j, 0%nat, d', bj, off, ris. rewrite Eb. cbn [length].
      split; [lia|]. split; [exact Hj|]. split; [lia|]. split; [exact R|]. split; [reflexivity|]. split; [exact lay | exact R'].
  Qed.

  Lemma advance_spec fu t j0 : (2 <= fu)%nat ->
    ti_err t = None -> ti_slice t = None -> ti_data t = None ->
    irep (ti_index t) j0 ->
    exists ok t', ti_advance c rd (ti_next_f c rd fu) t = (ok, t') /\
      match c_next ient j0 with
      | CAt j' => match blk j' with
                  | [] => ok = false /\ trep t' CEOI
                  | _ => ok = true /\ trep t' (CAt (before j'))
                  end
      | _ => ok = false /\ trep t' CEOI
      end.
  Proof.
    intros Hf He Hsl Hd R. unfold ti_advance.
    destruct (next_step ient ib ioff iris ilay (ti_index t) j0 R) as (ok & ix & E & R' & Eok). rewrite E.
    destruct (c_next ient j0) as [|j'|] eqn:En.
    - (* c_next never yields SOI *)
      exfalso. destruct j0 as [|j|]; cbn [c_next] in En; [unfold c_first in En; destruct ient; discriminate | destruct (Nat.ltb (S j) (length ient)); discriminate | discriminate].
    - subst ok. cbn [negb].
      set (t1 := ti_with t ix (ti_data t) (ti_err t)).
      assert (F : fresh_at (ti_set_data c rd t1) j') by (apply set_data_fresh; [exact R' | exact Hsl]).
      apply (next_fresh fu (ti_set_data c rd t1) j' Hf); try assumption.
    - subst ok. cbn [negb]. eexists. eexists. split; [reflexivity|]. split; [reflexivity|].
      unfold ti_index_err. cbn [ti_with ti_index]. rewrite (irep_noerr ix CEOI R').
      split; [first [exact He | reflexivity]|]. split; [first [exact Hsl | reflexivity]|]. split; [exact Hd | exact R'].
  Qed.

  Lemma tnext_nodata t j0 :
    ti_err t = None -> ti_slice t = None -> ti_data t = None -> irep (ti_index t) j0 ->
    exists ok t', ti_next c rd t = (ok, t') /\
      match c_next ient j0 with
      | CAt j' => match blk j' with
                  | [] => ok = false /\ trep t' CEOI
                  | _ => ok = true /\ trep t' (CAt (before j'))
                  end
      | _ => ok = false /\ trep t' CEOI
      end.
  Proof.
    intros He Hsl Hd R. unfold ti_next, ti_fuel.
    assert (H2 : (2 <= S (bi_fuel (ti_index t)))%nat) by (unfold bi_fuel; lia).
    revert H2. generalize (S (bi_fuel (ti_index t))). intros fu H2.
    cbn [ti_next_f]. unfold ti_has_err. rewrite He, Hd.
    apply advance_spec; assumption.
  Qed.

  Lemma c_next_kvs_at j i : (j < m)%nat -> (i < length (blk j))%nat ->
    c_next kvs (CAt (before j + i)) =
    if Nat.ltb (S i) (length (blk j)) then CAt (before j + S i)
    else if Nat.ltb (S j) m then CAt (before (S j)) else CEOI.
  Proof.
    intros Hj Hi. cbn [c_next].
    pose proof (before_S j Hj) as HS.
    destruct (Nat.ltb_spec (S i) (length (blk j))) as [L|L].
    - pose proof (gpos_lt j (S i) Hj L). replace (Nat.ltb (S (before j + i)) (length kvs)) with true by (symmetry; apply Nat.ltb_lt; lia).
      f_equal. lia.
    - assert (Ei : S (before j + i) = before (S j)) by lia. rewrite Ei.
      destruct (Nat.ltb_spec (S j) m) as [L2|L2].
      + pose proof (blk_ne c rd blocks seps hs wf (S j) ltac:(lia) L2) as Hne.
        pose proof (gpos_lt (S j) 0 L2 ltac:(destruct (blk (S j)); [congruence | cbn; lia])) as Hl.
        replace (Nat.ltb (before (S j)) (length kvs)) with true by (symmetry; apply Nat.ltb_lt; lia). reflexivity.
      + assert (S j = m) by lia. rewrite H, before_all. rewrite Nat.ltb_irrefl. reflexivity.
  Qed.

  Lemma tnext_spec fuel t p : (3 <= fuel)%nat -> trep t p ->
    exists ok t', ti_next_f c rd fuel t = (ok, t') /\ trep t' (c_next kvs p) /\
                  ok = match c_next kvs p with CAt _ => true | _ => false end.
  Proof.
    intros Hf (He & Hsl & R). destruct fuel as [|fu]; [lia|]. cbn [ti_next_f].
    unfold ti_has_err. rewrite He.
    pose proof (twf_m _ _ _ _ _ wf) as Hm.
    destruct p as [|g|].
    - (* from SOI *)
      destruct R as [Hd R]. rewrite Hd.
      destruct (advance_spec fu t CSOI ltac:(lia) He Hsl Hd R) as (ok & t' & E & Hres). rewrite E.
      cbn [c_next] in Hres. unfold c_first in Hres.
      assert (Hil : length ient = m) by (apply (ient_len c rd blocks seps hs wf)).
      destruct ient as [|e0 er] eqn:Ei; [cbn in Hil; lia|].
      exists ok, t'. split; [reflexivity|].
      cbn [c_next]. unfold c_first.
      destruct (blk 0) as [|kv0 r0] eqn:Eb.
      + destruct Hres as [-> Ht].
        assert (Hk : kvs = []).
        { apply kvs_empty_iff. destruct (twf_blocks_ne _ _ _ _ _ wf) as [H|H]; [exfalso; apply (H 0%nat Hm); exact Eb | exact H]. }
        rewrite Hk. auto.
      + destruct Hres as [-> Ht].
        destruct kvs as [|k0 kr] eqn:Ek.
        * exfalso. apply kvs_empty_iff in Ek. rewrite Ek in Eb. cbn in Eb. discriminate.
        * rewrite before_0 in Ht. auto.
    - (* from an entry *)
      destruct R as (j & i & d & bj & off & ris & Eg & Hj & Hi & Ri & Ed & lay & Rd). subst g.
      rewrite Ed. cbn [d_lift].
      destruct (next_step (blk j) bj off ris lay d (CAt i) Rd) as (ok & d' & E & R' & Eok). rewrite E.
      rewrite (c_next_kvs_at j i Hj Hi). cbn [c_next] in R', Eok.
      destruct (Nat.ltb (S i) (length (blk j))) eqn:Eli.
      + subst ok. eexists. eexists. split; [reflexivity|]. split; [|reflexivity].
        split; [first [exact He | reflexivity]|]. split; [first [exact Hsl | reflexivity]|].
        exists j, (S i), d', bj, off, ris. apply Nat.ltb_lt in Eli.
        split; [lia|]. split; [exact Hj|]. split; [exact Eli|]. split; [exact Ri|]. split; [reflexivity|]. split; [exact lay | exact R'].
      + subst ok. unfold ti_data_err. cbn [ti_with ti_data d_err].
        pose proof R' as ((_ & Ee & _) & _). rewrite Ee.
        assert (Hne : blk j <> []) by (destruct (blk j); [cbn in Hi; lia | discriminate]).
        destruct (advance_spec fu (ti_clear_data (ti_with t (ti_index t) (Some (DBlock d')) None)) (CAt j) ltac:(lia) eq_refl Hsl eq_refl Ri)
          as (ok2 & t' & E2 & Hres). rewrite E2.
        cbn [c_next] in Hres. rewrite (ient_len c rd blocks seps hs wf) in Hres.
        exists ok2, t'. split; [reflexivity|].
        destruct (Nat.ltb_spec (S j) m) as [L|L].
        * pose proof (blk_ne c rd blocks seps hs wf (S j) ltac:(lia) L) as Hne2.
          destruct (blk (S j)); [congruence|]. destruct Hres as [-> Ht]. auto.
        * destruct Hres as [-> Ht]. auto.
    - (* at EOI *)
      destruct R as [Hd R]. rewrite Hd.
      destruct (advance_spec fu t CEOI ltac:(lia) He Hsl Hd R) as (ok & t' & E & Hres). rewrite E.
      cbn [c_next] in Hres. destruct Hres as [-> Ht]. exists false, t'. cbn [c_next]. auto.
  Qed.

  (* ---------------- First / Last on a block iterator ---------------- *)
  Lemma last_step l b off ris (lay : block_layout l b off ris) it p : rep l b off ris it p ->
    exists ok it', bi_last it = (ok, it') /\ rep l b off ris it' (c_last l) /\
                   ok = match c_last l with CAt _ => true | _ => false end.
  Proof.
    intros R. pose proof (rep_slice_full _ _ _ _ it p R) as Hs.
    unfold bi_last. rewrite (has_err_false _ _ Hs).
    apply (prev_step l b off ris lay (bi_with_dir it DEOI) CEOI). split; [exact Hs | reflexivity].
  Qed.

  Lemma first_step l b off ris (lay : block_layout l b off ris) it p : rep l b off ris it p ->
    exists ok it', bi_first it = (ok, it') /\ rep l b off ris it' (c_first l) /\
                   ok = match c_first l with CAt _ => true | _ => false end.
  Proof.
    intros R. pose proof (rep_slice_full _ _ _ _ it p R) as Hs.
    unfold bi_first. rewrite (has_err_false _ _ Hs).
    apply (next_step l b off ris lay (bi_with_dir it DSOI) CSOI). split; [exact Hs | reflexivity].
  Qed.

  (* ---------------- Prev ---------------- *)
  (* go to the last entry of a freshly opened block j *)
  Lemma enter_last_fresh self t j :
    ti_err t = None -> ti_slice t = None -> irep (ti_index t) (CAt j) -> fresh_at t j ->
    match blk j with
    | [] => exists t'', ti_enter bi_last self t = self t'' /\ ti_err t'' = None /\ ti_slice t'' = None /\
                        ti_data t'' = None /\ ti_index t'' = ti_index t
    | _ => exists t', ti_enter bi_last self t = (true, t') /\ trep t' (CAt (before j + (length (blk j) - 1)))
    end.
  Proof.
    intros He Hsl R (bj & off & ris & Ed & lay).
    pose proof R as (Hj & _). rewrite (ient_len c rd blocks seps hs wf) in Hj.
    unfold ti_enter. rewrite Ed. cbn [d_lift].
    destruct (last_step (blk j) bj off ris lay (bi_unsliced bj) CSOI (rep_unsliced _ _ _ _)) as (ok & d' & E & R' & Eok).
    rewrite E. unfold c_last in R', Eok.
    destruct (blk j) as [|kv0 r0] eqn:Eb.
    - subst ok. unfold ti_data_err. cbn [ti_with ti_data d_err].
      pose proof R' as ((_ & Ee & _) & _). rewrite Ee.
      eexists. split; [reflexivity|]. cbn [ti_clear_data ti_with ti_err ti_slice ti_data ti_index]. auto.
    - subst ok. eexists. split; [reflexivity|].
      split; [exact He|]. split; [exact Hsl|].
      exists j, (length (kv0 :: r0) - 1)%nat, d', bj, off, ris. rewrite Eb.
      split; [reflexivity|]. split; [exact Hj|]. split; [cbn [length]; lia|]. split; [exact R|].
      split; [reflexivity|]. split; [exact lay | exact R'].
  Qed.

  Lemma retreat_none fu t : ti_err t = None -> ti_slice t = None -> ti_data t = None ->
    irep (ti_index t) (CAt 0) \/ irep (ti_index t) CSOI ->
    exists t', ti_retreat c rd (ti_prev_f c rd fu) t = (false, t') /\ trep t' CSOI.
  Proof.
    intros He Hsl Hd R. unfold ti_retreat.
    assert (exists ix, bi_prev (ti_index t) = (false, ix) /\ irep ix CSOI) as (ix & E & R').
    { destruct R as [R|R].
      - destruct (prev_step ient ib ioff iris ilay (ti_index t) (CAt 0) R) as (ok & ix & E & R' & Eok).
        cbn [c_prev] in R', Eok. subst ok. eauto.
      - destruct (prev_step ient ib ioff iris ilay (ti_index t) CSOI R) as (ok & ix & E & R' & Eok).
        cbn [c_prev] in R', Eok. subst ok. eauto. }
    rewrite E. cbn [negb]. eexists. split; [reflexivity|].
    unfold ti_index_err. cbn [ti_with ti_index]. rewrite (irep_noerr ix CSOI R').
    split; [exact He|]. split; [exact Hsl|]. split; [exact Hd | exact R'].
  Qed.

  (* retreat from index position j0 (data already dropped) *)
  Lemma retreat_spec fu t j0 : (1 <= fu)%nat ->
    ti_err t = None -> ti_slice t = None -> ti_data t = None -> irep (ti_index t) j0 ->
    exists ok t', ti_retreat c rd (ti_prev_f c rd fu) t = (ok, t') /\
      match c_prev ient j0 with
      | CAt j' => match blk j' with
                  | [] => ok = false /\ trep t' CSOI
                  | _ => ok = true /\ trep t' (CAt (before j' + (length (blk j') - 1)))
                  end
      | _ => ok = false /\ trep t' CSOI
      end.
  Proof.
    intros Hf He Hsl Hd R.
    destruct (c_prev ient j0) as [|j'|] eqn:Ep.
    - assert (R0 : irep (ti_index t) (CAt 0) \/ irep (ti_index t) CSOI).
      { destruct j0 as [|j|]; cbn [c_prev] in Ep; [right; exact R | destruct j; [left; exact R | discriminate] |].
        unfold c_last in Ep. pose proof (ient_len c rd blocks seps hs wf) as Hl. pose proof (twf_m _ _ _ _ _ wf).
        destruct ient; [cbn in Hl; lia | discriminate]. }
      destruct (retreat_none fu t He Hsl Hd R0) as (t' & E & Ht). exists false, t'. auto.
    - unfold ti_retreat.
      destruct (prev_step ient ib ioff iris ilay (ti_index t) j0 R) as (ok & ix & E & R' & Eok). rewrite E.
      rewrite Ep in R', Eok. subst ok. cbn [negb].
      set (t1 := ti_with t ix (ti_data t) (ti_err t)).
      assert (F : fresh_at (ti_set_data c rd t1) j') by (apply set_data_fresh; [exact R' | exact Hsl]).
      pose proof (enter_last_fresh (ti_prev_f c rd fu) (ti_set_data c rd t1) j' He Hsl R' F) as HE.
      destruct (blk j') as [|kv0 r0] eqn:Eb.
      + destruct HE as (t'' & E2 & He2 & Hsl2 & Hd2 & Hix2). rewrite E2.
        (* only the empty table: j' = 0, and the index steps back to SOI *)
        pose proof R' as (Hj' & _). rewrite (ient_len c rd blocks seps hs wf) in Hj'.
        assert (Hm1 : blocks = [[]]).
        { destruct (twf_blocks_ne _ _ _ _ _ wf) as [H|H]; [exfalso; apply (H j' Hj'); exact Eb | exact H]. }
        assert (j' = 0%nat) by (rewrite Hm1 in Hj'; cbn in Hj'; lia). subst j'.
        destruct fu as [|fu']; [lia|]. cbn [ti_prev_f]. unfold ti_has_err. rewrite He2, Hd2.
        assert (R0 : irep (ti_index t'') (CAt 0) \/ irep (ti_index t'') CSOI).
        { left. rewrite Hix2. exact R'. }
        destruct (retreat_none fu' t'' He2 Hsl2 Hd2 R0) as (t' & E3 & Ht). rewrite E3. exists false, t'. auto.
      + destruct HE as (t' & E2 & Ht). rewrite E2. exists true, t'. auto.
    - exfalso. destruct j0 as [|j|]; cbn [c_prev] in Ep; [discriminate | destruct j; discriminate |].
      unfold c_last in Ep. destruct ient; discriminate.
  Qed.

  Lemma c_prev_kvs_at j i : (j < m)%nat -> (i < length (blk j))%nat ->
    c_prev kvs (CAt (before j + i)) =
    match i with
    | S i' => CAt (before j + i')
    | O => match j with
           | S j' => CAt (before j' + (length (blk j') - 1))
           | O => CSOI
           end
    end.
  Proof.
    intros Hj Hi. cbn [c_prev]. destruct i as [|i'].
    - rewrite Nat.add_0_r. destruct j as [|j']; [reflexivity|].
      pose proof (before_S j' ltac:(lia)) as HS.
      pose proof (blk_ne c rd blocks seps hs wf j' ltac:(lia) ltac:(lia)) as Hne.
      assert (0 < length (blk j'))%nat by (destruct (blk j'); [congruence | cbn; lia]).
      replace (before (S j')) with (S (before j' + (length (blk j') - 1))) by lia. reflexivity.
    - replace (before j + S i')%nat with (S (before j + i')) by lia. reflexivity.
  Qed.

  Lemma tprev_spec fuel t p : (3 <= fuel)%nat -> trep t p ->
    exists ok t', ti_prev_f c rd fuel t = (ok, t') /\ trep t' (c_prev kvs p) /\
                  ok = match c_prev kvs p with CAt _ => true | _ => false end.
  Proof.
    intros Hf (He & Hsl & R). destruct fuel as [|fu]; [lia|]. cbn [ti_prev_f].
    unfold ti_has_err. rewrite He.
    pose proof (twf_m _ _ _ _ _ wf) as Hm.
    assert (Hil : length ient = m) by (apply (ient_len c rd blocks seps hs wf)).
    destruct p as [|g|].
    - (* at SOI *)
      destruct R as [Hd R]. rewrite Hd.
      destruct (retreat_spec fu t CSOI ltac:(lia) He Hsl Hd R) as (ok & t' & E & Hres). rewrite E.
      cbn [c_prev] in Hres. destruct Hres as [-> Ht]. exists false, t'. cbn [c_prev]. auto.
    - (* from an entry *)
      destruct R as (j & i & d & bj & off & ris & Eg & Hj & Hi & Ri & Ed & lay & Rd). subst g.
      rewrite Ed. cbn [d_lift].
      destruct (prev_step (blk j) bj off ris lay d (CAt i) Rd) as (ok & d' & E & R' & Eok). rewrite E.
      rewrite (c_prev_kvs_at j i Hj Hi). cbn [c_prev] in R', Eok.
      destruct i as [|i'].
      + subst ok. unfold ti_data_err. cbn [ti_with ti_data d_err].
        pose proof R' as ((_ & Ee & _) & _). rewrite Ee.
        destruct (retreat_spec fu (ti_clear_data (ti_with t (ti_index t) (Some (DBlock d')) None)) (CAt j) ltac:(lia) eq_refl Hsl eq_refl Ri)
          as (ok2 & t' & E2 & Hres). rewrite E2.
        cbn [c_prev] in Hres. exists ok2, t'. split; [reflexivity|].
        destruct j as [|j'].
        * destruct Hres as [-> Ht]. auto.
        * pose proof (blk_ne c rd blocks seps hs wf j' ltac:(lia) ltac:(lia)) as Hne.
          destruct (blk j') eqn:Eb; [congruence|]. destruct Hres as [-> Ht]. auto.
      + subst ok. eexists. eexists. split; [reflexivity|]. split; [|reflexivity].
        split; [first [exact He | reflexivity]|]. split; [first [exact Hsl | reflexivity]|].
        exists j, i', d', bj, off, ris.
        split; [lia|]. split; [exact Hj|]. split; [lia|]. split; [exact Ri|]. split; [reflexivity|]. split; [exact lay | exact R'].
    - (* from EOI = Last *)
      destruct R as [Hd R]. rewrite Hd.
      destruct (retreat_spec fu t CEOI ltac:(lia) He Hsl Hd R) as (ok & t' & E & Hres). rewrite E.
      cbn [c_prev] in Hres. unfold c_last in Hres. exists ok, t'. split; [reflexivity|].
      cbn [c_prev]. unfold c_last.
      destruct ient as [|e0 er] eqn:Ei; [cbn in Hil; lia|]. rewrite Hil in Hres.
      destruct (blk (m - 1)) as [|kv0 r0] eqn:Eb.
      + destruct Hres as [-> Ht].
        assert (Hk : kvs = []).
        { apply kvs_empty_iff. destruct (twf_blocks_ne _ _ _ _ _ wf) as [H|H]; [exfalso; apply (H (m - 1)%nat ltac:(lia)); exact Eb | exact H]. }
        rewrite Hk. auto.
      + destruct Hres as [-> Ht].
        destruct kvs as [|k0 kr] eqn:Ek.
        * exfalso. apply kvs_empty_iff in Ek. rewrite Ek in Eb. cbn in Eb. discriminate.
        * rewrite <- Ek. rewrite <- Eb in Ht.
          pose proof (before_S (m - 1) ltac:(lia)) as HS. replace (S (m - 1)) with m in HS by lia.
          rewrite before_all in HS.
          assert (0 < length (blk (m - 1)))%nat by (rewrite Eb; cbn; lia).
          replace (length kvs - 1)%nat with (before (m - 1) + (length (blk (m - 1)) - 1))%nat by lia. auto.
  Qed.

  (* ---------------- Seek ---------------- *)
  Lemma seek_in_block key j i : routes_to c blocks seps key j ->
    c_seek c (blk j) key = CAt i -> c_seek c kvs key = CAt (before j + i).
  Proof.
    intros Hroute Hs. pose proof Hroute as (Hj & Hge & Hlt).
    apply c_seek_at in Hs as (kv & Hn & Hkv & Hpre).
    assert (Hi : (i < length (blk j))%nat) by (apply nth_error_Some; congruence).
    unfold c_seek, tkvs.
    rewrite (concat_split blocks j Hj).
    rewrite (BlockEnc.split_nth (blk j) i kv Hi) at 1.
    rewrite (nth_error_nth (blk j) i kv Hn).
    replace (concat (firstn j blocks) ++ (firstn i (blk j) ++ kv :: skipn (S i) (blk j)) ++ concat (skipn (S j) blocks))
      with ((concat (firstn j blocks) ++ firstn i (blk j)) ++ kv :: (skipn (S i) (blk j) ++ concat (skipn (S j) blocks)))
      by (rewrite <- !app_assoc; reflexivity).
    rewrite (first_ge_split c key).
    - rewrite app_length, firstn_length. unfold before. f_equal. lia.
    - intros x Hin. apply in_app_or in Hin as [Hin|Hin].
      + apply in_concat_firstn in Hin as (j' & H1 & H2 & H3).
        apply (before_block_lt c c_ok rd blocks seps hs wf j key x j' H1 Hj H3). apply Hlt. lia.
      + apply In_nth_error in Hin as (i' & Hi').
        assert (L : (i' < i)%nat).
        { assert (i' < length (firstn i (blk j)))%nat by (apply nth_error_Some; congruence).
          rewrite firstn_length in H. lia. }
        rewrite nth_error_firstn_lt in Hi' by exact L. apply (Hpre i' x L Hi').
    - exact Hkv.
  Qed.

  Lemma first_ge_at_idx key (l : list (bytes * bytes)) pre kv post :
    l = pre ++ kv :: post -> (forall x, In x pre -> cmp c (fst x) key = Lt) -> cmp c (fst kv) key <> Lt ->
    c_seek c l key = CAt (length pre).
  Proof. intros -> H1 H2. unfold c_seek. rewrite (first_ge_split c key pre kv post H1 H2). reflexivity. Qed.

  Lemma seek_next_block key j : routes_to c blocks seps key j -> none_ge c key (blk j) -> (S j < m)%nat ->
    c_seek c kvs key = CAt (before (S j)).
  Proof.
    intros Hroute Hnone Hj'. pose proof Hroute as (Hj & Hge & Hlt).
    pose proof (blk_ne c rd blocks seps hs wf (S j) ltac:(lia) Hj') as Hne.
    destruct (blk (S j)) as [|kv r] eqn:Eb; [congruence|].
    apply (first_ge_at_idx key kvs (concat (firstn (S j) blocks)) kv (r ++ concat (skipn (S (S j)) blocks))).
    - unfold tkvs. rewrite (concat_split blocks (S j) Hj'), Eb. reflexivity.
    - intros x Hin. apply in_concat_firstn in Hin as (j' & H1 & H2 & H3).
      destruct (Nat.eq_dec j' j) as [->|]; [apply Hnone; exact H3|].
      apply (before_block_lt c c_ok rd blocks seps hs wf j key x j' ltac:(lia) Hj H3). apply Hlt. lia.
    - apply (after_block_gt c c_ok rd blocks seps hs wf j key kv (S j) ltac:(lia) Hj'); [rewrite Eb; left; reflexivity | exact Hge].
  Qed.

  Lemma seek_past_end key j : routes_to c blocks seps key j -> none_ge c key (blk j) -> S j = m ->
    c_seek c kvs key = CEOI.
  Proof.
    intros Hroute Hnone Em. unfold c_seek.
    rewrite (none_ge_fn c key kvs (none_ge_last c c_ok rd blocks seps hs wf key j Hroute Hnone Em)). reflexivity.
  Qed.

  Lemma tseek_spec t p key : trep t p ->
    exists ok t', ti_seek c rd t key = (ok, t') /\ trep t' (c_seek c kvs key) /\
                  ok = match c_seek c kvs key with CAt _ => true | _ => false end.
  Proof.
    intros (He & Hsl & R). unfold ti_seek, ti_has_err. rewrite He.
    assert (Ri : exists ip, irep (ti_index t) ip).
    { destruct p as [|g|]; [exists CSOI; apply R | | exists CEOI; apply R].
      destruct R as (j & i & d & bj & off & ris & _ & _ & _ & Ri & _). exists (CAt j). exact Ri. }
    destruct Ri as (ip & Ri).
    destruct (seek_step c c_ok ient ib ioff iris ilay (ient_sorted c c_ok rd blocks seps hs wf) (ti_index t) ip key Ri)
      as (ok & ix & E & R' & Eok). rewrite E.
    destruct (c_seek_cases c key ient) as [(j & Ej)|Ee].
    - rewrite Ej in R', Eok. subst ok. cbn [negb].
      pose proof (index_seek_at c rd blocks seps hs wf key j Ej) as Hroute. pose proof Hroute as (Hj & _).
      set (t1 := ti_with t ix (ti_data t) None).
      assert (F : fresh_at (ti_set_data c rd t1) j) by (apply set_data_fresh; [exact R' | exact Hsl]).
      destruct F as (bj & off & ris & Ed & lay).
      unfold ti_enter. rewrite Ed. cbn [d_lift].
      destruct (seek_step c c_ok (blk j) bj off ris lay (sorted_block c c_ok rd blocks seps hs wf j Hj) (bi_unsliced bj) CSOI key (rep_unsliced _ _ _ _))
        as (ok2 & d' & E2 & R2 & Eok2). rewrite E2.
      destruct (c_seek_cases c key (blk j)) as [(i & Ei)|Eie].
      + rewrite Ei in R2, Eok2. subst ok2.
        rewrite (seek_in_block key j i Hroute Ei).
        eexists. eexists. split; [reflexivity|]. split; [|reflexivity].
        split; [reflexivity|]. split; [exact Hsl|].
        pose proof R2 as (Hi & _).
        exists j, i, d', bj, off, ris.
        split; [reflexivity|]. split; [exact Hj|]. split; [exact Hi|]. split; [exact R'|]. split; [reflexivity|]. split; [exact lay | exact R2].
      + rewrite Eie in R2, Eok2. subst ok2.
        unfold ti_data_err. cbn [ti_with ti_data d_err].
        pose proof R2 as ((_ & Ee & _) & _). rewrite Ee.
        pose proof (c_seek_eoi c key (blk j) Eie) as Hnone.
        match goal with |- context [ti_next c rd ?T] =>
          destruct (tnext_nodata T (CAt j)) as (ok3 & t' & E3 & Hres); [reflexivity | exact Hsl | reflexivity | exact R' |]
        end.
        rewrite E3. cbn [c_next] in Hres. rewrite (ient_len c rd blocks seps hs wf) in Hres.
        exists ok3, t'. split; [reflexivity|].
        destruct (Nat.ltb_spec (S j) m) as [L|L].
        * rewrite (seek_next_block key j Hroute Hnone L).
          pose proof (blk_ne c rd blocks seps hs wf (S j) ltac:(lia) L) as Hne2.
          destruct (blk (S j)); [congruence|]. destruct Hres as [-> Ht]. auto.
        * rewrite (seek_past_end key j Hroute Hnone ltac:(lia)). destruct Hres as [-> Ht]. auto.
    - rewrite Ee in R', Eok. subst ok. cbn [negb].
      assert (Es : c_seek c kvs key = CEOI).
      { unfold c_seek. rewrite (none_ge_fn c key kvs (index_seek_eoi c c_ok rd blocks seps hs wf key Ee)). reflexivity. }
      rewrite Es. eexists. eexists. split; [reflexivity|]. split; [|reflexivity].
      unfold ti_index_err. cbn [ti_with ti_index]. rewrite (irep_noerr ix CEOI R').
      split; [reflexivity|]. split; [exact Hsl|]. split; [reflexivity | exact R'].
  Qed.

  (* ---------------- First / Last ---------------- *)
  Lemma index_of t p : trep t p -> exists ip, irep (ti_index t) ip.
  Proof.
    intros (_ & _ & R). destruct p as [|g|]; [exists CSOI; apply R | | exists CEOI; apply R].
    destruct R as (j & i & d & bj & off & ris & _ & _ & _ & Ri & _). exists (CAt j). exact Ri.
  Qed.

  Lemma ient_cons : exists e0 er, ient = e0 :: er.
  Proof.
    pose proof (ient_len c rd blocks seps hs wf) as Hl. pose proof (twf_m _ _ _ _ _ wf).
    destruct ient as [|e0 er]; [cbn in Hl; lia | eauto].
  Qed.

  Lemma tfirst_spec t p : trep t p ->
    exists ok t', ti_first c rd t = (ok, t') /\ trep t' (c_first kvs) /\
                  ok = match c_first kvs with CAt _ => true | _ => false end.
  Proof.
    intros Ht. pose proof Ht as (He & Hsl & _). destruct (index_of t p Ht) as (ip & Ri).
    unfold ti_first, ti_has_err. rewrite He.
    destruct (first_step ient ib ioff iris ilay (ti_index t) ip Ri) as (ok & ix & E & R' & Eok). rewrite E.
    destruct ient_cons as (e0 & er & Ei). unfold c_first in R', Eok. rewrite Ei in R', Eok. subst ok. cbn [negb].
    rewrite <- Ei in R'.
    set (t1 := ti_with t ix (ti_data t) None).
    assert (F : fresh_at (ti_set_data c rd t1) 0) by (apply set_data_fresh; [exact R' | exact Hsl]).
    pose proof (twf_m _ _ _ _ _ wf) as Hm.
    destruct (next_fresh (ti_fuel (ti_set_data c rd t1)) (ti_set_data c rd t1) 0 ltac:(unfold ti_fuel; lia) eq_refl Hsl R' F)
      as (ok2 & t' & E2 & Hres).
    unfold ti_next. rewrite E2. exists ok2, t'. split; [reflexivity|]. unfold c_first.
    destruct (blk 0) as [|kv0 r0] eqn:Eb.
    - destruct Hres as [-> Ht'].
      assert (Hk : kvs = []).
      { apply kvs_empty_iff. destruct (twf_blocks_ne _ _ _ _ _ wf) as [H|H]; [exfalso; apply (H 0%nat Hm); exact Eb | exact H]. }
      rewrite Hk. auto.
    - destruct Hres as [-> Ht'].
      destruct kvs as [|k0 kr] eqn:Ek.
      + exfalso. apply kvs_empty_iff in Ek. rewrite Ek in Eb. cbn in Eb. discriminate.
      + rewrite before_0 in Ht'. auto.
  Qed.

  Lemma tlast_spec t p : trep t p ->
    exists ok t', ti_last c rd t = (ok, t') /\ trep t' (c_last kvs) /\
                  ok = match c_last kvs with CAt _ => true | _ => false end.
  Proof.
    intros Ht. pose proof Ht as (He & Hsl & _). destruct (index_of t p Ht) as (ip & Ri).
    unfold ti_last, ti_has_err. rewrite He.
    destruct (last_step ient ib ioff iris ilay (ti_index t) ip Ri) as (ok & ix & E & R' & Eok). rewrite E.
    pose proof (ient_len c rd blocks seps hs wf) as Hil.
    destruct ient_cons as (e0 & er & Ei). unfold c_last in R', Eok. rewrite Ei in R', Eok. subst ok. cbn [negb].
    rewrite <- Ei, Hil in R'.
    pose proof (twf_m _ _ _ _ _ wf) as Hm.
    set (t1 := ti_with t ix (ti_data t) None).
    assert (F : fresh_at (ti_set_data c rd t1) (m - 1)) by (apply set_data_fresh; [exact R' | exact Hsl]).
    pose proof (enter_last_fresh (ti_prev c rd) (ti_set_data c rd t1) (m - 1) eq_refl Hsl R' F) as HE.
    unfold c_last.
    destruct (blk (m - 1)) as [|kv0 r0] eqn:Eb.
    - destruct HE as (t'' & E2 & He2 & Hsl2 & Hd2 & Hix2). rewrite E2.
      assert (Hm1 : blocks = [[]]).
      { destruct (twf_blocks_ne _ _ _ _ _ wf) as [H|H]; [exfalso; apply (H (m - 1)%nat ltac:(lia)); exact Eb | exact H]. }
      assert (Hk : kvs = []) by (apply kvs_empty_iff; exact Hm1).
      rewrite Hk.
      assert (R0 : irep (ti_index t'') (CAt 0) \/ irep (ti_index t'') CSOI).
      { left. rewrite Hix2. replace 0%nat with (m - 1)%nat by (rewrite Hm1; reflexivity). exact R'. }
      unfold ti_prev, ti_fuel. generalize (S (bi_fuel (ti_index t''))). intros fu.
      cbn [ti_prev_f]. unfold ti_has_err. rewrite He2, Hd2.
      destruct (retreat_none fu t'' He2 Hsl2 Hd2 R0) as (t' & E3 & Ht'). rewrite E3.
      exists false, t'. auto.
    - destruct HE as (t' & E2 & Ht'). rewrite E2. exists true, t'. split; [reflexivity|].
      destruct kvs as [|k0 kr] eqn:Ek.
      + exfalso. apply kvs_empty_iff in Ek. rewrite Ek in Eb. cbn in Eb. discriminate.
      + rewrite <- Ek.
        pose proof (before_S (m - 1) ltac:(lia)) as HS. replace (S (m - 1)) with m in HS by lia.
        rewrite before_all in HS. rewrite <- Eb in Ht'.
        assert (0 < length (blk (m - 1)))%nat by (rewrite Eb; cbn; lia).
        replace (length kvs - 1)%nat with (before (m - 1) + (length (blk (m - 1)) - 1))%nat by lia. auto.
  Qed.

  (* ---------------- the step function and runs ---------------- *)
  Lemma tstep_refines t p o : trep t p ->
    exists ok t', ti_step c rd t o = (ok, t') /\ trep t' (c_step c kvs p o) /\
                  ok = match c_step c kvs p o with CAt _ => true | _ => false end.
  Proof.
    intros Ht. destruct o as [| |k| |]; cbn [ti_step c_step].
    - apply (tfirst_spec t p Ht).
    - apply (tlast_spec t p Ht).
    - apply (tseek_spec t p k Ht).
    - unfold ti_next. apply tnext_spec; [unfold ti_fuel, bi_fuel; lia | exact Ht].
    - unfold ti_prev. apply tprev_spec; [unfold ti_fuel, bi_fuel; lia | exact Ht].
  Qed.

  Lemma trep_get t g : trep t (CAt g) -> ti_get t = nth_error kvs g.
  Proof.
    intros (_ & _ & (j & i & d & bj & off & ris & -> & Hj & Hi & _ & Ed & lay & Rd)).
    unfold ti_get. rewrite Ed. cbn [d_get]. rewrite (gpos_nth j i Hj Hi).
    pose proof Rd as (_ & Hs & Hd & Hk & Hv & _).
    unfold bi_get, bi_valid. rewrite (has_err_false _ _ Hs).
    replace (bdir_eqb (bi_dir d) DBackward || bdir_eqb (bi_dir d) DForward) with true
      by (destruct Hd as [-> | ->]; reflexivity).
    cbn [negb andb]. rewrite Hk, Hv. symmetry. apply nth_kv. exact Hi.
  Qed.

  Theorem trun_refines ops : forall t p, trep t p -> fst (ti_run c rd t ops) = c_run c kvs p ops.
  Proof.
    induction ops as [|o r IH]; intros t p Ht; cbn [ti_run c_run]; [reflexivity|].
    destruct (tstep_refines t p o Ht) as (ok & t' & E & Ht' & Eok). rewrite E.
    specialize (IH t' _ Ht'). destruct (ti_run c rd t' r) as [l tf]. cbn [fst] in *. rewrite IH. f_equal.
    destruct (c_step c kvs p o) as [|g|]; subst ok; cbn [c_get]; try reflexivity.
    apply trep_get. exact Ht'.
  Qed.

  Lemma trep_new strict : trep (mkTI (new_block_iter c ib None true) None None strict None) CSOI.
  Proof.
    split; [reflexivity|]. split; [reflexivity|]. split; [reflexivity|]. apply rep_unsliced.
  Qed.
End TableIter.

(* the packaged statement: for a well-formed table, NewIterator(nil) succeeds and every movement
   sequence observes what the reference cursor over the table's pairs observes *)
Theorem table_iter_refines c rd blocks seps hs strict :
  comparer_ok c -> table_wf c rd blocks seps hs ->
  exists t, new_titer c rd None strict = inr t /\
    forall ops, fst (ti_run c rd t ops) = c_run c (tkvs blocks) CSOI ops.
Proof.
  intros Hc wf. destruct (twf_index _ _ _ _ _ wf) as (ib & Eib & (ioff & iris & ilay)).
  unfold new_titer. rewrite Eib. eexists. split; [reflexivity|].
  intros ops. apply (trun_refines c Hc rd blocks seps hs wf ib ioff iris ilay ops). apply trep_new.
Qed.
