From GL Require Import Base.Order Base.BytesProofs Base.OrderProofs Codec.IKey.
From Coq Require Import ZArith Lia ZifyN ZifyNat ZifyBool.

Lemma ikey_ext a b : uk a = uk b -> num a = num b -> a = b.
Proof. destruct a, b; cbn; intros -> ->; reflexivity. Qed.

Section Laws.
  Variable c : comparer.
  Hypothesis ok : comparer_ok c.

  Lemma icmp_eq a b : icmp c a b = Eq <-> a = b.
  Proof.
    unfold icmp. split.
    - destruct (cmp c (uk a) (uk b)) eqn:E; try discriminate.
      intros H. apply N.compare_eq in H. apply (cmp_eq c ok) in E. apply ikey_ext; congruence.
    - intros ->. rewrite (cmp_refl c ok). apply N.compare_refl.
  Qed.

  Lemma icmp_opp a b : icmp c b a = CompOpp (icmp c a b).
  Proof.
    unfold icmp. rewrite (cmp_opp c ok (uk a) (uk b)).
    destruct (cmp c (uk a) (uk b)); cbn; auto. apply N.compare_antisym.
  Qed.

  Lemma icmp_trans a b d : icmp c a b = Lt -> icmp c b d = Lt -> icmp c a d = Lt.
  Proof.
    unfold icmp.
    destruct (cmp c (uk a) (uk b)) eqn:E1; destruct (cmp c (uk b) (uk d)) eqn:E2;
      try discriminate; intros H1 H2.
    - apply (cmp_eq c ok) in E1, E2. rewrite E1, E2, (cmp_refl c ok).
      rewrite N.compare_lt_iff in *. lia.
    - apply (cmp_eq c ok) in E1. rewrite E1, E2. reflexivity.
    - apply (cmp_eq c ok) in E2. rewrite <- E2, E1. reflexivity.
    - rewrite (cmp_trans c ok _ _ _ E1 E2). reflexivity.
  Qed.

  (* the internal order is itself a lawful strict total order *)
  Lemma icmp_total a b : icmp c a b = Lt \/ a = b \/ icmp c b a = Lt.
  Proof.
    destruct (icmp c a b) eqn:E.
    - right; left. apply icmp_eq; exact E.
    - left; reflexivity.
    - right; right. rewrite icmp_opp, E. reflexivity.
  Qed.

  Lemma icmp_irrefl a : icmp c a a <> Lt.
  Proof. assert (icmp c a a = Eq) as -> by (apply icmp_eq; reflexivity). discriminate. Qed.

  (* ordering: ukey ascending, then newest (larger seq) first *)
  Lemma icmp_ukey_lt a b : cmp c (uk a) (uk b) = Lt -> icmp c a b = Lt.
  Proof. unfold icmp. intros ->. reflexivity. Qed.

  Lemma icmp_same_ukey u m n :
    icmp c {| uk := u; num := m |} {| uk := u; num := n |} = Lt <-> n < m.
  Proof. unfold icmp; cbn. rewrite (cmp_refl c ok). apply N.compare_lt_iff. Qed.

  Section Params.
    Variable p : kparams.
    Hypothesis pok : kparams_ok p.

    (* probe placement: among entries of user key k, the probe (k, s, Seek) sorts after every
       entry newer than s and not after any entry with seq <= s *)
    Lemma probe_after_newer k s s' t : t <= keyTypeSeek p ->
      icmp c {| uk := k; num := pack s' t |} (probe p k s) = Lt <-> s < s'.
    Proof.
      intros Ht. unfold probe. rewrite icmp_same_ukey. unfold pack.
      destruct pok as (_ & _ & _ & H256 & _). split; intros H; nia.
    Qed.

    Lemma probe_not_after_older k s s' t : t <= keyTypeSeek p -> s' <= s ->
      icmp c (probe p k s) {| uk := k; num := pack s' t |} <> Gt.
    Proof.
      intros Ht Hs. unfold probe, icmp; cbn. rewrite (cmp_refl c ok). unfold pack.
      rewrite N.compare_gt_iff. nia.
    Qed.

    (* ... and for a different user key the probe is ordered by user key alone *)
    Lemma probe_other_ukey k s e : cmp c k (uk e) = Lt -> icmp c (probe p k s) e = Lt.
    Proof. intros H. apply icmp_ukey_lt. exact H. Qed.
    Lemma probe_other_ukey' k s e : cmp c (uk e) k = Lt -> icmp c e (probe p k s) = Lt.
    Proof. intros H. apply icmp_ukey_lt. exact H. Qed.

    Lemma isep_law a b x : isep c p a b = Some x ->
      icmp c a x = Lt /\ icmp c x b = Lt.
    Proof.
      unfold isep. destruct (sep c (uk a) (uk b)) as [d|] eqn:S; try discriminate.
      destruct (Nat.ltb (length d) (length (uk a)) && ltb c (uk a) d) eqn:C; try discriminate.
      intros H; injection H as <-.
      apply andb_prop in C as [_ C]. apply (ltb_lt c) in C.
      split.
      - apply icmp_ukey_lt. exact C.
      - apply icmp_ukey_lt. cbn. apply (sep_ok c ok _ _ _ S).
    Qed.

    Lemma isucc_law b x : isucc c p b = Some x -> icmp c b x = Lt.
    Proof.
      unfold isucc. destruct (succ c (uk b)) as [d|] eqn:S; try discriminate.
      destruct (Nat.ltb (length d) (length (uk b)) && ltb c (uk b) d) eqn:C; try discriminate.
      intros H; injection H as <-.
      apply andb_prop in C as [_ C]. apply (ltb_lt c) in C.
      apply icmp_ukey_lt. exact C.
    Qed.
  End Params.
End Laws.

(* ---- byte-level encoding ---- *)
Lemma split_encode k : num k < 2 ^ 64 -> split_ikey (encode_ikey k) = Some k.
Proof.
  intros H. unfold split_ikey, encode_ikey.
  assert (L : length (le64 (num k)) = 8%nat) by apply le_encode_length.
  rewrite app_length, L.
  replace (Nat.ltb (length (uk k) + 8) 8) with false by (symmetry; apply Nat.ltb_ge; lia).
  rewrite droplast_app, lastn_app by exact L.
  rewrite le64_roundtrip by exact H. destruct k; reflexivity.
Qed.

Lemma encode_split b k : wf_bytes b -> split_ikey b = Some k -> encode_ikey k = b.
Proof.
  intros W. unfold split_ikey, encode_ikey.
  destruct (Nat.ltb (length b) 8) eqn:L; try discriminate.
  apply Nat.ltb_ge in L.
  intros H; injection H as <-. cbn [uk num].
  assert (W2 : wf_bytes (lastn 8 b)).
  { unfold wf_bytes, lastn in *. rewrite <- (firstn_skipn (length b - 8) b) in W.
    apply Forall_app in W. apply W. }
  unfold le64. pose proof (le_encode_decode (lastn 8 b) W2) as E.
  rewrite (lastn_length 8 b L) in E. rewrite E. apply droplast_lastn.
Qed.

Lemma make_ikey_bound p u s t k : kparams_ok p -> make_ikey p u s t = MkOk k -> num k < 2 ^ 64 /\ uk k = u /\ num k = pack s t.
Proof.
  intros (Hd & Hv & _ & H256 & Hmax & _). unfold make_ikey.
  destruct (keyMaxSeq p <? s) eqn:E1; try discriminate.
  destruct (keyTypeVal p <? t) eqn:E2; try discriminate.
  intros H; injection H as <-. cbn. unfold pack. rewrite Hmax in E1.
  split; [|split; reflexivity].
  apply N.ltb_ge in E1, E2.
  change (2 ^ 64) with (2 ^ 56 * 256). 
  assert (s < 2 ^ 56) by (change (2^56) with 72057594037927936 in *; lia).
  nia.
Qed.
