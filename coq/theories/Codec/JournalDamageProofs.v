(* Codec/JournalDamageProofs.v — containment of damage: under the computable hypothesis
   no_forgery (whatever the parser accepts in a block is a run of the original chunks of that
   block from its start, the rest being reported as dropped) the tolerant reader yields a
   sub-sequence of the records written, containing every record none of whose chunks lies in a
   block that differs from the written one; the strict reader yields a prefix and an error. *)
From GL Require Import Base.Bytes Base.BytesProofs Codec.Journal Codec.JournalSpec Codec.JournalLemmas
  Codec.JournalReaderProofs Codec.JournalWriterProofs Codec.JournalProofs.
From Coq Require Import PeanoNat Lia ZifyN ZifyNat ZifyBool.

Section DamageProofs.
  Variable crc : bytes -> N.
  Variable p : jparams.
  Hypothesis pok : jparams_ok p.

  (* ------------------------------------------------------------ block shape *)
  Definition starts (cs : list chunk) : Prop :=
    Forall (fun c => is_start_type p (c_type c) = true) cs.
  Definition blk_shape (cs : list chunk) : Prop := starts (tl cs).
  Definition shape_lay (l : lay) : Prop := Forall blk_shape (l_closed l) /\ blk_shape (l_open l).

  Lemma shape_push open c :
    blk_shape open -> (open = [] \/ is_start_type p (c_type c) = true) -> blk_shape (open ++ [c]).
  Proof.
    intros H [->|Hc]; [constructor|]. destruct open as [|x t]; [constructor|].
    cbn [app tl]. apply Forall_app. split; [exact H|]. constructor; [exact Hc|constructor].
  Qed.

  Lemma shape_lay_push l c :
    shape_lay l -> (l_open l = [] \/ is_start_type p (c_type c) = true) -> shape_lay (lay_push l c).
  Proof. intros (H1 & H2) Hc. split; cbn; [exact H1|]. apply shape_push; assumption. Qed.

  Lemma shape_lay_close l : shape_lay l -> shape_lay (lay_close l).
  Proof.
    intros (H1 & H2). split; cbn; [|constructor].
    apply Forall_app. split; [exact H1|]. constructor; [exact H2|constructor].
  Qed.

  Lemma lay_write_shape : forall fuel l f d q,
    shape_lay l -> (f = false -> l_open l = []) -> shape_lay (lay_write p fuel l f d q).
  Proof.
    pose proof (type_facts p pok) as (Hs1 & _ & Hs2 & _).
    assert (Hlast : forall l f d, shape_lay l -> (f = false -> l_open l = []) ->
                     shape_lay (lay_push l (mk (last_type p f) d))).
    { intros l f d H Hf. apply shape_lay_push; [exact H|]. destruct f; [right; exact Hs1|left; auto]. }
    induction fuel as [|fuel IH]; intros l f d q H Hf; destruct q as [|x q]; cbn [lay_write];
      try (apply Hlast; assumption); [exact H|].
    destruct (bsize p (l_open l) + hs p + lenN d =? bs p).
    - apply IH; [|reflexivity]. apply shape_lay_close, shape_lay_push; [exact H|].
      destruct f; [right; exact Hs2|left; auto].
    - apply IH; assumption.
  Qed.

  Lemma layout_shape rs : shape_lay (layout p rs).
  Proof.
    unfold layout. assert (H0 : shape_lay lay_empty) by (split; constructor).
    revert H0. generalize lay_empty. induction rs as [|r rs IH]; intros l H; cbn [fold_left]; [exact H|].
    apply IH. unfold lay_record. apply lay_write_shape; [|discriminate].
    unfold lay_next. destruct (bs p <? bsize p (l_open l) + hs p); [apply shape_lay_close|]; exact H.
  Qed.

  Lemma lay_blocks_shape l : shape_lay l -> Forall blk_shape (lay_blocks l).
  Proof.
    intros (H1 & H2). unfold lay_blocks. apply Forall_app. split; [exact H1|].
    destruct (l_open l); constructor; [exact H2|constructor].
  Qed.

  Lemma lay_blocks_concat l : concat (lay_blocks l) = lay_chunks l.
  Proof.
    unfold lay_blocks, lay_chunks. rewrite concat_app. f_equal.
    destruct (l_open l); cbn; [reflexivity|]. now rewrite app_nil_r.
  Qed.

  (* ------------------------------------------------------------ per-chunk observations *)
  Inductive cobs := ODeliver | OBad (r n : N) | OSilent.

  Definition obs_events (z : chunk * cobs) : list bev :=
    match snd z with
    | ODeliver => [BChunk (fst z)]
    | OBad r n => [BBad r n]
    | OSilent => []
    end.

  (* a middle/last chunk is never lost silently *)
  Definition valid_obs (c : chunk) (o : cobs) : Prop :=
    o = OSilent -> is_start_type p (c_type c) = true.

  Definition is_deliver (o : cobs) : bool := match o with ODeliver => true | _ => false end.
  Definition all_deliver (os : list cobs) : bool := forallb is_deliver os.

  Lemma chunk_eqb_eq a b : chunk_eqb a b = true -> a = b.
  Proof.
    destruct a as [t d], b as [t' d']. unfold chunk_eqb; cbn. intros H.
    apply andb_prop in H as [H1 H2]. apply N.eqb_eq in H1. apply beq_eq in H2. congruence.
  Qed.

  Lemma silent_events cs : flat_map obs_events (combine cs (repeat OSilent (length cs))) = [].
  Proof. induction cs as [|c cs IH]; [reflexivity|]. cbn. exact IH. Qed.

  Lemma silent_valid cs : starts cs -> Forall2 valid_obs cs (repeat OSilent (length cs)).
  Proof. induction 1; cbn; constructor; [intros _; assumption|assumption]. Qed.

  (* the observations of a block: delivered chunks, then possibly one reported drop *)
  Definition lead (os : list cobs) : Prop :=
    all_deliver os = true \/ exists k r n os', os = repeat ODeliver k ++ OBad r n :: os'.

  Lemma evs_match_obs : forall cs evs,
    evs_match evs cs = true -> starts (tl cs) ->
    exists os, Forall2 valid_obs cs os /\ flat_map obs_events (combine cs os) = evs /\
               (evs = map BChunk cs -> all_deliver os = true) /\ lead os.
  Proof.
    induction cs as [|c0 cs IH]; intros evs Hm Hs.
    - destruct evs as [|[c|r n] [|e evs']]; try discriminate. exists []. repeat split; [constructor|left; reflexivity].
    - destruct evs as [|[c|r n] evs']; [discriminate| |].
      + cbn [evs_match] in Hm. apply andb_prop in Hm as [He Hm]. apply chunk_eqb_eq in He. subst c.
        destruct (IH evs' Hm) as (os & Hv & He & Ha & Hl).
        { cbn [tl] in Hs. destruct cs; [constructor|]. now inversion Hs. }
        exists (ODeliver :: os). split; [constructor; [intros ?; discriminate|exact Hv]|].
        split; [cbn; now rewrite He|]. split.
        * intros E. cbn [map] in E. injection E as E. cbn. now apply Ha.
        * destruct Hl as [Hl|(k & r & n & os' & ->)]; [left; exact Hl|].
          right. exists (S k), r, n, os'. reflexivity.
      + destruct evs' as [|e evs']; [|discriminate].
        exists (OBad r n :: repeat OSilent (length cs)).
        split; [constructor; [intros ?; discriminate|apply silent_valid; exact Hs]|].
        split; [cbn; now rewrite silent_events|]. split; [intros E; discriminate|].
        right. exists 0%nat, r, n, (repeat OSilent (length cs)). reflexivity.
  Qed.

  (* ------------------------------------------------------------ the tolerant assembler on damaged records *)
  Lemma recs_of_app a b : recs_of (a ++ b) = recs_of a ++ recs_of b.
  Proof. unfold recs_of. apply flat_map_app. Qed.

  Notation asm := (assemble p false).

  Lemma asm_cont_idle x cs : cont_chunks p x cs -> forall os evs,
    Forall2 valid_obs cs os ->
    recs_of (asm AIdle (flat_map obs_events (combine cs os) ++ evs)) = recs_of (asm AIdle evs).
  Proof.
    pose proof (type_facts p pok) as (_&_&_&_&Hsm&_&Hsl&_).
    induction 1 as [d|d x cs Hc IH]; intros os evs Hv.
    - inversion Hv as [|? o ? os' Ho Hv']; subst. inversion Hv'; subst.
      destruct o; cbn [combine flat_map obs_events fst snd app assemble mk c_type c_data].
      + rewrite Hsl. reflexivity.
      + reflexivity.
      + specialize (Ho eq_refl). cbn in Ho. congruence.
    - inversion Hv as [|? o ? os' Ho Hv']; subst.
      destruct o; cbn [combine flat_map obs_events fst snd app assemble mk c_type c_data]; rewrite <- ?app_assoc.
      + rewrite Hsm. cbn [app recs_of flat_map]. apply IH; exact Hv'.
      + cbn [app recs_of flat_map]. apply IH; exact Hv'.
      + specialize (Ho eq_refl). cbn in Ho. congruence.
  Qed.

  Lemma asm_cont_in x cs : cont_chunks p x cs -> forall os acc evs,
    Forall2 valid_obs cs os ->
    recs_of (asm (AIn acc) (flat_map obs_events (combine cs os) ++ evs)) =
    (if all_deliver os then [acc ++ x] else []) ++ recs_of (asm AIdle evs).
  Proof.
    pose proof (type_facts p pok) as (_&_&_&_&Hsm&Hlm&Hsl&Hll).
    induction 1 as [d|d x cs Hc IH]; intros os acc evs Hv.
    - inversion Hv as [|? o ? os' Ho Hv']; subst. inversion Hv'; subst.
      destruct o; cbn [combine flat_map obs_events fst snd app assemble mk c_type c_data all_deliver forallb is_deliver andb].
      + rewrite Hll. reflexivity.
      + reflexivity.
      + specialize (Ho eq_refl). cbn in Ho. congruence.
    - inversion Hv as [|? o ? os' Ho Hv']; subst.
      destruct o; cbn [combine flat_map obs_events fst snd app assemble mk c_type c_data all_deliver forallb is_deliver andb]; rewrite <- ?app_assoc.
      + rewrite Hlm. cbn [app]. rewrite IH by exact Hv'. rewrite <- app_assoc. reflexivity.
      + cbn [app recs_of flat_map]. apply (asm_cont_idle x cs Hc); exact Hv'.
      + specialize (Ho eq_refl). cbn in Ho. congruence.
  Qed.

  Lemma asm_rec r cs : rec_chunks p r cs -> forall os evs,
    Forall2 valid_obs cs os ->
    recs_of (asm AIdle (flat_map obs_events (combine cs os) ++ evs)) =
    (if all_deliver os then [r] else []) ++ recs_of (asm AIdle evs).
  Proof.
    pose proof (type_facts p pok) as (Hs1&Hl1&Hs2&Hl2&_).
    intros [r'|d x cs' Hc] os evs Hv.
    - inversion Hv as [|? o ? os' Ho Hv']; subst. inversion Hv'; subst.
      destruct o; cbn [combine flat_map obs_events fst snd app assemble mk c_type c_data all_deliver forallb is_deliver andb].
      + rewrite Hs1, Hl1. reflexivity.
      + reflexivity.
      + reflexivity.
    - inversion Hv as [|? o ? os' Ho Hv']; subst.
      destruct o; cbn [combine flat_map obs_events fst snd app assemble mk c_type c_data all_deliver forallb is_deliver andb]; rewrite <- ?app_assoc.
      + rewrite Hs2, Hl2. cbn [app]. apply (asm_cont_in x cs' Hc); exact Hv'.
      + cbn [app recs_of flat_map]. apply (asm_cont_idle x cs' Hc); exact Hv'.
      + cbn [app]. apply (asm_cont_idle x cs' Hc); exact Hv'.
  Qed.

  Lemma combine_app {A B} (a b : list A) (a' b' : list B) :
    length a = length a' -> combine (a ++ b) (a' ++ b') = combine a a' ++ combine b b'.
  Proof.
    revert a'; induction a as [|x a IH]; intros [|y a'] H; cbn in *; try lia; [reflexivity|].
    f_equal. apply IH. lia.
  Qed.

  Lemma Forall2_len {A B} (R : A -> B -> Prop) a b : Forall2 R a b -> length a = length b.
  Proof. induction 1; cbn; congruence. Qed.

  Lemma asm_records rs css : Forall2 (rec_chunks p) rs css -> forall oss evs,
    Forall2 (Forall2 valid_obs) css oss ->
    recs_of (asm AIdle (flat_map obs_events (combine (concat css) (concat oss)) ++ evs)) =
    select (map all_deliver oss) rs ++ recs_of (asm AIdle evs).
  Proof.
    induction 1 as [|r cs rs css Hr Hrs IH]; intros oss evs Hv.
    - inversion Hv; subst. reflexivity.
    - inversion Hv as [|? os ? oss' Ho Hv']; subst. cbn [concat map select].
      rewrite combine_app by (eapply Forall2_len; exact Ho).
      rewrite flat_map_app, <- app_assoc. rewrite (asm_rec r cs Hr) by exact Ho.
      rewrite IH by exact Hv'. destruct (all_deliver os); reflexivity.
  Qed.

  Lemma split_obs css : forall os, Forall2 valid_obs (concat css) os ->
    exists oss, os = concat oss /\ Forall2 (Forall2 valid_obs) css oss.
  Proof.
    induction css as [|cs css IH]; intros os H.
    - cbn in H. inversion H; subst. exists []. split; [reflexivity|constructor].
    - cbn [concat] in H. apply Forall2_app_inv_l in H as (o1 & o2 & H1 & H2 & ->).
      destruct (IH o2 H2) as (oss & -> & Hoss). exists (o1 :: oss). split; [reflexivity|].
      constructor; assumption.
  Qed.

  (* ------------------------------------------------------------ from blocks to observations *)
  Lemma forall2b_Forall2 {A B} (f : A -> B -> bool) a : forall b,
    forall2b f a b = true -> Forall2 (fun x y => f x y = true) a b.
  Proof.
    induction a as [|x a IH]; intros [|y b] H; cbn in H; try discriminate; constructor.
    - now apply andb_prop in H.
    - apply IH. now apply andb_prop in H.
  Qed.

  Lemma all_deliver_repeat os : all_deliver os = true -> os = repeat ODeliver (length os).
  Proof.
    induction os as [|o os IH]; [reflexivity|]. cbn. intros H. apply andb_prop in H as [H1 H2].
    destruct o; try discriminate. f_equal. now apply IH.
  Qed.

  Lemma all_deliver_app a b : all_deliver (a ++ b) = all_deliver a && all_deliver b.
  Proof. apply forallb_app. Qed.

  Lemma lead_app a b : lead a -> lead b -> lead (a ++ b).
  Proof.
    intros [Ha|(k & r & n & os' & ->)] Hb.
    - destruct Hb as [Hb|(k & r & n & os' & ->)].
      + left. rewrite all_deliver_app, Ha, Hb. reflexivity.
      + right. exists (length a + k)%nat, r, n, os'.
        rewrite (all_deliver_repeat a Ha) at 1. rewrite app_assoc, <- repeat_app. reflexivity.
    - right. exists k, r, n, (os' ++ b). rewrite <- app_assoc. reflexivity.
  Qed.

  Section Blocks.
    Variable ck : bool.
    Variable P : nat -> Prop.   (* "block i is intact" *)

    Definition Q (tc : nat * chunk) (o : cobs) : Prop := P (fst tc) -> o = ODeliver.

    Lemma blocks_obs : forall bl bd i0,
      Forall2 (fun cs blk => evs_match (parse_from crc p ck blk) cs = true) bl bd ->
      Forall blk_shape bl ->
      (forall j, (j < length bl)%nat -> P (i0 + j)%nat ->
                 parse_from crc p ck (nth j bd []) = map BChunk (nth j bl [])) ->
      exists os,
        Forall2 valid_obs (concat bl) os /\
        flat_map obs_events (combine (concat bl) os) = flat_map (parse_from crc p ck) bd /\
        lead os /\ Forall2 Q (tag_blocks i0 bl) os.
    Proof.
      induction bl as [|cs bl IH]; intros bd i0 HF Hsh HP.
      - inversion HF; subst. exists []. cbn. split; [constructor|]. split; [reflexivity|].
        split; [left; reflexivity|constructor].
      - inversion HF as [|? blk ? bd' Hm HF']; subst. inversion Hsh as [|? ? Hs1 Hsh']; subst.
        destruct (evs_match_obs cs _ Hm Hs1) as (os1 & Hv1 & He1 & Ha1 & Hl1).
        destruct (IH bd' (S i0) HF' Hsh') as (os2 & Hv2 & He2 & Hl2 & Hq2).
        { intros j Hj Hp. apply (HP (S j)); [cbn; lia|]. replace (i0 + S j)%nat with (S i0 + j)%nat by lia. exact Hp. }
        exists (os1 ++ os2). cbn [concat flat_map tag_blocks].
        split; [apply Forall2_app; assumption|].
        split. { rewrite combine_app by (eapply Forall2_len; exact Hv1). rewrite flat_map_app, He1, He2. reflexivity. }
        split; [apply lead_app; assumption|].
        apply Forall2_app; [|exact Hq2].
        assert (Hd : P i0 -> all_deliver os1 = true).
        { intros Hp. apply Ha1. specialize (HP 0%nat). cbn [nth length] in HP.
          apply HP; [lia|]. replace (i0 + 0)%nat with i0 by lia. exact Hp. }
        clear - Hv1 Hd. revert Hd. induction Hv1 as [|c o cs' os' _ _ IHv]; intros Hd; cbn [map]; constructor.
        + intros Hp. cbn in Hp. specialize (Hd Hp). cbn in Hd. apply andb_prop in Hd as [Hd _].
          destruct o; try discriminate. reflexivity.
        + apply IHv. intros Hp. specialize (Hd Hp). cbn in Hd. now apply andb_prop in Hd.
    Qed.
  End Blocks.

  (* ------------------------------------------------------------ the blocks of the written stream *)
  Lemma stream_blocks_render l : wf_lay p l ->
    Forall2 (fun cs blk => forall ck, parse_from crc p ck blk = map BChunk cs)
            (lay_blocks l) (stream_blocks p (render_lay crc p l)).
  Proof.
    pose proof (hs7 p pok) as H7. pose proof (hs_lt_bs p pok) as Hb.
    intros (Hc & Ho). unfold lay_blocks, render_lay.
    induction Hc as [|c1 closed Hc1 Hc' IH].
    - cbn [flat_map app]. destruct (l_open l) as [|c cs] eqn:Eo.
      + cbn. constructor.
      + assert (Hne : render_chunks crc (c :: cs) <> []).
        { intros E. apply (f_equal lenN) in E. rewrite (lenN_render_chunks crc p pok) in E.
          cbn [bsize] in E. unfold csize in E. change (lenN (@nil N)) with 0 in E. lia. }
        rewrite (stream_blocks_cons crc p pok _ Hne).
        rewrite takeN_all, dropN_all by (rewrite (lenN_render_chunks crc p pok); apply Ho).
        change (stream_blocks p []) with (@nil bytes). cbn [app]. constructor; [|constructor]. intros ck.
        rewrite <- (app_nil_r (render_chunks crc (c :: cs))).
        apply (parse_chunks crc p pok); [exact Ho|]. change (lenN (@nil N)) with 0. lia.
    - cbn [flat_map app]. rewrite <- app_assoc.
      destruct Hc1 as (Hbig & Hok1).
      pose proof (lenN_render_closed crc p pok c1 Hok1) as L1.
      rewrite (stream_blocks_cons crc p pok).
      + rewrite takeN_app_exact, dropN_app_exact by exact L1. constructor; [|exact IH].
        intros ck. unfold render_closed. apply (parse_chunks crc p pok); [exact Hok1|].
        rewrite lenN_zeros. lia.
      + intros E. apply (f_equal lenN) in E. rewrite lenN_app, L1 in E.
        change (lenN (@nil N)) with 0 in E. lia.
  Qed.

  Lemma Forall2_nth {A B} (R : A -> B -> Prop) a b da db j :
    Forall2 R a b -> (j < length a)%nat -> R (nth j a da) (nth j b db).
  Proof.
    intros H. revert j. induction H; intros j Hj; cbn in Hj; [lia|].
    destruct j; cbn; [assumption|]. apply IHForall2. lia.
  Qed.

  (* ------------------------------------------------------------ grouping chunks into records *)
  Definition rec_shape {A} (ty : A -> N) (g : list A) : Prop :=
    match g with
    | [] => False
    | s :: cont => is_start_type p (ty s) = true /\
                   Forall (fun y => is_start_type p (ty y) = false) cont
    end.

  Lemma group_recs_cons {A} (ty : A -> N) x l :
    group_recs p ty (x :: l) =
    match group_recs p ty l with
    | [] => [[x]]
    | [] :: gs => [x] :: gs
    | (y :: g) :: gs =>
        if is_start_type p (ty y) then [x] :: (y :: g) :: gs else (x :: y :: g) :: gs
    end.
  Proof. reflexivity. Qed.

  Lemma group_recs_concat {A} (ty : A -> N) (gs : list (list A)) :
    Forall (rec_shape ty) gs -> group_recs p ty (concat gs) = gs.
  Proof.
    induction 1 as [|g gs Hg Hgs IH]; [reflexivity|].
    destruct g as [|s cont]; [contradiction|]. destruct Hg as (Hs & Hcont).
    cbn [concat app].
    (* peel the group from the right *)
    assert (Hgen : forall pre x, Forall (fun y => is_start_type p (ty y) = false) pre ->
                     group_recs p ty (x :: pre ++ concat gs) = (x :: pre) :: gs).
    { induction pre as [|y pre IHp]; intros x Hp.
      - cbn [app]. rewrite group_recs_cons, IH. destruct gs as [|g' gs']; [reflexivity|].
        inversion Hgs as [|? ? Hg' _]; subst. destruct g' as [|s' c']; [contradiction|].
        destruct Hg' as (Hs' & _). rewrite Hs'. reflexivity.
      - inversion Hp as [|? ? Hy Hp']; subst. cbn [app].
        rewrite group_recs_cons, (IHp y Hp'). rewrite Hy. reflexivity. }
    apply Hgen. exact Hcont.
  Qed.

  Lemma cont_chunks_nonstart x cs : cont_chunks p x cs ->
    Forall (fun c => is_start_type p (c_type c) = false) cs.
  Proof.
    pose proof (type_facts p pok) as (_&_&_&_&Hsm&_&Hsl&_).
    induction 1; constructor; try assumption; constructor.
  Qed.

  Lemma rec_chunks_shape r cs : rec_chunks p r cs -> rec_shape c_type cs.
  Proof.
    pose proof (type_facts p pok) as (Hs1&_&Hs2&_).
    intros [r'|d x cs' Hc]; cbn; split; try assumption; [constructor|].
    apply (cont_chunks_nonstart x); exact Hc.
  Qed.

  (* split a tagged chunk list along the records *)
  Lemma split_tagged css : forall (T : list (nat * chunk)),
    map snd T = concat css ->
    exists cssT, T = concat cssT /\ Forall2 (fun cs csT => map snd csT = cs) css cssT.
  Proof.
    induction css as [|cs css IH]; intros T H.
    - cbn in H. destruct T; [|discriminate]. exists []. split; [reflexivity|constructor].
    - cbn [concat] in H. apply map_eq_app in H as (T1 & T2 & -> & H1 & H2).
      destruct (IH T2 H2) as (cssT & -> & HF). exists (T1 :: cssT). split; [reflexivity|].
      constructor; assumption.
  Qed.

  Lemma tag_blocks_snd bl : forall i, map snd (tag_blocks i bl) = concat bl.
  Proof.
    induction bl as [|cs bl IH]; intros i; [reflexivity|]. cbn [tag_blocks concat].
    rewrite map_app, IH, map_map. cbn. now rewrite map_id.
  Qed.

  Lemma Forall2_concat_inv {A B} (R : A -> B -> Prop) (aa : list (list A)) : forall (bb : list (list B)),
    Forall2 (fun a b => length a = length b) aa bb ->
    Forall2 R (concat aa) (concat bb) -> Forall2 (Forall2 R) aa bb.
  Proof.
    induction aa as [|a aa IH]; intros bb HL H; inversion HL as [|? b ? bb' Hl HL']; subst; [constructor|].
    cbn [concat] in H. apply Forall2_app_inv_l in H as (b1 & b2 & H1 & H2 & E).
    assert (Eb : b1 = b /\ b2 = concat bb').
    { pose proof (Forall2_len _ _ _ H1) as L1.
      assert (length b1 = length b) by congruence.
      clear - E H. revert b E H. induction b1 as [|x b1 IHb]; intros [|y b] E Hlen; cbn in *; try lia; [auto|].
      injection E as -> E. destruct (IHb b E ltac:(lia)) as (-> & ->). auto. }
    destruct Eb as (-> & ->). constructor; [exact H1|]. apply IH; assumption.
  Qed.

  Lemma rec_shape_map (cs : list chunk) (csT : list (nat * chunk)) :
    map snd csT = cs -> rec_shape c_type cs -> rec_shape (fun tc => c_type (snd tc)) csT.
  Proof.
    intros <-. destruct csT as [|s cont]; cbn; [auto|]. intros (Hs & Hc). split; [exact Hs|].
    clear - Hc. induction cont as [|y cont IH]; cbn in *; constructor; inversion Hc; subst; auto.
  Qed.

  Lemma Forall2_compose {A B C} (R1 : A -> B -> Prop) (R2 : A -> C -> Prop) (R3 : B -> C -> Prop) a :
    forall b c, Forall2 R1 a b -> Forall2 R2 a c ->
    (forall x y z, R1 x y -> R2 x z -> R3 y z) -> Forall2 R3 b c.
  Proof.
    induction a as [|x a IH]; intros b c H1 H2 H; inversion H1; subst; inversion H2; subst; constructor.
    - eapply H; eassumption.
    - eapply IH; eassumption.
  Qed.

  Lemma recs_of_outs l : recs_of (outs l) = recs_of l.
  Proof.
    induction l as [|o l IH]; [reflexivity|]. destruct o; cbn; try exact IH. f_equal. exact IH.
  Qed.

  Lemma nth_map_default {A B} (f : A -> B) l k d d' :
    (k < length l)%nat -> nth k (map f l) d = f (nth k l d').
  Proof.
    revert k; induction l as [|x l IH]; intros k H; cbn in H; [lia|].
    destruct k; cbn; [reflexivity|]. apply IH. lia.
  Qed.

  (* ------------------------------------------------------------ the theorems *)
  Theorem damage_contained ck fl rs d :
    no_forgery crc p ck rs d = true ->
    exists keep,
      length keep = length rs /\
      recs_of (jread crc p false ck d) = select keep rs /\
      forall k, (k < length rs)%nat ->
        (forall i, In i (rec_blocks p rs k) ->
           nth i (stream_blocks p d) [] = nth i (stream_blocks p (jwrite crc p fl rs)) []) ->
        nth k keep false = true.
  Proof.
    intros HN. unfold no_forgery in HN. apply forall2b_Forall2 in HN.
    destruct (layout_chunks crc p pok rs) as (W & css & E & H).
    set (L := layout p rs) in *. set (bl := lay_blocks L) in *. set (bd := stream_blocks p d) in *.
    rewrite (jwrite_layout crc p pok). fold L.
    set (P := fun i => nth i bd [] = nth i (stream_blocks p (render_lay crc p L)) []).
    assert (HP : forall j, (j < length bl)%nat -> P (0 + j)%nat ->
                   parse_from crc p ck (nth j bd []) = map BChunk (nth j bl [])).
    { intros j Hj Hp. cbn in Hp. unfold P in Hp. rewrite Hp.
      apply (Forall2_nth _ bl _ [] [] j (stream_blocks_render L W) Hj). }
    destruct (blocks_obs ck P bl bd 0%nat HN (lay_blocks_shape L (layout_shape rs)) HP)
      as (os & Hv & He & Hl & Hq).
    assert (Ebl : concat bl = concat css) by (unfold bl; rewrite lay_blocks_concat; exact E).
    rewrite Ebl in Hv, He.
    destruct (split_obs css os Hv) as (oss & -> & Hoss).
    exists (map all_deliver oss). split.
    { rewrite map_length. rewrite <- (Forall2_len _ _ _ Hoss). symmetry. eapply Forall2_len; exact H. }
    split.
    { unfold jread. rewrite recs_of_outs, (reader_factor crc p pok). unfold stream_events. fold bd.
      rewrite <- He. rewrite <- (app_nil_r (flat_map _ _)).
      rewrite (asm_records rs css H oss [] Hoss). cbn. apply app_nil_r. }
    intros k Hk Hint.
    (* the tagged chunk stream, grouped by records *)
    destruct (split_tagged css (tag_blocks 0 bl)) as (cssT & ET & HT).
    { rewrite tag_blocks_snd. exact Ebl. }
    assert (Hgrp : group_recs p (fun tc => c_type (snd tc)) (tag_blocks 0 bl) = cssT).
    { rewrite ET. apply group_recs_concat.
      clear - H HT pok. revert cssT HT. induction H as [|r cs rs css Hr Hrs IH]; intros cssT HT;
        inversion HT; subst; constructor.
      - eapply rec_shape_map; [first [reflexivity | eassumption]|]. eapply rec_chunks_shape; exact Hr.
      - apply IH; assumption. }
    unfold rec_blocks in Hint. fold L bl in Hint. rewrite Hgrp in Hint.
    rewrite ET in Hq.
    assert (HLen : Forall2 (fun (a : list (nat * chunk)) (b : list cobs) => length a = length b) cssT oss).
    { apply (Forall2_compose _ _ _ css cssT oss HT Hoss).
      intros cs csT o H1 H2. rewrite <- (Forall2_len _ _ _ H2), <- H1, map_length. reflexivity. }
    pose proof (Forall2_concat_inv (Q P) cssT oss HLen Hq) as Hqq.
    assert (Hkc : (k < length cssT)%nat).
    { rewrite <- (Forall2_len _ _ _ HT), <- (Forall2_len _ _ _ H). exact Hk. }
    pose proof (Forall2_nth _ cssT oss [] [] k Hqq Hkc) as Hk2.
    rewrite (nth_map_default all_deliver oss k false []).
    2:{ rewrite <- (Forall2_len _ _ _ HLen). exact Hkc. }
    revert Hint. generalize (nth k cssT []) (nth k oss []) Hk2. clear.
    induction 1 as [|tc o csT os' Hq _ IH]; intros Hint; [reflexivity|].
    change (all_deliver (o :: os')) with (is_deliver o && all_deliver os').
    rewrite IH by (intros i Hi; apply Hint; cbn; right; exact Hi).
    rewrite (Hq (Hint (fst tc) (or_introl eq_refl))). reflexivity.
  Qed.

  Lemma ev_all cs os : Forall2 valid_obs cs os -> all_deliver os = true ->
    flat_map obs_events (combine cs os) = map BChunk cs.
  Proof.
    induction 1 as [|c o cs os _ _ IH]; [reflexivity|]. cbn. intros Ha.
    apply andb_prop in Ha as [H1 H2]. destruct o; try discriminate. cbn. f_equal. now apply IH.
  Qed.

  Lemma ev_bad k : forall cs r n os', Forall2 valid_obs cs (repeat ODeliver k ++ OBad r n :: os') ->
    exists rest, flat_map obs_events (combine cs (repeat ODeliver k ++ OBad r n :: os'))
                 = map BChunk (firstn k cs) ++ BBad r n :: rest.
  Proof.
    induction k as [|k IH]; intros cs r n os' H; cbn [repeat app] in *.
    - inversion H; subst. cbn. eexists. reflexivity.
    - inversion H as [|c ? cs' ? _ H']; subst. destruct (IH cs' r n os' H') as (rest & E).
      exists rest. cbn. rewrite E. reflexivity.
  Qed.

  Lemma strict_cut pre : forall st r n rest,
    assemble p true st (map BChunk pre ++ BBad r n :: rest) =
    assemble p true st (map BChunk pre ++ [BBad r n]).
  Proof.
    induction pre as [|c pre IH]; intros st r n rest; [reflexivity|].
    cbn [map app assemble]. destruct st.
    - destruct (is_start_type p (c_type c)); [destruct (is_last_type p (c_type c))|];
        first [apply IH | (f_equal; apply IH)].
    - destruct (is_last_type p (c_type c)); first [apply IH | (f_equal; apply IH)].
  Qed.

  Theorem damage_strict ck rs d :
    no_forgery crc p ck rs d = true ->
    exists m t, jread crc p true ck d = map Rec (firstn m rs) ++ t /\ (t = [] \/ t = [Err]).
  Proof.
    intros HN. unfold no_forgery in HN. apply forall2b_Forall2 in HN.
    destruct (layout_chunks crc p pok rs) as (W & css & E & H).
    set (L := layout p rs) in *. set (bl := lay_blocks L) in *. set (bd := stream_blocks p d) in *.
    destruct (blocks_obs ck (fun _ => False) bl bd 0%nat HN (lay_blocks_shape L (layout_shape rs)))
      as (os & Hv & He & Hl & _); [intros ? ? []|].
    assert (Ebl : concat bl = concat css) by (unfold bl; rewrite lay_blocks_concat; exact E).
    rewrite Ebl in Hv, He.
    unfold jread. rewrite (reader_factor crc p pok). unfold stream_events. fold bd. rewrite <- He.
    destruct Hl as [Ha|(k & r & n & os' & ->)].
    - rewrite (ev_all _ _ Hv Ha). exists (length rs), [].
      rewrite <- (app_nil_r (map BChunk _)), (assemble_records p pok true rs css [] H).
      cbn [assemble]. rewrite !app_nil_r, firstn_all, (outs_recs rs). auto.
    - destruct (ev_bad k _ r n os' Hv) as (rest & Er). rewrite Er, strict_cut.
      destruct (assemble_prefix crc p pok true rs css H k [BBad r n]) as (m & t & Em & Ht).
      { right. eauto. }
      exists m, t. split; [exact Em|exact Ht].
  Qed.

  (* the hypothesis is satisfiable: it holds of every undamaged stream *)
  Lemma beq_refl b : beq b b = true.
  Proof. apply beq_eq. reflexivity. Qed.

  Lemma evs_match_refl cs : evs_match (map BChunk cs) cs = true.
  Proof.
    induction cs as [|c cs IH]; [reflexivity|]. cbn [map evs_match].
    unfold chunk_eqb. rewrite N.eqb_refl, beq_refl, IH. reflexivity.
  Qed.

  Theorem no_forgery_intact ck fl rs : no_forgery crc p ck rs (jwrite crc p fl rs) = true.
  Proof.
    rewrite (jwrite_layout crc p pok). unfold no_forgery.
    destruct (layout_chunks crc p pok rs) as (W & _).
    pose proof (stream_blocks_render (layout p rs) W) as HF.
    induction HF as [|cs blk bl bd Hp _ IH]; [reflexivity|].
    cbn [forall2b]. rewrite Hp, evs_match_refl, IH. reflexivity.
  Qed.
End DamageProofs.
