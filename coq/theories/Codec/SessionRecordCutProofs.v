(* Codec/SessionRecordCutProofs.v — proofs about Codec/SessionRecord.v, part 2: decode on the first n bytes of an
   encoding, for every n (decode_cut); hence the round trip (n = everything) and the prefix theorem. *)
From GL Require Import Base.Bytes Base.BytesProofs Base.Varint Base.VarintProofs
  Codec.SessionRecord Codec.SessionRecordSpec Codec.SessionRecordProofs.
From Coq Require Import Lia ZArith.
Open Scope N_scope.

Lemma firstn_app_lt {A} n (a t : list A) : (n < length a)%nat -> firstn n (a ++ t) = firstn n a.
Proof. intros H. rewrite firstn_app. replace (n - length a)%nat with O by lia. cbn [firstn]. apply app_nil_r. Qed.

Lemma firstn_app_ge {A} n (a t : list A) : (length a <= n)%nat -> firstn n (a ++ t) = a ++ firstn (n - length a) t.
Proof. intros H. rewrite firstn_app, firstn_all2 by exact H. reflexivity. Qed.

(* ---------------- a reader on the first n bytes of (encoding ++ tail) ---------------- *)
(* whole: the reader undoes the encoding whatever follows; cut: on a strict prefix it reports a short read *)
Definition reads {A} (R : bytes -> rd A) (f : rfield) (e : bytes) (v : A) : Prop :=
  (forall rest, R (e ++ rest) = ROk v rest) /\
  (forall n, (n < length e)%nat -> R (firstn n e) = RErr (ECorrupt f RShort)).

Lemma reads_firstn {A} (R : bytes -> rd A) f e v : reads R f e v -> forall n tail,
  R (firstn n (e ++ tail)) =
  if (length e <=? n)%nat then ROk v (firstn (n - length e) tail) else RErr (ECorrupt f RShort).
Proof.
  intros [Hw Hc] n tail. destruct (Nat.leb_spec (length e) n) as [Hle|Hlt].
  - rewrite firstn_app_ge by exact Hle. apply Hw.
  - rewrite firstn_app_lt by exact Hlt. apply Hc. exact Hlt.
Qed.

Lemma reads_uv f x : x < 2 ^ 64 -> reads (read_uv f) f (put_uvarint x) x.
Proof.
  intros Hx. split.
  - intros rest. unfold read_uv, read_uv_may_eof. rewrite read_uvarint_put by exact Hx. reflexivity.
  - intros n Hn. unfold read_uv, read_uv_may_eof. rewrite read_uvarint_cut by exact Hn.
    destruct (Nat.eqb n 0); reflexivity.
Qed.

Lemma reads_varint f z : z_in63 z -> reads (read_varint f) f (put_uvarint (Z.to_N z)) z.
Proof.
  intros Hz. destruct (reads_uv f (Z.to_N z) (to_N_lt64 z Hz)) as [Hw Hc]. split.
  - intros rest. unfold read_varint. rewrite Hw. cbn [rbind]. rewrite i64_of_to_N by exact Hz.
    destruct Hz as [H0 _]. replace (z <? 0)%Z with false by lia. reflexivity.
  - intros n Hn. unfold read_varint. rewrite Hc by exact Hn. reflexivity.
Qed.

Lemma reads_level f l : z_in63 l -> reads (read_level f) f (put_level l) l.
Proof.
  intros Hz. unfold put_level. rewrite u64_of_small by exact Hz.
  destruct (reads_uv f (Z.to_N l) (to_N_lt64 l Hz)) as [Hw Hc]. split.
  - intros rest. unfold read_level. rewrite Hw. cbn [rbind]. rewrite i64_of_to_N by exact Hz.
    rewrite u64_of_small by exact Hz. rewrite N.eqb_refl.
    destruct Hz as [H0 _]. replace (l <? 0)%Z with false by lia. reflexivity.
  - intros n Hn. unfold read_level. rewrite Hc by exact Hn. reflexivity.
Qed.

Lemma lenN_firstn_lt {A} n (l : list A) : (n < length l)%nat -> lenN (firstn n l) < lenN l.
Proof. intros H. unfold lenN. rewrite firstn_length. lia. Qed.

Lemma reads_bytes f b : len_ok b -> reads (read_bytes f) f (put_bytes b) b.
Proof.
  intros Hb. unfold len_ok in Hb. rewrite sr_two64_pow in Hb.
  pose proof (reads_uv f (lenN b) Hb) as Hu. unfold put_bytes. split.
  - intros rest. unfold read_bytes. rewrite <- app_assoc. rewrite (proj1 Hu). cbn [rbind].
    rewrite lenN_app. replace (lenN b + lenN rest <? lenN b) with false by lia.
    rewrite takeN_app, dropN_app. reflexivity.
  - intros n Hn. unfold read_bytes. rewrite (reads_firstn _ _ _ _ Hu).
    destruct (Nat.leb_spec (length (put_uvarint (lenN b))) n) as [Hle|Hlt]; [|reflexivity].
    cbn [rbind]. rewrite app_length in Hn.
    assert (Hlt : lenN (firstn (n - length (put_uvarint (lenN b))) b) < lenN b) by (apply lenN_firstn_lt; lia).
    replace (lenN (firstn (n - length (put_uvarint (lenN b))) b) <? lenN b) with true by lia. reflexivity.
Qed.

Section Cut.
  Variable p : rparams.
  Hypothesis pok : rparams_ok p.

  Lemma tag_small t : In t (tags p) -> t < 128.
  Proof. intros H. destruct pok as [_ F]. rewrite Forall_forall in F. specialize (F t H). lia. Qed.

  Lemma put_uvarint_small t : t < 128 -> put_uvarint t = [t].
  Proof.
    intros H. unfold put_uvarint. cbn [put_uvarint_f]. replace (128 <=? t) with false by lia.
    rewrite N.mod_small by lia. reflexivity.
  Qed.

  Lemma read_header_small t rest : t < 128 -> read_uv_may_eof FHeader true (t :: rest) = ROk t rest.
  Proof.
    intros H. unfold read_uv_may_eof, read_uvarint. cbn [read_uvarint_f].
    replace (t <? 128) with true by lia. change (0 =? 9) with false. cbn [andb].
    rewrite N.shiftl_0_r, N.lor_0_l. reflexivity.
  Qed.

  Lemma tag_of_in it : In (tag_of p it) (tags p).
  Proof. destruct it; cbn [tag_of tags In]; tauto. Qed.

  (* the tags are pairwise different: decode's switch takes the case of the item *)
  Ltac nodup_facts :=
    let H := fresh in
    destruct pok as [H _]; unfold tags in H;
    repeat match goal with
           | H : NoDup (_ :: _) |- _ => inversion H; clear H; subst
           end;
    cbn [In] in *.

  Ltac eqb_tags :=
    repeat match goal with
           | |- context [?a =? ?a] => rewrite (N.eqb_refl a)
           | |- context [?a =? ?b] =>
               let E := fresh in
               assert (E : (a =? b) = false) by (apply N.eqb_neq; intros ?; nodup_facts; intuition congruence);
               rewrite E; clear E
           end.

  (* decode's case for an item on the first n bytes of (payload ++ more) *)
  Lemma decode_field_cut it : item_ok it -> forall r n more,
    ((length (payload it) <= n)%nat ->
       decode_field p (tag_of p it) r (firstn n (payload it ++ more))
       = ROk (apply_item p r it) (firstn (n - length (payload it)) more)) /\
    ((n < length (payload it))%nat ->
       exists fld, decode_field p (tag_of p it) r (firstn n (payload it ++ more)) = RErr (ECorrupt fld RShort)).
  Proof.
    intros Hok r n more. unfold decode_field, decode_field_with.
    destruct it as [name|z|z|q|z|c|d|t]; cbn [tag_of payload apply_item item_ok] in *; eqb_tags.
    - (* comparer *)
      rewrite (reads_firstn _ _ _ _ (reads_bytes FComparer name Hok)).
      destruct (Nat.leb_spec (length (put_bytes name)) n); split; intros; try lia; [reflexivity|eexists; reflexivity].
    - rewrite (reads_firstn _ _ _ _ (reads_varint FJournalNum z Hok)).
      destruct (Nat.leb_spec (length (put_uvarint (Z.to_N z))) n); split; intros; try lia; [reflexivity|eexists; reflexivity].
    - rewrite (reads_firstn _ _ _ _ (reads_varint FNextFileNum z Hok)).
      destruct (Nat.leb_spec (length (put_uvarint (Z.to_N z))) n); split; intros; try lia; [reflexivity|eexists; reflexivity].
    - assert (Hq : q < 2 ^ 64) by (rewrite <- sr_two64_pow; exact Hok).
      rewrite (reads_firstn _ _ _ _ (reads_uv FSeqNum q Hq)).
      destruct (Nat.leb_spec (length (put_uvarint q)) n); split; intros; try lia; [reflexivity|eexists; reflexivity].
    - rewrite (reads_firstn _ _ _ _ (reads_varint FPrevJournalNum z Hok)).
      destruct (Nat.leb_spec (length (put_uvarint (Z.to_N z))) n); split; intros; try lia; [reflexivity|eexists; reflexivity].
    - (* compaction pointer: level, key *)
      destruct Hok as [Hl Hk]. rewrite <- app_assoc, app_length.
      rewrite (reads_firstn _ _ _ _ (reads_level FCpLevel _ Hl)).
      destruct (Nat.leb_spec (length (put_level (cp_level c))) n) as [H1|H1]; cbn [rbind];
        [|split; intros; [lia|eexists; reflexivity]].
      rewrite (reads_firstn _ _ _ _ (reads_bytes FCpIkey _ Hk)).
      destruct (Nat.leb_spec (length (put_bytes (cp_ikey c))) (n - length (put_level (cp_level c)))) as [H2|H2]; cbn [rbind];
        split; intros; try lia; [|eexists; reflexivity].
      destruct c as [c1 c2]. cbn [cp_level cp_ikey]. do 2 f_equal. lia.
    - (* deleted table: level, number *)
      destruct Hok as [Hl Hn]. rewrite <- app_assoc, app_length.
      rewrite (reads_firstn _ _ _ _ (reads_level FDelLevel _ Hl)).
      destruct (Nat.leb_spec (length (put_level (dt_level d))) n) as [H1|H1]; cbn [rbind];
        [|split; intros; [lia|eexists; reflexivity]].
      rewrite (reads_firstn _ _ _ _ (reads_varint FDelNum _ Hn)).
      destruct (Nat.leb_spec (length (put_uvarint (Z.to_N (dt_num d)))) (n - length (put_level (dt_level d)))) as [H2|H2]; cbn [rbind];
        split; intros; try lia; [|eexists; reflexivity].
      destruct d as [d1 d2]. cbn [dt_level dt_num]. do 2 f_equal. lia.
    - (* added table: level, number, size, smallest key, largest key *)
      destruct Hok as (Hl & Hn & Hs & Hi & Ha). repeat rewrite <- app_assoc. repeat rewrite app_length.
      rewrite (reads_firstn _ _ _ _ (reads_level FAddLevel _ Hl)).
      destruct (Nat.leb_spec (length (put_level (at_level t))) n) as [H1|H1]; cbn [rbind];
        [|split; intros; [lia|eexists; reflexivity]].
      rewrite (reads_firstn _ _ _ _ (reads_varint FAddNum _ Hn)).
      match goal with |- context [(?a <=? ?b)%nat] => destruct (Nat.leb_spec a b) as [H2|H2] end; cbn [rbind];
        [|split; intros; [lia|eexists; reflexivity]].
      rewrite (reads_firstn _ _ _ _ (reads_varint FAddSize _ Hs)).
      match goal with |- context [(?a <=? ?b)%nat] => destruct (Nat.leb_spec a b) as [H3|H3] end; cbn [rbind];
        [|split; intros; [lia|eexists; reflexivity]].
      rewrite (reads_firstn _ _ _ _ (reads_bytes FAddImin _ Hi)).
      match goal with |- context [(?a <=? ?b)%nat] => destruct (Nat.leb_spec a b) as [H4|H4] end; cbn [rbind];
        [|split; intros; [lia|eexists; reflexivity]].
      rewrite (reads_firstn _ _ _ _ (reads_bytes FAddImax _ Ha)).
      match goal with |- context [(?a <=? ?b)%nat] => destruct (Nat.leb_spec a b) as [H5|H5] end; cbn [rbind];
        split; intros; try lia; [|eexists; reflexivity].
      destruct t as [t1 t2 t3 t4 t5]. cbn [at_level at_num at_size at_imin at_imax]. do 2 f_equal. lia.
  Qed.

  Lemma enc_item_cons it : enc_item p it = tag_of p it :: payload it.
  Proof. unfold enc_item. rewrite put_uvarint_small by (apply tag_small, tag_of_in). reflexivity. Qed.

  (* decode on the first n bytes of the encoding of ANY list of in-range items, from ANY record state: the items
     wholly before the cut are applied; a cut between two items (or no cut) is a success, a cut inside an item
     is a corrupted "short read" *)
  Theorem decode_cut its : Forall item_ok its -> forall r n,
    match cut_items p its n with
    | (a, true) => decode p r (firstn n (enc_items p its)) = DOk (apply_items p r a)
    | (a, false) => exists fld, decode p r (firstn n (enc_items p its)) = DErr (ECorrupt fld RShort) (apply_items p r a)
    end.
  Proof.
    induction 1 as [|it more Hit Hmore IH]; intros r n.
    - cbn [cut_items enc_items flat_map]. rewrite firstn_nil. apply decode_nil.
    - cbn [cut_items enc_items flat_map]. rewrite enc_item_cons. cbn [length].
      destruct n as [|n].
      + cbn [Nat.leb firstn Nat.eqb]. apply decode_nil.
      + cbn [Nat.leb firstn app Nat.sub]. rewrite decode_unfold.
        rewrite read_header_small by (apply tag_small, tag_of_in).
        destruct (decode_field_cut it Hit r n (flat_map (enc_item p) more)) as [Hw Hc].
        destruct (Nat.leb_spec (length (payload it)) n) as [Hle|Hlt].
        * rewrite (Hw Hle). specialize (IH (apply_item p r it) (n - length (payload it))%nat).
          fold (enc_items p more) in *.
          destruct (cut_items p more (n - length (payload it))) as [a c]. exact IH.
        * destruct (Hc Hlt) as [fld E]. rewrite E. cbn [Nat.eqb]. exists fld. reflexivity.
  Qed.

  (* ---------------- whole encodings ---------------- *)
  Lemma cut_items_all its : forall n, (length (enc_items p its) <= n)%nat -> cut_items p its n = (its, true).
  Proof.
    induction its as [|it more IH]; intros n Hn; [reflexivity|].
    cbn [cut_items]. cbn [enc_items flat_map] in Hn. rewrite app_length in Hn.
    destruct (Nat.leb_spec (length (enc_item p it)) n); [|lia].
    rewrite IH by (unfold enc_items; lia). reflexivity.
  Qed.

  Theorem decode_items its r : Forall item_ok its -> decode p r (enc_items p its) = DOk (apply_items p r its).
  Proof.
    intros H. pose proof (decode_cut its H r (length (enc_items p its))) as D.
    rewrite cut_items_all in D by lia. rewrite firstn_all in D. exact D.
  Qed.

  (* ---------------- encode writes the items of the record ---------------- *)
  Lemma put_varint_ok z : z_in63 z -> put_varint z = Some (put_uvarint (Z.to_N z)).
  Proof. intros [H0 _]. unfold put_varint. replace (z <? 0)%Z with false by lia. reflexivity. Qed.

  Lemma oconcat_app l1 : forall l2 a b, oconcat l1 = Some a -> oconcat l2 = Some b -> oconcat (l1 ++ l2) = Some (a ++ b).
  Proof.
    induction l1 as [|x l1 IH]; intros l2 a b H1 H2; cbn [oconcat app] in *.
    - injection H1 as <-. exact H2.
    - destruct x as [x|]; cbn [obind] in *; [|discriminate].
      destruct (oconcat l1) as [a'|] eqn:E; cbn [obind] in *; [|discriminate]. injection H1 as <-.
      rewrite (IH l2 a' b eq_refl H2). cbn [obind]. rewrite app_assoc. reflexivity.
  Qed.

  Lemma oconcat_map {A} (g : A -> option bytes) (h : A -> item) (l : list A) :
    (forall a, In a l -> g a = Some (enc_item p (h a))) -> oconcat (map g l) = Some (enc_items p (map h l)).
  Proof.
    induction l as [|a l IH]; intros H; [reflexivity|]. cbn [map oconcat enc_items flat_map].
    rewrite (H a (or_introl eq_refl)). cbn [obind].
    rewrite IH by (intros; apply H; right; assumption). reflexivity.
  Qed.

  Lemma enc_items_app a b : enc_items p (a ++ b) = enc_items p a ++ enc_items p b.
  Proof. unfold enc_items. apply flat_map_app. Qed.

  Lemma Forall_app_inv {A} (P : A -> Prop) (a b : list A) : Forall P (a ++ b) -> Forall P a /\ Forall P b.
  Proof. intros H. rewrite Forall_forall in H. split; apply Forall_forall; intros x Hx; apply H, in_or_app; tauto. Qed.

  Theorem encode_items r : rec_ok p r -> encode p r = Some (enc_items p (items_of p r)).
  Proof.
    unfold rec_ok, items_of, encode. intros H.
    apply Forall_app_inv in H as [H1 H]. apply Forall_app_inv in H as [H2 H].
    apply Forall_app_inv in H as [H3 H]. apply Forall_app_inv in H as [H4 H].
    apply Forall_app_inv in H as [H5 H]. apply Forall_app_inv in H as [H6 H7].
    repeat rewrite enc_items_app.
    change (?a :: ?b :: ?c :: ?d :: ?l) with ([a] ++ [b] ++ [c] ++ [d] ++ l).
    repeat apply oconcat_app.
    - destruct (has r (tComparer p)); cbn [oconcat obind enc_items flat_map]; rewrite ?app_nil_r; reflexivity.
    - destruct (has r (tJournalNum p)); cbn [oconcat obind enc_items flat_map]; [|reflexivity].
      inversion H2; subst. rewrite put_varint_ok by assumption. cbn [obind]. rewrite !app_nil_r. reflexivity.
    - destruct (has r (tNextFileNum p)); cbn [oconcat obind enc_items flat_map]; [|reflexivity].
      inversion H3; subst. rewrite put_varint_ok by assumption. cbn [obind]. rewrite !app_nil_r. reflexivity.
    - destruct (has r (tSeqNum p)); cbn [oconcat obind enc_items flat_map]; rewrite ?app_nil_r; reflexivity.
    - apply oconcat_map. intros c _. reflexivity.
    - apply oconcat_map. intros d Hd. rewrite Forall_forall in H6.
      specialize (H6 (IDel d) (in_map IDel _ _ Hd)). destruct H6 as [_ Hn].
      unfold enc_dt. rewrite put_varint_ok by exact Hn. cbn [obind]. unfold enc_item. cbn [tag_of payload].
      reflexivity.
    - apply oconcat_map. intros t Ht. rewrite Forall_forall in H7.
      specialize (H7 (IAdd t) (in_map IAdd _ _ Ht)). destruct H7 as (_ & Hn & Hs & _).
      unfold enc_at. rewrite !put_varint_ok by assumption. cbn [obind]. unfold enc_item. cbn [tag_of payload].
      reflexivity.
  Qed.

  (* ---------------- the round trip ---------------- *)
  (* for EVERY record whose written fields are in range, whatever its bits and its unwritten fields are: encode
     does not panic, and decoding the bytes into any record state r0 applies the written fields to r0 *)
  Theorem record_roundtrip r : rec_ok p r ->
    exists b, encode p r = Some b /\ forall r0, decode p r0 b = DOk (apply_items p r0 (items_of p r)).
  Proof.
    intros H. exists (enc_items p (items_of p r)). split; [apply encode_items; exact H|].
    intros r0. apply decode_items. exact H.
  Qed.

  (* a strict prefix of a valid encoding: the fields wholly before the cut when it falls between two fields —
     a shorter record, not an error — and otherwise a corrupted "short read" with those fields stored *)
  Theorem record_prefix r b : rec_ok p r -> encode p r = Some b -> forall r0 n,
    match cut_items p (items_of p r) n with
    | (a, true) => decode p r0 (firstn n b) = DOk (apply_items p r0 a)
    | (a, false) => exists fld, decode p r0 (firstn n b) = DErr (ECorrupt fld RShort) (apply_items p r0 a)
    end.
  Proof.
    intros H E r0 n. rewrite (encode_items r H) in E. injection E as <-.
    apply decode_cut. exact H.
  Qed.
End Cut.
