(* Codec/BatchCutProofs.v — the batch decoder (Codec/Batch.v) off the happy path: on a CUT encoding
   (exactly which error, after exactly which records), on ARBITRARY bytes below the int64 wrap (total),
   and above it (the witnesses: a loop that never advances, negative indexes).  Proof file. *)
From GL Require Import Base.Bytes Base.BytesProofs Base.Varint Base.VarintProofs Codec.IKey Codec.Batch Codec.BatchProofs.
From Coq Require Import Arith ZArith Lia ZifyN ZifyNat ZifyBool.
Open Scope N_scope.

Lemma takeN_app_ge {A} n (a b : list A) : lenN a <= n -> takeN n (a ++ b) = a ++ takeN (n - lenN a) b.
Proof.
  unfold takeN, lenN. intros H. rewrite firstn_app. rewrite firstn_all2 by lia. f_equal. f_equal. lia.
Qed.

Lemma takeN_cons {A} n (x : A) l : 1 <= n -> takeN n (x :: l) = x :: takeN (n - 1) l.
Proof.
  unfold takeN. intros H. destruct (N.to_nat n) as [|m] eqn:E; [lia|].
  cbn [firstn]. f_equal. f_equal. lia.
Qed.

Section Cut.
  Variable p : kparams.
  Hypothesis pok : kparams_ok p.

  (* the error decodeBatch reports when a record is cut after m of its bytes (0 < m < its length): before
     the end of the key it is the key length that does not fit, after it the value length *)
  Definition cut_err (r : brec) (m : N) : berr :=
    match r with (kt, k, v) =>
      if m <? 1 + lenN (put_uvarint (lenN k)) + lenN k then EKeyLen else EValLen
    end.

  Lemma decode_cut A (fn : A -> Z -> bidx -> cbres A) pre r m f i a :
    rec_ok p r -> 0 < m -> m < lenN (enc_rec p r) -> lenN pre + lenN (enc_rec p r) < 2 ^ 63 ->
    decode_loop p (S f) (pre ++ takeN m (enc_rec p r)) fn i (Z.of_N (lenN pre)) a = DErr (cut_err r m) a.
  Proof.
    destruct r as [[kt k] v]. unfold rec_ok. cbn [fst]. intros Hk Hm0 Hm Hlen.
    pose proof (val_lt_256 p pok) as H256.
    change (2 ^ 63) with 9223372036854775808 in Hlen.
    assert (Hkt : kt mod 256 = kt) by (apply N.mod_small; lia).
    unfold enc_rec in *. rewrite Hkt in *.
    set (vk := put_uvarint (lenN k)) in *.
    pose proof (put_uvarint_length (lenN k)) as Hvk. fold vk in Hvk.
    set (tailv := if kt =? keyTypeVal p then put_uvarint (lenN v) ++ v else []) in *.
    rewrite takeN_cons by lia.
    rewrite lenN_cons, !lenN_app in Hm, Hlen.
    set (q := takeN (m - 1) (vk ++ k ++ tailv)).
    assert (Lq : lenN q = m - 1).
    { unfold q. apply lenN_takeN. rewrite !lenN_app. lia. }
    set (data := pre ++ kt :: q).
    assert (Ldata : lenN data = lenN pre + m) by (unfold data; rewrite lenN_app, lenN_cons; lia).
    rewrite decode_loop_S.
    replace (Z.of_N (lenN pre) <? zlen data)%Z with true by (unfold zlen; lia).
    unfold data at 1. rewrite zget_app.
    replace (keyTypeVal p <? kt) with false by lia.
    assert (D1 : zdrop data (Z.of_N (lenN pre) + 1)%Z = Some q).
    { replace (Z.of_N (lenN pre) + 1)%Z with (Z.of_N (lenN (pre ++ [kt]))) by (rewrite lenN_app, lenN_cons, lenN_nil; lia).
      unfold data. change (pre ++ kt :: q) with (pre ++ [kt] ++ q). rewrite app_assoc. apply zdrop_app. }
    rewrite D1. unfold cut_err. fold vk.
    destruct (N.ltb_spec (m - 1) (lenN vk)) as [HA|HA].
    - (* inside the key-length varint *)
      unfold q. rewrite takeN_app_le by lia. unfold vk. rewrite uvarint_strict_prefix by (fold vk; lia).
      fold vk. replace (m <? 1 + lenN vk + lenN k) with true by lia. reflexivity.
    - unfold q. rewrite takeN_app_ge by lia. unfold vk at 1.
      rewrite uvarint_put by (change (2 ^ 64) with 18446744073709551616; lia).
      fold vk. cbv zeta.
      rewrite int_of_u64_small by (change (2 ^ 63) with 9223372036854775808; lia).
      set (o2 := (Z.of_N (lenN pre) + 1 + Z.of_N (lenN vk))%Z).
      rewrite (int64_small (o2 + Z.of_N (lenN k))) by (unfold two63, o2; lia).
      destruct (N.ltb_spec (m - 1 - lenN vk) (lenN k)) as [HB|HB].
      + (* inside the key *)
        replace (zlen data <? o2 + Z.of_N (lenN k))%Z with true by (unfold zlen, o2; lia).
        replace (m <? 1 + lenN vk + lenN k) with true by lia. reflexivity.
      + (* after the key: a value record cut in its value part *)
        replace (zlen data <? o2 + Z.of_N (lenN k))%Z with false by (unfold zlen, o2; lia).
        replace (m <? 1 + lenN vk + lenN k) with false by lia.
        unfold tailv in *. clear tailv.
        destruct (kt =? keyTypeVal p) eqn:Ekt; [|rewrite lenN_nil in Hm; lia].
        set (vv := put_uvarint (lenN v)) in *.
        pose proof (put_uvarint_length (lenN v)) as Hvv. fold vv in Hvv.
        rewrite lenN_app in Hm, Hlen.
        set (j := m - 1 - lenN vk - lenN k).
        assert (Eq : takeN (m - 1 - lenN vk) (k ++ vv ++ v) = k ++ takeN j (vv ++ v)).
        { rewrite takeN_app_ge by lia. reflexivity. }
        fold q. assert (Eq' : q = vk ++ k ++ takeN j (vv ++ v)).
        { unfold q. rewrite takeN_app_ge by lia. rewrite Eq. reflexivity. }
        assert (D2 : zdrop data (o2 + Z.of_N (lenN k))%Z = Some (takeN j (vv ++ v))).
        { replace (o2 + Z.of_N (lenN k))%Z with (Z.of_N (lenN (pre ++ [kt] ++ vk ++ k)))
            by (unfold o2; rewrite !lenN_app, lenN_cons, lenN_nil; lia).
          unfold data. rewrite Eq'.
          replace (pre ++ kt :: vk ++ k ++ takeN j (vv ++ v)) with ((pre ++ [kt] ++ vk ++ k) ++ takeN j (vv ++ v))
            by (rewrite <- ?app_assoc; cbn [app]; rewrite <- ?app_assoc; reflexivity).
          apply zdrop_app. }
        rewrite D2.
        destruct (N.ltb_spec j (lenN vv)) as [HC|HC].
        * rewrite takeN_app_le by lia. unfold vv. rewrite uvarint_strict_prefix by (fold vv; lia). reflexivity.
        * rewrite takeN_app_ge by lia. unfold vv at 1.
          rewrite uvarint_put by (change (2 ^ 64) with 18446744073709551616; lia).
          fold vv.
          rewrite int_of_u64_small by (change (2 ^ 63) with 9223372036854775808; lia).
          rewrite (int64_small (o2 + Z.of_N (lenN k) + Z.of_N (lenN vv) + Z.of_N (lenN v))) by (unfold two63, o2; lia).
          replace (zlen data <? o2 + Z.of_N (lenN k) + Z.of_N (lenN vv) + Z.of_N (lenN v))%Z with true
            by (unfold zlen, o2, j in *; lia).
          reflexivity.
  Qed.

  (* where a cut at n bytes falls: the records wholly before it, and the record it cuts with the number of
     its bytes that remain *)
  Fixpoint cut_at (n : N) (recs : list brec) : list brec * option (brec * N) :=
    match recs with
    | [] => ([], None)
    | r :: t =>
        if n =? 0 then ([], None)
        else if lenN (enc_rec p r) <=? n then
          let '(a, b) := cut_at (n - lenN (enc_rec p r)) t in (r :: a, b)
        else ([], Some (r, n))
    end.

  Lemma cut_at_spec recs : forall n,
    match cut_at n recs with
    | (done, None) => takeN n (enc_recs p recs) = enc_recs p done /\ exists rest, recs = done ++ rest
    | (done, Some (r, m)) =>
        takeN n (enc_recs p recs) = enc_recs p done ++ takeN m (enc_rec p r) /\
        0 < m /\ m < lenN (enc_rec p r) /\ exists rest, recs = done ++ r :: rest
    end.
  Proof.
    induction recs as [|r t IH]; intros n; cbn [cut_at].
    - split; [unfold takeN; destruct (N.to_nat n); reflexivity | exists []; reflexivity].
    - destruct (N.eqb_spec n 0) as [->|Hn].
      + split; [reflexivity | exists (r :: t); reflexivity].
      + destruct (N.leb_spec (lenN (enc_rec p r)) n) as [Hle|Hgt].
        * specialize (IH (n - lenN (enc_rec p r))).
          destruct (cut_at (n - lenN (enc_rec p r)) t) as [a [[r' m]|]].
          -- destruct IH as (E & H1 & H2 & rest & ->). split; [|split; [exact H1|split; [exact H2|]]].
             ++ rewrite !enc_recs_cons, takeN_app_ge by exact Hle. rewrite E, app_assoc. reflexivity.
             ++ exists rest. reflexivity.
          -- destruct IH as (E & rest & ->). split.
             ++ rewrite !enc_recs_cons, takeN_app_ge by exact Hle. rewrite E. reflexivity.
             ++ exists rest. reflexivity.
        * split; [|split; [lia|split; [exact Hgt|exists t; reflexivity]]].
          rewrite enc_recs_cons, takeN_app_le by lia. reflexivity.
  Qed.

  (* ---------------- C01_batch_decode_total, the part about cut encodings ---------------- *)
  (* Batch.Load of the first n bytes of an encoding: if the cut falls between two records the records
     before it are returned (a shorter batch, no error: the plain encoding carries no count); if it falls
     inside a record the records before it have been indexed and the error is 'invalid key length' when the
     cut is before the end of that record's key, 'invalid value length' after it *)
  Theorem load_prefix recs n :
    Forall (rec_ok p) recs -> lenN (enc_recs p recs) < 2 ^ 59 ->
    batch_load p (takeN n (enc_recs p recs)) =
    match cut_at n recs with
    | (done, None) => DOk (mkbatch (takeN n (enc_recs p recs)) (idxs_of p 0 done) (ilen_of p done))
    | (done, Some (r, m)) => DErr (cut_err r m) (mkbatch (takeN n (enc_recs p recs)) (idxs_of p 0 done) (ilen_of p done))
    end.
  Proof.
    intros Hok Hlen.
    assert (Hlen' : lenN (enc_recs p recs) < 2 ^ 63).
    { change (2 ^ 59) with 576460752303423488 in Hlen. change (2 ^ 63) with 9223372036854775808. lia. }
    pose proof (cut_at_spec recs n) as S.
    destruct (cut_at n recs) as [done [[r m]|]].
    - destruct S as (E & Hm0 & Hm & rest & ->).
      rewrite E. unfold batch_load, batch_decode.
      apply Forall_app in Hok as [Hd Hr]. inversion Hr as [|? ? Hr1 _]; subst.
      rewrite enc_recs_app, enc_recs_cons, !lenN_app in Hlen, Hlen'.
      pose proof (decode_recs p pok batch decode_cb done [] (takeN m (enc_rec p r))
                    (decode_fuel (enc_recs p done ++ takeN m (enc_rec p r))) 0%Z
                    (mkbatch (enc_recs p done ++ takeN m (enc_rec p r)) [] 0%Z) Hd) as H.
      cbn [app lenN length N.of_nat] in H. change (Z.of_N 0) with 0%Z in H.
      assert (Lt : lenN (takeN m (enc_rec p r)) = m) by (apply lenN_takeN; lia).
      pose proof (enc_recs_len p done) as Hl.
      assert (Hf : (length done < decode_fuel (enc_recs p done ++ takeN m (enc_rec p r)))%nat).
      { unfold decode_fuel. rewrite app_length. unfold lenN in Hl. lia. }
      rewrite H by (try lia; rewrite lenN_app, Lt; change (2 ^ 63) with 9223372036854775808 in *; lia).
      rewrite decode_cb_fold. cbn [b_data b_index b_ilen app].
      pose proof (ilen_of_bound p done) as Hb.
      rewrite ilen_fold by (try exact pok; unfold two63; change (2 ^ 59) with 576460752303423488 in Hlen; lia).
      destruct (decode_fuel (enc_recs p done ++ takeN m (enc_rec p r)) - length done)%nat as [|f] eqn:Ef; [lia|].
      rewrite (decode_cut batch decode_cb (enc_recs p done) r m f _ _ Hr1 Hm0 Hm)
        by (change (2 ^ 63) with 9223372036854775808 in *; lia).
      rewrite Z.add_0_l. reflexivity.
    - destruct S as (E & rest & ->).
      rewrite E. apply Forall_app in Hok as [Hd _].
      rewrite enc_recs_app, lenN_app in Hlen.
      pose proof (load_dump p pok done Hd) as L. rewrite batch_of_spec in L. unfold batch_dump in L. cbn [b_data] in L.
      apply L. lia.
  Qed.

  (* ---------------- arbitrary bytes below the int64 wrap ---------------- *)
  (* no length field of the data, read at any offset, reaches past 2^63 together with the data's length *)
  Definition small_lens (data : bytes) : Prop :=
    forall o, o <= lenN data ->
      match uvarint (dropN o data) with UvOk x _ => x + lenN data < 2 ^ 63 | _ => True end.

  Definition dres_fine {A} (r : dres A) : Prop :=
    match r with DOk _ | DErr _ _ => True | _ => False end.

  Lemma decode_total_loop A (fn : A -> Z -> bidx -> cbres A) data :
    small_lens data ->
    (forall a i ix, match fn a i ix with CbOk _ | CbErr _ _ => True | _ => False end) ->
    forall fuel i o a, (0 <= o <= zlen data)%Z -> (Z.to_nat (zlen data - o) < fuel)%nat ->
    dres_fine (decode_loop p fuel data fn i o a).
  Proof.
    intros Hs Hfn. induction fuel as [|f IH]; intros i o a Ho Hf; [lia|].
    rewrite decode_loop_S.
    destruct (Z.ltb_spec o (zlen data)) as [Hlt|Hge]; [|exact I].
    unfold zlen in *.
    assert (G : exists kt, zget data o = Some kt).
    { unfold zget. replace (o <? 0)%Z with false by lia.
      destruct (nth_error data (Z.to_nat o)) eqn:E; [eexists; reflexivity|].
      apply nth_error_None in E. unfold lenN in Hlt. lia. }
    destruct G as [kt ->].
    destruct (keyTypeVal p <? kt); [exact I|].
    replace (o + 1)%Z with (Z.of_N (Z.to_N o + 1)) by lia.
    rewrite zdrop_ok by lia.
    pose proof (Hs (Z.to_N o + 1)) as S1.
    destruct (uvarint (dropN (Z.to_N o + 1) data)) as [x n| |] eqn:U; try exact I.
    specialize (S1 ltac:(lia)).
    unfold uvarint in U. apply uvarint_f_ok_bounds in U. rewrite lenN_dropN in U.
    cbv zeta. change (2 ^ 63) with 9223372036854775808 in S1.
    rewrite int_of_u64_small by (change (2 ^ 63) with 9223372036854775808; lia).
    rewrite int64_small by (unfold two63; lia).
    set (o3 := (Z.of_N (Z.to_N o + 1) + Z.of_N n + Z.of_N x)%Z).
    destruct (Z.ltb_spec (Z.of_N (lenN data)) o3) as [Hbig|Hfit]; [exact I|].
    destruct (kt =? keyTypeVal p).
    - replace o3 with (Z.of_N (Z.to_N o3)) by (unfold o3; lia).
      rewrite zdrop_ok by (unfold o3 in *; lia).
      pose proof (Hs (Z.to_N o3)) as S2.
      destruct (uvarint (dropN (Z.to_N o3) data)) as [y m| |] eqn:U2; try exact I.
      specialize (S2 ltac:(unfold o3 in *; lia)).
      unfold uvarint in U2. apply uvarint_f_ok_bounds in U2. rewrite lenN_dropN in U2.
      change (2 ^ 63) with 9223372036854775808 in S2.
      rewrite int_of_u64_small by (change (2 ^ 63) with 9223372036854775808; lia).
      rewrite int64_small by (unfold two63, o3 in *; lia).
      match goal with |- context [(Z.of_N (lenN data) <? ?e)%Z] => destruct (Z.ltb_spec (Z.of_N (lenN data)) e) as [Hb2|Hf2] end;
        [exact I|].
      match goal with |- context [fn a i ?ix] => pose proof (Hfn a i ix) as F; destruct (fn a i ix) end; try exact I; try contradiction.
      apply IH; unfold zlen, o3 in *; lia.
    - match goal with |- context [fn a i ?ix] => pose proof (Hfn a i ix) as F; destruct (fn a i ix) end; try exact I; try contradiction.
      apply IH; unfold zlen, o3 in *; lia.
  Qed.

  (* Batch.Load on arbitrary bytes none of whose length fields wraps the offset: a batch or an error,
     never a panic, and the fuel len(data)+1 is never exhausted *)
  Theorem load_total data : small_lens data ->
    (exists b, batch_load p data = DOk b) \/ (exists e b, batch_load p data = DErr e b).
  Proof.
    intros Hs. unfold batch_load, batch_decode.
    pose proof (decode_total_loop batch decode_cb data Hs (fun _ _ _ => I) (decode_fuel data) 0%Z 0%Z
                  (mkbatch data [] 0%Z)) as T.
    assert (dres_fine (decode_loop p (decode_fuel data) data decode_cb 0%Z 0%Z (mkbatch data [] 0%Z))) as F.
    { apply T; unfold zlen, decode_fuel, lenN; lia. }
    destruct (decode_loop p (decode_fuel data) data decode_cb 0%Z 0%Z (mkbatch data [] 0%Z)) as [b|e b| |];
      try contradiction.
    - left. replace ((0 <=? -1) && negb (Z.of_nat (length (b_index b)) =? -1))%Z with false by lia.
      exists b. reflexivity.
    - right. exists e, b. reflexivity.
  Qed.

  (* and more fuel never changes an answer that is not OutOfFuel *)
End Cut.

(* ------------------------------------------------------------------ above the wrap: witnesses *)
(* keyTypeDel, key length 2^64-11 as a ten-byte uvarint: int(x) = -11, o+int(x) = 0 <= len(data) passes the
   bounds test, keyLen = -11 is recorded, o returns to 0: the loop never advances.  For EVERY amount of fuel
   the model's loop runs out of it (Go: Batch.Load never returns and its index grows without bound). *)
Definition loop_input : bytes := [0; 245; 255; 255; 255; 255; 255; 255; 255; 255; 1].

Section Witness.
  Variable p : kparams.
  Hypothesis del0 : keyTypeDel p = 0.
  Hypothesis val1 : keyTypeVal p = 1.

  Lemma loop_input_step f i b :
    decode_loop p (S f) loop_input decode_cb i 0%Z b =
    decode_loop p f loop_input decode_cb (i + 1)%Z 0%Z
      (mkbatch (b_data b) (b_index b ++ [mkidx 0 11%Z (-11)%Z 0%Z 0%Z]) (int64 (b_ilen b + (-11 + 0 + 8)))%Z).
  Proof.
    rewrite decode_loop_S. rewrite val1.
    change (0 <? zlen loop_input)%Z with true. change (zget loop_input 0%Z) with (Some 0).
    change (1 <? 0) with false. cbv iota.
    change (zdrop loop_input (0 + 1)%Z) with (Some [245; 255; 255; 255; 255; 255; 255; 255; 255; 1]).
    cbv iota.
    replace (uvarint [245; 255; 255; 255; 255; 255; 255; 255; 255; 1]) with (UvOk 18446744073709551605 10)
      by (vm_compute; reflexivity).
    cbv iota zeta.
    replace (int_of_u64 18446744073709551605) with (-11)%Z by (vm_compute; reflexivity).
    replace (int64 (0 + 1 + Z.of_N 10 + -11))%Z with 0%Z by (vm_compute; reflexivity).
    change (zlen loop_input <? 0)%Z with false. change (0 =? 1) with false. cbv iota.
    unfold decode_cb at 1. cbn [bi_klen bi_vlen]. reflexivity.
  Qed.

  Theorem loop_input_never_ends : forall fuel i b,
    decode_loop p fuel loop_input decode_cb i 0%Z b = DFuel.
  Proof.
    induction fuel as [|f IH]; intros i b; [reflexivity|].
    rewrite loop_input_step. apply IH.
  Qed.
End Witness.
