(* Codec/Snappy.v — executable model of the BLOCK-format decoder of github.com/golang/snappy
   (decode.go: Decode / decodedLen; decode_other.go: decode), the codec leveldb/table uses for
   blockTypeSnappyCompression.  Only the decoder is modelled: it is the instance of the abstract
   [decompress] of Codec/Table.v with which the correspondence run reads tables the Go writer
   compressed (Corr/C13Run.v); the encoder (a heuristic match finder) is not modelled - the
   contract decompress (compress x) = Some x that the writer theorems assume of the pair is
   validated on every run on the blocks the Go encoder actually produced (case KSnappy and the
   snappy tables of KTable).
   [None] = ErrCorrupt.  (approx) the 32-bit-only ErrTooLarge and the literal-length overflow of a
   32-bit int are not modelled (64-bit build).  Model file: definitions only. *)
From GL Require Export Base.Bytes Base.Varint.

(* the forward byte-by-byte copy of [n] bytes from [offset] back; the output is kept reversed *)
Fixpoint sn_copy (n : nat) (offset : nat) (out_rev : bytes) : bytes :=
  match n with
  | O => out_rev
  | S n' => sn_copy n' offset (nth (offset - 1) out_rev 0 :: out_rev)
  end.

(* little-endian value of the first k bytes *)
Definition sn_le (k : N) (src : bytes) : N := le_decode (takeN k src).

(* one pass of the loop of decode per unit of fuel; [room] = len(dst) - d *)
Fixpoint sn_loop (fuel : nat) (src : bytes) (out_rev : bytes) (room : N) : option bytes :=
  match src with
  | [] => if room =? 0 then Some out_rev else None
  | tag :: rest =>
      match fuel with
      | O => None
      | S f =>
          let kind := tag mod 4 in
          let hi := tag / 4 in
          if kind =? 0 then
            (* tagLiteral: the length is in the tag, or in the next 1..4 bytes *)
            let extra := if hi <? 60 then 0 else hi - 59 in
            if lenN rest <? extra then None
            else
              let x := if hi <? 60 then hi else sn_le extra rest in
              let body := dropN extra rest in
              let len := x + 1 in
              if (room <? len) || (lenN body <? len) then None
              else sn_loop f (dropN len body) (rev (takeN len body) ++ out_rev) (room - len)
          else
            (* tagCopy1 / tagCopy2 / tagCopy4 *)
            let nb := if kind =? 1 then 1 else if kind =? 2 then 2 else 4 in
            if lenN rest <? nb then None
            else
              let len := if kind =? 1 then 4 + hi mod 8 else 1 + hi in
              let offset := if kind =? 1 then (tag / 32) * 256 + sn_le 1 rest else sn_le nb rest in
              if (offset =? 0) || (lenN out_rev <? offset) || (room <? len) then None
              else sn_loop f (dropN nb rest) (sn_copy (N.to_nat len) (N.to_nat offset) out_rev) (room - len)
      end
  end.

(* snappy.Decode(nil, src) *)
Definition snappy_decode (src : bytes) : option bytes :=
  match uvarint src with
  | UvOk v n =>
      if 4294967295 <? v then None
      else option_map (@rev N) (sn_loop (length src) (dropN n src) [] v)
  | _ => None
  end.
