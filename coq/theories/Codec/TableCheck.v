(* Codec/TableCheck.v — executable format membership: [table_parse] reads the index block and
   every data block of a [treader]; [table_wfb] decides the well-formedness predicate the reader
   theorems are stated over ([table_wf], TableProofs.v; soundness in TableCheckProofs.v): every
   block is exactly what blockWriter produces for its pairs with the given restart interval, the
   index maps separators to handles, separators satisfy last <= sep < next first, handles do not
   go backwards.  The correspondence run evaluates it on files written by the Go writer.
   Model file: definitions only. *)
From GL Require Export Codec.Table.

Definition block_eqb (a b : block) : bool :=
  beq (b_data a) (b_data b) && (b_rlen a =? b_rlen b) && (b_roff a =? b_roff b).

Definition two32 : N := 4294967296.
Definition two64 : N := 18446744073709551616.

(* b is the block blockWriter builds for kvs *)
Definition is_built (ri : N) (kvs : list (bytes * bytes)) (b : block) : bool :=
  (lenN (block_build ri kvs) <? two32) &&
  match read_block (block_build ri kvs) with Ok b' => block_eqb b b' | _ => false end.

Fixpoint sortedb_from (c : comparer) (k : bytes) (l : list (bytes * bytes)) : bool :=
  match l with
  | [] => true
  | (k', _) :: r => ltb c k k' && sortedb_from c k' r
  end.
Definition sortedb (c : comparer) (l : list (bytes * bytes)) : bool :=
  match l with [] => true | (k, _) :: r => sortedb_from c k r end.

Fixpoint decode_handles (l : list (bytes * bytes)) : option (list bhandle) :=
  match l with
  | [] => Some []
  | (_, v) :: r =>
      match decode_bh v with
      | BhOk h _ => if beq (encode_bh h) v then option_map (cons h) (decode_handles r) else None
      | _ => None
      end
  end.

Fixpoint fetch_all (rd : treader) (hs : list bhandle) : option (list (list (bytes * bytes))) :=
  match hs with
  | [] => Some []
  | h :: r =>
      match tr_fetch rd h with
      | Ok b => match block_entries b with
                | Ok kvs => option_map (cons kvs) (fetch_all rd r)
                | _ => None
                end
      | _ => None
      end
  end.

Definition table_parse (rd : treader) : option (list (list (bytes * bytes)) * list bytes * list bhandle) :=
  match tr_index rd with
  | Ok ib =>
      match block_entries ib with
      | Ok ients =>
          match decode_handles ients with
          | Some hs => option_map (fun bl => (bl, map fst ients, hs)) (fetch_all rd hs)
          | None => None
          end
      | _ => None
      end
  | _ => None
  end.

Definition bh_zero : bhandle := mkBH 0 0.

Definition table_wfb (c : comparer) (rd : treader) (ri : N)
    (blocks : list (list (bytes * bytes))) (seps : list bytes) (hs : list bhandle) : bool :=
  let m := length blocks in
  Nat.eqb (length seps) m && Nat.eqb (length hs) m && Nat.ltb 0 m && (1 <=? ri) &&
  match tr_index rd with
  | Ok ib => is_built 1 (combine seps (map encode_bh hs)) ib
  | _ => false
  end &&
  forallb (fun j =>
    match tr_fetch rd (nth j hs bh_zero) with
    | Ok b => is_built ri (nth j blocks []) b
    | _ => false
    end &&
    (bh_off (nth j hs bh_zero) <? two64) && (bh_len (nth j hs bh_zero) <? two64) &&
    forallb (fun x => leb c (fst x) (nth j seps [])) (nth j blocks []) &&
    forallb (fun x => ltb c (nth j seps []) (fst x)) (nth (S j) blocks []) &&
    (if Nat.ltb (S j) m then bh_off (nth j hs bh_zero) <=? bh_off (nth (S j) hs bh_zero) else true) &&
    (bh_off (nth j hs bh_zero) <=? tr_dataEnd rd)) (seq 0 m) &&
  sortedb c (concat blocks) &&
  (forallb (fun b => match b with [] => false | _ => true end) blocks
   || match blocks with [[]] => true | _ => false end).

(* the pairs of a table that passes the check *)
Definition table_check (c : comparer) (rd : treader) (ri : N) : option (list (bytes * bytes)) :=
  match table_parse rd with
  | Some (bl, se, hs) => if table_wfb c rd ri bl se hs then Some (concat bl) else None
  | None => None
  end.
