(* Codec/TableProofs.v — Stage B: the table reader over an abstract block store.
   [table_wf] says what a well-formed table is (index block maps separators to handles, every
   handle fetches a block holding that block's pairs, separators satisfy last <= sep < next first);
   find / Get / OffsetOf / filter independence are proved from it.  The iterator is in
   TableIterProofs.v; that the writer produces a [table_wf] table is in TableWriteProofs.v. *)
From GL Require Import Base.Bytes Base.BytesProofs Base.Varint Base.VarintProofs Base.Order Base.OrderProofs
  Base.Cursor Base.CursorProofs Codec.Block Codec.BlockEnc Codec.BlockProofs Codec.Table.
From Coq Require Import Arith ZArith Lia ZifyN ZifyNat ZifyBool.

Local Open Scope N_scope.

(* ------------------------------------------------------------ block handles *)
Lemma decode_encode_bh h : bh_off h < 2 ^ 64 -> bh_len h < 2 ^ 64 ->
  decode_bh (encode_bh h) = BhOk h (lenN (encode_bh h)).
Proof.
  intros H1 H2. unfold decode_bh, encode_bh.
  rewrite uvarint_put by exact H1. rewrite dropN_app.
  rewrite <- (app_nil_r (put_uvarint (bh_len h))) at 1. rewrite uvarint_put by exact H2.
  destruct h as [o l]; cbn [bh_off bh_len]. rewrite lenN_app. reflexivity.
Qed.

(* ------------------------------------------------------------ lists of blocks *)
Definition good_block (blk : block) (kvs : list (bytes * bytes)) : Prop :=
  exists off ris, block_layout kvs blk off ris.

Definition bh0 : bhandle := mkBH 0 0.

Lemma in_concat_firstn {A} (ls : list (list A)) j x :
  In x (concat (firstn j ls)) -> exists j', (j' < j)%nat /\ (j' < length ls)%nat /\ In x (nth j' ls []).
Proof.
  revert j. induction ls as [|l ls IH]; intros j H.
  - rewrite firstn_nil in H. destruct H.
  - destruct j as [|j]; [destruct H|]. cbn [firstn concat] in H. apply in_app_or in H as [H|H].
    + exists 0%nat. cbn [nth length]. repeat split; try lia. exact H.
    + destruct (IH j H) as (j' & H1 & H2 & H3). exists (S j'). cbn [nth length]. repeat split; try lia. exact H3.
Qed.

Lemma in_concat_nth {A} (ls : list (list A)) x :
  In x (concat ls) -> exists j, (j < length ls)%nat /\ In x (nth j ls []).
Proof.
  intros H. rewrite <- (firstn_all ls) in H. apply in_concat_firstn in H as (j & _ & H2 & H3). eauto.
Qed.

Lemma in_nth_concat {A} (ls : list (list A)) j x : (j < length ls)%nat -> In x (nth j ls []) -> In x (concat ls).
Proof.
  intros Hj H. apply in_concat. exists (nth j ls []). split; [apply nth_In; exact Hj | exact H].
Qed.

Lemma concat_split {A} (ls : list (list A)) j : (j < length ls)%nat ->
  concat ls = concat (firstn j ls) ++ nth j ls [] ++ concat (skipn (S j) ls).
Proof.
  intros H. rewrite (BlockEnc.split_nth ls j [] H) at 1. rewrite concat_app. cbn [concat]. reflexivity.
Qed.

Lemma nth_error_firstn_lt {A} (l : list A) : forall i i', (i' < i)%nat -> nth_error (firstn i l) i' = nth_error l i'.
Proof.
  induction l as [|x l IH]; intros i i' H; [rewrite firstn_nil; destruct i'; reflexivity|].
  destruct i as [|i]; [lia|]. destruct i' as [|i']; [reflexivity|]. cbn [firstn nth_error]. apply IH. lia.
Qed.

(* the first pair whose key is >= key, as a split of the list *)
Definition first_ge_at {V} (c : comparer) (key : bytes) (l : list (bytes * V)) (kv : bytes * V) : Prop :=
  exists pre post, l = pre ++ kv :: post /\ (forall x, In x pre -> cmp c (fst x) key = Lt) /\ cmp c (fst kv) key <> Lt.
Definition none_ge {V} (c : comparer) (key : bytes) (l : list (bytes * V)) : Prop :=
  forall x, In x l -> cmp c (fst x) key = Lt.

Lemma first_ge_at_fn {V} c key (l : list (bytes * V)) kv :
  first_ge_at c key l kv -> exists i, first_ge c key l 0 = Some i /\ nth_error l i = Some kv.
Proof.
  intros (pre & post & -> & Hpre & Hkv). exists (length pre). destruct kv as [k v].
  assert (E : nth_error (pre ++ (k, v) :: post) (length pre) = Some (k, v)).
  { rewrite nth_error_app2 by lia. rewrite Nat.sub_diag. reflexivity. }
  split; [|exact E].
  apply (first_ge_some_intro c _ key 0 (length pre) k v E Hkv).
  intros j' k' v' Hj Hn. rewrite nth_error_app1 in Hn by exact Hj.
  apply (Hpre (k', v')). eapply nth_error_In; eauto.
Qed.

Lemma first_ge_split {V} c key (pre : list (bytes * V)) kv post :
  (forall x, In x pre -> cmp c (fst x) key = Lt) -> cmp c (fst kv) key <> Lt ->
  first_ge c key (pre ++ kv :: post) 0 = Some (length pre).
Proof.
  intros Hpre Hkv. destruct kv as [k v].
  assert (E : nth_error (pre ++ (k, v) :: post) (length pre) = Some (k, v)).
  { rewrite nth_error_app2 by lia. rewrite Nat.sub_diag. reflexivity. }
  apply (first_ge_some_intro c _ key 0 (length pre) k v E Hkv).
  intros j' k' v' Hj Hn. rewrite nth_error_app1 in Hn by exact Hj.
  apply (Hpre (k', v')). eapply nth_error_In; eauto.
Qed.

Lemma none_ge_fn {V} c key (l : list (bytes * V)) : none_ge c key l -> first_ge c key l 0 = None.
Proof.
  intros H. apply first_ge_none_intro. intros j k' v' Hn. apply (H (k', v')). eapply nth_error_In; eauto.
Qed.

Lemma c_seek_at {V} c key (l : list (bytes * V)) i :
  c_seek c l key = CAt i ->
  exists kv, nth_error l i = Some kv /\ cmp c (fst kv) key <> Lt /\
             (forall j' kv', (j' < i)%nat -> nth_error l j' = Some kv' -> cmp c (fst kv') key = Lt).
Proof.
  unfold c_seek. destruct (first_ge c key l 0) as [i'|] eqn:E; [|discriminate].
  intros H. injection H as ->.
  apply first_ge_some_elim in E as (_ & (ki & vi & H2 & H3) & H4). rewrite Nat.sub_0_r in *.
  exists (ki, vi). split; [exact H2|]. split; [exact H3|].
  intros j' [k' v'] Hj Hn. eapply H4; eauto.
Qed.

Lemma c_seek_eoi {V} c key (l : list (bytes * V)) : c_seek c l key = CEOI -> none_ge c key l.
Proof.
  unfold c_seek. destruct (first_ge c key l 0) as [i'|] eqn:E; [discriminate|]. intros _.
  intros [k v] Hin. apply In_nth_error in Hin as (j & Hj). eapply first_ge_none_elim; eauto.
Qed.

Lemma c_seek_cases {V} c key (l : list (bytes * V)) :
  (exists i, c_seek c l key = CAt i) \/ c_seek c l key = CEOI.
Proof. unfold c_seek. destruct (first_ge c key l 0); eauto. Qed.

Lemma sorted_nth_intro {V} c (l : list (bytes * V)) :
  (forall i ki vi kj vj, nth_error l i = Some (ki, vi) -> nth_error l (S i) = Some (kj, vj) -> cmp c ki kj = Lt) ->
  sorted c l.
Proof.
  induction l as [|[k v] r IH]; intros H; [exact I|].
  destruct r as [|[k2 v2] r']; [exact I|].
  cbn [sorted sorted_from]. split.
  - apply (H 0%nat k v k2 v2); reflexivity.
  - assert (S2 : sorted c ((k2, v2) :: r')).
    { apply IH. intros i ki vi kj vj H1 H2. apply (H (S i) ki vi kj vj); assumption. }
    exact S2.
Qed.

(* ------------------------------------------------------------ well-formed tables *)
Section TableWf.
  Variable c : comparer.
  Hypothesis c_ok : comparer_ok c.
  Variable rd : treader.
  Variable blocks : list (list (bytes * bytes)).
  Variable seps : list bytes.
  Variable hs : list bhandle.

  Definition ientries : list (bytes * bytes) := combine seps (map encode_bh hs).
  Definition tkvs : list (bytes * bytes) := concat blocks.
  Local Notation m := (length blocks).
  Local Notation blk j := (nth j blocks []).
  Local Notation sepj j := (nth j seps []).
  Local Notation hj j := (nth j hs bh0).

  Record table_wf : Prop := {
    twf_len_s : length seps = m;
    twf_len_h : length hs = m;
    twf_m : (0 < m)%nat;
    twf_index : exists ib, tr_index rd = Ok ib /\ good_block ib ientries;
    twf_fetch : forall j, (j < m)%nat -> exists b, tr_fetch rd (hj j) = Ok b /\ good_block b (blk j);
    twf_handles : forall j, (j < m)%nat -> bh_off (hj j) < 2 ^ 64 /\ bh_len (hj j) < 2 ^ 64;
    twf_sorted : sorted c tkvs;
    twf_blocks_ne : (forall j, (j < m)%nat -> blk j <> []) \/ blocks = [[]];
    (* the separator law: last key of block j <= sep j < first key of block j+1 *)
    twf_sep_ge : forall j x, (j < m)%nat -> In x (blk j) -> cmp c (fst x) (sepj j) <> Gt;
    twf_sep_lt : forall j x, (S j < m)%nat -> In x (blk (S j)) -> cmp c (sepj j) (fst x) = Lt;
    twf_off_mono : forall i j, (i <= j)%nat -> (j < m)%nat -> bh_off (hj i) <= bh_off (hj j);
    twf_data_end : forall j, (j < m)%nat -> bh_off (hj j) <= tr_dataEnd rd
  }.

  Hypothesis wf : table_wf.

  Lemma ient_len : length ientries = m.
  Proof.
    unfold ientries. rewrite combine_length, map_length, (twf_len_s wf), (twf_len_h wf). apply Nat.min_id.
  Qed.

  Lemma ient_nth j : (j < m)%nat -> nth_error ientries j = Some (sepj j, encode_bh (hj j)).
  Proof.
    intros Hj. rewrite (nth_error_nth' ientries ([], encode_bh bh0)) by (rewrite ient_len; exact Hj).
    unfold ientries.
    assert (EL : length seps = length (map encode_bh hs)) by (rewrite map_length, (twf_len_s wf), (twf_len_h wf); reflexivity).
    rewrite (combine_nth _ _ _ _ _ EL).
    rewrite map_nth. reflexivity.
  Qed.

  Lemma ient_key j : (j < m)%nat -> key_at ientries j = sepj j.
  Proof.
    intros Hj. pose proof (nth_kv ientries j ltac:(rewrite ient_len; exact Hj)) as E.
    rewrite (ient_nth j Hj) in E. congruence.
  Qed.

  Lemma ient_val j : (j < m)%nat -> val_at ientries j = encode_bh (hj j).
  Proof.
    intros Hj. pose proof (nth_kv ientries j ltac:(rewrite ient_len; exact Hj)) as E.
    rewrite (ient_nth j Hj) in E. congruence.
  Qed.

  Lemma blk_ne j : (1 < m)%nat -> (j < m)%nat -> blk j <> [].
  Proof.
    intros H1 Hj. destruct (twf_blocks_ne wf) as [H|H]; [apply H; exact Hj|].
    rewrite H in H1. cbn in H1. lia.
  Qed.

  Lemma seps_incr j : (S j < m)%nat -> cmp c (sepj j) (sepj (S j)) = Lt.
  Proof.
    intros Hj. pose proof (blk_ne (S j) ltac:(lia) Hj) as Hne.
    destruct (blk (S j)) as [|x r] eqn:E; [congruence|].
    pose proof (twf_sep_lt wf j x Hj ltac:(rewrite E; left; reflexivity)) as H1.
    pose proof (twf_sep_ge wf (S j) x Hj ltac:(rewrite E; left; reflexivity)) as H2.
    apply (OrderProofs.lt_le_trans c c_ok _ (fst x)); assumption.
  Qed.

  Lemma ient_sorted : sorted c ientries.
  Proof.
    apply sorted_nth_intro. intros i ki vi kj vj H1 H2.
    assert (Hi : (S i < m)%nat) by (rewrite <- ient_len; apply nth_error_Some; congruence).
    rewrite ient_nth in H1, H2 by lia. injection H1 as <- _. injection H2 as <- _.
    apply seps_incr. exact Hi.
  Qed.

  (* keys of earlier blocks are below any separator-bounded key *)
  Lemma sep_mono i j : (i <= j)%nat -> (j < m)%nat -> cmp c (sepj i) (sepj j) <> Gt.
  Proof.
    intros Hij Hj. induction j as [|j IH].
    - assert (i = 0%nat) by lia. subst. apply (OrderProofs.le_refl c c_ok).
    - destruct (Nat.eq_dec i (S j)) as [->|]; [apply (OrderProofs.le_refl c c_ok)|].
      apply (OrderProofs.le_trans c c_ok _ (sepj j)); [apply IH; lia|].
      apply (OrderProofs.lt_le c). apply seps_incr. exact Hj.
  Qed.

  Lemma before_block_lt j key x j' :
    (j' < j)%nat -> (j < m)%nat -> In x (blk j') -> cmp c (sepj (j - 1)) key = Lt ->
    cmp c (fst x) key = Lt.
  Proof.
    intros Hj' Hj Hin Hs.
    pose proof (twf_sep_ge wf j' x ltac:(lia) Hin) as H1.
    pose proof (sep_mono j' (j - 1) ltac:(lia) ltac:(lia)) as H2.
    apply (OrderProofs.le_lt_trans c c_ok _ (sepj (j - 1))); [|exact Hs].
    apply (OrderProofs.le_trans c c_ok _ (sepj j')); assumption.
  Qed.

  Lemma after_block_gt j key x j' :
    (j < j')%nat -> (j' < m)%nat -> In x (blk j') -> cmp c (sepj j) key <> Lt ->
    cmp c (fst x) key <> Lt.
  Proof.
    intros Hj Hj' Hin Hs.
    pose proof (twf_sep_lt wf (j' - 1) x ltac:(lia)) as H1.
    replace (S (j' - 1)) with j' in H1 by lia. specialize (H1 Hin).
    pose proof (sep_mono j (j' - 1) ltac:(lia) ltac:(lia)) as H2.
    assert (L : cmp c key (fst x) = Lt).
    { apply (OrderProofs.le_lt_trans c c_ok _ (sepj (j' - 1))); [|exact H1].
      apply (OrderProofs.le_trans c c_ok _ (sepj j)); [|exact H2].
      apply (OrderProofs.not_lt_le c c_ok). exact Hs. }
    apply (cmp_lt_gt c c_ok) in L. congruence.
  Qed.

  (* ---------------- the index lookup ---------------- *)
  (* where the index seek for [key] lands: block j with sep (j-1) < key <= sep j, or past the end *)
  Definition routes_to (key : bytes) (j : nat) : Prop :=
    (j < m)%nat /\ cmp c (sepj j) key <> Lt /\ ((0 < j)%nat -> cmp c (sepj (j - 1)) key = Lt).

  Lemma index_seek_at key j : c_seek c ientries key = CAt j -> routes_to key j.
  Proof.
    intros H. apply c_seek_at in H as (kv & Hn & Hge & Hlt).
    assert (Hj : (j < m)%nat) by (rewrite <- ient_len; apply nth_error_Some; congruence).
    rewrite (ient_nth j Hj) in Hn. injection Hn as <-. cbn [fst] in Hge.
    split; [exact Hj|]. split; [exact Hge|]. intros Hpos.
    apply (Hlt (j - 1)%nat (sepj (j - 1), encode_bh (hj (j - 1)))); [lia | apply ient_nth; lia].
  Qed.

  Lemma index_seek_eoi key : c_seek c ientries key = CEOI -> none_ge c key tkvs.
  Proof.
    intros H. apply c_seek_eoi in H. intros x Hin.
    apply in_concat_nth in Hin as (j & Hj & Hin).
    pose proof (twf_sep_ge wf j x Hj Hin) as H1.
    apply (OrderProofs.le_lt_trans c c_ok _ (sepj j)); [exact H1|].
    apply (H (sepj j, encode_bh (hj j))). eapply nth_error_In. apply ient_nth. exact Hj.
  Qed.

  (* index_routes: the block the index seek selects is the only one that can hold the key *)
  Lemma routes_only key j j' x : routes_to key j -> (j' < m)%nat -> In x (blk j') -> fst x = key -> j' = j.
  Proof.
    intros (Hj & Hge & Hlt) Hj' Hin Ek.
    destruct (Nat.lt_trichotomy j' j) as [L|[L|L]]; [|exact L|].
    - pose proof (before_block_lt j key x j' L Hj Hin (Hlt ltac:(lia))) as H. rewrite Ek, (cmp_refl c c_ok) in H. discriminate.
    - pose proof (after_block_gt j key x j' L Hj' Hin Hge) as H.
      assert (cmp c key (fst x) = Lt).
      { pose proof (twf_sep_lt wf (j' - 1) x ltac:(lia)) as H1.
        replace (S (j' - 1)) with j' in H1 by lia. specialize (H1 Hin).
        apply (OrderProofs.le_lt_trans c c_ok _ (sepj (j' - 1))); [|exact H1].
        apply (OrderProofs.le_trans c c_ok _ (sepj j)); [apply (OrderProofs.not_lt_le c c_ok); exact Hge|].
        apply sep_mono; lia. }
      rewrite Ek, (cmp_refl c c_ok) in H0. discriminate.
  Qed.

  (* the global first >= from the routed block *)
  Lemma first_ge_in_block key j kv :
    routes_to key j -> first_ge_at c key (blk j) kv -> first_ge_at c key tkvs kv.
  Proof.
    intros (Hj & Hge & Hlt) (pre & post & Eb & Hpre & Hkv).
    exists (concat (firstn j blocks) ++ pre), (post ++ concat (skipn (S j) blocks)).
    split.
    - unfold tkvs. rewrite (concat_split blocks j Hj), Eb, <- !app_assoc. reflexivity.
    - split; [|exact Hkv]. intros x Hin. apply in_app_or in Hin as [Hin|Hin]; [|apply Hpre; exact Hin].
      apply in_concat_firstn in Hin as (j' & H1 & H2 & H3).
      apply (before_block_lt j key x j' H1 Hj H3). apply Hlt. lia.
  Qed.

  Lemma first_ge_next_block key j kv r :
    routes_to key j -> none_ge c key (blk j) -> (S j < m)%nat -> blk (S j) = kv :: r ->
    first_ge_at c key tkvs kv.
  Proof.
    intros (Hj & Hge & Hlt) Hnone Hj' Eb.
    exists (concat (firstn (S j) blocks)), (r ++ concat (skipn (S (S j)) blocks)).
    split.
    - unfold tkvs. rewrite (concat_split blocks (S j) Hj'), Eb. reflexivity.
    - split.
      + intros x Hin. apply in_concat_firstn in Hin as (j' & H1 & H2 & H3).
        destruct (Nat.eq_dec j' j) as [->|]; [apply Hnone; exact H3|].
        apply (before_block_lt j key x j' ltac:(lia) Hj H3). apply Hlt. lia.
      + apply (after_block_gt j key kv (S j) ltac:(lia) Hj'); [rewrite Eb; left; reflexivity | exact Hge].
  Qed.

  Lemma none_ge_last key j : routes_to key j -> none_ge c key (blk j) -> S j = m -> none_ge c key tkvs.
  Proof.
    intros (Hj & Hge & Hlt) Hnone Em x Hin.
    apply in_concat_nth in Hin as (j' & Hj' & Hin).
    destruct (Nat.eq_dec j' j) as [->|]; [apply Hnone; exact Hin|].
    apply (before_block_lt j key x j' ltac:(lia) Hj Hin). apply Hlt. lia.
  Qed.

  (* ---------------- find ---------------- *)
  Definition find_spec (key : bytes) (r : find_res) : Prop :=
    match r with
    | FFound k v => first_ge_at c key tkvs (k, v)
    | FNotFound => none_ge c key tkvs
    | _ => False
    end.

  Lemma sorted_block j : (j < m)%nat -> sorted c (blk j).
  Proof.
    intros Hj. pose proof (twf_sorted wf) as Hs. unfold tkvs in Hs.
    rewrite (concat_split blocks j Hj) in Hs.
    apply sorted_nth_intro. intros i ki vi kj vj H1 H2.
    set (pre := concat (firstn j blocks)) in *.
    apply (sorted_nth c c_ok _ (length pre + i) (length pre + S i) ki vi kj vj Hs); [lia| |].
    - rewrite nth_error_app2 by lia. replace (length pre + i - length pre)%nat with i by lia.
      rewrite nth_error_app1 by (apply nth_error_Some; congruence). exact H1.
    - rewrite nth_error_app2 by lia. replace (length pre + S i - length pre)%nat with (S i) by lia.
      rewrite nth_error_app1 by (apply nth_error_Some; congruence). exact H2.
  Qed.

  Lemma block_seek_at_spec j key i (Hj : (j < m)%nat) :
    c_seek c (blk j) key = CAt i -> first_ge_at c key (blk j) (key_at (blk j) i, val_at (blk j) i).
  Proof.
    intros H. apply c_seek_at in H as (kv & Hn & Hge & Hlt).
    assert (Hi : (i < length (blk j))%nat) by (apply nth_error_Some; congruence).
    rewrite (nth_kv _ i Hi) in Hn. injection Hn as <-.
    exists (firstn i (blk j)), (skipn (S i) (blk j)). split.
    - rewrite (BlockEnc.split_nth (blk j) i ([], []) Hi) at 1. unfold key_at, val_at. rewrite <- surjective_pairing. reflexivity.
    - split; [|exact Hge]. intros x Hin. apply In_nth_error in Hin as (i' & Hi').
      assert (L : (i' < i)%nat).
      { assert (i' < length (firstn i (blk j)))%nat by (apply nth_error_Some; congruence).
        rewrite firstn_length in H. lia. }
      apply (Hlt i' x L). rewrite nth_error_firstn_lt in Hi' by exact L. exact Hi'.
  Qed.

  Theorem tfind_spec key : find_spec key (tfind c rd key false).
  Proof.
    unfold tfind. destruct (twf_index wf) as (ib & Eib & (ioff & iris & ilay)). rewrite Eib.
    cbn [new_block_iter].
    destruct (seek_step c c_ok ientries ib ioff iris ilay ient_sorted (bi_unsliced ib) CSOI key (rep_unsliced _ _ _ _))
      as (ok & index1 & E1 & R1 & Eok1). rewrite E1.
    destruct (c_seek_cases c key ientries) as [(j & Ej)|Ee].
    - rewrite Ej in R1, Eok1. subst ok. cbn [negb].
      pose proof (index_seek_at key j Ej) as Hroute. pose proof Hroute as (Hj & Hge & Hlt).
      pose proof R1 as (_ & _ & _ & _ & Ev & _). rewrite Ev, (ient_val j Hj).
      destruct (twf_handles wf j Hj) as [Ho Hl]. rewrite (decode_encode_bh _ Ho Hl).
      cbn [andb]. destruct (tr_filter rd); cbn [andb];
      destruct (twf_fetch wf j Hj) as (bj & Ef & (joff & jris & jlay)); rewrite Ef.
      all: destruct (seek_step c c_ok (blk j) bj joff jris jlay (sorted_block j Hj) (bi_unsliced bj) CSOI key (rep_unsliced _ _ _ _))
             as (ok2 & data1 & E2 & R2 & Eok2); rewrite E2.
      all: destruct (c_seek_cases c key (blk j)) as [(i & Ei)|Eie].
      all: try (rewrite Ei in R2, Eok2; subst ok2;
                pose proof R2 as (_ & _ & _ & Ek & Evv & _); rewrite Ek, Evv; cbn [find_spec];
                apply (first_ge_in_block key j _ Hroute); apply (block_seek_at_spec j key i Hj Ei)).
      all: rewrite Eie in R2, Eok2; subst ok2.
      all: pose proof R2 as ((_ & Eerr & _) & _); rewrite Eerr.
      all: pose proof (c_seek_eoi c key (blk j) Eie) as Hnone.
      all: destruct (next_step ientries ib ioff iris ilay index1 (CAt j) R1) as (ok3 & index2 & E3 & R3 & Eok3); rewrite E3.
      all: cbn [c_next] in R3, Eok3; rewrite ient_len in R3, Eok3.
      all: destruct (Nat.ltb_spec (S j) (length blocks)) as [L|L]; subst ok3; cbn [negb].
      all: try (pose proof R3 as ((_ & Eerr3 & _) & _); unfold find_noerr; rewrite Eerr3; cbn [find_spec];
                apply (none_ge_last key j Hroute Hnone); lia).
      all: pose proof R3 as (_ & _ & _ & _ & Ev3 & _); rewrite Ev3, (ient_val (S j) L).
      all: destruct (twf_handles wf (S j) L) as [Ho3 Hl3]; rewrite (decode_encode_bh _ Ho3 Hl3).
      all: destruct (twf_fetch wf (S j) L) as (bj2 & Ef2 & (joff2 & jris2 & jlay2)); rewrite Ef2.
      all: destruct (next_step (blk (S j)) bj2 joff2 jris2 jlay2 (bi_unsliced bj2) CSOI (rep_unsliced _ _ _ _))
             as (ok4 & data2 & E4 & R4 & Eok4); rewrite E4.
      all: pose proof (blk_ne (S j) ltac:(lia) L) as Hne.
      all: destruct (blk (S j)) as [|kv0 r0] eqn:Eb; [congruence|].
      all: cbn [c_next c_first] in R4, Eok4; subst ok4.
      all: pose proof R4 as (_ & _ & _ & Ek4 & Ev4 & _); rewrite Ek4, Ev4; cbn [find_spec].
      all: unfold key_at, val_at; cbn [nth]; rewrite <- surjective_pairing.
      all: apply (first_ge_next_block key j kv0 r0 Hroute Hnone L Eb).
    - rewrite Ee in R1, Eok1. subst ok. cbn [negb].
      pose proof R1 as ((_ & Eerr & _) & _). unfold find_noerr. rewrite Eerr. cbn [find_spec].
      apply index_seek_eoi. exact Ee.
  Qed.

  (* table_find_first_ge, in terms of the cursor's first_ge *)
  Theorem tfind_first_ge key :
    tfind c rd key false =
    match first_ge c key tkvs 0 with
    | Some i => match nth_error tkvs i with Some (k, v) => FFound k v | None => FOther end
    | None => FNotFound
    end.
  Proof.
    pose proof (tfind_spec key) as H. destruct (tfind c rd key false) as [k v| | | |]; cbn [find_spec] in H; try contradiction.
    - apply first_ge_at_fn in H as (i & E1 & E2). rewrite E1, E2. reflexivity.
    - rewrite (none_ge_fn c key tkvs H). reflexivity.
  Qed.

  (* ---------------- Get ---------------- *)
  Lemma sorted_split_lt (pre : list (bytes * bytes)) x post y :
    sorted c (pre ++ x :: post) -> In y post -> cmp c (fst x) (fst y) = Lt.
  Proof.
    intros Hs Hin. apply In_nth_error in Hin as (i & Hi). destruct x as [kx vx], y as [ky vy].
    apply (sorted_nth c c_ok _ (length pre) (length pre + S i) kx vx ky vy Hs); [lia| |].
    - rewrite nth_error_app2 by lia. rewrite Nat.sub_diag. reflexivity.
    - rewrite nth_error_app2 by lia. replace (length pre + S i - length pre)%nat with (S i) by lia. exact Hi.
  Qed.

  Theorem tget_present k v : In (k, v) tkvs -> tget c rd k = FFound k v.
  Proof.
    intros Hin. unfold tget. pose proof (tfind_spec k) as H.
    destruct (tfind c rd k false) as [k' v'| | | |]; cbn [find_spec] in H; try contradiction.
    - destruct H as (pre & post & E & Hpre & Hge). cbn [fst] in Hge.
      pose proof (twf_sorted wf) as Hs. rewrite E in Hs, Hin.
      apply in_app_or in Hin as [Hin|[Hin|Hin]].
      + specialize (Hpre _ Hin). cbn [fst] in Hpre. rewrite (cmp_refl c c_ok) in Hpre. discriminate.
      + injection Hin as -> ->. rewrite (cmp_refl c c_ok). reflexivity.
      + pose proof (sorted_split_lt pre (k', v') post (k, v) Hs Hin) as L. cbn [fst] in L. congruence.
    - specialize (H _ Hin). cbn [fst] in H. rewrite (cmp_refl c c_ok) in H. discriminate.
  Qed.

  Theorem tget_absent k : (forall v, ~ In (k, v) tkvs) -> tget c rd k = FNotFound.
  Proof.
    intros Hnot. unfold tget. pose proof (tfind_spec k) as H.
    destruct (tfind c rd k false) as [k' v'| | | |]; cbn [find_spec] in H; try contradiction; [|reflexivity].
    destruct H as (pre & post & E & _ & _).
    destruct (cmp c k' k) eqn:Ec; try reflexivity.
    apply (cmp_eq c c_ok) in Ec. subst k'. exfalso. apply (Hnot v'). rewrite E. apply in_or_app. right. left. reflexivity.
  Qed.

  (* ---------------- OffsetOf ---------------- *)
  Lemma toffset_val key :
    toffset_of c rd key =
    Ok (match c_seek c ientries key with CAt j => bh_off (hj j) | _ => tr_dataEnd rd end).
  Proof.
    unfold toffset_of. destruct (twf_index wf) as (ib & Eib & (ioff & iris & ilay)). rewrite Eib.
    cbn [new_block_iter].
    destruct (seek_step c c_ok ientries ib ioff iris ilay ient_sorted (bi_unsliced ib) CSOI key (rep_unsliced _ _ _ _))
      as (ok & index1 & E1 & R1 & Eok1). rewrite E1.
    destruct (c_seek_cases c key ientries) as [(j & Ej)|Ee].
    - rewrite Ej in *. subst ok. pose proof (index_seek_at key j Ej) as (Hj & _).
      pose proof R1 as (_ & _ & _ & _ & Ev & _). rewrite Ev, (ient_val j Hj).
      destruct (twf_handles wf j Hj) as [Ho Hl]. rewrite (decode_encode_bh _ Ho Hl). reflexivity.
    - rewrite Ee in *. subst ok. pose proof R1 as ((_ & Eerr & _) & _). rewrite Eerr. reflexivity.
  Qed.

  Theorem toffset_mono k1 k2 : cmp c k1 k2 <> Gt ->
    exists o1 o2, toffset_of c rd k1 = Ok o1 /\ toffset_of c rd k2 = Ok o2 /\ o1 <= o2.
  Proof.
    intros Hle. rewrite !toffset_val. eexists. eexists. split; [reflexivity|]. split; [reflexivity|].
    destruct (c_seek_cases c k2 ientries) as [(j2 & E2)|E2]; rewrite E2.
    - pose proof (index_seek_at k2 j2 E2) as (Hj2 & Hge2 & _).
      destruct (c_seek_cases c k1 ientries) as [(j1 & E1)|E1]; rewrite E1.
      + pose proof (index_seek_at k1 j1 E1) as (Hj1 & Hge1 & Hlt1).
        apply (twf_off_mono wf); [|exact Hj2].
        destruct (Nat.le_gt_cases j1 j2) as [L|L]; [exact L|]. exfalso.
        (* sep j2 <= sep (j1-1) < k1 <= k2 <= sep j2 *)
        pose proof (sep_mono j2 (j1 - 1) ltac:(lia) ltac:(lia)) as M.
        pose proof (Hlt1 ltac:(lia)) as L1.
        assert (cmp c (sepj j2) k2 = Lt).
        { apply (OrderProofs.lt_le_trans c c_ok _ k1); [|exact Hle].
          apply (OrderProofs.le_lt_trans c c_ok _ (sepj (j1 - 1))); assumption. }
        congruence.
      + exfalso. apply c_seek_eoi in E1.
        specialize (E1 (sepj j2, encode_bh (hj j2)) ltac:(eapply nth_error_In; apply ient_nth; exact Hj2)).
        cbn [fst] in E1.
        assert (cmp c (sepj j2) k2 = Lt) by (apply (OrderProofs.lt_le_trans c c_ok _ k1); assumption).
        congruence.
    - destruct (c_seek c ientries k1) as [|j1|] eqn:E1; try lia.
      pose proof (index_seek_at k1 j1 E1) as (Hj1 & _). apply (twf_data_end wf). exact Hj1.
  Qed.

  (* ---------------- the filter ---------------- *)
  (* no false negative, per data block: every key stored in the block at offset o passes the
     filter test the reader makes for offset o *)
  Definition filter_sound : Prop :=
    forall contains, tr_filter rd = Some contains ->
    forall j x, (j < m)%nat -> In x (blk j) -> contains (bh_off (hj j)) (fst x) = true.

  Lemma tfind_filtered key : filter_sound ->
    tfind c rd key true = tfind c rd key false \/
    (tfind c rd key true = FNotFound /\ forall x, In x tkvs -> fst x <> key).
  Proof.
    intros Hf. unfold tfind. destruct (twf_index wf) as (ib & Eib & (ioff & iris & ilay)). rewrite Eib.
    cbn [new_block_iter].
    destruct (seek_step c c_ok ientries ib ioff iris ilay ient_sorted (bi_unsliced ib) CSOI key (rep_unsliced _ _ _ _))
      as (ok & index1 & E1 & R1 & Eok1). rewrite E1.
    destruct (c_seek_cases c key ientries) as [(j & Ej)|Ee].
    - rewrite Ej in R1, Eok1. subst ok. cbn [negb].
      pose proof (index_seek_at key j Ej) as Hroute. pose proof Hroute as (Hj & _).
      pose proof R1 as (_ & _ & _ & _ & Ev & _). rewrite Ev, (ient_val j Hj).
      destruct (twf_handles wf j Hj) as [Ho Hl]. rewrite (decode_encode_bh _ Ho Hl).
      destruct (tr_filter rd) as [contains|] eqn:Et; [|left; reflexivity].
      cbn [andb]. destruct (contains (bh_off (hj j)) key) eqn:Ec; cbn [negb]; [left; reflexivity|].
      right. split; [reflexivity|]. intros x Hin Ek.
      apply in_concat_nth in Hin as (j' & Hj' & Hin).
      pose proof (routes_only key j j' x Hroute Hj' Hin Ek) as ->.
      pose proof (Hf contains Et j x Hj Hin) as Ht. rewrite Ek in Ht. congruence.
    - rewrite Ee in Eok1. subst ok. left. reflexivity.
  Qed.

  Theorem tget_filter_independent key : filter_sound -> tget_filtered c rd key = tget c rd key.
  Proof.
    intros Hf. unfold tget_filtered, tget.
    destruct (tfind_filtered key Hf) as [E|[E Hno]]; [rewrite E; reflexivity|].
    rewrite E. pose proof (tfind_spec key) as H.
    destruct (tfind c rd key false) as [k' v'| | | |]; cbn [find_spec] in H; try contradiction; [|reflexivity].
    destruct H as (pre & post & E2 & _ & _).
    destruct (cmp c k' key) eqn:Ec; try reflexivity.
    apply (cmp_eq c c_ok) in Ec. exfalso. apply (Hno (k', v')); [|exact Ec].
    rewrite E2. apply in_or_app. right. left. reflexivity.
  Qed.
End TableWf.
