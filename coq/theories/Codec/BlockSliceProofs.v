(* Codec/BlockSliceProofs.v — the SLICED block iterator (newBlockIter with a util.Range).
   Part 1: for any slice parameters satisfying [view_ok] (riStart/riLimit/offsetStart/
   offsetRealStart/offsetLimit describe the entries [a, zl) of the block, the restart range
   [rs, rl) reaches all of them by linear scan) every First/Last/Seek/Next/Prev sequence refines
   the reference cursor over exactly those entries.
   Part 2: newBlockIter(b, slice, inclLimit) computes such parameters, and the entries are those
   with start <= key (< limit, or up to and including the first key >= limit when inclLimit).
   Non-empty blocks only: on an EMPTY block a slice with a Start bound makes block.seek read the
   restart-count word as an entry offset and the iterator reports a spurious corruption error
   (no pair is returned); the model reproduces that, the theorem excludes it. *)
From GL Require Import Base.Bytes Base.BytesProofs Base.Varint Base.VarintProofs Base.Order Base.OrderProofs
  Base.Cursor Base.CursorProofs Codec.Block Codec.BlockEnc Codec.BlockProofs.
From Coq Require Import Arith ZArith Lia ZifyN ZifyNat ZifyBool.

Local Open Scope N_scope.

Lemma nth_error_firstn_lt' {A} (l : list A) : forall i i', (i' < i)%nat -> nth_error (firstn i l) i' = nth_error l i'.
Proof.
  induction l as [|x l IH]; intros i i' H; [rewrite firstn_nil; destruct i'; reflexivity|].
  destruct i as [|i]; [lia|]. destruct i' as [|i']; [reflexivity|]. cbn [firstn nth_error]. apply IH. lia.
Qed.

Lemma nth_error_skipn {A} (l : list A) : forall n i, nth_error (skipn n l) i = nth_error l (n + i).
Proof.
  induction l as [|x l IH]; intros n i.
  - rewrite skipn_nil. destruct i, n; reflexivity.
  - destruct n as [|n]; [reflexivity|]. cbn [skipn plus nth_error]. apply IH.
Qed.

Section Sliced.
  Variable c : comparer.
  Hypothesis c_ok : comparer_ok c.
  Variable kvs : list (bytes * bytes).
  Variable b : block.
  Variable off : nat -> N.
  Variable ris : list nat.
  Hypothesis lay : block_layout kvs b off ris.
  Hypothesis srt : sorted c kvs.
  Hypothesis kvs_ne : (0 < length kvs)%nat.

  Local Notation len := (length kvs).
  Local Notation nr := (length ris).

  (* the slice: entries [a, zl), restarts [rs, rl) *)
  Variables a zl rs rl : nat.

  Record view_ok : Prop := {
    vo_a : (a <= zl)%nat;
    vo_z : (zl <= len)%nat;
    vo_rs : (rs <= rl)%nat;
    vo_rl : (rl <= nr)%nat;
    vo_start : ((rs < nr)%nat /\ (nth rs ris 0 <= a)%nat) \/ (rs = nr /\ a = len);
    vo_limit : (rs < rl)%nat -> (nth (rl - 1) ris 0 <= zl)%nat;
    vo_nonempty : (a < zl)%nat -> (rs < rl)%nat
  }.
  Hypothesis vok : view_ok.

  Definition offS : N := if Nat.ltb rs nr then off (nth rs ris 0%nat) else b_roff b.

  Definition view : list (bytes * bytes) := firstn (zl - a) (skipn a kvs).

  Local Notation omono := (off_mono kvs b off ris lay).
  Local Notation omono_le := (off_mono_le kvs b off ris lay).
  Local Notation oinj := (off_inj kvs b off ris lay).
  Local Notation ole_inv := (off_le_inv kvs b off ris lay).

  Lemma off_len : off len = b_roff b.
  Proof. apply (lay_end _ _ _ _ lay). Qed.

  Lemma view_len : length view = (zl - a)%nat.
  Proof.
    unfold view. rewrite firstn_length, skipn_length. pose proof (vo_a vok). pose proof (vo_z vok). lia.
  Qed.

  Lemma view_nth i' : (i' < zl - a)%nat -> nth_error view i' = nth_error kvs (a + i').
  Proof.
    intros H. unfold view. rewrite nth_error_firstn_lt' by exact H. apply nth_error_skipn.
  Qed.

  Lemma offS_le : offS <= off a.
  Proof.
    unfold offS. destruct (vo_start vok) as [[H1 H2]|[H1 H2]].
    - replace (Nat.ltb rs nr) with true by (symmetry; apply Nat.ltb_lt; exact H1).
      apply omono_le; [exact H2 | pose proof (vo_a vok); pose proof (vo_z vok); lia].
    - replace (Nat.ltb rs nr) with false by (symmetry; apply Nat.ltb_ge; lia).
      rewrite H2, off_len. lia.
  Qed.

  Definition slice_at (it : biter) : Prop :=
    bi_blk it = b /\ bi_err it = None /\ bi_riStart it = N.of_nat rs /\ bi_riLimit it = N.of_nat rl /\
    bi_offStart it = offS /\ bi_offRealStart it = off a /\ bi_offLimit it = off zl.

  (* the restart index the iterator carries is inside the restart range and not after entry i *)
  Definition ri_in (it : biter) (i : nat) : Prop :=
    exists r, (rs <= r)%nat /\ (r < rl)%nat /\ bi_ri it = N.of_nat r /\ (nth r ris 0 <= i)%nat.

  Definition dmoving (it : biter) : Prop := bi_dir it = DForward \/ bi_dir it = DBackward.

  (* positioned so that the next read decodes entry j *)
  Definition pre_s (it : biter) (j : nat) : Prop :=
    slice_at it /\ bi_offset it = off j /\ (j <= zl)%nat /\
    ((a < zl)%nat -> (j < zl)%nat -> ri_in it j) /\
    ((j < len)%nat -> In j ris \/ ((0 < j)%nat /\ bi_key it = key_at kvs (j - 1))).

  Definition rep_s (it : biter) (p : cpos) : Prop :=
    match p with
    | CSOI => slice_at it /\ bi_dir it = DSOI
    | CEOI => slice_at it /\ bi_dir it = DEOI
    | CAt i' => (a + i' < zl)%nat /\ slice_at it /\ dmoving it /\
                bi_key it = key_at kvs (a + i') /\ bi_value it = val_at kvs (a + i') /\
                bi_offset it = off (S (a + i')) /\ bi_prevOffset it = off (a + i') /\ ri_in it (a + i')
    end.

  Lemma has_err_s it : slice_at it -> bi_has_err it = false.
  Proof. intros (_ & E & _). unfold bi_has_err. rewrite E. reflexivity. Qed.

  Lemma rep_s_slice it p : rep_s it p -> slice_at it.
  Proof. destruct p; intros R; apply R. Qed.

  Lemma rep_s_pre it i' : rep_s it (CAt i') -> pre_s it (S (a + i')) /\ dmoving it.
  Proof.
    intros (Hi & Hs & Hd & Hk & Hv & Ho & Hp & (r & Hr0 & Hr1 & Hr2 & Hr3)).
    split; [|exact Hd]. split; [exact Hs|]. split; [exact Ho|]. split; [lia|]. split.
    - intros _ _. exists r. split; [exact Hr0|]. split; [exact Hr1|]. split; [exact Hr2|]. lia.
    - intros _. right. split; [lia|]. replace (S (a + i') - 1)%nat with (a + i')%nat by lia. exact Hk.
  Qed.

  (* ---------------- Next ---------------- *)
  Lemma skip_done fuel it : bi_offRealStart it <= bi_offset it -> bi_skip fuel it = inl it.
  Proof.
    intros H. destruct fuel; cbn [bi_skip]; replace (bi_offset it <? bi_offRealStart it) with false by lia; reflexivity.
  Qed.

  (* the skip loop of Next: from a position before the slice start up to the slice start *)
  Lemma skip_spec : forall fuel it j,
    slice_at it -> bi_offset it = off j -> (j <= a)%nat -> (a - j < fuel)%nat ->
    (In j ris \/ ((0 < j)%nat /\ bi_key it = key_at kvs (j - 1))) ->
    exists it', bi_skip fuel it = inl it' /\ slice_at it' /\ bi_offset it' = off a /\
      bi_dir it' = bi_dir it /\ bi_ri it' = bi_ri it /\ bi_prevOffset it' = bi_prevOffset it /\
      ((a < len)%nat -> In a ris \/ ((0 < a)%nat /\ bi_key it' = key_at kvs (a - 1))) /\
      (j = a -> it' = it).
  Proof.
    induction fuel as [|fu IH]; intros it j Hs Ho Hj Hf Hk; [lia|].
    pose proof Hs as (Eb & Ee & E1 & E2 & E3 & E4 & E5).
    pose proof (vo_a vok) as Ha. pose proof (vo_z vok) as Hz.
    destruct (Nat.eq_dec j a) as [->|Hne].
    - exists it. rewrite skip_done by (rewrite E4, Ho; lia).
      repeat split; try assumption; try reflexivity. intros _. exact Hk.
    - cbn [bi_skip]. rewrite E4, Ho.
      pose proof (omono j a ltac:(lia) ltac:(lia)) as Hm.
      replace (off j <? off a) with true by lia.
      rewrite Eb, (lay_read _ _ _ _ lay j (bi_key it) ltac:(lia) Hk).
      pose proof (lay_step _ _ _ _ lay j ltac:(lia)) as Hst.
      set (it1 := bi_with_pos it (key_at kvs j) (val_at kvs j) (off j + (off (S j) - off j)) (bi_prevOffset it) (bi_ri it) (bi_dir it)).
      destruct (IH it1 (S j)) as (it' & E & Hs' & Ho' & Hd' & Hr' & Hp' & Hk' & _).
      + exact Hs.
      + unfold it1. cbn [bi_with_pos bi_offset]. lia.
      + lia.
      + lia.
      + right. split; [lia|]. replace (S j - 1)%nat with j by lia. reflexivity.
      + exists it'. split; [exact E|]. split; [exact Hs'|]. split; [exact Ho'|].
        split; [exact Hd'|]. split; [exact Hr'|]. split; [exact Hp'|]. split; [exact Hk'|]. intros; lia.
  Qed.

  Lemma next_body_ge it j : pre_s it j -> (a <= j)%nat ->
    exists ok it', next_body it = (ok, it') /\
      rep_s it' (if Nat.ltb j zl then CAt (j - a) else CEOI) /\ ok = Nat.ltb j zl.
  Proof.
    intros (Hs & Ho & Hj & Hri & Hk) Haj.
    pose proof Hs as (Eb & Ee & E1 & E2 & E3 & E4 & E5).
    pose proof (vo_z vok) as Hz.
    unfold next_body. rewrite skip_done by (rewrite E4, Ho; apply omono_le; lia).
    rewrite E5, Ho.
    destruct (Nat.ltb_spec j zl) as [L|L].
    - pose proof (omono j zl L Hz) as Hm. replace (off zl <=? off j) with false by lia.
      rewrite Eb, (lay_read _ _ _ _ lay j (bi_key it) ltac:(lia) (Hk ltac:(lia))).
      pose proof (lay_step _ _ _ _ lay j ltac:(lia)) as Hst.
      eexists. eexists. split; [reflexivity|]. split; [|reflexivity].
      assert (Ej : (a + (j - a))%nat = j) by lia. unfold rep_s. rewrite !Ej.
      split; [exact L|]. split; [exact Hs|]. split; [left; reflexivity|].
      cbn [bi_with_pos bi_key bi_value bi_offset bi_prevOffset bi_ri].
      split; [reflexivity|]. split; [reflexivity|]. split; [lia|]. split; [reflexivity|]. exact (Hri ltac:(lia) L).
    - assert (j = zl) by lia. subst j. rewrite N.leb_refl, N.eqb_refl.
      eexists. eexists. split; [reflexivity|]. split; [|reflexivity]. split; [exact Hs | reflexivity].
  Qed.

  (* reading from a position at or before the slice start behaves as from the slice start *)
  Lemma next_body_le it j : pre_s it j -> (j <= a)%nat ->
    exists ok it', next_body it = (ok, it') /\
      rep_s it' (if Nat.ltb a zl then CAt 0 else CEOI) /\ ok = Nat.ltb a zl.
  Proof.
    intros (Hs & Ho & Hj & Hri & Hk) Hja.
    pose proof (vo_a vok) as Ha. pose proof (vo_z vok) as Hz.
    destruct (Nat.eq_dec j a) as [->|Hne].
    - destruct (next_body_ge it a) as (ok & it' & E & R & Eok); [split; [exact Hs|]; split; [exact Ho|]; split; [exact Hj|]; split; [exact Hri | exact Hk] | lia|].
      rewrite Nat.sub_diag in R. eauto.
    - assert (Hk' : In j ris \/ (0 < j)%nat /\ bi_key it = key_at kvs (j - 1)) by (apply Hk; lia).
      destruct (skip_spec (bi_fuel it) it j Hs Ho Hja) as (it1 & E1 & Hs1 & Ho1 & Hd1 & Hr1 & Hp1 & Hk1 & _).
      { unfold bi_fuel. pose proof Hs as (Eb & _). rewrite Eb. pose proof (len_le_data kvs b off ris lay). lia. }
      { exact Hk'. }
      assert (P1 : pre_s it1 a).
      { split; [exact Hs1|]. split; [exact Ho1|]. split; [exact Ha|]. split; [|exact Hk1].
        intros L _. destruct (Hri L ltac:(lia)) as (r & H0 & H1 & H2 & H3). exists r. rewrite Hr1. split; [exact H0|]. split; [exact H1|]. split; [exact H2|]. lia. }
      destruct (next_body_ge it1 a P1 ltac:(lia)) as (ok & it' & E & R & Eok).
      rewrite Nat.sub_diag in R. exists ok, it'. split; [|auto].
      (* next_body it runs the same skip and continues from it1 *)
      unfold next_body in *. rewrite E1.
      assert (Ef : bi_fuel it1 = bi_fuel it).
      { unfold bi_fuel. pose proof Hs as (Eb & _). pose proof Hs1 as (Eb1 & _). rewrite Eb, Eb1. reflexivity. }
      rewrite Ef in E. rewrite skip_done in E; [exact E|].
      pose proof Hs1 as (_ & _ & _ & _ & _ & E4 & _). rewrite E4, Ho1. lia.
  Qed.

  Lemma next_moving_s it j : pre_s it j -> dmoving it -> (a <= j)%nat ->
    exists ok it', bi_next it = (ok, it') /\
      rep_s it' (if Nat.ltb j zl then CAt (j - a) else CEOI) /\ ok = Nat.ltb j zl.
  Proof.
    intros P Hd Haj. rewrite bi_next_unfold. rewrite (has_err_s it) by apply P.
    replace (bdir_eqb (bi_dir it) DEOI) with false by (destruct Hd as [-> | ->]; reflexivity).
    replace (bdir_eqb (bi_dir it) DSOI) with false by (destruct Hd as [-> | ->]; reflexivity).
    cbn [orb]. apply next_body_ge; assumption.
  Qed.

  Lemma c_first_view : c_first view = if Nat.ltb a zl then CAt 0 else CEOI.
  Proof.
    unfold c_first. pose proof view_len as Hl. destruct (Nat.ltb_spec a zl) as [L|L].
    - destruct view; [cbn in Hl; lia | reflexivity].
    - destruct view; [reflexivity | cbn in Hl; lia].
  Qed.

  Lemma next_step_s it p : rep_s it p ->
    exists ok it', bi_next it = (ok, it') /\ rep_s it' (c_next view p) /\
                   ok = match c_next view p with CAt _ => true | _ => false end.
  Proof.
    intros R. pose proof (vo_a vok) as Ha. pose proof (vo_z vok) as Hz.
    destruct p as [|i'|].
    - (* from SOI *)
      destruct R as [Hs Hd]. rewrite bi_next_unfold, (has_err_s it Hs), Hd. cbn [bdir_eqb orb].
      pose proof Hs as (Eb & Ee & E1 & E2 & E3 & E4 & E5).
      set (it1 := bi_with_pos it (bi_key it) (bi_value it) (bi_offStart it) (bi_prevOffset it) (bi_riStart it) DSOI).
      cbn [c_next]. rewrite c_first_view.
      destruct (vo_start vok) as [[H1 H2]|[H1 H2]].
      + assert (P : pre_s it1 (nth rs ris 0%nat)).
        { split; [exact Hs|]. split.
          - unfold it1. cbn [bi_with_pos bi_offset]. rewrite E3. unfold offS.
            replace (Nat.ltb rs nr) with true by (symmetry; apply Nat.ltb_lt; exact H1). reflexivity.
          - split; [lia|]. split.
            + intros L _. exists rs. split; [lia|]. split; [apply (vo_nonempty vok); lia|]. split; [exact E1 | lia].
            + intros _. left. apply nth_In. exact H1. }
        destruct (next_body_le it1 _ P H2) as (ok & it' & E & R' & Eok).
        exists ok, it'. split; [exact E|]. destruct (Nat.ltb a zl); auto.
      + (* the slice starts at the end of the block *)
        assert (Ez : zl = len) by lia.
        assert (P : pre_s it1 len).
        { split; [exact Hs|]. split.
          - unfold it1. cbn [bi_with_pos bi_offset]. rewrite E3. unfold offS.
            replace (Nat.ltb rs nr) with false by (symmetry; apply Nat.ltb_ge; lia). rewrite off_len. reflexivity.
          - split; [lia|]. split; [intros; lia | intros; lia]. }
        destruct (next_body_ge it1 len P ltac:(lia)) as (ok & it' & E & R' & Eok).
        exists ok, it'. split; [exact E|].
        replace (Nat.ltb len zl) with false in * by (symmetry; apply Nat.ltb_ge; lia).
        replace (Nat.ltb a zl) with false by (symmetry; apply Nat.ltb_ge; lia). auto.
    - (* from an entry *)
      destruct (rep_s_pre it i' R) as [P Hd].
      destruct (next_moving_s it (S (a + i')) P Hd ltac:(lia)) as (ok & it' & E & R' & Eok).
      exists ok, it'. split; [exact E|]. cbn [c_next]. rewrite view_len.
      replace (S (a + i') - a)%nat with (S i') in R' by lia.
      destruct (Nat.ltb_spec (S (a + i')) zl) as [L|L].
      + replace (Nat.ltb (S i') (zl - a)) with true by (symmetry; apply Nat.ltb_lt; lia). auto.
      + replace (Nat.ltb (S i') (zl - a)) with false by (symmetry; apply Nat.ltb_ge; lia). auto.
    - (* at EOI *)
      destruct R as [Hs Hd]. exists false, it. rewrite bi_next_unfold, Hd. cbn [bdir_eqb orb c_next].
      split; [reflexivity|]. split; [split; assumption | reflexivity].
  Qed.

  (* ---------------- Seek ---------------- *)
  Lemma view_kv i' : (a + i' < zl)%nat -> nth_error view i' = Some (key_at kvs (a + i'), val_at kvs (a + i')).
  Proof.
    intros H. rewrite view_nth by lia. apply nth_kv. pose proof (vo_z vok). lia.
  Qed.

  Lemma c_seek_view_at key i' : (a + i' < zl)%nat ->
    cmp c (key_at kvs (a + i')) key <> Lt ->
    (forall j', (a <= j')%nat -> (j' < a + i')%nat -> cmp c (key_at kvs j') key = Lt) ->
    c_seek c view key = CAt i'.
  Proof.
    intros Hi Hge Hlt. unfold c_seek.
    rewrite (first_ge_some_intro c view key 0 i' _ _ (view_kv i' Hi) Hge); [reflexivity|].
    intros j' k' v' Hj' Hn. rewrite view_kv in Hn by lia. injection Hn as <- _. apply Hlt; lia.
  Qed.

  Lemma c_seek_view_none key :
    (forall j', (a <= j')%nat -> (j' < zl)%nat -> cmp c (key_at kvs j') key = Lt) ->
    c_seek c view key = CEOI.
  Proof.
    intros Hlt. unfold c_seek. rewrite (first_ge_none_intro c view key 0); [reflexivity|].
    intros j' k' v' Hn.
    assert (Hj : (j' < zl - a)%nat) by (rewrite <- view_len; apply nth_error_Some; rewrite Hn; discriminate).
    rewrite view_kv in Hn by lia. injection Hn as <- _. apply Hlt; lia.
  Qed.

  Lemma seek_loop_s key : forall fuel it j,
    pre_s it j -> dmoving it -> (a <= j)%nat -> (zl - j < fuel)%nat ->
    (forall j', (a <= j')%nat -> (j' < j)%nat -> cmp c (key_at kvs j') key = Lt) ->
    exists ok it', bi_seek_loop fuel c key it = (ok, it') /\ rep_s it' (c_seek c view key) /\
                   ok = match c_seek c view key with CAt _ => true | _ => false end.
  Proof.
    induction fuel as [|fu IH]; intros it j P Hd Haj Hf Hlt; [lia|].
    cbn [bi_seek_loop].
    destruct (next_moving_s it j P Hd Haj) as (ok & it' & E & R' & Eok). rewrite E.
    destruct (Nat.ltb_spec j zl) as [L|L]; subst ok.
    - pose proof R' as (_ & _ & _ & Ek & _). rewrite Ek. replace (a + (j - a))%nat with j in * by lia.
      assert (Hdone : cmp c (key_at kvs j) key <> Lt -> c_seek c view key = CAt (j - a)).
      { intros Hge. apply c_seek_view_at; [lia | replace (a + (j - a))%nat with j by lia; exact Hge |].
        intros j' H1 H2. apply Hlt; lia. }
      destruct (cmp c (key_at kvs j) key) eqn:Ec.
      + exists true, it'. rewrite Hdone by congruence. auto.
      + destruct (rep_s_pre it' (j - a) R') as [P' Hd'].
        replace (S (a + (j - a))) with (S j) in P' by lia.
        apply (IH it' (S j) P' Hd'); [lia | lia |].
        intros j' H1 H2. destruct (Nat.eq_dec j' j) as [->|]; [exact Ec | apply Hlt; lia].
      + exists true, it'. rewrite Hdone by congruence. auto.
    - exists false, it'. rewrite c_seek_view_none; [auto|].
      intros j' H1 H2. apply Hlt; try assumption. destruct P as (_ & _ & Hj & _). lia.
  Qed.

  (* from a position at or before the slice start *)
  Lemma seek_loop_le key fuel it j :
    pre_s it j -> dmoving it -> (j <= a)%nat -> (S (zl - a) < fuel)%nat ->
    exists ok it', bi_seek_loop fuel c key it = (ok, it') /\ rep_s it' (c_seek c view key) /\
                   ok = match c_seek c view key with CAt _ => true | _ => false end.
  Proof.
    intros P Hd Hja Hf. destruct fuel as [|fu]; [lia|]. cbn [bi_seek_loop].
    rewrite bi_next_unfold. rewrite (has_err_s it) by apply P.
    replace (bdir_eqb (bi_dir it) DEOI) with false by (destruct Hd as [-> | ->]; reflexivity).
    replace (bdir_eqb (bi_dir it) DSOI) with false by (destruct Hd as [-> | ->]; reflexivity).
    cbn [orb].
    destruct (next_body_le it j P Hja) as (ok & it' & E & R' & Eok). rewrite E.
    destruct (Nat.ltb_spec a zl) as [L|L]; subst ok.
    - pose proof R' as (_ & _ & _ & Ek & _). rewrite Ek. rewrite Nat.add_0_r in *.
      assert (Hdone : cmp c (key_at kvs a) key <> Lt -> c_seek c view key = CAt 0).
      { intros Hge. apply c_seek_view_at; [lia | rewrite Nat.add_0_r; exact Hge | intros; lia]. }
      destruct (cmp c (key_at kvs a) key) eqn:Ec.
      + exists true, it'. rewrite Hdone by congruence. auto.
      + destruct (rep_s_pre it' 0 R') as [P' Hd']. rewrite Nat.add_0_r in P'.
        apply (seek_loop_s key fu it' (S a) P' Hd'); [lia | lia |].
        intros j' H1 H2. assert (j' = a) by lia. subst j'. exact Ec.
      + exists true, it'. rewrite Hdone by congruence. auto.
    - exists false, it'. rewrite c_seek_view_none; [auto|]. intros; lia.
  Qed.

  Definition rk_gt_s (key : bytes) (x : N) : bool :=
    match restart_key b x with Some k => is_gt (cmp c k key) | None => false end.

  (* where block.seek starts the scan *)
  Lemma block_seek_s key :
    exists r j0 o,
      block_seek c b (N.of_nat rs) (N.of_nat rl) key = Some (N.of_nat r, o) /\
      N.max offS o = off j0 /\ (j0 <= zl)%nat /\
      ((j0 < len)%nat -> In j0 ris) /\
      ((a < zl)%nat -> (rs <= r)%nat /\ (r < rl)%nat /\ (nth r ris 0 <= j0)%nat) /\
      (forall j', (a <= j')%nat -> (j' < j0)%nat -> cmp c (key_at kvs j') key = Lt).
  Proof.
    pose proof (vo_a vok) as Ha. pose proof (vo_z vok) as Hz. pose proof (vo_rs vok) as Hrs. pose proof (vo_rl vok) as Hrl.
    unfold block_seek.
    destruct (sort_search_mono (N.of_nat rl - N.of_nat rs)
                (fun i => option_map (fun k => is_gt (cmp c k key)) (restart_key b (N.of_nat rs + i)))
                (fun i => rk_gt_s key (N.of_nat rs + i))) as (s & Es & Hs & Hlo & Hhi).
    - intros h Hh. unfold rk_gt_s.
      destruct (lay_rkey _ _ _ _ lay (rs + N.to_nat h)) as (k & E & _); [lia|].
      replace (N.of_nat (rs + N.to_nat h)) with (N.of_nat rs + h) in E by lia. rewrite E. reflexivity.
    - intros h1 h2 H12 H2 P1. unfold rk_gt_s in *.
      assert (Hr2 : (rs + N.to_nat h2 < nr)%nat) by lia.
      assert (Hr1 : (rs + N.to_nat h1 < nr)%nat) by lia.
      pose proof (restart_key_at kvs b off ris lay (rs + N.to_nat h1) kvs_ne Hr1) as E1.
      pose proof (restart_key_at kvs b off ris lay (rs + N.to_nat h2) kvs_ne Hr2) as E2.
      replace (N.of_nat (rs + N.to_nat h1)) with (N.of_nat rs + h1) in E1 by lia.
      replace (N.of_nat (rs + N.to_nat h2)) with (N.of_nat rs + h2) in E2 by lia.
      rewrite E1 in P1. rewrite E2.
      destruct (N.eq_dec h1 h2) as [->|Hne12]; [exact P1|].
      assert (L : cmp c (key_at kvs (nth (rs + N.to_nat h1) ris 0%nat)) (key_at kvs (nth (rs + N.to_nat h2) ris 0%nat)) = Lt).
      { apply (keys_lt c c_ok kvs srt); [apply (lay_ris_incr _ _ _ _ lay); lia | apply (ris_lt kvs b off ris lay); lia]. }
      destruct (cmp c (key_at kvs (nth (rs + N.to_nat h1) ris 0%nat)) key) eqn:G; try discriminate.
      apply (cmp_gt_lt c c_ok) in G.
      assert (cmp c key (key_at kvs (nth (rs + N.to_nat h2) ris 0%nat)) = Lt) by (eapply (cmp_trans c c_ok); eauto).
      apply (cmp_lt_gt c c_ok) in H. rewrite H. reflexivity.
    - rewrite Es.
      set (r := if s =? 0 then rs else (N.to_nat s + rs - 1)%nat).
      assert (Ei : (if s =? 0 then N.of_nat rs else s + N.of_nat rs - 1) = N.of_nat r).
      { unfold r. destruct (N.eqb_spec s 0); [reflexivity | lia]. }
      rewrite Ei.
      destruct (Nat.eq_dec rs nr) as [Enr|Nnr].
      + (* the slice starts past the last restart point: the restart count is read *)
        assert (s = 0) by lia. subst s. unfold r. cbn [N.eqb].
        destruct (vo_start vok) as [[H1 _]|[_ Hal]]; [lia|].
        rewrite Enr. fold (lenN ris). rewrite (lay_count _ _ _ _ lay). cbn [option_map].
        exists nr, len, (lenN ris). split; [reflexivity|].
        assert (Hcnt : lenN ris <= b_roff b).
        { pose proof (ris_lt kvs b off ris lay (nr - 1) kvs_ne ltac:(pose proof (lay_ris_len _ _ _ _ lay); lia)) as H1.
          pose proof (off_ge kvs b off ris lay len ltac:(lia)) as H2. rewrite off_len in H2.
          (* restart indexes are distinct entries: nr <= len *)
          assert (nr <= len)%nat.
          { pose proof (lay_ris_incr _ _ _ _ lay) as Hinc.
            assert (Hge : forall r0, (r0 < nr)%nat -> (r0 <= nth r0 ris 0)%nat).
            { induction r0 as [|r0 IHr]; intros Hr0; [lia|].
              specialize (IHr ltac:(lia)). pose proof (Hinc r0 (S r0) ltac:(lia) Hr0). lia. }
            specialize (Hge (nr - 1)%nat ltac:(pose proof (lay_ris_len _ _ _ _ lay); lia)). lia. }
          unfold lenN. lia. }
        split.
        { unfold offS. replace (Nat.ltb rs nr) with false by (symmetry; apply Nat.ltb_ge; lia).
          rewrite off_len. lia. }
        split; [lia|]. split; [intros; lia|]. split; [intros; lia|]. intros; lia.
      + assert (Hrn : (r < nr)%nat).
        { unfold r. destruct (N.eqb_spec s 0); lia. }
        rewrite (lay_roff _ _ _ _ lay r Hrn). cbn [option_map].
        exists r, (nth r ris 0%nat), (off (nth r ris 0%nat)). split; [reflexivity|].
        assert (Hrr : (rs <= r)%nat) by (unfold r; destruct (N.eqb_spec s 0); lia).
        assert (Hmx : N.max offS (off (nth r ris 0%nat)) = off (nth r ris 0%nat)).
        { unfold offS. replace (Nat.ltb rs nr) with true by (symmetry; apply Nat.ltb_lt; lia).
          apply N.max_r. apply omono_le; [apply (ris_mono kvs b off ris lay); lia | pose proof (ris_lt kvs b off ris lay r kvs_ne Hrn); lia]. }
        split; [exact Hmx|].
        destruct (vo_start vok) as [[_ Hsa]|[Hx _]]; [|lia].
        assert (Hj0 : (nth r ris 0 <= zl)%nat).
        { destruct (Nat.eq_dec rs rl) as [Erl|Nrl].
          - assert (s = 0) by lia. subst s. unfold r. cbn [N.eqb]. lia.
          - pose proof (vo_limit vok ltac:(lia)) as Hl.
            assert (r <= rl - 1)%nat by (unfold r; destruct (N.eqb_spec s 0); lia).
            pose proof (ris_mono kvs b off ris lay r (rl - 1) ltac:(lia) ltac:(lia)). lia. }
        split; [exact Hj0|]. split; [intros _; apply nth_In; exact Hrn|].
        split.
        { intros Hne. pose proof (vo_nonempty vok Hne). split; [exact Hrr|]. split; [unfold r; destruct (N.eqb_spec s 0); lia | lia]. }
        intros j' H1 H2.
        destruct (N.eqb_spec s 0) as [Z|NZ].
        * unfold r in H2. lia.
        * assert (Pf : rk_gt_s key (N.of_nat rs + (s - 1)) = false) by (apply Hlo; lia).
          unfold rk_gt_s in Pf.
          replace (N.of_nat rs + (s - 1)) with (N.of_nat r) in Pf by (unfold r; lia).
          rewrite (restart_key_at kvs b off ris lay r kvs_ne Hrn) in Pf.
          pose proof (keys_lt c c_ok kvs srt j' (nth r ris 0%nat) H2 (ris_lt kvs b off ris lay r kvs_ne Hrn)) as L.
          destruct (cmp c (key_at kvs (nth r ris 0%nat)) key) eqn:G; try discriminate.
          -- apply (cmp_eq c c_ok) in G. rewrite <- G. exact L.
          -- eapply (cmp_trans c c_ok); eauto.
  Qed.

  Lemma seek_from_slice it key : slice_at it ->
    exists ok it', bi_seek c it key = (ok, it') /\ rep_s it' (c_seek c view key) /\
                   ok = match c_seek c view key with CAt _ => true | _ => false end.
  Proof.
    intros Hs.
    pose proof Hs as (Eb & Ee & E1 & E2 & E3 & E4 & E5).
    pose proof (vo_a vok) as Ha. pose proof (vo_z vok) as Hz.
    unfold bi_seek. rewrite (has_err_s it Hs), Eb, E1, E2.
    destruct (block_seek_s key) as (r & j0 & o & Eseek & Emax & Hj0 & Hin & Hr & Hlt). rewrite Eseek.
    rewrite E3, Emax.
    set (d := if bdir_eqb (bi_dir it) DSOI || bdir_eqb (bi_dir it) DEOI then DForward else bi_dir it).
    set (it1 := bi_with_pos it (bi_key it) (bi_value it) (off j0) (bi_prevOffset it) (N.of_nat r) d).
    assert (P : pre_s it1 j0).
    { split; [exact Hs|]. split; [reflexivity|]. split; [exact Hj0|]. split.
      - intros L _. destruct (Hr L) as (H0 & H1 & H2). exists r. split; [exact H0|]. split; [exact H1|]. split; [reflexivity | exact H2].
      - intros L. left. apply Hin. exact L. }
    assert (Hd : dmoving it1).
    { unfold dmoving, it1. cbn [bi_with_pos bi_dir]. unfold d. destruct (bi_dir it); cbn; auto. }
    assert (Hfu : (S (S (zl - a)) < bi_fuel it1)%nat \/ True) by (right; exact I).
    replace (bi_fuel it) with (bi_fuel it1) by reflexivity.
    assert (Hfuel : (S (zl - a) < bi_fuel it1)%nat).
    { unfold bi_fuel, it1. cbn [bi_with_pos bi_blk]. rewrite Eb. pose proof (len_le_data kvs b off ris lay).
      (* one more than the number of entries *)
      pose proof (off_ge kvs b off ris lay len ltac:(lia)) as Hg. rewrite off_len in Hg.
      pose proof (lay_data _ _ _ _ lay) as Hdt. unfold lenN in Hdt. lia. }
    destruct (Nat.le_gt_cases j0 a) as [L|L].
    - apply (seek_loop_le key (bi_fuel it1) it1 j0 P Hd L Hfuel).
    - apply (seek_loop_s key (bi_fuel it1) it1 j0 P Hd ltac:(lia)); [lia|]. exact Hlt.
  Qed.

  Lemma seek_step_s it p key : rep_s it p ->
    exists ok it', bi_seek c it key = (ok, it') /\ rep_s it' (c_seek c view key) /\
                   ok = match c_seek c view key with CAt _ => true | _ => false end.
  Proof. intros R. apply seek_from_slice. apply (rep_s_slice it p R). Qed.

  (* ---------------- Prev ---------------- *)
  Lemma prev_scan_s i : (a < i)%nat -> (i <= len)%nat -> forall fuel j key value,
    (j < i)%nat -> (i - j <= fuel)%nat ->
    (In j ris \/ ((0 < j)%nat /\ key = key_at kvs (j - 1))) ->
    prev_scan fuel b (off a) (off i) (off j) key value
    = ScOk (key_at kvs (i - 1)) (val_at kvs (i - 1)) (off (i - 1)) (off i).
  Proof.
    intros Hai Hi. induction fuel as [|fu IH]; intros j key value Hj Hf Hk; [lia|].
    cbn [prev_scan]. rewrite (lay_read _ _ _ _ lay j key ltac:(lia) Hk).
    pose proof (lay_step _ _ _ _ lay j ltac:(lia)) as Hst.
    replace (off j + (off (S j) - off j)) with (off (S j)) by lia.
    destruct (Nat.eq_dec (S j) i) as [E|NE].
    - subst i. rewrite N.leb_refl, N.eqb_refl. replace (S j - 1)%nat with j by lia.
      pose proof (omono_le a j ltac:(lia) ltac:(lia)) as Hm.
      replace (off a <=? off j) with true by lia. reflexivity.
    - pose proof (omono (S j) i ltac:(lia) Hi) as Hm.
      replace (off i <=? off (S j)) with false by lia.
      apply IH; [lia | lia |]. right. split; [lia|]. replace (S j - 1)%nat with j by lia. reflexivity.
  Qed.

  Lemma restart_index_s r0 i : (r0 < rl)%nat -> (nth r0 ris 0 <= i)%nat -> (i < len)%nat ->
    exists r, restart_index b (N.of_nat r0) (N.of_nat rl) (off i) = Some (N.of_nat r) /\
              (r0 <= r)%nat /\ (r < rl)%nat /\ (nth r ris 0 <= i)%nat.
  Proof.
    intros Hr0 H0 Hi. pose proof (vo_rl vok) as Hrl. unfold restart_index.
    destruct (sort_search_mono (N.of_nat rl - N.of_nat r0)
                (fun x => option_map (fun o => off i <? o) (restart_offset b (N.of_nat r0 + x)))
                (fun x => off i <? off (nth (r0 + N.to_nat x) ris 0%nat))) as (s & Es & Hs & Hlo & Hhi).
    - intros h Hh. replace (N.of_nat r0 + h) with (N.of_nat (r0 + N.to_nat h)) by lia.
      rewrite (lay_roff _ _ _ _ lay) by lia. reflexivity.
    - intros h1 h2 H12 H2 P1.
      assert (Hr2 : (r0 + N.to_nat h2 < nr)%nat) by lia.
      pose proof (ris_mono kvs b off ris lay (r0 + N.to_nat h1) (r0 + N.to_nat h2) ltac:(lia) Hr2) as Hm.
      pose proof (ris_lt kvs b off ris lay (r0 + N.to_nat h2) kvs_ne Hr2) as Hl2.
      pose proof (omono_le _ _ Hm ltac:(lia)). lia.
    - rewrite Es.
      assert (S0 : s <> 0).
      { intros ->. assert (Hp : (off i <? off (nth (r0 + N.to_nat 0) ris 0%nat)) = true) by (apply Hhi; lia).
        replace (r0 + N.to_nat 0)%nat with r0 in Hp by lia.
        pose proof (omono_le _ _ H0 ltac:(lia)). lia. }
      replace (s + N.of_nat r0 =? 0) with false by lia.
      set (r := (r0 + N.to_nat (s - 1))%nat).
      exists r. split; [f_equal; unfold r; lia|].
      assert (Hr : (r < rl)%nat) by (unfold r; lia).
      split; [unfold r; lia|]. split; [exact Hr|].
      assert (Hp : (off i <? off (nth (r0 + N.to_nat (s - 1)) ris 0%nat)) = false) by (apply Hlo; lia).
      fold r in Hp. apply ole_inv; [pose proof (ris_lt kvs b off ris lay r kvs_ne ltac:(lia)); lia | lia | lia].
  Qed.

  Lemma prev_finish_s it i ri0 : (a < i)%nat -> (i <= zl)%nat -> slice_at it ->
    (rs <= ri0)%nat -> (ri0 < rl)%nat -> (nth ri0 ris 0 <= i)%nat ->
    (nth ri0 ris 0%nat = i -> (rs < ri0)%nat) ->
    exists it',
      match restart_offset (bi_blk it) (N.of_nat ri0) with
      | None => (false, bi_serr it ErrPanic)
      | Some off0 =>
          let adj :=
            if off0 =? off i then
              (if N.of_nat ri0 =? 0 then inl tt
               else inr (option_map (fun o => (N.of_nat ri0 - 1, o)) (restart_offset (bi_blk it) (N.of_nat ri0 - 1))))
            else inr (Some (N.of_nat ri0, off0)) in
          match adj with
          | inl _ => (false, bi_with_dir it DSOI)
          | inr None => (false, bi_serr it ErrPanic)
          | inr (Some (ri', o)) =>
              match prev_scan (bi_fuel it) (bi_blk it) (bi_offRealStart it) (off i) o [] [] with
              | ScErr e => (false, bi_serr (bi_with_dir it DBackward) e)
              | ScOk k v st o' => (true, bi_with_pos it k v o' st ri' DBackward)
              end
          end
      end = (true, it') /\ rep_s it' (CAt (i - 1 - a)).
  Proof.
    intros Hai Hi Hs Hrs0 Hr Hle Hadj.
    pose proof Hs as (Eb & Ee & E1 & E2 & E3 & E4 & E5).
    pose proof (vo_z vok) as Hz. pose proof (vo_rl vok) as Hrl.
    rewrite Eb, E4, (lay_roff _ _ _ _ lay ri0 ltac:(lia)).
    assert (Hfuel : forall j, (i - j <= bi_fuel it)%nat).
    { intros j. unfold bi_fuel. rewrite Eb. pose proof (len_le_data kvs b off ris lay). lia. }
    assert (Ei : (a + (i - 1 - a))%nat = (i - 1)%nat) by lia.
    destruct (N.eqb_spec (off (nth ri0 ris 0%nat)) (off i)) as [Eo|No].
    - apply oinj in Eo; [| pose proof (ris_lt kvs b off ris lay ri0 kvs_ne ltac:(lia)); lia | lia].
      specialize (Hadj Eo). replace (N.of_nat ri0 =? 0) with false by lia.
      replace (N.of_nat ri0 - 1) with (N.of_nat (ri0 - 1)) by lia.
      rewrite (lay_roff _ _ _ _ lay (ri0 - 1)%nat) by lia. cbn [option_map]. cbv beta iota zeta.
      pose proof (lay_ris_incr _ _ _ _ lay (ri0 - 1)%nat ri0 ltac:(lia) ltac:(lia)) as Hinc.
      rewrite (prev_scan_s i Hai ltac:(lia) (bi_fuel it) (nth (ri0 - 1) ris 0%nat) [] []); try lia.
      + eexists. split; [reflexivity|]. unfold rep_s. rewrite !Ei.
        split; [lia|]. split; [exact Hs|]. split; [right; reflexivity|].
        cbn [bi_with_pos bi_key bi_value bi_offset bi_prevOffset bi_ri].
        replace (S (i - 1)) with i by lia.
        split; [reflexivity|]. split; [reflexivity|]. split; [reflexivity|]. split; [reflexivity|].
        exists (ri0 - 1)%nat. split; [lia|]. split; [lia|]. split; [reflexivity | lia].
      + apply Hfuel.
      + left. apply nth_In. lia.
    - assert (Hlt : (nth ri0 ris 0 < i)%nat).
      { destruct (Nat.eq_dec (nth ri0 ris 0%nat) i) as [E|]; [rewrite E in No; congruence | lia]. }
      cbv beta iota zeta.
      rewrite (prev_scan_s i Hai ltac:(lia) (bi_fuel it) (nth ri0 ris 0%nat) [] []); try lia.
      + eexists. split; [reflexivity|]. unfold rep_s. rewrite !Ei.
        split; [lia|]. split; [exact Hs|]. split; [right; reflexivity|].
        cbn [bi_with_pos bi_key bi_value bi_offset bi_prevOffset bi_ri].
        replace (S (i - 1)) with i by lia.
        split; [reflexivity|]. split; [reflexivity|]. split; [reflexivity|]. split; [reflexivity|].
        exists ri0. split; [exact Hrs0|]. split; [exact Hr|]. split; [reflexivity | lia].
      + apply Hfuel.
      + left. apply nth_In. lia.
  Qed.

  Lemma c_last_view : c_last view = if Nat.ltb a zl then CAt (zl - a - 1) else CSOI.
  Proof.
    unfold c_last. pose proof view_len as Hl. destruct (Nat.ltb_spec a zl) as [L|L].
    - destruct view eqn:E; [cbn in Hl; lia|]. rewrite Hl. reflexivity.
    - destruct view; [reflexivity | cbn in Hl; lia].
  Qed.

  Lemma prev_step_s it p : rep_s it p ->
    exists ok it', bi_prev it = (ok, it') /\ rep_s it' (c_prev view p) /\
                   ok = match c_prev view p with CAt _ => true | _ => false end.
  Proof.
    intros R. pose proof (vo_a vok) as Ha. pose proof (vo_z vok) as Hz.
    destruct p as [|i'|].
    - destruct R as [Hs Hd]. exists false, it. unfold bi_prev. rewrite Hd. cbn [bdir_eqb orb c_prev].
      split; [reflexivity|]. split; [split; assumption | reflexivity].
    - destruct R as (Hi & Hs & Hd & Hk & Hv & Ho & Hp & (r0 & Hrs0 & Hr0 & Er0 & Hle0)).
      pose proof Hs as (Eb & Ee & E1 & E2 & E3 & E4 & E5).
      unfold bi_prev. rewrite (has_err_s it Hs).
      replace (bdir_eqb (bi_dir it) DSOI) with false by (destruct Hd as [-> | ->]; reflexivity).
      cbn [orb].
      assert (Estart :
        match bi_dir it with
        | DEOI =>
            if bi_offLimit it =? bi_offRealStart it then inl tt
            else if bi_riLimit it =? 0 then inr None
            else inr (Some (bi_offLimit it, bi_riLimit it - 1))
        | _ =>
            if bi_prevOffset it =? bi_offRealStart it then inl tt
            else inr (option_map (fun r => (bi_prevOffset it, r))
                        (restart_index (bi_blk it) (bi_ri it) (bi_riLimit it) (bi_prevOffset it)))
        end =
        if bi_prevOffset it =? bi_offRealStart it then inl tt
            else inr (option_map (fun r => (bi_prevOffset it, r))
                        (restart_index (bi_blk it) (bi_ri it) (bi_riLimit it) (bi_prevOffset it)))).
      { destruct Hd as [-> | ->]; reflexivity. }
      rewrite Estart. clear Estart. rewrite Hp, E4.
      destruct i' as [|i''].
      + rewrite Nat.add_0_r, N.eqb_refl. cbn [c_prev].
        exists false, (bi_with_dir it DSOI). split; [reflexivity|]. split; [split; [exact Hs | reflexivity] | reflexivity].
      + set (i := (a + S i'')%nat) in *.
        pose proof (omono a i ltac:(lia) ltac:(lia)) as Hpos.
        replace (off i =? off a) with false by lia.
        rewrite Eb, Er0, E2.
        destruct (restart_index_s r0 i Hr0 Hle0 ltac:(lia)) as (r & Eri & Hrr0 & Hr & Hle). rewrite Eri. cbn [option_map].
        destruct (prev_finish_s it i r ltac:(lia) ltac:(lia) Hs ltac:(lia) Hr Hle) as (it' & E & R').
        * intros En. destruct (Nat.eq_dec r rs) as [->|]; [|lia].
          destruct (vo_start vok) as [[_ Hsa]|[_ Hal]]; lia.
        * rewrite Eb, E4 in E. exists true, it'. split; [exact E|]. cbn [c_prev].
          replace (i - 1 - a)%nat with i'' in R' by lia. auto.
    - destruct R as [Hs Hd].
      pose proof Hs as (Eb & Ee & E1 & E2 & E3 & E4 & E5).
      unfold bi_prev. rewrite (has_err_s it Hs), Hd. cbn [bdir_eqb orb].
      rewrite E5, E4, E2. cbn [c_prev]. rewrite c_last_view.
      destruct (Nat.ltb_spec a zl) as [L|L].
      + pose proof (omono a zl L Hz) as Hpos. replace (off zl =? off a) with false by lia.
        pose proof (vo_nonempty vok L) as Hrr. pose proof (vo_limit vok Hrr) as Hlim.
        replace (N.of_nat rl =? 0) with false by lia.
        replace (N.of_nat rl - 1) with (N.of_nat (rl - 1)) by lia.
        destruct (prev_finish_s it zl (rl - 1)%nat L ltac:(lia) Hs ltac:(lia) ltac:(lia) Hlim) as (it' & E & R').
        * intros En. destruct (Nat.eq_dec (rl - 1) rs) as [Z|]; [|lia].
          rewrite Z in En. destruct (vo_start vok) as [[_ Hsa]|[_ Hal]]; lia.
        * rewrite E4 in E. exists true, it'. split; [exact E|].
          replace (zl - 1 - a)%nat with (zl - a - 1)%nat in R' by lia. auto.
      + assert (Ez : off zl = off a) by (f_equal; lia). rewrite Ez, N.eqb_refl.
        exists false, (bi_with_dir it DSOI). split; [reflexivity|]. split; [split; [exact Hs | reflexivity] | reflexivity].
  Qed.

  (* ---------------- the step function and runs ---------------- *)
  Lemma step_refines_s it p o : rep_s it p ->
    exists ok it', bi_step c it o = (ok, it') /\ rep_s it' (c_step c view p o) /\
                   ok = match c_step c view p o with CAt _ => true | _ => false end.
  Proof.
    intros R. pose proof (rep_s_slice it p R) as Hs.
    destruct o as [| |k| |]; cbn [bi_step c_step].
    - unfold bi_first. rewrite (has_err_s it Hs).
      apply (next_step_s (bi_with_dir it DSOI) CSOI). split; [exact Hs | reflexivity].
    - unfold bi_last. rewrite (has_err_s it Hs).
      apply (prev_step_s (bi_with_dir it DEOI) CEOI). split; [exact Hs | reflexivity].
    - apply (seek_step_s it p k R).
    - apply (next_step_s it p R).
    - apply (prev_step_s it p R).
  Qed.

  Theorem run_refines_s ops : forall it p, rep_s it p -> bi_run c it ops = c_run c view p ops.
  Proof.
    induction ops as [|o r IH]; intros it p R; cbn [bi_run c_run]; [reflexivity|].
    destruct (step_refines_s it p o R) as (ok & it' & E & R' & Eok). rewrite E.
    rewrite (IH it' _ R'). f_equal.
    destruct (c_step c view p o) as [|i'|]; subst ok; cbn [c_get]; try reflexivity.
    destruct R' as (Hi & _ & _ & Hk & Hv & _). rewrite Hk, Hv. symmetry. apply view_kv. exact Hi.
  Qed.
End Sliced.

(* ------------------------------------------------------------ Part 2: newBlockIter computes a slice *)
Lemma cseek_cases {V} c key (l : list (bytes * V)) :
  (exists i, c_seek c l key = CAt i) \/ c_seek c l key = CEOI.
Proof. unfold c_seek. destruct (first_ge c key l 0); eauto. Qed.

Lemma cseek_elim_at {V} c key (l : list (bytes * V)) i :
  c_seek c l key = CAt i ->
  exists kv, nth_error l i = Some kv /\ cmp c (fst kv) key <> Lt /\
             (forall j' kv', (j' < i)%nat -> nth_error l j' = Some kv' -> cmp c (fst kv') key = Lt).
Proof.
  unfold c_seek. destruct (first_ge c key l 0) as [i'|] eqn:E; [|discriminate].
  intros H. injection H as ->.
  apply first_ge_some_elim in E as (_ & (ki & vi & H2 & H3) & H4). rewrite Nat.sub_0_r in *.
  exists (ki, vi). split; [exact H2|]. split; [exact H3|].
  intros j' [k' v'] Hj Hn. eapply H4; eauto.
Qed.

Lemma cseek_elim_eoi {V} c key (l : list (bytes * V)) :
  c_seek c l key = CEOI -> forall j kv, nth_error l j = Some kv -> cmp c (fst kv) key = Lt.
Proof.
  unfold c_seek. destruct (first_ge c key l 0) as [i'|] eqn:E; [discriminate|]. intros _.
  intros j [k v] Hn. eapply first_ge_none_elim; eauto.
Qed.

Section NewIter.
  Variable c : comparer.
  Hypothesis c_ok : comparer_ok c.
  Variable kvs : list (bytes * bytes).
  Variable b : block.
  Variable off : nat -> N.
  Variable ris : list nat.
  Hypothesis lay : block_layout kvs b off ris.
  Hypothesis srt : sorted c kvs.
  Hypothesis kvs_ne : (0 < length kvs)%nat.

  Local Notation len := (length kvs).
  Local Notation nr := (length ris).

  (* what the bounds mean *)
  Definition start_spec (start : option bytes) (a : nat) : Prop :=
    match start with
    | None => a = 0%nat
    | Some s => (a <= len)%nat /\ (forall j, (j < a)%nat -> cmp c (key_at kvs j) s = Lt) /\
                ((a < len)%nat -> cmp c (key_at kvs a) s <> Lt)
    end.

  Definition limit_spec (limit : option bytes) (incl : bool) (a zl : nat) : Prop :=
    match limit with
    | None => zl = len
    | Some l => exists z, (a <= z)%nat /\ (z <= len)%nat /\
                  (forall j, (a <= j)%nat -> (j < z)%nat -> cmp c (key_at kvs j) l = Lt) /\
                  ((z < len)%nat -> cmp c (key_at kvs z) l <> Lt) /\
                  zl = (if incl then Nat.min (S z) len else z)
    end.

  Lemma full_view_ok : view_ok kvs ris 0 len 0 nr.
  Proof.
    pose proof (lay_ris_len _ _ _ _ lay) as Hne.
    constructor; [lia | lia | lia | lia | | | intros; lia].
    - left. split; [exact Hne|]. rewrite (lay_ris_hd _ _ _ _ lay). lia.
    - intros _. pose proof (ris_lt kvs b off ris lay (nr - 1) kvs_ne ltac:(lia)). lia.
  Qed.

  Lemma slice_at_unsliced : slice_at b off ris 0 len 0 nr (bi_unsliced b).
  Proof.
    pose proof (lay_ris_len _ _ _ _ lay) as Hne.
    unfold slice_at, bi_unsliced. cbn [bi_blk bi_err bi_riStart bi_riLimit bi_offStart bi_offRealStart bi_offLimit].
    split; [reflexivity|]. split; [reflexivity|]. split; [reflexivity|].
    split; [rewrite (lay_rlen _ _ _ _ lay); reflexivity|].
    split.
    { unfold offS. replace (Nat.ltb 0 nr) with true by (symmetry; apply Nat.ltb_lt; exact Hne).
      rewrite (lay_ris_hd _ _ _ _ lay), (lay_off0 _ _ _ _ lay). reflexivity. }
    split; [rewrite (lay_off0 _ _ _ _ lay); reflexivity | rewrite (lay_end _ _ _ _ lay); reflexivity].
  Qed.

  (* slice fields are independent of the position fields *)
  Lemma slice_at_with_start it a zl rs rl a' rs' :
    slice_at b off ris a zl rs rl it ->
    slice_at b off ris a' zl rs' rl (bi_with_start it (N.of_nat rs') (offS b off ris rs') (off a')).
  Proof.
    intros (Eb & Ee & E1 & E2 & E3 & E4 & E5). unfold slice_at, bi_with_start.
    cbn [bi_blk bi_err bi_riStart bi_riLimit bi_offStart bi_offRealStart bi_offLimit].
    repeat split; assumption.
  Qed.

  Lemma slice_at_with_limit it a zl rs rl zl' rl' :
    slice_at b off ris a zl rs rl it ->
    slice_at b off ris a zl' rs rl' (bi_with_limit it (N.of_nat rl') (off zl')).
  Proof.
    intros (Eb & Ee & E1 & E2 & E3 & E4 & E5). unfold slice_at, bi_with_limit.
    cbn [bi_blk bi_err bi_riStart bi_riLimit bi_offStart bi_offRealStart bi_offLimit].
    repeat split; assumption.
  Qed.

  Lemma slice_at_reset it a zl rs rl : slice_at b off ris a zl rs rl it -> slice_at b off ris a zl rs rl (bi_reset it).
  Proof. intros H. exact H. Qed.

  (* the start bound *)
  Lemma start_phase start :
    exists a rs bi1,
      match start with
      | None => bi_unsliced b
      | Some s =>
          let '(ok, bi') := bi_seek c (bi_unsliced b) s in
          if ok then
            match restart_index b (bi_ri bi') (b_rlen b) (bi_prevOffset bi') with
            | None => bi_serr bi' ErrPanic
            | Some rs0 =>
                match restart_offset b rs0 with
                | None => bi_serr bi' ErrPanic
                | Some os => bi_with_start bi' rs0 os (bi_prevOffset bi')
                end
            end
          else bi_with_start bi' (b_rlen b) (b_roff b) (b_roff b)
      end = bi1 /\
      view_ok kvs ris a len rs nr /\ slice_at b off ris a len rs nr bi1 /\ start_spec start a.
  Proof.
    destruct start as [s|].
    - destruct (seek_step c c_ok kvs b off ris lay srt (bi_unsliced b) CSOI s (rep_unsliced _ _ _ _)) as (ok & bi' & E & R & Eok).
      rewrite E.
      destruct (cseek_cases c s kvs) as [(a0 & Ea)|Ee].
      + rewrite Ea in R, Eok. subst ok.
        destruct R as (Ha0 & Hs & Hd & Hk & Hv & Ho & Hp & (r & Hr1 & Hr2 & Hr3)).
        rewrite Hp, Hr2.
        destruct (restart_index_spec kvs b off ris lay r a0 Hr1 Hr3 Ha0) as (rs0 & Eri & Hrs0 & Hle0).
        rewrite Eri, (lay_roff _ _ _ _ lay rs0 Hrs0).
        exists a0, rs0. eexists. split; [reflexivity|].
        assert (Hvo : view_ok kvs ris a0 len rs0 nr).
        { constructor; [lia | lia | lia | lia | left; split; assumption | | intros; lia].
          intros _. pose proof (ris_lt kvs b off ris lay (nr - 1) kvs_ne ltac:(lia)). lia. }
        split; [exact Hvo|]. split.
        * assert (Eo : off (nth rs0 ris 0%nat) = offS b off ris rs0).
          { unfold offS. replace (Nat.ltb rs0 nr) with true by (symmetry; apply Nat.ltb_lt; exact Hrs0). reflexivity. }
          rewrite Eo. apply (slice_at_with_start bi' 0 len 0 nr a0 rs0).
          destruct Hs as (H1 & H2 & H3 & H4 & H5 & H6 & H7).
          pose proof slice_at_unsliced as (_ & _ & _ & _ & U5 & U6 & U7).
          unfold slice_at. rewrite H3, H4, H5, H6, H7, (lay_rlen _ _ _ _ lay).
          repeat split; try assumption; try reflexivity; try (cbn in U5; exact U5);
            try (rewrite (lay_off0 _ _ _ _ lay); reflexivity); try (rewrite (lay_end _ _ _ _ lay); reflexivity).
        * apply cseek_elim_at in Ea as (kv & Hn & Hge & Hlt).
          rewrite (nth_kv kvs a0 Ha0) in Hn. injection Hn as <-. cbn [fst] in Hge.
          split; [lia|]. split; [|intros _; exact Hge].
          intros j Hj. apply (Hlt j (key_at kvs j, val_at kvs j) Hj). apply nth_kv. lia.
      + rewrite Ee in R, Eok. subst ok. destruct R as [Hs Hd].
        exists len, nr. eexists. split; [reflexivity|].
        assert (Hvo : view_ok kvs ris len len nr nr).
        { constructor; [lia | lia | lia | lia | right; split; reflexivity | intros; lia | intros; lia]. }
        split; [exact Hvo|]. split.
        * assert (Eo : b_roff b = offS b off ris nr).
          { unfold offS. rewrite Nat.ltb_irrefl. reflexivity. }
          rewrite Eo at 1. rewrite <- (lay_end _ _ _ _ lay) at 1.
          replace (b_rlen b) with (N.of_nat nr) by (rewrite (lay_rlen _ _ _ _ lay); reflexivity).
          apply (slice_at_with_start bi' 0 len 0 nr len nr).
          destruct Hs as (H1 & H2 & H3 & H4 & H5 & H6 & H7).
          pose proof slice_at_unsliced as (_ & _ & _ & _ & U5 & U6 & U7).
          unfold slice_at. rewrite H3, H4, H5, H6, H7, (lay_rlen _ _ _ _ lay).
          repeat split; try assumption; try reflexivity; try (cbn in U5; exact U5);
            try (rewrite (lay_off0 _ _ _ _ lay); reflexivity); try (rewrite (lay_end _ _ _ _ lay); reflexivity).
        * split; [lia|]. split; [|intros; lia].
          intros j Hj. apply (cseek_elim_eoi c s kvs Ee j (key_at kvs j, val_at kvs j)). apply nth_kv. exact Hj.
    - exists 0%nat, 0%nat, (bi_unsliced b). split; [reflexivity|].
      split; [exact full_view_ok|]. split; [exact slice_at_unsliced | reflexivity].
  Qed.

  (* the limit bound, on an iterator already restricted at the start *)
  Lemma limit_phase (limit : option bytes) (incl : bool) a rs bi1 :
    view_ok kvs ris a len rs nr -> slice_at b off ris a len rs nr bi1 ->
    exists zl rl bi2,
      match limit with
      | None => bi1
      | Some l =>
          let '(ok, bi') := bi_seek c bi1 l in
          if ok then
            (if incl then
               let '(ok2, bi'') := bi_next bi' in
               if ok2 then bi_with_limit bi'' (bi_ri bi'' + 1) (bi_prevOffset bi'') else bi''
             else bi_with_limit bi' (bi_ri bi' + 1) (bi_prevOffset bi'))
          else bi'
      end = bi2 /\
      view_ok kvs ris a zl rs rl /\ slice_at b off ris a zl rs rl bi2 /\ limit_spec limit incl a zl.
  Proof.
    intros vok1 Hs1. destruct limit as [l|].
    - destruct (seek_from_slice c c_ok kvs b off ris lay srt kvs_ne a len rs nr vok1 bi1 l Hs1) as (ok & bi' & E & R & Eok).
      rewrite E.
      pose proof (vo_a _ _ _ _ _ _ vok1) as Ha.
      assert (Hvn : forall j', (a + j' < len)%nat -> nth_error (view kvs a len) j' = Some (key_at kvs (a + j'), val_at kvs (a + j')))
        by (intros j' Hj'; apply (view_kv kvs ris kvs_ne a len rs nr vok1); exact Hj').
      destruct (cseek_cases c l (view kvs a len)) as [(z' & Ez)|Ee].
      + rewrite Ez in R, Eok. subst ok.
        pose proof R as (Hz & Hs & Hd & Hk & Hv & Ho & Hp & (r & Hr0 & Hr1 & Hr2 & Hr3)).
        set (z := (a + z')%nat) in *.
        (* what the landing position means *)
        apply cseek_elim_at in Ez as (kv & Hn & Hge & Hlt).
        rewrite (Hvn z' Hz) in Hn. injection Hn as <-. cbn [fst] in Hge. fold z in Hge.
        assert (Hbelow : forall j, (a <= j)%nat -> (j < z)%nat -> cmp c (key_at kvs j) l = Lt).
        { intros j H1 H2. replace j with (a + (j - a))%nat by lia.
          apply (Hlt (j - a)%nat (key_at kvs (a + (j - a)), val_at kvs (a + (j - a)))); [unfold z in H2; lia|].
          apply Hvn. unfold z in H2. lia. }
        destruct incl.
        * (* inclusive: one step further *)
          destruct (next_step_s kvs b off ris lay kvs_ne a len rs nr vok1 bi' (CAt z') R) as (ok2 & bi'' & E2 & R2 & Eok2).
          rewrite E2. cbn [c_next] in R2, Eok2.
          rewrite (view_len kvs ris kvs_ne a len rs nr vok1) in R2, Eok2.
          destruct (Nat.ltb_spec (S z') (len - a)) as [L|L]; subst ok2.
          -- destruct R2 as (Hz2 & Hs2 & Hd2 & Hk2 & Hv2 & Ho2 & Hp2 & (r2 & Hq0 & Hq1 & Hq2 & Hq3)).
             exists (S z), (S r2). eexists. split; [reflexivity|].
             assert (Hvo : view_ok kvs ris a (S z) rs (S r2)).
             { constructor; [unfold z; lia | unfold z; lia | lia | lia | exact (vo_start _ _ _ _ _ _ vok1) | | intros; lia].
               intros _. replace (S r2 - 1)%nat with r2 by lia. unfold z. lia. }
             split; [exact Hvo|]. split.
             ++ rewrite Hq2, Hp2. replace (N.of_nat r2 + 1) with (N.of_nat (S r2)) by lia.
                replace (a + S z')%nat with (S z) by (unfold z; lia).
                apply (slice_at_with_limit bi'' a len rs nr). exact Hs2.
             ++ exists z. split; [unfold z; lia|]. split; [lia|]. split; [exact Hbelow|]. split; [intros _; exact Hge|].
                unfold z. lia.
          -- destruct R2 as [Hs2 Hd2].
             exists len, nr, bi''. split; [reflexivity|]. split; [exact vok1|]. split; [exact Hs2|].
             exists z. split; [unfold z; lia|]. split; [lia|]. split; [exact Hbelow|]. split; [intros _; exact Hge|].
             unfold z. lia.
        * exists z, (S r). eexists. split; [reflexivity|].
          assert (Hvo : view_ok kvs ris a z rs (S r)).
          { constructor; [unfold z; lia | lia | lia | lia | exact (vo_start _ _ _ _ _ _ vok1) | | intros; lia].
            intros _. replace (S r - 1)%nat with r by lia. exact Hr3. }
          split; [exact Hvo|]. split.
          -- rewrite Hr2, Hp. replace (N.of_nat r + 1) with (N.of_nat (S r)) by lia.
             apply (slice_at_with_limit bi' a len rs nr). exact Hs.
          -- exists z. split; [unfold z; lia|]. split; [lia|]. split; [exact Hbelow|]. split; [intros _; exact Hge | reflexivity].
      + rewrite Ee in R, Eok. subst ok. destruct R as [Hs Hd].
        exists len, nr, bi'. split; [reflexivity|]. split; [exact vok1|]. split; [exact Hs|].
        exists len. split; [pose proof (vo_z _ _ _ _ _ _ vok1); lia|]. split; [lia|]. split.
        * intros j H1 H2. replace j with (a + (j - a))%nat by lia.
          apply (cseek_elim_eoi c l (view kvs a len) Ee (j - a)%nat (key_at kvs (a + (j - a)), val_at kvs (a + (j - a)))).
          apply Hvn. lia.
        * split; [intros; lia|]. destruct incl; lia.
    - exists len, nr, bi1. split; [reflexivity|]. split; [exact vok1|]. split; [exact Hs1 | reflexivity].
  Qed.

  (* newBlockIter with a slice *)
  Theorem new_block_iter_sliced (start limit : option bytes) (incl : bool) :
    exists a zl rs rl,
      view_ok kvs ris a zl rs rl /\
      rep_s kvs b off ris a zl rs rl (new_block_iter c b (Some (start, limit)) incl) CSOI /\
      start_spec start a /\ limit_spec limit incl a zl.
  Proof.
    destruct (start_phase start) as (a & rs & bi1 & E1 & vok1 & Hs1 & Hst).
    destruct (limit_phase limit incl a rs bi1 vok1 Hs1) as (zl & rl & bi2 & E2 & vok2 & Hs2 & Hli).
    exists a, zl, rs, rl. split; [exact vok2|]. split; [|split; assumption].
    unfold new_block_iter. cbv zeta. rewrite E1, E2.
    pose proof Hs2 as (_ & _ & _ & _ & E3 & _ & E5).
    assert (Hle : bi_offLimit (bi_reset bi2) <? bi_offStart (bi_reset bi2) = false).
    { cbn [bi_reset bi_with_pos bi_offLimit bi_offStart]. rewrite E3, E5.
      pose proof (offS_le kvs b off ris lay kvs_ne a zl rs rl vok2).
      pose proof (off_mono_le kvs b off ris lay a zl (vo_a _ _ _ _ _ _ vok2) (vo_z _ _ _ _ _ _ vok2)). lia. }
    rewrite Hle. split; [apply slice_at_reset; exact Hs2 | reflexivity].
  Qed.
End NewIter.

(* ------------------------------------------------------------ the slice is the range-restricted list *)
Lemma filter_segments {A} (p : A -> bool) (l1 l2 l3 : list A) :
  (forall x, In x l1 -> p x = false) -> (forall x, In x l2 -> p x = true) -> (forall x, In x l3 -> p x = false) ->
  filter p (l1 ++ l2 ++ l3) = l2.
Proof.
  intros H1 H2 H3. rewrite !filter_app.
  assert (E1 : filter p l1 = []).
  { clear H2 H3. induction l1 as [|x l IH]; [reflexivity|]. cbn [filter]. rewrite (H1 x (or_introl eq_refl)).
    apply IH. intros y Hy. apply H1. right. exact Hy. }
  assert (E3 : filter p l3 = []).
  { clear H1 H2. induction l3 as [|x l IH]; [reflexivity|]. cbn [filter]. rewrite (H3 x (or_introl eq_refl)).
    apply IH. intros y Hy. apply H3. right. exact Hy. }
  assert (E2 : filter p l2 = l2).
  { clear H1 H3. induction l2 as [|x l IH]; [reflexivity|]. cbn [filter]. rewrite (H2 x (or_introl eq_refl)).
    f_equal. apply IH. intros y Hy. apply H2. right. exact Hy. }
  rewrite E1, E2, E3, app_nil_r. reflexivity.
Qed.

Section ViewRestrict.
  Variable c : comparer.
  Hypothesis c_ok : comparer_ok c.
  Variable kvs : list (bytes * bytes).
  Hypothesis srt : sorted c kvs.
  Local Notation len := (length kvs).

  Lemma kvs_segments a zl : (a <= zl)%nat -> (zl <= len)%nat ->
    kvs = firstn a kvs ++ view kvs a zl ++ skipn zl kvs.
  Proof.
    intros H1 H2. unfold view.
    rewrite <- (firstn_skipn a kvs) at 1. f_equal.
    rewrite <- (firstn_skipn (zl - a) (skipn a kvs)) at 1. f_equal.
    rewrite skipn_skipn'. f_equal. lia.
  Qed.

  Lemma in_firstn_idx (x : bytes * bytes) a : In x (firstn a kvs) -> exists j, (j < a)%nat /\ (j < len)%nat /\ nth_error kvs j = Some x.
  Proof.
    intros H. apply In_nth_error in H as (j & Hj).
    assert (L : (j < length (firstn a kvs))%nat) by (apply nth_error_Some; rewrite Hj; discriminate).
    rewrite firstn_length in L. exists j. split; [lia|]. split; [lia|].
    rewrite nth_error_firstn_lt' in Hj by lia. exact Hj.
  Qed.

  Lemma in_skipn_idx (x : bytes * bytes) z : In x (skipn z kvs) -> exists j, (z <= j)%nat /\ (j < len)%nat /\ nth_error kvs j = Some x.
  Proof.
    intros H. apply In_nth_error in H as (j & Hj). rewrite nth_error_skipn in Hj.
    exists (z + j)%nat. split; [lia|]. split; [apply nth_error_Some; rewrite Hj; discriminate | exact Hj].
  Qed.

  Lemma in_view_idx (x : bytes * bytes) a zl : (a <= zl)%nat -> (zl <= len)%nat -> In x (view kvs a zl) ->
    exists j, (a <= j)%nat /\ (j < zl)%nat /\ nth_error kvs j = Some x.
  Proof.
    intros H1 H2 H. apply In_nth_error in H as (j & Hj).
    assert (L : (j < length (view kvs a zl))%nat) by (apply nth_error_Some; rewrite Hj; discriminate).
    unfold view in L. rewrite firstn_length, skipn_length in L.
    rewrite view_nth in Hj by lia. exists (a + j)%nat. split; [lia|]. split; [lia | exact Hj].
  Qed.

  Lemma key_mono i j : (i <= j)%nat -> (j < len)%nat -> cmp c (key_at kvs i) (key_at kvs j) <> Gt.
  Proof.
    intros Hij Hj. destruct (Nat.eq_dec i j) as [->|]; [apply (OrderProofs.le_refl c c_ok)|].
    apply (OrderProofs.lt_le c). apply (keys_lt c c_ok kvs srt); lia.
  Qed.

  Theorem view_is_restrict start limit a zl :
    start_spec c kvs start a -> limit_spec c kvs limit false a zl ->
    (a <= zl)%nat -> (zl <= len)%nat ->
    view kvs a zl = restrict c start limit kvs.
  Proof.
    intros Hst Hli Haz Hz. unfold restrict.
    rewrite (kvs_segments a zl Haz Hz) at 2. symmetry. apply filter_segments.
    - (* before the start *)
      intros x Hin. apply in_firstn_idx in Hin as (j & Hj & Hjl & Hn).
      rewrite (nth_kv kvs j Hjl) in Hn. injection Hn as <-. unfold in_range. cbn [fst].
      destruct start as [s|]; [|cbn in Hst; lia].
      destruct Hst as (_ & Hlt & _). unfold Order.leb.
      pose proof (Hlt j Hj) as L. apply (cmp_lt_gt c c_ok) in L. rewrite L. reflexivity.
    - (* inside *)
      intros x Hin. apply (in_view_idx x a zl Haz Hz) in Hin as (j & Hj1 & Hj2 & Hn).
      rewrite (nth_kv kvs j ltac:(lia)) in Hn. injection Hn as <-. unfold in_range. cbn [fst].
      apply andb_true_intro. split.
      + destruct start as [s|]; [|reflexivity]. destruct Hst as (_ & _ & Hge). unfold Order.leb.
        specialize (Hge ltac:(lia)).
        pose proof (key_mono a j Hj1 ltac:(lia)) as M.
        assert (Hle : cmp c s (key_at kvs j) <> Gt).
        { apply (OrderProofs.le_trans c c_ok _ (key_at kvs a)); [|exact M]. apply (OrderProofs.not_lt_le c c_ok). exact Hge. }
        destruct (cmp c s (key_at kvs j)); congruence.
      + destruct limit as [l|]; [|reflexivity]. destruct Hli as (z & _ & _ & Hlt & _ & Ez). subst zl.
        unfold Order.ltb. rewrite (Hlt j Hj1 Hj2). reflexivity.
    - (* after the limit *)
      intros x Hin. apply in_skipn_idx in Hin as (j & Hj1 & Hjl & Hn).
      rewrite (nth_kv kvs j Hjl) in Hn. injection Hn as <-. unfold in_range. cbn [fst].
      destruct limit as [l|]; [|cbn in Hli; lia].
      destruct Hli as (z & _ & _ & _ & Hge & Ez). subst zl. specialize (Hge ltac:(lia)).
      pose proof (key_mono z j Hj1 Hjl) as M.
      assert (Hle : cmp c l (key_at kvs j) <> Gt).
      { apply (OrderProofs.le_trans c c_ok _ (key_at kvs z)); [|exact M]. apply (OrderProofs.not_lt_le c c_ok). exact Hge. }
      unfold Order.ltb. apply andb_false_intro2.
      rewrite (cmp_opp c c_ok l (key_at kvs j)). destruct (cmp c l (key_at kvs j)); cbn; congruence.
  Qed.
End ViewRestrict.

(* ------------------------------------------------------------ the sliced block iterator, packaged *)
Theorem block_iter_sliced_refines c ri kvs start limit :
  comparer_ok c -> 1 <= ri -> lenN (block_build ri kvs) < 2 ^ 32 -> sorted c kvs -> kvs <> [] ->
  exists b, read_block (block_build ri kvs) = Ok b /\
    forall ops, bi_run c (new_block_iter c b (Some (start, limit)) false) ops
                = c_run c (restrict c start limit kvs) CSOI ops.
Proof.
  intros Hc Hri Hsz Hs Hne. exists (built ri kvs). split; [apply read_block_build; assumption|].
  pose proof (build_layout ri kvs Hri Hsz) as lay.
  assert (Hpos : (0 < length kvs)%nat) by (destruct kvs; [congruence | cbn; lia]).
  destruct (new_block_iter_sliced c Hc kvs _ _ _ lay Hs Hpos start limit false) as (a & zl & rs & rl & vok & R & Hst & Hli).
  intros ops.
  rewrite (run_refines_s c Hc kvs _ _ _ lay Hs Hpos a zl rs rl vok ops _ CSOI R).
  rewrite (view_is_restrict c Hc kvs Hs start limit a zl Hst Hli (vo_a _ _ _ _ _ _ vok) (vo_z _ _ _ _ _ _ vok)).
  reflexivity.
Qed.
