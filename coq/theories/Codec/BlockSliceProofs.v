(* Codec/BlockSliceProofs.v — the SLICED block iterator (newBlockIter with a util.Range).
   Part 1: for any slice parameters satisfying [view_ok] (riStart/riLimit/offsetStart/
   offsetRealStart/offsetLimit describe the entries [a, zl) of the block, the restart range
   [rs, rl) reaches all of them by linear scan) every First/Last/Seek/Next/Prev sequence refines
   the reference cursor over exactly those entries.
   Part 2: newBlockIter(b, slice, inclLimit) computes such parameters, and the entries are those
   with start <= key (< limit, or up to and including the first key >= limit when inclLimit).
   Non-empty blocks only: on an EMPTY block a slice with a Start bound makes block.seek read the
   restart-count word as an entry offset and the iterator reports a spurious corruption error
   (no pair is returned); the model reproduces that, the theorem excludes it. *)
From GL Require Import Base.Bytes Base.BytesProofs Base.Varint Base.VarintProofs Base.Order Base.OrderProofs
  Base.Cursor Base.CursorProofs Codec.Block Codec.BlockEnc Codec.BlockProofs.
From Coq Require Import Arith ZArith Lia ZifyN ZifyNat ZifyBool.

Local Open Scope N_scope.

Lemma nth_error_firstn_lt' {A} (l : list A) : forall i i', (i' < i)%nat -> nth_error (firstn i l) i' = nth_error l i'.
Proof.
  induction l as [|x l IH]; intros i i' H; [rewrite firstn_nil; destruct i'; reflexivity|].
  destruct i as [|i]; [lia|]. destruct i' as [|i']; [reflexivity|]. cbn [firstn nth_error]. apply IH. lia.
Qed.

Lemma nth_error_skipn {A} (l : list A) : forall n i, nth_error (skipn n l) i = nth_error l (n + i).
Proof.
  induction l as [|x l IH]; intros n i.
  - rewrite skipn_nil. destruct i, n; reflexivity.
  - destruct n as [|n]; [reflexivity|]. cbn [skipn plus nth_error]. apply IH.
Qed.

Section Sliced.
  Variable c : comparer.
  Hypothesis c_ok : comparer_ok c.
  Variable kvs : list (bytes * bytes).
  Variable b : block.
  Variable off : nat -> N.
  Variable ris : list nat.
  Hypothesis lay : block_layout kvs b off ris.
  Hypothesis srt : sorted c kvs.
  Hypothesis kvs_ne : (0 < length kvs)%nat.

  Local Notation len := (length kvs).
  Local Notation nr := (length ris).

  (* the slice: entries [a, zl), restarts [rs, rl) *)
  Variables a zl rs rl : nat.

  Record view_ok : Prop := {
    vo_a : (a <= zl)%nat;
    vo_z : (zl <= len)%nat;
    vo_rs : (rs <= rl)%nat;
    vo_rl : (rl <= nr)%nat;
    vo_start : ((rs < nr)%nat /\ (nth rs ris 0 <= a)%nat) \/ (rs = nr /\ a = len);
    vo_limit : (rs < rl)%nat -> (nth (rl - 1) ris 0 <= zl)%nat;
    vo_nonempty : (a < zl)%nat -> (rs < rl)%nat
  }.
  Hypothesis vok : view_ok.

  Definition offS : N := if Nat.ltb rs nr then off (nth rs ris 0%nat) else b_roff b.

  Definition view : list (bytes * bytes) := firstn (zl - a) (skipn a kvs).

  Local Notation omono := (off_mono kvs b off ris lay).
  Local Notation omono_le := (off_mono_le kvs b off ris lay).
  Local Notation oinj := (off_inj kvs b off ris lay).
  Local Notation ole_inv := (off_le_inv kvs b off ris lay).

  Lemma off_len : off len = b_roff b.
  Proof. apply (lay_end _ _ _ _ lay). Qed.

  Lemma view_len : length view = (zl - a)%nat.
  Proof.
    unfold view. rewrite firstn_length, skipn_length. pose proof (vo_a vok). pose proof (vo_z vok). lia.
  Qed.

  Lemma view_nth i' : (i' < zl - a)%nat -> nth_error view i' = nth_error kvs (a + i').
  Proof.
    intros H. unfold view. rewrite nth_error_firstn_lt' by exact H. apply nth_error_skipn.
  Qed.

  Lemma offS_le : offS <= off a.
  Proof.
    unfold offS. destruct (vo_start vok) as [[H1 H2]|[H1 H2]].
    - replace (Nat.ltb rs nr) with true by (symmetry; apply Nat.ltb_lt; exact H1).
      apply omono_le; [exact H2 | pose proof (vo_a vok); pose proof (vo_z vok); lia].
    - replace (Nat.ltb rs nr) with false by (symmetry; apply Nat.ltb_ge; lia).
      rewrite H2, off_len. lia.
  Qed.

  Definition slice_at (it : biter) : Prop :=
    bi_blk it = b /\ bi_err it = None /\ bi_riStart it = N.of_nat rs /\ bi_riLimit it = N.of_nat rl /\
    bi_offStart it = offS /\ bi_offRealStart it = off a /\ bi_offLimit it = off zl.

  (* the restart index the iterator carries is inside the restart range and not after entry i *)
  Definition ri_in (it : biter) (i : nat) : Prop :=
    exists r, (r < rl)%nat /\ bi_ri it = N.of_nat r /\ (nth r ris 0 <= i)%nat.

  Definition dmoving (it : biter) : Prop := bi_dir it = DForward \/ bi_dir it = DBackward.

  (* positioned so that the next read decodes entry j *)
  Definition pre_s (it : biter) (j : nat) : Prop :=
    slice_at it /\ bi_offset it = off j /\ (j <= zl)%nat /\
    ((a < zl)%nat -> (j < zl)%nat -> ri_in it j) /\
    ((j < len)%nat -> In j ris \/ ((0 < j)%nat /\ bi_key it = key_at kvs (j - 1))).

  Definition rep_s (it : biter) (p : cpos) : Prop :=
    match p with
    | CSOI => slice_at it /\ bi_dir it = DSOI
    | CEOI => slice_at it /\ bi_dir it = DEOI
    | CAt i' => (a + i' < zl)%nat /\ slice_at it /\ dmoving it /\
                bi_key it = key_at kvs (a + i') /\ bi_value it = val_at kvs (a + i') /\
                bi_offset it = off (S (a + i')) /\ bi_prevOffset it = off (a + i') /\ ri_in it (a + i')
    end.

  Lemma has_err_s it : slice_at it -> bi_has_err it = false.
  Proof. intros (_ & E & _). unfold bi_has_err. rewrite E. reflexivity. Qed.

  Lemma rep_s_slice it p : rep_s it p -> slice_at it.
  Proof. destruct p; intros R; apply R. Qed.

  Lemma rep_s_pre it i' : rep_s it (CAt i') -> pre_s it (S (a + i')) /\ dmoving it.
  Proof.
    intros (Hi & Hs & Hd & Hk & Hv & Ho & Hp & (r & Hr1 & Hr2 & Hr3)).
    split; [|exact Hd]. split; [exact Hs|]. split; [exact Ho|]. split; [lia|]. split.
    - intros _ _. exists r. split; [exact Hr1|]. split; [exact Hr2|]. lia.
    - intros _. right. split; [lia|]. replace (S (a + i') - 1)%nat with (a + i')%nat by lia. exact Hk.
  Qed.

  (* ---------------- Next ---------------- *)
  Lemma skip_done fuel it : bi_offRealStart it <= bi_offset it -> bi_skip fuel it = inl it.
  Proof.
    intros H. destruct fuel; cbn [bi_skip]; replace (bi_offset it <? bi_offRealStart it) with false by lia; reflexivity.
  Qed.

  (* the skip loop of Next: from a position before the slice start up to the slice start *)
  Lemma skip_spec : forall fuel it j,
    slice_at it -> bi_offset it = off j -> (j <= a)%nat -> (a - j < fuel)%nat ->
    (In j ris \/ ((0 < j)%nat /\ bi_key it = key_at kvs (j - 1))) ->
    exists it', bi_skip fuel it = inl it' /\ slice_at it' /\ bi_offset it' = off a /\
      bi_dir it' = bi_dir it /\ bi_ri it' = bi_ri it /\ bi_prevOffset it' = bi_prevOffset it /\
      ((a < len)%nat -> In a ris \/ ((0 < a)%nat /\ bi_key it' = key_at kvs (a - 1))) /\
      (j = a -> it' = it).
  Proof.
    induction fuel as [|fu IH]; intros it j Hs Ho Hj Hf Hk; [lia|].
    pose proof Hs as (Eb & Ee & E1 & E2 & E3 & E4 & E5).
    pose proof (vo_a vok) as Ha. pose proof (vo_z vok) as Hz.
    destruct (Nat.eq_dec j a) as [->|Hne].
    - exists it. rewrite skip_done by (rewrite E4, Ho; lia).
      repeat split; try assumption; try reflexivity. intros _. exact Hk.
    - cbn [bi_skip]. rewrite E4, Ho.
      pose proof (omono j a ltac:(lia) ltac:(lia)) as Hm.
      replace (off j <? off a) with true by lia.
      rewrite Eb, (lay_read _ _ _ _ lay j (bi_key it) ltac:(lia) Hk).
      pose proof (lay_step _ _ _ _ lay j ltac:(lia)) as Hst.
      set (it1 := bi_with_pos it (key_at kvs j) (val_at kvs j) (off j + (off (S j) - off j)) (bi_prevOffset it) (bi_ri it) (bi_dir it)).
      destruct (IH it1 (S j)) as (it' & E & Hs' & Ho' & Hd' & Hr' & Hp' & Hk' & _).
      + exact Hs.
      + unfold it1. cbn [bi_with_pos bi_offset]. lia.
      + lia.
      + lia.
      + right. split; [lia|]. replace (S j - 1)%nat with j by lia. reflexivity.
      + exists it'. split; [exact E|]. split; [exact Hs'|]. split; [exact Ho'|].
        split; [exact Hd'|]. split; [exact Hr'|]. split; [exact Hp'|]. split; [exact Hk'|]. intros; lia.
  Qed.

  Lemma next_body_ge it j : pre_s it j -> (a <= j)%nat ->
    exists ok it', next_body it = (ok, it') /\
      rep_s it' (if Nat.ltb j zl then CAt (j - a) else CEOI) /\ ok = Nat.ltb j zl.
  Proof.
    intros (Hs & Ho & Hj & Hri & Hk) Haj.
    pose proof Hs as (Eb & Ee & E1 & E2 & E3 & E4 & E5).
    pose proof (vo_z vok) as Hz.
    unfold next_body. rewrite skip_done by (rewrite E4, Ho; apply omono_le; lia).
    rewrite E5, Ho.
    destruct (Nat.ltb_spec j zl) as [L|L].
    - pose proof (omono j zl L Hz) as Hm. replace (off zl <=? off j) with false by lia.
      rewrite Eb, (lay_read _ _ _ _ lay j (bi_key it) ltac:(lia) (Hk ltac:(lia))).
      pose proof (lay_step _ _ _ _ lay j ltac:(lia)) as Hst.
      eexists. eexists. split; [reflexivity|]. split; [|reflexivity].
      assert (Ej : (a + (j - a))%nat = j) by lia. unfold rep_s. rewrite !Ej.
      split; [exact L|]. split; [exact Hs|]. split; [left; reflexivity|].
      cbn [bi_with_pos bi_key bi_value bi_offset bi_prevOffset bi_ri].
      split; [reflexivity|]. split; [reflexivity|]. split; [lia|]. split; [reflexivity|]. exact (Hri ltac:(lia) L).
    - assert (j = zl) by lia. subst j. rewrite N.leb_refl, N.eqb_refl.
      eexists. eexists. split; [reflexivity|]. split; [|reflexivity]. split; [exact Hs | reflexivity].
  Qed.

  (* reading from a position at or before the slice start behaves as from the slice start *)
  Lemma next_body_le it j : pre_s it j -> (j <= a)%nat ->
    exists ok it', next_body it = (ok, it') /\
      rep_s it' (if Nat.ltb a zl then CAt 0 else CEOI) /\ ok = Nat.ltb a zl.
  Proof.
    intros (Hs & Ho & Hj & Hri & Hk) Hja.
    pose proof (vo_a vok) as Ha. pose proof (vo_z vok) as Hz.
    destruct (Nat.eq_dec j a) as [->|Hne].
    - destruct (next_body_ge it a) as (ok & it' & E & R & Eok); [split; [exact Hs|]; split; [exact Ho|]; split; [exact Hj|]; split; [exact Hri | exact Hk] | lia|].
      rewrite Nat.sub_diag in R. eauto.
    - assert (Hk' : In j ris \/ (0 < j)%nat /\ bi_key it = key_at kvs (j - 1)) by (apply Hk; lia).
      destruct (skip_spec (bi_fuel it) it j Hs Ho Hja) as (it1 & E1 & Hs1 & Ho1 & Hd1 & Hr1 & Hp1 & Hk1 & _).
      { unfold bi_fuel. pose proof Hs as (Eb & _). rewrite Eb. pose proof (len_le_data kvs b off ris lay). lia. }
      { exact Hk'. }
      assert (P1 : pre_s it1 a).
      { split; [exact Hs1|]. split; [exact Ho1|]. split; [exact Ha|]. split; [|exact Hk1].
        intros L _. destruct (Hri L ltac:(lia)) as (r & H1 & H2 & H3). exists r. rewrite Hr1. split; [exact H1|]. split; [exact H2|]. lia. }
      destruct (next_body_ge it1 a P1 ltac:(lia)) as (ok & it' & E & R & Eok).
      rewrite Nat.sub_diag in R. exists ok, it'. split; [|auto].
      (* next_body it runs the same skip and continues from it1 *)
      unfold next_body in *. rewrite E1.
      assert (Ef : bi_fuel it1 = bi_fuel it).
      { unfold bi_fuel. pose proof Hs as (Eb & _). pose proof Hs1 as (Eb1 & _). rewrite Eb, Eb1. reflexivity. }
      rewrite Ef in E. rewrite skip_done in E; [exact E|].
      pose proof Hs1 as (_ & _ & _ & _ & _ & E4 & _). rewrite E4, Ho1. lia.
  Qed.

  Lemma next_moving_s it j : pre_s it j -> dmoving it -> (a <= j)%nat ->
    exists ok it', bi_next it = (ok, it') /\
      rep_s it' (if Nat.ltb j zl then CAt (j - a) else CEOI) /\ ok = Nat.ltb j zl.
  Proof.
    intros P Hd Haj. rewrite bi_next_unfold. rewrite (has_err_s it) by apply P.
    replace (bdir_eqb (bi_dir it) DEOI) with false by (destruct Hd as [-> | ->]; reflexivity).
    replace (bdir_eqb (bi_dir it) DSOI) with false by (destruct Hd as [-> | ->]; reflexivity).
    cbn [orb]. apply next_body_ge; assumption.
  Qed.

  Lemma c_first_view : c_first view = if Nat.ltb a zl then CAt 0 else CEOI.
  Proof.
    unfold c_first. pose proof view_len as Hl. destruct (Nat.ltb_spec a zl) as [L|L].
    - destruct view; [cbn in Hl; lia | reflexivity].
    - destruct view; [reflexivity | cbn in Hl; lia].
  Qed.

  Lemma next_step_s it p : rep_s it p ->
    exists ok it', bi_next it = (ok, it') /\ rep_s it' (c_next view p) /\
                   ok = match c_next view p with CAt _ => true | _ => false end.
  Proof.
    intros R. pose proof (vo_a vok) as Ha. pose proof (vo_z vok) as Hz.
    destruct p as [|i'|].
    - (* from SOI *)
      destruct R as [Hs Hd]. rewrite bi_next_unfold, (has_err_s it Hs), Hd. cbn [bdir_eqb orb].
      pose proof Hs as (Eb & Ee & E1 & E2 & E3 & E4 & E5).
      set (it1 := bi_with_pos it (bi_key it) (bi_value it) (bi_offStart it) (bi_prevOffset it) (bi_riStart it) DSOI).
      cbn [c_next]. rewrite c_first_view.
      destruct (vo_start vok) as [[H1 H2]|[H1 H2]].
      + assert (P : pre_s it1 (nth rs ris 0%nat)).
        { split; [exact Hs|]. split.
          - unfold it1. cbn [bi_with_pos bi_offset]. rewrite E3. unfold offS.
            replace (Nat.ltb rs nr) with true by (symmetry; apply Nat.ltb_lt; exact H1). reflexivity.
          - split; [lia|]. split.
            + intros L _. exists rs. split; [apply (vo_nonempty vok); lia|]. split; [exact E1 | lia].
            + intros _. left. apply nth_In. exact H1. }
        destruct (next_body_le it1 _ P H2) as (ok & it' & E & R' & Eok).
        exists ok, it'. split; [exact E|]. destruct (Nat.ltb a zl); auto.
      + (* the slice starts at the end of the block *)
        assert (Ez : zl = len) by lia.
        assert (P : pre_s it1 len).
        { split; [exact Hs|]. split.
          - unfold it1. cbn [bi_with_pos bi_offset]. rewrite E3. unfold offS.
            replace (Nat.ltb rs nr) with false by (symmetry; apply Nat.ltb_ge; lia). rewrite off_len. reflexivity.
          - split; [lia|]. split; [intros; lia | intros; lia]. }
        destruct (next_body_ge it1 len P ltac:(lia)) as (ok & it' & E & R' & Eok).
        exists ok, it'. split; [exact E|].
        replace (Nat.ltb len zl) with false in * by (symmetry; apply Nat.ltb_ge; lia).
        replace (Nat.ltb a zl) with false by (symmetry; apply Nat.ltb_ge; lia). auto.
    - (* from an entry *)
      destruct (rep_s_pre it i' R) as [P Hd].
      destruct (next_moving_s it (S (a + i')) P Hd ltac:(lia)) as (ok & it' & E & R' & Eok).
      exists ok, it'. split; [exact E|]. cbn [c_next]. rewrite view_len.
      replace (S (a + i') - a)%nat with (S i') in R' by lia.
      destruct (Nat.ltb_spec (S (a + i')) zl) as [L|L].
      + replace (Nat.ltb (S i') (zl - a)) with true by (symmetry; apply Nat.ltb_lt; lia). auto.
      + replace (Nat.ltb (S i') (zl - a)) with false by (symmetry; apply Nat.ltb_ge; lia). auto.
    - (* at EOI *)
      destruct R as [Hs Hd]. exists false, it. rewrite bi_next_unfold, Hd. cbn [bdir_eqb orb c_next].
      split; [reflexivity|]. split; [split; assumption | reflexivity].
  Qed.

  (* ---------------- Seek ---------------- *)
  Lemma view_kv i' : (a + i' < zl)%nat -> nth_error view i' = Some (key_at kvs (a + i'), val_at kvs (a + i')).
  Proof.
    intros H. rewrite view_nth by lia. apply nth_kv. pose proof (vo_z vok). lia.
  Qed.

  Lemma c_seek_view_at key i' : (a + i' < zl)%nat ->
    cmp c (key_at kvs (a + i')) key <> Lt ->
    (forall j', (a <= j')%nat -> (j' < a + i')%nat -> cmp c (key_at kvs j') key = Lt) ->
    c_seek c view key = CAt i'.
  Proof.
    intros Hi Hge Hlt. unfold c_seek.
    rewrite (first_ge_some_intro c view key 0 i' _ _ (view_kv i' Hi) Hge); [reflexivity|].
    intros j' k' v' Hj' Hn. rewrite view_kv in Hn by lia. injection Hn as <- _. apply Hlt; lia.
  Qed.

  Lemma c_seek_view_none key :
    (forall j', (a <= j')%nat -> (j' < zl)%nat -> cmp c (key_at kvs j') key = Lt) ->
    c_seek c view key = CEOI.
  Proof.
    intros Hlt. unfold c_seek. rewrite (first_ge_none_intro c view key 0); [reflexivity|].
    intros j' k' v' Hn.
    assert (Hj : (j' < zl - a)%nat) by (rewrite <- view_len; apply nth_error_Some; rewrite Hn; discriminate).
    rewrite view_kv in Hn by lia. injection Hn as <- _. apply Hlt; lia.
  Qed.

  Lemma seek_loop_s key : forall fuel it j,
    pre_s it j -> dmoving it -> (a <= j)%nat -> (zl - j < fuel)%nat ->
    (forall j', (a <= j')%nat -> (j' < j)%nat -> cmp c (key_at kvs j') key = Lt) ->
    exists ok it', bi_seek_loop fuel c key it = (ok, it') /\ rep_s it' (c_seek c view key) /\
                   ok = match c_seek c view key with CAt _ => true | _ => false end.
  Proof.
    induction fuel as [|fu IH]; intros it j P Hd Haj Hf Hlt; [lia|].
    cbn [bi_seek_loop].
    destruct (next_moving_s it j P Hd Haj) as (ok & it' & E & R' & Eok). rewrite E.
    destruct (Nat.ltb_spec j zl) as [L|L]; subst ok.
    - pose proof R' as (_ & _ & _ & Ek & _). rewrite Ek. replace (a + (j - a))%nat with j in * by lia.
      assert (Hdone : cmp c (key_at kvs j) key <> Lt -> c_seek c view key = CAt (j - a)).
      { intros Hge. apply c_seek_view_at; [lia | replace (a + (j - a))%nat with j by lia; exact Hge |].
        intros j' H1 H2. apply Hlt; lia. }
      destruct (cmp c (key_at kvs j) key) eqn:Ec.
      + exists true, it'. rewrite Hdone by congruence. auto.
      + destruct (rep_s_pre it' (j - a) R') as [P' Hd'].
        replace (S (a + (j - a))) with (S j) in P' by lia.
        apply (IH it' (S j) P' Hd'); [lia | lia |].
        intros j' H1 H2. destruct (Nat.eq_dec j' j) as [->|]; [exact Ec | apply Hlt; lia].
      + exists true, it'. rewrite Hdone by congruence. auto.
    - exists false, it'. rewrite c_seek_view_none; [auto|].
      intros j' H1 H2. apply Hlt; try assumption. destruct P as (_ & _ & Hj & _). lia.
  Qed.

  (* from a position at or before the slice start *)
  Lemma seek_loop_le key fuel it j :
    pre_s it j -> dmoving it -> (j <= a)%nat -> (S (zl - a) < fuel)%nat ->
    exists ok it', bi_seek_loop fuel c key it = (ok, it') /\ rep_s it' (c_seek c view key) /\
                   ok = match c_seek c view key with CAt _ => true | _ => false end.
  Proof.
    intros P Hd Hja Hf. destruct fuel as [|fu]; [lia|]. cbn [bi_seek_loop].
    rewrite bi_next_unfold. rewrite (has_err_s it) by apply P.
    replace (bdir_eqb (bi_dir it) DEOI) with false by (destruct Hd as [-> | ->]; reflexivity).
    replace (bdir_eqb (bi_dir it) DSOI) with false by (destruct Hd as [-> | ->]; reflexivity).
    cbn [orb].
    destruct (next_body_le it j P Hja) as (ok & it' & E & R' & Eok). rewrite E.
    destruct (Nat.ltb_spec a zl) as [L|L]; subst ok.
    - pose proof R' as (_ & _ & _ & Ek & _). rewrite Ek. rewrite Nat.add_0_r in *.
      assert (Hdone : cmp c (key_at kvs a) key <> Lt -> c_seek c view key = CAt 0).
      { intros Hge. apply c_seek_view_at; [lia | rewrite Nat.add_0_r; exact Hge | intros; lia]. }
      destruct (cmp c (key_at kvs a) key) eqn:Ec.
      + exists true, it'. rewrite Hdone by congruence. auto.
      + destruct (rep_s_pre it' 0 R') as [P' Hd']. rewrite Nat.add_0_r in P'.
        apply (seek_loop_s key fu it' (S a) P' Hd'); [lia | lia |].
        intros j' H1 H2. assert (j' = a) by lia. subst j'. exact Ec.
      + exists true, it'. rewrite Hdone by congruence. auto.
    - exists false, it'. rewrite c_seek_view_none; [auto|]. intros; lia.
  Qed.

  Definition rk_gt_s (key : bytes) (x : N) : bool :=
    match restart_key b x with Some k => is_gt (cmp c k key) | None => false end.

  (* where block.seek starts the scan *)
  Lemma block_seek_s key :
    exists r j0 o,
      block_seek c b (N.of_nat rs) (N.of_nat rl) key = Some (N.of_nat r, o) /\
      N.max offS o = off j0 /\ (j0 <= zl)%nat /\
      ((j0 < len)%nat -> In j0 ris) /\
      ((a < zl)%nat -> (r < rl)%nat /\ (nth r ris 0 <= j0)%nat) /\
      (forall j', (a <= j')%nat -> (j' < j0)%nat -> cmp c (key_at kvs j') key = Lt).
  Proof.
    pose proof (vo_a vok) as Ha. pose proof (vo_z vok) as Hz. pose proof (vo_rs vok) as Hrs. pose proof (vo_rl vok) as Hrl.
    unfold block_seek.
    destruct (sort_search_mono (N.of_nat rl - N.of_nat rs)
                (fun i => option_map (fun k => is_gt (cmp c k key)) (restart_key b (N.of_nat rs + i)))
                (fun i => rk_gt_s key (N.of_nat rs + i))) as (s & Es & Hs & Hlo & Hhi).
    - intros h Hh. unfold rk_gt_s.
      destruct (lay_rkey _ _ _ _ lay (rs + N.to_nat h)) as (k & E & _); [lia|].
      replace (N.of_nat (rs + N.to_nat h)) with (N.of_nat rs + h) in E by lia. rewrite E. reflexivity.
    - intros h1 h2 H12 H2 P1. unfold rk_gt_s in *.
      assert (Hr2 : (rs + N.to_nat h2 < nr)%nat) by lia.
      assert (Hr1 : (rs + N.to_nat h1 < nr)%nat) by lia.
      pose proof (restart_key_at kvs b off ris lay (rs + N.to_nat h1) kvs_ne Hr1) as E1.
      pose proof (restart_key_at kvs b off ris lay (rs + N.to_nat h2) kvs_ne Hr2) as E2.
      replace (N.of_nat (rs + N.to_nat h1)) with (N.of_nat rs + h1) in E1 by lia.
      replace (N.of_nat (rs + N.to_nat h2)) with (N.of_nat rs + h2) in E2 by lia.
      rewrite E1 in P1. rewrite E2.
      destruct (N.eq_dec h1 h2) as [->|Hne12]; [exact P1|].
      assert (L : cmp c (key_at kvs (nth (rs + N.to_nat h1) ris 0%nat)) (key_at kvs (nth (rs + N.to_nat h2) ris 0%nat)) = Lt).
      { apply (keys_lt c c_ok kvs srt); [apply (lay_ris_incr _ _ _ _ lay); lia | apply (ris_lt kvs b off ris lay); lia]. }
      destruct (cmp c (key_at kvs (nth (rs + N.to_nat h1) ris 0%nat)) key) eqn:G; try discriminate.
      apply (cmp_gt_lt c c_ok) in G.
      assert (cmp c key (key_at kvs (nth (rs + N.to_nat h2) ris 0%nat)) = Lt) by (eapply (cmp_trans c c_ok); eauto).
      apply (cmp_lt_gt c c_ok) in H. rewrite H. reflexivity.
    - rewrite Es.
      set (r := if s =? 0 then rs else (N.to_nat s + rs - 1)%nat).
      assert (Ei : (if s =? 0 then N.of_nat rs else s + N.of_nat rs - 1) = N.of_nat r).
      { unfold r. destruct (N.eqb_spec s 0); [reflexivity | lia]. }
      rewrite Ei.
      destruct (Nat.eq_dec rs nr) as [Enr|Nnr].
      + (* the slice starts past the last restart point: the restart count is read *)
        assert (s = 0) by lia. subst s. unfold r. cbn [N.eqb].
        destruct (vo_start vok) as [[H1 _]|[_ Hal]]; [lia|].
        rewrite Enr. fold (lenN ris). rewrite (lay_count _ _ _ _ lay). cbn [option_map].
        exists nr, len, (lenN ris). split; [reflexivity|].
        assert (Hcnt : lenN ris <= b_roff b).
        { pose proof (ris_lt kvs b off ris lay (nr - 1) kvs_ne ltac:(pose proof (lay_ris_len _ _ _ _ lay); lia)) as H1.
          pose proof (off_ge kvs b off ris lay len ltac:(lia)) as H2. rewrite off_len in H2.
          (* restart indexes are distinct entries: nr <= len *)
          assert (nr <= len)%nat.
          { pose proof (lay_ris_incr _ _ _ _ lay) as Hinc.
            assert (Hge : forall r0, (r0 < nr)%nat -> (r0 <= nth r0 ris 0)%nat).
            { induction r0 as [|r0 IHr]; intros Hr0; [lia|].
              specialize (IHr ltac:(lia)). pose proof (Hinc r0 (S r0) ltac:(lia) Hr0). lia. }
            specialize (Hge (nr - 1)%nat ltac:(pose proof (lay_ris_len _ _ _ _ lay); lia)). lia. }
          unfold lenN. lia. }
        split.
        { unfold offS. replace (Nat.ltb rs nr) with false by (symmetry; apply Nat.ltb_ge; lia).
          rewrite off_len. lia. }
        split; [lia|]. split; [intros; lia|]. split; [intros; lia|]. intros; lia.
      + assert (Hrn : (r < nr)%nat).
        { unfold r. destruct (N.eqb_spec s 0); lia. }
        rewrite (lay_roff _ _ _ _ lay r Hrn). cbn [option_map].
        exists r, (nth r ris 0%nat), (off (nth r ris 0%nat)). split; [reflexivity|].
        assert (Hrr : (rs <= r)%nat) by (unfold r; destruct (N.eqb_spec s 0); lia).
        assert (Hmx : N.max offS (off (nth r ris 0%nat)) = off (nth r ris 0%nat)).
        { unfold offS. replace (Nat.ltb rs nr) with true by (symmetry; apply Nat.ltb_lt; lia).
          apply N.max_r. apply omono_le; [apply (ris_mono kvs b off ris lay); lia | pose proof (ris_lt kvs b off ris lay r kvs_ne Hrn); lia]. }
        split; [exact Hmx|].
        destruct (vo_start vok) as [[_ Hsa]|[Hx _]]; [|lia].
        assert (Hj0 : (nth r ris 0 <= zl)%nat).
        { destruct (Nat.eq_dec rs rl) as [Erl|Nrl].
          - assert (s = 0) by lia. subst s. unfold r. cbn [N.eqb]. lia.
          - pose proof (vo_limit vok ltac:(lia)) as Hl.
            assert (r <= rl - 1)%nat by (unfold r; destruct (N.eqb_spec s 0); lia).
            pose proof (ris_mono kvs b off ris lay r (rl - 1) ltac:(lia) ltac:(lia)). lia. }
        split; [exact Hj0|]. split; [intros _; apply nth_In; exact Hrn|].
        split.
        { intros Hne. pose proof (vo_nonempty vok Hne). split; [unfold r; destruct (N.eqb_spec s 0); lia | lia]. }
        intros j' H1 H2.
        destruct (N.eqb_spec s 0) as [Z|NZ].
        * unfold r in H2. lia.
        * assert (Pf : rk_gt_s key (N.of_nat rs + (s - 1)) = false) by (apply Hlo; lia).
          unfold rk_gt_s in Pf.
          replace (N.of_nat rs + (s - 1)) with (N.of_nat r) in Pf by (unfold r; lia).
          rewrite (restart_key_at kvs b off ris lay r kvs_ne Hrn) in Pf.
          pose proof (keys_lt c c_ok kvs srt j' (nth r ris 0%nat) H2 (ris_lt kvs b off ris lay r kvs_ne Hrn)) as L.
          destruct (cmp c (key_at kvs (nth r ris 0%nat)) key) eqn:G; try discriminate.
          -- apply (cmp_eq c c_ok) in G. rewrite <- G. exact L.
          -- eapply (cmp_trans c c_ok); eauto.
  Qed.

  Lemma seek_step_s it p key : rep_s it p ->
    exists ok it', bi_seek c it key = (ok, it') /\ rep_s it' (c_seek c view key) /\
                   ok = match c_seek c view key with CAt _ => true | _ => false end.
  Proof.
    intros R. pose proof (rep_s_slice it p R) as Hs.
    pose proof Hs as (Eb & Ee & E1 & E2 & E3 & E4 & E5).
    pose proof (vo_a vok) as Ha. pose proof (vo_z vok) as Hz.
    unfold bi_seek. rewrite (has_err_s it Hs), Eb, E1, E2.
    destruct (block_seek_s key) as (r & j0 & o & Eseek & Emax & Hj0 & Hin & Hr & Hlt). rewrite Eseek.
    rewrite E3, Emax.
    set (d := if bdir_eqb (bi_dir it) DSOI || bdir_eqb (bi_dir it) DEOI then DForward else bi_dir it).
    set (it1 := bi_with_pos it (bi_key it) (bi_value it) (off j0) (bi_prevOffset it) (N.of_nat r) d).
    assert (P : pre_s it1 j0).
    { split; [exact Hs|]. split; [reflexivity|]. split; [exact Hj0|]. split.
      - intros L _. destruct (Hr L) as [H1 H2]. exists r. split; [exact H1|]. split; [reflexivity | exact H2].
      - intros L. left. apply Hin. exact L. }
    assert (Hd : dmoving it1).
    { unfold dmoving, it1. cbn [bi_with_pos bi_dir]. unfold d. destruct (bi_dir it); cbn; auto. }
    assert (Hfu : (S (S (zl - a)) < bi_fuel it1)%nat \/ True) by (right; exact I).
    replace (bi_fuel it) with (bi_fuel it1) by reflexivity.
    assert (Hfuel : (S (zl - a) < bi_fuel it1)%nat).
    { unfold bi_fuel, it1. cbn [bi_with_pos bi_blk]. rewrite Eb. pose proof (len_le_data kvs b off ris lay).
      (* one more than the number of entries *)
      pose proof (off_ge kvs b off ris lay len ltac:(lia)) as Hg. rewrite off_len in Hg.
      pose proof (lay_data _ _ _ _ lay) as Hdt. unfold lenN in Hdt. lia. }
    destruct (Nat.le_gt_cases j0 a) as [L|L].
    - apply (seek_loop_le key (bi_fuel it1) it1 j0 P Hd L Hfuel).
    - apply (seek_loop_s key (bi_fuel it1) it1 j0 P Hd ltac:(lia)); [lia|]. exact Hlt.
  Qed.

  (* ---------------- Prev ---------------- *)
  Lemma prev_scan_s i : (a < i)%nat -> (i <= len)%nat -> forall fuel j key value,
    (j < i)%nat -> (i - j <= fuel)%nat ->
    (In j ris \/ ((0 < j)%nat /\ key = key_at kvs (j - 1))) ->
    prev_scan fuel b (off a) (off i) (off j) key value
    = ScOk (key_at kvs (i - 1)) (val_at kvs (i - 1)) (off (i - 1)) (off i).
  Proof.
    intros Hai Hi. induction fuel as [|fu IH]; intros j key value Hj Hf Hk; [lia|].
    cbn [prev_scan]. rewrite (lay_read _ _ _ _ lay j key ltac:(lia) Hk).
    pose proof (lay_step _ _ _ _ lay j ltac:(lia)) as Hst.
    replace (off j + (off (S j) - off j)) with (off (S j)) by lia.
    destruct (Nat.eq_dec (S j) i) as [E|NE].
    - subst i. rewrite N.leb_refl, N.eqb_refl. replace (S j - 1)%nat with j by lia.
      pose proof (omono_le a j ltac:(lia) ltac:(lia)) as Hm.
      replace (off a <=? off j) with true by lia. reflexivity.
    - pose proof (omono (S j) i ltac:(lia) Hi) as Hm.
      replace (off i <=? off (S j)) with false by lia.
      apply IH; [lia | lia |]. right. split; [lia|]. replace (S j - 1)%nat with j by lia. reflexivity.
  Qed.

  Lemma restart_index_s r0 i : (r0 < rl)%nat -> (nth r0 ris 0 <= i)%nat -> (i < len)%nat ->
    exists r, restart_index b (N.of_nat r0) (N.of_nat rl) (off i) = Some (N.of_nat r) /\
              (r < rl)%nat /\ (nth r ris 0 <= i)%nat.
  Proof.
    intros Hr0 H0 Hi. pose proof (vo_rl vok) as Hrl. unfold restart_index.
    destruct (sort_search_mono (N.of_nat rl - N.of_nat r0)
                (fun x => option_map (fun o => off i <? o) (restart_offset b (N.of_nat r0 + x)))
                (fun x => off i <? off (nth (r0 + N.to_nat x) ris 0%nat))) as (s & Es & Hs & Hlo & Hhi).
    - intros h Hh. replace (N.of_nat r0 + h) with (N.of_nat (r0 + N.to_nat h)) by lia.
      rewrite (lay_roff _ _ _ _ lay) by lia. reflexivity.
    - intros h1 h2 H12 H2 P1.
      assert (Hr2 : (r0 + N.to_nat h2 < nr)%nat) by lia.
      pose proof (ris_mono kvs b off ris lay (r0 + N.to_nat h1) (r0 + N.to_nat h2) ltac:(lia) Hr2) as Hm.
      pose proof (ris_lt kvs b off ris lay (r0 + N.to_nat h2) kvs_ne Hr2) as Hl2.
      pose proof (omono_le _ _ Hm ltac:(lia)). lia.
    - rewrite Es.
      assert (S0 : s <> 0).
      { intros ->. assert (Hp : (off i <? off (nth (r0 + N.to_nat 0) ris 0%nat)) = true) by (apply Hhi; lia).
        replace (r0 + N.to_nat 0)%nat with r0 in Hp by lia.
        pose proof (omono_le _ _ H0 ltac:(lia)). lia. }
      replace (s + N.of_nat r0 =? 0) with false by lia.
      set (r := (r0 + N.to_nat (s - 1))%nat).
      exists r. split; [f_equal; unfold r; lia|].
      assert (Hr : (r < rl)%nat) by (unfold r; lia).
      split; [exact Hr|].
      assert (Hp : (off i <? off (nth (r0 + N.to_nat (s - 1)) ris 0%nat)) = false) by (apply Hlo; lia).
      fold r in Hp. apply ole_inv; [pose proof (ris_lt kvs b off ris lay r kvs_ne ltac:(lia)); lia | lia | lia].
  Qed.

  Lemma prev_finish_s it i ri0 : (a < i)%nat -> (i <= zl)%nat -> slice_at it ->
    (ri0 < rl)%nat -> (nth ri0 ris 0 <= i)%nat ->
    (nth ri0 ris 0%nat = i -> (0 < ri0)%nat) ->
    exists it',
      match restart_offset (bi_blk it) (N.of_nat ri0) with
      | None => (false, bi_serr it ErrPanic)
      | Some off0 =>
          let adj :=
            if off0 =? off i then
              (if N.of_nat ri0 =? 0 then inl tt
               else inr (option_map (fun o => (N.of_nat ri0 - 1, o)) (restart_offset (bi_blk it) (N.of_nat ri0 - 1))))
            else inr (Some (N.of_nat ri0, off0)) in
          match adj with
          | inl _ => (false, bi_with_dir it DSOI)
          | inr None => (false, bi_serr it ErrPanic)
          | inr (Some (ri', o)) =>
              match prev_scan (bi_fuel it) (bi_blk it) (bi_offRealStart it) (off i) o [] [] with
              | ScErr e => (false, bi_serr (bi_with_dir it DBackward) e)
              | ScOk k v st o' => (true, bi_with_pos it k v o' st ri' DBackward)
              end
          end
      end = (true, it') /\ rep_s it' (CAt (i - 1 - a)).
  Proof.
    intros Hai Hi Hs Hr Hle Hadj.
    pose proof Hs as (Eb & Ee & E1 & E2 & E3 & E4 & E5).
    pose proof (vo_z vok) as Hz. pose proof (vo_rl vok) as Hrl.
    rewrite Eb, E4, (lay_roff _ _ _ _ lay ri0 ltac:(lia)).
    assert (Hfuel : forall j, (i - j <= bi_fuel it)%nat).
    { intros j. unfold bi_fuel. rewrite Eb. pose proof (len_le_data kvs b off ris lay). lia. }
    assert (Ei : (a + (i - 1 - a))%nat = (i - 1)%nat) by lia.
    destruct (N.eqb_spec (off (nth ri0 ris 0%nat)) (off i)) as [Eo|No].
    - apply oinj in Eo; [| pose proof (ris_lt kvs b off ris lay ri0 kvs_ne ltac:(lia)); lia | lia].
      specialize (Hadj Eo). replace (N.of_nat ri0 =? 0) with false by lia.
      replace (N.of_nat ri0 - 1) with (N.of_nat (ri0 - 1)) by lia.
      rewrite (lay_roff _ _ _ _ lay (ri0 - 1)%nat) by lia. cbn [option_map]. cbv beta iota zeta.
      pose proof (lay_ris_incr _ _ _ _ lay (ri0 - 1)%nat ri0 ltac:(lia) ltac:(lia)) as Hinc.
      rewrite (prev_scan_s i Hai ltac:(lia) (bi_fuel it) (nth (ri0 - 1) ris 0%nat) [] []); try lia.
      + eexists. split; [reflexivity|]. unfold rep_s. rewrite !Ei.
        split; [lia|]. split; [exact Hs|]. split; [right; reflexivity|].
        cbn [bi_with_pos bi_key bi_value bi_offset bi_prevOffset bi_ri].
        replace (S (i - 1)) with i by lia.
        split; [reflexivity|]. split; [reflexivity|]. split; [reflexivity|]. split; [reflexivity|].
        exists (ri0 - 1)%nat. split; [lia|]. split; [reflexivity | lia].
      + apply Hfuel.
      + left. apply nth_In. lia.
    - assert (Hlt : (nth ri0 ris 0 < i)%nat).
      { destruct (Nat.eq_dec (nth ri0 ris 0%nat) i) as [E|]; [rewrite E in No; congruence | lia]. }
      cbv beta iota zeta.
      rewrite (prev_scan_s i Hai ltac:(lia) (bi_fuel it) (nth ri0 ris 0%nat) [] []); try lia.
      + eexists. split; [reflexivity|]. unfold rep_s. rewrite !Ei.
        split; [lia|]. split; [exact Hs|]. split; [right; reflexivity|].
        cbn [bi_with_pos bi_key bi_value bi_offset bi_prevOffset bi_ri].
        replace (S (i - 1)) with i by lia.
        split; [reflexivity|]. split; [reflexivity|]. split; [reflexivity|]. split; [reflexivity|].
        exists ri0. split; [exact Hr|]. split; [reflexivity | lia].
      + apply Hfuel.
      + left. apply nth_In. lia.
  Qed.

  Lemma c_last_view : c_last view = if Nat.ltb a zl then CAt (zl - a - 1) else CSOI.
  Proof.
    unfold c_last. pose proof view_len as Hl. destruct (Nat.ltb_spec a zl) as [L|L].
    - destruct view eqn:E; [cbn in Hl; lia|]. rewrite Hl. reflexivity.
    - destruct view; [reflexivity | cbn in Hl; lia].
  Qed.

  Lemma prev_step_s it p : rep_s it p ->
    exists ok it', bi_prev it = (ok, it') /\ rep_s it' (c_prev view p) /\
                   ok = match c_prev view p with CAt _ => true | _ => false end.
  Proof.
    intros R. pose proof (vo_a vok) as Ha. pose proof (vo_z vok) as Hz.
    destruct p as [|i'|].
    - destruct R as [Hs Hd]. exists false, it. unfold bi_prev. rewrite Hd. cbn [bdir_eqb orb c_prev].
      split; [reflexivity|]. split; [split; assumption | reflexivity].
    - destruct R as (Hi & Hs & Hd & Hk & Hv & Ho & Hp & (r0 & Hr0 & Er0 & Hle0)).
      pose proof Hs as (Eb & Ee & E1 & E2 & E3 & E4 & E5).
      unfold bi_prev. rewrite (has_err_s it Hs).
      replace (bdir_eqb (bi_dir it) DSOI) with false by (destruct Hd as [-> | ->]; reflexivity).
      cbn [orb].
      assert (Estart :
        match bi_dir it with
        | DEOI =>
            if bi_offLimit it =? bi_offRealStart it then inl tt
            else if bi_riLimit it =? 0 then inr None
            else inr (Some (bi_offLimit it, bi_riLimit it - 1))
        | _ =>
            if bi_prevOffset it =? bi_offRealStart it then inl tt
            else inr (option_map (fun r => (bi_prevOffset it, r))
                        (restart_index (bi_blk it) (bi_ri it) (bi_riLimit it) (bi_prevOffset it)))
        end =
        if bi_prevOffset it =? bi_offRealStart it then inl tt
            else inr (option_map (fun r => (bi_prevOffset it, r))
                        (restart_index (bi_blk it) (bi_ri it) (bi_riLimit it) (bi_prevOffset it)))).
      { destruct Hd as [-> | ->]; reflexivity. }
      rewrite Estart. clear Estart. rewrite Hp, E4.
      destruct i' as [|i''].
      + rewrite Nat.add_0_r, N.eqb_refl. cbn [c_prev].
        exists false, (bi_with_dir it DSOI). split; [reflexivity|]. split; [split; [exact Hs | reflexivity] | reflexivity].
      + set (i := (a + S i'')%nat) in *.
        pose proof (omono a i ltac:(lia) ltac:(lia)) as Hpos.
        replace (off i =? off a) with false by lia.
        rewrite Eb, Er0, E2.
        destruct (restart_index_s r0 i Hr0 Hle0 ltac:(lia)) as (r & Eri & Hr & Hle). rewrite Eri. cbn [option_map].
        destruct (prev_finish_s it i r ltac:(lia) ltac:(lia) Hs Hr Hle) as (it' & E & R').
        * intros En. destruct r as [|r']; [|lia]. rewrite (lay_ris_hd _ _ _ _ lay) in En. lia.
        * rewrite Eb, E4 in E. exists true, it'. split; [exact E|]. cbn [c_prev].
          replace (i - 1 - a)%nat with i'' in R' by lia. auto.
    - destruct R as [Hs Hd].
      pose proof Hs as (Eb & Ee & E1 & E2 & E3 & E4 & E5).
      unfold bi_prev. rewrite (has_err_s it Hs), Hd. cbn [bdir_eqb orb].
      rewrite E5, E4, E2. cbn [c_prev]. rewrite c_last_view.
      destruct (Nat.ltb_spec a zl) as [L|L].
      + pose proof (omono a zl L Hz) as Hpos. replace (off zl =? off a) with false by lia.
        pose proof (vo_nonempty vok L) as Hrr. pose proof (vo_limit vok Hrr) as Hlim.
        replace (N.of_nat rl =? 0) with false by lia.
        replace (N.of_nat rl - 1) with (N.of_nat (rl - 1)) by lia.
        destruct (prev_finish_s it zl (rl - 1)%nat L ltac:(lia) Hs ltac:(lia) Hlim) as (it' & E & R').
        * intros En. destruct (Nat.eq_dec (rl - 1) 0) as [Z|]; [|lia].
          rewrite Z, (lay_ris_hd _ _ _ _ lay) in En. lia.
        * rewrite E4 in E. exists true, it'. split; [exact E|].
          replace (zl - 1 - a)%nat with (zl - a - 1)%nat in R' by lia. auto.
      + assert (Ez : off zl = off a) by (f_equal; lia). rewrite Ez, N.eqb_refl.
        exists false, (bi_with_dir it DSOI). split; [reflexivity|]. split; [split; [exact Hs | reflexivity] | reflexivity].
  Qed.

  (* ---------------- the step function and runs ---------------- *)
  Lemma step_refines_s it p o : rep_s it p ->
    exists ok it', bi_step c it o = (ok, it') /\ rep_s it' (c_step c view p o) /\
                   ok = match c_step c view p o with CAt _ => true | _ => false end.
  Proof.
    intros R. pose proof (rep_s_slice it p R) as Hs.
    destruct o as [| |k| |]; cbn [bi_step c_step].
    - unfold bi_first. rewrite (has_err_s it Hs).
      apply (next_step_s (bi_with_dir it DSOI) CSOI). split; [exact Hs | reflexivity].
    - unfold bi_last. rewrite (has_err_s it Hs).
      apply (prev_step_s (bi_with_dir it DEOI) CEOI). split; [exact Hs | reflexivity].
    - apply (seek_step_s it p k R).
    - apply (next_step_s it p R).
    - apply (prev_step_s it p R).
  Qed.

  Theorem run_refines_s ops : forall it p, rep_s it p -> bi_run c it ops = c_run c view p ops.
  Proof.
    induction ops as [|o r IH]; intros it p R; cbn [bi_run c_run]; [reflexivity|].
    destruct (step_refines_s it p o R) as (ok & it' & E & R' & Eok). rewrite E.
    rewrite (IH it' _ R'). f_equal.
    destruct (c_step c view p o) as [|i'|]; subst ok; cbn [c_get]; try reflexivity.
    destruct R' as (Hi & _ & _ & Hk & Hv & _). rewrite Hk, Hv. symmetry. apply view_kv. exact Hi.
  Qed.
End Sliced.
