(* Codec/JournalLemmas.v — list / index arithmetic lemmas shared by the journal proofs. *)
From GL Require Import Base.Bytes Base.BytesProofs Codec.Journal.
From Coq Require Import Lia ZifyN ZifyNat ZifyBool.

Ltac nl := unfold lenN, takeN, dropN in *.

Lemma lenN_nil {A} : lenN (@nil A) = 0.
Proof. reflexivity. Qed.

Lemma lenN_cons {A} (x : A) l : lenN (x :: l) = 1 + lenN l.
Proof. unfold lenN. cbn [length]. lia. Qed.

Lemma lenN_app {A} (a b : list A) : lenN (a ++ b) = lenN a + lenN b.
Proof. unfold lenN. rewrite app_length. lia. Qed.

Lemma lenN_takeN {A} n (l : list A) : lenN (takeN n l) = N.min n (lenN l).
Proof. nl. rewrite firstn_length. lia. Qed.

Lemma lenN_dropN {A} n (l : list A) : lenN (dropN n l) = lenN l - n.
Proof. nl. rewrite skipn_length. lia. Qed.

Lemma lenN_zeros n : lenN (zeros n) = n.
Proof. unfold lenN, zeros. rewrite repeat_length. lia. Qed.

Lemma lenN_le_encode k x : lenN (le_encode k x) = N.of_nat k.
Proof. unfold lenN. now rewrite le_encode_length. Qed.

Lemma lenN_0 {A} (l : list A) : lenN l = 0 -> l = [].
Proof. destruct l; [reflexivity|]. rewrite lenN_cons. lia. Qed.

Lemma takeN_0 {A} (l : list A) : takeN 0 l = [].
Proof. reflexivity. Qed.

Lemma dropN_0 {A} (l : list A) : dropN 0 l = l.
Proof. reflexivity. Qed.

Lemma takeN_all {A} n (l : list A) : lenN l <= n -> takeN n l = l.
Proof. nl. intros. apply firstn_all2. lia. Qed.

Lemma dropN_all {A} n (l : list A) : lenN l <= n -> dropN n l = [].
Proof. nl. intros. apply skipn_all2. lia. Qed.

Lemma takeN_dropN {A} n (l : list A) : takeN n l ++ dropN n l = l.
Proof. nl. apply firstn_skipn. Qed.

Lemma takeN_app_exact {A} n (a b : list A) : lenN a = n -> takeN n (a ++ b) = a.
Proof.
  nl. intros. rewrite firstn_app. replace (N.to_nat n - length a)%nat with 0%nat by lia.
  cbn. rewrite app_nil_r. apply firstn_all2. lia.
Qed.

Lemma dropN_app_exact {A} n (a b : list A) : lenN a = n -> dropN n (a ++ b) = b.
Proof.
  nl. intros. rewrite skipn_app. replace (N.to_nat n - length a)%nat with 0%nat by lia.
  rewrite skipn_all2 by lia. reflexivity.
Qed.

Lemma takeN_app_le {A} n (a b : list A) : n <= lenN a -> takeN n (a ++ b) = takeN n a.
Proof.
  nl. intros. rewrite firstn_app. replace (N.to_nat n - length a)%nat with 0%nat by lia.
  cbn. apply app_nil_r.
Qed.

Lemma dropN_app_le {A} n (a b : list A) : n <= lenN a -> dropN n (a ++ b) = dropN n a ++ b.
Proof.
  nl. intros. rewrite skipn_app. replace (N.to_nat n - length a)%nat with 0%nat by lia.
  reflexivity.
Qed.

Lemma takeN_app_ge {A} n (a b : list A) : lenN a <= n -> takeN n (a ++ b) = a ++ takeN (n - lenN a) b.
Proof.
  nl. intros. rewrite firstn_app. rewrite firstn_all2 by lia.
  f_equal. f_equal. lia.
Qed.

Lemma dropN_app_ge {A} n (a b : list A) : lenN a <= n -> dropN n (a ++ b) = dropN (n - lenN a) b.
Proof.
  nl. intros. rewrite skipn_app. rewrite skipn_all2 by lia. cbn. f_equal. lia.
Qed.

Lemma skipn_skipn' {A} x y (l : list A) : skipn x (skipn y l) = skipn (y + x) l.
Proof.
  revert l; induction y as [|y IH]; intros l; [reflexivity|].
  destruct l as [|a l]; cbn [skipn plus]; [apply skipn_nil | apply IH].
Qed.

Lemma dropN_dropN {A} a b (l : list A) : dropN a (dropN b l) = dropN (a + b) l.
Proof. nl. rewrite skipn_skipn'. f_equal. lia. Qed.

Lemma takeN_takeN {A} a b (l : list A) : takeN a (takeN b l) = takeN (N.min a b) l.
Proof. nl. rewrite firstn_firstn. f_equal. lia. Qed.

Lemma dropN_takeN {A} a b (l : list A) : dropN a (takeN b l) = takeN (b - a) (dropN a l).
Proof. nl. rewrite skipn_firstn_comm. f_equal. lia. Qed.

(* a window that lies inside the first n elements does not see the rest *)
Lemma window_prefix {A} n a b (l : list A) :
  b <= n -> takeN (b - a) (dropN a (takeN n l)) = takeN (b - a) (dropN a l).
Proof.
  intros. rewrite dropN_takeN, takeN_takeN. f_equal. lia.
Qed.

Lemma takeN_succ_nth {A} (d : A) n (l : list A) :
  n < lenN l -> takeN (n + 1) l = takeN n l ++ [nth (N.to_nat n) l d].
Proof.
  nl. intros H. replace (N.to_nat (n + 1)) with (S (N.to_nat n)) by lia.
  remember (N.to_nat n) as k. assert (Hk : (k < length l)%nat) by lia. clear - Hk.
  revert l Hk; induction k as [|k IH]; intros [|x l] Hk; cbn [length] in *; try lia.
  - reflexivity.
  - cbn [firstn nth app]. f_equal. apply IH. lia.
Qed.

Lemma nth_dropN {A} (d : A) a k (l : list A) : nth k (dropN a l) d = nth (N.to_nat a + k) l d.
Proof.
  nl. remember (N.to_nat a) as m. clear. revert l; induction m as [|m IH]; intros l; [reflexivity|].
  destruct l as [|x l]; cbn [skipn plus].
  - destruct k; reflexivity.
  - cbn [nth]. apply IH.
Qed.

Lemma nth_error_nth {A} (d : A) k (l : list A) : (k < length l)%nat -> nth_error l k = Some (nth k l d).
Proof.
  revert l; induction k as [|k IH]; intros [|x l] H; cbn [length] in *; try lia; cbn; [reflexivity|].
  apply IH. lia.
Qed.

Lemma cons_takeN_dropN {A} (d : A) k n (l : list A) :
  k < lenN l -> nth (N.to_nat k) l d :: takeN n (dropN (k + 1) l) = takeN (n + 1) (dropN k l).
Proof.
  nl. intros H. replace (N.to_nat (n + 1)) with (S (N.to_nat n)) by lia.
  replace (N.to_nat (k + 1)) with (S (N.to_nat k)) by lia.
  remember (N.to_nat k) as m. assert (Hm : (m < length l)%nat) by lia. clear - Hm.
  revert l Hm; induction m as [|m IH]; intros [|x l] Hm; cbn [length] in *; try lia.
  - reflexivity.
  - cbn [skipn nth]. apply IH. lia.
Qed.

(* ---- slice / index / put *)
Lemma slice_some buf a b :
  a <= b -> b <= lenN buf -> slice buf a b = Some (takeN (b - a) (dropN a buf)).
Proof.
  intros H1 H2. unfold slice.
  replace (a <=? b) with true by lia. replace (b <=? lenN buf) with true by lia. reflexivity.
Qed.

Lemma slice_len buf a b d : slice buf a b = Some d -> a <= b /\ b <= lenN buf /\ lenN d = b - a.
Proof.
  unfold slice. destruct (a <=? b) eqn:E1; [|discriminate]. destruct (b <=? lenN buf) eqn:E2; [|discriminate].
  cbn. intros [= <-]. rewrite lenN_takeN, lenN_dropN. lia.
Qed.

Lemma index_some (d : N) buf a : a < lenN buf -> index buf a = Some (nth (N.to_nat a) buf d).
Proof. intros. unfold index. apply nth_error_nth. unfold lenN in *. lia. Qed.

Lemma lenN_put buf pos d : pos + lenN d <= lenN buf -> lenN (put buf pos d) = lenN buf.
Proof.
  intros. unfold put. rewrite !lenN_app, lenN_takeN, lenN_dropN. lia.
Qed.
