(* Codec/IKeyProbePreProofs.v — the probe-placement theorems of IKeyProbeProofs.v under the PREORDER
   contract of the user comparer (Base/OrderPre.v): "is the same user key" is cmp = Eq (keq), not
   identity of bytes, so the statements also cover non-injective comparers (case-insensitive order,
   goleveldb's own numberComparer).  No use of injectivity. *)
From GL Require Import Base.Order Base.OrderPre Codec.IKey Codec.IKeyPreProofs.
From Coq Require Import List ZArith Lia ZifyN ZifyNat ZifyBool.
Import ListNotations.
Local Open Scope N_scope.

Section ProbePre.
  Variable c : comparer.
  Hypothesis ok : comparer_pre_ok c.
  Variable p : kparams.
  Hypothesis pok : kparams_ok p.

  Lemma pack_lt_iff s s' t : t <= keyTypeSeek p ->
    pack s (keyTypeSeek p) < pack s' t <-> s < s'.
  Proof.
    intros Ht. unfold pack. destruct pok as (_ & _ & _ & H256 & _). split; intros H; nia.
  Qed.

  Lemma pprobe_precedes_iff e s' t k s : num e = pack s' t -> t <= keyTypeSeek p ->
    icmp c e (probe p k s) = Lt <-> (cmp c (uk e) k = Lt \/ (keq c (uk e) k /\ s < s')).
  Proof.
    intros Hn Ht. unfold icmp, probe, keq; cbn [uk num]. rewrite Hn.
    destruct (cmp c (uk e) k) eqn:E.
    - rewrite N.compare_lt_iff, (pack_lt_iff s s' t Ht). split.
      + intros H. right. split; [reflexivity|exact H].
      + intros [H | [_ H]]; [discriminate|exact H].
    - split; [intros _; left; reflexivity | reflexivity].
    - split; [discriminate | intros [H | [H _]]; discriminate].
  Qed.

  Lemma pprobe_not_after_iff e s' t k s : num e = pack s' t -> t <= keyTypeSeek p ->
    icmp c e (probe p k s) <> Lt <-> (cmp c k (uk e) = Lt \/ (keq c (uk e) k /\ s' <= s)).
  Proof.
    intros Hn Ht. rewrite (pprobe_precedes_iff e s' t k s Hn Ht). unfold keq.
    rewrite (pre_opp c ok (uk e) k).
    destruct (cmp c (uk e) k) eqn:E; cbn.
    - split.
      + intros H. right. split; [reflexivity|].
        destruct (N.le_gt_cases s' s) as [L|G]; [exact L|]. exfalso. apply H. right. split; [reflexivity|exact G].
      + intros [H | [_ L]] [H' | [_ G]]; try discriminate. lia.
    - split.
      + intros H. exfalso. apply H. left; reflexivity.
      + intros [H | [H _]]; discriminate.
    - split.
      + intros _. left; reflexivity.
      + intros _ [H | [H _]]; discriminate.
  Qed.

  Definition ptrailer_ok (e : ikey) : Prop := exists s' t, num e = pack s' t /\ t <= keyTypeSeek p.
  Definition pseq_of (e : ikey) : N := num e / 256.

  Lemma pseq_of_num e s' t : num e = pack s' t -> t <= keyTypeSeek p -> pseq_of e = s'.
  Proof.
    intros Hn Ht. unfold pseq_of. rewrite Hn. unfold pack. destruct pok as (_ & _ & _ & H256 & _).
    rewrite N.div_add_l by lia. rewrite N.div_small by lia. lia.
  Qed.

  Fixpoint psorted (l : list ikey) : Prop :=
    match l with
    | [] => True
    | a :: r => (match r with [] => True | b :: _ => icmp c a b = Lt end) /\ psorted r
    end.

  Lemma psorted_head_lt a r : psorted (a :: r) -> forall x, In x r -> icmp c a x = Lt.
  Proof.
    revert a. induction r as [|b r IH]; intros a H x Hx; [destruct Hx|].
    destruct H as [Hab Hr]. destruct Hx as [<-|Hx]; [exact Hab|].
    apply (picmp_trans c ok a b x Hab). apply IH; assumption.
  Qed.

  Lemma psorted_app_r l1 l2 : psorted (l1 ++ l2) -> psorted l2.
  Proof.
    induction l1 as [|a l1 IH]; cbn [app]; intros H; [exact H|].
    apply IH. destruct H as [_ H]. exact H.
  Qed.

  (* the sorted-run theorem with user-key classes: "carries k" = compares Eq to k *)
  Theorem pprobe_lands_on_newest_visible l1 e l2 k s :
    psorted (l1 ++ e :: l2) ->
    (forall x, In x (l1 ++ e :: l2) -> ptrailer_ok x) ->
    (forall x, In x l1 -> icmp c x (probe p k s) = Lt) ->
    icmp c e (probe p k s) <> Lt ->
    (forall x, In x l1 -> ~ (keq c (uk x) k /\ pseq_of x <= s)) /\
    (keq c (uk e) k -> pseq_of e <= s /\
       forall x, In x (l1 ++ e :: l2) -> keq c (uk x) k -> pseq_of x <= s -> pseq_of x <= pseq_of e) /\
    (~ keq c (uk e) k -> forall x, In x (l1 ++ e :: l2) -> ~ (keq c (uk x) k /\ pseq_of x <= s)).
  Proof.
    intros Hs Ht Hbefore He.
    assert (Hte : ptrailer_ok e) by (apply Ht, in_or_app; right; left; reflexivity).
    destruct Hte as (se & te & Hne & Hte).
    pose proof (pseq_of_num e se te Hne Hte) as Hse.
    apply (pprobe_not_after_iff e se te k s Hne Hte) in He.
    assert (Hl1 : forall x, In x l1 -> ~ (keq c (uk x) k /\ pseq_of x <= s)).
    { intros x Hx [Hu Hv].
      destruct (Ht x (in_or_app _ _ _ (or_introl Hx))) as (sx & tx & Hnx & Htx).
      pose proof (Hbefore x Hx) as Hlt.
      apply (pprobe_precedes_iff x sx tx k s Hnx Htx) in Hlt.
      rewrite (pseq_of_num x sx tx Hnx Htx) in Hv.
      destruct Hlt as [Hlt | [_ Hlt]]; [|lia].
      unfold keq in Hu. rewrite Hu in Hlt. discriminate. }
    assert (Hl2 : forall x, In x l2 -> icmp c e x = Lt).
    { intros x Hx. apply psorted_app_r in Hs. exact (psorted_head_lt e l2 Hs x Hx). }
    split; [exact Hl1|]. split.
    - intros Hu. destruct He as [He | [_ He]].
      { unfold keq in Hu. rewrite (pre_opp c ok), Hu in He. discriminate. }
      split; [lia|].
      intros x Hx Hux Hvx. apply in_app_or in Hx. destruct Hx as [Hx | [Hx | Hx]].
      + exfalso. apply (Hl1 x Hx). split; assumption.
      + subst x. lia.
      + pose proof (Hl2 x Hx) as Hlt.
        destruct (Ht x (in_or_app l1 (e :: l2) x (or_intror (in_cons e x l2 Hx)))) as (sx & tx & Hnx & Htx).
        rewrite (pseq_of_num x sx tx Hnx Htx), Hse.
        unfold icmp in Hlt.
        assert (Hex : cmp c (uk e) (uk x) = Eq).
        { unfold keq in Hu, Hux. rewrite (pcmp_eq_l c ok _ _ _ Hu). apply (pcmp_eq_sym c ok). exact Hux. }
        rewrite Hex, Hnx, Hne in Hlt. rewrite N.compare_lt_iff in Hlt. unfold pack in Hlt.
        destruct pok as (_ & _ & _ & H256 & _). nia.
    - intros Hu x Hx [Hux Hvx]. destruct He as [He | [He _]]; [|contradiction].
      apply in_app_or in Hx. destruct Hx as [Hx | [Hx | Hx]].
      + apply (Hl1 x Hx). split; assumption.
      + subst x. contradiction.
      + pose proof (Hl2 x Hx) as Hlt. unfold icmp in Hlt.
        unfold keq in Hux. rewrite (pcmp_eq_r c ok _ _ _ Hux) in Hlt.
        rewrite (pre_opp c ok), He in Hlt. cbn in Hlt. discriminate.
  Qed.
End ProbePre.

(* The index-key shortening laws under the preorder contract: a < isep a b < b and b < isucc b also
   hold for comparers that are not injective (only pre_sep_ok / the acceptance test are used). *)
Section ShortenPre.
  Variable c : comparer.
  Hypothesis ok : comparer_pre_ok c.
  Variable p : kparams.

  Lemma pltb_lt a b : ltb c a b = true -> cmp c a b = Lt.
  Proof. unfold ltb. destruct (cmp c a b); intros H; try discriminate H; reflexivity. Qed.

  Lemma picmp_ukey_lt a b : cmp c (uk a) (uk b) = Lt -> icmp c a b = Lt.
  Proof. unfold icmp. intros ->. reflexivity. Qed.

  Lemma pisep_law a b x : isep c p a b = Some x -> icmp c a x = Lt /\ icmp c x b = Lt.
  Proof.
    unfold isep. destruct (sep c (uk a) (uk b)) as [d|] eqn:S; try discriminate.
    destruct (Nat.ltb (length d) (length (uk a)) && ltb c (uk a) d)%bool eqn:C; try discriminate.
    intros H; injection H as <-.
    apply andb_prop in C as [_ C]. apply pltb_lt in C.
    split; apply picmp_ukey_lt; cbn [uk]; [exact C|].
    apply (pre_sep_ok c ok _ _ _ S).
  Qed.

  Lemma pisucc_law b x : isucc c p b = Some x -> icmp c b x = Lt.
  Proof.
    unfold isucc. destruct (succ c (uk b)) as [d|] eqn:S; try discriminate.
    destruct (Nat.ltb (length d) (length (uk b)) && ltb c (uk b) d)%bool eqn:C; try discriminate.
    intros H; injection H as <-.
    apply andb_prop in C as [_ C]. apply pltb_lt in C.
    apply picmp_ukey_lt; cbn [uk]. exact C.
  Qed.
End ShortenPre.
