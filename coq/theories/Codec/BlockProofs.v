(* Codec/BlockProofs.v — proofs, part 2: the (unsliced) block iterator refines the reference
   cursor, block.seek lands on the first entry >= key, decoding returns the entries — all from
   [block_layout] (BlockEnc.v), i.e. for every block the writer can produce. *)
From GL Require Import Base.Bytes Base.BytesProofs Base.Varint Base.VarintProofs Base.Order Base.OrderProofs
  Base.Cursor Base.CursorProofs Codec.Block Codec.BlockEnc.
From Coq Require Import Arith ZArith Lia ZifyN ZifyNat ZifyBool.

Local Open Scope N_scope.

(* ------------------------------------------------------------ sort.Search *)
Lemma search_f_mono (f : N -> option bool) (p : N -> bool) : forall fuel i j,
  i <= j -> (N.to_nat (j - i) < fuel)%nat ->
  (forall h, i <= h < j -> f h = Some (p h)) ->
  (forall h1 h2, i <= h1 -> h1 <= h2 -> h2 < j -> p h1 = true -> p h2 = true) ->
  exists s, search_f fuel f i j = Some s /\ i <= s <= j /\
            (forall h, i <= h < s -> p h = false) /\ (forall h, s <= h < j -> p h = true).
Proof.
  induction fuel as [|fu IH]; intros i j Hij Hf Hfp Hm; [lia|].
  cbn [search_f]. destruct (N.ltb_spec i j) as [Hlt|Hge].
  - set (h := (i + j) / 2).
    assert (Hh : i <= h < j).
    { unfold h. split; [apply N.div_le_lower_bound; lia | apply N.div_lt_upper_bound; lia]. }
    rewrite (Hfp h Hh). destruct (p h) eqn:Ph.
    + assert (A1 : forall x, i <= x < h -> f x = Some (p x)) by (intros x Hx; apply Hfp; lia).
      assert (A2 : forall h1 h2, i <= h1 -> h1 <= h2 -> h2 < h -> p h1 = true -> p h2 = true)
        by (intros h1 h2 H1 H2 H3; apply Hm; lia).
      destruct (IH i h ltac:(lia) ltac:(lia) A1 A2) as (s & Es & Hs & Hlo & Hhi).
      exists s. split; [exact Es|]. split; [lia|]. split; [exact Hlo|].
      intros x Hx. destruct (N.ltb_spec x h) as [L|L]; [apply Hhi; lia|].
      apply (Hm h x); try lia; try exact Ph.
    + assert (A1 : forall x, h + 1 <= x < j -> f x = Some (p x)) by (intros x Hx; apply Hfp; lia).
      assert (A2 : forall h1 h2, h + 1 <= h1 -> h1 <= h2 -> h2 < j -> p h1 = true -> p h2 = true)
        by (intros h1 h2 H1 H2 H3; apply Hm; lia).
      destruct (IH (h + 1) j ltac:(lia) ltac:(lia) A1 A2) as (s & Es & Hs & Hlo & Hhi).
      exists s. split; [exact Es|]. split; [lia|]. split; [|exact Hhi].
      intros x Hx. destruct (N.ltb_spec x (h + 1)) as [L|L]; [|apply Hlo; lia].
      destruct (p x) eqn:Px; [|reflexivity].
      assert (p h = true) by (apply (Hm x h); try lia; try exact Px). congruence.
  - exists i. split; [reflexivity|]. split; [lia|]. split; intros x Hx; lia.
Qed.

Lemma sort_search_mono n (f : N -> option bool) (p : N -> bool) :
  (forall h, h < n -> f h = Some (p h)) ->
  (forall h1 h2, h1 <= h2 -> h2 < n -> p h1 = true -> p h2 = true) ->
  exists s, sort_search n f = Some s /\ s <= n /\
            (forall h, h < s -> p h = false) /\ (forall h, s <= h < n -> p h = true).
Proof.
  intros Hf Hm. unfold sort_search.
  assert (A1 : forall h, 0 <= h < n -> f h = Some (p h)) by (intros h Hh; apply Hf; lia).
  assert (A2 : forall h1 h2, 0 <= h1 -> h1 <= h2 -> h2 < n -> p h1 = true -> p h2 = true)
    by (intros h1 h2 _ H1 H2; apply Hm; assumption).
  destruct (search_f_mono f p (S (N.to_nat n)) 0 n ltac:(lia) ltac:(lia) A1 A2) as (s & Es & Hs & Hlo & Hhi).
  exists s. split; [exact Es|]. split; [lia|]. split; intros h Hh; [apply Hlo | apply Hhi]; lia.
Qed.

(* ------------------------------------------------------------ the iterator over a laid-out block *)
Section Iter.
  Variable c : comparer.
  Hypothesis c_ok : comparer_ok c.
  Variable kvs : list (bytes * bytes).
  Variable b : block.
  Variable off : nat -> N.
  Variable ris : list nat.
  Hypothesis lay : block_layout kvs b off ris.
  Hypothesis srt : sorted c kvs.

  Local Notation len := (length kvs).

  Lemma nth_kv i : (i < len)%nat -> nth_error kvs i = Some (key_at kvs i, val_at kvs i).
  Proof.
    intros H. unfold key_at, val_at. rewrite <- surjective_pairing. apply nth_error_nth'. exact H.
  Qed.

  Lemma off_mono i j : (i < j)%nat -> (j <= len)%nat -> off i < off j.
  Proof.
    intros Hij Hj. induction j as [|j IH]; [lia|].
    pose proof (lay_step _ _ _ _ lay j ltac:(lia)) as Hs.
    destruct (Nat.eq_dec i j) as [->|]; [lia|]. specialize (IH ltac:(lia) ltac:(lia)). lia.
  Qed.

  Lemma off_mono_le i j : (i <= j)%nat -> (j <= len)%nat -> off i <= off j.
  Proof.
    intros Hij Hj. destruct (Nat.eq_dec i j) as [->|]; [lia|].
    pose proof (off_mono i j ltac:(lia) Hj). lia.
  Qed.

  Lemma off_inj i j : (i <= len)%nat -> (j <= len)%nat -> off i = off j -> i = j.
  Proof.
    intros Hi Hj E. destruct (Nat.lt_trichotomy i j) as [L|[L|L]]; [|exact L|].
    - pose proof (off_mono i j L Hj). lia.
    - pose proof (off_mono j i L Hi). lia.
  Qed.

  Lemma off_le_inv i j : (i <= len)%nat -> (j <= len)%nat -> off i <= off j -> (i <= j)%nat.
  Proof.
    intros Hi Hj E. destruct (Nat.le_gt_cases i j) as [L|L]; [exact L|].
    pose proof (off_mono j i L Hi). lia.
  Qed.

  Lemma off_ge i : (i <= len)%nat -> 3 * N.of_nat i <= off i.
  Proof.
    induction i as [|i IH]; intros H; [lia|].
    pose proof (lay_step _ _ _ _ lay i ltac:(lia)). specialize (IH ltac:(lia)). lia.
  Qed.

  Lemma len_le_data : (len <= length (b_data b))%nat.
  Proof.
    pose proof (off_ge len ltac:(lia)) as H. rewrite (lay_end _ _ _ _ lay) in H.
    pose proof (lay_data _ _ _ _ lay) as H2. unfold lenN in H2. lia.
  Qed.

  Lemma keys_lt i j : (i < j)%nat -> (j < len)%nat -> cmp c (key_at kvs i) (key_at kvs j) = Lt.
  Proof.
    intros Hij Hj. eapply (sorted_nth c c_ok kvs i j); eauto; apply nth_kv; lia.
  Qed.

  Lemma ris_lt r : (0 < len)%nat -> (r < length ris)%nat -> (nth r ris 0 < len)%nat.
  Proof.
    intros Hl Hr. apply (lay_ris_lt _ _ _ _ lay); [|exact Hr].
    intros E. unfold len in Hl. rewrite E in Hl. cbn in Hl. lia.
  Qed.

  Lemma ris_mono r1 r2 : (r1 <= r2)%nat -> (r2 < length ris)%nat -> (nth r1 ris 0 <= nth r2 ris 0)%nat.
  Proof.
    intros H1 H2. destruct (Nat.eq_dec r1 r2) as [->|]; [lia|].
    pose proof (lay_ris_incr _ _ _ _ lay r1 r2 ltac:(lia) H2). lia.
  Qed.

  (* ---------------- representation invariant ---------------- *)
  Definition slice_full (it : biter) : Prop :=
    bi_blk it = b /\ bi_err it = None /\ bi_riStart it = 0 /\ bi_riLimit it = b_rlen b /\
    bi_offStart it = 0 /\ bi_offRealStart it = 0 /\ bi_offLimit it = b_roff b.

  Definition ri_ok (it : biter) (i : nat) : Prop :=
    exists r, (r < length ris)%nat /\ bi_ri it = N.of_nat r /\ (nth r ris 0 <= i)%nat.

  (* positioned so that the next read decodes entry j (j = len: the end) *)
  Definition pre_core (it : biter) (j : nat) : Prop :=
    slice_full it /\ bi_offset it = off j /\ (j <= len)%nat /\ ri_ok it j /\
    ((j < len)%nat -> In j ris \/ ((0 < j)%nat /\ bi_key it = key_at kvs (j - 1))).

  Definition dir_moving (it : biter) : Prop := bi_dir it = DForward \/ bi_dir it = DBackward.

  Definition rep (it : biter) (p : cpos) : Prop :=
    match p with
    | CSOI => slice_full it /\ bi_dir it = DSOI
    | CEOI => slice_full it /\ bi_dir it = DEOI
    | CAt i => (i < len)%nat /\ slice_full it /\ dir_moving it /\
               bi_key it = key_at kvs i /\ bi_value it = val_at kvs i /\
               bi_offset it = off (S i) /\ bi_prevOffset it = off i /\ ri_ok it i
    end.

  Lemma rep_pre it i : rep it (CAt i) -> pre_core it (S i) /\ dir_moving it.
  Proof.
    intros (Hi & Hs & Hd & Hk & Hv & Ho & Hp & (r & Hr1 & Hr2 & Hr3)).
    split; [|exact Hd]. split; [exact Hs|]. split; [exact Ho|]. split; [lia|]. split.
    - exists r. split; [exact Hr1|]. split; [exact Hr2|]. lia.
    - intros _. right. split; [lia|]. replace (S i - 1)%nat with i by lia. exact Hk.
  Qed.

  (* field-update bookkeeping *)
  Lemma slice_full_with_pos it k v o po r d :
    slice_full it -> slice_full (bi_with_pos it k v o po r d).
  Proof. intros H. exact H. Qed.

  Lemma slice_full_with_dir it d : slice_full it -> slice_full (bi_with_dir it d).
  Proof. intros H. exact H. Qed.

  Lemma has_err_false it : slice_full it -> bi_has_err it = false.
  Proof. intros (_ & E & _). unfold bi_has_err. rewrite E. reflexivity. Qed.

  Lemma bi_skip_nop fuel it : bi_offRealStart it = 0 -> bi_skip fuel it = inl it.
  Proof.
    intros E. destruct fuel; cbn [bi_skip]; rewrite E;
      replace (bi_offset it <? 0) with false by lia; reflexivity.
  Qed.

  (* ---------------- Next ---------------- *)
  (* the part of Next after the SOI reset *)
  Definition next_body (it1 : biter) : bool * biter :=
    match bi_skip (bi_fuel it1) it1 with
    | inr it2 => (false, it2)
    | inl it2 =>
        if bi_offLimit it2 <=? bi_offset it2 then
          let it3 := bi_with_dir it2 DEOI in
          (false, if bi_offset it2 =? bi_offLimit it2 then it3 else bi_serr it3 ErrCorrupt)
        else
          match bi_read (bi_blk it2) (bi_key it2) (bi_offset it2) with
          | RdErr e => (false, bi_serr it2 e)
          | RdEnd => (false, bi_with_dir it2 DEOI)
          | RdOk k v n => (true, bi_with_pos it2 k v (bi_offset it2 + n) (bi_offset it2) (bi_ri it2) DForward)
          end
    end.

  Lemma bi_next_unfold it :
    bi_next it =
    if bdir_eqb (bi_dir it) DEOI || bi_has_err it then (false, it)
    else next_body (if bdir_eqb (bi_dir it) DSOI
                    then bi_with_pos it (bi_key it) (bi_value it) (bi_offStart it) (bi_prevOffset it) (bi_riStart it) (bi_dir it)
                    else it).
  Proof. reflexivity. Qed.

  Lemma next_body_lt it j : pre_core it j -> (j < len)%nat ->
    exists it', next_body it = (true, it') /\ rep it' (CAt j).
  Proof.
    intros (Hs & Ho & Hj & Hri & Hk) Hlt.
    pose proof Hs as (Eb & Ee & E1 & E2 & E3 & E4 & E5).
    unfold next_body. rewrite (bi_skip_nop _ _ E4). rewrite E5, Ho.
    pose proof (off_mono j len Hlt ltac:(lia)) as Hm. rewrite (lay_end _ _ _ _ lay) in Hm.
    replace (b_roff b <=? off j) with false by lia.
    rewrite Eb, (lay_read _ _ _ _ lay j (bi_key it) Hlt (Hk Hlt)).
    eexists. split; [reflexivity|].
    pose proof (lay_step _ _ _ _ lay j Hlt) as Hst.
    split; [exact Hlt|]. split; [exact Hs|]. split; [left; reflexivity|].
    cbn [bi_with_pos bi_key bi_value bi_offset bi_prevOffset bi_ri].
    repeat split; try reflexivity; try lia. exact Hri.
  Qed.

  Lemma next_body_end it : pre_core it len ->
    exists it', next_body it = (false, it') /\ rep it' CEOI.
  Proof.
    intros (Hs & Ho & Hj & Hri & Hk).
    pose proof Hs as (Eb & Ee & E1 & E2 & E3 & E4 & E5).
    unfold next_body. rewrite (bi_skip_nop _ _ E4). rewrite E5, Ho, (lay_end _ _ _ _ lay).
    rewrite N.leb_refl, N.eqb_refl.
    eexists. split; [reflexivity|]. split; [exact Hs | reflexivity].
  Qed.

  Lemma next_body_any it j : pre_core it j ->
    exists ok it', next_body it = (ok, it') /\
      rep it' (if Nat.ltb j len then CAt j else CEOI) /\ ok = Nat.ltb j len.
  Proof.
    intros H. destruct (Nat.ltb_spec j len) as [L|L].
    - destruct (next_body_lt it j H L) as (it' & E & R). exists true, it'. auto.
    - assert (j = len) by (destruct H as (_ & _ & Hj & _); lia). subst j.
      destruct (next_body_end it H) as (it' & E & R). exists false, it'. auto.
  Qed.

  Lemma next_moving it j : pre_core it j -> dir_moving it ->
    exists ok it', bi_next it = (ok, it') /\
      rep it' (if Nat.ltb j len then CAt j else CEOI) /\ ok = Nat.ltb j len.
  Proof.
    intros H Hd. rewrite bi_next_unfold.
    rewrite (has_err_false it) by (apply H).
    replace (bdir_eqb (bi_dir it) DEOI) with false by (destruct Hd as [-> | ->]; reflexivity).
    replace (bdir_eqb (bi_dir it) DSOI) with false by (destruct Hd as [-> | ->]; reflexivity).
    cbn [orb]. apply next_body_any. exact H.
  Qed.

  Lemma ris_0_in : (0 < len)%nat -> In 0%nat ris.
  Proof.
    intros _. rewrite <- (lay_ris_hd _ _ _ _ lay). apply nth_In. apply (lay_ris_len _ _ _ _ lay).
  Qed.

  Lemma pre_core_start it : slice_full it -> bi_offset it = 0 -> bi_ri it = 0 -> pre_core it 0.
  Proof.
    intros Hs Ho Hr. split; [exact Hs|]. split; [rewrite (lay_off0 _ _ _ _ lay); exact Ho|].
    split; [lia|]. split.
    - exists 0%nat. split; [apply (lay_ris_len _ _ _ _ lay)|]. split; [exact Hr|].
      rewrite (lay_ris_hd _ _ _ _ lay). lia.
    - intros H. left. apply ris_0_in. exact H.
  Qed.

  Lemma next_step it p : rep it p ->
    exists ok it', bi_next it = (ok, it') /\ rep it' (c_next kvs p) /\
                   ok = match c_next kvs p with CAt _ => true | _ => false end.
  Proof using lay.
    clear srt c_ok.
    intros R. destruct p as [|i|].
    - (* from SOI = First *)
      destruct R as [Hs Hd]. rewrite bi_next_unfold, (has_err_false it Hs), Hd. cbn [bdir_eqb orb].
      pose proof Hs as (Eb & Ee & E1 & E2 & E3 & E4 & E5).
      set (it1 := bi_with_pos it (bi_key it) (bi_value it) (bi_offStart it) (bi_prevOffset it) (bi_riStart it) DSOI).
      assert (P : pre_core it1 0) by (apply pre_core_start; [exact Hs | exact E3 | exact E1]).
      destruct (next_body_any it1 0 P) as (ok & it' & E & R' & Eok).
      exists ok, it'. split; [exact E|].
      unfold c_next, c_first.
      destruct kvs as [|kv0 l]; cbn [length Nat.ltb Nat.leb] in R', Eok; auto.
    - (* from an entry *)
      destruct (rep_pre it i R) as [P Hd].
      destruct (next_moving it (S i) P Hd) as (ok & it' & E & R' & Eok).
      exists ok, it'. split; [exact E|]. cbn [c_next].
      destruct (Nat.ltb (S i) len); auto.
    - (* at EOI *)
      destruct R as [Hs Hd]. exists false, it. rewrite bi_next_unfold, Hd. cbn [bdir_eqb orb c_next].
      split; [reflexivity|]. split; [split; assumption | reflexivity].
  Qed.

  (* ---------------- Seek ---------------- *)
  Lemma seek_loop_spec key : forall fuel it j,
    pre_core it j -> dir_moving it -> (len - j < fuel)%nat ->
    (forall j', (j' < j)%nat -> cmp c (key_at kvs j') key = Lt) ->
    exists ok it', bi_seek_loop fuel c key it = (ok, it') /\ rep it' (c_seek c kvs key) /\
                   ok = match c_seek c kvs key with CAt _ => true | _ => false end.
  Proof.
    induction fuel as [|fu IH]; intros it j P Hd Hf Hlt; [lia|].
    cbn [bi_seek_loop].
    destruct (next_moving it j P Hd) as (ok & it' & E & R' & Eok). rewrite E.
    destruct (Nat.ltb_spec j len) as [L|L]; subst ok.
    - pose proof R' as (_ & _ & _ & Ek & _). rewrite Ek.
      destruct (cmp c (key_at kvs j) key) eqn:Ec.
      + exists true, it'. split; [reflexivity|].
        assert (Es : c_seek c kvs key = CAt j).
        { unfold c_seek. rewrite (first_ge_some_intro c kvs key 0 j (key_at kvs j) (val_at kvs j)).
          - reflexivity.
          - apply nth_kv; exact L.
          - congruence.
          - intros j' k' v' Hj' Hn. rewrite nth_kv in Hn by lia. injection Hn as <- _. apply Hlt. exact Hj'. }
        rewrite Es. auto.
      + destruct (rep_pre it' j R') as [P' Hd'].
        apply (IH it' (S j) P' Hd'); [lia|].
        intros j' Hj'. destruct (Nat.eq_dec j' j) as [->|]; [exact Ec | apply Hlt; lia].
      + exists true, it'. split; [reflexivity|].
        assert (Es : c_seek c kvs key = CAt j).
        { unfold c_seek. rewrite (first_ge_some_intro c kvs key 0 j (key_at kvs j) (val_at kvs j)).
          - reflexivity.
          - apply nth_kv; exact L.
          - congruence.
          - intros j' k' v' Hj' Hn. rewrite nth_kv in Hn by lia. injection Hn as <- _. apply Hlt. exact Hj'. }
        rewrite Es. auto.
    - exists false, it'. split; [reflexivity|].
      assert (Es : c_seek c kvs key = CEOI).
      { unfold c_seek. rewrite (first_ge_none_intro c kvs key 0); [reflexivity|].
        intros j' k' v' Hn.
        assert (Hj' : (j' < len)%nat) by (apply nth_error_Some; congruence).
        rewrite nth_kv in Hn by exact Hj'. injection Hn as <- _. apply Hlt.
        destruct P as (_ & _ & Hj & _). lia. }
      rewrite Es. auto.
  Qed.

  (* the closure of block.seek over the restart points *)
  Definition rk_gt (key : bytes) (x : N) : bool :=
    match restart_key b x with Some k => is_gt (cmp c k key) | None => false end.

  Lemma restart_key_at r : (0 < len)%nat -> (r < length ris)%nat ->
    restart_key b (N.of_nat r) = Some (key_at kvs (nth r ris 0%nat)).
  Proof.
    intros Hl Hr. destruct (lay_rkey _ _ _ _ lay r Hr) as (k & E & Hk). rewrite E, Hk; [reflexivity|].
    intros E0. unfold len in Hl. rewrite E0 in Hl. cbn in Hl. lia.
  Qed.

  Lemma block_seek_spec key :
    exists r, (r < length ris)%nat /\
      block_seek c b 0 (b_rlen b) key = Some (N.of_nat r, off (nth r ris 0%nat)) /\
      (forall j', (j' < nth r ris 0)%nat -> cmp c (key_at kvs j') key = Lt).
  Proof.
    unfold block_seek. rewrite N.sub_0_r, (lay_rlen _ _ _ _ lay).
    pose proof (lay_ris_len _ _ _ _ lay) as Hne.
    destruct (sort_search_mono (lenN ris)
                (fun i => option_map (fun k => is_gt (cmp c k key)) (restart_key b (0 + i)))
                (rk_gt key)) as (s & Es & Hs & Hlo & Hhi).
    - intros h Hh. rewrite N.add_0_l. unfold rk_gt.
      destruct (lay_rkey _ _ _ _ lay (N.to_nat h)) as (k & E & _); [unfold lenN in Hh; lia|].
      rewrite N2Nat.id in E. rewrite E. reflexivity.
    - intros h1 h2 H12 H2 P1.
      destruct (Nat.eq_dec len 0) as [Z|NZ].
      + assert (length ris = 1%nat).
        { apply (lay_ris_empty _ _ _ _ lay). destruct kvs; [reflexivity | cbn in Z; unfold len in Z; cbn in Z; lia]. }
        unfold lenN in H2. assert (h1 = h2) by lia. subst h2. exact P1.
      + unfold rk_gt in *.
        assert (Hr2 : (N.to_nat h2 < length ris)%nat) by (unfold lenN in H2; lia).
        assert (Hr1 : (N.to_nat h1 < length ris)%nat) by lia.
        pose proof (restart_key_at (N.to_nat h1) ltac:(lia) Hr1) as E1.
        pose proof (restart_key_at (N.to_nat h2) ltac:(lia) Hr2) as E2.
        rewrite N2Nat.id in E1, E2. rewrite E1 in P1. rewrite E2.
        destruct (N.eq_dec h1 h2) as [->|Hne12]; [exact P1|].
        assert (L : cmp c (key_at kvs (nth (N.to_nat h1) ris 0%nat)) (key_at kvs (nth (N.to_nat h2) ris 0%nat)) = Lt).
        { apply keys_lt; [apply (lay_ris_incr _ _ _ _ lay); lia | apply ris_lt; lia]. }
        destruct (cmp c (key_at kvs (nth (N.to_nat h1) ris 0%nat)) key) eqn:G; try discriminate.
        apply (cmp_gt_lt c c_ok) in G.
        assert (cmp c key (key_at kvs (nth (N.to_nat h2) ris 0%nat)) = Lt) by (eapply (cmp_trans c c_ok); eauto).
        apply (cmp_lt_gt c c_ok) in H. rewrite H. reflexivity.
    - rewrite Es.
      set (r := if s =? 0 then 0%nat else N.to_nat (s - 1)).
      assert (Hr : (r < length ris)%nat).
      { unfold r. destruct (N.eqb_spec s 0); [exact Hne | unfold lenN in Hs; lia]. }
      exists r. split; [exact Hr|].
      assert (Ei : (if s =? 0 then 0 else s + 0 - 1) = N.of_nat r).
      { unfold r. destruct (N.eqb_spec s 0); [reflexivity | lia]. }
      rewrite Ei, (lay_roff _ _ _ _ lay r Hr). split; [reflexivity|].
      intros j' Hj'.
      destruct (N.eqb_spec s 0) as [Z|NZ].
      + unfold r in Hj'. rewrite (lay_ris_hd _ _ _ _ lay) in Hj'. lia.
      + assert (Hl : (0 < len)%nat).
        { destruct (Nat.eq_dec len 0) as [Z|]; [|lia].
          assert (length ris = 1%nat).
          { apply (lay_ris_empty _ _ _ _ lay). destruct kvs; [reflexivity | unfold len in Z; cbn in Z; lia]. }
          assert (r = 0%nat) by lia. rewrite H0, (lay_ris_hd _ _ _ _ lay) in Hj'. lia. }
        assert (Pf : rk_gt key (N.of_nat r) = false) by (apply Hlo; unfold r; lia).
        unfold rk_gt in Pf. rewrite (restart_key_at r Hl Hr) in Pf.
        pose proof (keys_lt j' (nth r ris 0%nat) Hj' (ris_lt r Hl Hr)) as L.
        destruct (cmp c (key_at kvs (nth r ris 0%nat)) key) eqn:G; try discriminate.
        * apply (cmp_eq c c_ok) in G. rewrite <- G. exact L.
        * eapply (cmp_trans c c_ok); eauto.
  Qed.

  Lemma seek_step it p key : rep it p ->
    exists ok it', bi_seek c it key = (ok, it') /\ rep it' (c_seek c kvs key) /\
                   ok = match c_seek c kvs key with CAt _ => true | _ => false end.
  Proof.
    intros R.
    assert (Hs : slice_full it) by (destruct p; [apply R | apply R | apply R]).
    pose proof Hs as (Eb & Ee & E1 & E2 & E3 & E4 & E5).
    unfold bi_seek. rewrite (has_err_false it Hs), Eb, E1, E2.
    destruct (block_seek_spec key) as (r & Hr & Eseek & Hlt). rewrite Eseek.
    rewrite E3, N.max_r by lia.
    set (d := if bdir_eqb (bi_dir it) DSOI || bdir_eqb (bi_dir it) DEOI then DForward else bi_dir it).
    set (it1 := bi_with_pos it (bi_key it) (bi_value it) (off (nth r ris 0%nat)) (bi_prevOffset it) (N.of_nat r) d).
    assert (Hj : (nth r ris 0 <= len)%nat).
    { destruct (Nat.eq_dec len 0) as [Z|NZ].
      - assert (length ris = 1%nat).
        { apply (lay_ris_empty _ _ _ _ lay). destruct kvs; [reflexivity | unfold len in Z; cbn in Z; lia]. }
        assert (r = 0%nat) by lia. subst r. rewrite (lay_ris_hd _ _ _ _ lay). lia.
      - pose proof (ris_lt r ltac:(lia) Hr). lia. }
    assert (P : pre_core it1 (nth r ris 0%nat)).
    { split; [exact Hs|]. split; [reflexivity|]. split; [exact Hj|]. split.
      - exists r. split; [exact Hr|]. split; [reflexivity | lia].
      - intros _. left. apply nth_In. exact Hr. }
    assert (Hd : dir_moving it1).
    { unfold dir_moving, it1. cbn [bi_with_pos bi_dir]. unfold d. destruct (bi_dir it); cbn; auto. }
    replace (bi_fuel it) with (bi_fuel it1) by reflexivity.
    apply (seek_loop_spec key (bi_fuel it1) it1 (nth r ris 0%nat) P Hd); [|exact Hlt].
    unfold bi_fuel, it1. cbn [bi_with_pos bi_blk]. rewrite Eb. pose proof len_le_data. lia.
  Qed.

  (* ---------------- Prev ---------------- *)
  Lemma prev_scan_spec i : (0 < i)%nat -> (i <= len)%nat -> forall fuel j key value,
    (j < i)%nat -> (i - j <= fuel)%nat ->
    (In j ris \/ ((0 < j)%nat /\ key = key_at kvs (j - 1))) ->
    prev_scan fuel b 0 (off i) (off j) key value
    = ScOk (key_at kvs (i - 1)) (val_at kvs (i - 1)) (off (i - 1)) (off i).
  Proof.
    intros Hi0 Hi. induction fuel as [|fu IH]; intros j key value Hj Hf Hk; [lia|].
    cbn [prev_scan]. rewrite (lay_read _ _ _ _ lay j key ltac:(lia) Hk).
    pose proof (lay_step _ _ _ _ lay j ltac:(lia)) as Hst.
    replace (off j + (off (S j) - off j)) with (off (S j)) by lia.
    replace (0 <=? off j) with true by lia.
    destruct (Nat.eq_dec (S j) i) as [E|NE].
    - subst i. rewrite N.leb_refl, N.eqb_refl. replace (S j - 1)%nat with j by lia. reflexivity.
    - pose proof (off_mono (S j) i ltac:(lia) Hi) as Hm.
      replace (off i <=? off (S j)) with false by lia.
      apply IH; [lia | lia |]. right. split; [lia|]. replace (S j - 1)%nat with j by lia. reflexivity.
  Qed.

  (* restartIndex: the last restart point at or before entry i, searched from a restart known
     to be at or before i *)
  Lemma restart_index_spec r0 i : (r0 < length ris)%nat -> (nth r0 ris 0 <= i)%nat -> (i < len)%nat ->
    exists r, restart_index b (N.of_nat r0) (b_rlen b) (off i) = Some (N.of_nat r) /\
              (r < length ris)%nat /\ (nth r ris 0 <= i)%nat.
  Proof.
    intros Hr0 H0 Hi. unfold restart_index. rewrite (lay_rlen _ _ _ _ lay).
    destruct (sort_search_mono (lenN ris - N.of_nat r0)
                (fun x => option_map (fun o => off i <? o) (restart_offset b (N.of_nat r0 + x)))
                (fun x => off i <? off (nth (r0 + N.to_nat x) ris 0%nat))) as (s & Es & Hs & Hlo & Hhi).
    - intros h Hh. replace (N.of_nat r0 + h) with (N.of_nat (r0 + N.to_nat h)) by lia.
      rewrite (lay_roff _ _ _ _ lay) by (unfold lenN in Hh; lia). reflexivity.
    - intros h1 h2 H12 H2 P1.
      assert (Hr2 : (r0 + N.to_nat h2 < length ris)%nat) by (unfold lenN in H2; lia).
      pose proof (ris_mono (r0 + N.to_nat h1) (r0 + N.to_nat h2) ltac:(lia) Hr2) as Hm.
      pose proof (ris_lt (r0 + N.to_nat h2) ltac:(lia) Hr2) as Hl2.
      pose proof (off_mono_le _ _ Hm ltac:(lia)). lia.
    - rewrite Es.
      assert (S0 : s <> 0).
      { intros ->. assert (Hp : (off i <? off (nth (r0 + N.to_nat 0) ris 0%nat)) = true) by (apply Hhi; unfold lenN; lia).
        replace (r0 + N.to_nat 0)%nat with r0 in Hp by lia.
        pose proof (off_mono_le _ _ H0 ltac:(lia)). lia. }
      replace (s + N.of_nat r0 =? 0) with false by lia.
      set (r := (r0 + N.to_nat (s - 1))%nat).
      exists r. split; [f_equal; unfold r; lia|].
      assert (Hr : (r < length ris)%nat) by (unfold r; unfold lenN in Hs; lia).
      split; [exact Hr|].
      assert (Hp : (off i <? off (nth (r0 + N.to_nat (s - 1)) ris 0%nat)) = false) by (apply Hlo; lia).
      fold r in Hp. apply off_le_inv; [pose proof (ris_lt r ltac:(lia) Hr); lia | lia | lia].
  Qed.

  (* the restart range actually scanned: some restart point strictly before entry i *)
  Lemma prev_finish it i ri0 : (0 < i)%nat -> (i <= len)%nat -> slice_full it ->
    (ri0 < length ris)%nat -> (nth ri0 ris 0 <= i)%nat ->
    (nth ri0 ris 0%nat = i -> (0 < ri0)%nat) ->
    exists it',
      match restart_offset (bi_blk it) (N.of_nat ri0) with
      | None => (false, bi_serr it ErrPanic)
      | Some off0 =>
          let adj :=
            if off0 =? off i then
              (if N.of_nat ri0 =? 0 then inl tt
               else inr (option_map (fun o => (N.of_nat ri0 - 1, o)) (restart_offset (bi_blk it) (N.of_nat ri0 - 1))))
            else inr (Some (N.of_nat ri0, off0)) in
          match adj with
          | inl _ => (false, bi_with_dir it DSOI)
          | inr None => (false, bi_serr it ErrPanic)
          | inr (Some (ri', o)) =>
              match prev_scan (bi_fuel it) (bi_blk it) (bi_offRealStart it) (off i) o [] [] with
              | ScErr e => (false, bi_serr (bi_with_dir it DBackward) e)
              | ScOk k v st o' => (true, bi_with_pos it k v o' st ri' DBackward)
              end
          end
      end = (true, it') /\ rep it' (CAt (i - 1)).
  Proof.
    intros Hi0 Hi Hs Hr Hle Hadj.
    pose proof Hs as (Eb & Ee & E1 & E2 & E3 & E4 & E5).
    rewrite Eb, E4, (lay_roff _ _ _ _ lay ri0 Hr).
    assert (Hfuel : forall j, (i - j <= bi_fuel it)%nat).
    { intros j. unfold bi_fuel. rewrite Eb. pose proof len_le_data. lia. }
    assert (Hl : (0 < len)%nat) by lia.
    destruct (N.eqb_spec (off (nth ri0 ris 0%nat)) (off i)) as [Eo|No].
    - apply off_inj in Eo; [| pose proof (ris_lt ri0 Hl Hr); lia | lia].
      specialize (Hadj Eo). replace (N.of_nat ri0 =? 0) with false by lia.
      replace (N.of_nat ri0 - 1) with (N.of_nat (ri0 - 1)) by lia.
      rewrite (lay_roff _ _ _ _ lay (ri0 - 1)%nat) by lia. cbn [option_map]. cbv beta iota zeta.
      pose proof (lay_ris_incr _ _ _ _ lay (ri0 - 1)%nat ri0 ltac:(lia) Hr) as Hinc.
      rewrite (prev_scan_spec i Hi0 Hi (bi_fuel it) (nth (ri0 - 1) ris 0%nat) [] []); try lia.
      + eexists. split; [reflexivity|].
        split; [lia|]. split; [exact Hs|]. split; [right; reflexivity|].
        cbn [bi_with_pos bi_key bi_value bi_offset bi_prevOffset bi_ri].
        replace (S (i - 1)) with i by lia. repeat split.
        exists (ri0 - 1)%nat. repeat split; lia.
      + apply Hfuel.
      + left. apply nth_In. lia.
    - assert (Hlt : (nth ri0 ris 0 < i)%nat).
      { destruct (Nat.eq_dec (nth ri0 ris 0%nat) i) as [E|]; [rewrite E in No; congruence | lia]. }
      cbv beta iota zeta.
      rewrite (prev_scan_spec i Hi0 Hi (bi_fuel it) (nth ri0 ris 0%nat) [] []); try lia.
      + eexists. split; [reflexivity|].
        split; [lia|]. split; [exact Hs|]. split; [right; reflexivity|].
        cbn [bi_with_pos bi_key bi_value bi_offset bi_prevOffset bi_ri].
        replace (S (i - 1)) with i by lia. repeat split.
        exists ri0. repeat split; lia.
      + apply Hfuel.
      + left. apply nth_In. exact Hr.
  Qed.

  Lemma prev_step it p : rep it p ->
    exists ok it', bi_prev it = (ok, it') /\ rep it' (c_prev kvs p) /\
                   ok = match c_prev kvs p with CAt _ => true | _ => false end.
  Proof using lay.
    clear srt c_ok.
    intros R. destruct p as [|i|].
    - (* at SOI *)
      destruct R as [Hs Hd]. exists false, it. unfold bi_prev. rewrite Hd. cbn [bdir_eqb orb c_prev].
      split; [reflexivity|]. split; [split; assumption | reflexivity].
    - (* from an entry *)
      destruct R as (Hi & Hs & Hd & Hk & Hv & Ho & Hp & (r0 & Hr0 & Er0 & Hle0)).
      pose proof Hs as (Eb & Ee & E1 & E2 & E3 & E4 & E5).
      unfold bi_prev. rewrite (has_err_false it Hs).
      replace (bdir_eqb (bi_dir it) DSOI) with false by (destruct Hd as [-> | ->]; reflexivity).
      cbn [orb].
      assert (Estart :
        match bi_dir it with
        | DEOI =>
            if bi_offLimit it =? bi_offRealStart it then inl tt
            else if bi_riLimit it =? 0 then inr None
            else inr (Some (bi_offLimit it, bi_riLimit it - 1))
        | _ =>
            if bi_prevOffset it =? bi_offRealStart it then inl tt
            else inr (option_map (fun r => (bi_prevOffset it, r))
                        (restart_index (bi_blk it) (bi_ri it) (bi_riLimit it) (bi_prevOffset it)))
        end =
        if bi_prevOffset it =? bi_offRealStart it then inl tt
            else inr (option_map (fun r => (bi_prevOffset it, r))
                        (restart_index (bi_blk it) (bi_ri it) (bi_riLimit it) (bi_prevOffset it)))).
      { destruct Hd as [-> | ->]; reflexivity. }
      rewrite Estart. clear Estart. rewrite Hp, E4.
      destruct i as [|i'].
      + rewrite (lay_off0 _ _ _ _ lay). cbn [N.eqb c_prev].
        exists false, (bi_with_dir it DSOI). split; [reflexivity|]. split; [split; [exact Hs | reflexivity] | reflexivity].
      + set (i := S i') in *.
        pose proof (off_mono 0 i ltac:(lia) ltac:(lia)) as Hpos. rewrite (lay_off0 _ _ _ _ lay) in Hpos.
        replace (off i =? 0) with false by lia.
        rewrite Eb, Er0, E2.
        destruct (restart_index_spec r0 i Hr0 Hle0 Hi) as (r & Eri & Hr & Hle). rewrite Eri. cbn [option_map].
        destruct (prev_finish it i r ltac:(lia) ltac:(lia) Hs Hr Hle) as (it' & E & R').
        * intros En. destruct r as [|r']; [|lia]. rewrite (lay_ris_hd _ _ _ _ lay) in En. lia.
        * rewrite Eb, E4 in E. exists true, it'. split; [exact E|]. cbn [c_prev].
          replace (i - 1)%nat with i' in R' by lia. auto.
    - (* from EOI = Last *)
      destruct R as [Hs Hd].
      pose proof Hs as (Eb & Ee & E1 & E2 & E3 & E4 & E5).
      unfold bi_prev. rewrite (has_err_false it Hs), Hd. cbn [bdir_eqb orb].
      rewrite E5, E4, E2, <- (lay_end _ _ _ _ lay).
      cbn [c_prev]. unfold c_last.
      destruct (Nat.eq_dec len 0) as [Z|NZ].
      + rewrite Z, (lay_off0 _ _ _ _ lay). cbn [N.eqb].
        exists false, (bi_with_dir it DSOI). split; [reflexivity|].
        destruct kvs; [|unfold len in Z; cbn in Z; lia]. split; [split; [exact Hs | reflexivity] | reflexivity].
      + pose proof (off_mono 0 len ltac:(lia) ltac:(lia)) as Hpos. rewrite (lay_off0 _ _ _ _ lay) in Hpos.
        replace (off len =? 0) with false by lia.
        pose proof (lay_ris_len _ _ _ _ lay) as Hne. rewrite (lay_rlen _ _ _ _ lay).
        replace (lenN ris =? 0) with false by (unfold lenN; lia).
        replace (lenN ris - 1) with (N.of_nat (length ris - 1)) by (unfold lenN; lia).
        destruct (prev_finish it len (length ris - 1)%nat ltac:(lia) ltac:(lia) Hs) as (it' & E & R').
        * lia.
        * pose proof (ris_lt (length ris - 1) ltac:(lia) ltac:(lia)). lia.
        * intros En. pose proof (ris_lt (length ris - 1) ltac:(lia) ltac:(lia)). lia.
        * rewrite E4 in E. exists true, it'. split; [exact E|].
          destruct kvs as [|kv0 l]; [cbn in NZ; lia|]. auto.
  Qed.

  (* ---------------- First / Last / the step function ---------------- *)
  Lemma rep_slice_full it p : rep it p -> slice_full it.
  Proof. destruct p; intros R; apply R. Qed.

  Lemma step_refines it p o : rep it p ->
    exists ok it', bi_step c it o = (ok, it') /\ rep it' (c_step c kvs p o) /\
                   ok = match c_step c kvs p o with CAt _ => true | _ => false end.
  Proof.
    intros R. pose proof (rep_slice_full it p R) as Hs.
    destruct o as [| |k| |]; cbn [bi_step c_step].
    - unfold bi_first. rewrite (has_err_false it Hs).
      apply (next_step (bi_with_dir it DSOI) CSOI). split; [exact Hs | reflexivity].
    - unfold bi_last. rewrite (has_err_false it Hs).
      apply (prev_step (bi_with_dir it DEOI) CEOI). split; [exact Hs | reflexivity].
    - apply (seek_step it p k R).
    - apply (next_step it p R).
    - apply (prev_step it p R).
  Qed.

  Theorem run_refines ops : forall it p, rep it p -> bi_run c it ops = c_run c kvs p ops.
  Proof.
    induction ops as [|o r IH]; intros it p R; cbn [bi_run c_run]; [reflexivity|].
    destruct (step_refines it p o R) as (ok & it' & E & R' & Eok). rewrite E.
    rewrite (IH it' _ R'). f_equal.
    destruct (c_step c kvs p o) as [|i|]; subst ok; cbn [c_get]; try reflexivity.
    destruct R' as (Hi & _ & _ & Hk & Hv & _). rewrite Hk, Hv. symmetry. apply nth_kv. exact Hi.
  Qed.

  Lemma rep_unsliced : rep (bi_unsliced b) CSOI.
  Proof. repeat split. Qed.
End Iter.

(* ------------------------------------------------------------ decoding all entries *)
Section Collect.
  Variable kvs : list (bytes * bytes).
  Variable b : block.
  Variable off : nat -> N.
  Variable ris : list nat.
  Hypothesis lay : block_layout kvs b off ris.

  Definition rest_of (p : cpos) : list (bytes * bytes) :=
    match p with CSOI => kvs | CAt i => skipn (S i) kvs | CEOI => [] end.

  Lemma skipn_nth_cons {A} (l : list A) i d : (i < length l)%nat -> skipn i l = nth i l d :: skipn (S i) l.
  Proof.
    revert i. induction l as [|x l IH]; intros i H; cbn [length] in H; [lia|].
    destruct i as [|i]; [reflexivity|]. cbn [skipn nth]. apply IH. lia.
  Qed.

  Lemma collect_spec : forall fuel it p acc,
    rep kvs b off ris it p -> p <> CEOI -> (length (rest_of p) < fuel)%nat ->
    bi_collect fuel it acc = Ok (rev acc ++ rest_of p).
  Proof.
    induction fuel as [|fu IH]; intros it p acc R Hp Hf; [lia|].
    cbn [bi_collect].
    destruct (next_step kvs b off ris lay it p R) as (ok & it' & E & R' & Eok). rewrite E.
    assert (Hrest : match c_next kvs p with
                    | CAt j => (j < length kvs)%nat /\ rest_of p = nth j kvs ([], []) :: rest_of (CAt j)
                    | _ => rest_of p = []
                    end).
    { destruct p as [|i|]; [| |congruence]; cbn [c_next rest_of].
      - unfold c_first. destruct kvs as [|kv0 l]; [reflexivity|]. cbn [length]. split; [lia | reflexivity].
      - destruct (Nat.ltb_spec (S i) (length kvs)) as [L|L].
        + split; [exact L|]. apply skipn_nth_cons. exact L.
        + apply skipn_all2. lia. }
    destruct (c_next kvs p) as [|j|] eqn:En; subst ok.
    - destruct p as [|i|]; cbn [c_next] in En; [unfold c_first in En; destruct kvs; discriminate | destruct (Nat.ltb (S i) (length kvs)); discriminate | congruence].
    - destruct Hrest as [Hj Hrest].
      rewrite (IH it' (CAt j) _ R'); [|discriminate|].
      + rewrite Hrest. cbn [rev]. rewrite <- app_assoc. cbn [app]. do 3 f_equal.
        destruct R' as (_ & _ & _ & Hk & Hv & _). rewrite Hk, Hv. unfold key_at, val_at.
        symmetry. apply surjective_pairing.
      + rewrite Hrest in Hf. cbn [length] in Hf. lia.
    - destruct R' as [(_ & Ee & _) _]. rewrite Ee, Hrest, app_nil_r. reflexivity.
  Qed.

  Lemma block_entries_spec : block_entries b = Ok kvs.
  Proof.
    unfold block_entries.
    rewrite (collect_spec _ (bi_unsliced b) CSOI []); [reflexivity | apply rep_unsliced | discriminate |].
    cbn [rest_of]. unfold bi_fuel. cbn [bi_unsliced bi_blk].
    pose proof (len_le_data kvs b off ris lay). lia.
  Qed.
End Collect.

(* ------------------------------------------------------------ Stage A theorems *)
Theorem block_roundtrip ri kvs :
  1 <= ri -> lenN (block_build ri kvs) < 2 ^ 32 -> block_decode (block_build ri kvs) = Ok kvs.
Proof.
  intros Hri Hsz. unfold block_decode. rewrite (read_block_build ri kvs Hri Hsz).
  apply (block_entries_spec kvs _ _ _ (build_layout ri kvs Hri Hsz)).
Qed.

Theorem block_iter_refines_cursor c ri kvs :
  comparer_ok c -> 1 <= ri -> lenN (block_build ri kvs) < 2 ^ 32 -> sorted c kvs ->
  exists b, read_block (block_build ri kvs) = Ok b /\
    forall ops, bi_run c (new_block_iter c b None false) ops = c_run c kvs CSOI ops.
Proof.
  intros Hc Hri Hsz Hs. exists (built ri kvs). split; [apply read_block_build; assumption|].
  intros ops. cbn [new_block_iter].
  apply (run_refines c Hc kvs _ _ _ (build_layout ri kvs Hri Hsz) Hs). apply rep_unsliced.
Qed.

Theorem block_seek_first_ge c ri kvs k :
  comparer_ok c -> 1 <= ri -> lenN (block_build ri kvs) < 2 ^ 32 -> sorted c kvs ->
  exists b, read_block (block_build ri kvs) = Ok b /\
    let '(ok, it) := bi_seek c (new_block_iter c b None false) k in
    match first_ge c k kvs 0 with
    | Some i => ok = true /\ nth_error kvs i = Some (bi_key it, bi_value it)
    | None => ok = false
    end.
Proof.
  intros Hc Hri Hsz Hs. exists (built ri kvs). split; [apply read_block_build; assumption|].
  cbn [new_block_iter].
  pose proof (build_layout ri kvs Hri Hsz) as lay.
  destruct (seek_step c Hc kvs _ _ _ lay Hs (bi_unsliced (built ri kvs)) CSOI k (rep_unsliced _ _ _ _))
    as (ok & it' & E & R & Eok).
  rewrite E. unfold c_seek in R, Eok. destruct (first_ge c k kvs 0) as [i|]; [|exact Eok].
  split; [exact Eok|]. destruct R as (Hi & _ & _ & Hk & Hv & _). rewrite Hk, Hv.
  apply (nth_kv kvs). exact Hi.
Qed.

(* ------------------------------------------------------------ no error / no panic on written blocks *)
Fixpoint bi_run_final (c : comparer) (it : biter) (ops : list cop) : biter :=
  match ops with
  | [] => it
  | o :: r => bi_run_final c (snd (bi_step c it o)) r
  end.

Theorem block_no_panic_wf c ri kvs :
  comparer_ok c -> 1 <= ri -> lenN (block_build ri kvs) < 2 ^ 32 -> sorted c kvs ->
  exists b, read_block (block_build ri kvs) = Ok b /\
    forall ops, bi_err (bi_run_final c (new_block_iter c b None false) ops) = None.
Proof.
  intros Hc Hri Hsz Hs. exists (built ri kvs). split; [apply read_block_build; assumption|].
  pose proof (build_layout ri kvs Hri Hsz) as lay. cbn [new_block_iter].
  assert (G : forall ops it p, rep kvs (built ri kvs) (b_off ri kvs) (b_ris ri kvs) it p ->
              bi_err (bi_run_final c it ops) = None).
  { induction ops as [|o r IH]; intros it p R; cbn [bi_run_final].
    - apply rep_slice_full in R. apply R.
    - destruct (step_refines c Hc kvs _ _ _ lay Hs it p o R) as (ok & it' & E & R' & _). rewrite E. cbn [snd].
      apply (IH it' _ R'). }
  intros ops. apply (G ops _ CSOI). apply rep_unsliced.
Qed.
