(* Codec/TableDamageStrictProofs.v — the STRICT table iterator over a reader some of whose block
   fetches fail with Corrupt: every call either behaves exactly as on the intact reader (same
   result, same iterator state) or returns false with the iterator's error set, after which every
   call returns false.  So a run on the damaged reader observes a prefix of the observations of
   the intact reader followed by "false" only — never a pair the intact table would not yield. *)
From GL Require Import Base.Bytes Base.Varint Base.Order Base.Cursor Codec.Block Codec.Table Codec.TableDamageProofs.
From Coq Require Import Lia.

Local Open Scope N_scope.

Section Strict.
  Variable c : comparer.
  Variable rd rd' : treader.
  Hypothesis deg : degraded rd rd'.

  Definition halted (r : bool * titer) : Prop := fst r = false /\ ti_has_err (snd r) = true.

  (* the data iterator of an unreadable block, in an iterator that has not failed yet *)
  Definition poisoned (t : titer) : Prop :=
    ti_data t = Some (DEmpty ErrCorrupt) /\ ti_strict t = true /\ ti_err t = None.

  Lemma index_get_deg t :
    index_get c rd' t = index_get c rd t \/ index_get c rd' t = Some (DEmpty ErrCorrupt).
  Proof.
    destruct deg as (_ & _ & _ & Hf). unfold index_get.
    destruct (negb (bi_valid (ti_index t))); [left; reflexivity|].
    destruct (decode_bh (bi_value (ti_index t))) as [h n| |]; [|left; reflexivity|left; reflexivity].
    destruct (Hf h) as [E|E]; rewrite E; [left; reflexivity | right; reflexivity].
  Qed.

  Lemma set_data_deg t : ti_strict t = true -> ti_err t = None ->
    ti_set_data c rd' t = ti_set_data c rd t \/ poisoned (ti_set_data c rd' t).
  Proof.
    intros Hs He. unfold ti_set_data. destruct (index_get_deg t) as [E|E]; rewrite E.
    - left. reflexivity.
    - right. repeat split; assumption.
  Qed.

  Lemma data_err_poisoned t e0 : ti_strict t = true ->
    exists t2, ti_data_err (ti_with t (ti_index t) (Some (DEmpty ErrCorrupt)) e0) (DEmpty ErrCorrupt) = Some t2 /\
               ti_has_err t2 = true.
  Proof.
    intros Hs. unfold ti_data_err. cbn [d_err ti_with ti_strict]. rewrite Hs. cbn [orb].
    eexists. split; reflexivity.
  Qed.

  Lemma enter_poisoned pos self t : poisoned t -> halted (ti_enter pos self t).
  Proof.
    intros (Ed & Hs & He). unfold ti_enter. rewrite Ed. cbn [d_lift].
    destruct (data_err_poisoned t (ti_err t) Hs) as (t2 & E & H2). rewrite E. split; [reflexivity | exact H2].
  Qed.

  Lemma next_f_poisoned fu t : poisoned t -> halted (ti_next_f c rd' fu t).
  Proof.
    intros (Ed & Hs & He). destruct fu as [|fu]; cbn [ti_next_f].
    - split; reflexivity.
    - unfold ti_has_err. rewrite He, Ed. cbn [d_lift].
      destruct (data_err_poisoned t None Hs) as (t2 & E & H2). rewrite E. split; [reflexivity | exact H2].
  Qed.

  (* "same as the intact reader, or halted" *)
  Definition sim (r' r : bool * titer) : Prop := r' = r \/ halted r'.

  Lemma sim_refl r : sim r r.
  Proof. left. reflexivity. Qed.

  Definition good (t : titer) : Prop := ti_strict t = true.

  Lemma advance_sim self' self t : good t -> ti_err t = None ->
    (forall t0, good t0 -> sim (self' t0) (self t0)) -> (forall t0, poisoned t0 -> halted (self' t0)) ->
    sim (ti_advance c rd' self' t) (ti_advance c rd self t).
  Proof.
    intros Hg He Hsim Hp. unfold ti_advance.
    destruct (bi_next (ti_index t)) as [ok ix]. destruct (negb ok); [apply sim_refl|].
    set (t1 := ti_with t ix (ti_data t) (ti_err t)).
    destruct (set_data_deg t1 Hg He) as [E|P].
    - rewrite E. apply Hsim. exact Hg.
    - right. apply Hp. exact P.
  Qed.

  Lemma next_f_sim : forall fu t, good t -> sim (ti_next_f c rd' fu t) (ti_next_f c rd fu t).
  Proof.
    induction fu as [|fu IH]; intros t Hg; cbn [ti_next_f]; [apply sim_refl|].
    destruct (ti_has_err t) eqn:Eh; [apply sim_refl|].
    assert (He : ti_err t = None) by (unfold ti_has_err in Eh; destruct (ti_err t); [discriminate | reflexivity]).
    destruct (ti_data t) as [d|].
    - destruct (d_lift bi_next d) as [ok d']. destruct ok; [apply sim_refl|].
      destruct (ti_data_err (ti_with t (ti_index t) (Some d') (ti_err t)) d'); [apply sim_refl|].
      apply advance_sim; [exact Hg | exact He | exact IH | apply next_f_poisoned].
    - apply advance_sim; [exact Hg | exact He | exact IH | apply next_f_poisoned].
  Qed.

  Lemma enter_sim pos self' self t' t : good t -> ti_err t = None ->
    (t' = t \/ poisoned t') ->
    (forall t0, good t0 -> sim (self' t0) (self t0)) ->
    sim (ti_enter pos self' t') (ti_enter pos self t).
  Proof.
    intros Hg He [-> | P] Hsim; [|right; apply enter_poisoned; exact P].
    unfold ti_enter. destruct (ti_data t) as [d|]; [|apply sim_refl].
    destruct (d_lift pos d) as [ok2 d']. destruct ok2; [apply sim_refl|].
    destruct (ti_data_err (ti_with t (ti_index t) (Some d') (ti_err t)) d'); [apply sim_refl|].
    apply Hsim. exact Hg.
  Qed.

  Lemma retreat_sim self' self t : good t -> ti_err t = None ->
    (forall t0, good t0 -> sim (self' t0) (self t0)) ->
    sim (ti_retreat c rd' self' t) (ti_retreat c rd self t).
  Proof.
    intros Hg He Hsim. unfold ti_retreat.
    destruct (bi_prev (ti_index t)) as [ok ix]. destruct (negb ok); [apply sim_refl|].
    set (t1 := ti_with t ix (ti_data t) (ti_err t)).
    apply (enter_sim bi_last self' self (ti_set_data c rd' t1) (ti_set_data c rd t1)); [exact Hg | exact He | | exact Hsim].
    apply set_data_deg; assumption.
  Qed.

  Lemma prev_f_sim : forall fu t, good t -> sim (ti_prev_f c rd' fu t) (ti_prev_f c rd fu t).
  Proof.
    induction fu as [|fu IH]; intros t Hg; cbn [ti_prev_f]; [apply sim_refl|].
    destruct (ti_has_err t) eqn:Eh; [apply sim_refl|].
    assert (He : ti_err t = None) by (unfold ti_has_err in Eh; destruct (ti_err t); [discriminate | reflexivity]).
    destruct (ti_data t) as [d|].
    - destruct (d_lift bi_prev d) as [ok d']. destruct ok; [apply sim_refl|].
      destruct (ti_data_err (ti_with t (ti_index t) (Some d') (ti_err t)) d'); [apply sim_refl|].
      apply retreat_sim; [exact Hg | exact He | exact IH].
    - apply retreat_sim; [exact Hg | exact He | exact IH].
  Qed.

  Lemma step_sim t o : good t -> sim (ti_step c rd' t o) (ti_step c rd t o).
  Proof.
    intros Hg. destruct o as [| |k| |]; cbn [ti_step].
    - unfold ti_first. destruct (ti_has_err t) eqn:Eh; [apply sim_refl|].
      assert (He : ti_err t = None) by (unfold ti_has_err in Eh; destruct (ti_err t); [discriminate | reflexivity]).
      destruct (bi_first (ti_index t)) as [ok ix]. destruct (negb ok); [apply sim_refl|].
      set (t1 := ti_with t ix (ti_data t) (ti_err t)).
      destruct (set_data_deg t1 Hg He) as [E|P].
      + rewrite E. unfold ti_next. apply next_f_sim. exact Hg.
      + right. apply next_f_poisoned. exact P.
    - unfold ti_last. destruct (ti_has_err t) eqn:Eh; [apply sim_refl|].
      assert (He : ti_err t = None) by (unfold ti_has_err in Eh; destruct (ti_err t); [discriminate | reflexivity]).
      destruct (bi_last (ti_index t)) as [ok ix]. destruct (negb ok); [apply sim_refl|].
      set (t1 := ti_with t ix (ti_data t) (ti_err t)).
      apply (enter_sim bi_last (ti_prev c rd') (ti_prev c rd) (ti_set_data c rd' t1) (ti_set_data c rd t1)); [exact Hg | exact He | |].
      + apply set_data_deg; assumption.
      + intros t0 H0. unfold ti_prev. apply prev_f_sim. exact H0.
    - unfold ti_seek. destruct (ti_has_err t) eqn:Eh; [apply sim_refl|].
      assert (He : ti_err t = None) by (unfold ti_has_err in Eh; destruct (ti_err t); [discriminate | reflexivity]).
      destruct (bi_seek c (ti_index t) k) as [ok ix]. destruct (negb ok); [apply sim_refl|].
      set (t1 := ti_with t ix (ti_data t) (ti_err t)).
      apply (enter_sim _ (ti_next c rd') (ti_next c rd) (ti_set_data c rd' t1) (ti_set_data c rd t1)); [exact Hg | exact He | |].
      + apply set_data_deg; assumption.
      + intros t0 H0. unfold ti_next. apply next_f_sim. exact H0.
    - unfold ti_next. apply next_f_sim. exact Hg.
    - unfold ti_prev. apply prev_f_sim. exact Hg.
  Qed.

  (* a failed iterator answers false to everything *)
  Lemma step_halted rdx t o : ti_has_err t = true -> ti_step c rdx t o = (false, t).
  Proof.
    intros H. destruct o as [| |k| |]; cbn [ti_step].
    - unfold ti_first. rewrite H. reflexivity.
    - unfold ti_last. rewrite H. reflexivity.
    - unfold ti_seek. rewrite H. reflexivity.
    - unfold ti_next, ti_fuel. cbn [ti_next_f]. rewrite H. reflexivity.
    - unfold ti_prev, ti_fuel. cbn [ti_prev_f]. rewrite H. reflexivity.
  Qed.

  Lemma run_halted rdx ops : forall t, ti_has_err t = true ->
    fst (ti_run c rdx t ops) = map (fun _ => None) ops.
  Proof.
    induction ops as [|o r IH]; intros t H; cbn [ti_run map]; [reflexivity|].
    rewrite (step_halted rdx t o H). specialize (IH t H). destruct (ti_run c rdx t r) as [l tf]. cbn [fst] in *.
    rewrite IH. reflexivity.
  Qed.

  (* every method keeps the strict flag *)
  Ltac split_matches :=
    repeat match goal with
           | |- context [match ?x with _ => _ end] => destruct x
           | |- context [if ?x then _ else _] => destruct x
           end.

  Lemma data_err_good t d t2 : ti_data_err t d = Some t2 -> ti_strict t2 = ti_strict t.
  Proof.
    unfold ti_data_err. destruct (d_err d); [|discriminate].
    destruct (ti_strict t || negb match b with ErrCorrupt => true | _ => false end); [|discriminate].
    intros H. injection H as <-. reflexivity.
  Qed.

  Lemma index_err_good t : ti_strict (ti_index_err t) = ti_strict t.
  Proof. unfold ti_index_err. destruct (bi_err (ti_index t)); reflexivity. Qed.

  Lemma advance_good rdx self t :
    (forall t0, ti_strict (snd (self t0)) = ti_strict t0) ->
    ti_strict (snd (ti_advance c rdx self t)) = ti_strict t.
  Proof.
    intros Hs. unfold ti_advance. destruct (bi_next (ti_index t)) as [ok ix]. destruct (negb ok); cbn [snd].
    - rewrite index_err_good. reflexivity.
    - rewrite Hs. reflexivity.
  Qed.

  Lemma next_f_good rdx : forall fu t, ti_strict (snd (ti_next_f c rdx fu t)) = ti_strict t.
  Proof.
    induction fu as [|fu IH]; intros t; cbn [ti_next_f]; [reflexivity|].
    destruct (ti_has_err t); [reflexivity|].
    destruct (ti_data t) as [d|].
    - destruct (d_lift bi_next d) as [ok d']. destruct ok; [reflexivity|].
      destruct (ti_data_err (ti_with t (ti_index t) (Some d') (ti_err t)) d') eqn:E.
      + cbn [snd]. rewrite (data_err_good _ _ _ E). reflexivity.
      + rewrite advance_good by exact IH. reflexivity.
    - rewrite advance_good by exact IH. reflexivity.
  Qed.

  Lemma enter_good pos self t :
    (forall t0, ti_strict (snd (self t0)) = ti_strict t0) ->
    ti_strict (snd (ti_enter pos self t)) = ti_strict t.
  Proof.
    intros Hs. unfold ti_enter. destruct (ti_data t) as [d|]; [|reflexivity].
    destruct (d_lift pos d) as [ok2 d']. destruct ok2; [reflexivity|].
    destruct (ti_data_err (ti_with t (ti_index t) (Some d') (ti_err t)) d') eqn:E.
    - cbn [snd]. rewrite (data_err_good _ _ _ E). reflexivity.
    - rewrite Hs. reflexivity.
  Qed.

  Lemma retreat_good rdx self t :
    (forall t0, ti_strict (snd (self t0)) = ti_strict t0) ->
    ti_strict (snd (ti_retreat c rdx self t)) = ti_strict t.
  Proof.
    intros Hs. unfold ti_retreat. destruct (bi_prev (ti_index t)) as [ok ix]. destruct (negb ok); cbn [snd].
    - rewrite index_err_good. reflexivity.
    - rewrite enter_good by exact Hs. reflexivity.
  Qed.

  Lemma prev_f_good rdx : forall fu t, ti_strict (snd (ti_prev_f c rdx fu t)) = ti_strict t.
  Proof.
    induction fu as [|fu IH]; intros t; cbn [ti_prev_f]; [reflexivity|].
    destruct (ti_has_err t); [reflexivity|].
    destruct (ti_data t) as [d|].
    - destruct (d_lift bi_prev d) as [ok d']. destruct ok; [reflexivity|].
      destruct (ti_data_err (ti_with t (ti_index t) (Some d') (ti_err t)) d') eqn:E.
      + cbn [snd]. rewrite (data_err_good _ _ _ E). reflexivity.
      + rewrite retreat_good by exact IH. reflexivity.
    - rewrite retreat_good by exact IH. reflexivity.
  Qed.

  Lemma step_good rdx t o : ti_strict (snd (ti_step c rdx t o)) = ti_strict t.
  Proof.
    destruct o as [| |k| |]; cbn [ti_step].
    - unfold ti_first. destruct (ti_has_err t); [reflexivity|].
      destruct (bi_first (ti_index t)) as [ok ix]. destruct (negb ok); cbn [snd].
      + cbn [ti_clear_data ti_with ti_strict]. rewrite index_err_good. reflexivity.
      + unfold ti_next. rewrite next_f_good. reflexivity.
    - unfold ti_last. destruct (ti_has_err t); [reflexivity|].
      destruct (bi_last (ti_index t)) as [ok ix]. destruct (negb ok); cbn [snd].
      + cbn [ti_clear_data ti_with ti_strict]. rewrite index_err_good. reflexivity.
      + rewrite enter_good; [reflexivity|]. intros t0. unfold ti_prev. apply prev_f_good.
    - unfold ti_seek. destruct (ti_has_err t); [reflexivity|].
      destruct (bi_seek c (ti_index t) k) as [ok ix]. destruct (negb ok); cbn [snd].
      + cbn [ti_clear_data ti_with ti_strict]. rewrite index_err_good. reflexivity.
      + rewrite enter_good; [reflexivity|]. intros t0. unfold ti_next. apply next_f_good.
    - unfold ti_next. apply next_f_good.
    - unfold ti_prev. apply prev_f_good.
  Qed.

  (* runs: the damaged reader's observations are a prefix of the intact reader's, then only false *)
  Theorem strict_run_degraded ops : forall t, good t ->
    exists n, firstn n (fst (ti_run c rd' t ops)) = firstn n (fst (ti_run c rd t ops)) /\
              skipn n (fst (ti_run c rd' t ops)) = map (fun _ => None) (skipn n ops).
  Proof.
    induction ops as [|o r IH]; intros t Hg.
    - exists 0%nat. split; reflexivity.
    - cbn [ti_run]. destruct (step_sim t o Hg) as [E | [Hf Hh]].
      + rewrite E. destruct (ti_step c rd t o) as [ok t1] eqn:Es.
        assert (Hg1 : good t1).
        { unfold good. pose proof (step_good rd t o) as P. rewrite Es in P. cbn [snd] in P. rewrite P. exact Hg. }
        destruct (IH t1 Hg1) as (n & H1 & H2).
        destruct (ti_run c rd' t1 r) as [l' tf']. destruct (ti_run c rd t1 r) as [l tf]. cbn [fst] in *.
        exists (S n). cbn [firstn skipn]. split; [f_equal; exact H1 | exact H2].
      + destruct (ti_step c rd' t o) as [ok t1]. cbn [fst snd] in Hf, Hh. subst ok.
        pose proof (run_halted rd' r t1 Hh) as Hr.
        destruct (ti_run c rd' t1 r) as [l' tf']. cbn [fst] in *.
        exists 0%nat. cbn [firstn skipn map]. split; [reflexivity | rewrite Hr; reflexivity].
  Qed.
End Strict.
