(* Store/FileStorage.v — executable model of leveldb/storage/file_storage.go (+ file_storage_unix.go).
   Definitions only, no proofs (FileStorageProofs.v, FileStorageCrashProofs.v).

   Modelled, branch by branch:
     fsGenName / fsGenOldName / fsParseName   [gen_name] [gen_old_name] [parse_name]: the two fmt.Sscanf calls
         ("%d.%s", then "MANIFEST-%d%s" with n == 1) are modelled as fmt implements them (Go 1.23 fmt/scan.go):
         white space (the fmt table, incl. the multi-byte runes U+0085 U+00A0 U+1680 U+2000..200A U+2028 U+2029
         U+202F U+205F U+3000) is skipped before %d and %s, a newline met while skipping is an error, %d takes an
         optional sign and a maximal run of decimal digits of any length and fails outside int64, %s takes a
         maximal run of non-space runes, trailing input is ignored.
     setMeta      [set_meta_ops]: the sequence of file-system operations in the order of the code.
     GetMeta      [get_meta]: the choice among pending CURRENT.<n>, CURRENT, CURRENT.bak and the repair
         operations (none when read-only).
     OpenFile / Lock / Unlock / Close and the ErrClosed / errReadOnly / ErrInvalidFile guards of every method
         [fstep] (the in-process part) with the flock on LOCK as [oslock].
     doLog's rotation LOG -> LOG.old when the size seen at OpenFile exceeds 1 MiB.
   A directory is a finite map name -> content ([view], association list, first binding counts).  Durability
   ([fsys]): names bind inodes; an inode has a volatile and a durable content; directory operations since the
   last sync of the directory are pending.  A crash keeps ANY SUBSET of the pending directory operations
   (each of them atomic; a rename persists as "the new name binds THAT inode, the old name is gone") and, per inode, its last fsync'ed content or — when it was
   truncated or created since — any prefix of its volatile content (an append-only file keeps its synced
   content plus any prefix of what was appended).

   Not modelled: I/O errors (every system call succeeds), permissions, sub-directories, the TEXT of the LOG
   file (time stamps), concurrent callers (fileStorage.mu serialises them), the finalizer. *)
From Coq Require Import List NArith ZArith Bool.
From GL Require Import Base.Bytes.
Import ListNotations.
Open Scope N_scope.

(* ================================================================ 1. file descriptors and names *)

Inductive ftype := TManifest | TJournal | TTable | TTemp.

(* storage.FileType values *)
Definition ftype_code (t : ftype) : N :=
  match t with TManifest => 1 | TJournal => 2 | TTable => 4 | TTemp => 8 end.

Definition ftype_of_code (c : N) : option ftype :=
  if c =? 1 then Some TManifest else if c =? 2 then Some TJournal
  else if c =? 4 then Some TTable else if c =? 8 then Some TTemp else None.

Definition ftype_eqb (a b : ftype) : bool := ftype_code a =? ftype_code b.

(* storage.FileDesc; Num is an int64 *)
Record fdesc := FD { fd_type : ftype; fd_num : Z }.

Definition fd_eqb (a b : fdesc) : bool := ftype_eqb (fd_type a) (fd_type b) && (fd_num a =? fd_num b)%Z.

Definition two63 : N := 9223372036854775808.
Definition int64_ok (z : Z) : bool := (- Z.of_N two63 <=? z)%Z && (z <? Z.of_N two63)%Z.

(* storage.FileDescOk (the type of an [fdesc] is always one of the four) *)
Definition fd_ok (fd : fdesc) : bool := (0 <=? fd_num fd)%Z.

(* ---- decimal rendering (fmt %d, %06d) *)
Fixpoint dec_aux (fuel : nat) (n : N) (acc : bytes) : bytes :=
  match fuel with
  | O => acc
  | S f => let acc' := (48 + n mod 10) :: acc in
           if n / 10 =? 0 then acc' else dec_aux f (n / 10) acc'
  end.

Definition dec (n : N) : bytes := dec_aux (S (N.to_nat (N.log2 n))) n [].

Definition pad0 (w : nat) (l : bytes) : bytes := repeat 48 (w - length l) ++ l.

(* fmt.Sprintf("%d", z) *)
Definition fmt_d (z : Z) : bytes :=
  if (z <? 0)%Z then 45 :: dec (Z.to_N (- z)) else dec (Z.to_N z).

(* fmt.Sprintf("%06d", z): the width counts the sign *)
Definition fmt_d06 (z : Z) : bytes :=
  if (z <? 0)%Z then 45 :: pad0 5 (dec (Z.to_N (- z))) else pad0 6 (dec (Z.to_N z)).

(* ---- the strings of file_storage.go *)
Definition s_MANIFEST : bytes := [77;65;78;73;70;69;83;84;45].            (* "MANIFEST-" *)
Definition s_CURRENT : bytes := [67;85;82;82;69;78;84].                    (* "CURRENT" *)
Definition s_CURRENT_dot : bytes := [67;85;82;82;69;78;84;46].             (* "CURRENT." *)
Definition s_CURRENT_bak : bytes := [67;85;82;82;69;78;84;46;98;97;107].   (* "CURRENT.bak" *)
Definition s_LOCK : bytes := [76;79;67;75].
Definition s_LOG : bytes := [76;79;71].
Definition s_LOG_old : bytes := [76;79;71;46;111;108;100].                 (* "LOG.old" *)
Definition s_log : bytes := [108;111;103].
Definition s_ldb : bytes := [108;100;98].
Definition s_sst : bytes := [115;115;116].
Definition s_tmp : bytes := [116;109;112].

(* fsGenName *)
Definition gen_name (fd : fdesc) : bytes :=
  match fd_type fd with
  | TManifest => s_MANIFEST ++ fmt_d06 (fd_num fd)
  | TJournal => fmt_d06 (fd_num fd) ++ 46 :: s_log
  | TTable => fmt_d06 (fd_num fd) ++ 46 :: s_ldb
  | TTemp => fmt_d06 (fd_num fd) ++ 46 :: s_tmp
  end.

(* fsHasOldName / fsGenOldName *)
Definition has_old_name (fd : fdesc) : bool := ftype_eqb (fd_type fd) TTable.
Definition gen_old_name (fd : fdesc) : bytes :=
  match fd_type fd with
  | TTable => fmt_d06 (fd_num fd) ++ 46 :: s_sst
  | _ => gen_name fd
  end.

(* ---- fmt scanning *)

(* width in bytes of the white-space rune (other than newline) that starts l; 0: l does not start with one.
   fmt.isSpace: U+0009..000D, U+0020, U+0085, U+00A0, U+1680, U+2000..200A, U+2028, U+2029, U+202F, U+205F,
   U+3000; the scanner decodes UTF-8 (an invalid byte is U+FFFD, width 1, not a space); the lead bytes below
   are never continuation bytes, so looking at every byte position finds exactly the runes the decoder finds. *)
Definition space_width (l : bytes) : nat :=
  let a := nth 0 l 256 in let b := nth 1 l 256 in let c := nth 2 l 256 in
  if (a =? 9) || (a =? 11) || (a =? 12) || (a =? 13) || (a =? 32) then 1%nat
  else if (a =? 194) && ((b =? 133) || (b =? 160)) then 2%nat
  else if (a =? 225) && (b =? 154) && (c =? 128) then 3%nat
  else if (a =? 226) && (b =? 128) &&
          (((128 <=? c) && (c <=? 138)) || (c =? 168) || (c =? 169) || (c =? 175)) then 3%nat
  else if (a =? 226) && (b =? 129) && (c =? 159) then 3%nat
  else if (a =? 227) && (b =? 128) && (c =? 128) then 3%nat
  else 0%nat.

(* ss.SkipSpace with nlIsSpace = false (Sscanf): None = "unexpected newline" *)
Fixpoint skip_space (fuel : nat) (l : bytes) : option bytes :=
  match fuel with
  | O => Some l
  | S f =>
      match l with
      | [] => Some []
      | b :: _ =>
          if b =? 10 then None
          else match space_width l with
               | O => Some l
               | w => skip_space f (skipn w l)
               end
      end
  end.

(* ss.token(_, notSpace): the maximal run of non-space runes (newline is a space here), and the rest *)
Fixpoint take_word (l : bytes) : bytes * bytes :=
  match l with
  | [] => ([], [])
  | b :: l' =>
      if (b =? 10) || negb (Nat.eqb (space_width l) 0) then ([], l)
      else let (w, r) := take_word l' in (b :: w, r)
  end.

(* the verb %s: SkipSpace, notEOF, token.  None = error (newline while skipping, or end of input) *)
Definition scan_word (l : bytes) : option (bytes * bytes) :=
  match skip_space (length l) l with
  | None => None
  | Some [] => None
  | Some r => Some (take_word r)
  end.

Definition is_digit (b : N) : bool := (48 <=? b) && (b <=? 57).

(* value of the maximal run of decimal digits, and the rest *)
Fixpoint take_digits (l : bytes) (acc : N) : N * bytes :=
  match l with
  | [] => (acc, [])
  | b :: l' => if is_digit b then take_digits l' (10 * acc + (b - 48)) else (acc, l)
  end.

(* sign and magnitude -> int64, as strconv.ParseInt(_, 10, 64) bounds it *)
Definition mk_int64 (neg : bool) (v : N) : option Z :=
  if neg then (if v <=? two63 then Some (- Z.of_N v)%Z else None)
  else (if v <? two63 then Some (Z.of_N v) else None).

(* sign? digits+ at the head of l *)
Definition signed_digits (l : bytes) : option (Z * bytes) :=
  match l with
  | [] => None
  | b :: r =>
      let l2 := if (b =? 45) || (b =? 43) then r else l in
      match l2 with
      | [] => None
      | d :: _ =>
          if is_digit d then
            let (v, rest) := take_digits l2 0 in
            match mk_int64 (b =? 45) v with
            | Some z => Some (z, rest)
            | None => None
            end
          else None
      end
  end.

(* the verb %d into an int64: SkipSpace, notEOF, sign, digits, strconv.ParseInt *)
Definition scan_int (l : bytes) : option (Z * bytes) :=
  match skip_space (length l) l with
  | None => None
  | Some r => signed_digits r
  end.

Fixpoint strip_prefix (p l : bytes) : option bytes :=
  match p, l with
  | [], _ => Some l
  | a :: p', b :: l' => if a =? b then strip_prefix p' l' else None
  | _ :: _, [] => None
  end.

Definition is_prefix (p l : bytes) : bool :=
  match strip_prefix p l with Some _ => true | None => false end.

Definition type_of_tail (w : bytes) : option ftype :=
  if beq w s_log then Some TJournal
  else if beq w s_ldb || beq w s_sst then Some TTable
  else if beq w s_tmp then Some TTemp
  else None.

(* the second Sscanf: "MANIFEST-%d%s" must scan exactly one item *)
Definition manifest_scan (l : bytes) : option fdesc :=
  match strip_prefix s_MANIFEST l with
  | None => None
  | Some r =>
      match scan_int r with
      | None => None
      | Some (z, rest) =>
          match scan_word rest with
          | None => Some (FD TManifest z)
          | Some _ => None
          end
      end
  end.

(* fsParseName: None = ok false *)
Definition parse_name (l : bytes) : option fdesc :=
  match scan_int l with
  | Some (z, r) =>
      match r with
      | b :: r' =>
          if b =? 46 then
            match scan_word r' with
            | Some (w, _) =>
                match type_of_tail w with
                | Some t => Some (FD t z)
                | None => None          (* err == nil, unknown tail: return without trying the manifest form *)
                end
            | None => manifest_scan l
            end
          else manifest_scan l
      | [] => manifest_scan l
      end
  | None => manifest_scan l
  end.

(* strconv.ParseInt(s, 10, 64) on a whole string: sign? digits+ and nothing else *)
Definition parse_int64 (l : bytes) : option Z :=
  match signed_digits l with
  | Some (z, []) => Some z
  | _ => None
  end.

(* ================================================================ 2. directory views; GetMeta's choice *)

Definition view := list (bytes * bytes).

Fixpoint lookup {A} (v : list (bytes * A)) (n : bytes) : option A :=
  match v with
  | [] => None
  | (m, x) :: v' => if beq m n then Some x else lookup v' n
  end.

Definition has {A} (v : list (bytes * A)) (n : bytes) : bool :=
  match lookup v n with Some _ => true | None => false end.

(* replace the binding of n in place, or append a new one *)
Fixpoint set_at {A} (v : list (bytes * A)) (n : bytes) (x : A) : list (bytes * A) :=
  match v with
  | [] => [(n, x)]
  | (m, y) :: v' => if beq m n then (m, x) :: v' else (m, y) :: set_at v' n x
  end.

Fixpoint remove_at {A} (v : list (bytes * A)) (n : bytes) : list (bytes * A) :=
  match v with
  | [] => []
  | (m, y) :: v' => if beq m n then remove_at v' n else (m, y) :: remove_at v' n
  end.

Definition rename_at {A} (v : list (bytes * A)) (a b : bytes) : list (bytes * A) :=
  match lookup v a with
  | Some x => set_at (remove_at v a) b x
  | None => v
  end.

(* the content written by setMeta *)
Definition meta_content (fd : fdesc) : bytes := gen_name fd ++ [10].

(* tryCurrent's validation of a file content: non-empty, ends with '\n', the rest parses *)
Definition check_content (b : bytes) : option fdesc :=
  match rev b with
  | c :: r => if c =? 10 then parse_name (rev r) else None
  | [] => None
  end.

Inductive tres :=
| TOk (fd : fdesc)
| TNoFile          (* the CURRENT-family file does not exist: os.ErrNotExist, nothing logged *)
| TNoTarget        (* valid content, the file it names does not exist: os.ErrNotExist, logged *)
| TCorrupt.        (* ErrCorrupted, logged *)

Definition try_current (v : view) (n : bytes) : tres :=
  match lookup v n with
  | None => TNoFile
  | Some b =>
      match check_content b with
      | None => TCorrupt
      | Some fd => if has v (gen_name fd) then TOk fd else TNoTarget
      end
  end.

(* tryCurrents: the first name that validates; [cerr]: a corruption error was met; [lg]: something was logged *)
Record tcur := TC { tc_cur : option (bytes * fdesc); tc_cerr : bool; tc_logged : bool }.

Fixpoint try_currents (v : view) (names : list bytes) (cerr lg : bool) : tcur :=
  match names with
  | [] => TC None cerr lg
  | n :: r =>
      match try_current v n with
      | TOk fd => TC (Some (n, fd)) cerr lg
      | TNoFile => try_currents v r cerr lg
      | TNoTarget => try_currents v r cerr true
      | TCorrupt => try_currents v r true true
      end
  end.

(* numbers of the 'pending rename' files: names "CURRENT.<s>", s accepted by strconv.ParseInt, not "CURRENT.bak" *)
Fixpoint pend_nums (names : list bytes) : list Z :=
  match names with
  | [] => []
  | n :: r =>
      if is_prefix s_CURRENT_dot n && negb (beq n s_CURRENT_bak) then
        match parse_int64 (skipn 8 n) with
        | Some z => z :: pend_nums r
        | None => pend_nums r
        end
      else pend_nums r
  end.

Fixpoint insert_desc (z : Z) (l : list Z) : list Z :=
  match l with
  | [] => [z]
  | y :: l' => if (y <=? z)%Z then z :: l else y :: insert_desc z l'
  end.

Fixpoint sort_desc (l : list Z) : list Z :=
  match l with
  | [] => []
  | z :: l' => insert_desc z (sort_desc l')
  end.

Definition pend_name (z : Z) : bytes := s_CURRENT_dot ++ fmt_d z.

(* pendNames: regenerated from the numbers with %d (a file "CURRENT.007" yields the name "CURRENT.7") *)
Definition pend_names (v : view) : list bytes := map pend_name (sort_desc (pend_nums (map fst v))).

Inductive gerr := GNotExist | GCorrupted.

Record gchoice := GC {
  g_chosen : option (bytes * fdesc);   (* curCur: the file that won and the descriptor it holds *)
  g_err : gerr;                        (* the error returned when nothing was found *)
  g_pend : list bytes;                 (* pendNames *)
  g_logged : bool }.                   (* tryCurrent logged something (read-write storages only) *)

Definition get_meta_choice (v : view) : gchoice :=
  let pn := pend_names v in
  let p := try_currents v pn false false in
  let c := try_currents v [s_CURRENT; s_CURRENT_bak] false false in
  let chosen :=
    match tc_cur p, tc_cur c with
    | Some (pname, pfd), Some (cname, cfd) =>
        if (fd_num pfd >? fd_num cfd)%Z then Some (pname, pfd) else Some (cname, cfd)
    | Some x, None => Some x
    | None, y => y
    end in
  GC chosen
     (if tc_cerr p then GCorrupted else if tc_cerr c then GCorrupted else GNotExist)
     pn (tc_logged p || tc_logged c).

(* ================================================================ 3. file-system operations *)

Inductive fsop :=
| OCreate (n : bytes)             (* open(n, O_WRONLY|O_CREATE|O_TRUNC): a new empty file, or truncation *)
| OWrite (n : bytes) (d : bytes)  (* one write(2) appending d through the descriptor just opened *)
| OFsync (n : bytes)              (* fsync of that descriptor *)
| ORename (a b : bytes)           (* rename(a, b), replacing b *)
| OUnlink (n : bytes)             (* unlink(n) *)
| OSyncDir.                       (* open + fsync of the directory *)

(* volatile effect on a view *)
Definition vapply (v : view) (o : fsop) : view :=
  match o with
  | OCreate n => set_at v n []
  | OWrite n d => match lookup v n with Some c => set_at v n (c ++ d) | None => v end
  | OFsync _ => v
  | ORename a b => rename_at v a b
  | OUnlink n => remove_at v n
  | OSyncDir => v
  end.

Definition vapply_all (v : view) (ops : list fsop) : view := fold_left vapply ops v.

(* writeFileSynced(name, data): open O_CREATE|O_TRUNC, write, fsync, close *)
Definition write_file_synced (n d : bytes) : list fsop := [OCreate n; OWrite n d; OFsync n].

(* setMeta(fd) on a directory seen as v.  Since the repair "fix: setMeta backs up CURRENT only when it is usable"
   the old CURRENT is copied to CURRENT.bak only if it validates (well-formed, names an existing file): an
   unusable CURRENT no longer replaces what may be the only usable pointer. *)
Definition set_meta_ops (v : view) (fd : fdesc) : list fsop :=
  let content := meta_content fd in
  let p := pend_name (fd_num fd) in
  let switch := write_file_synced p content ++ [ORename p s_CURRENT; OSyncDir] in
  match lookup v s_CURRENT with
  | Some b =>
      if beq b content then []                                   (* content not changed, do nothing *)
      else match try_current v s_CURRENT with
           | TOk _ => write_file_synced s_CURRENT_bak b ++ switch   (* back up the old, usable CURRENT *)
           | _ => switch
           end
  | None => switch
  end.

(* setMeta before that repair: whatever CURRENT holds is copied over CURRENT.bak *)
Definition set_meta_ops_old (v : view) (fd : fdesc) : list fsop :=
  let content := meta_content fd in
  let p := pend_name (fd_num fd) in
  let switch := write_file_synced p content ++ [ORename p s_CURRENT; OSyncDir] in
  match lookup v s_CURRENT with
  | Some b => if beq b content then [] else write_file_synced s_CURRENT_bak b ++ switch
  | None => switch
  end.

Inductive gresult := GOk (fd : fdesc) | GErr (e : gerr).

(* GetMeta: result and the file-system operations of the repair (none when the storage is read-only) *)
Definition get_meta_ops (ro : bool) (v : view) : gresult * list fsop :=
  let g := get_meta_choice v in
  match g_chosen g with
  | Some (name, fd) =>
      (GOk fd,
       if negb ro && (negb (beq name s_CURRENT) || negb (match g_pend g with [] => true | _ => false end))
       then set_meta_ops v fd ++ map OUnlink (g_pend g)
       else [])
  | None => (GErr (g_err g), [])
  end.

Definition get_meta_result (v : view) : gresult := fst (get_meta_ops true v).

(* the repair operations before the setMeta repair (for the refuted statement) *)
Definition get_meta_ops_old (v : view) : list fsop :=
  let g := get_meta_choice v in
  match g_chosen g with
  | Some (name, fd) =>
      if negb (beq name s_CURRENT) || negb (match g_pend g with [] => true | _ => false end)
      then set_meta_ops_old v fd ++ map OUnlink (g_pend g) else []
  | None => []
  end.

(* does the repair log a failed os.Remove (a pending name that no longer exists when it is removed)? *)
Fixpoint unlink_fails (v : view) (names : list bytes) : bool :=
  match names with
  | [] => false
  | n :: r => negb (has v n) || unlink_fails (remove_at v n) r
  end.

(* LOG rotation.  The content of LOG / LOG.old is opaque; the harness writes one byte: 66 ("B") for a file
   larger than logSizeThreshold, 83 ("S") otherwise.  doLog rotates before writing when the size seen at
   OpenFile (plus what this storage logged, which stays far below the threshold) exceeds the threshold. *)
Definition log_big (v : view) : bool :=
  match lookup v s_LOG with Some [66] => true | _ => false end.

Definition rotate_log (v : view) : view := set_at (rename_at v s_LOG s_LOG_old) s_LOG [83].

(* GetMeta on an open storage: result and the directory afterwards *)
Definition get_meta (ro : bool) (v : view) : gresult * view :=
  let g := get_meta_choice v in
  let '(r, ops) := get_meta_ops ro v in
  let logged :=
    negb ro && (g_logged g ||
                match ops with
                | [] => false
                | _ => unlink_fails (vapply_all v (set_meta_ops v (match g_chosen g with Some (_, fd) => fd | None => FD TManifest 0 end))) (g_pend g)
                end) in
  let v1 := if logged && log_big v then rotate_log v else v in
  (r, vapply_all v1 ops).

(* OpenFile on an existing directory: the LOCK file is created when missing (also read-only: newFileLock
   retries with O_CREATE), LOG is created when missing unless read-only *)
Definition open_file_view (ro : bool) (v : view) : view :=
  let v1 := if has v s_LOCK then v else set_at v s_LOCK [] in
  if ro then v1 else if has v1 s_LOG then v1 else set_at v1 s_LOG [83].

(* ================================================================ 4. durability and crashes *)

Inductive dop :=
| DLink (n : bytes) (i : N)      (* a new name for the new inode i *)
| DRename (a b : bytes) (i : N)  (* the name a is removed and b names the inode i that a named (atomically) *)
| DUnlink (n : bytes).

Definition dapply (e : list (bytes * N)) (o : dop) : list (bytes * N) :=
  match o with
  | DLink n i => set_at e n i
  | DRename a b i => set_at (remove_at e a) b i
  | DUnlink n => remove_at e n
  end.

Record inode := IN { vdata : bytes; ddata : bytes; itrunc : bool }.

Record fsys := FS {
  ents : list (bytes * N);      (* the directory the running process sees *)
  dents : list (bytes * N);     (* the directory as of its last sync *)
  pdir : list dop;              (* directory operations since, oldest first *)
  inos : list (N * inode);
  next : N }.

Fixpoint get_ino (t : list (N * inode)) (i : N) : inode :=
  match t with
  | [] => IN [] [] false
  | (j, x) :: t' => if j =? i then x else get_ino t' i
  end.

Fixpoint set_ino (t : list (N * inode)) (i : N) (x : inode) : list (N * inode) :=
  match t with
  | [] => [(i, x)]
  | (j, y) :: t' => if j =? i then (j, x) :: t' else (j, y) :: set_ino t' i x
  end.

Definition fapply (s : fsys) (o : fsop) : fsys :=
  match o with
  | OCreate n =>
      match lookup (ents s) n with
      | Some i => let x := get_ino (inos s) i in
                  FS (ents s) (dents s) (pdir s) (set_ino (inos s) i (IN [] (ddata x) true)) (next s)
      | None => FS (set_at (ents s) n (next s)) (dents s) (pdir s ++ [DLink n (next s)])
                   (set_ino (inos s) (next s) (IN [] [] false)) (next s + 1)
      end
  | OWrite n d =>
      match lookup (ents s) n with
      | Some i => let x := get_ino (inos s) i in
                  FS (ents s) (dents s) (pdir s) (set_ino (inos s) i (IN (vdata x ++ d) (ddata x) (itrunc x))) (next s)
      | None => s
      end
  | OFsync n =>
      match lookup (ents s) n with
      | Some i => let x := get_ino (inos s) i in
                  FS (ents s) (dents s) (pdir s) (set_ino (inos s) i (IN (vdata x) (vdata x) false)) (next s)
      | None => s
      end
  | ORename a b =>
      match lookup (ents s) a with
      | Some i => FS (rename_at (ents s) a b) (dents s) (pdir s ++ [DRename a b i]) (inos s) (next s)
      | None => s
      end
  | OUnlink n =>
      match lookup (ents s) n with
      | Some _ => FS (remove_at (ents s) n) (dents s) (pdir s ++ [DUnlink n]) (inos s) (next s)
      | None => s
      end
  | OSyncDir => FS (ents s) (ents s) [] (inos s) (next s)
  end.

Definition fapply_all (s : fsys) (ops : list fsop) : fsys := fold_left fapply ops s.

Definition view_of (t : list (N * inode)) (e : list (bytes * N)) (f : inode -> bytes) : view :=
  map (fun ni => (fst ni, f (get_ino t (snd ni)))) e.

(* what the running process sees *)
Definition vol_view (s : fsys) : view := view_of (inos s) (ents s) vdata.

(* the directory after a crash: pending directory operations kept where the mask says so (missing bits: lost) *)
Fixpoint image_ents (mask : list bool) (ops : list dop) (e : list (bytes * N)) {struct ops} : list (bytes * N) :=
  match ops with
  | [] => e
  | o :: ops' =>
      match mask with
      | b :: mask' => image_ents mask' ops' (if b then dapply e o else e)
      | [] => e
      end
  end.

(* the content of an inode after a crash: the synced content (sel = None) or the first k bytes of the volatile
   content — any k when the file was truncated/created since its last fsync, k >= the synced length otherwise *)
Definition crash_data (sel : option nat) (x : inode) : bytes :=
  match sel with
  | None => ddata x
  | Some k => if itrunc x || (length (ddata x) <=? k)%nat then firstn k (vdata x) else ddata x
  end.

Definition image_view (mask : list bool) (sel : N -> option nat) (s : fsys) : view :=
  map (fun ni => (fst ni, crash_data (sel (snd ni)) (get_ino (inos s) (snd ni))))
      (image_ents mask (pdir s) (dents s)).

Definition crash_image (s : fsys) (v : view) : Prop := exists mask sel, v = image_view mask sel s.

(* a file system holding exactly v, everything durable (the machine after the restart) *)
Fixpoint fs_of_view_from (v : view) (i : N) : list (bytes * N) * list (N * inode) :=
  match v with
  | [] => ([], [])
  | (n, c) :: v' => let (e, t) := fs_of_view_from v' (i + 1) in ((n, i) :: e, (i, IN c c false) :: t)
  end.

Definition fs_of_view (v : view) : fsys :=
  let (e, t) := fs_of_view_from v 0 in FS e e [] t (N.of_nat (length v)).

(* SetMeta / GetMeta on the durable file system (the guards are in section 5) *)
Definition set_meta (s : fsys) (fd : fdesc) : fsys := fapply_all s (set_meta_ops (vol_view s) fd).

Definition get_meta_fs (ro : bool) (s : fsys) : gresult * fsys :=
  let '(r, ops) := get_meta_ops ro (vol_view s) in (r, fapply_all s ops).

(* fileWrap.Sync: fsync of the file; for a manifest also the directory *)
Definition file_sync_ops (fd : fdesc) : list fsop :=
  OFsync (gen_name fd) :: (if ftype_eqb (fd_type fd) TManifest then [OSyncDir] else []).

(* ================================================================ 5. the storage object: guards and locks *)

Inductive serr :=
| SOk
| SErrClosed        (* storage.ErrClosed *)
| SErrLocked        (* storage.ErrLocked *)
| SErrReadOnly      (* errReadOnly *)
| SErrInvalidFile   (* storage.ErrInvalidFile *)
| SErrFlock         (* OpenFile: flock(LOCK_NB) refused (EWOULDBLOCK) *)
| SErrNotExist      (* os.ErrNotExist (missing directory opened read-only, missing file) *)
| SErrNoStor.       (* the call names a storage index that does not exist (not an API behaviour) *)

Definition serr_code (e : serr) : N :=
  match e with
  | SOk => 0 | SErrClosed => 1 | SErrLocked => 2 | SErrReadOnly => 3 | SErrInvalidFile => 4
  | SErrFlock => 5 | SErrNotExist => 6 | SErrNoStor => 7
  end.

(* flock state of the LOCK file *)
Inductive oslock := OsFree | OsShared (n : nat) | OsExcl.

(* one fileStorage value.  [so_slock]: identity of the fileStorageLock held (fs.slock), [so_nlock]: next identity *)
Record fstor := ST { so_ro : bool; so_closed : bool; so_slock : option N; so_nlock : N }.

(* one directory, the storages opened on it by this process; [p_exists]: the directory exists *)
Record proc := PR { p_exists : bool; p_os : oslock; p_stors : list fstor }.

(* a Locker value: the storage index it belongs to and its identity; a read-only storage hands out lockers
   bound to no storage (fs == nil) *)
Inductive locker := LK (s : nat) (id : N) | LKnone.

(* the guards of a method, in the order of the code *)
Inductive fmeth :=
| MSetMeta (okfd : bool)
| MGetMeta
| MList
| MOpen (okfd : bool)
| MCreate (okfd : bool)
| MRemove (okfd : bool)
| MRename (okfds : bool) (same : bool)
| MLog.

Definition guard (st : fstor) (m : fmeth) : serr :=
  let closed := if so_closed st then SErrClosed else SOk in
  let roc := if so_ro st then SErrReadOnly else closed in
  match m with
  | MSetMeta okfd => if okfd then roc else SErrInvalidFile
  | MGetMeta | MList => closed
  | MOpen okfd => if okfd then closed else SErrInvalidFile
  | MCreate okfd | MRemove okfd => if okfd then roc else SErrInvalidFile
  | MRename okfds same => if okfds then (if same then SOk else roc) else SErrInvalidFile
  | MLog => SOk
  end.

Inductive fcall :=
| FOpenFile (ro : bool)
| FLock (s : nat)
| FUnlock (l : locker)
| FClose (s : nat)
| FMeth (s : nat) (m : fmeth).

Fixpoint set_nth {A} (l : list A) (i : nat) (x : A) : list A :=
  match l, i with
  | [], _ => []
  | _ :: l', O => x :: l'
  | y :: l', S i' => y :: set_nth l' i' x
  end.

Definition os_release (o : oslock) (ro : bool) : oslock :=
  if ro then match o with OsShared (S (S n)) => OsShared (S n) | _ => OsFree end else OsFree.

(* one call: new state, error class, and the locker a successful Lock returns *)
Definition fstep (p : proc) (c : fcall) : proc * serr * option locker :=
  match c with
  | FOpenFile ro =>
      if negb (p_exists p) && ro then (p, SErrNotExist, None)
      else
        match p_os p, ro with
        | OsFree, false => (PR true OsExcl (p_stors p ++ [ST false false None 0]), SOk, None)
        | OsFree, true => (PR true (OsShared 1) (p_stors p ++ [ST true false None 0]), SOk, None)
        | OsShared n, true => (PR true (OsShared (S n)) (p_stors p ++ [ST true false None 0]), SOk, None)
        | _, _ => (PR true (p_os p) (p_stors p), SErrFlock, None)
        end
  | FLock s =>
      match nth_error (p_stors p) s with
      | None => (p, SErrNoStor, None)
      | Some st =>
          if so_closed st then (p, SErrClosed, None)
          else if so_ro st then (p, SOk, Some LKnone)
          else match so_slock st with
               | Some _ => (p, SErrLocked, None)
               | None => (PR (p_exists p) (p_os p)
                             (set_nth (p_stors p) s (ST false false (Some (so_nlock st)) (so_nlock st + 1))),
                          SOk, Some (LK s (so_nlock st)))
               end
      end
  | FUnlock LKnone => (p, SOk, None)
  | FUnlock (LK s id) =>
      match nth_error (p_stors p) s with
      | None => (p, SErrNoStor, None)
      | Some st =>
          match so_slock st with
          | Some cur => if cur =? id
                        then (PR (p_exists p) (p_os p) (set_nth (p_stors p) s (ST (so_ro st) (so_closed st) None (so_nlock st))), SOk, None)
                        else (p, SOk, None)
          | None => (p, SOk, None)
          end
      end
  | FClose s =>
      match nth_error (p_stors p) s with
      | None => (p, SErrNoStor, None)
      | Some st =>
          if so_closed st then (p, SErrClosed, None)
          else (PR (p_exists p) (os_release (p_os p) (so_ro st))
                   (set_nth (p_stors p) s (ST (so_ro st) true (so_slock st) (so_nlock st))), SOk, None)
      end
  | FMeth s m =>
      match nth_error (p_stors p) s with
      | None => (p, SErrNoStor, None)
      | Some st => (p, guard st m, None)
      end
  end.
