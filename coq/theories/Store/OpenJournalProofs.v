(* Store/OpenJournalProofs.v — the journal half of Open (Store/OpenPath.v replay_outcomes / rj_loop_ro) against the
   record-level recovery of Store/Crash.v (replay_journal) and against the memdb theory of C14 / C01.
   Proof file.

   A journal file that holds the batches bs is the journal framing of their records (Codec/Batch.v group_record of
   the merged group, first sequence number in the header).  What the tolerant reader yields on a crash image of it
   is a prefix of those records (Store/CrashBytesProofs.v).  Replaying written records:
     - decodeBatchToMem rejects a record whose first sequence number is below the running one with the buffer
       untouched, and otherwise is putMem of the group (C01_replay_equals_live);
     - the buffer's invariant is kept and its entries grow by exactly the stamped records of the accepted batches
       (C01's putmem_group_history);
     - the running number and the accepted batches are those of Store/Crash.v replay_journal. *)
From Coq Require Import List NArith ZArith Bool Lia.
From GL Require Import Base.Bytes Base.Order Codec.IKey Codec.Journal Codec.JournalSpec Codec.JournalProofs
  Codec.JournalReaderProofs Codec.Batch Codec.BatchProofs Codec.BatchGroupProofs
  Lsm.Lsm Lsm.History Lsm.HistoryProofs Lsm.ReadPath Lsm.ReadPathMem Lsm.BatchWriteProofs Store.Crash Store.OpenPath.
From GL Require Mem.MemDB Mem.MemOps Mem.MemInv.
Import ListNotations.
Open Scope N_scope.

(* ---------------------------------------------------------------- the tolerant reader never reports an error *)
Definition clean_outcome (o : outcome) : Prop :=
  match o with Rec _ | Skipped | Dropped _ _ => True | _ => False end.

Lemma assemble_tolerant_clean p st evs : Forall clean_outcome (assemble p false st evs).
Proof.
  revert st. induction evs as [|ev evs IH]; intros st.
  - destruct st; cbn; repeat constructor.
  - destruct ev as [c|r n]; cbn [assemble].
    + destruct st.
      * destruct (is_start_type p (c_type c)); [destruct (is_last_type p (c_type c))|];
          try (constructor; [exact I|]); apply IH.
      * destruct (is_last_type p (c_type c)); try (constructor; [exact I|]); apply IH.
    + constructor; [exact I|]. destruct st; try (constructor; [exact I|]); apply IH.
Qed.

Lemma jread_tolerant_clean crc p (pok : jparams_ok p) ck b : Forall clean_outcome (jread crc p false ck b).
Proof.
  unfold jread, outs. rewrite (reader_factor crc p pok).
  pose proof (assemble_tolerant_clean p AIdle (stream_events crc p ck b)) as H.
  induction H as [|o l Ho Hl IH]; cbn [filter]; [constructor|].
  destruct (negb (is_drop o)); [constructor; assumption|assumption].
Qed.

Section OpenJournal.
  Variable rp : SR.rparams.
  Variable kp : kparams.
  Hypothesis kpok : kparams_ok kp.
  Hypothesis seek_val : keyTypeSeek kp <= keyTypeVal kp.
  Variable mp : MemDB.mparams.
  Hypothesis mpok : MemDB.mparams_ok mp.
  Variable tp : Table.tparams.
  Variable tcrc : bytes -> N.
  Variable compress : bytes -> bytes.
  Variable snappy : bool.
  Variable fgen : option (bytes * (list (N * list bytes) -> bytes)).
  Variable blockSize ri : N.
  Variable c : comparer.
  Hypothesis cok : comparer_ok c.

  Local Notation bhl := 12.
  Local Notation rrec := (replay_record rp kp bhl mp tp tcrc compress snappy fgen blockSize ri c).
  Local Notation routs := (replay_outcomes rp kp bhl mp tp tcrc compress snappy fgen blockSize ri c).

  (* ---------------------------------------------------------------- batches as they sit in a journal *)
  (* first sequence number and the merged group's batches, each the list of its records *)
  Definition jbatch : Type := (N * list (list brec))%type.
  Definition jb_recs (b : jbatch) : list brec := concat (snd b).
  Definition jb_n (b : jbatch) : N := N.of_nat (length (jb_recs b)).
  Definition jb_enc (b : jbatch) : bytes := group_record (group_of kp (snd b)) (fst b).
  Definition jb_abs (b : jbatch) : Crash.batch := {| b_seq := fst b; b_n := jb_n b |}.
  (* what a batch leaves in the buffer *)
  Definition jb_entries (b : jbatch) : list entry := stamp (fst b - 1) (map (norm_rec kp) (jb_recs b)).

  Definition jb_ok (b : jbatch) : Prop :=
    Forall (rec_wf kp) (jb_recs b) /\ 1 <= fst b /\ fst b + jb_n b <= keyMaxSeq kp /\
    jb_n b < 2 ^ 32 /\ lenN (enc_recs kp (jb_recs b)) < 2 ^ 59.

  (* replay_journal of Store/Crash.v, keeping the batches themselves *)
  Fixpoint accepted (bs : list jbatch) (cur : N) : list jbatch * N :=
    match bs with
    | [] => ([], cur)
    | b :: r => if fst b <? cur then accepted r cur
                else let (a, e) := accepted r (fst b + jb_n b) in (b :: a, e)
    end.

  Lemma accepted_replay bs : forall cur acc,
    replay_journal (map jb_abs bs) cur acc = (snd (accepted bs cur), acc ++ map jb_abs (fst (accepted bs cur))).
  Proof.
    induction bs as [|b r IH]; intros cur acc; cbn [map replay_journal accepted].
    - cbn. now rewrite app_nil_r.
    - cbn [jb_abs b_seq b_n]. destruct (fst b <? cur); [apply IH|].
      rewrite IH. destruct (accepted r (fst b + jb_n b)) as [a e]. cbn [fst snd map].
      now rewrite <- app_assoc.
  Qed.

  (* ---------------------------------------------------------------- outcomes -> records *)
  Fixpoint replay_recs (o : oopts) (flush : bool) (j : N) (recs : list bytes) (st : rj) : ores rj :=
    match recs with
    | [] => OOk st
    | b :: r => obind (rrec o flush j b st) (replay_recs o flush j r)
    end.

  Lemma replay_outcomes_recs o flush j l : Forall clean_outcome l -> forall st,
    routs o flush j l st = replay_recs o flush j (recs_of l) st.
  Proof.
    induction 1 as [|x l Hx Hl IH]; intros st; [reflexivity|].
    destruct x; try contradiction; cbn [replay_outcomes recs_of flat_map app replay_recs].
    - destruct (rrec o flush j b st); cbn [obind]; [apply IH|reflexivity].
    - apply IH.
    - apply IH.
  Qed.

  (* ---------------------------------------------------------------- the buffer during a replay *)
  Definition mem_inv (st : rj) : Prop :=
    mem_ok c kp mp (r_mdb st) /\ heights_okl mp (r_hts st) /\
    (forall x, In x (mem_entries mp (Some (r_mdb st))) -> e_seq x < r_seq st).

  Lemma u64_id x : x < 2 ^ 64 -> u64 x = x.
  Proof. intros H. unfold u64. apply N.mod_small. exact H. Qed.

  Lemma max_seq_64 : keyMaxSeq kp + 1 < 2 ^ 64.
  Proof.
    destruct kpok as (_ & _ & _ & _ & Hm & _). rewrite Hm.
    change (2 ^ 56) with 72057594037927936. change (2 ^ 64) with 18446744073709551616. lia.
  Qed.

  (* one written record, not strict, no flush *)
  Lemma replay_record_written o j b st :
    oo_strict_j o = false -> jb_ok b -> mem_inv st ->
    exists st', rrec o false j (jb_enc b) st = OOk st' /\ r_c st' = r_c st /\ r_rec st' = r_rec st /\ mem_inv st' /\
      if fst b <? r_seq st
      then r_seq st' = r_seq st /\ r_mdb st' = r_mdb st /\ r_hts st' = r_hts st /\ r_kept st' = r_kept st
      else r_seq st' = fst b + jb_n b /\ r_kept st' = r_kept st ++ [(fst b, jb_n b)] /\
           (forall x, In x (mem_entries mp (Some (r_mdb st'))) <->
                      In x (mem_entries mp (Some (r_mdb st))) \/ In x (jb_entries b)).
  Proof.
    intros Hns (Hw & H1 & Hs & Hn & Hl) (Hm & Hh & Hf).
    pose proof max_seq_64 as M64.
    assert (Hok : Forall (rec_ok kp) (jb_recs b)) by (eapply Forall_impl; [|exact Hw]; apply (rec_wf_ok kp kpok seek_val)).
    assert (Hs64 : fst b < 2 ^ 64) by (unfold jb_n in *; lia).
    unfold replay_record, jb_enc.
    rewrite (replay_equals_live kp kpok bhl eq_refl (ibc c) mp (snd b) (fst b) (r_seq st) (r_mdb st) (r_hts st) Hok Hs64 Hn Hl ltac:(unfold jb_n, jb_recs in *; lia)).
    destruct (fst b <? r_seq st) eqn:Elt.
    - rewrite Hns. destruct st as [cs rec sq d hts kept]. cbn [r_c r_rec r_seq r_mdb r_hts r_kept] in *.
      eexists. split; [reflexivity|]. cbn [r_c r_rec r_seq r_mdb r_hts r_kept].
      split; [reflexivity|]. split; [reflexivity|]. split; [exact (conj Hm (conj Hh Hf))|].
      repeat split; reflexivity.
    - apply N.ltb_ge in Elt.
      assert (Hl' : lenN (enc_recs kp (jb_recs b)) < 2 ^ 63).
      { change (2 ^ 59) with 576460752303423488 in Hl. change (2 ^ 63) with 9223372036854775808. lia. }
      assert (Hf' : forall x, In x (mem_entries mp (Some (r_mdb st))) -> e_seq x <= fst b - 1).
      { intros x Hx. specialize (Hf x Hx). lia. }
      destruct (putmem_group_history c cok kp kpok seek_val mp mpok (r_mdb st) (snd b) (fst b - 1) (r_hts st) Hm Hf' Hw ltac:(unfold jb_n, jb_recs in *; lia) Hh Hl')
        as (d' & hs' & E & Hm' & Hh' & Hin).
      replace (fst b - 1 + 1) with (fst b) in E by lia. rewrite E.
      cbn [andb]. eexists. split; [reflexivity|]. cbn [r_c r_rec r_seq r_mdb r_hts r_kept].
      assert (Eu : u64 (fst b + N.of_nat (length (concat (snd b)))) = fst b + jb_n b).
      { apply u64_id. unfold jb_n, jb_recs in *. lia. }
      split; [reflexivity|]. split; [reflexivity|]. split.
      + unfold mem_inv. cbn [r_seq r_mdb r_hts].
        split; [exact Hm'|]. split; [exact Hh'|]. intros x Hx. rewrite Eu. apply Hin in Hx as [Hx|Hx].
        * specialize (Hf x Hx). unfold jb_n. lia.
        * pose proof (stamp_seq (fst b - 1) (map (norm_rec kp) (concat (snd b))) x Hx) as R.
          rewrite map_length in R. unfold jb_n, jb_recs. lia.
      + split; [exact Eu|]. split; [reflexivity|]. exact Hin.
  Qed.

  (* ---------------------------------------------------------------- read-write: flushes in between *)
  Lemma rep_empty_ok d : MemOps.rep (ibc c) mp d [] [] [] 0 -> mem_ok c kp mp d /\ mem_entries mp (Some d) = [].
  Proof.
    intros (I & Eabs & _).
    assert (Ep : mem_pairs mp d = []).
    { rewrite (mem_pairs_abs c kp seek_val mp mpok d [] [] I). exact Eabs. }
    split.
    - split; [exists [], []; exact I|]. unfold mem_keys_okb. rewrite Ep. reflexivity.
    - cbn [mem_entries]. rewrite Ep. reflexivity.
  Qed.

  Lemma reset_mem_ok d : mem_ok c kp mp d ->
    exists d', MemDB.mdb_reset mp d = MemDB.Ok d' /\ mem_ok c kp mp d' /\ mem_entries mp (Some d') = [].
  Proof.
    intros [(A & L & I) _].
    destruct (MemOps.reset_ok (ibc c) mp mpok d (MemInv.inv_head _ _ _ _ _ I)) as (d' & E & R).
    exists d'. split; [exact E|]. apply rep_empty_ok. exact R.
  Qed.

  (* files *)
  Lemma ftype_eqb_eq a b : SW.ftype_eqb a b = true <-> a = b.
  Proof. destruct a, b; cbn; split; intros H; try reflexivity; discriminate. Qed.

  Lemma fd_eqb_eq (a b : SW.fd) : SW.fd_eqb a b = true <-> a = b.
  Proof.
    destruct a as [ta na], b as [tb nb]. unfold SW.fd_eqb. cbn [fst snd]. rewrite andb_true_iff, ftype_eqb_eq, N.eqb_eq.
    split; [intros [-> ->]; reflexivity|intros E; injection E as -> ->; split; reflexivity].
  Qed.

  Lemma fd_eqb_neq (a b : SW.fd) : a <> b -> SW.fd_eqb a b = false.
  Proof. intros H. destruct (SW.fd_eqb a b) eqn:E; [|reflexivity]. apply fd_eqb_eq in E. contradiction. Qed.

  Lemma f_lookup_del_other fs x y : y <> x -> f_lookup (f_del fs x) y = f_lookup fs y.
  Proof.
    intros H. induction fs as [|[z d] fs IH]; [reflexivity|]. unfold f_del in *. cbn [filter fst f_lookup].
    destruct (SW.fd_eqb x z) eqn:E; cbn [negb].
    - apply fd_eqb_eq in E. subst z. rewrite (fd_eqb_neq y x H). exact IH.
    - cbn [f_lookup]. destruct (SW.fd_eqb y z); [reflexivity|exact IH].
  Qed.

  Lemma f_lookup_set_other fs x d y : y <> x -> f_lookup (f_set fs x d) y = f_lookup fs y.
  Proof. intros H. unfold f_set. cbn [f_lookup]. rewrite (fd_eqb_neq y x H). apply f_lookup_del_other. exact H. Qed.

  (* the journal files other than [except] are the same in both storages *)
  Definition same_journals (except : option N) (fs fs' : files) : Prop :=
    forall j, except <> Some j -> f_lookup fs' (SW.FJournal, j) = f_lookup fs (SW.FJournal, j).

  Lemma same_journals_refl e fs : same_journals e fs fs.
  Proof. intros j _. reflexivity. Qed.

  Lemma same_journals_trans e fs1 fs2 fs3 : same_journals None fs1 fs2 -> same_journals e fs2 fs3 -> same_journals e fs1 fs3.
  Proof. intros A B j Hj. rewrite (B j Hj). apply A. discriminate. Qed.

  Lemma same_journals_set_table e fs t d : same_journals e fs (f_set fs (SW.FTable, t) d).
  Proof. intros j _. apply f_lookup_set_other. discriminate. Qed.
  Lemma same_journals_set_manifest e fs t d : same_journals e fs (f_set fs (SW.FManifest, t) d).
  Proof. intros j _. apply f_lookup_set_other. discriminate. Qed.
  Lemma same_journals_del_manifest e fs t : same_journals e fs (f_del fs (SW.FManifest, t)).
  Proof. intros j _. apply f_lookup_del_other. discriminate. Qed.
  Lemma same_journals_del_journal fs o : same_journals (Some o) fs (f_del fs (SW.FJournal, o)).
  Proof. intros j Hj. apply f_lookup_del_other. intros E. injection E as ->. apply Hj. reflexivity. Qed.
  Lemma same_journals_weaken e fs fs' : same_journals None fs fs' -> same_journals e fs fs'.
  Proof. intros H j _. apply H. discriminate. Qed.

  Local Notation flushm := (flush_memdb rp kp mp tp tcrc compress snappy fgen blockSize ri c).

  Lemma flush_memdb_facts st st' : flushm st = OOk st' ->
    r_seq st' = r_seq st /\ r_mdb st' = r_mdb st /\ r_hts st' = r_hts st /\ r_kept st' = r_kept st /\
    same_journals None (c_files (r_c st)) (c_files (r_c st')).
  Proof.
    unfold flush_memdb. destruct (Table.twrite _ _ _ _ _ _ _ _ _) as [file|]; [|discriminate].
    intros E. injection E as <-. cbn [r_seq r_mdb r_hts r_kept r_c c_files].
    repeat split; try reflexivity. apply same_journals_set_table.
  Qed.

  (* one written record, not strict, with the flush *)
  Lemma replay_record_written_rw o j b st st' :
    oo_strict_j o = false -> jb_ok b -> mem_inv st -> rrec o true j (jb_enc b) st = OOk st' ->
    mem_inv st' /\ same_journals None (c_files (r_c st)) (c_files (r_c st')) /\
    if fst b <? r_seq st
    then r_seq st' = r_seq st /\ r_kept st' = r_kept st
    else r_seq st' = fst b + jb_n b /\ r_kept st' = r_kept st ++ [(fst b, jb_n b)].
  Proof.
    intros Hns Hb Hinv.
    destruct (replay_record_written o j b st Hns Hb Hinv) as (st1 & E1 & Ec1 & Er1 & Hinv1 & Hcase).
    revert E1. unfold replay_record.
    destruct (decode_to_mem kp bhl (ibc c) mp (jb_enc b) (r_seq st) (r_mdb st) (r_hts st)) as [sq bl d hts|e d hts| |];
      try discriminate.
    - (* accepted *)
      cbn [andb]. intros E1. injection E1 as <-. cbn [r_c r_rec r_seq r_mdb r_hts r_kept] in *.
      destruct (fst b <? r_seq st) eqn:Elt.
      { (* the model says rejected, but decode accepted: r_kept would differ *)
        destruct Hcase as (_ & _ & _ & K). exfalso. clear - K.
        assert (L : length (r_kept st ++ [(sq, bl)]) = length (r_kept st)) by (rewrite K; reflexivity).
        rewrite app_length in L. cbn in L. lia. }
      destruct Hcase as (S1 & K1 & _).
      destruct (oo_wbuf o <=? MemDB.mdb_size d)%Z.
      + destruct (flushm _) as [st2|e2] eqn:Ef; cbn [obind]; [|discriminate].
        destruct (flush_memdb_facts _ _ Ef) as (Fs & Fm & Fh & Fk & Fj). cbn [r_seq r_mdb r_hts r_kept r_c] in *.
        destruct (reset_mem_ok (r_mdb st2)) as (d0 & Er & Hm0 & He0); [rewrite Fm; exact (proj1 Hinv1)|].
        rewrite Er. cbn [of_mres obind]. intros E. injection E as <-.
        unfold mem_inv, set_mdb. cbn [r_seq r_mdb r_hts r_kept r_c].
        split; [split; [exact Hm0|split; [rewrite Fh; exact (proj1 (proj2 Hinv1))|intros x Hx; rewrite He0 in Hx; destruct Hx]]|].
        split; [exact Fj|]. rewrite Fs, Fk. split; [exact S1|exact K1].
      + intros E. injection E as <-. cbn [r_seq r_mdb r_hts r_kept r_c].
        split; [exact Hinv1|]. split; [apply same_journals_refl|]. split; [exact S1|exact K1].
    - (* rejected or damaged: not strict *)
      rewrite Hns. intros E1 E. rewrite E1 in E. injection E as <-.
      split; [exact Hinv1|]. split; [rewrite Ec1; apply same_journals_refl|].
      destruct (fst b <? r_seq st).
      + destruct Hcase as (S1 & _ & _ & K1). split; assumption.
      + destruct Hcase as (S1 & K1 & _). split; assumption.
  Qed.

  Definition jb_pair (b : jbatch) : N * N := (fst b, jb_n b).

  (* a list of written records *)
  Lemma replay_recs_written o j bs : oo_strict_j o = false -> Forall jb_ok bs -> forall st, mem_inv st ->
    exists st', replay_recs o false j (map jb_enc bs) st = OOk st' /\ r_c st' = r_c st /\ r_rec st' = r_rec st /\
      mem_inv st' /\
      r_seq st' = snd (accepted bs (r_seq st)) /\
      r_kept st' = r_kept st ++ map jb_pair (fst (accepted bs (r_seq st))) /\
      (forall x, In x (mem_entries mp (Some (r_mdb st'))) <->
                 In x (mem_entries mp (Some (r_mdb st))) \/ In x (flat_map jb_entries (fst (accepted bs (r_seq st))))).
  Proof.
    intros Hns Hbs. induction Hbs as [|b r Hb Hr IH]; intros st Hinv.
    - exists st. cbn [map replay_recs accepted fst snd flat_map]. rewrite app_nil_r.
      split; [reflexivity|]. split; [reflexivity|]. split; [reflexivity|]. split; [exact Hinv|].
      split; [reflexivity|]. split; [reflexivity|].
      intros x. split; [intros H; left; exact H|intros [H|[]]; exact H].
    - destruct (replay_record_written o j b st Hns Hb Hinv) as (st1 & E1 & Ec & Er & Hinv1 & Hcase).
      cbn [map replay_recs accepted]. rewrite E1. cbn [obind].
      destruct (IH st1 Hinv1) as (st' & E' & Ec' & Er' & Hinv' & Es' & Ek' & Hin').
      exists st'. split; [exact E'|]. split; [congruence|]. split; [congruence|]. split; [exact Hinv'|].
      destruct (fst b <? r_seq st) eqn:Elt.
      + destruct Hcase as (S1 & D1 & H1 & K1). rewrite S1 in *. rewrite K1 in Ek'. rewrite D1 in Hin'.
        split; [exact Es'|]. split; [exact Ek'|exact Hin'].
      + destruct Hcase as (S1 & K1 & Hin1). rewrite S1 in *.
        destruct (accepted r (fst b + jb_n b)) as [a e] eqn:Ea. cbn [fst snd] in *.
        split; [exact Es'|]. split.
        * rewrite Ek', K1. cbn [map]. rewrite <- app_assoc. reflexivity.
        * intros x. rewrite Hin', Hin1. cbn [flat_map]. rewrite in_app_iff. tauto.
  Qed.

  Lemma replay_recs_written_rw o j bs : oo_strict_j o = false -> Forall jb_ok bs -> forall st st', mem_inv st ->
    replay_recs o true j (map jb_enc bs) st = OOk st' ->
    mem_inv st' /\ same_journals None (c_files (r_c st)) (c_files (r_c st')) /\
    r_seq st' = snd (accepted bs (r_seq st)) /\
    r_kept st' = r_kept st ++ map jb_pair (fst (accepted bs (r_seq st))).
  Proof.
    intros Hns Hbs. induction Hbs as [|b r Hb Hr IH]; intros st st' Hinv.
    - cbn [map replay_recs accepted fst snd]. intros E. injection E as <-. rewrite app_nil_r.
      split; [exact Hinv|]. split; [apply same_journals_refl|]. split; reflexivity.
    - cbn [map replay_recs]. destruct (rrec o true j (jb_enc b) st) as [st1|e] eqn:E1; cbn [obind]; [|discriminate].
      intros E'. destruct (replay_record_written_rw o j b st st1 Hns Hb Hinv E1) as (Hinv1 & J1 & Hcase).
      destruct (IH st1 st' Hinv1 E') as (Hinv' & J' & Es' & Ek').
      split; [exact Hinv'|]. split; [exact (same_journals_trans None _ _ _ J1 J')|].
      cbn [accepted]. destruct (fst b <? r_seq st).
      + destruct Hcase as (S1 & K1). rewrite S1 in *. rewrite K1 in Ek'. split; assumption.
      + destruct Hcase as (S1 & K1). rewrite S1 in *.
        destruct (accepted r (fst b + jb_n b)) as [a e]. cbn [fst snd] in *.
        split; [exact Es'|]. rewrite Ek', K1. cbn [map]. rewrite <- app_assoc. reflexivity.
  Qed.

  (* replay_journal over consecutive journals = over their concatenation *)
  Lemma accepted_app a : forall b cur,
    accepted (a ++ b) cur =
    (fst (accepted a cur) ++ fst (accepted b (snd (accepted a cur))), snd (accepted b (snd (accepted a cur)))).
  Proof.
    induction a as [|x a IH]; intros b cur; cbn [app accepted fst snd].
    - now destruct (accepted b cur).
    - destruct (fst x <? cur); [apply IH|].
      rewrite IH. destruct (accepted a (fst x + jb_n x)) as [u e]. cbn [fst snd app]. reflexivity.
  Qed.
End OpenJournal.
