(* Store/OpenJournalProofs.v — the journal half of Open (Store/OpenPath.v replay_outcomes / rj_loop_ro) against the
   record-level recovery of Store/Crash.v (replay_journal) and against the memdb theory of C14 / C01.
   Proof file.

   A journal file that holds the batches bs is the journal framing of their records (Codec/Batch.v group_record of
   the merged group, first sequence number in the header).  What the tolerant reader yields on a crash image of it
   is a prefix of those records (Store/CrashBytesProofs.v).  Replaying written records:
     - decodeBatchToMem rejects a record whose first sequence number is below the running one with the buffer
       untouched, and otherwise is putMem of the group (C01_replay_equals_live);
     - the buffer's invariant is kept and its entries grow by exactly the stamped records of the accepted batches
       (C01's putmem_group_history);
     - the running number and the accepted batches are those of Store/Crash.v replay_journal. *)
From Coq Require Import List NArith ZArith Bool Lia.
From GL Require Import Base.Bytes Base.Order Codec.IKey Codec.Journal Codec.JournalSpec Codec.JournalProofs
  Codec.JournalReaderProofs Codec.Batch Codec.BatchProofs Codec.BatchGroupProofs
  Lsm.Lsm Lsm.History Lsm.HistoryProofs Lsm.ReadPath Lsm.ReadPathMem Lsm.BatchWriteProofs Store.Crash Store.OpenPath.
From GL Require Mem.MemDB Mem.MemOps Mem.MemInv.
Import ListNotations.
Open Scope N_scope.

(* ---------------------------------------------------------------- the tolerant reader never reports an error *)
Definition clean_outcome (o : outcome) : Prop :=
  match o with Rec _ | Skipped | Dropped _ _ => True | _ => False end.

Lemma assemble_tolerant_clean p st evs : Forall clean_outcome (assemble p false st evs).
Proof.
  revert st. induction evs as [|ev evs IH]; intros st.
  - destruct st; cbn; repeat constructor.
  - destruct ev as [c|r n]; cbn [assemble].
    + destruct st.
      * destruct (is_start_type p (c_type c)); [destruct (is_last_type p (c_type c))|];
          try (constructor; [exact I|]); apply IH.
      * destruct (is_last_type p (c_type c)); try (constructor; [exact I|]); apply IH.
    + constructor; [exact I|]. destruct st; try (constructor; [exact I|]); apply IH.
Qed.

Lemma jread_tolerant_clean crc p (pok : jparams_ok p) ck b : Forall clean_outcome (jread crc p false ck b).
Proof.
  unfold jread, outs. rewrite (reader_factor crc p pok).
  pose proof (assemble_tolerant_clean p AIdle (stream_events crc p ck b)) as H.
  induction H as [|o l Ho Hl IH]; cbn [filter]; [constructor|].
  destruct (negb (is_drop o)); [constructor; assumption|assumption].
Qed.

Section OpenJournal.
  Variable rp : SR.rparams.
  Variable kp : kparams.
  Hypothesis kpok : kparams_ok kp.
  Hypothesis seek_val : keyTypeSeek kp <= keyTypeVal kp.
  Variable mp : MemDB.mparams.
  Hypothesis mpok : MemDB.mparams_ok mp.
  Variable tp : Table.tparams.
  Variable tcrc : bytes -> N.
  Variable compress : bytes -> bytes.
  Variable snappy : bool.
  Variable fgen : option (bytes * (list (N * list bytes) -> bytes)).
  Variable blockSize ri : N.
  Variable c : comparer.
  Hypothesis cok : comparer_ok c.

  Local Notation bhl := 12.
  Local Notation rrec := (replay_record rp kp bhl mp tp tcrc compress snappy fgen blockSize ri c).
  Local Notation routs := (replay_outcomes rp kp bhl mp tp tcrc compress snappy fgen blockSize ri c).

  (* ---------------------------------------------------------------- batches as they sit in a journal *)
  (* first sequence number and the merged group's batches, each the list of its records *)
  Definition jbatch : Type := (N * list (list brec))%type.
  Definition jb_recs (b : jbatch) : list brec := concat (snd b).
  Definition jb_n (b : jbatch) : N := N.of_nat (length (jb_recs b)).
  Definition jb_enc (b : jbatch) : bytes := group_record (group_of kp (snd b)) (fst b).
  Definition jb_abs (b : jbatch) : Crash.batch := {| b_seq := fst b; b_n := jb_n b |}.
  (* what a batch leaves in the buffer *)
  Definition jb_entries (b : jbatch) : list entry := stamp (fst b - 1) (map (norm_rec kp) (jb_recs b)).

  Definition jb_ok (b : jbatch) : Prop :=
    Forall (rec_wf kp) (jb_recs b) /\ 1 <= fst b /\ fst b - 1 + jb_n b <= keyMaxSeq kp /\
    jb_n b < 2 ^ 32 /\ lenN (enc_recs kp (jb_recs b)) < 2 ^ 59.

  (* replay_journal of Store/Crash.v, keeping the batches themselves *)
  Fixpoint accepted (bs : list jbatch) (cur : N) : list jbatch * N :=
    match bs with
    | [] => ([], cur)
    | b :: r => if fst b <? cur then accepted r cur
                else let (a, e) := accepted r (fst b + jb_n b) in (b :: a, e)
    end.

  Lemma accepted_replay bs : forall cur acc,
    replay_journal (map jb_abs bs) cur acc = (snd (accepted bs cur), acc ++ map jb_abs (fst (accepted bs cur))).
  Proof.
    induction bs as [|b r IH]; intros cur acc; cbn [map replay_journal accepted].
    - cbn. now rewrite app_nil_r.
    - cbn [jb_abs b_seq b_n]. destruct (fst b <? cur); [apply IH|].
      rewrite IH. destruct (accepted r (fst b + jb_n b)) as [a e]. cbn [fst snd map].
      now rewrite <- app_assoc.
  Qed.

  (* ---------------------------------------------------------------- outcomes -> records *)
  Fixpoint replay_recs (o : oopts) (flush : bool) (j : N) (recs : list bytes) (st : rj) : ores rj :=
    match recs with
    | [] => OOk st
    | b :: r => obind (rrec o flush j b st) (replay_recs o flush j r)
    end.

  Lemma replay_outcomes_recs o flush j l : Forall clean_outcome l -> forall st,
    routs o flush j l st = replay_recs o flush j (recs_of l) st.
  Proof.
    induction 1 as [|x l Hx Hl IH]; intros st; [reflexivity|].
    destruct x; try contradiction; cbn [replay_outcomes recs_of flat_map app replay_recs].
    - destruct (rrec o flush j b st); cbn [obind]; [apply IH|reflexivity].
    - apply IH.
    - apply IH.
  Qed.

  (* ---------------------------------------------------------------- the buffer during a replay *)
  Definition mem_inv (st : rj) : Prop :=
    mem_ok c kp mp (r_mdb st) /\ heights_okl mp (r_hts st) /\
    (forall x, In x (mem_entries mp (Some (r_mdb st))) -> e_seq x < r_seq st).

  Lemma u64_id x : x < 2 ^ 64 -> u64 x = x.
  Proof. intros H. unfold u64. apply N.mod_small. exact H. Qed.

  Lemma max_seq_64 : keyMaxSeq kp + 1 < 2 ^ 64.
  Proof.
    destruct kpok as (_ & _ & _ & _ & Hm & _). rewrite Hm.
    change (2 ^ 56) with 72057594037927936. change (2 ^ 64) with 18446744073709551616. lia.
  Qed.

  (* one written record, not strict, no flush *)
  Lemma replay_record_written o j b st :
    oo_strict_j o = false -> jb_ok b -> mem_inv st ->
    exists st', rrec o false j (jb_enc b) st = OOk st' /\ r_c st' = r_c st /\ r_rec st' = r_rec st /\ mem_inv st' /\
      if fst b <? r_seq st
      then r_seq st' = r_seq st /\ r_mdb st' = r_mdb st /\ r_hts st' = r_hts st /\ r_kept st' = r_kept st
      else r_seq st' = fst b + jb_n b /\ r_kept st' = r_kept st ++ [(fst b, jb_n b)] /\
           (forall x, In x (mem_entries mp (Some (r_mdb st'))) <->
                      In x (mem_entries mp (Some (r_mdb st))) \/ In x (jb_entries b)).
  Proof.
    intros Hns (Hw & H1 & Hs & Hn & Hl) (Hm & Hh & Hf).
    pose proof max_seq_64 as M64.
    assert (Hok : Forall (rec_ok kp) (jb_recs b)) by (eapply Forall_impl; [|exact Hw]; apply (rec_wf_ok kp kpok seek_val)).
    assert (Hs64 : fst b < 2 ^ 64) by (unfold jb_n in *; lia).
    unfold replay_record, jb_enc.
    rewrite (replay_equals_live kp kpok bhl eq_refl (ibc c) mp (snd b) (fst b) (r_seq st) (r_mdb st) (r_hts st) Hok Hs64 Hn Hl).
    destruct (fst b <? r_seq st) eqn:Elt.
    - rewrite Hns. destruct st as [cs rec sq d hts kept]. cbn [r_c r_rec r_seq r_mdb r_hts r_kept] in *.
      eexists. split; [reflexivity|]. cbn [r_c r_rec r_seq r_mdb r_hts r_kept].
      split; [reflexivity|]. split; [reflexivity|]. split; [exact (conj Hm (conj Hh Hf))|].
      repeat split; reflexivity.
    - apply N.ltb_ge in Elt.
      assert (Hl' : lenN (enc_recs kp (jb_recs b)) < 2 ^ 63).
      { change (2 ^ 59) with 576460752303423488 in Hl. change (2 ^ 63) with 9223372036854775808. lia. }
      assert (Hf' : forall x, In x (mem_entries mp (Some (r_mdb st))) -> e_seq x <= fst b - 1).
      { intros x Hx. specialize (Hf x Hx). lia. }
      destruct (putmem_group_history c cok kp kpok seek_val mp mpok (r_mdb st) (snd b) (fst b - 1) (r_hts st) Hm Hf' Hw Hs Hh Hl')
        as (d' & hs' & E & Hm' & Hh' & Hin).
      replace (fst b - 1 + 1) with (fst b) in E by lia. rewrite E.
      cbn [andb]. eexists. split; [reflexivity|]. cbn [r_c r_rec r_seq r_mdb r_hts r_kept].
      assert (Eu : u64 (fst b + N.of_nat (length (concat (snd b)))) = fst b + jb_n b).
      { apply u64_id. unfold jb_n, jb_recs in *. lia. }
      split; [reflexivity|]. split; [reflexivity|]. split.
      + unfold mem_inv. cbn [r_seq r_mdb r_hts].
        split; [exact Hm'|]. split; [exact Hh'|]. intros x Hx. rewrite Eu. apply Hin in Hx as [Hx|Hx].
        * specialize (Hf x Hx). unfold jb_n. lia.
        * pose proof (stamp_seq (fst b - 1) (map (norm_rec kp) (concat (snd b))) x Hx) as R.
          rewrite map_length in R. unfold jb_n, jb_recs. lia.
      + split; [exact Eu|]. split; [reflexivity|]. exact Hin.
  Qed.

  Definition jb_pair (b : jbatch) : N * N := (fst b, jb_n b).

  (* a list of written records *)
  Lemma replay_recs_written o j bs : oo_strict_j o = false -> Forall jb_ok bs -> forall st, mem_inv st ->
    exists st', replay_recs o false j (map jb_enc bs) st = OOk st' /\ r_c st' = r_c st /\ r_rec st' = r_rec st /\
      mem_inv st' /\
      r_seq st' = snd (accepted bs (r_seq st)) /\
      r_kept st' = r_kept st ++ map jb_pair (fst (accepted bs (r_seq st))) /\
      (forall x, In x (mem_entries mp (Some (r_mdb st'))) <->
                 In x (mem_entries mp (Some (r_mdb st))) \/ In x (flat_map jb_entries (fst (accepted bs (r_seq st))))).
  Proof.
    intros Hns Hbs. induction Hbs as [|b r Hb Hr IH]; intros st Hinv.
    - exists st. cbn [map replay_recs accepted fst snd flat_map]. rewrite app_nil_r.
      split; [reflexivity|]. split; [reflexivity|]. split; [reflexivity|]. split; [exact Hinv|].
      split; [reflexivity|]. split; [reflexivity|].
      intros x. split; [intros H; left; exact H|intros [H|[]]; exact H].
    - destruct (replay_record_written o j b st Hns Hb Hinv) as (st1 & E1 & Ec & Er & Hinv1 & Hcase).
      cbn [map replay_recs accepted]. rewrite E1. cbn [obind].
      destruct (IH st1 Hinv1) as (st' & E' & Ec' & Er' & Hinv' & Es' & Ek' & Hin').
      exists st'. split; [exact E'|]. split; [congruence|]. split; [congruence|]. split; [exact Hinv'|].
      destruct (fst b <? r_seq st) eqn:Elt.
      + destruct Hcase as (S1 & D1 & H1 & K1). rewrite S1 in *. rewrite K1 in Ek'. rewrite D1 in Hin'.
        split; [exact Es'|]. split; [exact Ek'|exact Hin'].
      + destruct Hcase as (S1 & K1 & Hin1). rewrite S1 in *.
        destruct (accepted r (fst b + jb_n b)) as [a e] eqn:Ea. cbn [fst snd] in *.
        split; [exact Es'|]. split.
        * rewrite Ek', K1. cbn [map]. rewrite <- app_assoc. reflexivity.
        * intros x. rewrite Hin', Hin1. cbn [flat_map]. rewrite in_app_iff. tauto.
  Qed.

  (* replay_journal over consecutive journals = over their concatenation *)
  Lemma accepted_app a : forall b cur,
    accepted (a ++ b) cur =
    (fst (accepted a cur) ++ fst (accepted b (snd (accepted a cur))), snd (accepted b (snd (accepted a cur)))).
  Proof.
    induction a as [|x a IH]; intros b cur; cbn [app accepted fst snd].
    - now destruct (accepted b cur).
    - destruct (fst x <? cur); [apply IH|].
      rewrite IH. destruct (accepted a (fst x + jb_n x)) as [u e]. cbn [fst snd app]. reflexivity.
  Qed.
End OpenJournal.
